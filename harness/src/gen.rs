//! Case generators. Every random choice comes from one SplitMix64 state.

use std::io::Write;

use crate::rng::Rng;

pub const ACGT: [u8; 4] = [b'A', b'C', b'G', b'T'];

pub fn valid_ks() -> Vec<usize> {
    (5..=63).step_by(2).collect()
}

pub fn widths_for(k: usize) -> Vec<usize> {
    if k <= 31 {
        vec![64, 128]
    } else {
        vec![128]
    }
}

pub fn rand_acgt(r: &mut Rng, n: usize) -> Vec<u8> {
    (0..n).map(|_| *r.pick(&ACGT)).collect()
}

pub fn comp(b: u8) -> u8 {
    match b {
        b'A' => b'T',
        b'C' => b'G',
        b'G' => b'C',
        b'T' => b'A',
        b'a' => b't',
        b'c' => b'g',
        b'g' => b'c',
        b't' => b'a',
        b'U' => b'A',
        b'u' => b'a',
        x => x,
    }
}

pub fn revcomp(s: &[u8]) -> Vec<u8> {
    s.iter().rev().map(|b| comp(*b)).collect()
}

fn s(v: &[u8]) -> String {
    if v.is_empty() {
        ".".into()
    } else {
        String::from_utf8_lossy(v).into_owned()
    }
}

/// A sequence aimed at the corner cases of window extraction: lengths around k,
/// N/n at chosen distances from the ends and in runs, planted repeats with
/// different middle bases in both orientations, self-reverse-complement arms,
/// mixed case.
pub fn tricky_seq(r: &mut Rng, k: usize) -> Vec<u8> {
    let h = (k - 1) / 2;
    let len = match r.below(10) {
        0 => r.below(k),             // shorter than k (incl. 0)
        1 => k - 1,
        2 => k,
        3 => k + 1,
        4 => k + 2,
        5 => 2 * k,
        6 => 2 * k + 1,
        _ => 3 * k + r.below(2 * k),
    };
    let mut v = rand_acgt(r, len);
    // planted repeat of the arms with another middle base, maybe reverse-complemented
    if len >= 3 * k && r.chance(1, 2) {
        let src = r.below(len - k + 1);
        let mut w: Vec<u8> = v[src..src + k].to_vec();
        if r.chance(2, 3) {
            w[h] = *r.pick(&ACGT);
        }
        if r.chance(1, 2) {
            w = revcomp(&w);
        }
        let dst = r.below(len - k + 1);
        v[dst..dst + k].copy_from_slice(&w);
    }
    // self-reverse-complement arms: left arm L, right arm revcomp(L)
    if len >= k && r.chance(1, 4) {
        let dst = r.below(len - k + 1);
        let l = rand_acgt(r, h);
        let rcl = revcomp(&l);
        v[dst..dst + h].copy_from_slice(&l);
        v[dst + h + 1..dst + k].copy_from_slice(&rcl);
        // sometimes a second copy with another middle base
        if len >= 2 * k + 1 && r.chance(1, 2) {
            let dst2 = r.below(len - k + 1);
            let mid = *r.pick(&ACGT);
            v[dst2..dst2 + h].copy_from_slice(&l);
            v[dst2 + h] = mid;
            v[dst2 + h + 1..dst2 + k].copy_from_slice(&rcl);
        }
    }
    // N placement
    if len > 0 {
        match r.below(8) {
            0 | 1 => {}
            2 => {
                // distance d from the start
                let d = r.below(k + 3);
                if d < len {
                    v[d] = b'N';
                }
            }
            3 => {
                let d = r.below(k + 3);
                if d < len {
                    v[len - 1 - d] = b'N';
                }
            }
            4 => {
                // a run
                let a = r.below(len);
                let run = 1 + r.below(4);
                for i in a..usize::min(len, a + run) {
                    v[i] = if r.chance(1, 3) { b'n' } else { b'N' };
                }
            }
            5 => {
                // two Ns exactly k or k+1 apart: one window (or none) between them
                let a = r.below(len);
                let b = a + k + r.below(2);
                v[a] = b'N';
                if b < len {
                    v[b] = b'N';
                }
            }
            6 => {
                // N exactly k+1 from the end and one at the start
                if len > k + 1 {
                    v[len - k - 1] = b'N';
                }
                if r.chance(1, 2) {
                    v[0] = b'n';
                }
            }
            _ => {
                for _ in 0..(1 + r.below(3)) {
                    let a = r.below(len);
                    v[a] = b'N';
                }
            }
        }
    }
    // case
    match r.below(6) {
        0 => {
            for b in v.iter_mut() {
                *b = b.to_ascii_lowercase();
            }
        }
        1 => {
            for b in v.iter_mut() {
                if r.chance(1, 2) {
                    *b = b.to_ascii_lowercase();
                }
            }
        }
        _ => {}
    }
    // RNA alphabet: U is packed as T
    if r.chance(1, 8) {
        for b in v.iter_mut() {
            if *b == b'T' && r.chance(3, 4) {
                *b = b'U';
            } else if *b == b't' {
                *b = b'u';
            }
        }
    }
    v
}

fn structured_ints(r: &mut Rng, bits: usize, out: &mut Vec<u128>) {
    out.push(0);
    for i in 0..bits {
        out.push(1u128 << i);
    }
    let all = if bits == 128 { u128::MAX } else { (1u128 << bits) - 1 };
    out.push(all);
    out.push(all & 0xAAAAAAAAAAAAAAAAAAAAAAAAAAAAAAAAu128);
    out.push(all & 0x55555555555555555555555555555555u128);
    if bits >= 2 {
        out.push(3u128 << (bits - 2));
    }
    for _ in 0..8 {
        out.push(r.u128() & all);
    }
}

pub fn generate<W: Write>(prop: &str, tier: &str, seed: u64, out: &mut W) {
    let mut r = Rng::new(seed ^ fxhash(prop));
    let thorough = tier == "thorough";
    match prop {
        "C16" => gen_c16(&mut r, thorough, out),
        "C01" => gen_c01(&mut r, thorough, out),
        "C17" => gen_lo(true, &mut r, thorough, out),
        "C18" => gen_lo(false, &mut r, thorough, out),
        "C03" => gen_c03(&mut r, thorough, out),
        "C12" => gen_c12(&mut r, thorough, out),
        "C02" => gen_c02(&mut r, thorough, out),
        "C15" => gen_c15(&mut r, thorough, out),
        "C04" | "C05" => gen_map(&mut r, thorough, out),
        "C06" | "C07" | "C08" | "C10" | "C13" | "C14" => gen_hist(prop, &mut r, thorough, out),
        _ => panic!("no generator for {prop}"),
    }
}

fn fxhash(s: &str) -> u64 {
    let mut h: u64 = 0xcbf29ce484222325;
    for b in s.bytes() {
        h ^= b as u64;
        h = h.wrapping_mul(0x100000001b3);
    }
    h
}

fn gen_c16<W: Write>(r: &mut Rng, thorough: bool, out: &mut W) {
    // complete enumeration of all split k-mers (arms) for small k
    let kmax_exh = if thorough { 11 } else { 7 };
    for k in (5..=kmax_exh).step_by(2) {
        let n = k - 1;
        for w in widths_for(k) {
            for x in 0..(1u64 << (2 * n)) {
                writeln!(out, "rc w={w} n={n} x={x}").unwrap();
                writeln!(out, "dec w={w} k={k} x={x}").unwrap();
            }
        }
    }
    let per = if thorough { 400 } else { 12 };
    for k in valid_ks() {
        let n = k - 1;
        for w in widths_for(k) {
            writeln!(out, "masks w={w} k={k}").unwrap();
            let mut xs = Vec::new();
            structured_ints(r, 2 * n, &mut xs);
            for x in &xs {
                writeln!(out, "rc w={w} n={n} x={x}").unwrap();
                writeln!(out, "dec w={w} k={k} x={x}").unwrap();
            }
            for _ in 0..per {
                let sq = rand_acgt(r, n);
                writeln!(out, "enc w={w} s={}", s(&sq)).unwrap();
                // also other lengths the packing supports
                let m = 1 + r.below(w / 2);
                let sq = rand_acgt(r, m);
                writeln!(out, "enc w={w} s={}", s(&sq)).unwrap();
                let all = if 2 * m == 128 { u128::MAX } else { (1u128 << (2 * m)) - 1 };
                let x = r.u128() & all;
                writeln!(out, "rc w={w} n={m} x={x}").unwrap();
                if m < w / 2 {
                    // skalo decoding masks to 2m bits first
                    let y = if w == 64 { r.u128() & (u64::MAX as u128) } else { r.u128() };
                    writeln!(out, "sdec w={w} n={m} x={y}").unwrap();
                }
            }
            let nseq = if thorough { 40 } else { 4 };
            for _ in 0..nseq {
                let sq = tricky_seq(r, k);
                let rc = r.below(2);
                writeln!(out, "iter w={w} k={k} rc={rc} seq={}", s(&sq)).unwrap();
                writeln!(out, "hash w={w} k={k} rc={rc} seq={}", s(&sq)).unwrap();
                // the same slide with base qualities: each of the three rules, thresholds hit exactly
                writeln!(out, "iter w={w} k={k} rc={rc} seq={} {}", s(&sq), qual_args(r, sq.len(), k)).unwrap();
            }
            // windows whose packed arms are all zero bits (poly-A) or all one bits (poly-G), alone and next to their
            // complements, in both strand modes: whatever a field holds before it is first computed must not matter
            for (base, other) in [(b'A', b'T'), (b'G', b'C')] {
                for rc in 0..2 {
                    let mut sq = vec![base; k + 2];
                    sq.push(*r.pick(&ACGT));
                    sq.extend(vec![other; k + 1]);
                    sq.extend(vec![base; k]);
                    writeln!(out, "iter w={w} k={k} rc={rc} seq={}", s(&sq)).unwrap();
                    writeln!(out, "hash w={w} k={k} rc={rc} seq={}", s(&sq)).unwrap();
                }
            }
        }
    }
}

/// ` qual=.. mq=.. qf=..` for a read of `len` bases: mostly high qualities with a few bases below or
/// exactly on the threshold, at the start, at the end, in the middle of a window and at offsets >= k
pub fn qual_args(r: &mut Rng, len: usize, k: usize) -> String {
    let mq = *r.pick(&[10usize, 20, 21, 30]);
    let letter = |q: usize| (33 + q) as u8;
    let mut q: Vec<u8> = (0..len).map(|_| letter(*r.pick(&[40usize, 40, 40, 35, 31]))).collect();
    if len > 0 {
        for _ in 0..r.below(4) {
            let p = match r.below(5) {
                0 => r.below(usize::min(len, k)),
                1 => len - 1 - r.below(usize::min(len, k)),
                2 if len > k => k + r.below(len - k),
                _ => r.below(len),
            };
            q[p] = letter(*r.pick(&[2usize, mq - 1, mq - 1, mq]));
        }
    }
    format!("qual={} mq={mq} qf={}", String::from_utf8(q).unwrap(), r.pick(&["middle", "middle", "strict", "none"]))
}

fn gen_c01<W: Write>(r: &mut Rng, thorough: bool, out: &mut W) {
    let rounds = if thorough { 1500 } else { 40 };
    for _ in 0..rounds {
        for k in valid_ks() {
            let w = *r.pick(&widths_for(k));
            let rc = r.below(2);
            let sq = tricky_seq(r, k);
            writeln!(out, "iter w={w} k={k} rc={rc} seq={}", s(&sq)).unwrap();
            if r.chance(1, 2) {
                writeln!(out, "iter w={w} k={k} rc={rc} seq={} {}", s(&sq), qual_args(r, sq.len(), k)).unwrap();
            }
            let nrec = 1 + r.below(4);
            let mut recs: Vec<String> = Vec::new();
            for _ in 0..nrec {
                let mut q = tricky_seq(r, k);
                if q.is_empty() {
                    q = vec![b'N'];
                }
                // sometimes reuse (part of) an earlier record, possibly reverse-complemented,
                // so that one split k-mer is seen with several middle bases
                if !recs.is_empty() && r.chance(1, 3) {
                    let prev = recs[r.below(recs.len())].clone().into_bytes();
                    let mut p = if r.chance(1, 2) { revcomp(&prev) } else { prev };
                    if p.len() > k {
                        let pos = r.below(p.len());
                        p[pos] = *r.pick(&ACGT);
                    }
                    q = p;
                }
                recs.push(String::from_utf8(q).unwrap());
            }
            writeln!(out, "build w={w} k={k} rc={rc} recs={}", recs.join(",")).unwrap();
        }
    }
    // exhaustive small scope: every sequence over {A,C,G,T,N} up to a length bound
    let (l5, l7) = if thorough { (9, 8) } else { (7, 0) };
    let alpha = [b'A', b'C', b'G', b'T', b'N'];
    for (k, lmax) in [(5usize, l5), (7usize, l7)] {
        for len in 0..=lmax {
            let total = 5usize.pow(len as u32);
            for code in 0..total {
                let mut c = code;
                let mut sq = Vec::with_capacity(len);
                for _ in 0..len {
                    sq.push(alpha[c % 5]);
                    c /= 5;
                }
                let rc = code & 1;
                writeln!(out, "iter w=64 k={k} rc={rc} seq={}", s(&sq)).unwrap();
            }
        }
    }
}

// ------------------------------------------------------------------ tables and histories

const CODE_ORDER: [u8; 4] = [b'A', b'C', b'T', b'G'];
const AMBIG: [u8; 11] = [b'R', b'Y', b'S', b'W', b'K', b'M', b'B', b'D', b'H', b'V', b'N'];

pub fn pack(s_: &[u8]) -> u128 {
    let mut v: u128 = 0;
    for b in s_ {
        // as `encode_base`: defined for every byte (an ambiguity code is packed as some base)
        let c = ((b >> 1) & 3) as u128;
        v = (v << 2) | c;
    }
    v
}

/// packed reverse complement as the code computes it: on the two-bit codes, not on letters
pub fn pack_rc(s_: &[u8]) -> u128 {
    let mut v: u128 = 0;
    for b in s_.iter().rev() {
        v = (v << 2) | ((((b >> 1) & 3) ^ 2) as u128);
    }
    v
}

/// arms (k-1 letters) whose packed value is canonical under `rc`
fn canonical_arms(r: &mut Rng, k: usize, rc: bool) -> Vec<u8> {
    let a = rand_acgt(r, k - 1);
    if rc {
        let b = revcomp(&a);
        if pack(&b) < pack(&a) {
            return b;
        }
    }
    a
}

pub struct GenTable {
    pub names: Vec<String>,
    pub rows: Vec<(Vec<u8>, Vec<u8>)>, // arms, cells
}

impl GenTable {
    pub fn text(&self) -> String {
        let n = if self.names.is_empty() { "~".to_string() } else { self.names.join(",") };
        let rows: Vec<String> = self
            .rows
            .iter()
            .map(|(a, c)| format!("{}:{}", pack(a), String::from_utf8_lossy(c)))
            .collect();
        format!("{}|{}", n, if rows.is_empty() { "~".to_string() } else { rows.join(",") })
    }
}

/// `amb`: per-mille of ambiguity codes; every row has at least one non-gap cell
pub fn rand_table(r: &mut Rng, k: usize, rc: bool, nsamp: usize, nrows: usize, prefix: &str, amb: usize, pool: &[Vec<u8>]) -> GenTable {
    let names: Vec<String> = (0..nsamp).map(|i| format!("{prefix}{i}")).collect();
    let mut rows: Vec<(Vec<u8>, Vec<u8>)> = Vec::new();
    let style = r.below(4);
    for _ in 0..nrows {
        let arms = if !pool.is_empty() && r.chance(1, 2) { r.pick(pool).clone() } else { canonical_arms(r, k, rc) };
        if rows.iter().any(|(a, _)| *a == arms) {
            continue;
        }
        let base = *r.pick(&CODE_ORDER);
        let mut cells: Vec<u8> = (0..nsamp)
            .map(|_| {
                let x = r.below(1000);
                if x < amb {
                    *r.pick(&AMBIG)
                } else if x < amb + 200 {
                    b'-'
                } else if style == 0 || r.chance(1, 3) {
                    *r.pick(&CODE_ORDER)
                } else {
                    base
                }
            })
            .collect();
        if cells.iter().all(|c| *c == b'-') {
            let i = r.below(nsamp);
            cells[i] = base;
        }
        rows.push((arms, cells));
    }
    GenTable { names, rows }
}

fn window_of(arms: &[u8], mid: u8) -> Vec<u8> {
    let h = arms.len() / 2;
    let mut w = arms[..h].to_vec();
    w.push(mid);
    w.extend_from_slice(&arms[h..]);
    w
}

/// weed records that hit some of the table's rows (either strand), plus noise and Ns
fn weed_records(r: &mut Rng, k: usize, t: &GenTable) -> String {
    let mut recs: Vec<String> = Vec::new();
    let nrec = 1 + r.below(3);
    for _ in 0..nrec {
        let l0 = r.below(k + 3);
        let mut sq: Vec<u8> = rand_acgt(r, l0);
        for (arms, _) in &t.rows {
            if r.chance(1, 3) {
                let mut w = window_of(arms, *r.pick(&CODE_ORDER));
                if r.chance(1, 2) {
                    w = revcomp(&w);
                }
                if r.chance(1, 4) {
                    sq.push(b'N');
                }
                sq.extend_from_slice(&w);
                let l1 = r.below(3);
                let extra = rand_acgt(r, l1);
                sq.extend_from_slice(&extra);
            }
        }
        if sq.is_empty() {
            sq.push(b'N');
        }
        recs.push(String::from_utf8(sq).unwrap());
    }
    recs.join("+")
}

const FTS: [&str; 4] = ["nofilter", "noconst", "noambig", "noambigorconst"];

fn align_obs(r: &mut Rng, n: usize) -> String {
    format!(
        "align/{}/{}/{}/{}/{}",
        r.below(n + 1),
        r.pick(&FTS),
        r.below(2),
        r.below(2),
        r.below(2)
    )
}

fn pick_k(r: &mut Rng) -> (usize, usize) {
    let k = *r.pick(&[5usize, 7, 9, 15, 21, 29, 31, 33, 35, 41, 63]);
    let w = if k <= 31 && r.chance(4, 5) { 64 } else { 128 };
    (k, w)
}

pub fn gen_hist<W: Write>(prop: &str, r: &mut Rng, thorough: bool, out: &mut W) {
    let rounds = match (prop, thorough) {
        ("C06", false) => 1200,
        ("C06", true) => 6000,
        ("C10", false) => 1000,
        ("C10", true) => 5000,
        (_, false) => 1000,
        (_, true) => 5000,
    };
    for round in 0..rounds {
        let (mut k, mut w) = pick_k(r);
        // the first table (thorough: the first two) of the align and distance families is large, so that
        // anything done per block of rows (1024, 4096, ...) runs over several blocks, constant rows included
        let big = matches!(prop, "C06" | "C14") && (round == 0 || (thorough && round == 1));
        while big && k < 13 {
            (k, w) = pick_k(r);
        }
        let rc = r.below(2) == 1;
        // and one table per run has more samples than a byte can count
        let wide = round == 2 && matches!(prop, "C06" | "C07" | "C08" | "C10" | "C13" | "C14");
        let nsamp = match prop {
            _ if wide => 257 + r.below(60),
            _ if big => 3 + r.below(2),
            "C14" => 2 + r.below(11),
            "C06" => 1 + r.below(12),
            _ => 2 + r.below(7),
        };
        let nrows = match (big, prop) {
            (true, "C14") => 9000 * (1 + round),
            (true, _) => 2300 * (1 + round),
            _ => r.below(14),
        };
        let amb = match prop {
            "C14" => if r.chance(1, 4) { 100 } else { 0 },
            _ => *r.pick(&[0usize, 50, 150, 400]),
        };
        // sample names: plain, or with dots and sequence-file extensions inside (a name is a name,
        // not a file name: nothing may be stripped from it)
        let prefix = *r.pick(&["s", "s", "E.fae", "n.fastq_", "x.fa.", "a.b-c.fasta."]);
        let t0 = rand_table(r, k, rc, nsamp, nrows, prefix, amb, &[]);
        let pool: Vec<Vec<u8>> = t0.rows.iter().map(|x| x.0.clone()).collect();
        let head = format!("hist w={w} k={k} rc={} start={}", rc as u8, t0.text());
        match prop {
            "C06" => {
                // every flag combination is reached over the rounds; thresholds 0..n
                let mut obs: Vec<String> = Vec::new();
                for _ in 0..6 {
                    obs.push(align_obs(r, nsamp));
                }
                // a monotonicity family: same flags, all thresholds (checked by the driver on the spec side too)
                let ft = *r.pick(&FTS);
                let (m, g, f) = (r.below(2), r.below(2), r.below(2));
                for t in [0, nsamp / 2, nsamp] {
                    obs.push(format!("align/{t}/{ft}/{m}/{g}/{f}"));
                }
                writeln!(out, "{head} ops=~ obs={}", obs.join(";")).unwrap();
            }
            "C07" if round % 2 == 1 && round % 9 != 8 => {
                // all files in one merge call
                let nfiles = 2 + r.below(3);
                let parts: Vec<String> = (0..nfiles)
                    .map(|fi| {
                        let (ns, nr) = (1 + r.below(3), r.below(10));
                        rand_table(r, k, rc, ns, nr, &format!("g{fi}x"), amb, &pool).text()
                    })
                    .collect();
                writeln!(out, "{head} ops=mergen/{}{} obs=nk", parts.join("&"), if r.chance(1, 4) { ";reload" } else { "" }).unwrap();
            }
            "C07" => {
                let nfiles = 1 + r.below(3);
                let mut ops: Vec<String> = Vec::new();
                for fi in 0..nfiles {
                    let (ns, nr) = (1 + r.below(3), r.below(10));
                    let t = rand_table(r, k, rc, ns, nr, &format!("f{fi}x"), amb, &pool);
                    if round % 9 == 8 && fi == nfiles - 1 {
                        // refused: other k or other strand mode
                        if r.chance(1, 2) {
                            // another k: next to this one, or on the other side of the 64/128-bit boundary
                            // (the file then fails to load as the first file's integer type: a refusal of its own)
                            let k2 = if r.chance(1, 2) {
                                if k <= 31 { *r.pick(&[33usize, 35, 63]) } else { *r.pick(&[31usize, 29, 5]) }
                            } else if k == 5 {
                                7
                            } else {
                                k - 2
                            };
                            let t2 = rand_table(r, k2, rc, 1, 3, "zz", 0, &[]);
                            ops.push(format!("merge/{}/{}/{}", t2.text(), k2, rc as u8));
                        } else {
                            ops.push(format!("merge/{}/{}/{}", t.text(), k, 1 - rc as u8));
                        }
                    } else {
                        ops.push(format!("merge/{}", t.text()));
                    }
                    if r.chance(1, 4) {
                        ops.push("reload".into());
                    }
                }
                writeln!(out, "{head} ops={} obs=nk", ops.join(";")).unwrap();
            }
            "C08" => {
                let names = &t0.names;
                let n = names.len();
                let del: Vec<String> = match r.below(11) {
                    // a name given twice is one sample: all samples named (one of them twice) must be refused,
                    // a proper subset named with a repetition must be deleted
                    9 => {
                        let mut v = names.clone();
                        v.push(names[r.below(n)].clone());
                        v
                    }
                    10 => vec![names[0].clone(), names[0].clone()],
                    0 => vec![names[0].clone()],
                    1 => vec![names[n - 1].clone()],
                    2 => names.iter().take(usize::max(1, n / 2)).cloned().collect(),
                    3 => names.iter().step_by(2).cloned().collect(),
                    4 => names.clone(),                                  // all: refused
                    5 => vec!["nosuch".to_string()],                     // unknown: refused
                    6 => vec![names[0].clone(), "nosuch".to_string()],   // partly unknown: refused
                    7 => Vec::new(),                                     // none: refused
                    _ => names.iter().filter(|_| r.chance(1, 2)).cloned().collect(),
                };
                let mut del = del;
                if r.chance(1, 3) {
                    r.shuffle(&mut del);
                }
                let d = if del.is_empty() { "~".to_string() } else { del.join("+") };
                writeln!(out, "{head} ops=delete/{d} obs=nk").unwrap();
            }
            "C13" => {
                let recs = weed_records(r, k, &t0);
                let rev = r.below(2);
                let w1 = format!("weed/{recs}/{rev}/0/0/nofilter/0/0");
                // once, twice (idempotence), and the complementary half
                writeln!(out, "{head} ops={w1} obs=nk").unwrap();
                writeln!(out, "{head} ops={w1};{w1} obs=nk").unwrap();
                writeln!(out, "{head} ops=weed/{recs}/{}/0/0/nofilter/0/0 obs=nk", 1 - rev).unwrap();
                if round % 6 == 5 {
                    // a weed file without a single k-mer (records shorter than k, or all N) is refused:
                    // the file must be left as it was, and a following valid weed must work on it
                    let bad = match r.below(3) {
                        0 => s(&rand_acgt(r, k - 1)),
                        1 => "N".repeat(k + 5),
                        _ => {
                            let l = 1 + r.below(k - 1);
                            format!("{}+{}", s(&rand_acgt(r, l)), "n".repeat(k))
                        }
                    };
                    writeln!(out, "{head} ops=weed/{bad}/{rev}/0/0/nofilter/0/0 obs=nk").unwrap();
                    writeln!(out, "{head} ops=weed/{bad}/{rev}/0/0/nofilter/0/0;{w1} obs=nk").unwrap();
                }
            }
            "C14" => {
                let t = r.below(nsamp + 1);
                writeln!(out, "{head} ops=~ obs=dist/{t}/{};dist/0/1;rawdist/{}", r.below(2), r.below(5)).unwrap();
            }
            _ if round % 4 == 3 => {
                // C10, targeted: an operation that stores something other than the plain sample count
                // (weed with --filter-ambig-as-missing and an active filter), then an operation that
                // could be tempted to reuse it (delete / align / another weed), on rows mixing
                // ambiguity codes with single unambiguous bases
                let ns = 2 + r.below(4);
                let names: Vec<String> = (0..ns).map(|i| format!("s{i}")).collect();
                let mut rows: Vec<String> = Vec::new();
                let mut seen_keys: Vec<u128> = Vec::new();
                for _ in 0..(2 + r.below(8)) {
                    let arms = canonical_arms(r, k, rc);
                    // a table has one row per key
                    if seen_keys.contains(&pack(&arms)) {
                        continue;
                    }
                    seen_keys.push(pack(&arms));
                    let mut cells: Vec<u8> = (0..ns).map(|_| match r.below(5) {
                        0 => b'-',
                        1 | 2 => *r.pick(&AMBIG),
                        _ => *r.pick(&CODE_ORDER),
                    }).collect();
                    // exactly one unambiguous base fairly often
                    if r.chance(1, 2) {
                        for c in cells.iter_mut() {
                            if b"ACGT".contains(c) {
                                *c = *r.pick(&[b'R', b'Y', b'-']);
                            }
                        }
                        let i = r.below(ns);
                        cells[i] = *r.pick(&CODE_ORDER);
                    }
                    if cells.iter().all(|c| *c == b'-') {
                        cells[0] = b'A';
                    }
                    rows.push(format!("{}:{}", pack(&arms), String::from_utf8(cells).unwrap()));
                }
                let tf = r.below(2);
                let first = format!("weed/~/0/{tf}/1/{}/0/{}", if tf == 0 { *r.pick(&["noconst", "noambigorconst", "noambig"]) } else { *r.pick(&FTS) }, r.below(2));
                let second = match r.below(3) {
                    0 => format!("delete/{}", names[r.below(ns)]),
                    1 => {
                        let mut d: Vec<String> = names.iter().filter(|_| r.chance(1, 2)).cloned().collect();
                        if d.is_empty() || d.len() == ns {
                            d = vec![names[0].clone()];
                        }
                        // the order in which names are given is not the order of the columns
                        r.shuffle(&mut d);
                        format!("delete/{}", d.join("+"))
                    }
                    _ => format!("weed/~/0/{}/0/nofilter/0/0", 1 + r.below(ns)),
                };
                // thresholds at most 1: the delete may leave a single sample
                let obs = format!("nk;{};dist/{}/{}", align_obs(r, 1), r.below(2), r.below(2));
                writeln!(out, "hist w={w} k={k} rc={} start={}|{} ops={first};{second} obs={obs}", rc as u8, names.join(","), rows.join(",")).unwrap();
            }
            _ => {
                // C10: arbitrary histories
                let len = 1 + r.below(if thorough { 8 } else { 5 });
                let mut ops: Vec<String> = Vec::new();
                let mut names: Vec<String> = t0.names.clone();
                let mut fi = 0;
                for _ in 0..len {
                    match r.below(7) {
                        0 | 1 => {
                            fi += 1;
                            let (ns, nr) = (1 + r.below(2), r.below(8));
                            let t = rand_table(r, k, rc, ns, nr, &format!("m{fi}x"), amb, &pool);
                            names.extend(t.names.iter().cloned());
                            if r.chance(1, 3) {
                                // several files in one merge call (k-mers present, absent, present again)
                                let mut parts = vec![t.text()];
                                for j in 0..(1 + r.below(2)) {
                                    let (ns2, nr2) = (1 + r.below(2), r.below(8));
                                    let t2 = rand_table(r, k, rc, ns2, nr2, &format!("m{fi}y{j}"), amb, &pool);
                                    names.extend(t2.names.iter().cloned());
                                    parts.push(t2.text());
                                }
                                ops.push(format!("mergen/{}", parts.join("&")));
                            } else {
                                ops.push(format!("merge/{}", t.text()));
                            }
                        }
                        2 => {
                            if names.len() >= 2 {
                                // one to three names, given in any order
                                let nd = usize::min(names.len() - 1, 1 + r.below(3));
                                let mut del: Vec<String> = Vec::new();
                                for _ in 0..nd {
                                    let i = r.below(names.len());
                                    del.push(names.remove(i));
                                }
                                ops.push(format!("delete/{}", del.join("+")));
                            }
                        }
                        3 | 4 => {
                            let recs = if r.chance(3, 4) { weed_records(r, k, &t0) } else { "~".to_string() };
                            ops.push(format!(
                                "weed/{recs}/{}/{}/{}/{}/{}/{}",
                                r.below(2),
                                if r.chance(1, 2) { 0 } else { r.below(names.len() + 1) },
                                r.below(2),
                                r.pick(&FTS),
                                r.below(2),
                                r.below(2)
                            ));
                        }
                        5 => {
                            // frequency / ambiguity filtering only
                            ops.push(format!(
                                "weed/~/0/{}/{}/{}/{}/{}",
                                r.below(names.len() + 1),
                                r.below(2),
                                r.pick(&FTS),
                                r.below(2),
                                r.below(2)
                            ));
                        }
                        _ => ops.push("reload".into()),
                    }
                }
                let n = names.len();
                let obs = format!(
                    "nk;{};{};{};dist/{}/{}",
                    align_obs(r, n),
                    align_obs(r, n),
                    format!("align/{}/nofilter/0/0/0", n),
                    r.below(n + 1),
                    r.below(2)
                );
                let o = if ops.is_empty() { "~".to_string() } else { ops.join(";") };
                writeln!(out, "{head} ops={o} obs={obs}").unwrap();
            }
        }
    }
}

// ------------------------------------------------------------------ map / AlnWriter cases

fn gen_reference(r: &mut Rng, k: usize) -> Vec<Vec<u8>> {
    let h = (k - 1) / 2;
    let ncontig = 1 + r.below(4);
    let mut contigs: Vec<Vec<u8>> = Vec::new();
    for _ in 0..ncontig {
        let len = match r.below(9) {
            0 => 1,
            1 => h,
            2 => k - 1,
            3 => k,
            4 => k + 1,
            5 => 2 * k + 3,
            _ => 3 * k + r.below(3 * k),
        };
        contigs.push(rand_acgt(r, len));
    }
    // make sure at least one contig can hold k-mers most of the time
    if r.chance(9, 10) && contigs.iter().all(|c| c.len() < k) {
        let l = 3 * k + r.below(2 * k);
        contigs.push(rand_acgt(r, l));
    }
    // ambiguity codes in the reference (packed like any base, reported as N in a VCF): before the
    // repeats are planted, so that a copy can carry one, or after
    let iupac_first = r.chance(1, 2);
    let plant_iupac = |r: &mut Rng, contigs: &mut Vec<Vec<u8>>| {
        for c in contigs.iter_mut() {
            if c.len() >= k && r.chance(1, 3) {
                for _ in 0..(1 + r.below(2)) {
                    let p = r.below(c.len());
                    c[p] = *r.pick(b"RYSWKMBDHVU");
                }
            }
        }
    };
    if iupac_first {
        plant_iupac(r, &mut contigs);
    }
    // planted repeats: copy a window (maybe reverse-complemented, maybe with another middle base)
    let nrep = r.below(3);
    for _ in 0..nrep {
        let srcs: Vec<usize> = (0..contigs.len()).filter(|i| contigs[*i].len() >= k).collect();
        if srcs.is_empty() {
            break;
        }
        let si = *r.pick(&srcs);
        let sp = r.below(contigs[si].len() - k + 1);
        let span = usize::min(k + r.below(k), contigs[si].len() - sp);
        let mut w = contigs[si][sp..sp + span].to_vec();
        if r.chance(1, 2) {
            w = revcomp(&w);
        }
        if r.chance(1, 2) {
            w[h] = *r.pick(&ACGT);
        }
        let di = *r.pick(&srcs);
        if contigs[di].len() >= span {
            let dp = r.below(contigs[di].len() - span + 1);
            contigs[di][dp..dp + span].copy_from_slice(&w);
        }
    }
    if !iupac_first {
        plant_iupac(r, &mut contigs);
    }
    // N runs and case
    for c in contigs.iter_mut() {
        if !c.is_empty() && r.chance(1, 3) {
            let a = r.below(c.len());
            let run = 1 + r.below(3);
            for i in a..usize::min(c.len(), a + run) {
                c[i] = b'N';
            }
        }
        match r.below(6) {
            0 => c.iter_mut().for_each(|b| *b = b.to_ascii_lowercase()),
            1 => {
                for b in c.iter_mut() {
                    if r.chance(1, 3) {
                        *b = b.to_ascii_lowercase();
                    }
                }
            }
            _ => {}
        }
    }
    contigs
}

/// a sample derived from the reference: SNPs, indels, rearranged / reverse-complemented / missing contigs
fn derive_sample(r: &mut Rng, k: usize, reference: &[Vec<u8>]) -> Vec<Vec<u8>> {
    let mut recs: Vec<Vec<u8>> = Vec::new();
    let mut order: Vec<usize> = (0..reference.len()).collect();
    if r.chance(1, 3) {
        r.shuffle(&mut order);
    }
    for ci in order {
        if reference.len() > 1 && r.chance(1, 6) {
            continue; // sample lacks this contig
        }
        let mut c: Vec<u8> = reference[ci].iter().map(|b| b.to_ascii_uppercase()).collect();
        let nmut = r.below(4);
        for _ in 0..nmut {
            if c.is_empty() {
                break;
            }
            let p = r.below(c.len());
            match r.below(5) {
                0 | 1 | 2 => c[p] = *r.pick(&ACGT),
                3 => {
                    c.remove(p);
                }
                _ => c.insert(p, *r.pick(&ACGT)),
            }
        }
        // consecutive matches at every distance: drop a block of 0..2k+2 bases
        if c.len() > 4 * k && r.chance(1, 3) {
            let cut = r.below(2 * k + 3);
            let p = r.below(c.len() - cut);
            c.drain(p..p + cut);
        }
        if r.chance(1, 3) {
            c = revcomp(&c);
        }
        if c.is_empty() {
            c.push(b'N');
        }
        recs.push(c);
    }
    if recs.is_empty() || r.chance(1, 8) {
        let l = k + r.below(2 * k);
        recs.push(rand_acgt(r, l));
    }
    recs
}

fn join_recs(recs: &[Vec<u8>]) -> String {
    recs.iter().map(|x| s(x)).collect::<Vec<_>>().join(",")
}

pub fn gen_map<W: Write>(r: &mut Rng, thorough: bool, out: &mut W) {
    let rounds = if thorough { 6000 } else { 260 };
    for round in 0..rounds {
        let k = *r.pick(&[5usize, 7, 9, 11, 15, 21, 31, 33, 41]);
        let w = if k <= 31 && r.chance(4, 5) { 64 } else { 128 };
        let h = (k - 1) / 2;
        let rc = r.below(2);
        let reference = gen_reference(r, k);
        let head = format!(
            "map w={w} k={k} rc={rc} amask={} rmask={} ref={}",
            r.below(2),
            r.below(2),
            join_recs(&reference)
        );
        if round % 4 == 3 {
            // table form: rows keyed by reference windows, cells incl. ambiguity codes and gaps
            let nsamp = 1 + r.below(3);
            let mut rows: Vec<String> = Vec::new();
            let mut seen: Vec<u128> = Vec::new();
            for c in &reference {
                if c.len() < k {
                    continue;
                }
                for j in 0..=(c.len() - k) {
                    let win = &c[j..j + k];
                    if win.iter().any(|b| b.to_ascii_uppercase() == b'N') || !r.chance(2, 3) {
                        continue;
                    }
                    let mut arms = win[..h].to_vec();
                    arms.extend_from_slice(&win[h + 1..]);
                    let mut key = pack(&arms);
                    if rc == 1 {
                        key = u128::min(key, pack_rc(&arms));
                    }
                    if seen.contains(&key) {
                        continue;
                    }
                    seen.push(key);
                    let coded_mid = !b"ACGT".contains(&win[h].to_ascii_uppercase());
                    let mut cells: Vec<u8> = (0..nsamp)
                        .map(|_| match r.below(10) {
                            0 | 1 => b'-',
                            2 => *r.pick(&AMBIG),
                            3 | 4 | 5 | 6 if coded_mid => *r.pick(&AMBIG),
                            _ => *r.pick(&CODE_ORDER),
                        })
                        .collect();
                    if cells.iter().all(|x| *x == b'-') {
                        cells[0] = if coded_mid { b'Y' } else { b'A' };
                    }
                    rows.push(format!("{}:{}", key, String::from_utf8(cells).unwrap()));
                }
            }
            let names: Vec<String> = (0..nsamp).map(|i| format!("s{i}")).collect();
            let rows_s = if rows.is_empty() { "1:".to_string() + &"A".repeat(nsamp) } else { rows.join(",") };
            writeln!(out, "{head} table={}|{}", names.join(","), rows_s).unwrap();
        } else {
            let nsamp = 1 + r.below(3);
            let samples: Vec<String> = (0..nsamp)
                .map(|_| {
                    let recs = derive_sample(r, k, &reference);
                    recs.iter().map(|x| s(x)).collect::<Vec<_>>().join("+")
                })
                .collect();
            writeln!(out, "{head} samples={}", samples.join("|")).unwrap();
        }
    }
    // AlnWriter driven call by call
    let traces = if thorough { 60000 } else { 3000 };
    for _ in 0..traces {
        let k = *r.pick(&[5usize, 7, 9, 15, 31]);
        let h = (k - 1) / 2;
        let ncontig = 1 + r.below(3);
        let mut reference: Vec<Vec<u8>> = Vec::new();
        let mut matches: Vec<String> = Vec::new();
        let mut total = 0;
        for ci in 0..ncontig {
            let len = match r.below(6) {
                0 => r.below(k),
                1 => k,
                2 => k + 1,
                _ => 2 * k + r.below(5 * k),
            };
            let c = rand_acgt(r, len);
            if len >= k && r.chance(5, 6) {
                let mut p = h + if r.chance(1, 2) { 0 } else { r.below(k) };
                while p + h < len {
                    let b = if r.chance(1, 8) { *r.pick(&AMBIG) } else { *r.pick(&ACGT) };
                    matches.push(format!("{ci}:{p}:{}", b as char));
                    // every gap length 1..2k+3, biased to 1
                    p += if r.chance(1, 2) { 1 } else { 1 + r.below(2 * k + 3) };
                }
            }
            total += len;
            reference.push(c);
        }
        let mut reps: Vec<usize> = (0..total).filter(|_| r.chance(1, 12)).collect();
        reps.dedup();
        let reps_s: Vec<String> = reps.iter().map(|x| x.to_string()).collect();
        writeln!(
            out,
            "alnw k={k} mask={} ref={} reps={} matches={}",
            r.below(2),
            join_recs(&reference),
            if reps_s.is_empty() { "~".to_string() } else { reps_s.join(",") },
            if matches.is_empty() { "~".to_string() } else { matches.join(",") }
        )
        .unwrap();
    }
}


// ------------------------------------------------------------------ C02: transformed inputs

fn flip_case(b: u8) -> u8 {
    if b.is_ascii_alphabetic() {
        b ^ 0x20
    } else {
        b
    }
}

/// read sets of the C12 generator, each also with its records permuted inside and between the two
/// files: the dictionary of a sample must not depend on the order of its reads
fn gen_read_permutations<W: Write>(r: &mut Rng, thorough: bool, out: &mut W) {
    let mut buf: Vec<u8> = Vec::new();
    gen_c12(r, false, &mut buf);
    let text = String::from_utf8(buf).unwrap();
    let want = if thorough { 400 } else { 120 };
    for line in text.lines().filter(|l| l.starts_with("reads ")).take(want) {
        writeln!(out, "{line}").unwrap();
        let mut parts: Vec<String> = line.split(' ').map(|x| x.to_string()).collect();
        let mut all: Vec<String> = Vec::new();
        for p in parts.iter() {
            if let Some(v) = p.strip_prefix("r1=").or(p.strip_prefix("r2=")) {
                if v != "~" && !v.is_empty() {
                    all.extend(v.split(',').map(|x| x.to_string()));
                }
            }
        }
        for i in (1..all.len()).rev() {
            let j = r.below(i + 1);
            all.swap(i, j);
        }
        // both files keep at least one read (an empty FASTQ file is a parse error, not a sample)
        if all.len() < 2 {
            continue;
        }
        let cut = 1 + r.below(all.len() - 1);
        let side = |v: &[String]| if v.is_empty() { "~".to_string() } else { v.join(",") };
        for p in parts.iter_mut() {
            if p.starts_with("r1=") {
                *p = format!("r1={}", side(&all[..cut]));
            } else if p.starts_with("r2=") {
                *p = format!("r2={}", side(&all[cut..]));
            }
        }
        writeln!(out, "{}", parts.join(" ")).unwrap();
    }
}

fn gen_c02<W: Write>(r: &mut Rng, thorough: bool, out: &mut W) {
    gen_read_permutations(r, thorough, out);
    let rounds = if thorough { 1200 } else { 25 };
    for _ in 0..rounds {
        for k in valid_ks() {
            let w = *r.pick(&widths_for(k));
            let rc = r.below(2);
            let nrec = 1 + r.below(4);
            let mut recs: Vec<Vec<u8>> = Vec::new();
            for _ in 0..nrec {
                let mut q = tricky_seq(r, k);
                if q.is_empty() {
                    q = vec![b'N'];
                }
                if !recs.is_empty() && r.chance(1, 3) {
                    let prev = recs[r.below(recs.len())].clone();
                    let mut p = if r.chance(1, 2) { revcomp(&prev) } else { prev };
                    if p.len() > k {
                        let pos = r.below(p.len());
                        p[pos] = *r.pick(&ACGT);
                    }
                    q = p;
                }
                recs.push(q);
            }
            let orig: Vec<String> = recs.iter().map(|x| s(x)).collect();
            // each transformation on its own, then all together
            let mut variants: Vec<Vec<Vec<u8>>> = Vec::new();
            let mut perm = recs.clone();
            r.shuffle(&mut perm);
            variants.push(perm);
            variants.push(recs.iter().map(|q| q.iter().map(|b| if r.chance(1, 2) { flip_case(*b) } else { *b }).collect()).collect());
            if rc == 1 {
                variants.push(recs.iter().map(|q| if r.chance(1, 2) { revcomp(q) } else { q.clone() }).collect());
                let mut all: Vec<Vec<u8>> = recs
                    .iter()
                    .map(|q| {
                        let q2 = if r.chance(1, 2) { revcomp(q) } else { q.clone() };
                        q2.iter().map(|b| if r.chance(1, 3) { flip_case(*b) } else { *b }).collect()
                    })
                    .collect();
                r.shuffle(&mut all);
                variants.push(all);
            }
            for v in variants {
                let alt: Vec<String> = v.iter().map(|x| s(x)).collect();
                writeln!(out, "build2 w={w} k={k} rc={rc} recs={} alt={}", orig.join(","), alt.join(",")).unwrap();
            }
        }
    }
}


// ------------------------------------------------------------------ C12: read sets

/// inverse of `KmerFilter::cheap_mix`: `(key ^ (key >> 31)) * C`
fn unmix(m: u64) -> u64 {
    // inverse of the odd constant modulo 2^64 by Newton iteration
    let c: u64 = 0x85D0_59AA_3331_21CF;
    let mut inv: u64 = c;
    for _ in 0..6 {
        inv = inv.wrapping_mul(2u64.wrapping_sub(c.wrapping_mul(inv)));
    }
    let x = m.wrapping_mul(inv);
    x ^ (x >> 31) ^ (x >> 62)
}

/// raw hash values that fall into the same 64-bit word of the Bloom filter: the only way to see
/// fingerprints overlap with few keys (3.1 million words)
fn gen_bloom<W: Write>(r: &mut Rng, thorough: bool, out: &mut W) {
    const WORDS: u128 = 3145728;
    let rounds = if thorough { 3000 } else { 150 };
    for _ in 0..rounds {
        let mut keys: Vec<u64> = Vec::new();
        for _ in 0..(1 + r.below(3)) {
            let loc = r.below(WORDS as usize) as u128;
            // mixed values m with (m * WORDS) >> 64 == loc
            let lo = ((loc << 64) + WORDS - 1) / WORDS;
            let hi = (((loc + 1) << 64) + WORDS - 1) / WORDS;
            for _ in 0..(2 + r.below(14)) {
                let m = lo + (r.next() as u128) % (hi - lo);
                keys.push(unmix(m as u64));
            }
        }
        for _ in 0..r.below(4) {
            keys.push(r.next());
        }
        // repeats: a key seen before must be reported as seen
        let n = keys.len();
        for _ in 0..r.below(n + 1) {
            let k = keys[r.below(n)];
            keys.push(k);
        }
        for i in (1..keys.len()).rev() {
            let j = r.below(i + 1);
            keys.swap(i, j);
        }
        let ks: Vec<String> = keys.iter().map(|k| k.to_string()).collect();
        writeln!(out, "bloom keys={}", ks.join(",")).unwrap();
    }
}

/// C15: the consumers of the union algebra. One sample in which the same split k-mer occurs several
/// times with different middle bases, in every order and multiplicity: ordinary k-mers (IUPAC table)
/// and k-mers whose arms are their own reverse complement (the W/S/N update of the palindrome path)
fn gen_c15<W: Write>(r: &mut Rng, thorough: bool, out: &mut W) {
    let rounds = if thorough { 6000 } else { 400 };
    for round in 0..rounds {
        let k = *r.pick(&[5usize, 7, 9, 15, 31, 33, 63]);
        let w = if k <= 31 && r.chance(4, 5) { 64 } else { 128 };
        let h = (k - 1) / 2;
        let rc = if round % 5 == 4 { 0 } else { 1 };
        let u = rand_acgt(r, h);
        // right arm: reverse complement of the left one (self-complementary arms) or unrelated
        let palin = round % 2 == 0;
        let right = if palin { revcomp(&u) } else { rand_acgt(r, h) };
        let n = 1 + r.below(5);
        let mut recs: Vec<String> = Vec::new();
        let mut cur: Vec<u8> = Vec::new();
        for _ in 0..n {
            let mut win = u.clone();
            win.push(*r.pick(&ACGT));
            win.extend_from_slice(&right);
            // the occurrence as it is, or on the other strand
            let occ = if r.chance(1, 3) { revcomp(&win) } else { win };
            if r.chance(1, 2) {
                // same record, separated by an N so that no window spans two occurrences
                if !cur.is_empty() {
                    cur.push(b'N');
                }
                // sometimes an unrelated stretch with windows of its own first: the occurrence is then the
                // first window after a gap whose last window before the gap was of the other kind
                if r.chance(1, 2) {
                    let l = k + r.below(3);
                    cur.extend_from_slice(&rand_acgt(r, l));
                    cur.push(if r.chance(1, 2) { b'N' } else { b'n' });
                }
                cur.extend_from_slice(&occ);
            } else {
                recs.push(s(&occ));
            }
        }
        if !cur.is_empty() {
            recs.push(s(&cur));
        }
        writeln!(out, "build w={w} k={k} rc={rc} recs={}", recs.join(",")).unwrap();
    }
    // the complement table's consumer: a table keyed by the windows of a reference, cells full of
    // ambiguity codes, mapped with strands merged (reference k-mers in the non-canonical orientation
    // get the complemented code)
    let rounds_map = if thorough { 1500 } else { 120 };
    for _ in 0..rounds_map {
        let k = *r.pick(&[5usize, 7, 9, 15, 31, 33]);
        let w = if k <= 31 && r.chance(4, 5) { 64 } else { 128 };
        let h = (k - 1) / 2;
        let reflen = k + 2 + r.below(3 * k);
        let reference = rand_acgt(r, reflen);
        let nsamp = 1 + r.below(3);
        let mut rows: Vec<String> = Vec::new();
        let mut seen: Vec<u128> = Vec::new();
        for j in 0..=(reference.len() - k) {
            let win = &reference[j..j + k];
            let mut arms = win[..h].to_vec();
            arms.extend_from_slice(&win[h + 1..]);
            let key = u128::min(pack(&arms), pack(&revcomp(&arms)));
            if seen.contains(&key) || pack(&arms) == pack(&revcomp(&arms)) || !r.chance(3, 4) {
                continue;
            }
            seen.push(key);
            let cells: Vec<u8> = (0..nsamp).map(|_| if r.chance(1, 6) { b'-' } else { *r.pick(&AMBIG) }).collect();
            if cells.iter().all(|c| *c == b'-') {
                continue;
            }
            rows.push(format!("{}:{}", key, String::from_utf8(cells).unwrap()));
        }
        if rows.is_empty() {
            continue;
        }
        let names: Vec<String> = (0..nsamp).map(|i| format!("s{i}")).collect();
        writeln!(out, "map w={w} k={k} rc=1 amask=0 rmask=0 ref={} table={}|{}", s(&reference), names.join(","), rows.join(",")).unwrap();
    }
    // the distance weights: tables in which the same ambiguity code (or N) sits in several samples
    // of one row next to a differing sample, with ambiguous bases allowed and masked
    let rounds = if thorough { 3000 } else { 200 };
    for _ in 0..rounds {
        let (k, w) = pick_k(r);
        let rc = r.below(2) == 1;
        let nsamp = 2 + r.below(4);
        let names: Vec<String> = (0..nsamp).map(|i| format!("s{i}")).collect();
        let mut rows: Vec<String> = Vec::new();
        let mut seen: Vec<u128> = Vec::new();
        for _ in 0..(1 + r.below(5)) {
            let arms = canonical_arms(r, k, rc);
            if seen.contains(&pack(&arms)) {
                continue;
            }
            seen.push(pack(&arms));
            let code = *r.pick(&AMBIG);
            let other = *r.pick(&CODE_ORDER);
            let cells: Vec<u8> = (0..nsamp)
                .map(|i| match r.below(6) {
                    0 => b'-',
                    1 => other,
                    2 => *r.pick(&AMBIG),
                    _ => if i % 2 == 0 || r.chance(1, 2) { code } else { other },
                })
                .collect();
            if cells.iter().all(|c| *c == b'-') {
                continue;
            }
            rows.push(format!("{}:{}", pack(&arms), String::from_utf8(cells).unwrap()));
        }
        if rows.is_empty() {
            continue;
        }
        writeln!(
            out,
            "hist w={w} k={k} rc={} start={}|{} ops=~ obs=dist/0/0;dist/0/1;dist/{}/0;dist/{}/1;rawdist/{};{}",
            rc as u8,
            names.join(","),
            rows.join(","),
            1 + r.below(nsamp),
            1 + r.below(nsamp),
            r.below(3),
            // what counts as ambiguous, seen through the alignment: every site filter with the mask on
            FTS.iter().map(|ft| format!("align/0/{ft}/1/{}/{}", r.below(2), r.below(2))).collect::<Vec<_>>().join(";")
        )
        .unwrap();
    }
}

fn gen_c12<W: Write>(r: &mut Rng, thorough: bool, out: &mut W) {
    gen_bloom(r, thorough, out);
    let rounds = if thorough { 20000 } else { 400 };
    for _ in 0..rounds {
        let k = *r.pick(&[5usize, 7, 9, 15, 21, 31, 33, 63]);
        let w = if k <= 31 && r.chance(4, 5) { 64 } else { 128 };
        let rc = r.below(2);
        let mc = 1 + r.below(6);
        let mq = *r.pick(&[0usize, 2, 10, 20, 30, 40]);
        let qf = *r.pick(&["none", "middle", "strict"]);
        // a small genome, reads drawn from both strands with errors, so that counts hit mc-1, mc, mc+1
        let glen = k + 3 + r.below(4 * k);
        let mut genome = rand_acgt(r, glen);
        if r.chance(1, 4) {
            // a self-reverse-complement arm pair somewhere
            let h = (k - 1) / 2;
            if glen >= k {
                let p = r.below(glen - k + 1);
                let l = rand_acgt(r, h);
                let rcl = revcomp(&l);
                genome[p..p + h].copy_from_slice(&l);
                genome[p + h + 1..p + k].copy_from_slice(&rcl);
            }
        }
        let nreads = 1 + r.below(3 * mc + 2);
        let mut files: [Vec<String>; 2] = [Vec::new(), Vec::new()];
        for fi in 0..2 {
            let n = if fi == 0 { nreads } else { r.below(nreads + 1) + 1 };
            for _ in 0..n {
                let len = usize::min(glen, k + r.below(2 * k + 1));
                let start = r.below(glen - len + 1);
                let mut sq: Vec<u8> = genome[start..start + len].to_vec();
                if r.chance(1, 2) {
                    sq = revcomp(&sq);
                }
                if r.chance(1, 4) {
                    let p = r.below(len);
                    sq[p] = *r.pick(&ACGT);
                }
                if r.chance(1, 8) {
                    let p = r.below(len);
                    sq[p] = b'N';
                }
                // qualities around the threshold: mq-1, mq, mq+1 and far values
                let q: Vec<u8> = (0..len)
                    .map(|_| {
                        let v = match r.below(8) {
                            0 => mq.saturating_sub(1),
                            1 => mq,
                            2 => mq + 1,
                            3 => 0,
                            _ => 41,
                        };
                        b'A' + usize::min(v, 41) as u8
                    })
                    .collect();
                files[fi].push(format!("{}:{}", String::from_utf8(sq).unwrap(), String::from_utf8(q).unwrap()));
            }
        }
        writeln!(
            out,
            "reads w={w} k={k} rc={rc} mc={mc} mq={mq} qf={qf} r1={} r2={}",
            files[0].join(","),
            files[1].join(",")
        )
        .unwrap();
    }
}


// ------------------------------------------------------------------ C03: sample families through build + align

fn gen_c03<W: Write>(r: &mut Rng, thorough: bool, out: &mut W) {
    let rounds = if thorough { 8000 } else { 1000 };
    for _ in 0..rounds {
        let k = *r.pick(&[5usize, 7, 9, 11, 15, 21, 31, 33, 41, 63]);
        let w = if k <= 31 && r.chance(4, 5) { 64 } else { 128 };
        let rc = r.below(2);
        let h = (k - 1) / 2;
        let nsamp = 2 + r.below(if thorough { 9 } else { 4 });
        // an ancestor with 1-3 contigs, planted isolated and non-isolated substitutions
        let ncontig = 1 + r.below(3);
        let anc: Vec<Vec<u8>> = (0..ncontig).map(|_| { let l = k + r.below(4 * k); rand_acgt(r, l) }).collect();
        let mut samples: Vec<Vec<Vec<u8>>> = vec![anc.clone(); nsamp];
        for ci in 0..ncontig {
            let len = anc[ci].len();
            let nsites = r.below(4);
            let mut pos = h + r.below(3);
            for _ in 0..nsites {
                if pos + h >= len {
                    break;
                }
                let alt = *r.pick(&ACGT);
                let ncar = 1 + r.below(nsamp - 1);
                for _ in 0..ncar {
                    let si = r.below(nsamp);
                    samples[si][ci][pos] = alt;
                }
                // exact boundary distances: h+1 apart (isolated) or closer (not isolated)
                pos += if r.chance(2, 3) { h + 1 + r.below(3) } else { 1 + r.below(h) };
            }
        }
        // per-sample contig order and orientation
        let text: Vec<String> = samples
            .iter_mut()
            .map(|recs| {
                if r.chance(1, 3) {
                    r.shuffle(recs);
                }
                recs.iter()
                    .map(|c| if rc == 1 && r.chance(1, 3) { s(&revcomp(c)) } else { s(c) })
                    .collect::<Vec<_>>()
                    .join("+")
            })
            .collect();
        let (t, ft) = if r.chance(2, 3) { (nsamp, "noconst") } else { (r.below(nsamp + 1), *r.pick(&FTS)) };
        writeln!(
            out,
            "buildalign w={w} k={k} rc={rc} t={t} ft={ft} mask={} gaps={} famb={} samples={}",
            r.below(2) * (t != nsamp) as usize,
            r.below(2) * (t != nsamp) as usize,
            r.below(2) * (t != nsamp) as usize,
            text.join("|")
        )
        .unwrap();
    }
}


// ------------------------------------------------------------------ C17 / C18: helper inputs

const COLSYMS: [u8; 8] = [b'A', b'C', b'G', b'T', b'-', b'N', b'A', b'G'];

fn gen_lo<W: Write>(snps: bool, r: &mut Rng, thorough: bool, out: &mut W) {
    let rounds = if thorough { 30000 } else { 1500 };
    for _ in 0..rounds {
        if snps {
            let n = 1 + r.below(12);
            let col: Vec<u8> = (0..n).map(|_| *r.pick(&COLSYMS)).collect();
            writeln!(out, "lo_cmd col={}", s(&col)).unwrap();
            writeln!(out, "lo_comp col={}", s(&col)).unwrap();
            // variant groups: a few sequences of (nearly) equal length with marked positions
            let len = 8 + r.below(40);
            let base = rand_acgt(r, len);
            let nv = 2 + r.below(4);
            let mut vars: Vec<String> = Vec::new();
            for _ in 0..nv {
                let mut v = base.clone();
                for _ in 0..r.below(4) {
                    let p = r.below(len);
                    v[p] = *r.pick(&ACGT);
                }
                if r.chance(1, 6) {
                    v.truncate(len - r.below(4));
                }
                let marks: Vec<String> = (0..r.below(4)).map(|_| r.below(len).to_string()).collect();
                vars.push(format!("{}:{}", s(&v), marks.join("+")));
            }
            writeln!(out, "lo_snps vars={}", vars.join(",")).unwrap();
            // output writer
            let glen = if r.chance(1, 4) { 0 } else { 5 + r.below(40) };
            let mut genome = rand_acgt(r, glen);
            for b in genome.iter_mut() {
                if r.chance(1, 15) {
                    *b = *r.pick(&[b'N', b'R', b'n', b'a']);
                }
            }
            let ns = 1 + r.below(6);
            let nvar = r.below(6);
            let mut used: Vec<usize> = Vec::new();
            let mut vs: Vec<String> = Vec::new();
            for _ in 0..nvar {
                let p = r.below(if glen > 0 { glen } else { 30 });
                if used.contains(&p) {
                    continue;
                }
                used.push(p);
                let col: Vec<u8> = (0..ns).map(|_| *r.pick(&COLSYMS)).collect();
                vs.push(format!("{}:{}", p, s(&col)));
            }
            writeln!(
                out,
                "lo_out genome={} n={ns} vars={}",
                s(&genome),
                if vs.is_empty() { "~".to_string() } else { vs.join(",") }
            )
            .unwrap();
        } else {
            // indel groups: shared first k-mer, different inserts, shared tail
            let k = 3 + r.below(12);
            let first = rand_acgt(r, k);
            let tl = r.below(2 * k + 2);
            let tail = rand_acgt(r, tl);
            let nseq = 2 + r.below(2);
            let mut seqs: Vec<String> = Vec::new();
            for _ in 0..nseq {
                let il = r.below(8);
                let ins = rand_acgt(r, il);
                let mut sq = first.clone();
                sq.extend_from_slice(&ins);
                sq.extend_from_slice(&tail);
                seqs.push(s(&sq));
            }
            writeln!(out, "lo_mid k={k} seqs={}", seqs.join(",")).unwrap();
            // de-replication: groups over a small pool of k-mers and their reverse complements
            // (distinct keys; equal lengths and shared entry k-mers are frequent)
            let kg = 2 + r.below(30);
            let maskv: u128 = (1u128 << (2 * kg)) - 1;
            let mut pool: Vec<u128> = Vec::new();
            for _ in 0..(2 + r.below(5)) {
                let x = ((r.next() as u128) << 64 | r.next() as u128) & maskv;
                pool.push(x);
                pool.push(ska::ska_dict::bit_encoding::UInt::rev_comp(x, kg));
            }
            let ng = 1 + r.below(8);
            let mut groups: Vec<(u128, u128, usize)> = Vec::new();
            for _ in 0..ng {
                let e = *r.pick(&pool);
                let x = *r.pick(&pool);
                let l = 2 * kg + 1 + r.below(3);
                if groups.iter().any(|g| g.0 == e && g.1 == x) {
                    continue;
                }
                groups.push((e, x, l));
            }
            let gs: Vec<String> = groups.iter().map(|g| format!("{}:{}:{}", g.0, g.1, g.2)).collect();
            writeln!(out, "lo_derep k={kg} groups={}", gs.join(",")).unwrap();
        }
    }
}
