//! One runner per case-line operation; each calls the real code of /repo in-process.

use std::borrow::Cow;

use ska::ska_dict::bit_encoding::{decode_kmer, UInt};
use ska::ska_dict::nthash::NtHashIterator;
use ska::ska_dict::split_kmer::SplitKmer;
use ska::ska_dict::SkaDict;
use ska::{QualFilter, QualOpts};

use crate::util::*;

pub fn parse_int<IntT: for<'a> UInt<'a>>(s: &str) -> IntT {
    match IntT::from_str_radix(s, 10) {
        Ok(v) => v,
        Err(_) => panic!("bad integer {s}"),
    }
}

macro_rules! by_width {
    ($c:expr, $f:ident $(, $arg:expr)*) => {
        match $c.usize("w") {
            64 => $f::<u64>($c $(, $arg)*),
            128 => $f::<u128>($c $(, $arg)*),
            _ => "badwidth".to_string(),
        }
    };
}

pub fn run_line(line: &str, scratch: &str) -> String {
    let c = Case::parse(line);
    let c = &c;
    guarded(|| match c.op {
        "enc" => by_width!(c, op_enc),
        "rc" => by_width!(c, op_rc),
        "masks" => by_width!(c, op_masks),
        "dec" => by_width!(c, op_dec),
        "sdec" => by_width!(c, op_sdec),
        "iter" => by_width!(c, op_iter),
        "hash" => by_width!(c, op_hash),
        "build" => by_width!(c, op_build, scratch),
        _ => format!("unknown-op:{}", c.op),
    })
}

fn op_enc<IntT: for<'a> UInt<'a>>(c: &Case) -> String {
    format!("{}", IntT::encode_kmer(c.text("s").as_bytes()))
}

fn op_rc<IntT: for<'a> UInt<'a>>(c: &Case) -> String {
    let x: IntT = parse_int(c.get("x"));
    format!("{}", x.rev_comp(c.usize("n")))
}

fn op_masks<IntT: for<'a> UInt<'a>>(c: &Case) -> String {
    let (lo, up) = IntT::generate_masks(c.usize("k"));
    format!("{},{}", lo, up)
}

fn op_dec<IntT: for<'a> UInt<'a>>(c: &Case) -> String {
    let k = c.usize("k");
    let x: IntT = parse_int(c.get("x"));
    let (lo, up) = IntT::generate_masks(k);
    let (u, l) = decode_kmer(k, x, up, lo);
    format!("{},{}", u, l)
}

fn op_sdec<IntT: for<'a> UInt<'a>>(c: &Case) -> String {
    let x: IntT = parse_int(c.get("x"));
    IntT::skalo_decode_kmer(x, c.usize("n"))
}

fn qual_filter(c: &Case) -> QualFilter {
    match c.opt("qf").unwrap_or("none") {
        "middle" => QualFilter::Middle,
        "strict" => QualFilter::Strict,
        _ => QualFilter::NoFilter,
    }
}

/// every window the public iterator yields: key:base:rcflag:middlepos:palindrome[:qualok]
fn op_iter<IntT: for<'a> UInt<'a>>(c: &Case) -> String {
    let k = c.usize("k");
    let rc = c.flag("rc");
    let seq = c.text("seq").as_bytes();
    let qual = c.opt("qual").map(|q| q.as_bytes());
    let min_qual = c.usize_or("mq", 0) as u8;
    let qf = qual_filter(c);
    let mut out: Vec<String> = Vec::new();
    let it = SplitKmer::<IntT>::new(Cow::Borrowed(seq), seq.len(), qual, k, rc, min_qual, qf, false);
    if let Some(mut it) = it {
        let show = |it: &mut SplitKmer<IntT>, (kmer, base, r): (IntT, u8, bool)| {
            let mut s = format!(
                "{}:{}:{}:{}:{}",
                kmer,
                base,
                r as u8,
                it.get_middle_pos(),
                it.self_palindrome() as u8
            );
            if qual.is_some() {
                s.push_str(&format!(":{}", it.middle_base_qual() as u8));
            }
            s
        };
        let first = it.get_curr_kmer();
        out.push(show(&mut it, first));
        while let Some(t) = it.get_next_kmer() {
            out.push(show(&mut it, t));
        }
        join(&out)
    } else {
        "none".into()
    }
}

/// rolling read hash at every window (through SplitKmer) and the from-scratch iterator value
fn op_hash<IntT: for<'a> UInt<'a>>(c: &Case) -> String {
    let k = c.usize("k");
    let rc = c.flag("rc");
    let seq = c.text("seq").as_bytes();
    let mut out: Vec<String> = Vec::new();
    let it = SplitKmer::<IntT>::new(
        Cow::Borrowed(seq),
        seq.len(),
        None,
        k,
        rc,
        0,
        QualFilter::NoFilter,
        true,
    );
    if let Some(mut it) = it {
        let scratch_hash = |it: &SplitKmer<IntT>| {
            let h = (k - 1) / 2;
            let start = it.get_middle_pos() - h;
            NtHashIterator::new(&seq[start..start + k], k, rc).curr_hash()
        };
        out.push(format!("{}:{}", it.get_hash(), scratch_hash(&it)));
        while it.get_next_kmer().is_some() {
            out.push(format!("{}:{}", it.get_hash(), scratch_hash(&it)));
        }
        join(&out)
    } else {
        "none".into()
    }
}

fn op_build<IntT: for<'a> UInt<'a>>(c: &Case, scratch: &str) -> String {
    let k = c.usize("k");
    let rc = c.flag("rc");
    let recs = c.list("recs");
    let path = format!("{scratch}/build.fa");
    write_fasta(&path, &recs, "r");
    let qual = QualOpts {
        min_count: 1,
        min_qual: 0,
        qual_filter: QualFilter::NoFilter,
    };
    let d = SkaDict::<IntT>::new(k, 0, (&path, None), "s", rc, &qual, None);
    let mut v: Vec<(IntT, u8)> = d.kmers().iter().map(|(a, b)| (*a, *b)).collect();
    v.sort();
    let items: Vec<String> = v.iter().map(|(a, b)| format!("{}:{}", a, *b as char)).collect();
    join(&items)
}
