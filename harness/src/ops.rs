//! One runner per case-line operation; each calls the real code of /repo in-process.

use std::borrow::Cow;

use ska::ska_dict::bit_encoding::{decode_kmer, UInt};
use ska::ska_dict::nthash::NtHashIterator;
use ska::ska_dict::split_kmer::SplitKmer;
use ska::ska_dict::SkaDict;
use ska::{QualFilter, QualOpts};

use crate::util::*;

pub fn parse_int<IntT: for<'a> UInt<'a>>(s: &str) -> IntT {
    match IntT::from_str_radix(s, 10) {
        Ok(v) => v,
        Err(_) => panic!("bad integer {s}"),
    }
}

macro_rules! by_width {
    ($c:expr, $f:ident $(, $arg:expr)*) => {
        match $c.usize("w") {
            64 => $f::<u64>($c $(, $arg)*),
            128 => $f::<u128>($c $(, $arg)*),
            _ => "badwidth".to_string(),
        }
    };
}

pub fn run_line(line: &str, scratch: &str) -> String {
    let c = Case::parse(line);
    let c = &c;
    guarded(|| match c.op {
        "enc" => by_width!(c, op_enc),
        "rc" => by_width!(c, op_rc),
        "masks" => by_width!(c, op_masks),
        "dec" => by_width!(c, op_dec),
        "sdec" => by_width!(c, op_sdec),
        "iter" => by_width!(c, op_iter),
        "hash" => by_width!(c, op_hash),
        "build" => by_width!(c, op_build, scratch),
        "hist" => by_width!(c, op_hist, scratch),
        "skf" => by_width!(c, op_skf, scratch),
        "bam" => by_width!(c, op_bam, scratch),
        "mkskf" => by_width!(c, op_mkskf),
        "lo_cmd" => op_lo_cmd(c),
        "lo_comp" => op_lo_comp(c),
        "lo_snps" => op_lo_snps(c),
        "lo_mid" => op_lo_mid(c),
        "lo_derep" => op_lo_derep(c),
        "bloom" => op_bloom(c),
        "lo_out" => op_lo_out(c, scratch),
        "lo_graph" => by_width!(c, op_lo_graph),
        "lo_pipe" => by_width!(c, op_lo_pipe, scratch),
        "buildalign" => by_width!(c, op_buildalign, scratch),
        "covll" => op_covll(c),
        "covcut" => op_covcut(c),
        "cov" => by_width!(c, op_cov, scratch),
        "reads" => by_width!(c, op_reads, scratch),
        "skfaults" => by_width!(c, op_skfaults, scratch),
        "skchunks" => by_width!(c, op_skchunks, scratch),
        "snapblock" => op_snapblock(c),
        "names" => op_names(c),
        "filelist" => op_filelist(c, scratch),
        "build2" => by_width!(c, op_build2, scratch),
        "map" => by_width!(c, op_map, scratch),
        "alnw" => op_alnw(c),
        _ => format!("unknown-op:{}", c.op),
    })
}

fn op_enc<IntT: for<'a> UInt<'a>>(c: &Case) -> String {
    format!("{}", IntT::encode_kmer(c.text("s").as_bytes()))
}

fn op_rc<IntT: for<'a> UInt<'a>>(c: &Case) -> String {
    let x: IntT = parse_int(c.get("x"));
    format!("{}", x.rev_comp(c.usize("n")))
}

fn op_masks<IntT: for<'a> UInt<'a>>(c: &Case) -> String {
    let (lo, up) = IntT::generate_masks(c.usize("k"));
    format!("{},{}", lo, up)
}

fn op_dec<IntT: for<'a> UInt<'a>>(c: &Case) -> String {
    let k = c.usize("k");
    let x: IntT = parse_int(c.get("x"));
    let (lo, up) = IntT::generate_masks(k);
    let (u, l) = decode_kmer(k, x, up, lo);
    format!("{},{}", u, l)
}

fn op_sdec<IntT: for<'a> UInt<'a>>(c: &Case) -> String {
    let x: IntT = parse_int(c.get("x"));
    IntT::skalo_decode_kmer(x, c.usize("n"))
}

fn qual_filter(c: &Case) -> QualFilter {
    match c.opt("qf").unwrap_or("none") {
        "middle" => QualFilter::Middle,
        "strict" => QualFilter::Strict,
        _ => QualFilter::NoFilter,
    }
}

/// every window the public iterator yields: key:base:rcflag:middlepos:palindrome[:qualok]
fn op_iter<IntT: for<'a> UInt<'a>>(c: &Case) -> String {
    let k = c.usize("k");
    let rc = c.flag("rc");
    let seq = c.text("seq").as_bytes();
    let qual = c.opt("qual").map(|q| q.as_bytes());
    let min_qual = c.usize_or("mq", 0) as u8;
    let qf = qual_filter(c);
    let mut out: Vec<String> = Vec::new();
    let it = SplitKmer::<IntT>::new(Cow::Borrowed(seq), seq.len(), qual, k, rc, min_qual, qf, false);
    if let Some(mut it) = it {
        let show = |it: &mut SplitKmer<IntT>, (kmer, base, r): (IntT, u8, bool)| {
            let mut s = format!(
                "{}:{}:{}:{}:{}",
                kmer,
                base,
                r as u8,
                it.get_middle_pos(),
                it.self_palindrome() as u8
            );
            if qual.is_some() {
                s.push_str(&format!(":{}", it.middle_base_qual() as u8));
            }
            s
        };
        let first = it.get_curr_kmer();
        out.push(show(&mut it, first));
        while let Some(t) = it.get_next_kmer() {
            out.push(show(&mut it, t));
        }
        join(&out)
    } else {
        "none".into()
    }
}

/// rolling read hash at every window (through SplitKmer) and the from-scratch iterator value
fn op_hash<IntT: for<'a> UInt<'a>>(c: &Case) -> String {
    let k = c.usize("k");
    let rc = c.flag("rc");
    let seq = c.text("seq").as_bytes();
    let mut out: Vec<String> = Vec::new();
    let it = SplitKmer::<IntT>::new(
        Cow::Borrowed(seq),
        seq.len(),
        None,
        k,
        rc,
        0,
        QualFilter::NoFilter,
        true,
    );
    if let Some(mut it) = it {
        let scratch_hash = |it: &SplitKmer<IntT>| {
            let h = (k - 1) / 2;
            let start = it.get_middle_pos() - h;
            // the hasher is handed the rest of the read, as its documentation invites ("over a sequence"):
            // it must start on the first k bases of what it is given
            NtHashIterator::new(&seq[start..], k, rc).curr_hash()
        };
        out.push(format!("{}:{}", it.get_hash(), scratch_hash(&it)));
        while it.get_next_kmer().is_some() {
            out.push(format!("{}:{}", it.get_hash(), scratch_hash(&it)));
        }
        join(&out)
    } else {
        "none".into()
    }
}

fn op_build<IntT: for<'a> UInt<'a>>(c: &Case, scratch: &str) -> String {
    let k = c.usize("k");
    let rc = c.flag("rc");
    let recs = c.list("recs");
    let path = format!("{scratch}/build.fa");
    write_fasta(&path, &recs, "r");
    let qual = QualOpts {
        min_count: 1,
        min_qual: 0,
        qual_filter: QualFilter::NoFilter,
    };
    let d = SkaDict::<IntT>::new(k, 0, (&path, None), "s", rc, &qual, None);
    let mut v: Vec<(IntT, u8)> = d.kmers().iter().map(|(a, b)| (*a, *b)).collect();
    v.sort();
    let items: Vec<String> = v.iter().map(|(a, b)| format!("{}:{}", a, *b as char)).collect();
    join(&items)
}

// ------------------------------------------------------------------ table histories

use hashbrown::HashMap;
use ska::cli::FilterType;
use ska::generic_modes;
use ska::merge_ska_array::MergeSkaArray;
use ska::merge_ska_dict::MergeSkaDict;

pub fn parse_table<IntT: for<'a> UInt<'a>>(s: &str) -> (Vec<String>, HashMap<IntT, Vec<u8>>) {
    let (n, r) = s.split_once('|').expect("table needs names|rows");
    let names: Vec<String> = if n == "~" { vec![] } else { n.split(',').map(|x| x.to_string()).collect() };
    let mut rows = HashMap::new();
    if r != "~" {
        for item in r.split(',') {
            let (key, cells) = item.split_once(':').expect("row needs key:cells");
            rows.insert(parse_int::<IntT>(key), cells.as_bytes().to_vec());
        }
    }
    (names, rows)
}

pub fn make_array<IntT: for<'a> UInt<'a>>(k: usize, rc: bool, table: &str) -> MergeSkaArray<IntT> {
    let (mut names, mut rows) = parse_table::<IntT>(table);
    let mut d = MergeSkaDict::new(k, names.len(), rc);
    d.build_from_array(&mut names, &mut rows);
    MergeSkaArray::new(&d)
}

pub fn dump_array<IntT: for<'a> UInt<'a>>(a: &MergeSkaArray<IntT>) -> String {
    let mut rows: Vec<(IntT, Vec<u8>)> = a.iter().collect();
    rows.sort();
    let items: Vec<String> = rows
        .iter()
        .map(|(k, v)| format!("{}:{}", k, String::from_utf8_lossy(v)))
        .collect();
    format!("k={},rc={},names={};rows={}", a.kmer_len(), a.rc() as u8, join(a.names()), join(&items))
}

fn filter_type(s: &str) -> FilterType {
    match s {
        "noconst" => FilterType::NoConst,
        "noambig" => FilterType::NoAmbig,
        "noambigorconst" => FilterType::NoAmbigOrConst,
        _ => FilterType::NoFilter,
    }
}

fn parse_fasta_text(text: &str) -> Vec<(String, String)> {
    let mut out: Vec<(String, String)> = Vec::new();
    for l in text.lines() {
        if let Some(n) = l.strip_prefix('>') {
            out.push((n.to_string(), String::new()));
        } else if let Some(last) = out.last_mut() {
            last.1.push_str(l.trim_end());
        }
    }
    out
}

/// columns of an alignment as a sorted multiset
fn columns_of(seqs: &[(String, String)]) -> String {
    if seqs.is_empty() {
        return "~".into();
    }
    let len = seqs[0].1.len();
    if seqs.iter().any(|s| s.1.len() != len) {
        return "ragged".into();
    }
    let mut cols: Vec<String> = (0..len)
        .map(|p| seqs.iter().map(|s| s.1.as_bytes()[p] as char).collect())
        .collect();
    cols.sort();
    join(&cols)
}

/// min_freq such that ceil(n*f) = t robustly (and floor(n*f) = t-1 for t >= 1)
fn freq_for(t: usize, n: usize) -> f64 {
    if t == 0 || n == 0 {
        0.0
    } else {
        f64::min(1.0, (t as f64 - 0.5) / n as f64)
    }
}

/// `hist`: a start table, a sequence of operations through `generic_modes` with
/// save/reload at every step, then observers on fresh loads of the final file.
fn op_hist<IntT: for<'a> UInt<'a>>(c: &Case, scratch: &str) -> String {
    let k = c.usize("k");
    let rc = c.flag("rc");
    let dir = format!("{scratch}/hist");
    let _ = std::fs::remove_dir_all(&dir);
    std::fs::create_dir_all(&dir).unwrap();
    let cur = format!("{dir}/cur.skf");
    make_array::<IntT>(k, rc, c.get("start")).save(&cur).unwrap();
    let ops = c.get("ops");
    let mut step = 0;
    if ops != "~" {
        for op in ops.split(';') {
            step += 1;
            let f: Vec<&str> = op.split('/').collect();
            let res = std::panic::catch_unwind(std::panic::AssertUnwindSafe(|| match f[0] {
                "merge" => {
                    let ok = if f.len() > 2 { f[2].parse().unwrap() } else { k };
                    let orc = if f.len() > 3 { f[3] == "1" } else { rc };
                    let other = format!("{dir}/other{step}.skf");
                    // a file of another k is written with the integer width that k takes (as `ska build` would)
                    if ok == k {
                        make_array::<IntT>(ok, orc, f[1]).save(&other).unwrap();
                    } else if ok <= 31 {
                        make_array::<u64>(ok, orc, f[1]).save(&other).unwrap();
                    } else {
                        make_array::<u128>(ok, orc, f[1]).save(&other).unwrap();
                    }
                    let first = MergeSkaArray::<IntT>::load(&cur).unwrap();
                    let out = format!("{dir}/m{step}");
                    generic_modes::merge(&first, &[other], &out);
                    std::fs::rename(format!("{out}.skf"), &cur).unwrap();
                }
                "mergen" => {
                    // several files in one merge call: mergen/<table>&<table>&...
                    let mut others: Vec<String> = Vec::new();
                    for (i, t) in f[1].split('&').enumerate() {
                        let other = format!("{dir}/other{step}_{i}.skf");
                        make_array::<IntT>(k, rc, t).save(&other).unwrap();
                        others.push(other);
                    }
                    let first = MergeSkaArray::<IntT>::load(&cur).unwrap();
                    let out = format!("{dir}/m{step}");
                    generic_modes::merge(&first, &others, &out);
                    std::fs::rename(format!("{out}.skf"), &cur).unwrap();
                }
                "delete" => {
                    let mut a = MergeSkaArray::<IntT>::load(&cur).unwrap();
                    let names: Vec<&str> = if f[1] == "~" { vec![] } else { f[1].split('+').collect() };
                    generic_modes::delete(&mut a, &names, &cur);
                }
                "weed" => {
                    // weed/<recs '+'-separated or ~>/<rev>/<tf>/<famb>/<ft>/<mask>/<gaps>
                    let mut a = MergeSkaArray::<IntT>::load(&cur).unwrap();
                    let weed_file = if f[1] == "~" {
                        None
                    } else {
                        let p = format!("{dir}/weed{step}.fa");
                        let recs: Vec<&str> = f[1].split('+').collect();
                        write_fasta(&p, &recs, "w");
                        Some(p)
                    };
                    let n = a.nsamples();
                    let tf: usize = f[3].parse().unwrap();
                    // floor(n * f) = tf
                    let mf = if tf == 0 { 0.0 } else { f64::min(1.0, (tf as f64 + 0.5) / n as f64) };
                    generic_modes::weed(
                        &mut a,
                        &weed_file,
                        f[2] == "1",
                        mf,
                        f[4] == "1",
                        &filter_type(f[5]),
                        f[6] == "1",
                        f[7] == "1",
                        &cur,
                    );
                }
                "reload" => {
                    let a = MergeSkaArray::<IntT>::load(&cur).unwrap();
                    a.save(&cur).unwrap();
                }
                _ => panic!("unknown hist op"),
            }));
            if let Err(e) = res {
                let msg = if let Some(s) = e.downcast_ref::<String>() {
                    s.clone()
                } else if let Some(s) = e.downcast_ref::<&str>() {
                    s.to_string()
                } else {
                    String::new()
                };
                // a refused operation must leave the current file as it was and write no output file
                let after = MergeSkaArray::<IntT>::load(&cur).map(|a| dump_array(&a)).unwrap_or("unreadable".into());
                let left = ["", ".skf"].iter().any(|e| std::path::Path::new(&format!("{dir}/m{step}{e}")).exists());
                return format!("step{}:{}{};file={}", step, classify_panic(&msg), if left { "+output-written" } else { "" }, after);
            }
        }
    }
    let mut out: Vec<String> = Vec::new();
    for ob in c.get("obs").split(';') {
        let f: Vec<&str> = ob.split('/').collect();
        let mut a = MergeSkaArray::<IntT>::load(&cur).unwrap();
        match f[0] {
            "nk" => {
                let cnt: Vec<String> = a.n_sample_kmers().iter().map(|x| x.to_string()).collect();
                out.push(format!("nk[{};counts={}]", dump_array(&a), join(&cnt)));
            }
            "align" => {
                // align/<t>/<ft>/<mask>/<gaps>/<famb>
                let t: usize = f[1].parse().unwrap();
                let path = format!("{dir}/aln.fa");
                let n = a.nsamples();
                generic_modes::align(
                    &mut a,
                    &Some(path.clone()),
                    &filter_type(f[2]),
                    f[3] == "1",
                    f[4] == "1",
                    freq_for(t, n),
                    f[5] == "1",
                );
                let seqs = parse_fasta_text(&std::fs::read_to_string(&path).unwrap());
                let names: Vec<String> = seqs.iter().map(|s| s.0.clone()).collect();
                out.push(format!("align[names={};cols={}]", join(&names), columns_of(&seqs)));
            }
            "dist" => {
                // dist/<t>/<filt_ambig>
                let t: usize = f[1].parse().unwrap();
                let path = format!("{dir}/dist.txt");
                let n = a.nsamples();
                generic_modes::distance(&mut a, &Some(path.clone()), freq_for(t, n), f[2] == "1", 1);
                let text = std::fs::read_to_string(&path).unwrap();
                let mut items: Vec<String> = Vec::new();
                for l in text.lines().skip(1) {
                    let p: Vec<&str> = l.split('\t').collect();
                    let d: f64 = p[2].parse().unwrap();
                    let m: f64 = p[3].parse().unwrap();
                    items.push(format!("{}-{}:~{}:~{}", p[0], p[1], (d * 100.0).round() as i64, (m * 100000.0).round() as i64));
                }
                out.push(format!("dist[{}]", join(&items)));
            }
            "rawdist" => {
                // rawdist/<constant>: MergeSkaArray::distance on the stored table
                let cst: f64 = f[1].parse().unwrap();
                let d = a.distance(cst);
                let mut items: Vec<String> = Vec::new();
                for (i, row) in d.iter().enumerate() {
                    for (jj, (dist, mm)) in row.iter().enumerate() {
                        items.push(format!("{}-{}:{}:~{}", i, i + 1 + jj, (dist * 36.0).round() as i64, (mm * 1e9).round() as i64));
                    }
                }
                out.push(format!("rawdist[{}]", join(&items)));
            }
            _ => out.push("unknown-observer".into()),
        }
    }
    let _ = std::fs::remove_dir_all(&dir);
    out.join(" ")
}

// ------------------------------------------------------------------ map / AlnWriter

use ska::merge_ska_dict::build_and_merge;
use ska::ska_ref::aln_writer::AlnWriter;
use ska::ska_ref::RefSka;

fn op_alnw(c: &Case) -> String {
    let k = c.usize("k");
    let refs: Vec<Vec<u8>> = c.list("ref").iter().map(|s| s.as_bytes().to_vec()).collect();
    let reps: Vec<usize> = c.list("reps").iter().map(|s| s.parse().unwrap()).collect();
    let mut w = AlnWriter::new(&refs, k, &reps, c.flag("mask"));
    for m in c.list("matches") {
        let f: Vec<&str> = m.split(':').collect();
        w.write_split_kmer(f[1].parse().unwrap(), f[0].parse().unwrap(), f[2].as_bytes()[0]);
    }
    w.finalise();
    String::from_utf8_lossy(w.get_seq()).into_owned()
}

fn op_map<IntT: for<'a> UInt<'a>>(c: &Case, scratch: &str) -> String {
    let k = c.usize("k");
    let rc = c.flag("rc");
    let dir = format!("{scratch}/map");
    let _ = std::fs::remove_dir_all(&dir);
    std::fs::create_dir_all(&dir).unwrap();
    let ref_path = format!("{dir}/ref.fa");
    write_fasta(&ref_path, &c.list("ref"), "r");
    let dict = if let Some(t) = c.opt("table") {
        make_array::<IntT>(k, rc, t).to_dict()
    } else {
        let mut inputs: Vec<(String, String, Option<String>)> = Vec::new();
        for (i, smp) in c.get("samples").split('|').enumerate() {
            let recs: Vec<&str> = smp.split('+').map(|r| if r == "." { "" } else { r }).collect();
            let p = format!("{dir}/s{i}.fa");
            write_fasta(&p, &recs, "q");
            inputs.push((format!("s{i}"), p, None));
        }
        let qual = QualOpts { min_count: 1, min_qual: 0, qual_filter: QualFilter::NoFilter };
        let d = build_and_merge::<IntT>(&inputs, k, rc, &qual, 1, None);
        MergeSkaArray::new(&d).to_dict()
    };
    let mut r = RefSka::<IntT>::new(k, &ref_path, rc, c.flag("amask"), c.flag("rmask"));
    r.map(&dict);
    let mut aln: Vec<u8> = Vec::new();
    r.write_aln(&mut aln, 1).unwrap();
    let seqs = parse_fasta_text(&String::from_utf8_lossy(&aln));
    let aln_s: Vec<String> = seqs.iter().map(|(n, s)| format!("{n}:{s}")).collect();
    let mut vcf: Vec<u8> = Vec::new();
    r.write_vcf(&mut vcf, 1).unwrap();
    let mut raw: Vec<String> = Vec::new();
    let mut dec: Vec<String> = Vec::new();
    for l in String::from_utf8_lossy(&vcf).lines() {
        if l.starts_with('#') {
            continue;
        }
        let f: Vec<&str> = l.split('\t').collect();
        let alts: Vec<&str> = if f[4] == "." { vec![] } else { f[4].split(',').collect() };
        let gts: Vec<&str> = f[9..].to_vec();
        raw.push(format!(
            "{}:{}:{}:{}:{}",
            f[0],
            f[1],
            f[3],
            if alts.is_empty() { ".".to_string() } else { alts.join("/") },
            gts.join("/")
        ));
        let d: String = gts
            .iter()
            .map(|g| {
                if *g == "." {
                    ".".to_string()
                } else if *g == "0" {
                    f[3].to_string()
                } else {
                    alts.get(g.parse::<usize>().unwrap() - 1).unwrap_or(&"?").to_string()
                }
            })
            .collect();
        dec.push(format!("{}:{}:{}:{}", f[0], f[1], f[3], d));
    }
    let _ = std::fs::remove_dir_all(&dir);
    format!("aln[{}] vcf[{}] dec[{}]", join(&aln_s), join(&raw), join(&dec))
}

// ------------------------------------------------------------------ C02: metamorphic build

/// dictionary of `recs`, and whether the transformed input `alt` gives the same dictionary
fn op_build2<IntT: for<'a> UInt<'a>>(c: &Case, scratch: &str) -> String {
    let a = guarded(|| op_build::<IntT>(c, scratch));
    let line_b = format!("build w={} k={} rc={} recs={}", c.get("w"), c.get("k"), c.get("rc"), c.get("alt"));
    let cb = Case::parse(&line_b);
    let b = guarded(|| op_build::<IntT>(&cb, scratch));
    format!("{} eq:{}", a, (a == b) as u8)
}

// ------------------------------------------------------------------ C09 / C19: persistence

use std::io::Read;

fn hex(bytes: &[u8]) -> String {
    let mut s = String::with_capacity(bytes.len() * 2);
    for b in bytes {
        s.push_str(&format!("{:02x}", b));
    }
    if s.is_empty() {
        s.push('.');
    }
    s
}

fn unframe_real(bytes: &[u8]) -> Result<Vec<u8>, String> {
    let mut out = Vec::new();
    let mut dec = snap::read::FrameDecoder::new(bytes);
    match dec.read_to_end(&mut out) {
        Ok(_) => Ok(out),
        Err(e) => Err(e.to_string()),
    }
}

/// the dispatch of lib.rs: try u64, then u128
fn load_any(path: &str) -> Result<String, String> {
    if let Ok(a) = MergeSkaArray::<u64>::load(path) {
        return Ok(format!("64|{}", dump_full(&a)));
    }
    match MergeSkaArray::<u128>::load(path) {
        Ok(a) => Ok(format!("128|{}", dump_full(&a))),
        Err(e) => Err(e.to_string()),
    }
}

/// load and drop (both widths are tried, as the command line does)
fn load_touch(path: &str) {
    if MergeSkaArray::<u64>::load(path).is_err() {
        let _ = MergeSkaArray::<u128>::load(path);
    }
}

/// as `load_any`, plus a checksum of the file the loaded array saves again: two loads agree on
/// this string only if EVERY stored field agrees (also the per-k-mer counts no observer prints)
fn load_any_full(path: &str) -> Result<String, String> {
    fn reser<IntT: for<'a> UInt<'a>>(a: &MergeSkaArray<IntT>, path: &str) -> String {
        let re = format!("{path}.resaved");
        let out = match a.save(&re) {
            Ok(()) => match std::fs::read(&re).map_err(|e| e.to_string()).and_then(|b| unframe_real(&b)) {
                Ok(raw) => format!("{}:{}", raw.len(), crc_simple(&raw)),
                Err(e) => format!("unreadable:{e}"),
            },
            Err(e) => format!("unsaved:{e}"),
        };
        let _ = std::fs::remove_file(&re);
        out
    }
    if let Ok(a) = MergeSkaArray::<u64>::load(path) {
        return Ok(format!("64|{}|{}", dump_full(&a), reser(&a, path)));
    }
    match MergeSkaArray::<u128>::load(path) {
        Ok(a) => Ok(format!("128|{}|{}", dump_full(&a), reser(&a, path))),
        Err(e) => Err(e.to_string()),
    }
}

fn dump_full<IntT: for<'a> UInt<'a>>(a: &MergeSkaArray<IntT>) -> String {
    // Display carries ska_version, k, k_bits, rc, counts; dump_array the rows
    let disp = format!("{}", a).replace('\n', ";");
    format!("{}|{}", disp, dump_array(a))
}

/// `skf`: save a table, return the raw CBOR bytes (frames removed by snap itself),
/// what both widths make of the file, and the content through the dispatch.
fn op_skf<IntT: for<'a> UInt<'a>>(c: &Case, scratch: &str) -> String {
    let dir = format!("{scratch}/skf");
    std::fs::create_dir_all(&dir).unwrap();
    let path = format!("{dir}/x.skf");
    let a = make_array::<IntT>(c.usize("k"), c.flag("rc"), c.get("table"));
    a.save(&path).unwrap();
    let bytes = std::fs::read(&path).unwrap();
    let raw = unframe_real(&bytes).unwrap();
    let l64 = MergeSkaArray::<u64>::load(&path).is_ok();
    let l128 = MergeSkaArray::<u128>::load(&path).is_ok();
    let any = load_any(&path).unwrap_or_else(|e| format!("err:{e}"));
    let _ = std::fs::remove_dir_all(&dir);
    format!("hex={} load64={} load128={} any={}", hex(&raw), l64 as u8, l128 as u8, any.replace(' ', "_"))
}

/// `skfaults`: every truncation point and every single-bit flip of a saved file.
/// A valid file of the same shape as `a` (same k, width, keys, sample count, name lengths) but with
/// other names and other bases. It is loaded on the same thread before every damaged copy, so that
/// anything a loader might keep between calls comes from a different file: a damaged file that is
/// "completed" from left-over state then shows as different content, not as the original.
fn save_decoy<IntT: for<'a> UInt<'a>>(a: &MergeSkaArray<IntT>, k: usize, rc: bool, path: &str) {
    let mut rows: HashMap<IntT, Vec<u8>> = a
        .iter()
        .map(|(key, cells)| {
            let c2: Vec<u8> = cells
                .iter()
                .map(|b| match *b {
                    b'A' => b'C',
                    b'C' => b'A',
                    b'G' => b'T',
                    b'T' => b'G',
                    x => x,
                })
                .collect();
            (key, c2)
        })
        .collect();
    let mut names: Vec<String> = a
        .names()
        .iter()
        .map(|n| {
            let mut s = n.clone().into_bytes();
            if !s.is_empty() {
                s[0] = if s[0] == b'Z' { b'Y' } else { b'Z' };
            }
            String::from_utf8(s).unwrap_or_else(|_| "Z".to_string())
        })
        .collect();
    let mut d = MergeSkaDict::new(k, names.len(), rc);
    d.build_from_array(&mut names, &mut rows);
    MergeSkaArray::<IntT>::new(&d).save(path).unwrap();
}

/// Result: counts per outcome class through the real loader, the faults that
/// were accepted with DIFFERENT content (must be none), and the outcome of
/// snap's frame decoder for each fault (for the model cross-check).
fn op_skfaults<IntT: for<'a> UInt<'a>>(c: &Case, scratch: &str) -> String {
    let dir = format!("{scratch}/skfaults");
    std::fs::create_dir_all(&dir).unwrap();
    let path = format!("{dir}/x.skf");
    let a = make_array::<IntT>(c.usize("k"), c.flag("rc"), c.get("table"));
    a.save(&path).unwrap();
    let bytes = std::fs::read(&path).unwrap();
    let good = load_any_full(&path).unwrap();
    let decoy_path = format!("{dir}/decoy.skf");
    save_decoy(&a, c.usize("k"), c.flag("rc"), &decoy_path);
    let stride = c.usize_or("stride", 1);
    let bad_path = format!("{dir}/bad.skf");
    let (mut rejected, mut same, mut different) = (0usize, 0usize, 0usize);
    let mut diffs: Vec<String> = Vec::new();
    let mut frames: Vec<String> = Vec::new();
    let mut eval = |tag: String, data: &[u8]| {
        std::fs::write(&bad_path, data).unwrap();
        load_touch(&decoy_path);
        match load_any_full(&bad_path) {
            Err(_) => rejected += 1,
            Ok(s) if s == good => same += 1,
            Ok(_) => {
                different += 1;
                if diffs.len() < 5 {
                    diffs.push(tag.clone());
                }
            }
        }
        let fr = match unframe_real(data) {
            Ok(v) => format!("ok{}", crc_simple(&v)),
            Err(_) => "err".to_string(),
        };
        frames.push(format!("{tag}:{fr}"));
    };
    // `tail=N`: only the last N bytes (the trailing frames of a multi-frame file)
    let first = c.opt("tail").map(|t| bytes.len().saturating_sub(t.parse::<usize>().unwrap())).unwrap_or(0);
    for cut in (first..bytes.len()).step_by(stride) {
        eval(format!("t{cut}"), &bytes[..cut]);
    }
    let mut work = bytes.clone();
    for i in (first..bytes.len()).step_by(stride) {
        for bit in 0..8 {
            work[i] ^= 1 << bit;
            eval(format!("f{i}.{bit}"), &work);
            work[i] ^= 1 << bit;
        }
    }
    let _ = std::fs::remove_dir_all(&dir);
    format!(
        "file={} len={} rejected={} same={} different={} diffs={} frames={}",
        hex(&bytes),
        bytes.len(),
        rejected,
        same,
        different,
        join(&diffs),
        join(&frames)
    )
}

/// `skchunks`: a large random table (generated here from `seed`, `rows` k-mers by `nsamp` samples,
/// so that the file has many 64 KiB compression frames and several of them lie wholly inside one
/// array of the struct), saved by the real code; then every bit of every chunk-type byte, and every
/// bit of the three length bytes of the first and last `edge` chunks, is flipped and the damaged
/// file goes through the real loader. A flipped type byte can turn a data chunk into a skippable
/// one: the frame decoder then drops 64 KiB of the stream without any checksum failing, and only
/// the structure of what remains can reject the file.
fn op_skchunks<IntT: for<'a> UInt<'a>>(c: &Case, scratch: &str) -> String {
    let dir = format!("{scratch}/skchunks");
    std::fs::create_dir_all(&dir).unwrap();
    let path = format!("{dir}/x.skf");
    let k = c.usize("k");
    let nsamp = c.usize("nsamp");
    let mut r = crate::rng::Rng::new(c.usize("seed") as u64);
    let mask: u128 = if 2 * (k - 1) >= 128 { u128::MAX } else { (1u128 << (2 * (k - 1))) - 1 };
    let mut rows: HashMap<IntT, Vec<u8>> = HashMap::new();
    let letters = b"ACGT-ACGTN";
    for _ in 0..c.usize("rows") {
        let key = parse_int::<IntT>(&format!("{}", r.u128() & mask));
        let mut cells: Vec<u8> = (0..nsamp).map(|_| letters[r.below(letters.len())]).collect();
        if cells.iter().all(|b| *b == b'-') {
            cells[0] = b'A';
        }
        rows.insert(key, cells);
    }
    let mut names: Vec<String> = (0..nsamp).map(|i| format!("s{i}")).collect();
    let mut d = MergeSkaDict::new(k, nsamp, true);
    d.build_from_array(&mut names, &mut rows);
    let a = MergeSkaArray::<IntT>::new(&d);
    a.save(&path).unwrap();
    let bytes = std::fs::read(&path).unwrap();
    let good = load_any_full(&path).unwrap();
    let decoy_path = format!("{dir}/decoy.skf");
    save_decoy(&a, k, true, &decoy_path);
    // chunk headers of the snappy frame format: type (1 byte), length (3 bytes LE), data
    let mut headers: Vec<usize> = Vec::new();
    let mut pos = 0usize;
    while pos + 4 <= bytes.len() {
        headers.push(pos);
        let len = bytes[pos + 1] as usize | (bytes[pos + 2] as usize) << 8 | (bytes[pos + 3] as usize) << 16;
        pos += 4 + len;
    }
    assert_eq!(pos, bytes.len(), "chunk walk must end at the end of the file");
    let edge = c.usize_or("edge", 2);
    let bad_path = format!("{dir}/bad.skf");
    let (mut rejected, mut same, mut different) = (0usize, 0usize, 0usize);
    let mut diffs: Vec<String> = Vec::new();
    let mut work = bytes.clone();
    let nh = headers.len();
    for (ci, h) in headers.iter().enumerate() {
        let width = if ci < edge + 1 || ci + edge >= nh { 4 } else { 1 };
        for off in 0..width {
            for bit in 0..8 {
                work[h + off] ^= 1 << bit;
                std::fs::write(&bad_path, &work).unwrap();
                load_touch(&decoy_path);
                match load_any_full(&bad_path) {
                    Err(_) => rejected += 1,
                    Ok(s) if s == good => same += 1,
                    Ok(_) => {
                        different += 1;
                        if diffs.len() < 5 {
                            diffs.push(format!("c{ci}@{}+{off}.{bit}", h));
                        }
                    }
                }
                work[h + off] ^= 1 << bit;
            }
        }
    }
    // the file cut at every chunk boundary (a clean end of the compressed stream)
    for (ci, h) in headers.iter().enumerate() {
        std::fs::write(&bad_path, &bytes[..*h]).unwrap();
        load_touch(&decoy_path);
        match load_any_full(&bad_path) {
            Err(_) => rejected += 1,
            Ok(s) if s == good => same += 1,
            Ok(_) => {
                different += 1;
                if diffs.len() < 5 {
                    diffs.push(format!("cut-before-c{ci}"));
                }
            }
        }
    }
    // whole data chunks removed (what a skippable type makes of them), one at a time
    for ci in 1..nh {
        let h = headers[ci];
        let end = if ci + 1 < nh { headers[ci + 1] } else { bytes.len() };
        let mut cut = bytes[..h].to_vec();
        cut.extend_from_slice(&bytes[end..]);
        std::fs::write(&bad_path, &cut).unwrap();
        load_touch(&decoy_path);
        match load_any_full(&bad_path) {
            Err(_) => rejected += 1,
            Ok(s) if s == good => same += 1,
            Ok(_) => {
                different += 1;
                if diffs.len() < 5 {
                    diffs.push(format!("drop-c{ci}"));
                }
            }
        }
    }
    let _ = std::fs::remove_dir_all(&dir);
    format!(
        "len={} chunks={} rows={} rejected={} same={} different={} diffs={}",
        bytes.len(),
        nh,
        a.ksize(),
        rejected,
        same,
        different,
        join(&diffs)
    )
}

fn unhex_bytes(s: &str) -> Vec<u8> {
    if s == "." {
        return Vec::new();
    }
    (0..s.len() / 2).map(|i| u8::from_str_radix(&s[2 * i..2 * i + 2], 16).unwrap()).collect()
}

/// C09, compression layer: one raw Snappy block as `snap` (the compressor behind
/// `MergeSkaArray::save`) writes it for `data`, what `snap`'s block decoder makes
/// of it, and of truncated / bit-flipped copies (tags `tN`, `fI.B` as in skfaults).
fn op_snapblock(c: &Case) -> String {
    let data = unhex_bytes(c.get("data"));
    let block = snap::raw::Encoder::new().compress_vec(&data).unwrap();
    let dec = |b: &[u8]| -> String {
        // the frame decoder hands the block decoder a 64 KiB output buffer
        let mut out = vec![0u8; 65536];
        match snap::raw::Decoder::new().decompress(b, &mut out) {
            Ok(n) => format!("ok{}", crc_simple(&out[..n])),
            Err(_) => "err".to_string(),
        }
    };
    let mut muts: Vec<String> = Vec::new();
    for tag in c.list("faults") {
        let mut b = block.clone();
        if let Some(n) = tag.strip_prefix('t') {
            b.truncate(n.parse::<usize>().unwrap());
        } else if let Some(rest) = tag.strip_prefix('f') {
            let (i, bit) = rest.split_once('.').unwrap();
            let i: usize = i.parse().unwrap();
            if i < b.len() {
                b[i] ^= 1 << bit.parse::<u32>().unwrap();
            }
        }
        muts.push(format!("{tag}:{}", dec(&b)));
    }
    format!("block={} dec={} want=ok{} muts={}", hex(&block), dec(&block), crc_simple(&data), join(&muts))
}

/// sample names of file arguments (`io_utils::read_input_fastas`); arguments and
/// names travel as hex of their UTF-8 bytes
fn op_names(c: &Case) -> String {
    let files: Vec<String> = c
        .list("files")
        .iter()
        .map(|h| String::from_utf8(unhex_bytes(if h.is_empty() { "." } else { h })).unwrap())
        .collect();
    let res = ska::io_utils::read_input_fastas(&files);
    let names: Vec<String> = res
        .iter()
        .zip(files.iter())
        .map(|((name, path, second), f)| {
            // the path handed on must be the argument itself, and no second file
            let tag = if path == f && second.is_none() { "" } else { "!" };
            format!("{tag}{}", hex(name.as_bytes()))
        })
        .collect();
    join(&names)
}

/// the `-f` file list (`io_utils::get_input_list`) and the names file of `ska delete`
/// (`io_utils::read_name_list`) on the same content; fields as hex of UTF-8
fn op_filelist(c: &Case, scratch: &str) -> String {
    let dir = format!("{scratch}/filelist");
    std::fs::create_dir_all(&dir).unwrap();
    let path = format!("{dir}/list.txt");
    std::fs::write(&path, unhex_bytes(c.get("content"))).unwrap();
    let hx = |s: &str| hex(s.as_bytes());
    let p1 = path.clone();
    let list = guarded(move || {
        let v = ska::io_utils::get_input_list(&Some(p1), &None);
        let items: Vec<String> = v
            .iter()
            .map(|(n, f, g)| format!("{}:{}:{}", hx(n), hx(f), g.as_ref().map(|x| hx(x)).unwrap_or_else(|| "-".to_string())))
            .collect();
        join(&items)
    });
    let p2 = path.clone();
    let names = guarded(move || {
        let v = ska::io_utils::read_name_list(&p2);
        let items: Vec<String> = v.iter().map(|(n, _, _)| hx(n)).collect();
        join(&items)
    });
    let _ = std::fs::remove_dir_all(&dir);
    let list = if list.contains(':') || list == "~" { list } else { "panic".to_string() };
    format!("list={list} names={names}")
}

/// a simple order-sensitive checksum of a byte string (to compare decoder outputs)
fn crc_simple(v: &[u8]) -> u64 {
    let mut h: u64 = 1469598103934665603;
    for b in v {
        h ^= *b as u64;
        h = h.wrapping_mul(1099511628211);
    }
    h
}


// ------------------------------------------------------------------ C12: paired FASTQ input

fn write_fastq(path: &str, reads: &[&str]) {
    let mut s = String::new();
    for (i, r) in reads.iter().enumerate() {
        let (sq, q) = r.split_once(':').expect("read needs SEQ:QUAL");
        let qual: String = q.bytes().map(|b| (b - b'A' + 33) as char).collect();
        s.push_str(&format!("@r{}\n{}\n+\n{}\n", i, sq, qual));
    }
    std::fs::write(path, s).unwrap();
}

fn op_reads<IntT: for<'a> UInt<'a>>(c: &Case, scratch: &str) -> String {
    let dir = format!("{scratch}/reads");
    std::fs::create_dir_all(&dir).unwrap();
    let (p1, p2) = (format!("{dir}/r1.fastq"), format!("{dir}/r2.fastq"));
    write_fastq(&p1, &c.list("r1"));
    write_fastq(&p2, &c.list("r2"));
    let qual = QualOpts {
        min_count: c.usize("mc") as u16,
        min_qual: c.usize("mq") as u8,
        qual_filter: qual_filter(c),
    };
    let d = SkaDict::<IntT>::new(c.usize("k"), 0, (&p1, Some(&p2)), "s", c.flag("rc"), &qual, None);
    let mut v: Vec<(IntT, u8)> = d.kmers().iter().map(|(a, b)| (*a, *b)).collect();
    v.sort();
    let items: Vec<String> = v.iter().map(|(a, b)| format!("{}:{}", a, *b as char)).collect();
    join(&items)
}


// ------------------------------------------------------------------ C20: coverage

use ska::coverage::verif_hooks as covh;
use ska::coverage::CoverageHistogram;

fn fb(x: f64) -> String {
    format!("%{}", x.to_bits())
}

fn f_of(s: &str) -> f64 {
    f64::from_bits(s.parse::<u64>().unwrap())
}

fn op_covll(c: &Case) -> String {
    let pars = [f_of(c.get("w0")), f_of(c.get("c"))];
    let counts: Vec<f64> = c.list("counts").iter().map(|x| x.parse::<f64>().unwrap()).collect();
    let ll = covh::log_likelihood(&pars, &counts);
    let g = covh::grad_ll(&pars, &counts);
    format!("{} {} {}", fb(ll), fb(g[0]), fb(g[1]))
}

fn op_covcut(c: &Case) -> String {
    let pars = [f_of(c.get("w0")), f_of(c.get("c"))];
    format!("cut={}", covh::find_cutoff(&pars, c.usize("max")))
}

fn fnv_str(s: &str) -> u64 {
    crc_simple(s.as_bytes())
}

/// full pipeline on a read pair: counting, histogram, fit, cutoff
fn op_cov<IntT: for<'a> UInt<'a>>(c: &Case, scratch: &str) -> String {
    let dir = format!("{scratch}/cov");
    std::fs::create_dir_all(&dir).unwrap();
    let (p1, p2) = (format!("{dir}/r1.fastq"), format!("{dir}/r2.fastq"));
    write_fastq(&p1, &c.list("r1"));
    write_fastq(&p2, &c.list("r2"));
    let mut cov = CoverageHistogram::<IntT>::new(&p1, &p2, c.usize("k"), c.flag("rc"), false);
    let mut kc = covh::kmer_counts(&cov);
    kc.sort();
    let items: Vec<String> = kc.iter().map(|(k, v)| format!("{}:{}", k, v)).collect();
    let dict_hash = fnv_str(&items.join(","));
    let fit = cov.fit_histogram();
    let (w0, cc, cutoff, counts) = covh::fitted(&cov);
    let _ = std::fs::remove_dir_all(&dir);
    let hist: Vec<String> = counts.iter().map(|x| x.to_string()).collect();
    match fit {
        Ok(cut) => format!(
            "nkeys={} dict={} fit=ok w0={} c={} cutoff={} ret={} hist={}",
            kc.len(),
            dict_hash,
            fb(w0),
            fb(cc),
            cutoff,
            cut,
            join(&hist)
        ),
        Err(_) => format!("nkeys={} dict={} fit=err hist={}", kc.len(), dict_hash, join(&hist)),
    }
}


// ------------------------------------------------------------------ C03: build + align on sample sets

fn op_buildalign<IntT: for<'a> UInt<'a>>(c: &Case, scratch: &str) -> String {
    let dir = format!("{scratch}/ba");
    let _ = std::fs::remove_dir_all(&dir);
    std::fs::create_dir_all(&dir).unwrap();
    let mut inputs: Vec<(String, String, Option<String>)> = Vec::new();
    for (i, smp) in c.get("samples").split('|').enumerate() {
        let recs: Vec<&str> = smp.split('+').map(|r| if r == "." { "" } else { r }).collect();
        let p = format!("{dir}/s{i}.fa");
        write_fasta(&p, &recs, "q");
        inputs.push((format!("s{i}"), p, None));
    }
    let qual = QualOpts { min_count: 1, min_qual: 0, qual_filter: QualFilter::NoFilter };
    let d = build_and_merge::<IntT>(&inputs, c.usize("k"), c.flag("rc"), &qual, 1, None);
    let mut a = MergeSkaArray::new(&d);
    let n = a.nsamples();
    let path = format!("{dir}/aln.fa");
    generic_modes::align(
        &mut a,
        &Some(path.clone()),
        &filter_type(c.get("ft")),
        c.flag("mask"),
        c.flag("gaps"),
        freq_for(c.usize("t"), n),
        c.flag("famb"),
    );
    let seqs = parse_fasta_text(&std::fs::read_to_string(&path).unwrap());
    let names: Vec<String> = seqs.iter().map(|s| s.0.clone()).collect();
    let _ = std::fs::remove_dir_all(&dir);
    format!("align[names={};cols={}]", join(&names), columns_of(&seqs))
}

// ------------------------------------------------------------------ C17 / C18: ska lo helpers

use ska::skalo::verif_hooks as loh;

fn chars_of(s: &str) -> Vec<char> {
    s.chars().collect()
}

fn op_lo_cmd(c: &Case) -> String {
    let col = chars_of(c.text("col"));
    let n = col.len();
    let (ok, ratio) = loh::check_missing_data(n, &col);
    format!("ok:{} missing:{}", ok as u8, (ratio * n as f32).round() as usize)
}

fn op_lo_comp(c: &Case) -> String {
    let col = chars_of(c.text("col"));
    let out: String = loh::complement_snp(&col).into_iter().collect();
    if out.is_empty() { ".".into() } else { out }
}

fn op_lo_snps(c: &Case) -> String {
    let vars: Vec<(String, Vec<usize>)> = c
        .list("vars")
        .iter()
        .map(|v| {
            let (s, p) = v.split_once(':').unwrap();
            let pos: Vec<usize> = if p.is_empty() { vec![] } else { p.split('+').map(|x| x.parse().unwrap()).collect() };
            (s.to_string(), pos)
        })
        .collect();
    join(&loh::get_potential_snp(&vars))
}

fn op_lo_mid(c: &Case) -> String {
    let seqs: Vec<String> = c.list("seqs").iter().map(|s| s.to_string()).collect();
    let (mids, last) = loh::extract_middle_bases(&seqs, c.usize("k"));
    format!("{};{}", join(&mids), if last.is_empty() { ".".to_string() } else { last })
}

/// `bloom keys=h1,h2,...`: the Bloom step of a fresh `KmerFilter` on raw hash values, one 0/1 per key
fn op_bloom(c: &Case) -> String {
    let mut f = ska::ska_dict::bloom_filter::KmerFilter::new(2);
    f.init();
    c.list("keys")
        .iter()
        .map(|k| if f.verif_bloom_add_and_check(k.parse::<u64>().unwrap()) { '1' } else { '0' })
        .collect()
}

/// `groups=entry:exit:totallen,...` -> kept (entry, exit) pairs and the recorded extremities
fn op_lo_derep(c: &Case) -> String {
    let k = c.usize("k");
    let groups: Vec<(u128, u128, Vec<String>)> = c
        .list("groups")
        .iter()
        .map(|g| {
            let f: Vec<&str> = g.split(':').collect();
            let len: usize = f[2].parse().unwrap();
            (f[0].parse().unwrap(), f[1].parse().unwrap(), vec!["A".repeat(len)])
        })
        .collect();
    let (kept, entries) = loh::dereplicate_indels(&groups, k);
    let ks: Vec<String> = kept.iter().map(|(a, b)| format!("{a}:{b}")).collect();
    let es: Vec<String> = entries.iter().map(|e| e.to_string()).collect();
    format!("kept={} ext={}", join(&ks), join(&es))
}

fn op_lo_out(c: &Case, scratch: &str) -> String {
    let dir = format!("{scratch}/loout");
    let _ = std::fs::remove_dir_all(&dir);
    std::fs::create_dir_all(&dir).unwrap();
    let genome = c.text("genome").as_bytes().to_vec();
    let n = c.usize("n");
    let names: Vec<String> = (0..n).map(|i| format!("s{i}")).collect();
    let mut map: hashbrown::HashMap<u32, Vec<char>> = hashbrown::HashMap::new();
    for v in c.list("vars") {
        let (p, col) = v.split_once(':').unwrap();
        map.insert(p.parse().unwrap(), chars_of(col));
    }
    let config = ska::skalo::utils::Config {
        input_file: String::new(),
        output_name: format!("{dir}/o"),
        max_missing: 0.1,
        max_depth: 4,
        max_indel_kmers: 2,
        nb_threads: 1,
        reference_genome: None,
    };
    loh::create_fasta_and_vcf("g".to_string(), genome.clone(), names, map, &config);
    let fasta = |p: &str| -> String {
        match std::fs::read_to_string(p) {
            Ok(t) => {
                let seqs = parse_fasta_text(&t);
                join(&seqs.iter().map(|s| if s.1.is_empty() { ".".to_string() } else { s.1.clone() }).collect::<Vec<_>>())
            }
            Err(_) => "none".into(),
        }
    };
    let snps = fasta(&format!("{dir}/o_snps.fas"));
    let pseudo = fasta(&format!("{dir}/o_pseudo_genomes.fas"));
    let vcf = match std::fs::read_to_string(format!("{dir}/o_snps.vcf")) {
        Ok(t) => {
            let mut recs: Vec<String> = Vec::new();
            for l in t.lines() {
                if l.starts_with('#') {
                    continue;
                }
                let f: Vec<&str> = l.split('\t').collect();
                let alts: Vec<&str> = if f[4].is_empty() { vec![] } else { f[4].split(',').collect() };
                let dec: String = f[9..]
                    .iter()
                    .map(|g| {
                        if *g == "." {
                            ".".to_string()
                        } else if *g == "0" {
                            f[3].to_string()
                        } else {
                            alts.get(g.parse::<usize>().unwrap() - 1).unwrap_or(&"?").to_string()
                        }
                    })
                    .collect();
                let mut sorted_alts: Vec<&str> = alts.clone();
                sorted_alts.sort();
                recs.push(format!("{}:{}:{}:{}", f[1], f[3], if sorted_alts.is_empty() { "~".to_string() } else { sorted_alts.join("/") }, dec));
            }
            join(&recs)
        }
        Err(_) => "none".into(),
    };
    let _ = std::fs::remove_dir_all(&dir);
    format!("snps={} pseudo={} vcf={}", snps, pseudo, vcf)
}

/// `build_graph` (initialises the global pool: call at most once per process)
fn op_lo_graph<IntT: for<'a> UInt<'a>>(c: &Case) -> String {
    let a = make_array::<IntT>(c.usize("k"), c.flag("rc"), c.get("table"));
    let (k, names, edges, samples) = ska::skalo::input::build_graph(a, 1);
    let mut e: Vec<String> = Vec::new();
    for (from, tos) in edges.iter() {
        for t in tos {
            e.push(format!("{}>{}", from, t));
        }
    }
    e.sort();
    let mut s: Vec<String> = samples
        .iter()
        .map(|(kmer, set)| format!("{}:{}", kmer, set.iter().map(|x| x.to_string()).collect::<Vec<_>>().join("+")))
        .collect();
    s.sort();
    format!("k={} n={} edges={} colours={}", k, names.len(), join(&e), join(&s))
}

fn fmt_groups(g: &loh::GroupDump) -> String {
    let mut items: Vec<String> = g
        .iter()
        .map(|(e, x, vs)| {
            let mut v: Vec<String> = vs
                .iter()
                .map(|(s, p)| {
                    let ps: Vec<String> = p.iter().map(|q| q.to_string()).collect();
                    format!("{}@{}", s, if ps.is_empty() { "~".to_string() } else { ps.join("+") })
                })
                .collect();
            v.sort();
            format!("{}>{}:{}", e, x, v.join("/"))
        })
        .collect();
    items.sort();
    if items.is_empty() { "~".into() } else { items.join(";") }
}

/// `lo_pipe`: the reference-free `ska lo` pipeline on a table (one call per process: `build_graph`
/// initialises the global pool; `identify_good_kmers` exits the process when there is no entry node):
/// entry nodes, variant groups (recorded by the hook), SNP columns and indel records as written
fn op_lo_pipe<IntT: for<'a> UInt<'a>>(c: &Case, scratch: &str) -> String {
    use ska::skalo::utils::{Config, DataInfo};
    let dir = format!("{scratch}/lopipe");
    let _ = std::fs::remove_dir_all(&dir);
    std::fs::create_dir_all(&dir).unwrap();
    let a = make_array::<IntT>(c.usize("k"), c.flag("rc"), c.get("table"));
    let (num, den) = c.get("m").split_once('/').unwrap();
    let config = Config {
        input_file: String::new(),
        output_name: format!("{dir}/o"),
        max_missing: num.parse::<f32>().unwrap() / den.parse::<f32>().unwrap(),
        max_depth: c.usize("depth"),
        max_indel_kmers: c.usize("ik"),
        nb_threads: 1,
        reference_genome: if c.opt("ref").is_some() {
            let rp = format!("{dir}/ref.fa");
            write_fasta(&rp, &[c.get("ref")], "g");
            Some(std::path::PathBuf::from(rp))
        } else {
            None
        },
    };
    let (len_kmer, sample_names, all_kmers, kmer_2_samples) = ska::skalo::input::build_graph(a, 1);
    let data_info = DataInfo { k_graph: len_kmer - 1, sample_names: sample_names.clone() };
    // announce the stage reached: the next call may exit the process
    println!("lo_pipe-stage graph");
    let (start_kmers, end_kmers) =
        ska::skalo::extremities::identify_good_kmers(&all_kmers, &kmer_2_samples, &data_info);
    let mut st: Vec<IntT> = start_kmers.iter().copied().collect();
    st.sort();
    ska::skalo::read_graph::build_variant_groups(all_kmers, start_kmers, end_kmers, kmer_2_samples, &config, &data_info);
    let (sg, ig) = loh::GROUP_SINK.lock().unwrap().take().unwrap();
    // outputs
    let fas = std::fs::read_to_string(format!("{dir}/o_snps.fas")).unwrap_or_default();
    let seqs: Vec<&str> = fas.lines().filter(|l| !l.starts_with('>')).collect();
    let ncol = seqs.first().map(|x| x.len()).unwrap_or(0);
    // the columns of one group come out in the order of a hash map: sorted
    let mut cols: Vec<String> = (0..ncol).map(|i| seqs.iter().map(|x| x.as_bytes()[i] as char).collect()).collect();
    cols.sort();
    let vcf = std::fs::read_to_string(format!("{dir}/o_indels.vcf")).unwrap_or_default();
    let recs: Vec<String> = vcf
        .lines()
        .filter(|l| !l.starts_with('#') && !l.is_empty())
        .map(|l| {
            let f: Vec<&str> = l.split('\t').collect();
            let info: Vec<&str> = f[6].split(';').collect();
            format!(
                "{}:{}:{}:{}:{}",
                f[3],
                f[4],
                info[0].trim_start_matches("before="),
                info[1].trim_start_matches("after="),
                f[9..].join("|")
            )
        })
        .collect();
    if c.opt("ref").is_some() {
        // with a reference: (position, reference base, column) in position order
        let vcf = std::fs::read_to_string(format!("{dir}/o_snps.vcf")).unwrap_or_default();
        let pos: Vec<(String, String)> = vcf
            .lines()
            .filter(|l| !l.starts_with('#') && !l.is_empty())
            .map(|l| {
                let f: Vec<&str> = l.split('\t').collect();
                (f[1].to_string(), f[3].to_string())
            })
            .collect();
        let unsorted: Vec<String> = (0..ncol).map(|i| seqs.iter().map(|x| x.as_bytes()[i] as char).collect()).collect();
        cols = pos.iter().zip(unsorted.iter()).map(|((p, r), col)| format!("{p}:{r}:{col}")).collect();
        if pos.len() != unsorted.len() {
            cols.push(format!("vcf-records={}-columns={}", pos.len(), unsorted.len()));
        }
    }
    let _ = std::fs::remove_dir_all(&dir);
    format!(
        "starts={} sg={} ig={} cols={} recs={}",
        join(&st),
        fmt_groups(&sg),
        fmt_groups(&ig),
        join(&cols),
        join(&recs)
    )
}

/// `mkskf`: write a table as an .skf file at `out` (for CLI-level checks)
fn op_mkskf<IntT: for<'a> UInt<'a>>(c: &Case) -> String {
    make_array::<IntT>(c.usize("k"), c.flag("rc"), c.get("table")).save(c.get("out")).unwrap();
    "ok".into()
}

/// `bam`: build_and_merge with a thread count (initialises the global pool when threads > 1:
/// at most one such call per process), result as a table
fn op_bam<IntT: for<'a> UInt<'a>>(c: &Case, scratch: &str) -> String {
    let dir = format!("{scratch}/bam");
    let _ = std::fs::remove_dir_all(&dir);
    std::fs::create_dir_all(&dir).unwrap();
    let mut inputs: Vec<(String, String, Option<String>)> = Vec::new();
    for (i, smp) in c.get("samples").split('|').enumerate() {
        let recs: Vec<&str> = smp.split('+').collect();
        let p = format!("{dir}/s{i}.fa");
        write_fasta(&p, &recs, "q");
        inputs.push((format!("s{i}"), p, None));
    }
    let qual = QualOpts { min_count: 1, min_qual: 0, qual_filter: QualFilter::NoFilter };
    let d = build_and_merge::<IntT>(&inputs, c.usize("k"), c.flag("rc"), &qual, c.usize("threads"), None);
    let a = MergeSkaArray::new(&d);
    let _ = std::fs::remove_dir_all(&dir);
    dump_array(&a)
}
