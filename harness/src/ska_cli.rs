fn main() {
    ska::main();
}
