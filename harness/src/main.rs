//! skah — correspondence harness for the Lean model of bacpop/ska.rust.
//!
//!   skah tables                      Lean source of Generated/Tables.lean from the running code
//!   skah gen <prop> <tier> <seed>    case lines for a property (one PRNG, fully reproducible)
//!   skah run [dir]                   read case lines on stdin, run the real code, print result lines
//!
//! Result lines are canonical: anything that came out of a hash map is sorted,
//! panics are mapped to `panic`/`refused`, no floats or addresses are printed.

mod gen;
mod ops;
mod rng;
mod tables;
mod util;

use std::io::{BufRead, Write};

fn main() {
    let args: Vec<String> = std::env::args().collect();
    if args.len() < 2 {
        eprintln!("usage: skah tables | gen <prop> <tier> <seed> | run [scratch-dir]");
        std::process::exit(2);
    }
    match args[1].as_str() {
        "tables" => tables::dump(),
        "gen" => {
            let prop = &args[2];
            let tier = &args[3];
            let seed: u64 = args[4].parse().expect("seed");
            let out = std::io::stdout();
            let mut out = std::io::BufWriter::new(out.lock());
            gen::generate(prop, tier, seed, &mut out);
            out.flush().unwrap();
        }
        "run" => {
            // silence panic messages of the code under test; they are mapped to result tokens
            std::panic::set_hook(Box::new(|_| {}));
            let scratch = if args.len() > 2 {
                args[2].clone()
            } else {
                format!("/verif/harness/target/run-{}", std::process::id())
            };
            std::fs::create_dir_all(&scratch).unwrap();
            let stdin = std::io::stdin();
            let out = std::io::stdout();
            let mut out = std::io::BufWriter::new(out.lock());
            for line in stdin.lock().lines() {
                let line = line.unwrap();
                let line = line.trim();
                if line.is_empty() || line.starts_with('#') {
                    continue;
                }
                let res = ops::run_line(line, &scratch);
                writeln!(out, "{}", res).unwrap();
            }
            out.flush().unwrap();
            if args.len() <= 2 {
                let _ = std::fs::remove_dir_all(&scratch);
            }
        }
        _ => {
            eprintln!("unknown subcommand");
            std::process::exit(2);
        }
    }
}
