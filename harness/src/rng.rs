//! SplitMix64: the single PRNG every generated case derives from.

pub struct Rng(pub u64);

impl Rng {
    pub fn new(seed: u64) -> Self {
        Rng(seed.wrapping_mul(0x9E37_79B9_7F4A_7C15) ^ 0xD1B5_4A32_D192_ED03)
    }
    pub fn next(&mut self) -> u64 {
        self.0 = self.0.wrapping_add(0x9E37_79B9_7F4A_7C15);
        let mut z = self.0;
        z = (z ^ (z >> 30)).wrapping_mul(0xBF58_476D_1CE4_E5B9);
        z = (z ^ (z >> 27)).wrapping_mul(0x94D0_49BB_1331_11EB);
        z ^ (z >> 31)
    }
    /// uniform in 0..n (n > 0)
    pub fn below(&mut self, n: usize) -> usize {
        (self.next() % (n as u64)) as usize
    }
    /// uniform in lo..=hi
    pub fn range(&mut self, lo: usize, hi: usize) -> usize {
        lo + self.below(hi - lo + 1)
    }
    pub fn chance(&mut self, num: usize, den: usize) -> bool {
        self.below(den) < num
    }
    pub fn pick<'a, T>(&mut self, xs: &'a [T]) -> &'a T {
        &xs[self.below(xs.len())]
    }
    pub fn u128(&mut self) -> u128 {
        ((self.next() as u128) << 64) | self.next() as u128
    }
    pub fn shuffle<T>(&mut self, xs: &mut [T]) {
        for i in (1..xs.len()).rev() {
            let j = self.below(i + 1);
            xs.swap(i, j);
        }
    }
}
