//! Case-line parsing and small helpers shared by the op runners.

use std::panic::{catch_unwind, AssertUnwindSafe};

pub struct Case<'a> {
    pub op: &'a str,
    kv: Vec<(&'a str, &'a str)>,
}

impl<'a> Case<'a> {
    pub fn parse(line: &'a str) -> Case<'a> {
        let mut it = line.split_whitespace();
        let op = it.next().unwrap_or("");
        let mut kv = Vec::new();
        for tok in it {
            if let Some(p) = tok.find('=') {
                kv.push((&tok[..p], &tok[p + 1..]));
            }
        }
        Case { op, kv }
    }
    pub fn opt(&self, key: &str) -> Option<&'a str> {
        self.kv.iter().find(|(k, _)| *k == key).map(|(_, v)| *v)
    }
    pub fn get(&self, key: &str) -> &'a str {
        self.opt(key).unwrap_or_else(|| panic!("case line lacks {key}"))
    }
    pub fn usize(&self, key: &str) -> usize {
        self.get(key).parse().unwrap_or_else(|_| panic!("bad number for {key}"))
    }
    pub fn usize_or(&self, key: &str, d: usize) -> usize {
        self.opt(key).map(|v| v.parse().unwrap()).unwrap_or(d)
    }
    pub fn flag(&self, key: &str) -> bool {
        self.opt(key).map(|v| v == "1").unwrap_or(false)
    }
    /// a string value; `.` stands for the empty string
    pub fn text(&self, key: &str) -> &'a str {
        let v = self.get(key);
        if v == "." {
            ""
        } else {
            v
        }
    }
    /// a comma separated list; `~` stands for the empty list, `.` for an empty element
    pub fn list(&self, key: &str) -> Vec<&'a str> {
        let v = self.get(key);
        if v == "~" {
            Vec::new()
        } else {
            v.split(',').map(|x| if x == "." { "" } else { x }).collect()
        }
    }
}

/// Run a closure; a panic of the code under test becomes the token `panic`.
pub fn guarded<F: FnOnce() -> String>(f: F) -> String {
    match catch_unwind(AssertUnwindSafe(f)) {
        Ok(s) => s,
        Err(e) => {
            let msg = if let Some(s) = e.downcast_ref::<String>() {
                s.clone()
            } else if let Some(s) = e.downcast_ref::<&str>() {
                s.to_string()
            } else {
                String::new()
            };
            classify_panic(&msg)
        }
    }
}

/// Map panic messages of the code under test to a small enum.
pub fn classify_panic(msg: &str) -> String {
    let m = msg;
    if m.contains("has no valid sequence") {
        "novalid".into()
    } else if m.contains("overflow") {
        "panic:overflow".into()
    } else if m.contains("K-mer lengths do not match")
        || m.contains("Strand use inconsistent")
        // a later merge input of the other integer width does not load as the first one's type
        || m.contains("Failed to load input file")
    {
        "refused".into()
    } else if m.contains("Invalid number of samples to remove") || m.contains("Could not find sample") {
        "refused".into()
    } else if m.contains("Invalid k-mer length") {
        "badk".into()
    } else if m.contains("No split k-mers mapped") {
        "nomapped".into()
    } else if m.contains("index out of bounds") || m.contains("out of range") {
        "panic:index".into()
    } else if m.contains("Palindrome middle base") {
        "panic:palindrome".into()
    } else {
        "panic".into()
    }
}

pub fn join<T: std::fmt::Display>(xs: &[T]) -> String {
    if xs.is_empty() {
        "~".into()
    } else {
        xs.iter().map(|x| x.to_string()).collect::<Vec<_>>().join(",")
    }
}

pub fn write_fasta(path: &str, recs: &[&str], name_prefix: &str) {
    let mut s = String::new();
    for (i, r) in recs.iter().enumerate() {
        s.push_str(&format!(">{}{}\n{}\n", name_prefix, i, r));
    }
    std::fs::write(path, s).unwrap();
}
