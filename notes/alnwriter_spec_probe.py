import random
class W:
    def __init__(s, ref, k):
        s.h=(k-1)//2; s.next_pos=s.h; s.cur=0; s.lm=0; s.lw=0; s.off=0; s.ref=ref
        s.out=['-']*sum(len(c) for c in ref); s.mid=[]
    def fill(s, maximum):
        if s.lw>0:
            over=max(0,(s.lm+s.h)-s.lw); start=s.lw+1; end=min(start+over, maximum)
            if end>start:
                s.out[start+s.off:end+s.off]=s.ref[s.cur][start:end]; s.lw=end
    def fill_contig(s):
        L=len(s.ref[s.cur]); s.fill(L); s.off+=L; s.cur+=1; s.next_pos=s.h
    def write(s,pos,chrom,base):
        while chrom>s.cur: s.fill_contig()
        s.mid.append((base,pos+s.off))
        if pos<s.next_pos: s.lm=pos
        else:
            if pos>s.next_pos: s.fill(pos-s.h)
            st=pos-s.h; s.out[st+s.off:pos+s.off]=s.ref[s.cur][st:pos]
            s.next_pos=pos+s.h+1; s.lm=pos; s.lw=pos
    def fin(s):
        while s.cur<len(s.ref): s.fill_contig()
        for b,p in s.mid: s.out[p]=b
        return ''.join(s.out)
def spec(ref,k,matches):
    h=(k-1)//2; out=[]
    for c,seq in enumerate(ref):
        ms={p:b for (cc,p,b) in matches if cc==c}
        for p in range(len(seq)):
            if p in ms: out.append(ms[p])
            elif any(abs(p-q)<=h for q in ms): out.append(seq[p])
            else: out.append('-')
    return ''.join(out)
random.seed(1); bad=0; n=0
for it in range(200000):
    k=random.choice([5,7,9]); h=(k-1)//2
    ref=[''.join(random.choice('acgt') for _ in range(random.choice([0,1,h,k-1,k,k+1,2*k,3*k+2,30]))) for _ in range(random.randint(1,4))]
    matches=[]
    dens=random.choice([0.05,0.3,0.7,1.0])
    for c,seq in enumerate(ref):
        for p in range(h,len(seq)-h):
            if random.random()<dens: matches.append((c,p,'X'))
    w=W(ref,k)
    for c,p,b in matches: w.write(p,c,b)
    got=w.fin(); exp=spec(ref,k,matches); n+=1
    if got!=exp:
        bad+=1
        if bad<4: print(k,ref,matches,got,exp)
print("cases",n,"bad",bad)
