import random
def coors(lens, kms, rep, h, fixed):
    out=[]; last_chrom=0; last_end=0; off=0
    for (c,p,key) in kms:
        if fixed:
            while c>last_chrom: off+=lens[last_chrom]; last_chrom+=1
        else:
            if c>last_chrom: off+=lens[last_chrom]; last_chrom=c
        if key in rep:
            start=p-h+off; end=p+h+off
            rng = range(start,end+1) if (start>last_end or start==0) else range(last_end+1,end+1)
            out.extend(rng); last_chrom=c; last_end=end
    return out
def spec(lens,kms,rep,h):
    offs=[sum(lens[:i]) for i in range(len(lens))]; s=set()
    for (c,p,key) in kms:
        if key in rep:
            s.update(range(offs[c]+p-h, offs[c]+p+h+1))
    return s
random.seed(2)
for fixed in (False,True):
    bad=0; dup=0
    for it in range(100000):
        h=random.choice([2,3,4]); k=2*h+1
        lens=[random.choice([1,h,k-1,k,k+1,2*k,25]) for _ in range(random.randint(1,5))]
        kms=[(c,p,random.randint(0,6)) for c,L in enumerate(lens) for p in range(h,L-h)]
        rep=set(random.sample(range(7),random.randint(0,4)))
        if not kms: continue
        got=coors(lens,kms,rep,h,fixed); exp=spec(lens,kms,rep,h)
        if len(got)!=len(set(got)): dup+=1
        if set(got)!=exp:
            bad+=1
            if bad<3: print(fixed,h,lens,[x for x in kms if x[2] in rep][:5],sorted(set(got)^exp)[:10])
    print("fixed",fixed,"bad",bad,"dup",dup)
