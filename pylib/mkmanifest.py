#!/usr/bin/env python3
"""Regenerates /verif/MANIFEST.json from the registry (run by hand after editing props.py)."""
import json, os, subprocess, sys
ROOT = os.path.dirname(os.path.dirname(os.path.abspath(__file__)))
sys.path.insert(0, os.path.join(ROOT, "pylib"))
from skaverif import props, manifest_texts as mt

ALL = [f"C{i:02d}" for i in range(1, 21)]
hooks_commits = subprocess.run(["git", "-C", "/repo", "log", "--format=%H %s", "--grep", "^verif hooks"], capture_output=True, text=True).stdout.strip().splitlines()
checks = []
for pid in ALL:
    if pid not in props.REGISTRY:
        continue
    t = mt.TEXTS[pid]
    checks.append({
        "property_id": pid,
        "quick_cmd": f"./check {pid} quick",
        "thorough_cmd": f"./check {pid} thorough",
        "evidence_file": f"/verif/evidence/{pid}.json",
        "replay_cmd_template": "./check replay {path}",
        "engine": "lean-refinement+differential",
        "level_claimed": {"category": props.REGISTRY[pid]["level"], "text": t["text"], "design_ref": t.get("design_ref", "DESIGN.md §7 " + pid)},
        "level_note": t["note"],
        "technique": t["technique"],
    })
na = [{"property_id": pid, "reason": mt.NOT_YET.get(pid, "not claimed yet")} for pid in ALL if pid not in props.REGISTRY]
man = {
    "version": 1,
    "setup_cmd": "./check setup",
    "hooks": {
        "guard": "cargo feature verif-hooks",
        "enable": "the harness crate depends on ska = { path = \"/repo\", features = [\"verif-hooks\"] }",
        "baseline_off_cmd": "cd /repo && cargo test --workspace --no-fail-fast --offline",
        "source_commits": [l.split()[0] for l in hooks_commits],
        "add_only": True,
    },
    "engines": [{
        "name": "lean-refinement+differential",
        "path": "/verif/check",
        "serves_properties": [c["property_id"] for c in checks],
        "kind_free_text": "Lean 4 model + specification with kernel-checked refinement theorems (lean/SkaModel/Props), tied to /repo on every run by tables regenerated from the running code and by a differential correspondence run (Rust harness linking /repo in-process, the ska CLI, and the compiled Lean model on the same case lines)",
    }],
    "checks": checks,
    "not_applicable": na,
    "notes": "See DESIGN.md. Every check rebuilds the harness and the ska binary from /repo's working tree, regenerates the tables, re-checks the property's theorems and audits their axioms, then runs the correspondence.",
}
json.dump(man, open(os.path.join(ROOT, "MANIFEST.json"), "w"), indent=1)
print("wrote MANIFEST.json with", len(checks), "checks;", len(na), "not claimed")
