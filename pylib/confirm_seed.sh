#!/bin/bash
# confirm a seeded change in its scratch worktree: demo passes on the original, fails with the change, test suite passes with the change
set -u
WT=$1
cd "$WT" || exit 2
export CARGO_NET_OFFLINE=true
git diff -- src > /tmp/confirm_$$.diff
if ! diff -q <(grep -v '^index' /tmp/confirm_$$.diff) <(grep -v '^index' patch.diff) >/dev/null; then echo "WARNING: worktree diff differs from patch.diff"; fi
git checkout -q -- src
cargo build --offline -q 2>/dev/null
bash demo.sh >/dev/null 2>&1; ORIG=$?
git apply patch.diff || exit 2
cargo build --offline -q 2>/dev/null
bash demo.sh >/dev/null 2>&1; MUT=$?
TESTS=$(cargo test --workspace --no-fail-fast --offline 2>&1 | grep -E "^test result" | grep -vc "ok\.")
git checkout -q -- merged.skf 2>/dev/null
rm -f /tmp/confirm_$$.diff
echo "demo on original: $ORIG (want 0); demo with change: $MUT (want 1); failing test binaries: $TESTS (want 0)"
