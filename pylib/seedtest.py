#!/usr/bin/env python3
"""Apply a seeded change to /repo, run checks, undo. Usage: seedtest.py <patch.diff> [Cxx ...]"""
import json, os, subprocess, sys, time
patch = os.path.abspath(sys.argv[1])
props = sys.argv[2:] or [f"C{i:02d}" for i in range(1, 21)]
tier = os.environ.get("VERIF_TIER", "quick")
def sh(cmd, **kw):
    return subprocess.run(cmd, stdout=subprocess.PIPE, stderr=subprocess.STDOUT, text=True, **kw)
st = sh(["git", "-C", "/repo", "status", "--porcelain", "--untracked-files=no"]).stdout.strip()
if st:
    print("refusing: /repo has uncommitted changes:\n" + st); sys.exit(2)
r = sh(["git", "-C", "/repo", "apply", patch])
if r.returncode != 0:
    print("patch does not apply:", r.stdout); sys.exit(2)
res = {}
# the evidence files describe the unchanged tree: keep them aside while the seeded change is in place
subprocess.run(["rm", "-rf", "/verif/evidence.keep"], check=False)
subprocess.run(["cp", "-r", "/verif/evidence", "/verif/evidence.keep"], check=False)
try:
    for p in props:
        t0 = time.time()
        r = sh(["./check", p, tier], cwd="/verif")
        viol = [l for l in r.stdout.splitlines() if l.startswith("VIOLATION")]
        res[p] = {"rc": r.returncode, "violation": viol[:1], "s": round(time.time() - t0, 1)}
        print(p, r.returncode, (viol[0] if viol else ""), f"{res[p]['s']}s", flush=True)
finally:
    sh(["git", "-C", "/repo", "checkout", "--", "."])
    if os.path.isdir("/verif/evidence.keep"):
        subprocess.run(["rm", "-rf", "/verif/evidence"], check=False)
        os.rename("/verif/evidence.keep", "/verif/evidence")
    sh(["cargo", "build", "--offline", "--bins"], cwd="/verif/harness")
    subprocess.run(["rm", "-rf", "/verif/replays.seedtest"], check=False)
    if os.path.isdir("/verif/replays"):
        os.rename("/verif/replays", "/verif/replays.seedtest")
caught = [p for p, v in res.items() if v["rc"] != 0]
print("CAUGHT BY:", caught)
json.dump(res, open(os.path.splitext(patch)[0] + ".result.json", "w"), indent=1)
