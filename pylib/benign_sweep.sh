#!/bin/bash
# apply each behaviour-preserving refactoring of notes/benign to /repo in turn and run all twenty quick checks:
# any VIOLATION is a false alarm to analyse (B07 is used without its build_graph rewrite, see DESIGN 12.5)
cd /verif
for f in notes/benign/B01.diff notes/benign/B02.diff notes/benign/B03.diff notes/benign/B04.diff notes/benign/B05.diff notes/benign/B06.diff notes/benign/B07_noinput.diff notes/benign/B08.diff notes/benign/B09.diff notes/benign/B10.diff notes/benign/B11.diff notes/benign/B12.diff notes/benign/B13.diff notes/benign/B14.diff notes/benign/B15.diff notes/benign/B16.diff notes/benign/B17.diff notes/benign/B18.diff notes/benign/B19.diff notes/benign/B20.diff; do
  echo "== $f"
  python3 pylib/seedtest.py $f 2>&1 | tail -1
done
