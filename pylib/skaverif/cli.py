"""CLI-level checks: drive the `ska` binary built from /repo's working tree and compare
with what the Lean model predicts for the same inputs (argument parsing, name
derivation, FASTA parsing, width dispatch, exit status are outside the model)."""
import gzip
import os
import random
import re
import shutil
import subprocess

from skaverif import core

CODE = {"A": 0, "C": 1, "T": 2, "G": 3}


def ska(args, cwd, timeout=600):
    p = subprocess.run([core.SKA] + args, cwd=cwd, stdout=subprocess.PIPE, stderr=subprocess.PIPE,
                       timeout=timeout, env=core.ENV)
    return p.returncode, p.stdout.decode("utf-8", "replace"), p.stderr.decode("utf-8", "replace")


def pack(s):
    v = 0
    for ch in s:
        v = v * 4 + CODE[ch]
    return v


def parse_nk(text):
    info = {"rows": {}}
    lines = text.splitlines()
    for l in lines:
        if "\t" in l:
            up, lo, bases = l.split("\t")
            info["rows"][pack(up + lo)] = bases.split(",")
        elif "=" in l:
            k, v = l.split("=", 1)
            info[k] = v
    if "sample_names" in info:
        info["names"] = re.findall(r'"([^"]*)"', info["sample_names"])
    if "sample_kmers" in info:
        info["counts"] = [int(x) for x in re.findall(r"-?\d+", info["sample_kmers"])]
    return info


def write_fasta(path, recs, wrap=None, names=None, gz=False):
    out = []
    for i, r in enumerate(recs):
        out.append(">" + (names[i] if names else f"r{i}"))
        if wrap:
            for j in range(0, len(r), wrap):
                out.append(r[j:j + wrap])
            if len(r) == 0:
                out.append("")
        else:
            out.append(r)
    data = ("\n".join(out) + "\n").encode()
    if gz:
        with gzip.open(path, "wb") as f:
            f.write(data)
    else:
        with open(path, "wb") as f:
            f.write(data)


def fresh_dir(ctx, name):
    d = os.path.join(ctx.scratch, name)
    shutil.rmtree(d, ignore_errors=True)
    os.makedirs(d)
    return d


def model_dict(ctx, k, rc, recs):
    """model + spec dictionary for one sample: {key: letter} or 'novalid'"""
    w = 64 if k <= 31 else 128
    line = f"build w={w} k={k} rc={int(rc)} recs={','.join(recs)}"
    m, s = core.run_model(ctx, [line])[0]
    return line, m, s


def dict_of(res):
    if res in ("novalid", "~"):
        return {}
    return {int(kv.split(":")[0]): kv.split(":")[1] for kv in res.split(",")}


def build_and_nk(ctx, d, k, rc, files, extra=None):
    args = ["build", "-o", os.path.join(d, "out"), "-k", str(k)] + ([] if rc else ["--single-strand"]) + (extra or []) + files
    code, out, err = ska(args, d)
    if code != 0:
        return {"status": "fail", "stderr": err[-400:], "args": args}
    code, out, err = ska(["nk", "--full-info", os.path.join(d, "out.skf")], d)
    if code != 0:
        return {"status": "nkfail", "stderr": err[-400:], "args": args}
    info = parse_nk(out)
    info["status"] = "ok"
    info["args"] = args
    return info


def c01_cli(ctx, broken):
    """`ska build` + `ska nk --full-info` against the model dictionary, one and two samples."""
    rnd = random.Random(ctx.seed * 7919 + 11)
    n = 120 if ctx.tier == "thorough" else 24
    if broken:
        n *= 3
    cases = core.gen_cases("C01", "quick", ctx.seed + 77)
    builds = [c for c in cases if c.startswith("build ")]
    rnd.shuffle(builds)
    evaluations = 0
    nontrivial = 0
    samples = []
    for line in builds[:n]:
        kv = dict(t.split("=", 1) for t in line.split()[1:])
        k, rc, recs = int(kv["k"]), kv["rc"] == "1", kv["recs"].split(",")
        d = fresh_dir(ctx, "c01cli")
        write_fasta(os.path.join(d, "s1.fa"), recs)
        mline, m, s = model_dict(ctx, k, rc, recs)
        info = build_and_nk(ctx, d, k, rc, [os.path.join(d, "s1.fa")])
        evaluations += 1
        want = dict_of(s)
        if info["status"] != "ok":
            got = "novalid" if "no valid sequence" in info.get("stderr", "") else "fail"
            ok = (s == "novalid" and got == "novalid")
            detail = {"got": got, "stderr": info.get("stderr")}
        else:
            got = {key: b[0] for key, b in info["rows"].items()}
            nontrivial += 1
            ok = (got == want and info.get("k") == str(k) and info.get("rc") == ("true" if rc else "false")
                  and info.get("names") == ["s1"] and info.get("counts") == [len(want)]
                  and info.get("k_bits") == ("64" if k <= 31 else "128"))
            detail = {"got_n": len(got), "want_n": len(want), "k": info.get("k"), "rc": info.get("rc"),
                      "names": info.get("names"), "counts": info.get("counts")}
        if len(samples) < 2:
            samples.append({"cli": " ".join(info.get("args", []))[-160:], "records": [r[:60] for r in recs], "kmers": len(want)})
        if not ok:
            return {"summary": {"evaluations": evaluations, "nontrivial": nontrivial},
                    "violation": {"kind": "c01-build-nk", "k": k, "rc": rc, "records": recs, "expected": s[:2000],
                                  "observed": detail, "model_case": mline}}
    return {"summary": {"evaluations": evaluations, "nontrivial": nontrivial,
                        "what": "ska build -k K [--single-strand]; ska nk --full-info vs model/spec dictionary, k, k_bits, rc, names, per-sample counts"},
            "samples": samples}


def replay(ctx, payload):
    kind = payload.get("kind")
    if kind == "c01-build-nk":
        d = fresh_dir(ctx, "replay")
        recs = payload["records"]
        write_fasta(os.path.join(d, "s1.fa"), recs)
        info = build_and_nk(ctx, d, payload["k"], payload["rc"], [os.path.join(d, "s1.fa")])
        _, m, s = model_dict(ctx, payload["k"], payload["rc"], recs)
        got = {key: b[0] for key, b in info.get("rows", {}).items()} if info["status"] == "ok" else info["status"]
        want = dict_of(s)
        print("expected", s[:500])
        print("observed", str(got)[:500])
        return 0 if got == want or (s == "novalid" and info["status"] != "ok") else 1
    if kind == "table-cell":
        from skaverif import props
        n, bad = props.c15_cells(ctx)
        print("first wrong cell now:", bad)
        return 1 if bad else 0
    print("no CLI replay for kind", kind)
    return 0
