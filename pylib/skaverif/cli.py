"""CLI-level checks: drive the `ska` binary built from /repo's working tree and compare
with what the Lean model predicts for the same inputs (argument parsing, name
derivation, FASTA parsing, width dispatch, exit status are outside the model)."""
import gzip
import os
import random
import re
import shutil
import subprocess

from skaverif import core

CODE = {"A": 0, "C": 1, "T": 2, "G": 3}


def ska(args, cwd, timeout=600):
    try:
        p = subprocess.run([core.SKA] + args, cwd=cwd, stdout=subprocess.PIPE, stderr=subprocess.PIPE,
                           timeout=timeout, env=core.ENV)
    except subprocess.TimeoutExpired as e:
        # a command that does not come back is a failed command (exit status -9), not a crash of the check
        return -9, (e.stdout or b"").decode("utf-8", "replace"), f"TIMEOUT after {timeout} s: ska {' '.join(args)[:300]}"
    return p.returncode, p.stdout.decode("utf-8", "replace"), p.stderr.decode("utf-8", "replace")


def pack(s):
    v = 0
    for ch in s:
        v = v * 4 + CODE[ch]
    return v


def parse_nk(text):
    info = {"rows": {}}
    lines = text.splitlines()
    for l in lines:
        if "\t" in l:
            up, lo, bases = l.split("\t")
            info["rows"][pack(up + lo)] = bases.split(",")
        elif "=" in l:
            k, v = l.split("=", 1)
            info[k] = v
    if "sample_names" in info:
        info["names"] = re.findall(r'"([^"]*)"', info["sample_names"])
    if "sample_kmers" in info:
        info["counts"] = [int(x) for x in re.findall(r"-?\d+", info["sample_kmers"])]
    return info


def write_fasta(path, recs, wrap=None, names=None, gz=False, crlf=False, header_extra=""):
    out = []
    for i, r in enumerate(recs):
        out.append(">" + (names[i] if names else f"r{i}") + header_extra)
        if wrap:
            for j in range(0, len(r), wrap):
                out.append(r[j:j + wrap])
            if len(r) == 0:
                out.append("")
        else:
            out.append(r)
    eol = "\r\n" if crlf else "\n"
    data = (eol.join(out) + eol).encode()
    if gz == "multi" and len(data) > 2:
        # several gzip members in one file (bgzip, `cat a.gz b.gz`): cut anywhere, also inside a line
        cut = 1 + (sum(data) + len(data)) % (len(data) - 1)
        with open(path, "wb") as f:
            f.write(gzip.compress(data[:cut]) + gzip.compress(data[cut:]))
    elif gz:
        with gzip.open(path, "wb") as f:
            f.write(data)
    else:
        with open(path, "wb") as f:
            f.write(data)


def write_ref_variant(rnd, d, base, name="g"):
    """a single-sequence reference in one of the forms a user has lying around: one line, wrapped,
    CRLF, gzip, multi-member gzip (what bgzip or `cat a.gz b.gz` produce); returns the path"""
    form = rnd.choice(["plain", "plain", "wrap", "crlf", "gz", "mgz", "mgz", "trail", "blocks"])
    lines = [">" + name] + ([base] if form == "plain" else [base[j:j + 60] for j in range(0, len(base), 60)])
    if form == "trail":       # a blank (or tab) at the end of every sequence line
        lines = [lines[0]] + [l + (" " if i % 2 else "\t") for i, l in enumerate(lines[1:])]
    if form == "blocks":      # blocks of ten separated by blanks, as sequence databases print them
        lines = [lines[0]] + [" ".join(l[j:j + 10] for j in range(0, len(l), 10)) for l in lines[1:]]
    eol = "\r\n" if form == "crlf" else "\n"
    if form in ("gz", "mgz"):
        path = os.path.join(d, "ref.fa.gz")
        if form == "gz" or len(lines) < 3:
            data = gzip.compress((eol.join(lines) + eol).encode())
        else:
            cut = rnd.randint(2, len(lines) - 1)
            data = gzip.compress((eol.join(lines[:cut]) + eol).encode()) + gzip.compress((eol.join(lines[cut:]) + eol).encode())
    else:
        path = os.path.join(d, "ref.fa")
        data = (eol.join(lines) + eol).encode()
    with open(path, "wb") as f:
        f.write(data)
    return path


def fresh_dir(ctx, name):
    d = os.path.join(ctx.scratch, name)
    shutil.rmtree(d, ignore_errors=True)
    os.makedirs(d)
    return d


def model_dict(ctx, k, rc, recs):
    """model + spec dictionary for one sample: {key: letter} or 'novalid'"""
    w = 64 if k <= 31 else 128
    line = f"build w={w} k={k} rc={int(rc)} recs={','.join(recs)}"
    m, s = core.run_model(ctx, [line])[0]
    return line, m, s


def dict_of(res):
    if res in ("novalid", "~"):
        return {}
    return {int(kv.split(":")[0]): kv.split(":")[1] for kv in res.split(",")}


def build_and_nk(ctx, d, k, rc, files, extra=None):
    args = ["build", "-o", os.path.join(d, "out"), "-k", str(k)] + ([] if rc else ["--single-strand"]) + (extra or []) + files
    code, out, err = ska(args, d)
    if code != 0:
        return {"status": "fail", "stderr": err[-400:], "args": args}
    code, out, err = ska(["nk", "--full-info", os.path.join(d, "out.skf")], d)
    if code != 0:
        return {"status": "nkfail", "stderr": err[-400:], "args": args}
    info = parse_nk(out)
    info["status"] = "ok"
    info["args"] = args
    return info


def c01_cli(ctx, broken):
    """`ska build` + `ska nk --full-info` against the model dictionary, one and two samples."""
    rnd = random.Random(ctx.seed * 7919 + 11)
    n = 120 if ctx.tier == "thorough" else 24
    if broken:
        n *= 3
    cases = core.gen_cases("C01", "quick", ctx.seed + 77)
    builds = [c for c in cases if c.startswith("build ")]
    rnd.shuffle(builds)
    evaluations = 0
    nontrivial = 0
    samples = []
    for line in builds[:n]:
        kv = dict(t.split("=", 1) for t in line.split()[1:])
        k, rc, recs = int(kv["k"]), kv["rc"] == "1", kv["recs"].split(",")
        d = fresh_dir(ctx, "c01cli")
        # the file in one of its textual forms: one line per record, wrapped, CRLF, wrapped and CRLF
        form = evaluations % 4
        write_fasta(os.path.join(d, "s1.fa"), recs, wrap=[None, 7, None, 13][form], crlf=(form >= 2))
        mline, m, s = model_dict(ctx, k, rc, recs)
        info = build_and_nk(ctx, d, k, rc, [os.path.join(d, "s1.fa")])
        evaluations += 1
        want = dict_of(s)
        if info["status"] != "ok":
            got = "novalid" if "no valid sequence" in info.get("stderr", "") else "fail"
            ok = (s == "novalid" and got == "novalid")
            detail = {"got": got, "stderr": info.get("stderr")}
        else:
            got = {key: b[0] for key, b in info["rows"].items()}
            nontrivial += 1
            ok = (got == want and info.get("k") == str(k) and info.get("rc") == ("true" if rc else "false")
                  and info.get("names") == ["s1"] and info.get("counts") == [len(want)]
                  and info.get("k_bits") == ("64" if k <= 31 else "128"))
            detail = {"got_n": len(got), "want_n": len(want), "k": info.get("k"), "rc": info.get("rc"),
                      "names": info.get("names"), "counts": info.get("counts")}
        if len(samples) < 2:
            samples.append({"cli": " ".join(info.get("args", []))[-160:], "records": [r[:60] for r in recs], "kmers": len(want)})
        if not ok:
            return {"summary": {"evaluations": evaluations, "nontrivial": nontrivial},
                    "violation": {"kind": "c01-build-nk", "k": k, "rc": rc, "records": recs, "expected": s[:2000],
                                  "observed": detail, "model_case": mline}}
    return {"summary": {"evaluations": evaluations, "nontrivial": nontrivial,
                        "what": "ska build -k K [--single-strand]; ska nk --full-info vs model/spec dictionary, k, k_bits, rc, names, per-sample counts"},
            "samples": samples}


def replay(ctx, payload):
    kind = payload.get("kind")
    if kind == "c01-build-nk":
        d = fresh_dir(ctx, "replay")
        recs = payload["records"]
        write_fasta(os.path.join(d, "s1.fa"), recs)
        info = build_and_nk(ctx, d, payload["k"], payload["rc"], [os.path.join(d, "s1.fa")])
        _, m, s = model_dict(ctx, payload["k"], payload["rc"], recs)
        got = {key: b[0] for key, b in info.get("rows", {}).items()} if info["status"] == "ok" else info["status"]
        want = dict_of(s)
        print("expected", s[:500])
        print("observed", str(got)[:500])
        return 0 if got == want or (s == "novalid" and info["status"] != "ok") else 1
    if kind == "hist-cli":
        r = hist_via_cli(ctx, payload["case"])
        m, s = core.run_model(ctx, [payload["case"]])[0]
        print("cli:  ", r[:1500]); print("model:", m[:1500]); print("spec: ", s[:1500])
        return 0 if core.res_eq(r, m) and (s == "-" or core.res_eq(r, s)) else 1
    if kind == "reads-cli":
        r = reads_via_cli(ctx, payload["case"])
        m, s = core.run_model(ctx, [payload["case"]])[0]
        print("cli:  ", r[:1500]); print("model:", m[:1500]); print("spec: ", s[:1500])
        return 0 if core.res_eq(r, m) and (s == "-" or core.res_eq(r, s)) else 1
    if kind == "map-cli":
        r = map_via_cli(ctx, payload["case"])
        m, s = core.run_model(ctx, [payload["case"]])[0]
        print("cli:  ", r[:1500]); print("model:", m[:1500]); print("spec: ", s[:1500])
        return 0 if core.res_eq(r, m) and (s == "-" or core.res_eq(r, s)) else 1
    if kind == "table-cell":
        from skaverif import props
        n, bad = props.c15_cells(ctx)
        print("first wrong cell now:", bad)
        return 1 if bad else 0
    # generic: cases that carry a model case line are re-run through code and model;
    # otherwise the property's CLI checks are run again on the current tree
    status = 0
    if payload.get("model_case"):
        line = payload["model_case"]
        if line.split(" ")[0] in ("covcheck", "skfdec", "unframe"):
            print("model-only case line recorded:", line[:300])
        else:
            r = run_lo_pipe(ctx, line) if line.startswith("lo_pipe ") else core.run_impl(ctx, [line], "rp")[0]
            m, s = core.run_model(ctx, [line])[0]
            ok = core.res_eq(r, m) and (s == "-" or core.res_eq(r, s))
            print("case: ", line[:500]); print("impl: ", r[:500]); print("model:", m[:500]); print("spec: ", s[:500])
            status |= 0 if ok else 1
    from skaverif import props
    spec = props.REGISTRY.get(ctx.prop)
    if spec:
        for fn in spec.get("cli", []):
            res = fn(ctx, False)
            if res.get("violation"):
                print("violation reproduced by", fn.__name__, ":", str(res["violation"])[:1500])
                status |= 1
    return status


# ----------------------------------------------------------------------------- C02 / C11 CLI checks

def rand_genome(rnd, n):
    return "".join(rnd.choice("ACGT") for _ in range(n))


def mutate(rnd, s, nsnp):
    s = list(s)
    for _ in range(nsnp):
        p = rnd.randrange(len(s))
        s[p] = rnd.choice([c for c in "ACGT" if c != s[p]])
    return "".join(s)


def revcomp(s):
    return s[::-1].translate(str.maketrans("ACGTacgt", "TGCAtgca"))


def nk_table(info):
    """(names, {key: cells}) of an nk --full-info parse"""
    return info.get("names"), {k: "".join(v) for k, v in info["rows"].items()}


def c02_cli(ctx, broken):
    """wrapping, gzip, case, record order, strand and sample order through the CLI"""
    rnd = random.Random(ctx.seed * 104729 + 5)
    n = 40 if ctx.tier == "thorough" else 8
    if broken:
        n *= 3
    evals = nontriv = 0
    samples = []
    for it in range(n):
        k = rnd.choice([7, 15, 17, 31, 33, 63])
        rc = rnd.random() < 0.7
        nsamp = rnd.randint(1, 3)
        base = rand_genome(rnd, rnd.randint(k + 5, 6 * k))
        per_sample = []
        for si in range(nsamp):
            recs = [mutate(rnd, base, rnd.randint(0, 3))]
            if rnd.random() < 0.5:
                recs.append(rand_genome(rnd, rnd.randint(1, 3 * k)))
            if rnd.random() < 0.3:
                p = rnd.randrange(len(recs[0]))
                recs[0] = recs[0][:p] + "N" * rnd.randint(1, 3) + recs[0][p + 1:]
            per_sample.append(recs)
        d = fresh_dir(ctx, "c02cli")
        files = []
        for si, recs in enumerate(per_sample):
            f = os.path.join(d, f"s{si}.fa")
            write_fasta(f, recs)
            files.append(f)
        ref = build_and_nk(ctx, d, k, rc, files)
        if ref["status"] != "ok" and "has no valid sequence" in (ref.get("stderr") or ""):
            continue     # a sample without any split k-mer (N placed in a short record): build refuses it, nothing to compare
        evals += 1
        if ref["status"] != "ok":
            return {"summary": {"evaluations": evals, "nontrivial": nontriv},
                    "violation": {"kind": "c02-transform", "what": "plain build failed", "detail": ref.get("stderr"), "k": k, "rc": rc, "samples": per_sample}}
        names0, table0 = nk_table(ref)
        # model agreement for sample 0 (ties the CLI glue to the model once more)
        _, m, s = model_dict(ctx, k, rc, per_sample[0])
        want0 = dict_of(s)
        got0 = {key: cells[0] for key, cells in table0.items() if cells[0] != "-"}
        if got0 != want0:
            return {"summary": {"evaluations": evals, "nontrivial": nontriv},
                    "violation": {"kind": "c02-transform", "what": "column 0 differs from the specification dictionary", "k": k, "rc": rc, "samples": per_sample}}
        nontriv += 1
        # transformed inputs
        d2 = fresh_dir(ctx, "c02cli2")
        files2 = []
        how = []
        for si, recs in enumerate(per_sample):
            recs2 = list(recs)
            rnd.shuffle(recs2)
            recs2 = ["".join(ch.lower() if rnd.random() < 0.4 else ch for ch in r) for r in recs2]
            if rc:
                recs2 = [revcomp(r) if rnd.random() < 0.5 else r for r in recs2]
            gz = rnd.choice([False, False, True, "multi"])
            wrap = rnd.choice([None, 1, 7, 60, 10 ** 6])
            crlf = rnd.random() < 0.3
            extra = rnd.choice(["", " a description with spaces", "\tx=1"])
            # file names: the sample name is the file name without directory and without a final
            # .fa/.fasta/.fastq/.fastq.gz (any case); anything else is kept whole
            stem = rnd.choice([f"s{si}", f"smp.{si}.v2", f"S_{si}-x"])
            ext = rnd.choice([".fa", ".fasta", ".FA", ".Fasta"]) + (".gz" if gz else "")
            sub = os.path.join(d2, rnd.choice(["", "sub.dir"]))
            os.makedirs(sub, exist_ok=True)
            f = os.path.join(sub, stem + ext)
            write_fasta(f, recs2, wrap=wrap, gz=gz, crlf=crlf, header_extra=extra,
                        names=(["contig"] * len(recs2) if rnd.random() < 0.3 else None))
            files2.append(f)
            how.append({"gz": gz, "wrap": wrap, "crlf": crlf, "file": os.path.relpath(f, d2)})
        order = list(range(nsamp))
        rnd.shuffle(order)
        use_list = rnd.random() < 0.4
        if use_list:
            # a two-column file list: the names are given, not derived
            lst = os.path.join(d2, "list.tsv")
            open(lst, "w").write("".join(f"given{i}{rnd.choice([chr(9), ' ', '  '])}{files2[i]}\n" for i in order))
            alt = build_and_nk(ctx, d2, k, rc, [], extra=["-f", lst])
            want_names = [f"given{i}" for i in order]
        else:
            alt = build_and_nk(ctx, d2, k, rc, [files2[i] for i in order])
            want_names = []
            for i in order:
                mm = re.match(r"^.+/(.+)\.(?i:fa|fasta|fastq|fastq\.gz)$", files2[i]) or re.match(r"^(.+)\.(?i:fa|fasta|fastq|fastq\.gz)$", files2[i])
                want_names.append(mm.group(1) if mm else files2[i])
        evals += 1
        if alt["status"] != "ok":
            return {"summary": {"evaluations": evals, "nontrivial": nontriv},
                    "violation": {"kind": "c02-transform", "what": "transformed build failed", "detail": alt.get("stderr"), "how": how, "k": k, "rc": rc, "samples": per_sample}}
        names1, table1 = nk_table(alt)
        if names1 != want_names:
            return {"summary": {"evaluations": evals, "nontrivial": nontriv},
                    "violation": {"kind": "c02-transform", "what": "sample names are not those of the files / the file list, in input order", "how": how, "order": order,
                                  "expected": want_names, "observed": names1, "k": k, "rc": rc, "samples": per_sample}}
        # names: sN.fa.gz is not stripped by the name regex (only .fa/.fasta/.fastq/.fastq.gz) -> compare columns by position
        permuted = {key: "".join(cells[order.index(i)] for i in range(nsamp)) for key, cells in table1.items()}
        if permuted != table0:
            return {"summary": {"evaluations": evals, "nontrivial": nontriv},
                    "violation": {"kind": "c02-transform", "what": "table changed under wrap/gzip/case/order/strand/sample permutation", "how": how, "order": order, "k": k, "rc": rc, "samples": per_sample}}
        if len(samples) < 2:
            samples.append({"k": k, "rc": rc, "transform": how, "sample_order": order, "kmers": len(table0)})
    return {"summary": {"evaluations": evals, "nontrivial": nontriv,
                        "what": "ska build on re-wrapped / gzip-compressed / case-masked / record-permuted / per-record reverse-complemented files with permuted sample order vs the plain build (nk --full-info tables)"},
            "samples": samples}


def c02_deep_cli(ctx, broken):
    """sample permutation on the parallel build path: `build_and_merge` in-process (one process per
    case) with enough samples and threads for a split tree of depth 3, for the samples in order and
    rotated; the rotated table must be the column-rotated table (and both equal the model's)"""
    rnd = random.Random(ctx.seed * 2750159 + 17)
    thorough = ctx.tier == "thorough"
    evals = nontriv = 0
    # the last instance has more samples than a byte can count
    for (n, threads) in ([(72, 8), (90, 16), (40, 4), (71, 8), (520, 16)] if thorough else [(72, 8), (25, 2), (300, 4)]):
        k = rnd.choice([9, 15, 21])
        base = rand_genome(rnd, 60)
        smp = [mutate(rnd, base, rnd.randint(0, 3)) for _ in range(n)]
        rot = rnd.randrange(1, n)
        order = [(i + rot) % n for i in range(n)]
        tables = []
        for lst in (smp, [smp[i] for i in order]):
            line = f"bam w=64 k={k} rc=1 threads={threads} samples={'|'.join(lst)}"
            r = core.run_impl(ctx, [line], "c02bam")[0]
            m, s = core.run_model(ctx, [line])[0]
            evals += 1
            if r != m or r != s:
                return {"summary": {"evaluations": evals, "nontrivial": nontriv},
                        "violation": {"kind": "c02-deep", "what": "build_and_merge differs from the model table", "threads": threads, "nsamples": n, "k": k,
                                      "model_case": line, "code": r[:400], "model": m[:400]}}
            rows = dict(x.split(":") for x in r.split(";rows=")[1].split(",")) if ";rows=" in r and r.split(";rows=")[1] != "~" else {}
            tables.append(rows)
        want = {key: "".join(cells[i] for i in order) for key, cells in tables[0].items()}
        if want != tables[1]:
            return {"summary": {"evaluations": evals, "nontrivial": nontriv},
                    "violation": {"kind": "c02-deep", "what": "permuting the samples did not just permute the columns (parallel build)", "threads": threads, "nsamples": n, "k": k, "rotation": rot, "samples": smp}}
        nontriv += 1
    return {"summary": {"evaluations": evals, "nontrivial": nontriv,
                        "what": "sample rotation on the parallel build path (split tree depth 2-3, 25-90 samples, 2-16 threads) in-process vs model and vs the column-rotated table"},
            "samples": []}


def run_ok(args, cwd):
    code, out, err = ska(args, cwd)
    return code, out, err


_COMP = {"A": "T", "T": "A", "C": "G", "G": "C"}


def lo_free_canon(prefix):
    """reference-free `ska lo` output up to order and strand: SNP columns (a column or its
    complement), indel records (a record or the same record read on the other strand; when as many
    samples are genotyped 0 as 1 there is no 'most frequent' allele and REF/ALT may be swapped)"""
    out = {"snps": None, "indels": None}
    p = prefix + "_snps.fas"
    if os.path.exists(p):
        recs = read_fasta(p)
        n = len(recs[0][1]) if recs else 0
        cols = ["".join(r[1][i] for r in recs) for i in range(n)]
        out["snps"] = sorted(min(c, "".join(_COMP.get(x, x) for x in c)) for c in cols)
    p = prefix + "_indels.vcf"
    if os.path.exists(p):
        recs = []
        for l in open(p):
            if l.startswith("#") or not l.strip():
                continue
            f = l.rstrip("\n").split("\t")
            info = dict(x.split("=", 1) for x in f[6].split(";") if "=" in x)
            ref, alt, calls = f[3], f[4], f[9:]
            if calls.count("0") == calls.count("1") and alt < ref:
                ref, alt = alt, ref
                calls = [{"0": "1", "1": "0"}.get(c, c) for c in calls]
            rcs = lambda x: x if x == "-" else revcomp(x)
            fwd = (info.get("before", ""), ref, alt, info.get("after", ""))
            rev = (revcomp(info.get("after", "")), rcs(ref), rcs(alt), revcomp(info.get("before", "")))
            recs.append((min(fwd, rev), tuple(calls)))
        out["indels"] = sorted(recs)
    return out



def c11_cli(ctx, broken):
    """thread-count / repetition matrix through the CLI"""
    rnd = random.Random(ctx.seed * 15485863 + 3)
    thorough = ctx.tier == "thorough"
    threads_set = [1, 2, 3, 4, 8, 16] if thorough else [1, 2, 4]
    reps = 3 if thorough else 2
    sample_counts = [3, 9, 10, 11, 25, 40, 80] if thorough else [3, 11, 21]
    evals = nontriv = 0
    samples = []
    known_sigs = {k["sig"]: k["text"] for k in core.load_known() if k["property"] == "C11"}

    def viol(what, **kw):
        kw.update({"kind": "c11-threads", "what": what})
        return {"summary": {"evaluations": evals, "nontrivial": nontriv}, "violation": kw}

    known_hits = []
    # deep split trees: build_and_merge in-process (one process per case: the global pool can be
    # initialised once) against the model's split tree and the joint-build specification
    for (n, threads) in ([(75, 8), (83, 16), (95, 16), (41, 8)] if thorough else [(72, 8), (31, 4)]):
        k = rnd.choice([9, 15, 21])
        base = rand_genome(rnd, 60)
        smp = [mutate(rnd, base, rnd.randint(0, 2)) for _ in range(n)]
        w = 64
        line = f"bam w={w} k={k} rc=1 threads={threads} samples={'|'.join(smp)}"
        r = core.run_impl(ctx, [line], "c11bam")[0]
        m, s = core.run_model(ctx, [line])[0]
        evals += 1
        if r != m or r != s:
            return viol("build_and_merge with this thread count differs from the serial table", threads=threads, nsamples=n, k=k,
                        model_case=line, code=r[:400], model=m[:400], spec=s[:400])
        nontriv += 1
    for fam, nsamp in [(f, n) for n in sample_counts for f in ("random", "isolated", "indels", "pairs")]:
        k = rnd.choice([15, 17, 31, 33])
        d = fresh_dir(ctx, "c11cli")
        L = 400 if fam == "random" else 700
        base = rand_genome(rnd, L)
        if fam == "random":
            sites = sorted(rnd.sample(range(L), rnd.randint(3, 12)))
        else:
            sites = list(range(2 * k + 3, L - 2 * k - 3, 2 * k + 5))
        seqs = [list(base) for _ in range(nsamp)]
        for p in sites:
            alt = rnd.choice([c for c in "ACGT" if c != base[p]])
            for c in rnd.sample(range(nsamp), rnd.randint(1, nsamp - 1)):
                seqs[c][p] = alt
        if fam == "pairs":
            # a second SNP k-2, k-1 or k bases after every other site: both in one variant group, the
            # k-mer that starts at the first ends at the second (their blocking sets interact)
            for p in sites[::2]:
                q = p + rnd.choice([k - 2, k - 1, k - 1, k])
                alt = rnd.choice([c for c in "ACGT" if c != base[q]])
                for c in rnd.sample(range(nsamp), rnd.randint(1, nsamp - 1)):
                    seqs[c][q] = alt
        if fam == "indels":
            # every other site also carries an insertion a few bases upstream of the SNP (all four
            # haplotypes when there are enough samples): two indel bubbles opening at the same k-mer
            for p in sites[::2]:
                ins = list(rand_genome(rnd, rnd.randint(1, 8)))
                gap = rnd.randint(1, k - 3)
                carriers = rnd.sample(range(nsamp), rnd.randint(1, nsamp - 1))
                for c in carriers:
                    seqs[c][p - gap] = "".join(ins) + seqs[c][p - gap]
        close = any(b - a < 2 * k for a, b in zip(sites, sites[1:]))
        files = []
        for si in range(nsamp):
            f = os.path.join(d, f"s{si}.fa")
            write_fasta(f, ["".join(seqs[si])])
            files.append(f)
        # the same samples cut into several records, for the build options that act per record
        mfiles = []
        for si in range(nsamp):
            f = os.path.join(d, f"m{si}.fa")
            sq = "".join(seqs[si])
            npiece = max(1, min(6, len(sq) // (k + 8)))
            cuts = [len(sq) * j // npiece + (rnd.randint(-3, 3) if 0 < j else 0) for j in range(1, npiece)]
            write_fasta(f, [sq[a_:b_] for a_, b_ in zip([0] + cuts, cuts + [len(sq)])])
            mfiles.append(f)
        build_opts = ["--proportion-reads", rnd.choice(["0.5", "0.34", "0.25"])] + (["--single-strand"] if rnd.random() < 0.4 else [])
        reffile = os.path.join(d, "ref.fa")
        write_fasta(reffile, [base[:L // 2], base[L // 2:]], names=["c1", "c2"])
        loref = os.path.join(d, "loref.fa")   # ska lo wants a single-sequence reference
        write_fasta(loref, [base], names=["g"])
        # a second reference in which the (k-1)-mers left of two sites occur three times (several wrong
        # anchor positions with equal votes: the positioning must not depend on the order it sees them)
        rep_ref = base
        for p_ in sites[:2]:
            if p_ - (k - 1) >= 0:
                flank = base[p_ - (k - 1):p_]
                rep_ref += rand_genome(rnd, 23) + flank + rand_genome(rnd, 17) + flank
        loref2 = os.path.join(d, "loref2.fa")
        write_fasta(loref2, [rep_ref], names=["g"])
        base_out = {}
        for t in threads_set:
            for rep in range(reps):
                tag = f"t{t}r{rep}"
                # build from sequence files
                code, out, err = run_ok(["build", "-o", os.path.join(d, tag), "-k", str(k), "--threads", str(t)] + files, d)
                evals += 1
                if code != 0:
                    return viol("build failed with this thread count", threads=t, nsamples=nsamp, stderr=err[-400:])
                code, out, err = run_ok(["nk", "--full-info", os.path.join(d, tag + ".skf")], d)
                cur = {"build": nk_table(parse_nk(out))}
                skf = os.path.join(d, tag + ".skf")
                # build with options that are handed down to the per-sample builders (both the serial and the parallel route)
                code, out, err = run_ok(["build", "-o", os.path.join(d, tag + "o"), "-k", str(k), "--threads", str(t)] + build_opts + mfiles, d)
                evals += 1
                if code != 0:
                    # the selected records may hold no k-mer: then every thread count must refuse alike
                    cur["build " + " ".join(build_opts)] = "refused:" + classify_stderr(err)
                else:
                    code, out, err = run_ok(["nk", "--full-info", os.path.join(d, tag + "o.skf")], d)
                    cur["build " + " ".join(build_opts)] = nk_table(parse_nk(out))
                for name, args in [
                    ("align_skf", ["align", skf, "--threads", str(t)]),
                    ("align_fa", ["align"] + files + ["--threads", str(t)]),
                    ("map_skf", ["map", reffile, skf, "--threads", str(t)]),
                    ("map_fa", ["map", reffile] + files + ["--threads", str(t)]),
                    ("mapvcf_skf", ["map", reffile, skf, "-f", "vcf", "--threads", str(t)]),
                    ("distance", ["distance", skf, "--threads", str(t)]),
                ]:
                    if name in ("map_fa", "align_fa") and len(files) == 1:
                        continue
                    code, out, err = run_ok(args, d)
                    evals += 1
                    if code != 0:
                        return viol(f"{name} failed with this thread count", threads=t, nsamples=nsamp, stderr=err[-400:], args=args)
                    if name.startswith("align"):
                        aseqs = [l for l in out.splitlines() if not l.startswith(">")]
                        names = [l for l in out.splitlines() if l.startswith(">")]
                        cols = sorted("".join(s[i] for s in aseqs) for i in range(len(aseqs[0]))) if aseqs and aseqs[0] else []
                        cur[name] = (names, cols)
                    elif name == "mapvcf_skf":
                        cur[name] = [l for l in out.splitlines() if not l.startswith("##")]
                    else:
                        cur[name] = out
                # ska lo with a reference: identical outputs
                lo_prefix = os.path.join(d, "lo_" + tag)
                code, out, err = run_ok(["lo", skf, lo_prefix, "-r", loref, "--threads", str(t)], d)
                evals += 1
                if code != 0:
                    return viol("lo -r failed with this thread count", threads=t, nsamples=nsamp, stderr=err[-400:], k=k,
                                family=fam, sites=sites, genome=base, samples=["".join(x) for x in seqs])
                lo = {}
                for suffix in ["_snps.fas", "_snps.vcf", "_indels.vcf", "_pseudo_genomes.fas"]:
                    p = lo_prefix + suffix
                    lo[suffix] = open(p).read() if os.path.exists(p) else None
                cur["lo_ref"] = lo
                lo_prefix2 = os.path.join(d, "lo2_" + tag)
                code, out, err = run_ok(["lo", skf, lo_prefix2, "-r", loref2, "--threads", str(t)], d)
                evals += 1
                cur["lo_ref_repeats"] = {suffix: (open(lo_prefix2 + suffix).read() if os.path.exists(lo_prefix2 + suffix) else None)
                                         for suffix in ["_snps.fas", "_snps.vcf", "_indels.vcf", "_pseudo_genomes.fas"]} if code == 0 else "failed"
                # reference-free ska lo: the same columns / indel records up to order and strand
                for extra, lname in (([], "lo_free"), (["-m", "0.5"], "lo_free_m")):
                    fp = os.path.join(d, lname + "_" + tag)
                    code, out, err = run_ok(["lo", skf, fp, "--threads", str(t)] + extra, d)
                    evals += 1
                    if code != 0:
                        return viol("lo failed with this thread count", threads=t, nsamples=nsamp, stderr=err[-400:], k=k,
                                    family=fam, sites=sites, genome=base, samples=["".join(x) for x in seqs])
                    cur[lname] = lo_free_canon(fp)
                if not base_out:
                    base_out = cur
                    nontriv += 1
                else:
                    for key in cur:
                        if cur[key] != base_out[key]:
                            if key == "lo_ref" and "lo-ref-nondeterministic" in known_sigs:
                                # recorded finding: the output of ska lo -r depends on hash-map iteration order
                                known_hits.append("lo-ref-nondeterministic: " + known_sigs["lo-ref-nondeterministic"][:160])
                                continue
                            if key in ("lo_free", "lo_free_m") and "lo-free-nondeterministic" in known_sigs:
                                known_hits.append("lo-free-nondeterministic: " + known_sigs["lo-free-nondeterministic"][:160])
                                continue
                            return viol(f"{key} differs from the single-threaded first run", threads=t, rep=rep, nsamples=nsamp, k=k,
                                        family=fam, sites=sites, genome=base, samples=["".join(x) for x in seqs])
        if len(samples) < 2:
            samples.append({"family": fam, "nsamples": nsamp, "k": k, "threads": threads_set, "reps": reps, "kmers": len(base_out["build"][1])})
    # files built with --single-strand, the samples in different orientations: the two strands of a k-mer
    # are separate rows, in an order that changes from build to build (hash seeds). `ska lo` reads both
    # strands of every row, so its result must not depend on which row it meets first: the same input
    # built several times, each file through lo with several thread counts
    for _ss in range(4 if thorough else 2):
        d = fresh_dir(ctx, "c11ss")
        k = rnd.choice([15, 21, 31, 33])
        L = 500
        nsamp = rnd.randint(3, 6)
        base = rand_genome(rnd, L)
        sites = sorted(rnd.sample(range(2 * k, L - 2 * k, 2 * k + 3), 3))
        seqs = [list(base) for _ in range(nsamp)]
        for p_ in sites:
            alt_ = rnd.choice([x for x in "ACGT" if x != base[p_]])
            carriers = rnd.sample(range(nsamp), rnd.randint(1, nsamp - 1))
            for c_ in carriers:
                seqs[c_][p_] = alt_
        files = []
        for si in range(nsamp):
            f = os.path.join(d, f"s{si}.fa")
            sq = "".join(seqs[si])
            write_fasta(f, [revcomp(sq) if si % 2 else sq])
            files.append(f)
        first = None
        for b_ in range(3):
            code, out, err = run_ok(["build", "-o", os.path.join(d, f"b{b_}"), "-k", str(k), "--single-strand"] + files, d)
            if code != 0:
                return viol("build --single-strand failed", stderr=err[-300:])
            for t in ([1, 4, 8] if thorough else [1, 4]):
                for extra in ([], ["-m", "1"]):
                    pref = os.path.join(d, f"lo{b_}_{t}_{len(extra)}")
                    code, out, err = run_ok(["lo", os.path.join(d, f"b{b_}.skf"), pref, "--threads", str(t)] + extra, d)
                    evals += 1
                    if code != 0:
                        return viol("lo failed on a single-strand file", threads=t, stderr=err[-300:], k=k, samples=["".join(x) for x in seqs])
                    cur = (tuple(extra), lo_free_canon(pref))
                    key_ = tuple(extra)
                    if first is None:
                        first = {}
                    if key_ not in first:
                        first[key_] = cur
                        nontriv += 1
                    elif first[key_] != cur:
                        return viol("ska lo on a file built with --single-strand: the result differs between separately built files of the same input (or between thread counts)",
                                    build=b_, threads=t, options=extra, k=k, genome=base, sites=sites, samples=["".join(x) for x in seqs],
                                    first=str(first[key_][1])[:600], this=str(cur[1])[:600])
    return {"known": sorted(set(known_hits)),
            "summary": {"evaluations": evals, "nontrivial": nontriv, "known_finding_hits": len(known_hits), "matrix": {"threads": threads_set, "reps": reps, "sample_counts": sample_counts},
                        "what": "build/align/map(aln,vcf)/distance/lo -r with skf and sequence-file input; identical output (tables and align columns up to order) vs the first single-threaded run; every command must succeed for every thread count"},
            "samples": samples}


# ----------------------------------------------------------------------------- C09 / C19

SYMS = "ACGT" * 6 + "-" * 4 + "RYSWKMBDHVN"


def rand_table_text(rnd, k, nsamp, nrows, small_keys=False):
    names = [f"s{i}" for i in range(nsamp)]
    rows = {}
    top = (1 << 64) if small_keys else 4 ** (k - 1)
    top = min(top, 4 ** (k - 1))
    for _ in range(nrows):
        style = rnd.random()
        if style < 0.2:
            key = rnd.randrange(0, min(top, 1 << 16))
        elif style < 0.3:
            key = top - 1 - rnd.randrange(0, 5)
        else:
            key = rnd.randrange(0, top)
        cells = [rnd.choice(SYMS) for _ in range(nsamp)]
        if all(c == "-" for c in cells):
            cells[0] = "A"
        rows[key] = "".join(cells)
    rows_s = ",".join(f"{k_}:{v}" for k_, v in rows.items()) if rows else "~"
    return ",".join(names) + "|" + rows_s


def kvs(line):
    out = {}
    for tok in line.split(" "):
        if "=" in tok:
            a, b = tok.split("=", 1)
            out[a] = b
    return out




def names_cli(ctx, broken):
    """Sample names of file arguments: read_input_fastas in-process vs the model Impl/Names.lean
    (about which T03_name_path / _plain / _other / _injective are proved) and vs the closed form the
    theorems state, on structured and adversarial argument strings."""
    rnd = random.Random(ctx.seed * 49979687 + 3)
    thorough = ctx.tier == "thorough"
    exts = ["fa", "fasta", "fastq", "fastq.gz"]
    def variant(e):
        out = []
        for ch in e:
            r = rnd.random()
            out.append(ch.upper() if r < 0.3 else ("\u017f" if ch == "s" and r > 0.93 else ch))
        return "".join(out)
    stem_alpha = "abXY01_-. "
    def stem(plain=True):
        n = rnd.choice([1, 1, 2, 5, 12])
        t = "".join(rnd.choice(stem_alpha + ("" if plain else "/\n\u00e9\u212a")) for _ in range(n))
        return t or "x"
    def dirp():
        return "/".join(stem() for _ in range(rnd.randint(1, 3)))
    files, expect = [], []
    def add(f, want=None):
        files.append(f); expect.append(want)
    fixed = ["", ".", "/", ".fa", "/.fa", "//.fa", "a/.fa", "a/b/.fa", "x.fa.fa", "x.fastq.gz", "x.gz", "x.fastq.gz.fa", "x.fa.gz", "d.fa/y", "d.fa/y.fasta",
             "a//x.fa", "/x.fa", "x.fq", "x.fna", "x.FA", "x.Fasta", "x.fa\u017fta", "x.fa\u017ftq.gz", "x.fastq.GZ", "x.fastK", "a/b\nc.fa", "a\n/c.fa", "c.fa\n",
             "GCF_000005845.2.fa", "dir.v2/GCF_000005845.2.fasta", "x.fa ", " x.fa", "fa", "xfa", "x..fa", "./x.fa", "../x.fa", "a/./x.fastq", "\u00e9.fa", "a/\u00e9\u00e9.FASTQ.GZ", "x.fasta.fastq"]
    for f in fixed:
        add(f)
    for _ in range(600 if thorough else 150):
        r = rnd.random()
        st, e = stem(), variant(rnd.choice(exts))
        if r < 0.3:
            if "/" not in st and "\n" not in st:
                add(dirp() + "/" + st + "." + e, st)         # T03_name_path
        elif r < 0.5:
            add(st + "." + e, st)                             # T03_name_plain
        elif r < 0.7:
            add(stem(False) + rnd.choice([".", "", "/", "."]) + variant(rnd.choice(exts + ["fq", "fna", "gz", "fast", "fastaa"])))
        else:
            add("".join(rnd.choice("ab/.\nfFaAsStTqQgGzZ\u017f") for _ in range(rnd.randint(0, 12))))
    hx = lambda t: t.encode("utf-8").hex() if t else "."
    line = "names files=" + ",".join(hx(f) for f in files)
    r = core.run_impl(ctx, [line], "names")[0]
    m, _ = core.run_model(ctx, [line])[0]
    got, mod = r.split(","), m.split(",")
    evals = nontriv = 0
    stats = {"stem_from_path": 0, "stem_plain": 0, "own_name": 0}
    for f, want, g, mm in zip(files, expect, got, mod):
        evals += 1
        if g.startswith("!"):
            return {"summary": {"evaluations": evals, "nontrivial": nontriv},
                    "violation": {"kind": "names-path", "what": "read_input_fastas altered the path or added a second file", "file": f}}
        name = bytes.fromhex(g).decode("utf-8") if g != "." else ""
        if want is not None and name != want:
            return {"summary": {"evaluations": evals, "nontrivial": nontriv},
                    "violation": {"kind": "names-spec", "what": "sample name is not the base name without its extension (T03_name_path / T03_name_plain)",
                                  "file": f, "name": name, "expected": want, "model_case": "names files=" + hx(f)}}
        if g != mm:
            return {"summary": {"evaluations": evals, "nontrivial": nontriv},
                    "violation": {"kind": "names-model", "what": "model of read_input_fastas and the code disagree", "file": f, "name": name,
                                  "model": mm, "model_case": "names files=" + hx(f)}, "no_input": want is not None}
        if name != f:
            nontriv += 1
            stats["stem_from_path" if "/" in f and "/" not in name else "stem_plain"] += 1
        else:
            stats["own_name"] += 1
    if len(got) != len(files) or len(mod) != len(files):
        return {"summary": {"evaluations": evals, "nontrivial": nontriv},
                "violation": {"kind": "names-model", "what": "number of names differs from the number of arguments", "impl": len(got), "model": len(mod), "files": len(files)}}
    return {"summary": {"evaluations": evals, "nontrivial": nontriv, "arguments": stats}}


def filelist_cli(ctx, broken):
    """The -f file list (get_input_list) and the names file of ska delete (read_name_list) in-process vs the
    model Impl/FileList.lean (about which T03_filelist_roundtrip / _crlf / _no_final_newline / _blank_line,
    T03_namelist and the T03_split_* lemmas are proved) and vs the written entries."""
    rnd = random.Random(ctx.seed * 15485863 + 11)
    thorough = ctx.tier == "thorough"
    seps = ["\t", " ", "  ", "\t\t", " \t", "\u00a0", "\u3000", "\x0b", "\x0c", "\u2003", "\u0085"]
    def field():
        return "".join(rnd.choice("abXY01_-./\u00e9\u017f:,") for _ in range(rnd.choice([1, 2, 6, 15])))
    cases = []          # (content, expected entries or None = unspecified / "panic")
    def entry():
        return (field(), field(), field() if rnd.random() < 0.4 else None)
    def line(e, sep=None):
        fs = [e[0], e[1]] + ([e[2]] if e[2] is not None else [])
        return "".join(f + (sep or rnd.choice(seps)) for f in fs[:-1]) + fs[-1]
    for _ in range(120 if thorough else 40):
        es = [entry() for _ in range(rnd.choice([0, 1, 2, 5, 12]))]
        style = rnd.choice(["tab-lf", "tab-crlf", "mixed", "nofinal", "padded"])
        if style == "tab-lf":
            content = "".join(line(e, "\t") + "\n" for e in es)
        elif style == "tab-crlf":
            content = "".join(line(e, "\t") + "\r\n" for e in es)
        elif style == "mixed":
            content = "".join(line(e) + rnd.choice(["\n", "\r\n"]) for e in es)
        elif style == "nofinal":
            content = "\n".join(line(e) for e in es)
        else:
            content = "".join(rnd.choice(["", " ", "\t"]) + line(e) + rnd.choice(["", " ", "\t ", "\r"]) + "\n" for e in es)
        cases.append((content, es))
    # refused lists: a blank line, one field, four fields - anywhere
    for _ in range(60 if thorough else 20):
        es = [entry() for _ in range(rnd.randint(0, 4))]
        lines_ = [line(e, "\t") for e in es]
        bad = rnd.choice(["", " ", "\t", "\r", field(), field() + " " + field() + " " + field() + " " + field(), "\u00a0"])
        lines_.insert(rnd.randint(0, len(lines_)), bad)
        cases.append(("\n".join(lines_) + "\n", "panic"))
    for content in ["", "\n", "\r\n", "a b", "a b\n", "a b c\n", "a b c d\n", "a\u00a0b x\n", "a b\rc\n", "a b\r\r\n", "\ufeffa b\n", "a b\n\n", "a b\nc d"]:
        cases.append((content, None))
    hx = lambda t: t.encode("utf-8").hex() if t else "."
    lines = [f"filelist content={hx(c)}" for c, _ in cases]
    impl = core.run_impl(ctx, lines, "filelist")
    model = core.run_model(ctx, lines)
    evals = nontriv = 0
    stats = {"accepted": 0, "refused": 0, "entries": 0, "with_second_file": 0}
    for (content, want), ln, r, (m, _) in zip(cases, lines, impl, model):
        evals += 1
        ri = kvs(r)
        if want == "panic":
            exp = "panic"
        elif want is not None:
            exp = ",".join(f"{hx(a)}:{hx(b)}:{hx(c2) if c2 is not None else '-'}" for a, b, c2 in want) or "~"
        else:
            exp = None
        if exp is not None and ri.get("list") != exp:
            return {"summary": {"evaluations": evals, "nontrivial": nontriv},
                    "violation": {"kind": "filelist-spec", "what": "the file list is not read back as written (T03_filelist_roundtrip / _blank_line)",
                                  "content": content, "impl": ri.get("list", "")[:400], "expected": exp[:400], "model_case": ln}}
        if want not in (None, "panic"):
            expn = ",".join(hx(a) for a, _, _ in want) or "~"
            if ri.get("names") != expn:
                return {"summary": {"evaluations": evals, "nontrivial": nontriv},
                        "violation": {"kind": "filelist-spec", "what": "the names file does not yield the first field of every line (T03_namelist)",
                                      "content": content, "impl": ri.get("names", "")[:400], "expected": expn[:400], "model_case": ln}}
        if r != m:
            return {"summary": {"evaluations": evals, "nontrivial": nontriv},
                    "violation": {"kind": "filelist-model", "what": "model of get_input_list / read_name_list and the code disagree", "content": content,
                                  "impl": r[:400], "model": m[:400], "model_case": ln}, "no_input": exp is not None}
        if ri.get("list") == "panic":
            stats["refused"] += 1
        else:
            stats["accepted"] += 1
            items = [] if ri.get("list") == "~" else ri["list"].split(",")
            stats["entries"] += len(items)
            stats["with_second_file"] += sum(1 for it in items if not it.endswith(":-"))
        if content.strip():
            nontriv += 1
    return {"summary": {"evaluations": evals, "nontrivial": nontriv, "lists": stats}}

def c09_snappy_cli(ctx, broken):
    """C09, compression layer: every block the real compressor (snap, behind MergeSkaArray::save) writes is
    checked against the hypothesis of T09_snappy_block - it parses as an element stream of the format,
    the stream is well-formed, denotes the data and serialises back to the block - and the block decoder
    model is compared with snap's decoder on the block and on truncated / bit-flipped copies."""
    rnd = random.Random(ctx.seed * 86028121 + 5)
    thorough = ctx.tier == "thorough"
    rb = lambda n: bytes(rnd.randrange(256) for _ in range(n))
    datas = [b"", b"\x07"]
    for n in (1, 3, 4, 15, 16, 59, 60, 61, 62, 255, 256, 257, 300, 70000 if thorough else 3000):
        datas.append(rb(min(n, 65536)))                                  # the literal length forms
    for n in (5, 11, 12, 64, 65, 70, 1000, 65536 if thorough else 9000):
        datas.append(bytes([rnd.randrange(256)]) * n)                    # runs: overlapping copies
    for p_ in (2, 3, 7, 8, 100, 2047, 2048, 2049, 5000):
        pat = rb(p_)
        datas.append((pat * (20000 // p_ + 2))[:rnd.randint(p_ + 4, 4 * p_ + 300)])   # periodic: offsets around the 11-bit limit
    for n in (200, 5000, 65536 if thorough else 20000):
        datas.append(bytes(rnd.choice(b"ACGT-NRY") for _ in range(n)))   # the variant arrays of a table
    # what ska itself compresses: the serialised struct of real tables, cut into the 64 KiB blocks of the frame writer
    tabs = [(64, 31, 3, 300), (128, 41, 2, 150)] + ([(64, 17, 5, 6000), (128, 63, 3, 3000)] if thorough else [(64, 21, 4, 2500)])
    for (w, k, nsamp, nrows) in tabs:
        raw = bytes.fromhex(kvs(core.run_impl(ctx, [f"skf w={w} k={k} rc=1 table={rand_table_text(rnd, k, nsamp, nrows)}"], "c09z")[0])["hex"])
        for i in range(0, len(raw), 65536):
            datas.append(raw[i:i + 65536])
    hx = lambda b: b.hex() if b else "."
    cases = []
    for d in datas:
        nf = 60 if thorough else 24
        tags = [f"t{rnd.randrange(0, len(d) // 2 + 4)}" for _ in range(nf // 4)]
        tags += [f"f{rnd.randrange(0, min(len(d) + 3, 48))}.{rnd.randrange(8)}" for _ in range(nf // 2)]
        tags += [f"f{rnd.randrange(0, len(d) + 3)}.{rnd.randrange(8)}" for _ in range(nf // 4)]
        cases.append((d, tags, f"snapblock data={hx(d)} faults={','.join(tags)}"))
    impl = core.run_impl(ctx, [c[2] for c in cases], "c09s")
    mlines = [f"snapblock block={kvs(r)['block']} data={hx(d)} faults={','.join(tags)}" for (d, tags, _), r in zip(cases, impl)]
    model = core.run_model(ctx, mlines)
    evals = nontriv = 0
    kinds_total = [0, 0, 0, 0, 0]
    faults_ok = faults_err = 0
    for (d, tags, line), r, (m, _) in zip(cases, impl, model):
        evals += 1 + len(tags)
        ri, mi = kvs(r), kvs(m)
        if len(d) > 0:
            nontriv += 1 + len(tags)
        short = {"data_bytes": len(d), "data_head": d[:40].hex(), "block_head": ri.get("block", "")[:80]}
        if ri.get("dec") != ri.get("want"):
            return {"summary": {"evaluations": evals, "nontrivial": nontriv},
                    "violation": {"kind": "c09-snappy-roundtrip", "what": "snap does not decode its own block to the data", **short}}
        if not (mi.get("parse") == "1" and mi.get("wf") == "1" and mi.get("den") == "1" and mi.get("ser") == "1"):
            return {"summary": {"evaluations": evals, "nontrivial": nontriv},
                    "violation": {"kind": "c09-snappy-contract", "what": "a block written by the compressor is not a well-formed element stream denoting its data (hypothesis of T09_snappy_block)",
                                  "model": {k_: mi.get(k_) for k_ in ("parse", "wf", "den", "ser", "kinds")}, **short}, "no_input": True}
        if mi.get("dec") != ri.get("dec") or mi.get("muts") != ri.get("muts"):
            a, b = ri.get("muts", "").split(","), mi.get("muts", "").split(",")
            return {"summary": {"evaluations": evals, "nontrivial": nontriv},
                    "violation": {"kind": "c09-snappy-model", "what": "block decoder model and snap disagree", "dec": [ri.get("dec"), mi.get("dec")],
                                  "examples": [(x, y) for x, y in zip(a, b) if x != y][:5], **short}, "no_input": True}
        for i, v in enumerate(mi.get("kinds", "0/0/0/0/0").split("/")):
            kinds_total[i] += int(v)
        for x in ri.get("muts", "").split(","):
            if x.endswith(":err"):
                faults_err += 1
            elif x:
                faults_ok += 1
    return {"summary": {"evaluations": evals, "nontrivial": nontriv, "blocks": len(cases),
                        "block_sizes": sorted(len(c[0]) for c in cases)[::max(1, len(cases) // 12)],
                        "elements_seen": dict(zip(["literal_short", "literal_long", "copy1", "copy2", "copy4"], kinds_total)),
                        "damaged_copies": {"decoded": faults_ok, "rejected": faults_err}}}

def c09_cli(ctx, broken):
    rnd = random.Random(ctx.seed * 32452843 + 17)
    per_k = 12 if ctx.tier == "thorough" else 2
    evals = nontriv = 0
    samples = []
    cases = []
    for k in range(5, 64, 2):
        for w in ([64, 128] if k <= 31 else [128]):
            for i in range(per_k):
                nsamp = rnd.randint(1, 5)
                nrows = rnd.choice([0, 1, 3, 20, 200 if ctx.tier == "thorough" else 40])
                small = (k >= 33 and i % 2 == 0)
                cases.append(f"skf w={w} k={k} rc={rnd.randint(0, 1)} table={rand_table_text(rnd, k, nsamp, nrows, small)}")
    if ctx.tier == "thorough":
        # thousands of k-mers (several compression frames)
        for k, w in [(31, 64), (35, 128), (63, 128)]:
            cases.append(f"skf w={w} k={k} rc=1 table={rand_table_text(rnd, k, 3, 6000)}")
    impl = core.run_impl(ctx, cases, "c09")
    mcases = ["skfdec " + r.split(" ")[0] for r in impl]
    model = core.run_model(ctx, mcases)
    for c, r, (m, _) in zip(cases, impl, model):
        evals += 1
        ri, mi = kvs(r), kvs(m)
        ok = (ri.get("load64") == mi.get("load64") and ri.get("load128") == mi.get("load128")
              and ri.get("any") == mi.get("any") and mi.get("reenc") == "1" and mi.get("rest") == "0")
        # exactly the width the file was written with must load
        w = kvs(c)["w"]
        ok = ok and ri.get("load64") == ("1" if w == "64" else "0") and ri.get("load128") == ("1" if w == "128" else "0")
        ok = ok and ri.get("any", "").startswith(w + "|")
        if "rows=~" not in ri.get("any", ""):
            nontriv += 1
        if len(samples) < 2 and len(c) < 300:
            samples.append({"case": c, "cbor_bytes": len(ri.get("hex", "")) // 2})
        if not ok:
            return {"summary": {"evaluations": evals, "nontrivial": nontriv},
                    "violation": {"kind": "c09-roundtrip", "case": c, "impl": {k: v[:300] for k, v in ri.items()}, "model": {k: v[:300] for k, v in mi.items()}}}
    # CLI: width independence for k = 35 files whose k-mers all fit in 64 bits; merge in both orders
    for it in range(6 if ctx.tier == "thorough" else 2):
        k = rnd.choice([33, 35, 41])
        d = fresh_dir(ctx, "c09cli")
        lowA = "A" * (k + 10) + rand_genome(rnd, 5) + "A" * 3          # every k-mer starts with many A's
        normal = rand_genome(rnd, 3 * k)
        write_fasta(os.path.join(d, "low.fa"), [lowA])
        write_fasta(os.path.join(d, "norm.fa"), [normal, lowA[:k + 12]])
        results = {}
        for name in ("low", "norm"):
            code, out, err = ska(["build", "-o", os.path.join(d, name), "-k", str(k), os.path.join(d, name + ".fa")], d)
            evals += 1
            if code != 0:
                return {"summary": {"evaluations": evals, "nontrivial": nontriv}, "violation": {"kind": "c09-cli", "what": "build failed", "stderr": err[-300:], "k": k}}
        for order in (("low", "norm"), ("norm", "low")):
            code, out, err = ska(["merge", os.path.join(d, order[0] + ".skf"), os.path.join(d, order[1] + ".skf"), "-o", os.path.join(d, "m_" + order[0])], d)
            evals += 1
            if code != 0:
                return {"summary": {"evaluations": evals, "nontrivial": nontriv},
                        "violation": {"kind": "c09-cli", "what": f"merge {order} failed", "stderr": err[-300:], "k": k, "low": lowA, "normal": normal}}
            code, out, err = ska(["nk", "--full-info", os.path.join(d, "m_" + order[0] + ".skf")], d)
            info = parse_nk(out)
            results[order] = {key: (cells if order[0] == "low" else cells[::-1]) for key, cells in info["rows"].items()}
        if results[("low", "norm")] != results[("norm", "low")]:
            return {"summary": {"evaluations": evals, "nontrivial": nontriv}, "violation": {"kind": "c09-cli", "what": "merge order changes the table", "k": k, "low": lowA, "normal": normal}}
        # three and four files in one command, every order: a k-mer present in an earlier file, absent from
        # the next and present again later must keep its columns (files can be merged in any order)
        write_fasta(os.path.join(d, "other.fa"), [rand_genome(rnd, 2 * k + 7)])
        write_fasta(os.path.join(d, "low2.fa"), [mutate(rnd, lowA, 1)])
        for name in ("other", "low2"):
            ska(["build", "-o", os.path.join(d, name), "-k", str(k), os.path.join(d, name + ".fa")], d)
        import itertools
        ref_table = None
        orders = list(itertools.permutations(("low", "other", "norm"))) + [("low", "other", "low2", "norm"), ("norm", "low2", "other", "low"), ("low2", "norm", "low", "other")]
        for order in orders:
            code, out, err = ska(["merge"] + [os.path.join(d, n + ".skf") for n in order] + ["-o", os.path.join(d, "m3")], d)
            evals += 1
            if code != 0:
                return {"summary": {"evaluations": evals, "nontrivial": nontriv},
                        "violation": {"kind": "c09-cli", "what": f"merge {order} failed", "stderr": err[-300:], "k": k, "low": lowA, "normal": normal}}
            code, out, err = ska(["nk", "--full-info", os.path.join(d, "m3.skf")], d)
            info = parse_nk(out)
            if info.get("names") != list(order):
                return {"summary": {"evaluations": evals, "nontrivial": nontriv},
                        "violation": {"kind": "c09-cli", "what": "merged sample names are not those of the inputs in order", "order": order, "names": info.get("names"), "k": k}}
            table = {key: {n: c for n, c in zip(order, cells) if n != "low2" or len(order) == 4} for key, cells in info["rows"].items()}
            if len(order) == 3:
                if ref_table is None:
                    ref_table = table
                elif table != ref_table:
                    bad = [key for key in set(table) | set(ref_table) if table.get(key) != ref_table.get(key)][:3]
                    return {"summary": {"evaluations": evals, "nontrivial": nontriv},
                            "violation": {"kind": "c09-cli", "what": "merge order changes the table (three files)", "order": order, "k": k,
                                          "examples": [{"kmer": str(key), "this": table.get(key), "first_order": ref_table.get(key)} for key in bad],
                                          "low": lowA, "normal": normal}}
            else:
                # restricted to the three common files the four-file merge must agree with the three-file one,
                # rows that only low2 holds aside
                sub = {key: {n: c for n, c in row.items() if n != "low2"} for key, row in table.items()}
                sub = {key: row for key, row in sub.items() if any(c != "-" for c in row.values())}
                if sub != ref_table:
                    bad = [key for key in set(sub) | set(ref_table) if sub.get(key) != ref_table.get(key)][:3]
                    return {"summary": {"evaluations": evals, "nontrivial": nontriv},
                            "violation": {"kind": "c09-cli", "what": "merge order changes the table (four files)", "order": order, "k": k,
                                          "examples": [{"kmer": str(key), "this": sub.get(key), "three_files": ref_table.get(key)} for key in bad]}}
        for args in (["map", os.path.join(d, "norm.fa"), os.path.join(d, "low.skf")],
                     ["weed", os.path.join(d, "low.skf"), os.path.join(d, "norm.fa"), "-o", os.path.join(d, "w.skf"), "--min-freq", "0"],
                     ["nk", os.path.join(d, "low.skf")], ["distance", os.path.join(d, "m_low.skf")], ["align", os.path.join(d, "m_low.skf")]):
            code, out, err = ska(args, d)
            evals += 1
            if code != 0:
                return {"summary": {"evaluations": evals, "nontrivial": nontriv},
                        "violation": {"kind": "c09-cli", "what": f"{args[0]} failed on a k={k} file whose k-mers fit in 64 bits", "stderr": err[-300:], "low": lowA, "normal": normal, "k": k}}
        nontriv += 1
    return {"summary": {"evaluations": evals, "nontrivial": nontriv,
                        "what": "save -> raw CBOR bytes decoded and re-encoded by the model byte for byte, width acceptance (u64/u128) and dispatch vs model, all 30 k x both widths incl. k>=33 files whose k-mers fit in 64 bits; CLI merge in both orders, map/weed/nk/distance/align on such files"},
            "samples": samples}


def c19_cli(ctx, broken):
    rnd = random.Random(ctx.seed * 49979687 + 29)
    thorough = ctx.tier == "thorough"
    # (w, k, samples, rows, byte stride); the third file has many random 64-bit k-mers and one
    # sample, so the encoder stores its block uncompressed (chunk type 0x01, CRC over raw data)
    # (w, k, samples, rows, byte stride, tail): `tail` restricts the faults to the last bytes
    files = [(64, 7, 12, 60, 1, 0), (128, 41, 2, 15, 1, 0), (64, 31, 1, 90, 1, 0),
             # several frames, every fault in the trailing frame; the row counts put the 64 KiB frame
             # boundary into different fields of the serialised struct (k-mers / bases / counts)
             (64, 31, 2, "boundary-in-counts", 1, 160)]
    if thorough:
        files += [(64, 7, 4, 60, 1, 0), (128, 63, 3, 40, 1, 0), (64, 31, 3, 4500, 9, 0), (128, 41, 2, 6000, 1, 1500),
                  (64, 31, 3, "boundary-in-bases", 1, 400), (64, 31, 4, "boundary-in-counts", 1, 600)]
    evals = nontriv = 0
    samples = []
    chunk_types = []
    for (w, k, nsamp, nrows, stride, tail) in files:
        if isinstance(nrows, str):
            # size the table so that the 64 KiB boundary between the two compression frames falls into
            # the per-k-mer count array (the last array of the struct) or into the bases array
            n = 4600
            table = None
            for _try in range(8):
                table = rand_table_text(rnd, k, nsamp, n)
                raw = kvs(core.run_impl(ctx, [f"skf w={w} k={k} rc=1 table={table}"], "c19s")[0])["hex"]
                U = len(raw) // 2
                nr = table.count(":")          # rows actually generated (duplicates are dropped)
                target = 65536 + (nr // 2 if nrows == "boundary-in-counts" else nr + nsamp * nr)
                if abs(U - target) < nr // 3:
                    break
                n = max(100, int(n * target / U))
            case = f"skfaults w={w} k={k} rc=1 stride={stride} tail={tail} table={table}"
        else:
            case = f"skfaults w={w} k={k} rc=1 stride={stride}{f' tail={tail}' if tail else ''} table={rand_table_text(rnd, k, nsamp, nrows)}"
        r = core.run_impl(ctx, [case], "c19")[0]
        ri = kvs(r)
        chunk_types.append(int(ri["file"][20:22], 16) if len(ri["file"]) > 22 else -1)
        nf = int(ri["rejected"]) + int(ri["same"]) + int(ri["different"])
        evals += nf
        nontriv += nf
        if int(ri["different"]) != 0:
            return {"summary": {"evaluations": evals, "nontrivial": nontriv},
                    "violation": {"kind": "c19-faults", "what": "a damaged file was accepted with different content", "faults": ri["diffs"], "case": case[:2000]}}
        # model cross-check of the frame layer on a subset of the faults
        frames = ri["frames"].split(",")
        step = max(1, len(frames) // (4000 if thorough else 700))
        subset = frames[::step]
        tags = [f.split(":")[0] for f in subset]
        mline = f"unframe hex={ri['file']} faults={','.join(tags)}"
        m, _ = core.run_model(ctx, [mline])[0]
        if m != ",".join(subset):
            ms = m.split(",")
            bad = [(a, b) for a, b in zip(subset, ms) if a != b][:5]
            return {"summary": {"evaluations": evals, "nontrivial": nontriv},
                    "violation": {"kind": "c19-frame-model", "what": "frame decoder model and snap disagree", "examples": bad, "case": case[:2000]},
                    "no_input": True}
        samples.append({"file_bytes": int(ri["len"]), "faults": nf, "rejected": int(ri["rejected"]), "accepted_same": int(ri["same"]),
                        "model_cross_checked": len(subset), "w": w, "k": k})
    # chunk headers of a many-frame file: a type byte turned "skippable" drops 64 KiB of the stream
    # with every checksum intact; whole frames lie inside the count array and inside the bases array
    big = [(64, 31, 2, 140000)] + ([(128, 41, 3, 90000), (64, 15, 6, 100000)] if thorough else [])
    for (w, k, nsamp, nrows) in big:
        case = f"skchunks w={w} k={k} nsamp={nsamp} rows={nrows} seed={rnd.randrange(1 << 30)}"
        ri = kvs(core.run_impl(ctx, [case], "c19k")[0])
        nf = int(ri["rejected"]) + int(ri["same"]) + int(ri["different"])
        evals += nf
        nontriv += nf
        if int(ri["different"]) != 0:
            return {"summary": {"evaluations": evals, "nontrivial": nontriv},
                    "violation": {"kind": "c19-faults", "what": "a file with a damaged or dropped compression chunk was accepted with different content",
                                  "faults": ri["diffs"], "case": case}}
        samples.append({"file_bytes": int(ri["len"]), "chunks": int(ri["chunks"]), "faults": nf, "rejected": int(ri["rejected"]),
                        "accepted_same": int(ri["same"]), "kind": "chunk headers and dropped chunks", "w": w, "k": k})
    # CLI: a damaged copy must be rejected by every subcommand or give the same output
    d = fresh_dir(ctx, "c19cli")
    k = 17
    base = rand_genome(rnd, 300)
    fas = []
    for i in range(3):
        f = os.path.join(d, f"s{i}.fa")
        write_fasta(f, [mutate(rnd, base, 3)])
        fas.append(f)
    write_fasta(os.path.join(d, "ref.fa"), [base])
    ska(["build", "-o", os.path.join(d, "good"), "-k", str(k)] + fas, d)
    good = open(os.path.join(d, "good.skf"), "rb").read()
    ska(["build", "-o", os.path.join(d, "good2"), "-k", str(k), fas[0], fas[1]], d)
    good2 = os.path.join(d, "good2.skf")
    # (arguments, output file whose content is the result; None = stdout)
    cmds = {
        "nk": lambda p: (["nk", "--full-info", p], None),
        "align": lambda p: (["align", p, "--filter", "no-filter", "--min-freq", "0"], None),
        "map": lambda p: (["map", os.path.join(d, "ref.fa"), p], None),
        "distance": lambda p: (["distance", p], None),
        "weed": lambda p: (["weed", p, os.path.join(d, "ref.fa"), "-o", os.path.join(d, "w")], "w.skf"),
        "delete": lambda p: (["delete", "-s", p, "-o", os.path.join(d, "del"), "s0"], "del.skf"),
        "merge-first": lambda p: (["merge", p, good2, "-o", os.path.join(d, "mm")], "mm.skf"),
        # the damaged file as a later input: it must not be skipped
        "merge-second": lambda p: (["merge", good2, p, "-o", os.path.join(d, "mm")], "mm.skf"),
        "merge-third": lambda p: (["merge", good2, os.path.join(d, "good.skf"), p, "-o", os.path.join(d, "mm")], "mm.skf"),
        "lo": lambda p: (["lo", p, os.path.join(d, "lo")], "lo_snps.fas"),
    }
    def sorted_rows(text):
        return sorted(text.splitlines())
    def run_cmd(name, path):
        args, outfile = cmds[name](path)
        for stale in ("w.skf", "del.skf", "mm.skf", "lo_snps.fas"):
            if os.path.exists(os.path.join(d, stale)):
                os.remove(os.path.join(d, stale))
        code, out, err = ska(args, d)
        if outfile is None:
            return code, sorted_rows(out)
        op = os.path.join(d, outfile)
        if not os.path.exists(op):
            return code, None
        if outfile.endswith(".skf"):
            c2, o2, e2 = ska(["nk", "--full-info", op], d)
            return code, sorted_rows(o2)
        # ska lo: columns of one variant group come out in hash order -> compare up to order and strand
        canon = lo_free_canon(os.path.join(d, "lo"))
        return code, [str(canon["snps"]), str(canon["indels"])]
    ref_out = {}
    for name in cmds:
        # renamed samples would clash in a merge of a file with itself: the reference run uses the same arguments
        ref_out[name] = run_cmd(name, os.path.join(d, "good.skf"))
    nfaults = 400 if thorough else 60
    for fi in range(nfaults):
        data = bytearray(good)
        if fi % 3 == 0:
            # the empty file and the bare stream identifier first: prefixes that end the compressed stream cleanly
            data = data[:{0: 0, 3: 10}.get(fi, rnd.randrange(len(good)))]
            what = f"truncate {len(data)}"
        else:
            pos = rnd.randrange(len(good))
            bit = rnd.randrange(8)
            data[pos] ^= 1 << bit
            what = f"flip {pos}.{bit}"
        # usually `bad.skf`; sometimes a name without the suffix that has an intact, different
        # `<name>.skf` next to it (a loader must not fall back to the neighbour)
        if fi % 4 == 1:
            bad = os.path.join(d, "sib")
            shutil.copyfile(good2, os.path.join(d, "sib.skf"))
        else:
            bad = os.path.join(d, "bad.skf")
        open(bad, "wb").write(bytes(data))
        for name in cmds:
            code, res = run_cmd(name, bad)
            evals += 1
            if code == 0 and res != ref_out[name][1]:
                return {"summary": {"evaluations": evals, "nontrivial": nontriv},
                        "violation": {"kind": "c19-cli", "what": f"{name} accepted a damaged file and gave a different result", "fault": what,
                                      "expected_rows": len(ref_out[name][1] or []), "observed_rows": len(res or [])}}
        nontriv += 1
    # the subcommands that read their .skf with a thread count: one flipped bit in every byte of the file (quick: about 450 bytes spread over it) and truncations through align / map / distance / lo with --threads 2-4 - a loader must not depend
    # on the thread count
    tcmds = {
        "align --threads 2": lambda p: ["align", p, "--filter", "no-filter", "--min-freq", "0", "--threads", "2"],
        "map --threads 3": lambda p: ["map", os.path.join(d, "ref.fa"), p, "--threads", "3"],
        "distance --threads 2": lambda p: ["distance", p, "--threads", "2"],
    }
    tref = {}
    for name, mk in tcmds.items():
        code, out, err = ska(mk(os.path.join(d, "good.skf")), d)
        tref[name] = (code, sorted_rows(out))
    bad = os.path.join(d, "badt.skf")
    step = 1 if thorough else max(1, len(good) // 450)
    for pos in range(rnd.randrange(step), len(good), step):
        dmg = bytearray(good)
        dmg[pos] ^= 1 << rnd.randrange(8)
        variants = [(f"flip in byte {pos}", bytes(dmg))] + ([(f"truncate {pos}", bytes(good[:pos]))] if (pos // step) % 8 == 0 else [])
        for what, blob in variants:
            open(bad, "wb").write(blob)
            for name in (list(tcmds) if (thorough or (pos // step) % 8 == 0) else ["align --threads 2"]):
                code, out, err = ska(tcmds[name](bad), d)
                evals += 1
                nontriv += 1
                if code == 0 and sorted_rows(out) != tref[name][1]:
                    return {"summary": {"evaluations": evals, "nontrivial": nontriv},
                            "violation": {"kind": "c19-cli", "what": f"{name} accepted a damaged file and gave a different result", "fault": what,
                                          "file_bytes": len(good), "expected_rows": len(tref[name][1]), "observed_rows": len(sorted_rows(out))}}
    # files as the overwriting subcommands leave them: after an in-place `ska delete` and an in-place `ska weed`
    # every fault in the tail of the file (where anything appended or rewritten last would sit) through nk --full-info
    for how in ("delete", "weed"):
        tgt = os.path.join(d, f"inplace_{how}.skf")
        shutil.copyfile(os.path.join(d, "good.skf"), tgt)
        args = ["delete", "-s", tgt, "s0"] if how == "delete" else ["weed", tgt, os.path.join(d, "ref.fa"), "--reverse"]
        code, out, err = ska(args, d)
        if code != 0:
            continue
        data0 = open(tgt, "rb").read()
        code, ref_nk, err = ska(["nk", "--full-info", tgt], d)
        ref_rows = sorted_rows(ref_nk)
        span = min(len(data0), 96 if thorough else 48)
        faults = [("truncate %d" % c, data0[:c]) for c in range(len(data0) - span, len(data0))]
        for pos in range(len(data0) - span // 2, len(data0)):
            for bit in range(8):
                dmg = bytearray(data0)
                dmg[pos] ^= 1 << bit
                faults.append((f"flip {pos}.{bit}", bytes(dmg)))
        for what, dmg in faults:
            open(os.path.join(d, "bad2.skf"), "wb").write(dmg)
            code, out, err = ska(["nk", "--full-info", os.path.join(d, "bad2.skf")], d)
            evals += 1
            if code == 0 and sorted_rows(out) != ref_rows:
                return {"summary": {"evaluations": evals, "nontrivial": nontriv},
                        "violation": {"kind": "c19-cli", "what": f"a damaged copy of a file last written by an in-place `ska {how}` was accepted with other content",
                                      "fault": what, "file_bytes": len(data0)}}
        nontriv += 1
    if 1 not in chunk_types or 0 not in chunk_types:
        return {"summary": {"evaluations": evals, "nontrivial": nontriv},
                "violation": {"kind": "c19-faults", "what": f"the generated files no longer cover both a compressed and an uncompressed first chunk (types seen: {chunk_types}); the check would not exercise both CRC paths"},
                "no_input": True}
    return {"summary": {"evaluations": evals, "nontrivial": nontriv, "exhaustive": True, "first_chunk_types": chunk_types,
                        "what": "every truncation point and every single-bit flip of each file through the real loader (rejected or same content), frame-decoder model cross-checked against snap on a subset, random faults through every CLI subcommand (results of file-writing subcommands compared too; the damaged file also as second and third input of merge)"},
            "samples": samples}


# ----------------------------------------------------------------------------- C20

import math
import struct


def f2b(x):
    return str(struct.unpack("<Q", struct.pack("<d", x))[0])


def b2f(tok):
    return struct.unpack("<d", struct.pack("<Q", int(tok.lstrip("%"))))[0]


def close(a, b, rel, absol):
    if math.isnan(a) or math.isnan(b):
        return math.isnan(a) and math.isnan(b)
    return abs(a - b) <= rel * max(abs(a), abs(b)) + absol


def qual_letters(rnd, n):
    return "".join(chr(65 + rnd.choice([2, 20, 30, 40, 41])) for _ in range(n))


def make_reads(rnd, genome, coverage, err, rlen):
    n = max(2, int(len(genome) * coverage / rlen))
    reads = ([], [])
    for i in range(n):
        L = min(len(genome), rlen + rnd.randint(-10, 10))
        p = rnd.randrange(len(genome) - L + 1)
        s = genome[p:p + L]
        if rnd.random() < 0.5:
            s = revcomp(s)
        s = "".join((rnd.choice("ACGT") if rnd.random() < err else ch) for ch in s)
        if rnd.random() < 0.03:
            q = rnd.randrange(L)
            s = s[:q] + "N" + s[q + 1:]
        reads[i % 2].append(s + ":" + qual_letters(rnd, L))
    # records that hold no k-mer at all (a failed cluster: all N; a trimmed read: three bases), somewhere
    # inside each file: whatever follows them must still be read
    if rnd.random() < 0.6:
        for part in reads:
            for junk in ("N" * rlen, rnd.choice("ACGT") * 3):
                part.insert(rnd.randrange(0, max(1, len(part) // 2 + 1)), junk + ":" + qual_letters(rnd, len(junk)))
    return reads


def c16_cli(ctx, broken):
    """the packed arithmetic through the command line, per integer width: every path of the lib.rs
    dispatch that instantiates the split k-mer iterator (build from sequence files, build from reads
    with a numeric and an automatic --min-count, cov, map and weed references) for k on both sides
    of the 64/128-bit boundary; the windows of one sequence must come out the same through all of them"""
    rnd = random.Random(ctx.seed * 49979693 + 23)
    thorough = ctx.tier == "thorough"
    evals = nontriv = 0
    for k in ([31, 33, 35, 41, 59, 63] if thorough else [31, 35, 63]):
        d = fresh_dir(ctx, "c16cli")
        seq = rand_genome(rnd, 3 * k + rnd.randint(0, 40))
        q = rnd.randrange(k + 1, len(seq) - k - 1)
        seq = seq[:q] + "N" + seq[q + 1:]
        fa = os.path.join(d, "s.fa")
        write_fasta(fa, [seq])
        line = f"build w={64 if k <= 31 else 128} k={k} rc=1 recs={seq}"
        m, sp = core.run_model(ctx, [line])[0]
        want = dict_of(sp)
        # 1. build from the FASTA
        info = build_and_nk(ctx, d, k, True, [fa])
        evals += 1
        got = {key: b[0] for key, b in info.get("rows", {}).items()} if info["status"] == "ok" else info["status"]
        if got != want:
            return {"summary": {"evaluations": evals, "nontrivial": nontriv},
                    "violation": {"kind": "c16-cli", "what": "ska build (sequence file) differs from the window specification", "k": k, "seq": seq}}
        # 2. the same sequence as reads (each k-mer seen twice, min-count 2)
        fq1, fq2 = os.path.join(d, "r1.fastq"), os.path.join(d, "r2.fastq")
        for fp in (fq1, fq2):
            open(fp, "w").write(f"@r\n{seq}\n+\n{'I' * len(seq)}\n")
        lst = os.path.join(d, "l.tsv")
        open(lst, "w").write(f"s\t{fq1}\t{fq2}\n")
        code, out, err = ska(["build", "-f", lst, "-k", str(k), "--min-count", "2", "-o", os.path.join(d, "r")], d)
        evals += 1
        info2 = parse_nk(ska(["nk", "--full-info", os.path.join(d, "r.skf")], d)[1]) if code == 0 else {"rows": {}}
        got2 = {key: b[0] for key, b in info2.get("rows", {}).items()}
        if code != 0 or got2 != want:
            return {"summary": {"evaluations": evals, "nontrivial": nontriv},
                    "violation": {"kind": "c16-cli", "what": "ska build (reads, --min-count 2) differs from the window specification", "k": k, "seq": seq, "stderr": err[-300:]}}
        # 3. mapping the sequence onto itself: every window matches, no gap except around the N
        code, out, err = ska(["map", fa, os.path.join(d, "out.skf")], d)
        evals += 1
        aln = [l for l in out.splitlines() if not l.startswith(">")]
        h = (k - 1) // 2
        covered = set()
        for j in range(len(seq) - k + 1):
            if "N" not in seq[j:j + k]:
                covered.update(range(j, j + k))
        wantaln = "".join(seq[i] if i in covered else "-" for i in range(len(seq)))
        if code != 0 or not aln or aln[0] != wantaln:
            return {"summary": {"evaluations": evals, "nontrivial": nontriv},
                    "violation": {"kind": "c16-cli", "what": "ska map of a sequence onto itself is not the union of its valid windows", "k": k, "seq": seq, "observed": (aln[0] if aln else None), "expected": wantaln}}
        nontriv += 1
    r = auto_mincount_cli(ctx, broken)
    r["summary"]["evaluations"] += evals
    r["summary"]["nontrivial"] += nontriv
    r["summary"]["what"] = "split k-mers of one sequence through ska build (FASTA), ska build (reads), ska map onto itself, per width; " + r["summary"].get("what", "")
    return r


def auto_mincount_cli(ctx, broken):
    """`ska build --min-count auto` (k-mer counting for the cutoff happens in a dispatch branch of its
    own, per integer width): the result must be the build with the cutoff `ska cov` reports for the
    same two files given explicitly, for k <= 31 and k >= 35, strands merged and single"""
    rnd = random.Random(ctx.seed * 32452843 + 59)
    thorough = ctx.tier == "thorough"
    evals = nontriv = 0
    combos = [(41, True), (31, False), (63, False), (35, True)] + ([(21, True), (33, False), (51, True), (41, False)] if thorough else [])
    for (k, rc) in combos:
        d = fresh_dir(ctx, "autocli")
        genome = rand_genome(rnd, 1500)
        paths = []
        for si in range(2):
            r1, r2 = make_reads(rnd, mutate(rnd, genome, si), rnd.uniform(25, 45), 0.01, 100)
            for tag, reads in (("1", r1), ("2", r2)):
                fp = os.path.join(d, f"s{si}_{tag}.fastq")
                with open(fp, "w") as f:
                    for i, x in enumerate(reads):
                        sq, q = x.split(":")
                        f.write(f"@r{i}\n{sq}\n+\n{''.join(chr(ord(ch) - 65 + 33) for ch in q)}\n")
                paths.append(fp)
        lst = os.path.join(d, "list.tsv")
        open(lst, "w").write(f"s0\t{paths[0]}\t{paths[1]}\ns1\t{paths[2]}\t{paths[3]}\n")
        strand = [] if rc else ["--single-strand"]
        # ska cov ignores base qualities: so must the two builds
        noq = ["--qual-filter", "no-filter"]
        # with one and with several threads (the coverage fit runs before the pool of the build is set up)
        thr = ["--threads", str([1, 2, 4, 3][len(paths) % 4 if False else (combos.index((k, rc)) % 4)])]
        code_a, out, err_a = ska(["build", "-f", lst, "-k", str(k), "--min-count", "auto", "-o", os.path.join(d, "a")] + strand + noq + thr, d)
        # the cutoff is fitted on the forward files of the first two samples
        code_c, out, err_c = ska(["cov", paths[0], paths[2], "-k", str(k)] + strand, d)
        evals += 1
        mcut = re.search(r"Estimated cutoff\t(\d+)", err_c)
        if code_c != 0 or not mcut:
            if code_a == 0:
                return {"summary": {"evaluations": evals, "nontrivial": nontriv},
                        "violation": {"kind": "auto-mincount", "what": "ska cov cannot fit these reads but build --min-count auto succeeded", "k": k, "rc": rc}}
            continue
        if code_a != 0:
            return {"summary": {"evaluations": evals, "nontrivial": nontriv},
                    "violation": {"kind": "auto-mincount", "what": "build --min-count auto failed although ska cov fits the same files", "k": k, "rc": rc, "stderr": err_a[-400:]}}
        cut = mcut.group(1)
        code_b, out, err_b = ska(["build", "-f", lst, "-k", str(k), "--min-count", cut, "-o", os.path.join(d, "b")] + strand + noq, d)
        ta = nk_table(parse_nk(ska(["nk", "--full-info", os.path.join(d, "a.skf")], d)[1]))
        tb = nk_table(parse_nk(ska(["nk", "--full-info", os.path.join(d, "b.skf")], d)[1]))
        nontriv += 1
        if code_b != 0 or ta != tb:
            return {"summary": {"evaluations": evals, "nontrivial": nontriv},
                    "violation": {"kind": "auto-mincount", "what": "build --min-count auto differs from the build with the cutoff ska cov reports for the same files",
                                  "k": k, "rc": rc, "cutoff": cut, "kmers_auto": len(ta[1]), "kmers_explicit": len(tb[1])}}
    return {"summary": {"evaluations": evals, "nontrivial": nontriv,
                        "what": "ska build --min-count auto vs ska cov cutoff + explicit --min-count, k in {21..63} on both sides of the 64/128-bit boundary, both strand modes"},
            "samples": []}


def c20_cli(ctx, broken):
    rnd = random.Random(ctx.seed * 86028121 + 41)
    thorough = ctx.tier == "thorough"
    evals = nontriv = 0
    samples = []

    def viol(what, **kw):
        kw.update({"kind": "c20", "what": what})
        return {"summary": {"evaluations": evals, "nontrivial": nontriv}, "violation": kw}

    # 1. likelihood / gradient at parameter points: code vs Float instance of the model, and
    #    the code's gradient vs central finite differences of the code's likelihood
    npts = 4000 if thorough else 300
    lines = []
    meta = []
    for _ in range(npts):
        w0 = rnd.choice([rnd.uniform(0.01, 0.99), rnd.uniform(0.5, 0.999), 10 ** rnd.uniform(-4, -0.01)])
        c = rnd.choice([rnd.uniform(1.0, 100.0), rnd.uniform(1.0, 3.0), rnd.uniform(15, 45)])
        n = rnd.randint(1, 120)
        if rnd.random() < 0.15:
            # long tables (multi-copy elements, small k on a large genome): rows whose two component
            # terms differ by hundreds of log units, where a formula that is right on paper overflows
            n = rnd.randint(200, 1400)
            c = rnd.choice([c, rnd.uniform(100.0, 400.0)])
        mode = rnd.random()
        if mode < 0.4:
            counts = [rnd.randint(0, 5000) for _ in range(n)]
        else:
            lam = rnd.uniform(5, 60)
            counts = [int(1e6 * math.exp(-i) + 1e5 * math.exp(-(i + 1 - lam) ** 2 / (2 * lam))) for i in range(n)]
        cs = ",".join(map(str, counts))
        h = 1e-6
        for (a, b) in [(w0, c), (w0 + h, c), (w0 - h, c), (w0, c + h), (w0, c - h)]:
            lines.append(f"covll w0={f2b(a)} c={f2b(b)} counts={cs}")
        meta.append((w0, c, counts, h))
    impl = core.run_impl(ctx, lines, "c20")
    model = core.run_model(ctx, lines)
    for i, (w0, c, counts, h) in enumerate(meta):
        evals += 1
        tot = sum(counts) + 1
        vals = [[b2f(t) for t in impl[5 * i + j].split(" ")] for j in range(5)]
        mv = [b2f(t) for t in model[5 * i][0].split(" ")]
        for name, a, b in zip(("ll", "grad_w0", "grad_c"), vals[0], mv):
            if not close(a, b, 1e-7, 1e-7 * tot):
                return viol(f"{name}: code and model formula differ", w0=w0, c=c, counts=counts[:200], code=a, model=b, model_case=lines[5 * i][:3000])
        if 0.0 < w0 - h and w0 + h < 1.0 and c - h >= 1.0:
            fd_w0 = (vals[1][0] - vals[2][0]) / (2 * h)
            fd_c = (vals[3][0] - vals[4][0]) / (2 * h)
            scale = abs(vals[0][0]) * 1e-9 / h + 1e-3 * tot * 1e-3
            if not close(fd_w0, vals[0][1], 2e-4, scale) or not close(fd_c, vals[0][2], 2e-4, scale):
                return viol("the code's gradient is not the derivative of the code's likelihood (central differences)",
                            w0=w0, c=c, counts=counts[:200], grad=[vals[0][1], vals[0][2]], finite_diff=[fd_w0, fd_c], model_case=lines[5 * i][:3000])
        nontriv += 1
    samples.append({"covll": lines[0][:200]})
    # 2. find_cutoff
    lines = []
    for _ in range(3000 if thorough else 400):
        w0 = rnd.uniform(0.001, 0.999)
        c = rnd.uniform(1.0, 90.0)
        lines.append(f"covcut w0={f2b(w0)} c={f2b(c)} max={rnd.choice([0, 1, 2, 5, 30, 77, 200])}")
    impl = core.run_impl(ctx, lines, "c20b")
    model = core.run_model(ctx, lines)
    for l, r, (m, _) in zip(lines, impl, model):
        evals += 1
        mp = m.split(" ")
        if b2f(mp[1]) < 1e-7:
            continue   # a root within rounding of zero: sign not comparable across lgamma implementations
        nontriv += 1
        if r != mp[0]:
            return viol("find_cutoff differs from the least count with a(c) - b(c) < 0", case=l, code=r, model=mp[0], model_case=l)
    # 3. whole pipeline on generated read pairs (in-process) and through the CLI;
    #    every other pair is a synthetic boundary set: reads of exactly k bases (one split k-mer
    #    each) replicated so that the multiplicity histogram has bins of exactly 49 / 50 / 51
    npairs = 40 if thorough else 6
    capped_seen = False
    for it in range(npairs):
        # both integer widths and both strand modes in every run (the Cov dispatch of lib.rs has one
        # branch per width), with and without -v
        k = [33, 15, 41, 31, 33, 21][it % 6] if it < 6 else rnd.choice([15, 21, 31, 33, 41, 63])
        w = 64 if k <= 31 else 128
        rc = (it % 3 != 2) if it < 6 else (rnd.random() < 0.7)
        verbose = (it % 2 == 1)
        if it % 2 == 1:
            nb = rnd.randint(4, 12)
            bins = [rnd.choice([49, 50, 51, 120, 0, 300]) for _ in range(nb)]
            tail = rnd.choice([[50], [50, 49], [50, 0, 49, 3], [51, 49], [49, 50, 7]])
            bins = bins + tail
            r1, r2 = [], []
            for mult, nk in enumerate(bins, start=1):
                for _ in range(nk):
                    sq = rand_genome(rnd, k)
                    for _c in range(mult):
                        s_ = revcomp(sq) if (rc and rnd.random() < 0.5) else sq
                        (r1 if rnd.random() < 0.5 else r2).append(s_ + ":" + qual_letters(rnd, k))
            if it == 1:
                # the far end of the table: fragments of k + 49 bases (50 split k-mers each) read 999, 1000 and 1001
                # times, the counts around the largest multiplicity the table can hold
                for mult in (999, 1000, 1001):
                    frag = rand_genome(rnd, k + 49)
                    for c_ in range(mult):
                        s_ = revcomp(frag) if (rc and c_ % 3 == 0) else frag
                        (r1 if c_ % 2 == 0 else r2).append(s_ + ":" + qual_letters(rnd, len(s_)))
            if it == 3:
                # no-signal reads: one split k-mer (poly-A, its own reverse complement's partner poly-T) seen more often than 16 bits count
                for c_ in range(520):
                    (r1 if c_ % 2 == 0 else r2).append("A" * (k + 133) + ":" + qual_letters(rnd, k + 133))
            if not r1:
                r1.append(r2.pop())
            if not r2:
                r2.append(r1.pop())
            cov, err = 0.0, 0.0
        elif it % 6 == 4:
            # a target so small that no multiplicity of the coverage peak is shared by 50 k-mers: the table
            # holds the error bins only and the cutoff is capped at its length (the last row is then Coverage)
            genome = rand_genome(rnd, rnd.randint(450, 700))
            cov = rnd.uniform(60, 90)
            err = rnd.uniform(0.015, 0.03)
            r1, r2 = make_reads(rnd, genome, cov, err, rnd.randint(80, 100))
        else:
            genome = rand_genome(rnd, rnd.randint(1200, 2200))
            cov = rnd.uniform(10, 80)
            err = rnd.uniform(0, 0.03)
            r1, r2 = make_reads(rnd, genome, cov, err, rnd.randint(60, 100))
        line = f"cov w={w} k={k} rc={int(rc)} r1={','.join(r1)} r2={','.join(r2)}"
        r = kvs(core.run_impl(ctx, [line], "c20c")[0])
        if it % 6 == 4:
            # insist on a capped cutoff (cutoff = number of table rows): redraw a few times if needed
            for _redo in range(8):
                rows_n = 0 if r.get("hist", "~") == "~" else len(r["hist"].split(","))
                if r.get("fit") == "ok" and rows_n > 0 and r.get("cutoff") == str(rows_n):
                    break
                genome = rand_genome(rnd, rnd.randint(450, 700))
                r1, r2 = make_reads(rnd, genome, rnd.uniform(60, 90), rnd.uniform(0.015, 0.03), rnd.randint(80, 100))
                line = f"cov w={w} k={k} rc={int(rc)} r1={','.join(r1)} r2={','.join(r2)}"
                r = kvs(core.run_impl(ctx, [line], "c20c")[0])
            capped_seen = capped_seen or (r.get("fit") == "ok" and r.get("cutoff") == str(0 if r.get("hist", "~") == "~" else len(r["hist"].split(","))))
        evals += 1
        allreads = [x.split(":")[0] for x in r1 + r2]
        w0b = r.get("w0", "%" + f2b(0.8)).lstrip("%")
        cb = r.get("c", "%" + f2b(20.0)).lstrip("%")
        mline = f"covcheck w={w} k={k} rc={int(rc)} w0={w0b} c={cb} reads={','.join(allreads)}"
        m = kvs(core.run_model(ctx, [mline])[0][0])
        if r["nkeys"] != m["nkeys"] or r["dict"] != m["dict"]:
            return viol("k-mer multiplicities differ", k=k, rc=rc, code_nkeys=r["nkeys"], model_nkeys=m["nkeys"], model_case=mline[:200000])
        if r["hist"] != m["hist"]:
            return viol("count table differs (multiplicity histogram / truncation at the last count shared by >= 50 k-mers)",
                        k=k, rc=rc, code=r["hist"][:500], model=m["hist"][:500], model_case=mline[:200000])
        if r.get("fit") == "ok":
            nontriv += 1
            if r["cutoff"] != m["cutoff"] or r["ret"] != r["cutoff"]:
                return viol("reported cutoff is not the least count at which the coverage component outweighs the error component",
                            k=k, code=r["cutoff"], model=m["cutoff"], w0=b2f(r["w0"]), c=b2f(r["c"]), model_case=mline[:200000])
        # CLI
        d = fresh_dir(ctx, "c20cli")
        def fq(path, reads):
            with open(path, "w") as f:
                for i, x in enumerate(reads):
                    s, q = x.split(":")
                    f.write(f"@r{i}\n{s}\n+\n{''.join(chr(ord(ch) - 65 + 33) for ch in q)}\n")
        fq(os.path.join(d, "a.fastq"), r1)
        fq(os.path.join(d, "b.fastq"), r2)
        code, out, errtxt = ska((["-v"] if verbose else []) + ["cov", os.path.join(d, "a.fastq"), os.path.join(d, "b.fastq"), "-k", str(k)] + ([] if rc else ["--single-strand"]), d)
        evals += 1
        if (code == 0) != (r.get("fit") == "ok"):
            return viol("CLI and library disagree on whether the fit succeeded", k=k, stderr=errtxt[-300:])
        if code == 0:
            mcut = re.search(r"Estimated cutoff\t(\d+)", errtxt)
            rows = [l.split("\t") for l in out.splitlines()[1:] if l.strip()]
            want_hist = [] if m["hist"] == "~" else m["hist"].split(",")
            got = [x[1] for x in rows]
            cut = int(mcut.group(1)) if mcut else -1
            labels_ok = all((x[3] == "Error") == (int(x[0]) < cut) for x in rows) and [int(x[0]) for x in rows] == list(range(1, len(rows) + 1))
            if got != want_hist or str(cut) != r["cutoff"] or not labels_ok:
                return viol("ska cov table / cutoff / labels differ", k=k, cli_cutoff=cut, lib_cutoff=r["cutoff"], rows=rows[:20], want_hist=want_hist[:20])
        if len(samples) < 3:
            samples.append({"k": k, "rc": rc, "coverage": round(cov, 1), "error_rate": round(err, 4), "reads": len(allreads), "distinct_kmers": int(r["nkeys"]),
                            "fit": r.get("fit"), "table_rows": 0 if m["hist"] == "~" else len(m["hist"].split(","))})
    return {"summary": {"evaluations": evals, "nontrivial": nontriv,
                        "what": "hooked log_likelihood/grad_ll vs the model's Float instance and vs central finite differences; hooked find_cutoff vs model; CoverageHistogram on generated read pairs (multiplicities, table, cutoff, labels) in-process and through `ska cov`"},
            "samples": samples}


# ----------------------------------------------------------------------------- C03

def canon_arms(win, rc):
    h = len(win) // 2
    arms = win[:h] + win[h + 1:]
    a = pack(arms)
    if rc:
        b = pack(revcomp(arms))
        return (min(a, b), a > b, a == b)
    return (a, False, False)


def repeat_free(seqs, k, rc):
    """every canonical arm key occurs at one coordinate only (over all samples), never self-rc"""
    seen = {}
    for s in seqs:
        for ci, contig in enumerate(s):
            for j in range(len(contig) - k + 1):
                key, flip, pal = canon_arms(contig[j:j + k], rc)
                if pal:
                    return False
                # unique on both strands: same key => same coordinate AND same orientation
                # (two SNPs exactly k-1 apart can turn one sample's arms into the reverse
                # complement of another's at the same coordinate: T03 weak_repeatFree_counterexample)
                if seen.setdefault(key, (ci, j, flip)) != (ci, j, flip):
                    return False
    return True


def c03_cli(ctx, broken):
    """planted isolated-SNP families through `ska build` + `ska align --min-freq 1`"""
    rnd = random.Random(ctx.seed * 67867967 + 53)
    thorough = ctx.tier == "thorough"
    nfam = 300 if thorough else 30
    evals = nontriv = 0
    samples = []
    tries = 0
    while evals < nfam and tries < 40 * nfam:
        tries += 1
        k = rnd.choice(list(range(5, 64, 2)) if thorough else [5, 7, 9, 11, 15, 17, 21, 31, 33, 41, 63])
        h = (k - 1) // 2
        # 10 samples is where the parallel build starts (with --threads >= 2): drawn often
        nsamp = 10 if rnd.random() < 0.25 else rnd.randint(2, 10)
        threads = rnd.choice([2, 4, 8]) if (nsamp == 10 and rnd.random() < 0.8) else rnd.choice([1, 1, 2])
        # small k needs short contigs to be repeat free
        maxlen = {5: 14, 7: 40, 9: 120}.get(k, 300)
        ncontig = rnd.randint(1, 3)
        anc = [rand_genome(rnd, rnd.randint(k, max(k + 1, maxlen))) for _ in range(ncontig)]
        if evals == 0:
            # the first family of every run is large: more than 2048 (thorough: 4096) variable sites, so that
            # anything done per block of rows or columns is exercised across several blocks
            k = rnd.choice([21, 31, 33])
            h = (k - 1) // 2
            nsamp = rnd.randint(3, 4)
            threads = rnd.choice([1, 2])
            anc = [rand_genome(rnd, 110000 if thorough else 56000)]
        fam = [[list(c) for c in anc] for _ in range(nsamp)]
        sites = []
        for ci, c in enumerate(anc):
            p = h + rnd.choice([0, 0, 1, rnd.randint(0, h)])
            while p + h < len(c):
                if rnd.random() < 0.7:
                    alleles = rnd.sample([x for x in "ACGT" if x != c[p]], rnd.randint(1, 2))
                    assign = [rnd.choice([c[p]] + alleles) for _ in range(nsamp)]
                    if len(set(assign)) > 1:
                        for si in range(nsamp):
                            fam[si][ci][p] = assign[si]
                        sites.append((ci, p))
                p += h + 1 + rnd.choice([0, 0, 1, rnd.randint(0, k)])   # > h apart, boundary distance h+1 often
        seqs = [["".join(c) for c in s] for s in fam]
        rc = rnd.random() < 0.7
        if not repeat_free(seqs, k, rc):
            continue
        d = fresh_dir(ctx, "c03cli")
        files = []
        # sample names that are NOT in byte order (a reference first, s10 after s9, mixed case): rows come in input order
        c03names = lo_names(nsamp)
        for si, s in enumerate(seqs):
            recs = list(s)
            order = list(range(len(recs)))
            rnd.shuffle(order)
            recs = [recs[i] for i in order]
            if rc:
                recs = [revcomp(r) if rnd.random() < 0.4 else r for r in recs]
            f = os.path.join(d, f"{c03names[si]}.fa")
            # each sample in its own textual form (wrap width, line endings)
            write_fasta(f, recs, wrap=rnd.choice([None, 60, 70, 80, 11]), crlf=(rnd.random() < 0.4))
            files.append(f)
        # half of the families are handed over through a file list (-f) instead of positional arguments
        use_list = (tries % 2 == 1)
        if use_list:
            lst = os.path.join(d, "inputs.tsv")
            open(lst, "w").write("".join(f"{c03names[si]}\t{files[si]}\n" for si in range(nsamp)))
        # the output prefix as users write it: plain, with dots (a k value, a version), or already ending in .skf
        pref, skf_path = out_prefix(d, "x", tries)
        args = ["build", "-o", pref, "-k", str(k), "--threads", str(threads)] + ([] if rc else ["--single-strand"]) + (["-f", lst] if use_list else files)
        code, out, err = ska(args, d)
        if code != 0:
            return {"summary": {"evaluations": evals, "nontrivial": nontriv}, "violation": {"kind": "c03-family", "what": "build failed", "stderr": err[-300:], "k": k, "threads": threads, "family": seqs}}
        if not os.path.exists(skf_path):
            return {"summary": {"evaluations": evals, "nontrivial": nontriv},
                    "violation": {"kind": "c03-family", "what": f"`ska build -o {os.path.basename(pref)}` did not write {os.path.basename(skf_path)}", "files_written": sorted(x for x in os.listdir(d) if x.endswith('.skf')), "k": k}}
        code, out, err = ska_out(["align", skf_path, "--min-freq", "1", "--threads", str(threads)], d, tries)
        evals += 1
        if code != 0:
            return {"summary": {"evaluations": evals, "nontrivial": nontriv}, "violation": {"kind": "c03-family", "what": "align failed", "stderr": err[-300:], "k": k, "family": seqs}}
        names = [l[1:] for l in out.splitlines() if l.startswith(">")]
        aseqs = [l for l in out.splitlines() if not l.startswith(">")]
        while len(aseqs) < len(names):
            aseqs.append("")
        lens = set(len(x) for x in aseqs)
        cols = sorted("".join(x[i] for x in aseqs) for i in range(len(aseqs[0]))) if aseqs and aseqs[0] else []
        comp = str.maketrans("ACGT", "TGCA")
        def norm(col):
            return min(col, col.translate(comp))
        want = sorted(norm("".join(fam[si][ci][p] for si in range(nsamp))) for (ci, p) in sites)
        got = sorted(norm(c) for c in cols)
        ok = (names == c03names and len(lens) == 1 and got == want
              and (rc or sorted(cols) == sorted("".join(fam[si][ci][p] for si in range(nsamp)) for (ci, p) in sites)))
        if sites:
            nontriv += 1
        if len(samples) < 2 and sites:
            samples.append({"k": k, "rc": rc, "samples": nsamp, "contigs": [len(c) for c in anc], "sites": sites[:8], "columns": cols[:8]})
        if not ok:
            return {"summary": {"evaluations": evals, "nontrivial": nontriv},
                    "violation": {"kind": "c03-family", "what": "alignment is not exactly the planted SNP columns under the sample names in input order", "k": k, "rc": rc, "threads": threads, "sites": sites,
                                  "expected": want, "observed": got, "names": names, "family": seqs}}
        # the default-k path: `ska align <fastas>` builds with k=17, both strands
        if k == 17 and rc:
            code, out2, err = ska(["align"] + files + ["--min-freq", "1", "--threads", str(threads)], d)
            evals += 1
            a2 = [l for l in out2.splitlines() if not l.startswith(">")]
            n2 = [l[1:] for l in out2.splitlines() if l.startswith(">")]
            c2 = sorted(norm("".join(x[i] for x in a2)) for i in range(len(a2[0]))) if a2 and a2[0] else []
            if code != 0 or c2 != want or n2 != c03names:
                return {"summary": {"evaluations": evals, "nontrivial": nontriv},
                        "violation": {"kind": "c03-family", "what": "`ska align <fastas>` differs from the planted SNP columns", "k": k, "sites": sites, "family": seqs}}
    return {"summary": {"evaluations": evals, "nontrivial": nontriv, "families_rejected_by_repeat_check": tries - evals,
                        "what": "repeat-free ancestors (checked), isolated substitutions at the exact boundary distances, 2-10 samples (10 = start of the parallel build, drawn often, threads 1-8), 1-3 contigs permuted / reverse-complemented per sample; expected = exactly the planted columns up to complementing a column; names in input order; equal lengths"},
            "samples": samples}


# ----------------------------------------------------------------------------- C17 / C18

def kmers_unique(seqs, m):
    """all m-mers of all sequences unique on both strands (same m-mer at the same coordinate in
    different samples is the same occurrence)"""
    seen = {}
    for s in seqs:
        for j in range(len(s) - m + 1):
            w = s[j:j + m]
            c = min(w, revcomp(w))
            if w == revcomp(w):
                return False
            if seen.setdefault(c, j) != j:
                return False
    return True


def read_fasta(path):
    out = []
    if not os.path.exists(path):
        return None
    for l in open(path):
        l = l.rstrip("\n")
        if l.startswith(">"):
            out.append([l[1:], ""])
        elif out:
            out[-1][1] += l
    return out


COMP = str.maketrans("ACGT", "TGCA")


def lo_names(n):
    """sample names that are NOT in sorted order (and not in order of length): the order of the
    samples is that of the input files, never that of their names"""
    pool = ["iso_T", "iso_k", "iso_B", "s10", "s2", "iso_Z", "a.9", "Iso_c", "iso_A", "s1", "zz", "iso_m"]
    return pool[:n] if n <= len(pool) else pool + [f"x{99 - i}" for i in range(n - len(pool))]


def lo_names_ok(prefix, names, with_ref):
    """the sample names of every output of ska lo, in input order; returns an error string or None"""
    got = [r[0] for r in (read_fasta(prefix + "_snps.fas") or [])]
    if got != names:
        return f"SNP alignment lists the samples as {got}, input order is {names}"
    files = ["_indels.vcf"] + (["_snps.vcf"] if with_ref else [])
    for sfx in files:
        if not os.path.exists(prefix + sfx):
            continue
        hdr = [l for l in open(prefix + sfx) if l.startswith("#CHROM")]
        cols = hdr[0].rstrip("\n").split("\t")[9:] if hdr else None
        if cols != names:
            return f"{sfx} header lists the samples as {cols}, input order is {names}"
    if with_ref:
        pg = [r[0] for r in (read_fasta(prefix + "_pseudo_genomes.fas") or [])]
        if pg != names:
            return f"pseudo-genomes list the samples as {pg}, input order is {names}"
    return None


def lo_wellformed(prefix, nsamp, max_missing, ref=None, samples=None):
    """well-formedness of the outputs of one `ska lo` run; returns an error string or None"""
    snps = read_fasta(prefix + "_snps.fas")
    if snps is None:
        return "no SNP alignment written"
    if len(snps) != nsamp:
        return f"{len(snps)} sequences for {nsamp} samples"
    L = set(len(s[1]) for s in snps)
    if len(L) != 1:
        return "output sequences differ in length"
    n = L.pop()
    for i in range(n):
        col = "".join(s[1][i] for s in snps)
        if len(set(col) & set("ACGT")) < 2:
            return f"column {i} '{col}' has fewer than two A/C/G/T alleles"
        missing = sum(1 for ch in col if ch not in "ACGT")
        if missing / nsamp > max_missing + 1e-6:
            return f"column {i} '{col}' has {missing}/{nsamp} missing samples (> {max_missing})"
    if ref is not None:
        pg = read_fasta(prefix + "_pseudo_genomes.fas")
        vcf = [l.rstrip("\n").split("\t") for l in open(prefix + "_snps.vcf") if not l.startswith("#")]
        if pg is None or len(pg) != nsamp or any(len(p[1]) != len(ref) for p in pg):
            return "pseudo-genomes missing or of wrong length"
        if len(vcf) != n:
            return f"{len(vcf)} VCF records for {n} alignment columns"
        called = {}
        for ri, f in enumerate(vcf):
            pos = int(f[1]) - 1
            refb, alts = f[3], ([] if f[4] == "" else f[4].split(","))
            if refb != (ref[pos] if ref[pos] in "ACGTN" else "N"):
                return f"VCF REF {refb} at {pos+1} is not the reference base {ref[pos]}"
            col = "".join(s[1][ri] for s in snps)
            for si, g in enumerate(f[9:]):
                dec = "." if g == "." else (refb if g == "0" else alts[int(g) - 1])
                want = "." if col[si] in "-N" else col[si]
                if dec != want:
                    return f"VCF genotype of sample {si} at {pos+1} decodes to {dec}, alignment has {col[si]}"
            called[pos] = col
        for si, p in enumerate(pg):
            for pos, ch in enumerate(p[1]):
                want = called[pos][si] if pos in called else (ref[pos] if ref[pos] in "ACGTN" else "N")
                if ch != want:
                    return f"pseudo-genome of sample {si} at {pos+1} is {ch}, expected {want}"
    return None


def plant_family(rnd, k, nsamp, L, nsites, min_gap, kind="snp"):
    base = rand_genome(rnd, L)
    lo, hi = min_gap, L - min_gap
    sites = []
    p = lo + rnd.randint(0, k)
    while p < hi and len(sites) < nsites:
        sites.append(p)
        p += min_gap + rnd.randint(0, 2 * k)
    return base, sites


LO_SYMS = "ACGT" * 5 + "-" * 3 + "RYSWKMN"


def run_lo_pipe(ctx, line):
    """one `lo_pipe` case in a process of its own (`build_graph` initialises the global pool once;
    `identify_good_kmers` ends the process when the graph has no entry node)"""
    sd = os.path.join(ctx.scratch, "impl-lopipe")
    p = subprocess.run([core.SKAH, "run", sd], input=(line + "\n").encode(), stdout=subprocess.PIPE,
                       stderr=subprocess.PIPE, env=core.ENV, timeout=600)
    shutil.rmtree(sd, ignore_errors=True)
    out = p.stdout.decode("utf-8", "replace").splitlines()
    if out and out[-1].startswith("lo_pipe-stage"):
        return "no-entry" if p.returncode == 1 else f"died rc={p.returncode}"
    return out[-1] if out else f"died rc={p.returncode}"


def lo_pipe_stream(ctx, rnd, nfam, nrand, flavour):
    """the reference-free `ska lo` pipeline, in-process (entry nodes, variant groups recorded by the
    hook, SNP columns and indel records as written) against the model, on tables built by `ska build`
    from families with SNPs and indels at random distances and on dense random tables.
    -> (evaluations, kinds, violation or None)"""
    evals = 0
    kinds = {"family": 0, "random": 0, "with-reference": 0, "no-entry": 0, "snp-groups": 0, "indel-groups": 0, "columns": 0, "records": 0}
    cases = []
    for it in range(nfam):
        k = rnd.choice([7, 9, 11, 15, 21, 31, 33])
        nsamp = rnd.randint(2, 7)
        L = {7: 60, 9: 120, 11: 200}.get(k, 320)
        base = rand_genome(rnd, L)
        seqs = [list(base) for _ in range(nsamp)]
        for _ in range(rnd.randint(1, 6)):
            pos = rnd.randrange(k, L - k)
            kind = rnd.random()
            car = rnd.sample(range(nsamp), rnd.randint(1, nsamp - 1))
            if kind < (0.75 if flavour == "snp" else 0.35):
                alt = rnd.choice([c for c in "ACGT" if c != base[pos]])
                for c in car:
                    seqs[c][pos] = alt
            elif kind < (0.9 if flavour == "snp" else 0.7):
                ins = rand_genome(rnd, rnd.randint(1, 8))
                for c in car:
                    seqs[c][pos] = ins + seqs[c][pos]
            else:
                for c in car:
                    for j in range(pos, min(L - k, pos + rnd.randint(1, 6))):
                        seqs[c][j] = ""
        d = fresh_dir(ctx, "lopipe")
        files = []
        # one family in four is a single-strand build with the samples in different orientations:
        # the two strands of a k-mer are then separate rows and their sample sets are merged
        single = rnd.random() < 0.25
        for i, sq in enumerate(seqs):
            f = os.path.join(d, f"s{i}.fa")
            write_fasta(f, [revcomp("".join(sq)) if (single and rnd.random() < 0.5) else "".join(sq)])
            files.append(f)
        info = build_and_nk(ctx, d, k, not single, files)
        if info["status"] != "ok":
            continue
        names, table = nk_table(info)
        w = 64 if k <= 31 else 128
        tt = ",".join(names) + "|" + ",".join(f"{a}:{b}" for a, b in table.items())
        line = (f"lo_pipe w={w} k={k} rc={0 if single else 1} table={tt} m={rnd.choice(['0/1', '1/10', '1/4', '1/2', '1/1'])} "
                f"depth={rnd.choice([0, 1, 2, 4, 4])} ik={rnd.choice([0, 2, 2, 3])}")
        if rnd.random() < 0.5:
            # with a reference: the ancestor, possibly on the other strand, case-masked, with an
            # ambiguous letter, or with a duplicated stretch (k-mers at several positions)
            g = base
            if rnd.random() < 0.3:
                g = revcomp(g)
            if rnd.random() < 0.3:
                g = "".join(c.lower() if rnd.random() < 0.3 else c for c in g)
            if rnd.random() < 0.3:
                q = rnd.randrange(len(g))
                g = g[:q] + rnd.choice("NRn") + g[q + 1:]
            if rnd.random() < 0.2:
                q = rnd.randrange(len(g))
                g = g[:q] + g[q:q + 40] + g[q:]
            line += f" ref={g}"
            kinds["with-reference"] += 1
        cases.append(("family", line))
    for it in range(nrand):
        k = rnd.choice([5, 5, 7, 9])
        nsamp = rnd.randint(1, 5)
        rows = {}
        for _ in range(rnd.randint(2, 40 if k > 5 else 120)):
            arms = rand_genome(rnd, k - 1)
            if arms == revcomp(arms):
                continue
            cells = [rnd.choice(LO_SYMS) for _ in range(nsamp)]
            if all(c == "-" for c in cells):
                cells[0] = "A"
            rows[min(pack(arms), pack(revcomp(arms)))] = "".join(cells)
        if not rows:
            continue
        tt = ",".join(f"s{i}" for i in range(nsamp)) + "|" + ",".join(f"{a}:{b}" for a, b in rows.items())
        cases.append(("random", f"lo_pipe w=64 k={k} rc=1 table={tt} m={rnd.choice(['0/1', '1/10', '1/2', '1/1'])} "
                                f"depth={rnd.choice([0, 1, 2, 4])} ik={rnd.choice([0, 2, 3])}"))
    models = core.run_model(ctx, [c[1] for c in cases]) if cases else []
    for (kind, line), (m, s) in zip(cases, models):
        r = run_lo_pipe(ctx, line)
        evals += 1
        kinds[kind] += 1
        if r == "no-entry":
            kinds["no-entry"] += 1
        else:
            parts = dict(x.split("=", 1) for x in r.split(" ") if "=" in x)
            for key, name in (("sg", "snp-groups"), ("ig", "indel-groups"), ("cols", "columns"), ("recs", "records")):
                if parts.get(key, "~") != "~":
                    kinds[name] += 1
        if r != m or (s != "-" and r != s):
            which = "the model" if r != m else "the model run on the reversed group lists (order independence)"
            return evals, kinds, {"what": "the ska lo pipeline (entry nodes / variant groups / SNP columns / indel records) differs from " + which,
                                  "model_case": line, "code": r[:1500], "model": (m if r != m else s)[:1500]}
    return evals, kinds, None


def c17_cli(ctx, broken):
    rnd = random.Random(ctx.seed * 122949829 + 61)
    thorough = ctx.tier == "thorough"
    evals = nontriv = 0
    samples = []
    known_hits = []
    known_sigs = {k["sig"]: k["text"] for k in core.load_known() if k["property"] == "C17"}

    def viol(what, **kw):
        kw.update({"kind": "c17", "what": what})
        return {"summary": {"evaluations": evals, "nontrivial": nontriv}, "violation": kw}

    # 1. build_graph against the model (one process per case: build_graph initialises the global pool)
    for _ in range(150 if thorough else 25):
        k = rnd.choice([5, 7, 9, 15, 31, 33])
        w = 64 if k <= 31 else 128
        # canonical, non-palindromic keys (what a real build stores): every full k-mer then comes from one row
        nsamp = rnd.randint(1, 5)
        rows = {}
        for _r in range(rnd.randint(1, 12)):
            arms = rand_genome(rnd, k - 1)
            if arms == revcomp(arms):
                continue
            key = min(pack(arms), pack(revcomp(arms)))
            cells = [rnd.choice(SYMS) for _ in range(nsamp)]
            if all(c == "-" for c in cells):
                cells[0] = "A"
            rows[key] = "".join(cells)
        if not rows:
            continue
        table = ",".join(f"s{i}" for i in range(nsamp)) + "|" + ",".join(f"{a}:{b}" for a, b in rows.items())
        line = f"lo_graph w={w} k={k} rc=1 table={table}"
        r = core.run_impl(ctx, [line], "c17g")[0]
        m, _ = core.run_model(ctx, [line])[0]
        evals += 1
        if r != m:
            return viol("build_graph differs from the (k-1)-mer graph of the table on both strands", model_case=line, code=r[:600], model=m[:600])
    # 1b. the whole reference-free pipeline against the model
    pe, pipe_kinds, pv = lo_pipe_stream(ctx, rnd, 1500 if thorough else 100, 1000 if thorough else 60, "snp")
    evals += pe
    nontriv += pe - pipe_kinds["no-entry"]
    if pv:
        return viol(pv.pop("what"), **pv)
    # 1c. regression: a split k-mer with self-complementary arms (CGTCG) on the bubble of an isolated
    # SNP used to store its edges twice, a fake branching that used up the path depth (-d 0/1 missed the SNP)
    d = fresh_dir(ctx, "c17pal")
    pal = ["GAATAAGCGTCGGAGGCGAAG", "GAATAAGCGTAGGAGGCGAAG"]
    for i, sq in enumerate(pal):
        write_fasta(os.path.join(d, f"p{i}.fa"), [sq])
    ska(["build", "-o", os.path.join(d, "x"), "-k", "5", os.path.join(d, "p0.fa"), os.path.join(d, "p1.fa")], d)
    for depth in ("0", "1", "4"):
        code, out, err = ska(["lo", os.path.join(d, "x.skf"), os.path.join(d, "o" + depth), "-d", depth], d)
        evals += 1
        got = lo_free_canon(os.path.join(d, "o" + depth))["snps"] if code == 0 else None
        if got != ["CA"]:
            return viol("isolated SNP next to a self-complementary split k-mer not called exactly once", depth=depth, k=5, samples=pal, observed=got)
    # 2. planted isolated-SNP families
    nfam = 200 if thorough else 16
    done = tries = 0
    while done < nfam and tries < 30 * nfam:
        tries += 1
        use_ref = rnd.random() < 0.5
        k = rnd.choice([15, 17, 21, 31, 33] if use_ref else [7, 9, 11, 15, 21, 31, 33])
        nsamp = rnd.randint(3, 10)
        L = {7: 60, 9: 150, 11: 400}.get(k, 700)
        base, sites = plant_family(rnd, k, nsamp, L, rnd.randint(1, 6), 2 * k + 1)
        if not sites:
            continue
        fam = [list(base) for _ in range(nsamp)]
        truth = {}
        for p in sites:
            alleles = [base[p]] + rnd.sample([x for x in "ACGT" if x != base[p]], rnd.randint(1, 2))
            assign = [rnd.choice(alleles) for _ in range(nsamp)]
            if len(set(assign)) < 2:
                assign[0] = alleles[0]
                assign[1] = alleles[1]
            for si in range(nsamp):
                fam[si][p] = assign[si]
            truth[p] = "".join(assign)
        seqs = ["".join(s) for s in fam]
        if not kmers_unique(seqs + [base], k - 1):
            continue
        done += 1
        d = fresh_dir(ctx, "c17cli")
        files = []
        snames = lo_names(len(seqs))
        for si, s in enumerate(seqs):
            f = os.path.join(d, f"{snames[si]}.fa")
            write_fasta(f, [revcomp(s) if rnd.random() < 0.3 else s])
            files.append(f)
        refpath = write_ref_variant(rnd, d, base)
        threads = rnd.choice([1, 2, 4, 8])
        code, out, err = ska(["build", "-o", os.path.join(d, "x"), "-k", str(k)] + files, d)
        # complete samples: any -m (incl. 0: "no missing data allowed") must give the same truth
        mval = rnd.choice(["0", "0.1", "0.25", "1"])
        # isolated SNPs are single bubbles: any path depth, also 0, must find them
        depth = rnd.choice(["0", "1", "4", "4"])
        args = ["lo", os.path.join(d, "x.skf"), os.path.join(d, "o"), "--threads", str(threads), "-m", mval, "-d", depth] + (["-r", refpath] if use_ref else [])
        code, out, err = ska(args, d)
        evals += 1
        if code != 0:
            return viol("ska lo failed on a planted family", stderr=err[-300:], k=k, sites=sites, genome=base, samples=seqs)
        wf = lo_wellformed(os.path.join(d, "o"), nsamp, 0.1, base if use_ref else None) or lo_names_ok(os.path.join(d, "o"), snames, use_ref)
        if wf:
            return viol("ill-formed output: " + wf, k=k, sites=sites, genome=base, samples=seqs, use_ref=use_ref)
        snps = read_fasta(os.path.join(d, "o_snps.fas"))
        cols = ["".join(s[1][i] for s in snps) for i in range(len(snps[0][1]))]
        norm = lambda c: min(c, c.translate(COMP))
        if use_ref:
            vcf = [l.split("\t") for l in open(os.path.join(d, "o_snps.vcf")) if not l.startswith("#")]
            got = {int(f[1]) - 1: cols[i] for i, f in enumerate(vcf)}
            # a site at which no sample carries the reference allele gets only 4 k-mer votes in
            # scan_variants (< 10) and is dropped "w/o position": recorded finding, reported as such
            unpositionable = {p for p in truth if base[p] not in truth[p]}
            dropped = {p for p in unpositionable if p not in got}
            if dropped and "lo-ref-unpositioned" in known_sigs:
                known_hits.append("lo-ref-unpositioned: " + known_sigs["lo-ref-unpositioned"][:160])
                got.update({p: truth[p] for p in dropped})
            if got != truth:
                return viol("with a reference: reported SNPs are not exactly the planted sites with the true alleles", k=k, threads=threads,
                            expected={str(a): b for a, b in truth.items()}, observed={str(a): b for a, b in got.items()}, genome=base, samples=seqs, use_ref=True)
        else:
            if sorted(norm(c) for c in cols) != sorted(norm(c) for c in truth.values()):
                return viol("reference-free: columns are not exactly the planted sites (up to order and strand)", k=k, threads=threads,
                            expected=sorted(truth.values()), observed=sorted(cols), genome=base, samples=seqs, use_ref=False)
        nontriv += 1
        if len(samples) < 2:
            samples.append({"k": k, "samples": nsamp, "sites": sites, "reference": use_ref, "threads": threads, "columns": cols[:6]})
    # 3. well-formedness on arbitrary inputs: close SNPs, indels, missing data, other -m
    for it in range(150 if thorough else 14):
        k = rnd.choice([9, 11, 15, 21, 31])
        nsamp = rnd.randint(3, 9)
        L = {9: 150, 11: 300}.get(k, 500)
        base = rand_genome(rnd, L)
        seqs = []
        for si in range(nsamp):
            s = list(mutate(rnd, base, rnd.randint(0, 8)))
            for _ in range(rnd.randint(0, 2)):
                p = rnd.randrange(len(s))
                if rnd.random() < 0.5:
                    del s[p:p + rnd.randint(1, 6)]
                else:
                    s[p:p] = list(rand_genome(rnd, rnd.randint(1, 6)))
            if rnd.random() < 0.3:
                a = rnd.randrange(len(s))
                s = s[:a] + s[a + rnd.randint(10, 60):]      # missing data
            seqs.append("".join(s))
        d = fresh_dir(ctx, "c17wf")
        files = []
        for si, s in enumerate(seqs):
            f = os.path.join(d, f"s{si}.fa")
            write_fasta(f, [s])
            files.append(f)
        write_fasta(os.path.join(d, "ref.fa"), [base], names=["g"])
        m = rnd.choice([0.0, 0.1, 0.3, 0.5])
        use_ref = rnd.random() < 0.5 and k >= 15
        ska(["build", "-o", os.path.join(d, "x"), "-k", str(k)] + files, d)
        code, out, err = ska(["lo", os.path.join(d, "x.skf"), os.path.join(d, "o"), "-m", str(m)] + (["-r", os.path.join(d, "ref.fa")] if use_ref else []), d)
        evals += 1
        if code != 0:
            if "no entry node" in err:
                continue
            return viol("ska lo failed on an arbitrary family", stderr=err[-300:], k=k, genome=base, samples=seqs)
        wf = lo_wellformed(os.path.join(d, "o"), nsamp, m, base if use_ref else None)
        if wf:
            return viol("ill-formed output on an arbitrary input: " + wf, k=k, m=m, genome=base, samples=seqs, use_ref=use_ref)
        nontriv += 1
    return {"known": sorted(set(known_hits)),
            "summary": {"evaluations": evals, "nontrivial": nontriv, "families_rejected_by_uniqueness_check": tries - done, "known_finding_hits": len(known_hits),
                        "pipeline_vs_model": pipe_kinds,
                        "what": "build_graph vs model; the reference-free pipeline in-process vs model (entry nodes, variant groups, SNP columns, indel records) on ska-build tables of families with SNPs/indels at random distances and on dense random tables; planted isolated-SNP families ((k-1)-mers unique on both strands, SNPs >= 2k apart and from the ends) with and without reference, threads 1-8: exact truth; arbitrary families (close SNPs, indels, missing data, several -m): well-formedness of alignment, VCF and pseudo-genomes"},
            "samples": samples}


def c18_cli(ctx, broken):
    rnd = random.Random(ctx.seed * 141650939 + 71)
    thorough = ctx.tier == "thorough"
    evals = nontriv = 0
    samples = []
    planted_total = found_total = 0

    def viol(what, **kw):
        kw.update({"kind": "c18", "what": what})
        return {"summary": {"evaluations": evals, "nontrivial": nontriv}, "violation": kw}

    # the whole reference-free pipeline against the model, indel-rich families
    pe, pipe_kinds, pv = lo_pipe_stream(ctx, rnd, 1500 if thorough else 100, 400 if thorough else 30, "indel")
    evals += pe
    nontriv += pe - pipe_kinds["no-entry"]
    if pv:
        return viol(pv.pop("what"), **pv)
    nfam = 150 if thorough else 16
    done = tries = 0
    while done < nfam and tries < 30 * nfam:
        tries += 1
        k = rnd.choice([11, 15, 21, 31])
        nsamp = rnd.randint(3, 8)
        L = {11: 350}.get(k, 800)
        base = rand_genome(rnd, L)
        nind = rnd.randint(1, 3)
        sites = []
        p = 4 * k + rnd.randint(0, k)
        while p < L - 4 * k and len(sites) < nind:
            sites.append(p)
            p += 4 * k + rnd.randint(0, 3 * k)
        if not sites:
            continue
        indels = []
        for p in sites:
            ln = rnd.randint(1, 10)
            carriers = set(rnd.sample(range(nsamp), rnd.randint(1, nsamp - 1)))
            if rnd.random() < 0.5:
                indels.append((p, "del", ln, carriers, base[p:p + ln]))
            else:
                indels.append((p, "ins", ln, carriers, rand_genome(rnd, ln)))
        seqs = []
        for si in range(nsamp):
            s = base
            for (p, kind, ln, carriers, seq) in sorted(indels, reverse=True):
                if si in carriers:
                    s = (s[:p] + s[p + ln:]) if kind == "del" else (s[:p] + seq + s[p:])
            seqs.append(s)
        if not kmers_unique(seqs, k - 1) and False:
            continue
        # uniqueness is checked per sample (coordinates shift between samples)
        if not all(kmers_unique([s], k - 1) for s in seqs):
            continue
        done += 1
        # every other family gets a strain mixture: one more sample whose file holds the sequences of two of the
        # others as two records - it carries both alleles wherever those two differ and must be genotyped 0/1 there
        mix = None
        if done % 2 == 0 and nsamp >= 3:
            ma, mb = rnd.sample(range(nsamp), 2)
            mix = (ma, mb)
            seqs.append(seqs[ma] + "|" + seqs[mb])
            indels = [(p, kind, ln, set(carriers) | ({nsamp} if (ma in carriers or mb in carriers) else set()), seq) for (p, kind, ln, carriers, seq) in indels]
            mix_non = [not (ma in c0 and mb in c0) for (_, _, _, c0, _) in [(p, kd, ln, c - {nsamp}, sq) for (p, kd, ln, c, sq) in indels]]
            nsamp += 1
        d = fresh_dir(ctx, "c18cli")
        files = []
        snames = lo_names(len(seqs))
        for si, s in enumerate(seqs):
            f = os.path.join(d, f"{snames[si]}.fa")
            write_fasta(f, s.split("|"))
            files.append(f)
        ska(["build", "-o", os.path.join(d, "x"), "-k", str(k)] + files, d)
        threads = rnd.choice([1, 2, 4])
        code, out, err = ska(["lo", os.path.join(d, "x.skf"), os.path.join(d, "o"), "--threads", str(threads), "-m", "0.5"], d)
        evals += 1
        if code != 0:
            if "no entry node" in err:
                continue
            return viol("ska lo failed on a planted-indel family", stderr=err[-300:], k=k, samples=seqs)
        nm = lo_names_ok(os.path.join(d, "o"), snames, False)
        if nm:
            return viol("sample columns are not in input order: " + nm, k=k, samples=seqs)
        # the same file with another thread count: every row of the file must reach the graph whatever the split
        t2 = rnd.choice([t for t in (1, 2, 3, 4) if t != threads])
        code2, out2, err2 = ska(["lo", os.path.join(d, "x.skf"), os.path.join(d, "o2"), "--threads", str(t2), "-m", "0.5"], d)
        evals += 1
        if code2 != 0 or lo_free_canon(os.path.join(d, "o2")) != lo_free_canon(os.path.join(d, "o")):
            return viol("ska lo reports other indels / SNPs with another thread count", threads=[threads, t2], exit=code2, k=k, samples=seqs,
                        first=str(lo_free_canon(os.path.join(d, "o")))[:500], second=str(lo_free_canon(os.path.join(d, "o2")) if code2 == 0 else None)[:500])
        recs = [l.rstrip("\n").split("\t") for l in open(os.path.join(d, "o_indels.vcf")) if not l.startswith("#")]
        planted_total += len(indels)
        matched = set()
        for f in recs:
            refa, alta = f[3], f[4]
            info = dict(x.split("=") for x in f[6].split(";"))   # the code writes before/after in the FILTER column
            before, after = info["before"], info["after"]
            gts = f[9:]
            alle = {"0": before + ("" if refa == "-" else refa) + after, "1": before + ("" if alta == "-" else alta) + after}
            has = lambda s, a: (a in s) or (revcomp(a) in s)
            for si, g in enumerate(gts):
                in0, in1 = has(seqs[si], alle["0"]), has(seqs[si], alle["1"])
                if g == "0" and not in0 or g == "1" and not in1 or g == "0/1" and not (in0 and in1):
                    return viol("a sample is genotyped for an allele it does not carry", record=f[:9], sample=si, genotype=g, k=k, samples=seqs)
            set0 = {si for si in range(nsamp) if has(seqs[si], alle["0"])}
            set1 = {si for si in range(nsamp) if has(seqs[si], alle["1"])}
            if set0 != {si for si, g in enumerate(gts) if g in ("0", "0/1")} or set1 != {si for si, g in enumerate(gts) if g in ("1", "0/1")}:
                return viol("the genotyped sample sets are not exactly the carriers of REF / ALT", record=f[:9], carriers0=sorted(set0), carriers1=sorted(set1), genotypes=gts, k=k, samples=seqs)
            # which planted indel is it? carriers of the shorter allele = deletion carriers / non-insertion carriers
            cands = []
            insert = refa if alta == "-" else alta
            for ii, (p, kind, ln, carriers, seq) in enumerate(indels):
                non_carriers = set(range(nsamp)) - carriers
                if mix is not None and mix_non[ii]:
                    non_carriers.add(nsamp - 1)        # the mixture also holds the other allele
                short_carriers = carriers if kind == "del" else non_carriers
                short = "0" if len(alle["0"]) < len(alle["1"]) else "1"
                got_short = set0 if short == "0" else set1
                if abs(len(alle["0"]) - len(alle["1"])) == ln and got_short == short_carriers:
                    # two planted indels can share length and carriers: tell them apart by the inserted / deleted
                    # letters (up to the rotation a sliding indel allows, either strand)
                    rots = {seq[i:] + seq[:i] for i in range(len(seq))}
                    same_letters = insert in rots or revcomp(insert) in rots
                    cands.append((not same_letters, ii))
            if not cands:
                return viol("a reported indel corresponds to no planted indel", record=f[:9], planted=[(p, kd, ln, sorted(c)) for (p, kd, ln, c, _) in indels], k=k, samples=seqs)
            free = [ii for (_, ii) in sorted(cands) if ii not in matched]
            if not free:
                return viol("an indel is reported twice", record=f[:9], k=k, samples=seqs)
            matched.add(free[0])
        found_total += len(matched)
        nontriv += 1
        if len(samples) < 2:
            samples.append({"k": k, "samples": nsamp, "planted": [(p, kd, ln) for (p, kd, ln, _, _) in indels], "reported": len(recs), "threads": threads})
    # a second run under the same output prefix, on samples that differ by one SNP only: whatever the indel VCF
    # holds afterwards must describe THESE samples (an earlier run's records are not real differences here)
    if done:
        k2 = 15
        base2 = rand_genome(rnd, 300)
        snp = rnd.randrange(4 * k2, 300 - 4 * k2)
        alt2 = rnd.choice([x for x in "ACGT" if x != base2[snp]])
        seqs2 = [base2, base2[:snp] + alt2 + base2[snp + 1:], base2, base2[:snp] + alt2 + base2[snp + 1:]]
        if all(kmers_unique([s_], k2 - 1) for s_ in seqs2):
            files2 = []
            for si, s_ in enumerate(seqs2):
                f = os.path.join(d, f"second{si}.fa")
                write_fasta(f, [s_])
                files2.append(f)
            ska(["build", "-o", os.path.join(d, "y"), "-k", str(k2)] + files2, d)
            code, out, err = ska(["lo", os.path.join(d, "y.skf"), os.path.join(d, "o"), "-m", "0.5"], d)
            evals += 1
            if code == 0 and os.path.exists(os.path.join(d, "o_indels.vcf")):
                stale = [l.rstrip("\n").split("\t") for l in open(os.path.join(d, "o_indels.vcf")) if not l.startswith("#")]
                hdr = [l for l in open(os.path.join(d, "o_indels.vcf")) if l.startswith("#CHROM")]
                cols = hdr[0].rstrip("\n").split("\t")[9:] if hdr else []
                if stale or cols != [f"second{i}" for i in range(4)]:
                    return viol("after a second `ska lo` run under the same prefix the indel VCF does not describe the second run's samples (which differ by one SNP: no indel record, their names in the header)",
                                records=[x[:9] for x in stale[:3]], header_samples=cols, k=k2, samples=seqs2)
                nontriv += 1
    recall = found_total / planted_total if planted_total else 1.0
    res = {"summary": {"evaluations": evals, "nontrivial": nontriv, "pipeline_vs_model": pipe_kinds, "planted": planted_total, "reported_and_matched": found_total, "recall": round(recall, 3),
                       "what": "planted isolated indels (length 1-10, >= 4k apart, (k-1)-mers unique per sample), k in {11,15,21,31}, 3-8 samples, threads 1-4: every record checked by substring search in the samples (carriers exact, no wrong genotype, one planted indel each, none twice), recall >= 90% overall"},
           "samples": samples}
    if planted_total >= 20 and recall < 0.9:
        res["violation"] = {"kind": "c18", "what": f"only {found_total} of {planted_total} planted indels reported (< 90%)"}
    return res


# ----------------------------------------------------------------------------- histories through the CLI

CLI_FT = {"nofilter": "no-filter", "noconst": "no-const", "noambig": "no-ambig", "noambigorconst": "no-ambig-or-const"}


def nk_dump(d, path):
    code, out, err = ska(["nk", "--full-info", path], d)
    if code != 0:
        return None, None
    info = parse_nk(out)
    rows = ",".join(f"{k}:{''.join(v)}" for k, v in sorted(info["rows"].items())) or "~"
    names = ",".join(info.get("names", [])) or "~"
    dump = f"k={info['k']},rc={1 if info['rc'] == 'true' else 0},names={names};rows={rows}"
    counts = ",".join(str(x) for x in info.get("counts", [])) or "~"
    return dump, counts


def ska_out(args, d, style, extra=None):
    """run a subcommand that prints its result: to stdout, or (odd style) to a file given with -o,
    which must then hold the result and stdout must not"""
    args = args + (extra or [])
    if style % 2 == 0:
        return ska(args, d)
    outp = os.path.join(d, f"out_{style}.txt")
    # the output file already exists and is long: the new result must replace it, not overlay it
    open(outp, "w").write(">stale\n" + "STALE-CONTENT-OF-AN-EARLIER-RUN\tx\ty\t1\t2\n" * 4000)
    code, out, err = ska(args + ["-o", outp], d)
    text = open(outp).read() if os.path.exists(outp) else ""
    if out.strip():
        text = "STDOUT-NOT-EMPTY\n" + out + text
    return code, text, err


def out_prefix(d, stem, style):
    """an output prefix for merge / delete and the file it must produce: plain, with dots in the
    name (`.skf` is appended, nothing is replaced), or already ending in .skf"""
    name = [stem, stem + ".part.1", stem + ".skf", stem + ".v2.final"][style % 4]
    pref = os.path.join(d, name)
    return pref, (pref if name.endswith(".skf") else pref + ".skf")


def freq_text(t, n, style, rounding):
    """a --min-freq value, as typed text, for which the code's own formula (ceil or floor of
    n * f in double arithmetic, which Python shares) gives the sample threshold t: the decimal
    fractions a user types, on and next to the rounding boundaries, not only mid-interval values"""
    fn = math.ceil if rounding == "ceil" else math.floor
    if t == 0 and rounding == "ceil":
        return "0"
    if n == 0:
        return "0"
    cands = []
    for digits in (1, 2, 3):
        for x in range(0, 10 ** digits + 1):
            txt = f"{x / 10 ** digits:.{digits}f}"
            if fn(n * float(txt)) == t:
                cands.append(txt)
                break                      # the smallest value of this precision
        for x in range(10 ** digits, -1, -1):
            txt = f"{x / 10 ** digits:.{digits}f}"
            if fn(n * float(txt)) == t:
                cands.append(txt)
                break                      # the largest value of this precision
    mid = min(1.0, (t - 0.5) / n) if rounding == "ceil" else min(1.0, (t + 0.5) / n)
    if fn(n * mid) == t:
        cands.append(repr(mid))
    if not cands:
        return repr(mid)
    return cands[style % len(cands)]


def hist_via_cli(ctx, line):
    """execute one `hist` case line through the ska binary; returns the canonical result string"""
    kv = kvs(line)
    w, k, rc = kv["w"], int(kv["k"]), kv["rc"] == "1"
    d = fresh_dir(ctx, "histcli")
    # a saved file is a saved file whatever it is called: half of the histories keep theirs under a name without .skf
    cur = os.path.join(d, "cur.skf" if sum(line.encode()) % 2 == 0 else "current_table")
    core.run_impl(ctx, [f"mkskf w={w} k={k} rc={kv['rc']} table={kv['start']} out={cur}"], "mk")
    step = 0
    names_style = sum(line.encode()) % 2
    blank_style = sum(line.encode()) % 7      # where blank lines go in a names file
    if kv["ops"] != "~":
        for op in kv["ops"].split(";"):
            step += 1
            f = op.split("/")
            before = open(cur, "rb").read()
            if f[0] == "merge":
                ok_, orc = (int(f[2]) if len(f) > 2 else k), (f[3] if len(f) > 3 else kv["rc"])
                wo = 64 if ok_ <= 31 else 128
                if ok_ == k:
                    wo = w
                # file names in and out of byte order relative to `cur.skf`: argument order, not path order, decides
                other = os.path.join(d, f"{'abxz'[(blank_style + step) % 4]}other{step}.skf")
                core.run_impl(ctx, [f"mkskf w={wo} k={ok_} rc={orc} table={f[1]} out={other}"], "mk")
                pref, want = out_prefix(d, f"m{step}", blank_style + step)
                # `-o` before, between or after the file names
                margs = [["merge", cur, other, "-o", pref], ["merge", "-o", pref, cur, other], ["merge", cur, "-o", pref, other]][(blank_style + step) % 3]
                code, out, err = ska(margs, d)
                if code == 0:
                    if not os.path.exists(want):
                        return f"step{step}:output-not-at-{os.path.basename(want)}"
                    os.replace(want, cur)
            elif f[0] == "mergen":
                others = []
                for i, t in enumerate(f[1].split("&")):
                    other = os.path.join(d, f"{'zxba'[(blank_style + step + i) % 4]}other{step}_{9 - i}.skf")
                    core.run_impl(ctx, [f"mkskf w={w} k={k} rc={kv['rc']} table={t} out={other}"], "mk")
                    others.append(other)
                pref, want = out_prefix(d, f"m{step}", blank_style + step)
                margs = [["merge", cur] + others + ["-o", pref], ["merge", cur, others[0], "-o", pref] + others[1:], ["merge", cur, "-o", pref] + others][(blank_style + step) % 3]
                code, out, err = ska(margs, d)
                if code == 0:
                    if not os.path.exists(want):
                        return f"step{step}:output-not-at-{os.path.basename(want)}"
                    os.replace(want, cur)
            elif f[0] == "delete":
                names = [] if f[1] == "~" else f[1].split("+")
                names_style += 1
                if not names:
                    code = 1   # clap refuses an empty name list: nothing to run
                elif names_style % 2 == 0:
                    nf = os.path.join(d, f"names{step}.txt")
                    # one name per line; blank lines anywhere in the file carry no name and are skipped
                    lines = []
                    for i, nm in enumerate(names):
                        if blank_style in (1, 2) and i > 0:
                            lines.append("" if blank_style == 1 else "  \t")     # interior blank / whitespace-only line
                        if blank_style == 3 and i == 0:
                            lines.append("")                                      # leading blank line
                        lines.append(nm + ("\tignored_second_field" if blank_style == 4 else ""))
                    open(nf, "w").write("\n".join(lines) + ("\n\n" if blank_style == 5 else "\n"))
                    dargs = ["-f", nf]
                else:
                    dargs = names
                if names:
                    if (blank_style + step) % 3 == 0:
                        # to another file: the input stays as it is
                        pref, want = out_prefix(d, f"del{step}", blank_style + step + 1)
                        code, out, err = ska(["delete", "-s", cur, "-o", pref] + dargs, d)
                        if code == 0:
                            if not os.path.exists(want):
                                return f"step{step}:output-not-at-{os.path.basename(want)}"
                            if open(cur, "rb").read() != before:
                                return f"step{step}:input-changed-although-o-given"
                            os.replace(want, cur)
                    else:
                        code, out, err = ska(["delete", "-s", cur] + dargs, d)
                        # `ska delete` without -o writes to the input name with `.skf` appended unless it ends so
                        # already: for a file kept under a suffix-less name the result is next to it
                        if code == 0 and not cur.endswith(".skf") and os.path.exists(cur + ".skf"):
                            os.replace(cur + ".skf", cur)
            elif f[0] == "weed":
                args = ["weed", cur]
                if f[1] != "~":
                    wf = os.path.join(d, f"weed{step}.fa")
                    wrecs = f[1].split("+")
                    # record names are labels, not keys: in some files every record has the same first word
                    wnames = [f"IS1 copy_{i}" for i in range(len(wrecs))] if (blank_style + step) % 2 == 0 else None
                    write_fasta(wf, wrecs, names=wnames, wrap=[None, 11, 60][(blank_style + step) % 3], crlf=((blank_style + step) % 2 == 1))
                    args.append(wf)
                code, out, err = ska(["nk", cur], d)
                n = len(parse_nk(out).get("names", []))
                tf = int(f[3])
                mf = freq_text(tf, n, blank_style + step, "floor")
                args += ["--min-freq", mf, "--filter", CLI_FT[f[5]]]
                if f[2] == "1":
                    args.append("--reverse")
                if f[4] == "1":
                    args.append("--filter-ambig-as-missing")
                if f[6] == "1":
                    args.append("--ambig-mask")
                if f[7] == "1":
                    args.append("--no-gap-only-sites")
                if (blank_style + step) % 3 == 1:
                    # to another file (weed takes the name literally): the input stays as it is
                    wout = os.path.join(d, f"weeded{step}.out.v1")
                    code, out, err = ska(args + ["-o", wout], d)
                    if code == 0:
                        if not os.path.exists(wout):
                            return f"step{step}:output-not-at-{os.path.basename(wout)}"
                        if open(cur, "rb").read() != before:
                            return f"step{step}:input-changed-although-o-given"
                        os.replace(wout, cur)
                else:
                    code, out, err = ska(args, d)
                if code != 0 and "no valid sequence" in err:
                    dump, _ = nk_dump(d, cur)
                    same = open(cur, "rb").read() == before
                    return f"step{step}:novalid;file={dump if same else 'CHANGED'}"
            elif f[0] == "reload":
                code = 0
            if code != 0:
                same = open(cur, "rb").read() == before
                dump, _ = nk_dump(d, cur)
                # a refused merge writes no output file (not even an empty one)
                left = any(os.path.exists(os.path.join(d, f"m{step}{e}")) for e in ("", ".skf"))
                return f"step{step}:refused{'+output-written' if left else ''};file={dump if same else 'CHANGED:' + str(dump)}"
    out_parts = []
    for ob in kv["obs"].split(";"):
        f = ob.split("/")
        code, o, e = ska(["nk", cur], d)
        n = len(parse_nk(o).get("names", []))
        if f[0] == "nk":
            dump, counts = nk_dump(d, cur)
            out_parts.append(f"nk[{dump};counts={counts}]")
        elif f[0] == "align":
            t = int(f[1])
            mf = freq_text(t, n, blank_style + len(out_parts), "ceil")
            args = ["align", cur, "--min-freq", mf, "--filter", CLI_FT[f[2]]]
            if f[3] == "1":
                args.append("--ambig-mask")
            if f[4] == "1":
                args.append("--no-gap-only-sites")
            if f[5] == "1":
                args.append("--filter-ambig-as-missing")
            code, o, e = ska_out(args, d, names_style + len(out_parts), ["--threads", "2"] if blank_style == 6 else [])
            names = [l[1:] for l in o.splitlines() if l.startswith(">")]
            seqs = [l for l in o.splitlines() if not l.startswith(">")]
            while len(seqs) < len(names):
                seqs.append("")
            cols = sorted("".join(s_[i] for s_ in seqs) for i in range(len(seqs[0]))) if seqs and seqs[0] else []
            out_parts.append(f"align[names={','.join(names) or '~'};cols={','.join(cols) or '~'}]")
        elif f[0] == "dist":
            t = int(f[1])
            mf = freq_text(t, n, blank_style + len(out_parts) + 1, "ceil")
            args = ["distance", cur, "--min-freq", mf] + ([] if f[2] == "1" else ["--allow-ambiguous"])
            code, o, e = ska_out(args, d, names_style + len(out_parts), ["--threads", "2"] if blank_style == 6 else [])
            items = []
            for l in o.splitlines()[1:]:
                p = l.split("\t")
                def _num(x, scale):
                    v = float(x)
                    return "not-finite" if (math.isnan(v) or math.isinf(v)) else str(round(v * scale))
                items.append(f"{p[0]}-{p[1]}:~{_num(p[2], 100)}:~{_num(p[3], 100000)}")
            out_parts.append(f"dist[{','.join(items) or '~'}]")
        else:
            out_parts.append("-")
    return " ".join(out_parts)


def classify_stderr(err):
    """the harness's panic classes, from the stderr of the binary"""
    if "has no valid sequence" in err:
        return "novalid"
    if "overflow" in err:
        return "panic:overflow"
    if "K-mer lengths do not match" in err or "Strand use inconsistent" in err or "Failed to load input file" in err:
        return "refused"
    if "Invalid k-mer length" in err:
        return "badk"
    if "No split k-mers mapped" in err:
        return "nomapped"
    if "index out of bounds" in err or "out of range" in err:
        return "panic:index"
    if "Palindrome middle base" in err:
        return "panic:palindrome"
    return "panic"


def map_via_cli(ctx, line):
    """execute one `map` case line through the ska binary (build from files or from a saved table,
    then `ska map` as alignment and as VCF with the case's mask flags); canonical result string as
    the in-process operation gives it"""
    kv = kvs(line)
    w, k, rc = kv["w"], int(kv["k"]), kv["rc"] == "1"
    d = fresh_dir(ctx, "mapcli")
    # the reference in one of the forms such files come in: one line per record, wrapped, CRLF, gzip (one or several members)
    form = sum(line.encode()) // 7
    gzf = [False, False, True, "multi"][form % 4]
    ref = os.path.join(d, "ref.fa" + (".gz" if gzf else ""))
    write_fasta(ref, [("" if r == "." else r) for r in kv["ref"].split(",")],
                wrap=[None, 7, 60, None][(form // 4) % 4], crlf=((form // 16) % 3 == 0), gz=gzf)
    skf = os.path.join(d, "x.skf")
    if "table" in kv:
        core.run_impl(ctx, [f"mkskf w={w} k={k} rc={kv['rc']} table={kv['table']} out={skf}"], "mk")
    else:
        files = []
        for i, smp in enumerate(kv["samples"].split("|")):
            f = os.path.join(d, f"s{i}.fa")
            write_fasta(f, [("" if r == "." else r) for r in smp.split("+")], names=[f"q{j}" for j in range(len(smp.split("+")))])
            files.append(f)
        code, out, err = ska(["build", "-o", os.path.join(d, "x"), "-k", str(k)] + ([] if rc else ["--single-strand"]) + files, d)
        if code != 0:
            return classify_stderr(err)
    flags = (["--ambig-mask"] if kv.get("amask") == "1" else []) + (["--repeat-mask"] if kv.get("rmask") == "1" else [])
    style = sum(line.encode())
    code, out, err = ska_out(["map", ref, skf] + flags, d, style, ["--threads", str(2 + style % 3)] if style % 2 == 0 else [])
    if code != 0:
        return classify_stderr(err)
    names = [l[1:] for l in out.splitlines() if l.startswith(">")]
    seqs = [l for l in out.splitlines() if not l.startswith(">")]
    while len(seqs) < len(names):
        seqs.append("")
    aln = ",".join(f"{n}:{q}" for n, q in zip(names, seqs)) or "~"
    code, out, err = ska_out(["map", ref, skf, "-f", "vcf"] + flags, d, style + 1, ["--threads", str(2 + style % 3)] if style % 3 != 0 else [])
    if code != 0:
        return classify_stderr(err)
    raw, dec = [], []
    for l in out.splitlines():
        if l.startswith("#") or not l:
            continue
        f = l.split("\t")
        alts = [] if f[4] == "." else f[4].split(",")
        gts = f[9:]
        raw.append(f"{f[0]}:{f[1]}:{f[3]}:{'/'.join(alts) if alts else '.'}:{'/'.join(gts)}")
        dd = "".join("." if g == "." else (f[3] if g == "0" else (alts[int(g) - 1] if int(g) - 1 < len(alts) else "?")) for g in gts)
        dec.append(f"{f[0]}:{f[1]}:{f[3]}:{dd}")
    return f"aln[{aln}] vcf[{','.join(raw) or '~'}] dec[{','.join(dec) or '~'}]"


def make_map_cli(prop, nquick, nthorough):
    def fn(ctx, broken):
        n = nthorough if ctx.tier == "thorough" else nquick
        cases = [c for c in core.gen_cases("C04", "quick", ctx.seed + 977) if c.startswith("map ")]
        rnd = random.Random(ctx.seed * 11 + 5)
        rnd.shuffle(cases)
        # both integer widths and every flag combination among the first cases
        wide = [c for c in cases if " w=128 " in c]
        narrow = [c for c in cases if " w=64 " in c]
        cases = (wide[:n // 2] + narrow[:n - n // 2])
        model = core.run_model(ctx, cases)
        evals = nontriv = 0
        flags = {}
        samples = []
        for c, (m, s) in zip(cases, model):
            r = map_via_cli(ctx, c)
            evals += 1
            kv = kvs(c)
            key = f"w{kv['w']}-amask{kv.get('amask')}-rmask{kv.get('rmask')}"
            flags[key] = flags.get(key, 0) + 1
            if r.startswith("aln["):
                nontriv += 1
            if len(samples) < 1:
                samples.append({"case": c[:300], "cli_result": r[:200]})
            if not (core.res_eq(r, m) and (s == "-" or core.res_eq(r, s))):
                return {"summary": {"evaluations": evals, "nontrivial": nontriv},
                        "violation": {"kind": "map-cli", "case": c, "cli": r[:3000], "model": m[:3000], "spec": s[:3000]}}
        if prop in ("C04", "C05"):
            # scale: a repeat-free reference of more than 2^16 contigs mapped onto itself must come back
            # exactly (T04_self), as alignment and with an empty VCF: contig indices and offsets of any width
            d = fresh_dir(ctx, "manyctg")
            k = rnd.choice([31, 33])
            nct = 65540 + rnd.randint(0, 80)
            contigs = ["".join(rnd.choice("ACGT") for _ in range(rnd.randint(k + 3, k + 11))) for _ in range(nct)]
            # one contig longer than 2^16 bases among them (positions inside a contig of any width)
            contigs[rnd.randrange(nct)] = "".join(rnd.choices("ACGT", k=70000 + rnd.randint(0, 999)))
            ref = os.path.join(d, "ref.fa")
            with open(ref, "w") as f:
                f.write("".join(f">c{i}\n{c}\n" for i, c in enumerate(contigs)))
            code, out, err = ska(["build", "-o", os.path.join(d, "self"), "-k", str(k), ref], d)
            code2, out2, err2 = ska(["map", ref, os.path.join(d, "self.skf")], d) if code == 0 else (code, "", err)
            evals += 1
            got = "".join(l for l in out2.splitlines() if not l.startswith(">"))
            want = "".join(contigs)
            if code2 != 0 or got != want:
                bad = next((i for i in range(min(len(got), len(want))) if got[i] != want[i]), min(len(got), len(want)))
                return {"summary": {"evaluations": evals, "nontrivial": nontriv},
                        "violation": {"kind": "map-many-contigs", "what": "a repeat-free reference with more than 65536 contigs mapped onto itself is not reproduced",
                                      "k": k, "contigs": nct, "exit": code2, "stderr": (err2 or "")[-300:], "first_difference_at": bad,
                                      "got": got[max(0, bad - 40):bad + 40], "want": want[max(0, bad - 40):bad + 40], "seed": ctx.seed}}
            code3, out3, err3 = ska(["map", ref, os.path.join(d, "self.skf"), "-f", "vcf"], d)
            recs = [l for l in out3.splitlines() if l and not l.startswith("#")]
            evals += 1
            nontriv += 2
            if code3 != 0 or recs:
                return {"summary": {"evaluations": evals, "nontrivial": nontriv},
                        "violation": {"kind": "map-many-contigs", "what": "the VCF of a reference mapped onto itself has records (or the command failed)",
                                      "k": k, "contigs": nct, "exit": code3, "records": recs[:5], "seed": ctx.seed}}
            flags["many-contigs-selfmap"] = nct
        return {"summary": {"evaluations": evals, "nontrivial": nontriv, "flag_combinations": flags,
                            "what": "the map cases through the ska binary (build or saved table, `ska map` as alignment and VCF with --ambig-mask / --repeat-mask, both integer widths through the lib.rs dispatch) vs model and specification"},
                "samples": samples}
    fn.__name__ = f"map_cli_{prop}"
    return fn


def reads_via_cli(ctx, line):
    """one `reads` case through `ska build -f list --min-count .. --min-qual .. --qual-filter ..`
    and `ska nk --full-info`: the dictionary as `key:letter,...` sorted by key"""
    kv = kvs(line)
    k, rc = int(kv["k"]), kv["rc"] == "1"
    d = fresh_dir(ctx, "readscli")
    paths = []
    for key in ("r1", "r2"):
        reads = [] if kv[key] in ("~", "") else kv[key].split(",")
        text = "".join(f"@r{i}\n{r.split(':')[0]}\n+\n{''.join(chr(ord(q) - 65 + 33) for q in r.split(':')[1])}\n" for i, r in enumerate(reads))
        p = os.path.join(d, key + ".fastq")
        open(p, "w").write(text)
        paths.append(p)
    lst = os.path.join(d, "list.tsv")
    open(lst, "w").write(f"s\t{paths[0]}\t{paths[1]}\n")
    qf = {"none": "no-filter", "middle": "middle", "strict": "strict"}[kv["qf"]]
    args = ["build", "-o", os.path.join(d, "x"), "-k", str(k), "--min-count", kv["mc"], "--min-qual", kv["mq"],
            "--qual-filter", qf, "-f", lst] + ([] if rc else ["--single-strand"])
    code, out, err = ska(args, d)
    if code != 0:
        return classify_stderr(err)
    code, out, err = ska(["nk", "--full-info", os.path.join(d, "x.skf")], d)
    info = parse_nk(out)
    items = sorted((key, cells[0]) for key, cells in info["rows"].items())
    return ",".join(f"{a}:{b}" for a, b in items) or "~"


def c12_cli(ctx, broken):
    """the read cases through the binary: min-count / min-qual / qual-filter as command-line options,
    both integer widths through the lib.rs dispatch"""
    n = 300 if ctx.tier == "thorough" else 40
    cases = [c for c in core.gen_cases("C12", "quick", ctx.seed + 31337) if c.startswith("reads ")]
    rnd = random.Random(ctx.seed * 13 + 7)
    rnd.shuffle(cases)
    wide = [c for c in cases if " w=128 " in c and int(kvs(c)["k"]) > 31]
    narrow = [c for c in cases if " w=64 " in c]
    cases = wide[:n // 2] + narrow[:n - n // 2]
    model = core.run_model(ctx, cases)
    evals = nontriv = 0
    opts = {}
    samples = []
    for c, (m, s) in zip(cases, model):
        kv = kvs(c)
        if kv["mc"] == "0":
            continue     # the command line refuses --min-count 0
        r = reads_via_cli(ctx, c)
        evals += 1
        key = f"mc{kv['mc']}-{kv['qf']}"
        opts[key] = opts.get(key, 0) + 1
        if ":" in r:
            nontriv += 1
        if len(samples) < 1:
            samples.append({"case": c[:300], "cli_result": r[:200]})
        if not (core.res_eq(r, m) and (s == "-" or core.res_eq(r, s))):
            return {"summary": {"evaluations": evals, "nontrivial": nontriv},
                    "violation": {"kind": "reads-cli", "case": c, "cli": r[:3000], "model": m[:3000], "spec": s[:3000]}}
    return {"summary": {"evaluations": evals, "nontrivial": nontriv, "options": opts,
                        "what": "read cases through `ska build -f` with --min-count/--min-qual/--qual-filter and `ska nk --full-info`, k <= 31 and k >= 33, vs model and counting specification"},
            "samples": samples}


def c06_big_cli(ctx, broken):
    """scale: an alignment of more than 65536 columns (thorough: more than 131072). With no site filter and
    --min-freq 0 every stored split k-mer is one column: the multiset of columns must be the multiset of the
    rows `ska nk --full-info` lists, to stdout and to -o"""
    rnd = random.Random(ctx.seed * 961748941 + 11)
    thorough = ctx.tier == "thorough"
    evals = nontriv = 0
    d = fresh_dir(ctx, "c06big")
    k = rnd.choice([31, 33])
    L = 140000 if thorough else 72000
    base = rand_genome(rnd, L)
    files = []
    for i in range(3):
        sq = list(base)
        for p_ in rnd.sample(range(L), L // 400):
            sq[p_] = rnd.choice([x for x in "ACGT" if x != sq[p_]])
        if i == 2:
            del sq[L // 3: L // 3 + 2000]          # a stretch missing from one sample: columns with '-'
        f = os.path.join(d, f"g{i}.fa")
        write_fasta(f, ["".join(sq)], wrap=80)
        files.append(f)
    code, out, err = ska(["build", "-o", os.path.join(d, "big"), "-k", str(k), "--threads", "4"] + files, d)
    if code != 0:
        return {"summary": {"evaluations": evals, "nontrivial": nontriv}, "violation": {"kind": "c06-big", "what": "build failed", "stderr": err[-300:]}}
    names, tab = nk_table(parse_nk(ska(["nk", "--full-info", os.path.join(d, "big.skf")], d)[1]))
    want = sorted(tab.values())
    for style in (0, 1):
        code, out, err = ska_out(["align", os.path.join(d, "big.skf"), "--filter", "no-filter", "--min-freq", "0"], d, style)
        evals += 1
        seqs = [l for l in out.splitlines() if not l.startswith(">")]
        lens = sorted(set(len(x) for x in seqs))
        got = sorted("".join(col) for col in zip(*seqs)) if seqs else []
        nontriv += 1
        if code != 0 or len(lens) != 1 or got != want:
            from collections import Counter
            surplus = list((Counter(got) - Counter(want)).items())[:5]
            missing = list((Counter(want) - Counter(got)).items())[:5]
            return {"summary": {"evaluations": evals, "nontrivial": nontriv},
                    "violation": {"kind": "c06-big", "what": "align --filter no-filter --min-freq 0 does not emit exactly one column per stored split k-mer",
                                  "k": k, "stored_kmers": len(want), "columns": len(got), "sequence_lengths": lens, "surplus": surplus, "missing": missing,
                                  "exit": code, "seed": ctx.seed, "to": "stdout" if style % 2 == 0 else "-o file"}}
    return {"summary": {"evaluations": evals, "nontrivial": nontriv, "columns": len(want),
                        "what": "alignment of more than 65536 columns: columns (as a multiset) = stored rows, stdout and -o"},
            "samples": []}


def c08_big_cli(ctx, broken):
    """scale: `ska delete` on a file of more than 65536 split k-mers (thorough: more than 131072): the result must be
    the file built from the remaining samples (T08_delete_eq_build is the oracle), names on the command line and -f"""
    rnd = random.Random(ctx.seed * 553105253 + 7)
    thorough = ctx.tier == "thorough"
    evals = nontriv = 0
    d = fresh_dir(ctx, "c08big")
    k = rnd.choice([31, 33])
    L = 150000 if thorough else 76000
    base = rand_genome(rnd, L)
    names = ["g_one", "g_two", "g_three", "g_four"]
    files = []
    for i, nm in enumerate(names):
        sq = list(base)
        for p_ in rnd.sample(range(L), L // 300):
            sq[p_] = rnd.choice([x for x in "ACGT" if x != sq[p_]])
        f = os.path.join(d, nm + ".fa")
        write_fasta(f, ["".join(sq)], wrap=70)
        files.append(f)
    code, out, err = ska(["build", "-o", os.path.join(d, "all"), "-k", str(k), "--threads", "4"] + files, d)
    if code != 0:
        return {"summary": {"evaluations": 0, "nontrivial": 0}, "violation": {"kind": "c08-big", "what": "build failed", "stderr": err[-300:]}}
    gone = [names[1], names[3]]
    keep = [f for f, nm in zip(files, names) if nm not in gone]
    ska(["build", "-o", os.path.join(d, "kept"), "-k", str(k)] + keep, d)
    want = nk_table(parse_nk(ska(["nk", "--full-info", os.path.join(d, "kept.skf")], d)[1]))
    for style in (0, 1):
        if style == 0:
            args = ["delete", "-s", os.path.join(d, "all.skf"), "-o", os.path.join(d, "d0")] + gone
        else:
            nf = os.path.join(d, "gone.txt")
            open(nf, "w").write("\n".join(reversed(gone)) + "\n")
            args = ["delete", "-s", os.path.join(d, "all.skf"), "-o", os.path.join(d, "d1"), "-f", nf]
        code, out, err = ska(args, d)
        evals += 1
        got = nk_table(parse_nk(ska(["nk", "--full-info", os.path.join(d, f"d{style}.skf")], d)[1])) if code == 0 else None
        nontriv += 1
        if got != want:
            return {"summary": {"evaluations": evals, "nontrivial": nontriv},
                    "violation": {"kind": "c08-big", "what": "ska delete on a large file differs from the build of the remaining samples",
                                  "k": k, "rows_expected": len(want[1]), "rows_after_delete": (len(got[1]) if got else None), "names": (got[0] if got else None),
                                  "exit": code, "seed": ctx.seed, "how": "names on the command line" if style == 0 else "-f names file"}}
    return {"summary": {"evaluations": evals, "nontrivial": nontriv, "rows": len(want[1]),
                        "what": "delete on a file of more than 65536 split k-mers vs the build of the remaining samples"}, "samples": []}



def c08_names_cli(ctx, broken):
    """sample names as the command line hands them over: a name is one argument, whatever it contains
    (comma, semicolon, colon, equals sign, blank, dot, a name that is a prefix or a comma-join of others);
    deleting it removes exactly that sample (T08_delete_eq_build is the oracle), others untouched"""
    rnd = random.Random(ctx.seed * 982451653 + 13)
    evals = nontriv = 0
    d = fresh_dir(ctx, "c08names")
    k = rnd.choice([15, 31, 33])
    base = rand_genome(rnd, 400)
    names = ["iso1", "iso2", "iso1,iso2", "iso1;iso2", "iso 3", "iso1=x", "iso:4", "iso1.", "is"]
    lst = os.path.join(d, "in.list")
    with open(lst, "w") as fh:
        for i, nm in enumerate(names):
            f = os.path.join(d, f"f{i}.fa")
            write_fasta(f, [mutate(rnd, base, 4)])
            # a blank cannot travel through the white-space separated list: that sample gets its name via the file name
            fh.write(f"{nm.replace(' ', '_')}\t{f}\n")
    names = [n.replace(" ", "_") for n in names]
    code, out, err = ska(["build", "-o", os.path.join(d, "all"), "-k", str(k), "-f", lst], d)
    if code != 0:
        return {"summary": {"evaluations": 0, "nontrivial": 0}, "violation": {"kind": "c08-names", "what": "build failed", "stderr": err[-300:]}}
    full = parse_nk(ska(["nk", "--full-info", os.path.join(d, "all.skf")], d)[1])
    if full.get("names") != names:
        return {"summary": {"evaluations": 1, "nontrivial": 0}, "violation": {"kind": "c08-names", "what": "names of the built file are not those of the list", "names": full.get("names"), "expected": names}}
    for gone in ([names[2]], [names[3]], [names[5], names[6]], [names[8]], [names[7], names[0]], [names[2], names[1]]):
        for style in (0, 1):
            if style == 0:
                args = ["delete", "-s", os.path.join(d, "all.skf"), "-o", os.path.join(d, "dd")] + gone
            else:
                nf = os.path.join(d, "gone.txt")
                open(nf, "w").write("\n".join(gone) + "\n")
                args = ["delete", "-s", os.path.join(d, "all.skf"), "-o", os.path.join(d, "dd"), "-f", nf]
            if os.path.exists(os.path.join(d, "dd.skf")):
                os.remove(os.path.join(d, "dd.skf"))
            code, out, err = ska(args, d)
            evals += 1
            nontriv += 1
            got = parse_nk(ska(["nk", "--full-info", os.path.join(d, "dd.skf")], d)[1]) if code == 0 else None
            keep_idx = [i for i, n in enumerate(names) if n not in gone]
            want_names = [names[i] for i in keep_idx]
            want_rows = {}
            for key, cells in full["rows"].items():
                row = [cells[i] for i in keep_idx]
                if any(c != "-" for c in row):
                    want_rows[key] = row
            if got is None or got.get("names") != want_names or got["rows"] != want_rows:
                return {"summary": {"evaluations": evals, "nontrivial": nontriv},
                        "violation": {"kind": "c08-names", "what": "ska delete did not remove exactly the named samples",
                                      "deleted": gone, "how": "names on the command line" if style == 0 else "-f names file", "exit": code,
                                      "names_after": (got.get("names") if got else None), "expected_names": want_names,
                                      "rows_after": (len(got["rows"]) if got else None), "rows_expected": len(want_rows), "k": k, "stderr": err[-200:]}}
    return {"summary": {"evaluations": evals, "nontrivial": nontriv, "what": "delete of samples whose names contain , ; : = . or are prefixes / joins of other names, on the command line and via -f"}}


def c11_scale_cli(ctx, broken):
    """thread count on files past the sizes at which parallel routes switch on: a file of more than 32768
    (thorough: more than 131072) split k-mers through distance / align / map / weed / nk with --threads
    1, 2, 4 (and the read build with 1, 3): same bytes, same exit status; distance of two samples that
    differ by isolated SNPs must be the planted count"""
    rnd = random.Random(ctx.seed * 67867967 + 19)
    thorough = ctx.tier == "thorough"
    evals = nontriv = 0
    d = fresh_dir(ctx, "c11scale")
    k = rnd.choice([21, 31])
    L = 140000 if thorough else 36000
    base = rand_genome(rnd, L)
    nsnp = 7
    pos = sorted(rnd.sample(range(1, L // (3 * k)), nsnp))
    sq = list(base)
    for p_ in pos:
        q = p_ * 3 * k
        sq[q] = rnd.choice([x for x in "ACGT" if x != sq[q]])
    write_fasta(os.path.join(d, "a.fa"), [base], wrap=80)
    write_fasta(os.path.join(d, "b.fa"), ["".join(sq)], wrap=80)
    code, out, err = ska(["build", "-o", os.path.join(d, "ab"), "-k", str(k), os.path.join(d, "a.fa"), os.path.join(d, "b.fa")], d)
    if code != 0:
        return {"summary": {"evaluations": 0, "nontrivial": 0}, "violation": {"kind": "c11-scale", "what": "build failed", "stderr": err[-300:]}}
    skf = os.path.join(d, "ab.skf")
    cmds = {
        "distance": lambda t: ["distance", skf, "--threads", str(t)],
        "distance-filt": lambda t: ["distance", skf, "--threads", str(t), "--allow-ambiguous", "--min-freq", "1"],
        "align": lambda t: ["align", skf, "--threads", str(t)],
        "align-files": lambda t: ["align", os.path.join(d, "a.fa"), os.path.join(d, "b.fa"), "--threads", str(t)],
        "map": lambda t: ["map", os.path.join(d, "a.fa"), skf, "--threads", str(t)],
        "map-vcf": lambda t: ["map", os.path.join(d, "a.fa"), skf, "--threads", str(t), "-f", "vcf"],
    }
    for name, mk in cmds.items():
        ref = None
        for t in (1, 2, 4):
            code, out, err = ska(mk(t), d)
            evals += 1
            nontriv += 1
            if name.startswith("align") and code == 0:
                # the column order of an alignment is not part of the result (it follows the hash order of the build):
                # names in order + the multiset of columns
                recs = [r.split("\n", 1) for r in out.split(">")[1:]]
                aseqs = [r[1].replace("\n", "") for r in recs]
                out = repr(([r[0] for r in recs], sorted("".join(q[i] for q in aseqs) for i in range(len(aseqs[0]))) if aseqs and aseqs[0] else []))
            res = (code, out)
            if ref is None:
                ref = res
                if code != 0:
                    return {"summary": {"evaluations": evals, "nontrivial": nontriv},
                            "violation": {"kind": "c11-scale", "what": f"{name} failed with one thread", "stderr": err[-300:], "k": k, "length": L}}
                if name == "distance":
                    rows = [l.split("\t") for l in out.strip().splitlines()[1:]]
                    if len(rows) != 1 or abs(float(rows[0][2]) - nsnp) > 1e-6:
                        return {"summary": {"evaluations": evals, "nontrivial": nontriv},
                                "violation": {"kind": "c11-scale", "what": "distance of two samples with isolated SNPs is not the planted count", "planted": nsnp, "output": out[:300], "k": k, "length": L}}
            elif res != ref:
                return {"summary": {"evaluations": evals, "nontrivial": nontriv},
                        "violation": {"kind": "c11-scale", "what": f"{name}: --threads {t} differs from --threads 1 on a large file", "exit": [ref[0], code],
                                      "stderr": err[-300:], "k": k, "length": L, "rows_about": L, "seed": ctx.seed}}
    return {"summary": {"evaluations": evals, "nontrivial": nontriv, "split_kmers_about": 2 * L,
                        "what": "distance / align / map on a file of more than 32768 split k-mers, --threads 1/2/4 byte for byte"}}


def c13_iupac_cli(ctx, broken):
    """weed sequences with ambiguity codes, lower case and N: the k-mers of a FASTA are the same whether it is
    read as a sample (ska build) or as a weed file (T13_weed_fasta: the weed list is the split k-mers of the
    records), so weeding a two-sample file with the FASTA of sample 0 leaves exactly the rows sample 0 does not
    hold, cells unchanged; --reverse leaves exactly the rows it holds"""
    rnd = random.Random(ctx.seed * 32452867 + 23)
    thorough = ctx.tier == "thorough"
    evals = nontriv = 0
    for it in range(10 if thorough else 4):
        d = fresh_dir(ctx, "c13iupac")
        k = rnd.choice([7, 9, 15, 31, 33, 41])
        L = rnd.choice([3 * k, 200, 500])
        sq = list(rand_genome(rnd, L))
        for _ in range(rnd.randint(1, 6)):
            sq[rnd.randrange(L)] = rnd.choice("RYSWKMBDHVN")
        for _ in range(rnd.randint(0, 4)):
            q = rnd.randrange(L)
            sq[q] = sq[q].lower()
        s0 = "".join(sq)
        cut = rnd.randrange(k, L - k) if L > 2 * k + 1 else None
        recs0 = [s0] if cut is None or rnd.random() < 0.5 else [s0[:cut], s0[cut:]]
        s1 = mutate(rnd, "".join(c if c in "ACGT" else "A" for c in s0.upper()), 3)
        write_fasta(os.path.join(d, "s0.fa"), recs0)
        write_fasta(os.path.join(d, "s1.fa"), [s1])
        strand = ["--single-strand"] if rnd.random() < 0.3 else []
        code, out, err = ska(["build", "-o", os.path.join(d, "x"), "-k", str(k)] + strand + [os.path.join(d, "s0.fa"), os.path.join(d, "s1.fa")], d)
        if code != 0:
            return {"summary": {"evaluations": evals, "nontrivial": nontriv}, "violation": {"kind": "c13-iupac", "what": "build failed", "stderr": err[-300:], "k": k}}
        full = parse_nk(ska(["nk", "--full-info", os.path.join(d, "x.skf")], d)[1])
        for rev in (False, True):
            args = ["weed", os.path.join(d, "x.skf"), os.path.join(d, "s0.fa"), "-o", os.path.join(d, "w.skf"), "--min-freq", "0"] + (["--reverse"] if rev else [])
            if os.path.exists(os.path.join(d, "w.skf")):
                os.remove(os.path.join(d, "w.skf"))
            code, out, err = ska(args, d)
            evals += 1
            got = parse_nk(ska(["nk", "--full-info", os.path.join(d, "w.skf")], d)[1]) if code == 0 else None
            want = {key: cells for key, cells in full["rows"].items() if (cells[0] != "-") == rev}
            if want:
                nontriv += 1
            if got is None or got["rows"] != want or got.get("names") != full.get("names"):
                extra = [str(x) for x in (set(got["rows"]) - set(want))][:3] if got else None
                return {"summary": {"evaluations": evals, "nontrivial": nontriv},
                        "violation": {"kind": "c13-iupac", "what": "weeding with the FASTA a sample was built from does not remove (keep, with --reverse) exactly that sample's k-mers",
                                      "reverse": rev, "k": k, "single_strand": bool(strand), "records": recs0, "other": s1, "exit": code,
                                      "rows_expected": len(want), "rows_after": (len(got["rows"]) if got else None), "left_behind_or_extra": extra}}
    return {"summary": {"evaluations": evals, "nontrivial": nontriv, "what": "self-weed relation with ambiguity codes / lower case / N in the weed FASTA, forward and --reverse"}}

def joint_reads_cli(ctx, broken):
    """several read samples in ONE `ska build -f list`: column j of the joint file must be the file of
    sample j built alone with the same options (T02_samples / T11: a sample's dictionary does not depend
    on its neighbours), for the list in order and reversed, one and several threads, fewer and more than
    ten samples (the parallel route). Every sample holds k-mers seen exactly min-count - 1 times that an
    earlier AND a later sample of the list hold often enough: nothing may be carried from one sample's
    counting filter to the next."""
    rnd = random.Random(ctx.seed * 7368787 + 29)
    thorough = ctx.tier == "thorough"
    evals = nontriv = 0
    for (nsamp, threads) in ([(3, 1), (12, 1), (12, 4), (23, 8)] if thorough else [(3, 1), (12, 4)]):
        d = fresh_dir(ctx, "jointreads")
        k = rnd.choice([15, 21, 31, 33])
        mc = rnd.choice([2, 2, 3, 5])
        qf = rnd.choice(["no-filter", "middle", "strict"])
        rc = rnd.random() < 0.7
        rlen = k + 25
        shared = [rand_genome(rnd, rlen) for _ in range(4)]
        weak = [rand_genome(rnd, rlen) for _ in range(nsamp)]
        lst_lines = []
        for j in range(nsamp):
            reads = []
            for g in shared:
                reads += [g] * mc
            # own weak region: one observation short; the neighbours' weak regions: solid here
            reads += [weak[j]] * (mc - 1)
            reads += [weak[(j + 1) % nsamp]] * mc + [weak[(j - 1) % nsamp]] * (mc + 1)
            rnd.shuffle(reads)
            reads = [revcomp(r) if (rc and rnd.random() < 0.5) else r for r in reads]
            half = len(reads) // 2
            paths = []
            for tag, part in (("1", reads[:half]), ("2", reads[half:])):
                pth = os.path.join(d, f"s{j}_{tag}.fastq")
                with open(pth, "w") as f:
                    f.write("".join(f"@r{i}\n{r}\n+\n{'I' * len(r)}\n" for i, r in enumerate(part)))
                paths.append(pth)
            lst_lines.append(f"s{j}\t{paths[0]}\t{paths[1]}")
        opts = ["-k", str(k), "--min-count", str(mc), "--qual-filter", qf] + ([] if rc else ["--single-strand"])
        # each sample alone
        alone = []
        for j in range(nsamp):
            lj = os.path.join(d, f"l{j}.tsv")
            open(lj, "w").write(lst_lines[j] + "\n")
            code, out, err = ska(["build", "-o", os.path.join(d, f"a{j}"), "-f", lj] + opts, d)
            if code != 0:
                return {"summary": {"evaluations": evals, "nontrivial": nontriv},
                        "violation": {"kind": "joint-reads", "what": "single-sample read build failed", "stderr": err[-300:], "options": opts}}
            names, tab = nk_table(parse_nk(ska(["nk", "--full-info", os.path.join(d, f"a{j}.skf")], d)[1]))
            alone.append(tab)
        for order_name, order in (("in order", list(range(nsamp))), ("reversed", list(range(nsamp))[::-1])):
            lj = os.path.join(d, "joint.tsv")
            open(lj, "w").write("".join(lst_lines[j] + "\n" for j in order))
            code, out, err = ska(["build", "-o", os.path.join(d, "joint"), "-f", lj, "--threads", str(threads)] + opts, d)
            evals += 1
            if code != 0:
                return {"summary": {"evaluations": evals, "nontrivial": nontriv},
                        "violation": {"kind": "joint-reads", "what": "joint read build failed", "stderr": err[-300:], "options": opts, "threads": threads}}
            names, tab = nk_table(parse_nk(ska(["nk", "--full-info", os.path.join(d, "joint.skf")], d)[1]))
            for col, j in enumerate(order):
                colj = {key: cells[col] for key, cells in tab.items() if cells[col] != "-"}
                want = {key: cells[0] for key, cells in alone[j].items()}
                nontriv += 1
                if colj != want or names[col] != f"s{j}":
                    extra = sorted(set(colj) - set(want))[:5]
                    missing = sorted(set(want) - set(colj))[:5]
                    return {"summary": {"evaluations": evals, "nontrivial": nontriv},
                            "violation": {"kind": "joint-reads", "what": "a sample's column in a joint read build differs from the same sample built alone",
                                          "sample": j, "position_in_list": col, "list": order_name, "threads": threads, "nsamples": nsamp, "options": opts,
                                          "kmers_alone": len(want), "kmers_in_joint_build": len(colj), "only_in_joint": extra, "only_alone": missing, "dir_layout": "s<j>_1.fastq / s<j>_2.fastq; weak region of sample j is seen min-count - 1 times"}}
    return {"summary": {"evaluations": evals, "nontrivial": nontriv,
                        "what": "joint read builds (3-23 FASTQ samples, 1-8 threads, list in order and reversed) vs each sample built alone; every sample holds k-mers one observation short of --min-count that its neighbours hold often enough"},
            "samples": []}


def freq_sweep_cli(ctx, broken):
    """--min-freq on its rounding boundaries: for every sample count n = 2..12 a table with one row
    per presence count c = 1..n; `ska align --min-freq f` must keep exactly the rows with
    c >= max(1, ceil(n*f)), `ska weed --min-freq f` those with c >= floor(n*f), `ska distance
    --min-freq f` must count mismatching presence only over rows with c >= ceil(n*f) -- for the
    decimal fractions a user types (tenths, quarters, thirds, 0.29, 0.58, ...)"""
    rnd = random.Random(ctx.seed * 472882027 + 3)
    thorough = ctx.tier == "thorough"
    fracs = ["0", "0.1", "0.2", "0.25", "0.29", "0.3", "0.33", "0.334", "0.4", "0.5", "0.58", "0.6", "0.67", "0.7", "0.75", "0.8", "0.9", "0.95", "1"]
    evals = nontriv = 0
    for n in range(2, 13):
        k = rnd.choice([9, 15, 31, 33])
        w = 64 if k <= 31 else 128
        rows = {}
        while len(rows) < n:
            arms = rand_genome(rnd, k - 1)
            if arms == revcomp(arms):
                continue
            rows[min(pack(arms), pack(revcomp(arms)))] = len(rows) + 1     # presence count of this row
        base = rnd.choice("ACGT")
        table = ",".join(f"s{i}" for i in range(n)) + "|" + ",".join(
            f"{key}:{''.join(base if i < c else '-' for i in range(n))}" for key, c in rows.items())
        d = fresh_dir(ctx, "freqsweep")
        skf = os.path.join(d, "x.skf")
        core.run_impl(ctx, [f"mkskf w={w} k={k} rc=1 table={table} out={skf}"], "mk")
        for f in (fracs if thorough or n in (5, 7, 10) else rnd.sample(fracs, 6)):
            t_ceil, t_floor = math.ceil(n * float(f)), math.floor(n * float(f))
            code, out, err = ska(["align", skf, "--min-freq", f, "--filter", "no-filter"], d)
            evals += 1
            seqs = [l for l in out.splitlines() if not l.startswith(">")]
            got = len(seqs[0]) if seqs else 0
            want = sum(1 for c in rows.values() if c >= max(1, t_ceil))
            if code != 0 or got != want:
                return {"summary": {"evaluations": evals, "nontrivial": nontriv},
                        "violation": {"kind": "freq-sweep", "what": "ska align keeps the wrong rows for this --min-freq", "samples": n, "min_freq": f,
                                      "threshold": max(1, t_ceil), "columns": got, "expected_columns": want, "k": k}}
            wout = os.path.join(d, "w.skf")
            code, out, err = ska(["weed", skf, "--min-freq", f, "-o", wout], d)
            evals += 1
            kept = len(parse_nk(ska(["nk", "--full-info", wout], d)[1]).get("rows", {})) if code == 0 else -1
            want = sum(1 for c in rows.values() if c >= t_floor)
            if kept != want:
                return {"summary": {"evaluations": evals, "nontrivial": nontriv},
                        "violation": {"kind": "freq-sweep", "what": "ska weed keeps the wrong rows for this --min-freq", "samples": n, "min_freq": f,
                                      "threshold": t_floor, "rows": kept, "expected_rows": want, "k": k}}
            # distance between the first and the last sample: they differ in presence on the rows with c < n
            code, out, err = ska(["distance", skf, "--min-freq", f], d)
            evals += 1
            line = [l.split("\t") for l in out.splitlines()[1:] if l.startswith("s0\t" + f"s{n - 1}\t")]
            counted = [c for c in rows.values() if c >= t_ceil]
            want_mis = (sum(1 for c in counted if c < n) / len(counted)) if counted else 0.0
            if code != 0 or not line or abs(float(line[0][3]) - want_mis) > 6e-6:
                return {"summary": {"evaluations": evals, "nontrivial": nontriv},
                        "violation": {"kind": "freq-sweep", "what": "ska distance computes the mismatch proportion over the wrong rows for this --min-freq", "samples": n,
                                      "min_freq": f, "threshold": t_ceil, "observed": (line[0][3] if line else None), "expected": round(want_mis, 5), "k": k}}
            nontriv += 1
    return {"summary": {"evaluations": evals, "nontrivial": nontriv,
                        "what": "--min-freq rounding boundaries: n = 2..12 samples x typed decimal fractions through ska align (ceil, at least 1), ska weed (floor) and ska distance (ceil)"},
            "samples": []}


def route_cli(ctx, broken):
    """sequence files given directly to `ska align` / `ska map` are built in memory with the defaults
    of `ska build`; the result must be that of `ska build` (defaults) + the saved file, for FASTA and
    for FASTQ input (where the default read filters -- count 5, quality 20, strict -- must apply)"""
    rnd = random.Random(ctx.seed * 15485867 + 77)
    thorough = ctx.tier == "thorough"
    evals = nontriv = 0
    for it in range(6 if thorough else 2):
        d = fresh_dir(ctx, "route")
        genome = rand_genome(rnd, 400)
        fastq = (it % 2 == 0)
        files = []
        for si in range(2):
            g = mutate(rnd, genome, 2)
            if fastq:
                reads = []
                for _r in range(int(len(g) * 14 / 90)):
                    q0 = rnd.randrange(len(g) - 90 + 1)
                    sq = g[q0:q0 + 90]
                    reads.append((revcomp(sq) if rnd.random() < 0.5 else sq, "I" * 90))          # Q40 throughout
                # reads whose k-mers stay below the default count of 5, and reads of quality 2
                reads += [(mutate(rnd, g[40:130], 3), "I" * 90), (mutate(rnd, g[150:240], 2), "#" * 90)] * 2
                fp = os.path.join(d, f"s{si}.fastq")
                with open(fp, "w") as f:
                    for i, (sq, q) in enumerate(reads):
                        f.write(f"@r{i}\n{sq}\n+\n{q}\n")
            else:
                fp = os.path.join(d, f"s{si}.fa")
                write_fasta(fp, [g])
            files.append(fp)
        ref = os.path.join(d, "ref.fa")
        write_fasta(ref, [genome])
        code, out, err = ska(["build", "-o", os.path.join(d, "x")] + files, d)
        if code != 0:
            return {"summary": {"evaluations": evals, "nontrivial": nontriv},
                    "violation": {"kind": "route", "what": "ska build with default options failed on the generated input", "input": "fastq" if fastq else "fasta", "stderr": err[-300:]},
                    "no_input": True}
        skf = os.path.join(d, "x.skf")
        for name, direct, saved in (("align", ["align"] + files + ["--filter", "no-filter", "--min-freq", "0"], ["align", skf, "--filter", "no-filter", "--min-freq", "0"]),
                                    ("map", ["map", ref] + files, ["map", ref, skf]),
                                    ("map-vcf", ["map", ref] + files + ["-f", "vcf"], ["map", ref, skf, "-f", "vcf"])):
            c1, o1, e1 = ska(direct, d)
            c2, o2, e2 = ska(saved, d)
            evals += 1
            canon = (lambda o: sorted(o.splitlines())) if name == "align" else (lambda o: [l for l in o.splitlines() if not l.startswith("##")])
            if name == "align":
                # columns in hash order: compare the multiset of columns
                def cols(o):
                    sq = [l for l in o.splitlines() if not l.startswith(">")]
                    return sorted("".join(x[i] for x in sq) for i in range(len(sq[0]))) if sq and sq[0] else []
                same = (c1 == c2) and cols(o1) == cols(o2) and [l for l in o1.splitlines() if l.startswith(">")] == [l for l in o2.splitlines() if l.startswith(">")]
            else:
                same = (c1 == c2) and canon(o1) == canon(o2)
            if not same:
                return {"summary": {"evaluations": evals, "nontrivial": nontriv},
                        "violation": {"kind": "route", "what": f"ska {name} on sequence files differs from ska build + ska {name} on the saved file", "input": "fastq" if fastq else "fasta",
                                      "direct_lines": len(o1.splitlines()), "saved_lines": len(o2.splitlines())}}
        nontriv += 1
    return {"summary": {"evaluations": evals, "nontrivial": nontriv,
                        "what": "in-memory route (sequence files given to align / map) vs saved route (build with defaults, then the .skf), FASTA and FASTQ input"},
            "samples": []}


def make_hist_cli(prop, nquick, nthorough, gen_prop=None):
    def fn(ctx, broken):
        n = nthorough if ctx.tier == "thorough" else nquick
        if broken:
            n *= 3
        cases = [c for c in core.gen_cases(gen_prop or prop, "quick", ctx.seed + 4242) if c.startswith("hist ")]
        rnd = random.Random(ctx.seed * 7 + 1)
        rnd.shuffle(cases)
        # both integer widths (the lib.rs dispatch has one branch per width)
        wide = [c for c in cases if " w=128 " in c]
        narrow = [c for c in cases if " w=64 " in c]
        # refused operations first (a merge with a file of another k or strand mode): they are a ninth of the stream
        refused = [c for c in cases if re.search(r"merge/[^;/ ]*/\d+/[01](;| )", c)][:max(4, n // 5)]
        cases = refused + [c for c in (wide[:n // 2] + narrow[:n - n // 2]) if c not in refused]
        # rawdist is an in-process observer only
        cases = [re.sub(r";rawdist/\d+", "", c) for c in cases]
        model = core.run_model(ctx, cases)
        evals = nontriv = 0
        samples = []
        for c, (m, s) in zip(cases, model):
            r = hist_via_cli(ctx, c)
            evals += 1
            if not r.startswith("step"):
                nontriv += 1
            ok = core.res_eq(r, m) and (s == "-" or core.res_eq(r, s))
            if len(samples) < 1:
                samples.append({"case": c[:300], "cli_result": r[:200]})
            if not ok:
                return {"summary": {"evaluations": evals, "nontrivial": nontriv},
                        "violation": {"kind": "hist-cli", "case": c, "cli": r[:3000], "model": m[:3000], "spec": s[:3000]}}
        return {"summary": {"evaluations": evals, "nontrivial": nontriv,
                            "what": "the same histories through the ska binary (merge/delete incl. names file/weed/align/distance/nk with their command-line flags, in-place overwrite, width dispatch) vs model and table specification"},
                "samples": samples}
    fn.__name__ = f"hist_cli_{prop}"
    return fn
