"""Per-property configuration: proof modules, generators, CLI-level checks, evidence texts."""
import os
import re

from skaverif import core
from skaverif import cli

COMMON_TRUST = [
    "Lean 4.33.0 kernel; axioms propext, Classical.choice, Quot.sound only (audited with #print axioms on every run)",
    "no sorry/admit/axiom/native_decide/implemented_by in any model, spec, lemma or property file (grep on every run)",
    "correspondence harness /verif/harness (generators, canonicalisers), /verif/lean/SkaModel/Driver.lean (line protocol) and the Lean compiler executing the model definitions",
    "the reading of the natural-language property as the Lean statements in SkaModel/Props (kept apart from lemmas)",
]

EXTERNAL = "needletail (FASTA/FASTQ/gzip parsing), hashbrown/ahash (arbitrary iteration order), rayon, ndarray, snap, ciborium, noodles-vcf are modelled by their contracts, exercised only through the differential runs"


def matches_signature(sig, case, impl, model, spec):
    """Known-finding signatures: `op:<name>` / `re:<regex on the case line>`."""
    if sig.startswith("re:"):
        return re.search(sig[3:], case) is not None
    if sig.startswith("op:"):
        return case.startswith(sig[3:] + " ")
    return False


def replay_cli(ctx, payload):
    return cli.replay(ctx, payload)


# ----------------------------------------------------------------------------- C15 cell search

def _table(name):
    src = open(core.TABLES).read()
    m = re.search(r"def " + name + r" : Nat := (0x[0-9a-f]+)", src)
    n = int(m.group(1), 16)
    return lambda i: (n >> (8 * i)) & 255


LETTERS = {1: 'A', 2: 'C', 4: 'T', 8: 'G', 3: 'M', 5: 'W', 9: 'R', 6: 'Y', 10: 'S', 12: 'K', 7: 'H', 11: 'V', 13: 'D', 14: 'B', 15: 'N'}
MASKS = {v: k for k, v in LETTERS.items()}


def c15_cells(ctx):
    """Evaluate the C15 statements cell by cell on the regenerated tables; name the first wrong cell."""
    iupac, rc, amb, prob = _table("iupac"), _table("rcIupac"), _table("isAmbiguous"), _table("baseToProb6")
    n = 0
    for b in range(4):
        for c in range(256):
            n += 1
            m = MASKS.get(chr(c).upper()) if chr(c).isalpha() else None
            want = ord(LETTERS[m | (1 << b)]) if m else 0
            if iupac(b * 256 + c) != want:
                return n, f"IUPAC[{b}*256+{c}] ({'ACTG'[b]} + {chr(c)!r}) = {iupac(b*256+c)} ({chr(iupac(b*256+c))!r}), union algebra wants {want} ({chr(want)!r})"
    comp = lambda m: ((m & 3) << 2) | ((m >> 2) & 3)
    for c in range(256):
        n += 1
        m = MASKS.get(chr(c).upper()) if chr(c).isalpha() else None
        want = ord(LETTERS[comp(m)]) if m else 45
        if rc(c) != want:
            return n, f"RC_IUPAC[{c}] ({chr(c)!r}) = {chr(rc(c))!r}, complement of the set wants {chr(want)!r}"
    card = lambda m: bin(m).count("1")
    for c in range(256):
        n += 1
        ch = chr(c).upper()
        m = 4 if ch == 'U' else (MASKS.get(ch) if chr(c).isalpha() else None)
        if m is not None and bool(amb(c)) != (card(m) != 1):
            return n, f"is_ambiguous({chr(c)!r}) = {bool(amb(c))}"
        if c == 45 and amb(c):
            return n, "is_ambiguous('-') = true"
        if m is not None and c < 97:
            for j in range(4):
                want = 0 if m == 15 else (6 // card(m) if (m >> j) & 1 else 0)
                if prob(4 * c + j) != want:
                    return n, f"base_to_prob({chr(c)!r})[{j}]*6 = {prob(4*c+j)}, uniform weight wants {want}"
    return n, None


def c15_cell_search(ctx):
    n, bad = c15_cells(ctx)
    return bad


def c15_cli(ctx, broken):
    n, bad = c15_cells(ctx)
    res = {"summary": {"evaluations": n, "nontrivial": n, "exhaustive": True,
                       "what": "every cell of IUPAC (4x256), RC_IUPAC (256), is_ambiguous (256), base_to_prob (upper-case codes) evaluated against the set algebra"},
           "samples": [{"cell": "IUPAC[0*256+89] (A + Y)", "value": "H"}]}
    if bad:
        res["violation"] = {"kind": "table-cell", "cell": bad}
    return res


# ----------------------------------------------------------------------------- registry

REGISTRY = {
    "C15": {
        "level": "proof",
        "modules": ["SkaModel.Props.C15"],
        "gen": [],
        "cli": [c15_cli],
        "cell_search": c15_cell_search,
        "rule": "complete enumeration of the regenerated tables (every cell is a distinct case); non-trivial = all",
        "trusted_base": COMMON_TRUST + ["`skah tables` (tabulates the running code into Generated/Tables.lean on every run)"],
        "assumptions": ["base_to_prob is only applied to stored upper-case symbols (lower-case weights unconstrained)"],
    },
    "C16": {
        "level": "proof",
        "modules": ["SkaModel.Props.C16"],
        "gen": ["C16"],
        "rule": "generated per (k, width): all split k-mers for small k, structured + random integers, random sequences with N; non-trivial = distinct case lines whose result is a value (not none/panic)",
        "trusted_base": COMMON_TRUST,
        "assumptions": [EXTERNAL, "reverse ntHash seed of a base = forward seed of its complement (compared on every generated window)"],
    },
    "C01": {
        "level": "proof",
        "modules": ["SkaModel.Props.C01"],
        "gen": ["C01"],
        "cli": [cli.c01_cli],
        "rule": "record sets aimed at window boundaries (lengths k-1..k+2, N at 0..k+2 from either end, repeats, self-rc arms, mixed case), all 30 k, both strands, both widths; exhaustive {A,C,G,T,N}^<=L at k=5/7; non-trivial = distinct case lines yielding at least one k-mer",
        "trusted_base": COMMON_TRUST,
        "assumptions": [EXTERNAL],
    },
}
