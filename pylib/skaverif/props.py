"""Per-property configuration: proof modules, generators, CLI-level checks, evidence texts."""
import os
import re

from skaverif import core
from skaverif import cli

COMMON_TRUST = [
    "Lean 4.33.0 kernel; axioms propext, Classical.choice, Quot.sound only (audited with #print axioms on every run)",
    "no sorry/admit/axiom/native_decide/implemented_by in any model, spec, lemma or property file (grep on every run)",
    "correspondence harness /verif/harness (generators, canonicalisers), /verif/lean/SkaModel/Driver.lean (line protocol) and the Lean compiler executing the model definitions",
    "the reading of the natural-language property as the Lean statements in SkaModel/Props (kept apart from lemmas)",
]

EXTERNAL = "needletail (FASTA/FASTQ/gzip parsing), hashbrown/ahash (arbitrary iteration order), rayon, ndarray, snap, ciborium, noodles-vcf are modelled by their contracts, exercised only through the differential runs"


def matches_signature(sig, case, impl, model, spec):
    """Known-finding signatures: `op:<name>` / `re:<regex on the case line>`."""
    if sig.startswith("re:"):
        return re.search(sig[3:], case) is not None
    if sig.startswith("op:"):
        return case.startswith(sig[3:] + " ")
    return False


def replay_cli(ctx, payload):
    return cli.replay(ctx, payload)


# ----------------------------------------------------------------------------- C15 cell search

def _table(name):
    src = open(core.TABLES).read()
    m = re.search(r"def " + name + r" : Nat := (0x[0-9a-f]+)", src)
    n = int(m.group(1), 16)
    return lambda i: (n >> (8 * i)) & 255


LETTERS = {1: 'A', 2: 'C', 4: 'T', 8: 'G', 3: 'M', 5: 'W', 9: 'R', 6: 'Y', 10: 'S', 12: 'K', 7: 'H', 11: 'V', 13: 'D', 14: 'B', 15: 'N'}
MASKS = {v: k for k, v in LETTERS.items()}


def c15_cells(ctx):
    """Evaluate the C15 statements cell by cell on the regenerated tables; name the first wrong cell."""
    iupac, rc, amb, prob = _table("iupac"), _table("rcIupac"), _table("isAmbiguous"), _table("baseToProb6")
    n = 0
    for b in range(4):
        for c in range(256):
            n += 1
            m = MASKS.get(chr(c).upper()) if chr(c).isalpha() else None
            want = ord(LETTERS[m | (1 << b)]) if m else 0
            if iupac(b * 256 + c) != want:
                return n, f"IUPAC[{b}*256+{c}] ({'ACTG'[b]} + {chr(c)!r}) = {iupac(b*256+c)} ({chr(iupac(b*256+c))!r}), union algebra wants {want} ({chr(want)!r})"
    comp = lambda m: ((m & 3) << 2) | ((m >> 2) & 3)
    for c in range(256):
        n += 1
        m = MASKS.get(chr(c).upper()) if chr(c).isalpha() else None
        want = ord(LETTERS[comp(m)]) if m else 45
        if rc(c) != want:
            return n, f"RC_IUPAC[{c}] ({chr(c)!r}) = {chr(rc(c))!r}, complement of the set wants {chr(want)!r}"
    card = lambda m: bin(m).count("1")
    for c in range(256):
        n += 1
        ch = chr(c).upper()
        m = 4 if ch == 'U' else (MASKS.get(ch) if chr(c).isalpha() else None)
        if m is not None and bool(amb(c)) != (card(m) != 1):
            return n, f"is_ambiguous({chr(c)!r}) = {bool(amb(c))}"
        if c == 45 and amb(c):
            return n, "is_ambiguous('-') = true"
        if m is not None and c < 97:
            for j in range(4):
                want = 0 if m == 15 else (6 // card(m) if (m >> j) & 1 else 0)
                if prob(4 * c + j) != want:
                    return n, f"base_to_prob({chr(c)!r})[{j}]*6 = {prob(4*c+j)}, uniform weight wants {want}"
    return n, None


def c15_cell_search(ctx):
    n, bad = c15_cells(ctx)
    return bad


def c15_cli(ctx, broken):
    n, bad = c15_cells(ctx)
    res = {"summary": {"evaluations": n, "nontrivial": n, "exhaustive": True,
                       "what": "every cell of IUPAC (4x256), RC_IUPAC (256), is_ambiguous (256), base_to_prob (upper-case codes) evaluated against the set algebra"},
           "samples": [{"cell": "IUPAC[0*256+89] (A + Y)", "value": "H"}]}
    if bad:
        res["violation"] = {"kind": "table-cell", "cell": bad}
    return res


# ----------------------------------------------------------------------------- registry

REGISTRY = {
    "C15": {
        "level": "proof",
        "modules": ["SkaModel.Props.C15"],
        "gen": ["C15", "C12"],
        "cli": [c15_cli, cli.make_map_cli("C15", 60, 300)],
        "cell_search": c15_cell_search,
        "rule": "complete enumeration of the regenerated tables (every cell is a distinct case); the consumers of the tables in-process: one split k-mer seen several times with different middle bases in every order, multiplicity and strand, ordinary and self-complementary arms (IUPAC update and the W/S/N palindrome update) vs model and window specification; non-trivial = all",
        "trusted_base": COMMON_TRUST + ["`skah tables` (tabulates the running code into Generated/Tables.lean on every run)"],
        "assumptions": ["base_to_prob is only applied to stored upper-case symbols (lower-case weights unconstrained)"],
    },
    "C16": {
        "level": "proof",
        "modules": ["SkaModel.Props.C16", "SkaModel.Props.C16Bits", "SkaModel.Props.C16Roll", "SkaModel.Props.C16Hash"],
        "gen": ["C16"], "cli": [cli.c16_cli],
        "rule": "generated per (k, width): all split k-mers for small k, structured + random integers, random sequences with N; non-trivial = distinct case lines whose result is a value (not none/panic)",
        "trusted_base": COMMON_TRUST,
        "assumptions": [EXTERNAL, "reverse ntHash seed of a base = forward seed of its complement (compared on every generated window)"],
    },
    "C02": {
        "level": "proof", "modules": ["SkaModel.Props.C02", "SkaModel.Props.EndToEnd"], "gen": ["C02"], "cli": [cli.c02_cli, cli.c02_deep_cli, cli.joint_reads_cli],
        "rule": "record sets of C01 x transformations (record permutation, random case mask, per-record reverse complement when strands are merged, all together); in-process metamorphic comparison + CLI runs on re-wrapped/gzip-compressed/permuted files; non-trivial = distinct case lines yielding at least one k-mer",
        "trusted_base": COMMON_TRUST, "assumptions": [EXTERNAL, "gzip decompression and FASTA line joining (needletail) are exercised through the CLI only"],
    },
    "C03": {
        "level": "proof", "modules": ["SkaModel.Props.C03", "SkaModel.Props.EndToEnd", "SkaModel.Props.C03Names", "SkaModel.Props.C03FileList"], "gen": ["C03"], "cli": [cli.c03_cli, cli.names_cli, cli.filelist_cli],
        "rule": "file lists (-f) and names files (get_input_list / read_name_list in-process vs the model and vs the written entries: tab / blank / Unicode white-space separators, LF and CRLF, missing final line break, padding, refused lists with a blank, one-field or four-field line anywhere); sample names of file arguments (read_input_fastas in-process vs the model and vs the closed form of T03_name_path / T03_name_plain: directory prefixes, dots and blanks in stems, every case variant of the four extensions incl. the Unicode fold of s, line breaks, empty stems, doubled extensions, unknown extensions); in-process: sample families (1-3 contigs, isolated and non-isolated substitutions, contigs permuted / reverse-complemented per sample) through build_and_merge + align vs model and vs the joint-build table specification; CLI: repeat-free ancestors (predicate checked, resampled otherwise), isolated SNP sites at the exact boundary distances (h+1 apart, h from the ends), 2-10 samples, expected = exactly the planted columns; non-trivial = families with at least one variable site",
        "trusted_base": COMMON_TRUST, "assumptions": [EXTERNAL, "RepeatFree is the executable predicate: every canonical arm key occurs at one ancestor coordinate only over all samples and is not its own reverse complement"],
    },
    "C04": {
        "level": "proof", "modules": ["SkaModel.Props.C04", "SkaModel.Props.C04Writer", "SkaModel.Props.C04Map", "SkaModel.Props.C04Final"], "gen": ["C04"], "cli": [cli.make_map_cli("C04", 30, 400)],
        "rule": "references of 1-5 contigs (lengths 1, h, k-1, k, k+1, .., N runs, planted repeats on both strands, lower/mixed case) x samples derived by SNPs, indels, block deletions of every length 0..2k+2, rearranged/reverse-complemented/missing contigs, or tables with ambiguity codes; all four mask combinations; plus AlnWriter driven call by call with every gap length; non-trivial = distinct case lines with at least one mapped k-mer",
        "trusted_base": COMMON_TRUST, "assumptions": [EXTERNAL],
    },
    "C05": {
        "level": "proof", "modules": ["SkaModel.Props.C05", "SkaModel.Props.C05Map"], "gen": ["C05"], "cli": [cli.make_map_cli("C05", 30, 400)],
        "rule": "inputs of C04; VCF text parsed (CHROM, POS, REF, ALT, GT) and genotypes decoded through REF/ALT, compared with the alignment-derived specification; non-trivial = distinct case lines with at least one record",
        "trusted_base": COMMON_TRUST, "assumptions": [EXTERNAL, "noodles-vcf text rendering is trusted"],
    },
    "C11": {
        "level": "proof", "modules": ["SkaModel.Props.C11", "SkaModel.Props.C11Offsets", "SkaModel.Props.C18Derep", "SkaModel.Props.C17Pipe", "SkaModel.Props.C17Ref", "SkaModel.Props.C17Union"], "gen": [], "cli": [cli.c11_cli, cli.joint_reads_cli, cli.auto_mincount_cli, cli.c11_scale_cli],
        "rule": "a file of more than 32768 (thorough: 131072) split k-mers through distance / align / map with --threads 1/2/4: same exit status and result, distance = planted SNP count (c11_scale_cli); CLI matrix subcommand x input kind x threads x repetitions x sample counts on both sides of the 10-samples-per-thread rule (each process draws fresh hash seeds); non-trivial = distinct (sample count) families compared",
        "trusted_base": COMMON_TRUST, "assumptions": [EXTERNAL, "actual rayon scheduling and DashMap interleavings are sampled by the matrix, not proved"],
    },
    "C06": {
        "level": "proof", "modules": ["SkaModel.Props.C06"], "gen": ["C06"], "cli": [cli.make_hist_cli("C06", 40, 400), cli.freq_sweep_cli, cli.c06_big_cli],
        "rule": "random tables (1-12 samples, 0-13 rows, bases/gaps/ambiguity codes at several densities) x align observers over all four site filters, all flag combinations, thresholds 0..n, run through generic_modes::align with save/reload; non-trivial = distinct case lines with at least one emitted column",
        "trusted_base": COMMON_TRUST, "assumptions": [EXTERNAL, "the float expression ceil(n*min_freq) is glue: thresholds are passed as min_freq=(t-1/2)/n"],
    },
    "C07": {
        "level": "proof", "modules": ["SkaModel.Props.C07", "SkaModel.Props.EndToEnd"], "gen": ["C07"], "cli": [cli.make_hist_cli("C07", 40, 400)],
        "rule": "start table merged with 1-3 further tables (shared and private k-mers, 1-3 samples each, nested via reload), incl. refused merges (other k / strand), k across the 64/128-bit boundary; non-trivial = distinct case lines whose merge succeeded",
        "trusted_base": COMMON_TRUST, "assumptions": [EXTERNAL],
    },
    "C08": {
        "level": "proof", "modules": ["SkaModel.Props.C08", "SkaModel.Props.EndToEnd"], "gen": ["C08", "C10"], "cli": [cli.make_hist_cli("C08", 40, 400), cli.c08_big_cli, cli.c08_names_cli],
        "rule": "samples whose names contain , ; : = . or are prefixes / comma-joins of other names, deleted on the command line and via -f (c08_names_cli); tables of 2-8 samples; delete sets: first, last, adjacent block, alternating, random subset, shuffled order, all (refused), unknown (refused), partly unknown (refused), none (refused); non-trivial = accepted deletions",
        "trusted_base": COMMON_TRUST, "assumptions": [EXTERNAL],
    },
    "C09": {
        "level": "proof", "modules": ["SkaModel.Props.C09", "SkaModel.Props.C09Snappy", "SkaModel.Props.C09Frame"], "gen": [], "cli": [cli.c09_cli, cli.c09_snappy_cli, cli.make_map_cli("C09", 24, 200), cli.make_hist_cli("C09", 30, 300, gen_prop="C10"), cli.route_cli],
        "rule": "CLI merges of three files in all six orders and of four files in three orders (names in argument order, tables equal up to the column permutation); random tables for all 30 k x both widths (0-200 rows, 1-5 samples, all stored symbols; k>=33 families whose k-mers all fit in 64 bits; thorough: thousands of k-mers over several compression frames): saved by the real code, raw CBOR decoded + re-encoded by the model byte for byte; Snappy blocks written by the real compressor for every literal-length form, runs, periodic data around the 11-bit offset limit, low-entropy arrays and the serialised struct of real tables in 64 KiB blocks: parsed by the model into format elements, checked well-formed, denoting the data and re-serialising to the block, and decoded by model and snap alike, also on truncated and bit-flipped copies; CLI merge in both orders and map/weed/nk/distance/align on 64-bit-fitting k>=33 files; non-trivial = tables with at least one k-mer",
        "trusted_base": COMMON_TRUST, "assumptions": [EXTERNAL, "the Snappy compressor is not modelled: its contract (every block it writes is a well-formed element stream of the format denoting its data - the hypothesis of T09_snappy_block / T09_save_load) is validated on the blocks it writes in every run (operation snapblock); serde derive is exercised, not modelled"],
    },
    "C17": {
        "level": "proof", "modules": ["SkaModel.Props.C17", "SkaModel.Props.C17Pipe", "SkaModel.Props.C17Paths", "SkaModel.Props.C17Real", "SkaModel.Props.C17Ref", "SkaModel.Props.C17Complete", "SkaModel.Props.C17RefComplete", "SkaModel.Props.C18Derep", "SkaModel.Props.C17Union"], "gen": ["C17"], "cli": [cli.c17_cli],
        "rule": "helper inputs (columns over A/C/G/T/-/N, variant groups, writer inputs with and without a genome) vs the model; build_graph on canonical tables vs the model; the reference-free pipeline in-process (entry nodes, every variant group with sequences and marked positions, SNP columns, indel records) vs the model on ska-build tables of SNP/indel families and on dense random tables, one process per case; CLI: planted isolated-SNP families ((k-1)-mers unique on both strands, checked; SNPs >= 2k apart and from the ends; 3-10 samples; k 7-33; threads 1-8; with and without reference) with expected = planted truth, and arbitrary families (close SNPs, indels, missing data, several -m) for well-formedness; non-trivial = distinct helper cases with a value / families that ran",
        "trusted_base": COMMON_TRUST + ["hooked private helpers (feature verif-hooks): complement_snp, get_potential_snp, create_fasta_and_vcf, check_missing_data; the guarded sink record_groups in build_variant_groups"],
        "assumptions": [EXTERNAL, "completeness is proved for the reference-free caller (T17_complete) and, with the ancestor as reference, true coordinates / alleles / pseudo-genomes under SiteOK (T17_ref_complete, T17_ref_output); other references are decided by oracle runs; the pipeline model is tied to the code by correspondence, not by translation"],
    },
    "C18": {
        "level": "proof", "modules": ["SkaModel.Props.C18", "SkaModel.Props.C18Derep", "SkaModel.Props.C17Pipe", "SkaModel.Props.C17Paths", "SkaModel.Props.C18Complete", "SkaModel.Props.C17Union"], "gen": ["C18"], "cli": [cli.c18_cli],
        "rule": "every other planted family holds a strain-mixture sample (two records = two other samples) that must be genotyped 0/1 where they differ; insert extraction and de-replication inputs (shared entry k-mers, equal lengths, reverse-strand twins) vs the model; the reference-free pipeline in-process vs the model on indel-rich families and dense random tables (see C17); CLI: planted isolated indels (length 1-10, >= 4k apart, (k-1)-mers unique per sample), k in {11,15,21,31}, 3-8 samples, threads 1-4; every VCF record checked by substring search (carriers of REF/ALT exactly the genotyped samples, one planted indel each, none twice), recall measured; non-trivial = families that ran",
        "trusted_base": COMMON_TRUST + ["hooked private helpers (feature verif-hooks): extract_middle_bases, dereplicate_indels; the guarded sink record_groups in build_variant_groups"],
        "assumptions": [EXTERNAL, "T18_complete covers planted indels whose insert can slide by at most k-3 positions; indels with shift k-2 are never reported by the program (the short path is entry -> exit directly): they are the tolerated loss, and the 90% recall over random planted families is measured, not proved; the pipeline model is tied to the code by correspondence, not by translation"],
    },
    "C19": {
        "level": "fault_enumeration", "modules": ["SkaModel.Props.C19", "SkaModel.Props.C19Final"], "gen": [], "cli": [cli.c19_cli],
        "rule": "one flipped bit per sampled byte (thorough: every byte) and truncations through align / map / distance with --threads 2-3; complete enumeration of every truncation point and every single-bit flip of concrete .skf files (64- and 128-bit; thorough: also a multi-frame file at byte stride 9) through the real loader with the lib.rs dispatch; each fault is a distinct non-trivial case; the frame-decoder model is cross-checked against snap on a subset; random faults through every CLI subcommand",
        "trusted_base": COMMON_TRUST, "assumptions": [EXTERNAL, "flips inside compressed payloads / chunk type / length bytes are decided per file by enumeration, not by theorem (2^-32 CRC events)"],
    },
    "C12": {
        "level": "proof", "modules": ["SkaModel.Props.C12", "SkaModel.Props.C12Spec"], "gen": ["C12"], "cli": [cli.c12_cli, cli.auto_mincount_cli, cli.joint_reads_cli],
        "rule": "paired FASTQ read sets drawn from a small genome on both strands with errors and N, lengths k..3k, qualities at min_qual-1/min_qual/min_qual+1, min-count 1-6 (counts hit c-1, c, c+1 across files and strands), min-qual 0-40, three quality rules, k in {5..63}, both strand modes, self-reverse-complement arms; non-trivial = distinct case lines yielding at least one k-mer",
        "trusted_base": COMMON_TRUST, "assumptions": [EXTERNAL, "exactness is stated under the no-collision hypothesis (ntHash injective on the observed k-mers, no Bloom false positive among them); the collision rate is measured, not proved"],
    },
    "C20": {
        "level": "proof", "modules": ["SkaModel.Props.C20", "SkaModel.Props.C20Real"], "gen": [], "cli": [cli.c20_cli, cli.auto_mincount_cli],
        "rule": "parameter points (0<w0<1, c>=1, random and two-peak histograms of 1-120 rows) for likelihood/gradient (code vs model Float instance, and code gradient vs central finite differences of the code's likelihood); cutoff points over table lengths 0..200; generated read pairs (coverage 10-80, error 0-3%, N, both strand modes, k 15..33) through CoverageHistogram and `ska cov`; non-trivial = points compared away from rounding ties / pairs whose fit converged",
        "trusted_base": COMMON_TRUST + ["hooked private functions (feature verif-hooks): log_likelihood, grad_ll, find_cutoff, fitted state, k-mer multiplicities"],
        "assumptions": [EXTERNAL, "IEEE-754 evaluation of every f64 expression, libm::lgamma and the argmin BFGS fit are outside the model: formulas are compared numerically with tolerance, the fitted (w0, c) are taken from the code"],
    },
    "C10": {
        "level": "proof", "modules": ["SkaModel.Props.C10"], "gen": ["C10"], "cli": [cli.make_hist_cli("C10", 40, 400)],
        "rule": "random histories (length 1-8) over merge, delete, weed, reverse weed, frequency/constant/ambiguity filtering with and without --filter-ambig-as-missing/--ambig-mask, reload; every step through generic_modes with save+load; observers nk, 3 aligns, distance on the final file; non-trivial = distinct histories that ran to the end",
        "trusted_base": COMMON_TRUST, "assumptions": [EXTERNAL],
    },
    "C13": {
        "level": "proof", "modules": ["SkaModel.Props.C13", "SkaModel.Props.EndToEnd"], "gen": ["C13"], "cli": [cli.make_hist_cli("C13", 40, 400), cli.freq_sweep_cli, cli.c13_iupac_cli],
        "rule": "self-weed relation with ambiguity codes, lower case and N in the weed FASTA, forward and --reverse, both strand modes (c13_iupac_cli); tables x weed record sets that hit a random subset of rows on either strand (with N, noise, several records), forward, reverse and twice; non-trivial = distinct case lines where weeding removed or kept at least one k-mer",
        "trusted_base": COMMON_TRUST, "assumptions": [EXTERNAL],
    },
    "C14": {
        "level": "proof", "modules": ["SkaModel.Props.C14"], "gen": ["C14"], "cli": [cli.make_hist_cli("C14", 40, 400), cli.freq_sweep_cli],
        "rule": "tables of 2-12 samples (unambiguous, 1 in 4 with ambiguity codes for the model comparison), any missingness; distance with thresholds 0..n, with and without --allow-ambiguous, plus MergeSkaArray::distance with a given constant; integers exact (36 x distance), proportions to 2e-5 / 2e-9; non-trivial = all",
        "trusted_base": COMMON_TRUST, "assumptions": [EXTERNAL, "f64 evaluation and the printed rounding (.2/.5) are outside the model; compared with tolerance"],
    },
    "C01": {
        "level": "proof",
        "modules": ["SkaModel.Props.C01", "SkaModel.Props.C01Iter", "SkaModel.Props.C01Dict"],
        "gen": ["C01"],
        "cli": [cli.c01_cli, cli.c02_deep_cli],
        "rule": "record sets aimed at window boundaries (lengths k-1..k+2, N at 0..k+2 from either end, repeats, self-rc arms, mixed case), all 30 k, both strands, both widths; exhaustive {A,C,G,T,N}^<=L at k=5/7; non-trivial = distinct case lines yielding at least one k-mer",
        "trusted_base": COMMON_TRUST,
        "assumptions": [EXTERNAL],
    },
}
