"""Core of the check driver: build, proof audit, correspondence run, shrink, replay, evidence."""
import glob
import hashlib
import json
import os
import re
import shutil
import subprocess
import sys
import time

ROOT = os.path.dirname(os.path.dirname(os.path.dirname(os.path.abspath(__file__))))
HARNESS = os.path.join(ROOT, "harness")
LEAN = os.path.join(ROOT, "lean")
TARGET = os.path.join(HARNESS, "target")
SKAH = os.path.join(TARGET, "debug", "skah")
SKA = os.path.join(TARGET, "debug", "ska")
MODEL = os.path.join(LEAN, ".lake", "build", "bin", "skamodel")
TABLES = os.path.join(LEAN, "SkaModel", "Generated", "Tables.lean")
EVIDENCE = os.path.join(ROOT, "evidence")
REPLAYS = os.path.join(ROOT, "replays")
CORPUS = os.path.join(ROOT, "corpus")
KNOWN = os.path.join(ROOT, "known_findings.txt")

STD_AXIOMS = {"propext", "Classical.choice", "Quot.sound"}
FORBIDDEN = re.compile(r"\bsorry\b|\badmit\b|^axiom |native_decide|implemented_by|\bunsafe |maxHeartbeats 0", re.M)

ENV = dict(os.environ)
ENV["CARGO_NET_OFFLINE"] = "true"
ENV.setdefault("RUST_BACKTRACE", "0")


def sh(cmd, cwd=None, timeout=None, stdin=None, env=None):
    p = subprocess.run(cmd, cwd=cwd, input=stdin, stdout=subprocess.PIPE, stderr=subprocess.PIPE,
                       timeout=timeout, env=env or ENV, text=True)
    return p.returncode, p.stdout, p.stderr


class Ctx:
    """One invocation: scratch directory, counters, log."""

    def __init__(self, prop, tier, seed):
        self.prop, self.tier, self.seed = prop, tier, seed
        self.t0 = time.time()
        self.scratch = os.path.join(TARGET, f"run-{os.getpid()}")
        os.makedirs(self.scratch, exist_ok=True)
        self.log = []

    def note(self, msg):
        self.log.append(msg)
        print(f"[{self.prop}] {msg}", flush=True)

    def cleanup(self):
        shutil.rmtree(self.scratch, ignore_errors=True)


# --------------------------------------------------------------------------- build

def build_harness():
    """cargo build of harness + ska binary from /repo's working tree (incremental)."""
    rc, out, err = sh(["cargo", "build", "--offline", "--bins"], cwd=HARNESS, timeout=3600)
    return rc == 0, err[-4000:]


def regen_tables():
    rc, out, err = sh([SKAH, "tables"], timeout=120)
    if rc != 0:
        return False, err
    old = open(TABLES).read() if os.path.exists(TABLES) else None
    if old != out:
        tmp = TABLES + f".{os.getpid()}.tmp"
        with open(tmp, "w") as f:
            f.write(out)
        os.replace(tmp, TABLES)
    return True, ""


def lake_build(targets, timeout=7200):
    rc, out, err = sh(["lake", "build"] + targets, cwd=LEAN, timeout=timeout)
    return rc == 0, (out + err)[-6000:]


def setup():
    t0 = time.time()
    ok, log = build_harness()
    if not ok:
        print(log)
        print("setup: harness build failed")
        return 1
    ok, log = regen_tables()
    if not ok:
        print(log)
        return 1
    ok, log = lake_build(["SkaModel", "skamodel"])
    if not ok:
        print(log)
        print("setup: lake build failed")
        return 1
    print(f"setup ok in {time.time() - t0:.0f}s")
    return 0


# --------------------------------------------------------------------------- proof audit

def theorem_names(module_file):
    """-> (fully qualified theorem names, comment-free source); follows nested namespaces"""
    src = open(module_file).read()
    # strip comments
    src_nc = re.sub(r"/-.*?-/", "", src, flags=re.S)
    src_nc = re.sub(r"--.*", "", src_nc)
    stack, names = [], []
    for line in src_nc.splitlines():
        m = re.match(r"^namespace\s+(\S+)", line)
        if m:
            stack.append(m.group(1))
            continue
        m = re.match(r"^end\s+(\S+)", line)
        if m and stack and stack[-1] == m.group(1):
            stack.pop()
            continue
        # private theorems cannot be named from the audit file; they are reached through the
        # public theorems that use them (and by the forbidden-token scan)
        m = re.match(r"^(?:@\[[^\]]*\]\s*)?(?:protected\s+)?theorem\s+([A-Za-z0-9_'.]+)", line)
        if m:
            names.append(".".join(stack + [m.group(1)]))
    return names, src_nc


def audit_props(ctx, modules):
    """Returns (ok, info): build the property modules, list their theorems and axioms."""
    info = {"modules": modules, "theorems": [], "axioms": {}, "nonstandard_axioms": {}, "forbidden_tokens": []}
    ok, log = lake_build(modules + ["skamodel"])
    if not ok:
        info["build_log"] = log
        return False, info
    lines = ["import " + m for m in modules]
    allnames = []
    for m in modules:
        f = os.path.join(LEAN, m.replace(".", "/") + ".lean")
        names, src_nc = theorem_names(f)
        allnames.extend(names)
    # forbidden tokens anywhere in the model, specs, lemmas, props
    for f in glob.glob(os.path.join(LEAN, "SkaModel", "**", "*.lean"), recursive=True):
        _, src_nc = theorem_names(f)
        for mt in FORBIDDEN.finditer(src_nc):
            info["forbidden_tokens"].append(f"{os.path.relpath(f, LEAN)}: {mt.group(0).strip()}")
    for n in allnames:
        lines.append(f"#print axioms {n}")
    audit = os.path.join(ctx.scratch, "Audit.lean")
    with open(audit, "w") as f:
        f.write("\n".join(lines) + "\n")
    rc, out, err = sh(["lake", "env", "lean", audit], cwd=LEAN, timeout=1800)
    text = out + err
    if rc != 0:
        info["build_log"] = text[-3000:]
        return False, info
    for mt in re.finditer(r"^'([^\n]+?)' depends on axioms: \[([^\]]*)\]", text, flags=re.M):
        axs = [a.strip() for a in mt.group(2).replace("\n", " ").split(",") if a.strip()]
        info["axioms"][mt.group(1)] = axs
        extra = [a for a in axs if a not in STD_AXIOMS]
        if extra:
            info["nonstandard_axioms"][mt.group(1)] = extra
    for mt in re.finditer(r"^'([^\n]+?)' does not depend on any axioms", text, flags=re.M):
        info["axioms"][mt.group(1)] = []
    info["theorems"] = allnames
    missing = [n for n in allnames if n not in info["axioms"]]
    info["unaudited"] = missing
    bad_ax = info["nonstandard_axioms"]
    ok = (not missing) and (not info["forbidden_tokens"]) and (not bad_ax)
    return ok, info


# --------------------------------------------------------------------------- correspondence

def run_impl(ctx, lines, tag="c"):
    sd = os.path.join(ctx.scratch, f"impl-{tag}")
    rc, out, err = sh([SKAH, "run", sd], stdin="\n".join(lines) + "\n", timeout=7200)
    shutil.rmtree(sd, ignore_errors=True)
    if rc != 0:
        raise RuntimeError("skah run failed: " + err[-2000:])
    return out.splitlines()


def run_model(ctx, lines):
    rc, out, err = sh([MODEL], stdin="\n".join(lines) + "\n", timeout=7200)
    if rc != 0:
        raise RuntimeError("skamodel failed: " + err[-2000:])
    res = []
    for l in out.splitlines():
        if "\t" in l:
            m, s = l.split("\t", 1)
        else:
            m, s = l, "-"
        res.append((m, s))
    return res


def gen_cases(prop, tier, seed):
    rc, out, err = sh([SKAH, "gen", prop, tier, str(seed)], timeout=3600)
    if rc != 0:
        raise RuntimeError("skah gen failed: " + err[-2000:])
    return [l for l in out.splitlines() if l and not l.startswith("#")]


def corpus_cases(prop):
    out = []
    for f in sorted(glob.glob(os.path.join(CORPUS, prop, "*.cases"))):
        for l in open(f):
            l = l.strip()
            if l and not l.startswith("#"):
                out.append(l)
    return out


_TOL = re.compile(r"(~-?\d+)")


def part_eq(x, y):
    """equality of two result parts; numbers written `~n` may differ by 2 (rounded floats)"""
    if x == y:
        return True
    if "~" not in x or "~" not in y:
        return False
    px, py = _TOL.split(x), _TOL.split(y)
    if len(px) != len(py):
        return False
    for a, b in zip(px, py):
        if a == b:
            continue
        if a.startswith("~") and b.startswith("~"):
            try:
                if abs(int(a[1:]) - int(b[1:])) <= 2:
                    continue
            except ValueError:
                pass
        return False
    return True


def res_eq(impl, other):
    """impl result vs model/spec result: space separated parts; a part `-` in `other` is not compared"""
    if impl == other:
        return True
    pi, po = impl.split(" "), other.split(" ")
    if len(pi) != len(po):
        return False
    return all(o == "-" or part_eq(i, o) for i, o in zip(pi, po))


def compare(cases, impl, model):
    """-> list of (index, kind) with kind in {'spec','model'}"""
    bad = []
    for i, (c, r, (m, s)) in enumerate(zip(cases, impl, model)):
        if s != "-" and not res_eq(r, s):
            bad.append((i, "spec"))
        elif not res_eq(r, m):
            bad.append((i, "model"))
    return bad


SHRINK_KEYS = ["recs", "seq", "rows", "matches", "ref", "samples", "reads", "a", "b"]


def _mismatch_kind(ctx, line):
    try:
        r = run_impl(ctx, [line], "s")[0]
        m, s = run_model(ctx, [line])[0]
    except Exception:
        return None
    if s != "-" and not res_eq(r, s):
        return "spec"
    if not res_eq(r, m):
        return "model"
    return None


def shrink(ctx, line, kind, budget=400):
    """Greedy delta-debugging on the list/sequence parameters of a case line."""
    toks = line.split(" ")
    tries = 0

    def attempt(newtoks):
        nonlocal tries
        tries += 1
        return _mismatch_kind(ctx, " ".join(newtoks)) == kind

    changed = True
    while changed and tries < budget:
        changed = False
        for ti, tok in enumerate(toks):
            if "=" not in tok:
                continue
            key, val = tok.split("=", 1)
            if key not in SHRINK_KEYS or val in ("~", "."):
                continue
            items = val.split(",") if "," in val else None
            if items and len(items) > 1:
                for j in range(len(items)):
                    cand = items[:j] + items[j + 1:]
                    nt = toks[:ti] + [key + "=" + ",".join(cand)] + toks[ti + 1:]
                    if tries < budget and attempt(nt):
                        toks = nt
                        changed = True
                        break
                if changed:
                    break
            # character-level chunks on each item
            its = items if items else [val]
            for j, it in enumerate(its):
                n = len(it)
                chunk = max(1, n // 2)
                done = False
                while chunk >= 1 and not done and tries < budget:
                    pos = 0
                    while pos < len(it) and tries < budget:
                        cand_it = it[:pos] + it[pos + chunk:]
                        if cand_it == "":
                            cand_it = "."
                        cand = its[:j] + [cand_it] + its[j + 1:]
                        nt = toks[:ti] + [key + "=" + ",".join(cand)] + toks[ti + 1:]
                        if attempt(nt):
                            toks = nt
                            its = cand
                            it = cand_it
                            changed = True
                        else:
                            pos += chunk
                    chunk //= 2
    return " ".join(toks)


# --------------------------------------------------------------------------- known findings

def load_known():
    finds = []
    if os.path.exists(KNOWN):
        for l in open(KNOWN):
            l = l.strip()
            mt = re.match(r"finding:\s+property=(\S+)\s+sig=(\S+)\s+(.*)", l)
            if mt:
                finds.append({"property": mt.group(1), "sig": mt.group(2), "text": mt.group(3)})
    return finds


# --------------------------------------------------------------------------- replay / evidence

def write_replay(ctx, payload):
    os.makedirs(REPLAYS, exist_ok=True)
    h = hashlib.sha1(json.dumps(payload, sort_keys=True).encode()).hexdigest()[:8]
    path = os.path.join(REPLAYS, f"{ctx.prop}-{ctx.seed}-{h}.json")
    with open(path, "w") as f:
        json.dump(payload, f, indent=1)
    return path


def write_evidence(ctx, level, coverage, assumptions, violations):
    os.makedirs(EVIDENCE, exist_ok=True)
    ev = {
        "property_id": ctx.prop,
        "tier": ctx.tier,
        "seed": ctx.seed,
        "level": level,
        "coverage": coverage,
        "assumptions": assumptions,
        "wall_s": round(time.time() - ctx.t0, 2),
        "violations": violations,
    }
    path = os.path.join(EVIDENCE, f"{ctx.prop}.json")
    tmp = path + f".{os.getpid()}.tmp"
    with open(tmp, "w") as f:
        json.dump(ev, f, indent=1)
    os.replace(tmp, path)


def replay(path):
    payload = json.load(open(path))
    prop = payload.get("property", "C00")
    ctx = Ctx(prop, "quick", 0)
    try:
        ok, log = build_harness()
        if not ok:
            print("harness build failed")
            print(log)
            return 1
        regen_tables()
        lake_build(["skamodel"])
        status = 0
        for c in payload.get("cases", []):
            line = c["case"]
            r = run_impl(ctx, [line], "r")[0]
            m, s = run_model(ctx, [line])[0]
            agree = res_eq(r, m) and (s == "-" or res_eq(r, s))
            print(f"case:  {line}\nimpl:  {r}\nmodel: {m}\nspec:  {s}\n=> {'agree' if agree else 'DISAGREE'}")
            if not agree:
                status = 1
        if "cli" in payload:
            from skaverif import props
            status |= props.replay_cli(ctx, payload["cli"])
        if payload.get("broken"):
            print("broken obligation recorded in this replay:", payload["broken"])
        return status
    finally:
        ctx.cleanup()


# --------------------------------------------------------------------------- main per-property run

def run_property(prop, tier, seed):
    from skaverif import props
    spec = props.REGISTRY.get(prop)
    if spec is None:
        print(f"unknown property {prop}")
        return 2
    ctx = Ctx(prop, tier, seed)
    try:
        return _run_property(ctx, spec)
    finally:
        ctx.cleanup()


def _violation(ctx, spec, coverage, payload, no_input=False, nviol=1):
    payload["property"] = ctx.prop
    payload["tier"] = ctx.tier
    payload["seed"] = ctx.seed
    path = write_replay(ctx, payload)
    write_evidence(ctx, spec["level"], coverage, spec.get("assumptions", []), nviol)
    tail = " no-failing-input-found" if no_input else ""
    print(f"VIOLATION property={ctx.prop} replay={path}{tail}", flush=True)
    return 1


def _run_property(ctx, spec):
    from skaverif import props
    prop, tier, seed = ctx.prop, ctx.tier, ctx.seed
    coverage = {
        "obligations": 0, "discharged": 0,
        "checker_cmd": "lake build " + " ".join(spec["modules"]) + " && lake env lean <#print axioms of every theorem>",
        "trusted_base": list(spec.get("trusted_base", [])),
        "evaluations": 0, "distinct_nontrivial": 0,
        "rule": spec.get("rule", ""), "samples": [],
        "programs": 1, "disagreements_checked": 0,
    }
    # 1. build
    ok, log = build_harness()
    if not ok:
        ctx.note("harness / ska build failed")
        coverage["evaluations"] = 1
        coverage["explanation"] = "the harness no longer builds against /repo's working tree"
        # search through the CLI is impossible without a binary; report the broken tie
        return _violation(ctx, spec, coverage, {"broken": "harness build (public API used by the correspondence check)", "log": log[-3000:]}, no_input=True)
    ok, log = regen_tables()
    if not ok:
        return _violation(ctx, spec, coverage, {"broken": "skah tables", "log": log}, no_input=True)
    # 2. proofs
    proofs_ok, info = audit_props(ctx, spec["modules"])
    if proofs_ok and tier == "thorough":
        # independent re-check of the compiled declarations of the property modules
        from concurrent.futures import ThreadPoolExecutor
        def _lc(m):
            rc, out, err = sh(["lake", "env", "leanchecker", m], cwd=LEAN, timeout=3600)
            return m, rc, (out + err)[-800:]
        with ThreadPoolExecutor(max_workers=6) as ex:
            res = list(ex.map(_lc, spec["modules"]))
        bad = [(m, log) for m, rc, log in res if rc != 0]
        info["leanchecker"] = {m: ("ok" if rc == 0 else "failed") for m, rc, _ in res}
        if bad:
            proofs_ok = False
            info["build_log"] = "leanchecker rejected: " + "; ".join(f"{m}: {log}" for m, log in bad)
    coverage["obligations"] = len(info.get("theorems", [])) or 1
    coverage["discharged"] = len([t for t in info.get("theorems", []) if t in info.get("axioms", {})]) if proofs_ok else 0
    coverage["axioms"] = info.get("axioms", {})
    coverage["nonstandard_axioms"] = info.get("nonstandard_axioms", {})
    coverage["theorems"] = info.get("theorems", [])
    if info.get("leanchecker"):
        coverage["leanchecker"] = info["leanchecker"]
    broken = None
    if not proofs_ok:
        broken = {"broken": "proof obligations of " + ",".join(spec["modules"]),
                  "log": info.get("build_log", ""), "forbidden": info.get("forbidden_tokens", []),
                  "unaudited": info.get("unaudited", [])}
        ctx.note("PROOFS BROKEN: " + (info.get("build_log", "")[-1500:] or str(info)))
        # model driver may be stale; try to build it alone so the search below can still run
        ok_m, _ = lake_build(["skamodel"])
        if not ok_m and not os.path.exists(MODEL):
            return _violation(ctx, spec, coverage, broken, no_input=True)
    else:
        ctx.note(f"{coverage['discharged']} theorems re-checked, axioms within allow-list")
    # table cell search (C15 style) when proofs over generated tables break
    if broken and spec.get("cell_search"):
        cell = spec["cell_search"](ctx)
        if cell:
            broken["failing_cell"] = cell
            return _violation(ctx, spec, coverage, broken, no_input=False)
    # 3. correspondence
    known = [k for k in load_known() if k["property"] == prop]
    printed_known = set()
    stats = {"ops": {}, "result_kinds": {}}
    viol_payload = None
    no_input = True
    total = 0
    nontrivial = set()
    disagreements = 0
    samples = []
    rounds = 1 if not broken else 4  # a broken obligation buys a wider search
    for rnd in range(rounds):
        cases = []
        if rnd == 0:
            cases += corpus_cases(prop)
        if spec.get("gen"):
            for g in spec["gen"]:
                cases += gen_cases(g, tier, seed + 1000 * rnd)
        if not cases:
            break
        impl = run_impl(ctx, cases)
        model = run_model(ctx, cases)
        if len(impl) != len(cases) or len(model) != len(cases):
            raise RuntimeError(f"result count mismatch {len(cases)} {len(impl)} {len(model)}")
        total += len(cases)
        for c, r in zip(cases, impl):
            op = c.split(" ", 1)[0]
            stats["ops"][op] = stats["ops"].get(op, 0) + 1
            kind = r if r in ("none", "novalid", "refused", "~") or r.startswith("panic") else "value"
            stats["result_kinds"][kind] = stats["result_kinds"].get(kind, 0) + 1
            if kind == "value":
                nontrivial.add(c)
        if rnd == 0:
            step = max(1, len(cases) // 5)
            for i in range(0, len(cases), step):
                samples.append({"case": cases[i][:400], "impl": impl[i][:200]})
        bad = compare(cases, impl, model)
        disagreements += len(bad)
        if bad:
            # prefer a spec-level failure (a concrete input on which the property fails)
            bad.sort(key=lambda t: (t[1] != "spec", len(cases[t[0]])))
            i, kind = bad[0]
            line = cases[i]
            ctx.note(f"disagreement ({kind}) on: {line[:300]}")
            small = shrink(ctx, line, kind)
            r = run_impl(ctx, [small], "v")[0]
            m, s = run_model(ctx, [small])[0]
            # known finding?
            matched = None
            for k in known:
                if props.matches_signature(k["sig"], small, r, m, s):
                    matched = k
            if matched and all(props.matches_signature(matched["sig"], cases[j], impl[j], model[j][0], model[j][1]) for j, _ in bad):
                printed_known.add(matched["sig"])
                print(f"KNOWN-FINDING: property={prop} {matched['sig']}: {matched['text'][:200]} (observed in this run)")
            else:
                viol_payload = {"cases": [{"case": small, "impl": r, "model": m, "spec": s, "original": line}],
                                "kind": "impl differs from " + ("specification (property oracle)" if kind == "spec" else "implementation model"),
                                "n_disagreements": len(bad)}
                no_input = (kind != "spec")
                break
    coverage["evaluations"] = total
    coverage["distinct_nontrivial"] = len(nontrivial)
    coverage["samples"] = samples[:8]
    coverage["disagreements_checked"] = disagreements
    coverage["input_distribution"] = stats
    # 4. CLI-level checks for the glue outside the model
    if viol_payload is None and spec.get("cli"):
        for fn in spec["cli"]:
            try:
                res = fn(ctx, broken is not None)
            except Exception as e:   # output the runner cannot even parse (NaN, missing columns, ...) is a result that differs, not a crash
                import traceback
                res = {"summary": {"evaluations": 0, "nontrivial": 0},
                       "violation": {"kind": "runner-exception", "what": f"{fn.__name__} could not interpret what the code produced: {e!r}",
                                     "traceback": traceback.format_exc()[-1500:]},
                       "no_input": True}
            coverage.setdefault("cli", {})[fn.__name__] = res["summary"]
            coverage["evaluations"] += res["summary"].get("evaluations", 0)
            coverage["distinct_nontrivial"] += res["summary"].get("nontrivial", 0)
            if res.get("samples"):
                coverage["samples"] += res["samples"][:2]
            if res.get("known"):
                for k in res["known"]:
                    printed_known.add(k.split(":")[0])
                    print(f"KNOWN-FINDING: property={prop} {k} (observed in this run)")
            if res.get("violation"):
                viol_payload = {"cli": res["violation"], "kind": "CLI result differs from the specification"}
                no_input = bool(res.get("no_input"))
                break
    if spec.get("exhaustive_note") and tier == "thorough":
        coverage["exhaustive_scopes"] = spec["exhaustive_note"]
    # every listed finding of this property is reported on every run, observed or not
    for k in known:
        if k["sig"] not in printed_known:
            print(f"KNOWN-FINDING: property={prop} {k['sig']}: {k['text'][:200]} (listed; its trigger did not occur among this run's inputs)")
    if viol_payload is not None:
        if broken:
            viol_payload["broken"] = broken["broken"]
        return _violation(ctx, spec, coverage, viol_payload, no_input=no_input)
    if broken:
        return _violation(ctx, spec, coverage, broken, no_input=True)
    write_evidence(ctx, spec["level"], coverage, spec.get("assumptions", []), 0)
    ctx.note(f"OK: {coverage['evaluations']} evaluations ({coverage['distinct_nontrivial']} distinct non-trivial), 0 unexplained disagreements, {time.time() - ctx.t0:.0f}s")
    return 0
