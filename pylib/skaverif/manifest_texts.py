"""Texts for MANIFEST.json (level_claimed.text, level_note, technique) per property."""

STD = "Trusted: Lean kernel + propext/Classical.choice/Quot.sound; the correspondence harness, line-protocol driver and Lean compiler; the reading of the property as Lean statements. Third-party crates are modelled by contract and exercised only differentially."

TEXTS = {
    "C15": {
        "text": "Proof. The look-up tables are regenerated from the running code on every run and every statement of the property is proved over them: complete kernel enumeration (decide +kernel) of all 1024+256+256+1024 cells, lifted to all bytes, plus an induction (T15_fold) showing the stored code after any observation sequence is the letter of the set of bases, hence order- and multiplicity-independent.",
        "note": STD + " Additionally trusted: `skah tables`, which tabulates the running functions. Lower-case inputs to base_to_prob are deliberately unconstrained.",
        "technique": "Lean 4 proof over tables regenerated from the code (decide +kernel + induction)",
    },
    "C16": {
        "text": "Proof of the bit-level model (masks, packing, reverse complement, rolling update, ntHash) for every valid k and both widths, tied to the code by differential runs over all k x both widths incl. complete enumeration of all split k-mers for small k. Theorems proved so far are listed in the evidence file; statements not yet proved are carried by the correspondence run against the executable specification.",
        "note": STD,
        "technique": "Lean 4 refinement proof + differential correspondence with the Rust code",
    },
    "C01": {
        "text": "Proof that the modelled rolling state machine and dictionary accumulation refine the window/set specification, tied to the code by step-by-step differential runs of the public iterator, SkaDict::new and the CLI (build + nk --full-info), incl. exhaustive enumeration of all sequences over {A,C,G,T,N} up to a length bound at k=5/7. Theorems proved so far are listed in the evidence file; the rest of the refinement is carried by comparing the code with the executable specification.",
        "note": STD,
        "technique": "Lean 4 refinement proof + differential correspondence with the Rust code",
    },
}

NOT_YET = {}
