"""Texts for MANIFEST.json (level_claimed.text, level_note, technique) per property."""

STD = "Trusted: Lean kernel + propext/Classical.choice/Quot.sound; the correspondence harness, line-protocol driver and Lean compiler; the reading of the property as Lean statements. Third-party crates are modelled by contract and exercised only differentially."

TEXTS = {
    "C15": {
        "text": "Proof. The look-up tables are regenerated from the running code on every run and every statement of the property is proved over them: complete kernel enumeration (decide +kernel) of all 1024+256+256+1024 cells, lifted to all bytes, plus an induction (T15_fold) showing the stored code after any observation sequence is the letter of the set of bases, hence order- and multiplicity-independent.",
        "note": STD + " Additionally trusted: `skah tables`, which tabulates the running functions. Lower-case inputs to base_to_prob are deliberately unconstrained.",
        "technique": "Lean 4 proof over tables regenerated from the code (decide +kernel + induction)",
    },
    "C16": {
        "text": "Proof of the bit-level model (masks, packing, reverse complement, rolling update, ntHash) for every valid k and both widths, tied to the code by differential runs over all k x both widths incl. complete enumeration of all split k-mers for small k. Theorems proved so far are listed in the evidence file; statements not yet proved are carried by the correspondence run against the executable specification.",
        "note": STD,
        "technique": "Lean 4 refinement proof + differential correspondence with the Rust code",
    },
    "C01": {
        "text": "Proof that the modelled rolling state machine and dictionary accumulation refine the window/set specification, tied to the code by step-by-step differential runs of the public iterator, SkaDict::new and the CLI (build + nk --full-info), incl. exhaustive enumeration of all sequences over {A,C,G,T,N} up to a length bound at k=5/7. Theorems proved so far are listed in the evidence file; the rest of the refinement is carried by comparing the code with the executable specification.",
        "note": STD,
        "technique": "Lean 4 refinement proof + differential correspondence with the Rust code",
    },
}

_TBL = "Lean 4 refinement proof (array model vs plain-table specification) + differential correspondence with the Rust code"

def _t(text):
    return {"text": text, "note": STD, "technique": _TBL}

TEXTS.update({
    "C06": _t("Proof that the modelled MergeSkaArray::filter/write_fasta emit exactly the rows the documented predicate (presence threshold + site filter) selects, with masking, for all tables and flags; tied to the code by running generic_modes::align on random tables over all filters/flags/thresholds and comparing with both the model and the table specification. Theorems proved so far are listed in the evidence file."),
    "C07": _t("Proof that to_dict/extend/new compute the column concatenation of the tables (gap padded) and refuse other k/strand; tied to the code by running generic_modes::merge on random table families (nested, 64/128-bit k) against model and specification. Theorems proved so far are listed in the evidence file."),
    "C08": _t("Proof that delete_samples equals column removal plus removal of emptied rows and refuses unknown/all/no names; tied to the code by running generic_modes::delete on random tables and delete sets, comparing file contents after acceptance and after refusal. Theorems proved so far are listed in the evidence file."),
    "C10": _t("Proof that every operation of the modelled state machine refines the corresponding plain-table operation and that no observer reads state other than names, k-mers and bases (stored counts are recomputed before use); tied to the code by random operation histories with save/reload at every step, observers compared with the table specification. Theorems proved so far are listed in the evidence file."),
    "C13": _t("Proof that weed keeps exactly the rows whose key is (not) among the weed sequences' split k-mers, leaves cells and names untouched, partitions the file and is idempotent; tied to the code by random weed sets hitting table rows on either strand. Theorems proved so far are listed in the evidence file."),
    "C14": _t("Proof over exact arithmetic (weights scaled by 6) that the modelled distance pipeline reports SNP counts over shared k-mers and |exactly one|/|at least one| for each unordered pair once, under any frequency threshold; tied to the code by random tables through generic_modes::distance and MergeSkaArray::distance. f64 printing is compared with tolerance. Theorems proved so far are listed in the evidence file."),
})

TEXTS.update({
    "C02": {"text": "Proof at the specification level that the set of middle bases per canonical split k-mer is invariant under record permutation, any case mask and (strands merged) reverse-complementing any subset of records (T02_perm, T02_case, T02_revcomp, combined T02), which with C01's refinement theorem transfers to the modelled build; sample permutation permutes columns (T02_samples in Props/C11). Tied to the code by metamorphic in-process runs and CLI runs on re-wrapped, gzip-compressed and permuted files.", "note": STD + " gzip decompression and FASTA line joining are not modelled (needletail); they are covered by the CLI runs only.", "technique": "Lean 4 proof on the window specification + metamorphic differential runs"},
    "C04": {"text": "Position-wise specification of ska map and an executable model of RefSka::new/map, the repeat-range loop and AlnWriter; the model is compared with the code and the specification on every case (references with short contigs, N runs, repeats, lower case; samples with SNPs/indels/rearrangements; all mask combinations; AlnWriter call by call). Theorems proved so far are listed in the evidence file; the writer refinement theorem is in progress, until then the model=spec half rests on these runs.", "note": STD, "technique": "Lean 4 model + specification, differential correspondence (refinement proof in progress)"},
    "C05": {"text": "Model of IdxCheck and of write_vcf's per-column conversion, specification relating VCF records to the mapped alignment; compared with the code (VCF text parsed and decoded through REF/ALT) on the inputs of C04. Theorems proved so far are listed in the evidence file.", "note": STD + " noodles-vcf rendering is trusted.", "technique": "Lean 4 model + specification, differential correspondence (refinement proof in progress)"},
    "C11": {"text": "Proof that the modelled parallel split tree (any depth, hence any thread count, both sides of the 10-samples rule) yields the same names, key set and cells as the serial build (T11_tree, T11_threads), that column i is sample i's dictionary (T02_samples) and that map iteration order only permutes rows (T11_order). The runtime part (rayon scheduling, hash seeds, pool initialisation) is decided by a CLI matrix over subcommands x input kinds x thread counts x repetitions, labelled as exploration in the evidence.", "note": STD + " Thread schedules are sampled, not proved.", "technique": "Lean 4 proof of schedule-independence of the modelled logic + CLI thread matrix"},
})

TEXTS.update({
    "C09": {"text": "CBOR-level model of the serialised MergeSkaArray (field order, shortest-form heads, plain integer vs tag-2 big integer for 128-bit k-mers, width-specific decoding, the k_bits check and the try-64-then-128 dispatch). Every file the real code saves is decoded by the model and re-encoded byte for byte; width acceptance and dispatch are compared for all 30 k and both widths, including k>=33 files whose k-mers fit in 64 bits. Theorems proved so far are listed in the evidence file; the round-trip/dispatch theorems are in progress.", "note": STD + " Snappy compression and serde derive are trusted (exercised by every run).", "technique": "Lean 4 model of the CBOR layout + byte-for-byte differential check (round-trip proof in progress)"},
    "C19": {"text": "Fault enumeration: every truncation point and every single-bit flip of concrete .skf files goes through the real loader (with the lib.rs width dispatch) and must be rejected or decode to exactly the original content; random faults additionally go through every CLI subcommand. A Lean model of the Snappy frame decoder (chunk grammar, length checks, masked CRC-32C, raw Snappy block decompression) is cross-checked against the snap crate on the same faults; theorems about it (truncation, identifier and CRC-field flips) are listed in the evidence file as they are proved.", "note": STD + " Flips in compressed payloads and chunk type/length bytes are decided by enumeration per file, not by theorem.", "technique": "exhaustive fault enumeration on the real loader + Lean frame-decoder model cross-check"},
})

TEXTS.update({
    "C12": {"text": "Model of the read branch of build (quality rules in build/roll_fwd/middle_base_qual, ntHash, blocked Bloom filter with its fingerprint/location arithmetic, count table with saturating add and the exact-count rule) and a counting specification over canonical full k-mers. The code is compared with both on generated paired FASTQ sets whose qualities and counts sit exactly on the thresholds. Theorems proved so far are listed in the evidence file; exactness is a theorem only under an explicit no-collision hypothesis, the <0.1% collision bound is measured.", "note": STD + " Hash collisions of the counting filter are outside the theorem (hypothesis Ideal).", "technique": "Lean 4 model + counting specification, differential correspondence (proofs under a no-collision hypothesis)"},
})

NOT_YET = {}
