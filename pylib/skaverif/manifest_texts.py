"""Texts for MANIFEST.json (level_claimed.text, level_note, technique) per property."""

STD = "Trusted: Lean kernel + propext/Classical.choice/Quot.sound; the correspondence harness, line-protocol driver and Lean compiler; the reading of the property as Lean statements. Third-party crates are modelled by contract and exercised only differentially."

TEXTS = {
    "C15": {
        "text": "Proof. The look-up tables are regenerated from the running code on every run and every statement of the property is proved over them: complete kernel enumeration (decide +kernel) of all 1024+256+256+1024 cells, lifted to all bytes, plus an induction (T15_fold) showing the stored code after any observation sequence is the letter of the set of bases, hence order- and multiplicity-independent.",
        "note": STD + " Additionally trusted: `skah tables`, which tabulates the running functions. Lower-case inputs to base_to_prob are deliberately unconstrained.",
        "technique": "Lean 4 proof over tables regenerated from the code (decide +kernel + induction)",
    },
    "C16": {
        "text": "Proof of the bit-level model (masks, packing, reverse complement, rolling update, ntHash) for every valid k and both widths, tied to the code by differential runs over all k x both widths incl. complete enumeration of all split k-mers for small k. Theorems proved so far are listed in the evidence file; statements not yet proved are carried by the correspondence run against the executable specification.",
        "note": STD,
        "technique": "Lean 4 refinement proof + differential correspondence with the Rust code",
    },
    "C01": {
        "text": "Proof that the modelled rolling state machine and dictionary accumulation refine the window/set specification, tied to the code by step-by-step differential runs of the public iterator, SkaDict::new and the CLI (build + nk --full-info), incl. exhaustive enumeration of all sequences over {A,C,G,T,N} up to a length bound at k=5/7. Theorems proved so far are listed in the evidence file; the rest of the refinement is carried by comparing the code with the executable specification.",
        "note": STD,
        "technique": "Lean 4 refinement proof + differential correspondence with the Rust code",
    },
}

_TBL = "Lean 4 refinement proof (array model vs plain-table specification) + differential correspondence with the Rust code"

def _t(text):
    return {"text": text, "note": STD, "technique": _TBL}

TEXTS.update({
    "C06": _t("Proof that the modelled MergeSkaArray::filter/write_fasta emit exactly the rows the documented predicate (presence threshold + site filter) selects, with masking, for all tables and flags; tied to the code by running generic_modes::align on random tables over all filters/flags/thresholds and comparing with both the model and the table specification. Theorems proved so far are listed in the evidence file."),
    "C07": _t("Proof that to_dict/extend/new compute the column concatenation of the tables (gap padded) and refuse other k/strand; tied to the code by running generic_modes::merge on random table families (nested, 64/128-bit k) against model and specification. Theorems proved so far are listed in the evidence file."),
    "C08": _t("Proof that delete_samples equals column removal plus removal of emptied rows and refuses unknown/all/no names; tied to the code by running generic_modes::delete on random tables and delete sets, comparing file contents after acceptance and after refusal. Theorems proved so far are listed in the evidence file."),
    "C10": _t("Proof that every operation of the modelled state machine refines the corresponding plain-table operation and that no observer reads state other than names, k-mers and bases (stored counts are recomputed before use); tied to the code by random operation histories with save/reload at every step, observers compared with the table specification. Theorems proved so far are listed in the evidence file."),
    "C13": _t("Proof that weed keeps exactly the rows whose key is (not) among the weed sequences' split k-mers, leaves cells and names untouched, partitions the file and is idempotent; tied to the code by random weed sets hitting table rows on either strand. Theorems proved so far are listed in the evidence file."),
    "C14": _t("Proof over exact arithmetic (weights scaled by 6) that the modelled distance pipeline reports SNP counts over shared k-mers and |exactly one|/|at least one| for each unordered pair once, under any frequency threshold; tied to the code by random tables through generic_modes::distance and MergeSkaArray::distance. f64 printing is compared with tolerance. Theorems proved so far are listed in the evidence file."),
})

NOT_YET = {}
