#!/bin/bash
# process_seed.sh <worktree-id e.g. C01b> [extra checks...]: confirm the seed in its worktree, import it, run the property's own quick check against it
set -u
WID=$1; shift
PID=${WID:0:3}
SFX=${WID:3}
cd /verif
bash pylib/confirm_seed.sh /tmp/mut/$WID 2>&1 | tail -1
mkdir -p seeded/$PID-$SFX
cp /tmp/mut/$WID/patch.diff /tmp/mut/$WID/demo.sh /tmp/mut/$WID/NOTES.md seeded/$PID-$SFX/ 2>/dev/null
python3 pylib/seedtest.py seeded/$PID-$SFX/patch.diff $PID "$@" 2>&1 | tail -4
