#!/usr/bin/env python3-vt
import json, glob, sys
from jsonschema import validate
validate(json.load(open('/verif/MANIFEST.json')), json.load(open('/root/.vp/MANIFEST.schema.json')))
print("manifest valid")
sch = json.load(open('/root/.vp/EVIDENCE.schema.json'))
for f in sorted(glob.glob('/verif/evidence/*.json')):
    validate(json.load(open(f)), sch); print("valid", f)
