/-
Driver code for the `map` and `alnw` operations (C04, C05).
-/
import SkaModel.Impl.RefSka
import SkaModel.Spec.MapSpec
import SkaModel.Spec.Dict
import SkaModel.DriverBase
import SkaModel.DriverHist

namespace SkaModel.Driver

open SkaModel

def arrStr (a : Array UInt8) : String := strOf a.toList

/-- per-sample record lists `r1+r2|r3` -/
def parseSamples (s : String) : List (List (Array UInt8)) :=
  (s.splitOn "|").map (fun smp => (smp.splitOn "+").map (fun r => (bytesOf (if r == "." then "" else r)).toArray))

def chStr (b : UInt8) : String := String.singleton (Char.ofNat b.toNat)

def showVcfRaw (recs : List RefSka.VcfRecord) : String :=
  joinStr (recs.map (fun r =>
    let alts := if r.alts.isEmpty then "." else String.intercalate "/" (r.alts.map chStr)
    s!"{r.chrom}:{r.pos}:{chStr r.ref}:{alts}:{String.intercalate "/" r.gts}"))

def decodeGt (r : RefSka.VcfRecord) (g : String) : Char :=
  if g == "." then '.' else if g == "0" then Char.ofNat r.ref.toNat
  else Char.ofNat ((r.alts.getD ((g.toNat?.getD 1) - 1) 63).toNat)

def showVcfDec (recs : List RefSka.VcfRecord) : String :=
  joinStr (recs.map (fun r => s!"{r.chrom}:{r.pos}:{chStr r.ref}:{String.ofList (r.gts.map (decodeGt r))}"))

/-- the sample dictionary both ways: model (`MDict`) and spec (names, key ↦ row); `none` = a sample has no valid sequence -/
def mapInputs (c : Case) : Option (MDict × (List String × List (Nat × List UInt8))) :=
  let W := c.nat "w"
  let k := c.nat "k"
  let rc := c.flag "rc"
  match c.opt "table" with
  | some t =>
    let a := arrOfTable W k rc t
    some (a.toDict, (a.names, a.kmers.zip a.variants))
  | none =>
    let samples := parseSamples (c.get "samples")
    let built := samples.map (fun recs => buildDict W k rc recs)
    if built.any (fun b => match b with | .dict _ => false | _ => true) then none
    else
      let sds : List SampleDict := built.zipIdx.map (fun bi =>
        { k := k, rc := rc, idx := bi.2, name := s!"s{bi.2}"
          kmers := match bi.1 with | .dict d => d | _ => [] })
      match multiAppend k rc sds.length sds with
      | .error _ => none
      | .ok md =>
        let a := Arr.ofDict W md
        let specs := samples.map (fun recs => Spec.specDict k rc recs)
        let keys := (specs.map (fun d => d.map (·.1))).flatten.eraseDups
        let rows := keys.map (fun key => (key, specs.map (fun d => (Assoc.lookup d key).getD 45)))
        some (a.toDict, (a.names, rows))

def runMap (c : Case) : String × String :=
  let W := c.nat "w"
  let k := c.nat "k"
  let rc := c.flag "rc"
  let contigs := (c.list "ref").map (fun r => (bytesOf r).toArray)
  let cnames := (List.range contigs.length).map (fun i => s!"r{i}")
  let amask := c.flag "amask"
  let rmask := c.flag "rmask"
  match mapInputs c with
  | none => ("novalid", "novalid")
  | some (md, (names, rows)) =>
    -- model
    let m :=
      match RefSka.new W k rc cnames contigs amask rmask with
      | none => "novalid"
      | some r =>
        let mapped := r.map md
        if mapped.isEmpty then "nomapped" else
        let aln := r.pseudoalignment md.names.length mapped
        let recs := r.vcfRecords aln
        let alnS := joinStr ((md.names.zip aln).map (fun ns => s!"{ns.1}:{arrStr ns.2}"))
        s!"aln[{alnS}] vcf[{showVcfRaw recs}] dec[{showVcfDec recs}]"
    -- specification
    let dict : Nat → Option (List UInt8) := fun key => Assoc.lookup rows key
    let s :=
      if (Spec.refKeys k rc contigs).isEmpty then "novalid"
      else if !(Spec.refKeys k rc contigs).any (fun key => (dict key).isSome) then "nomapped"
      else
        let aln := (List.range names.length).map (fun s => Spec.mapSeq k rc dict contigs amask rmask s)
        let alnS := joinStr ((names.zip aln).map (fun ns => s!"{ns.1}:{strOf ns.2}"))
        let v := Spec.vcfSpec contigs aln
        let dec := joinStr (v.map (fun r => s!"{cnames.getD r.1 ""}:{r.2.1}:{chStr r.2.2.1}:{strOf r.2.2.2}"))
        s!"aln[{alnS}] - dec[{dec}]"
    (m, s)

/-- `alnw`: drive `AlnWriter` call by call: matches `chrom:pos:base` -/
def runAlnw (c : Case) : String × String :=
  let k := c.nat "k"
  let ref := (c.list "ref").map (fun r => (bytesOf r).toArray)
  let reps := (c.list "reps").filterMap String.toNat?
  let mask := c.flag "mask"
  let ms := (c.list "matches").filterMap (fun m =>
    match m.splitOn ":" with
    | [ch, p, b] => some (ch.toNat?.getD 0, p.toNat?.getD 0, (bytesOf b).headD 45)
    | _ => none)
  let h := halfK k
  let w := ms.foldl (fun w m => AlnWriter.writeSplitKmer ref h mask w m.2.1 m.1 m.2.2) (AlnWriter.new ref k)
  (arrStr (AlnWriter.finalise ref h reps w), "-")

end SkaModel.Driver
