/-
Model of `nthash.rs`. The forward seeds are the regenerated table; the reverse
seed of a base is the forward seed of its complement (the Rust keeps a second
table; the correspondence check compares every hash).
-/
import SkaModel.Impl.Base

namespace SkaModel

def rotl64 (x n : Nat) : Nat :=
  let n := n % 64
  ((x <<< n) % 2 ^ 64) ||| (x >>> (64 - n))

def rotr64 (x n : Nat) : Nat :=
  let n := n % 64
  (x >>> n) ||| ((x <<< (64 - n)) % 2 ^ 64)

def hashSeedAt (c : Nat) : Nat := Tables.hashSeed.getD c 0
def rcHashSeedAt (c : Nat) : Nat := hashSeedAt (c ^^^ 2)

structure NtHash where
  k : Nat
  fh : Nat
  rh : Option Nat
  deriving Repr, BEq, DecidableEq

/-- `NtHashIterator::new(seq[0..k], k, rc)`; `window` is exactly the k bases -/
def NtHash.new (window : List UInt8) (k : Nat) (rc : Bool) : NtHash :=
  let idx := List.range window.length
  let fh := (window.zip idx).foldl
    (fun h vi => h ^^^ rotl64 (hashSeedAt (code vi.1)) (k - vi.2 - 1)) 0
  let rh := if rc then
      some ((window.reverse.zip idx).foldl
        (fun h vi => h ^^^ rotl64 (rcHashSeedAt (code vi.1)) (k - vi.2 - 1)) 0)
    else none
  { k := k, fh := fh, rh := rh }

/-- `roll_fwd(old_base, new_base)` -/
def NtHash.roll (s : NtHash) (old new : Nat) : NtHash :=
  { s with
    fh := rotl64 s.fh 1 ^^^ rotl64 (hashSeedAt old) s.k ^^^ hashSeedAt new
    rh := s.rh.map (fun rev =>
      rotr64 rev 1 ^^^ rotr64 (rcHashSeedAt old) 1 ^^^ rotl64 (rcHashSeedAt new) (s.k - 1)) }

/-- `curr_hash` -/
def NtHash.curr (s : NtHash) : Nat :=
  match s.rh with
  | some rev => min s.fh rev
  | none => s.fh

end SkaModel
