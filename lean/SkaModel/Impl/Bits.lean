/-
Model of the packed integer operations of `bit_encoding.rs` (`UInt` for `u64`
and `u128`). A `W`-bit unsigned integer is a natural number below `2^W`; the
only operation that can lose bits is the left shift, which truncates.
-/
import SkaModel.Impl.Base

namespace SkaModel

/-- Rust `x << n` on a `W`-bit unsigned integer (`n < W`) -/
def shl (W x n : Nat) : Nat := (x <<< n) % 2 ^ W

/-- half length of a split k-mer arm -/
def halfK (k : Nat) : Nat := (k - 1) / 2

/-- `generate_masks`: `lower_mask = (1 << 2h) - 1` -/
def lowerMask (W k : Nat) : Nat := shl W 1 (halfK k * 2) - 1

/-- `generate_masks`: `upper_mask = lower_mask << 2h` -/
def upperMask (W k : Nat) : Nat := shl W (lowerMask W k) (halfK k * 2)

/-- `skalo_mask`: `(1 << 2k) - 1` -/
def skaloMask (W k : Nat) : Nat := shl W 1 (k * 2) - 1

/-- `encode_kmer`: fold `(result << 2) | encode_base(nt)` -/
def encodeKmer (W : Nat) (s : List UInt8) : Nat :=
  s.foldl (fun r nt => shl W r 2 ||| code nt) 0

/-- the (shift, mask) stages of the base-reversal network and the complement constant -/
def rcStages (W : Nat) : List (Nat × Nat) :=
  if W = 64 then
    [(2, 0x3333333333333333), (4, 0x0F0F0F0F0F0F0F0F), (8, 0x00FF00FF00FF00FF),
     (16, 0x0000FFFF0000FFFF), (32, 0x00000000FFFFFFFF)]
  else
    [(2, 0x33333333333333333333333333333333), (4, 0x0F0F0F0F0F0F0F0F0F0F0F0F0F0F0F0F),
     (8, 0x00FF00FF00FF00FF00FF00FF00FF00FF), (16, 0x0000FFFF0000FFFF0000FFFF0000FFFF),
     (32, 0x00000000FFFFFFFF00000000FFFFFFFF), (64, 0x0000000000000000FFFFFFFFFFFFFFFF)]

def rcXor (W : Nat) : Nat :=
  if W = 64 then 0xAAAAAAAAAAAAAAAA else 0xAAAAAAAAAAAAAAAAAAAAAAAAAAAAAAAA

/-- one stage: `(x >> s & m) | (x & m) << s` -/
def swapStage (W x s m : Nat) : Nat := ((x >>> s) &&& m) ||| shl W (x &&& m) s

/-- the word with its 2-bit groups reversed -/
def reverseGroups (W x : Nat) : Nat :=
  (rcStages W).foldl (fun acc sm => swapStage W acc sm.1 sm.2) x

/-- `rev_comp(self, k_size)`; the Rust computes `2 * (W/2 - k_size)`, which
underflows for `k_size > W/2` — the model is only applied with `n ≤ W/2`. -/
def revComp (W x n : Nat) : Nat :=
  (reverseGroups W x ^^^ rcXor W) >>> (2 * (W / 2 - n))

/-- the decode loop shared by `decode_kmer` and `skalo_decode_kmer`: take the
two lowest bits, decode, shift right; the letters come out last-first and the
Rust reverses (or inserts at the front), which is the accumulator here -/
def decodeLoop : Nat → Nat → List UInt8 → List UInt8
  | 0, _, acc => acc
  | n + 1, x, acc => decodeLoop n (x >>> 2) (decodeBase (x &&& 3) :: acc)

/-- `decode_kmer(k, kmer, upper_mask, lower_mask)` with the masks of `generate_masks` -/
def decodeKmer (W k x : Nat) : List UInt8 × List UInt8 :=
  let h := halfK k
  (decodeLoop h ((x &&& upperMask W k) >>> (h * 2)) [],
   decodeLoop h (x &&& lowerMask W k) [])

/-- `skalo_decode_kmer(encoded, k)` -/
def skaloDecode (W x k : Nat) : List UInt8 :=
  decodeLoop k (x &&& skaloMask W k) []

end SkaModel
