/-
Model of `ska_ref.rs` (`RefSka::{new, map}`, `pseudoalignment`, `write_aln`,
`write_vcf`), `aln_writer.rs` (`AlnWriter`) and `idx_check.rs` (`IdxCheck`).
-/
import SkaModel.Impl.MergeArray

namespace SkaModel

structure RefKmer where
  kmer : Nat
  base : Nat
  pos : Nat
  chrom : Nat
  rc : Bool
  deriving Repr, BEq, DecidableEq

structure RefSka where
  k : Nat
  kmers : List RefKmer
  ambigMask : Bool
  chromNames : List String
  seq : List (Array UInt8)
  repeatCoors : List Nat
  deriving Repr

def toUpper (b : UInt8) : UInt8 := if 97 ≤ b && b ≤ 122 then b - 32 else b

namespace RefSka

/-- split k-mers of one contig with their middle positions -/
def contigKmers (W k : Nat) (rc : Bool) (chrom : Nat) (r : Array UInt8) : List RefKmer :=
  let c : SKConf := { W := W, k := k, rc := rc, seq := r }
  c.states.map (fun s =>
    let (kmer, base, r) := c.currKmer s
    { kmer := kmer, base := base, pos := c.middlePos s, chrom := chrom, rc := r })

/-- `track_repeats` over the whole list: the k-mers seen at least twice -/
def repeatsOf (ks : List Nat) : List Nat :=
  (ks.foldl (fun (acc : List Nat × List Nat) k =>
    let (singles, repeats) := acc
    if repeats.contains k then acc
    else if singles.contains k then (singles, k :: repeats)
    else (k :: singles, repeats)) ([], [])).2

/-- the loop computing `repeat_coors`; state = (last_chrom, last_end, chrom_offset, out) -/
def repeatCoorsOf (h : Nat) (seq : List (Array UInt8)) (repeats : List Nat) (kmers : List RefKmer) : List Nat :=
  (kmers.foldl (fun (st : Nat × Nat × Nat × List Nat) sk =>
    let (lastChrom, lastEnd, off, out) := st
    -- `while sk.chrom > last_chrom { chrom_offset += seq[last_chrom].len(); last_chrom += 1 }`
    let off := ((List.range (sk.chrom - lastChrom)).map (fun d => (seq.getD (lastChrom + d) #[]).size)).foldl (· + ·) off
    let lastChrom := max lastChrom sk.chrom
    if repeats.contains sk.kmer then
      let start := sk.pos - h + off
      let stop := sk.pos + h + off
      let from_ := if start > lastEnd || start == 0 then start else lastEnd + 1
      (sk.chrom, stop, off, out ++ (List.range (stop + 1 - from_)).map (· + from_))
    else (lastChrom, lastEnd, off, out)) (0, 0, 0, [])).2.2.2

/-- `RefSka::new`; `none` = "has no valid sequence" -/
def new (W k : Nat) (rc : Bool) (names : List String) (contigs : List (Array UInt8))
    (ambigMask repeatMask : Bool) : Option RefSka :=
  let kmers := (contigs.zipIdx.map (fun ci => contigKmers W k rc ci.2 ci.1)).flatten
  if kmers.isEmpty then none
  else
    let seq := contigs.map (fun r => r.map toUpper)
    let reps := if repeatMask then
        repeatCoorsOf (halfK k) seq (repeatsOf (kmers.map (·.kmer))) kmers
      else []
    some { k := k, kmers := kmers, ambigMask := ambigMask, chromNames := names, seq := seq, repeatCoors := reps }

/-- `map`: rows of matched reference k-mers (strand-corrected) and their positions -/
def map (r : RefSka) (d : MDict) : List ((Nat × Nat) × List UInt8) :=
  r.kmers.filterMap (fun rk =>
    match Assoc.lookup d.kmers rk.kmer with
    | some row => some ((rk.chrom, rk.pos), row.map (fun x => if rk.rc then rcIupacAt x else x))
    | none => none)

end RefSka

/-- `AlnWriter` -/
structure AlnWriter where
  nextPos : Nat
  currChrom : Nat
  lastMapped : Nat
  lastWritten : Nat
  chromOffset : Nat
  seqOut : Array UInt8
  middleOut : List (UInt8 × Nat)
  deriving Repr

namespace AlnWriter

def new (ref : List (Array UInt8)) (k : Nat) : AlnWriter :=
  { nextPos := halfK k, currChrom := 0, lastMapped := 0, lastWritten := 0, chromOffset := 0
    seqOut := Array.replicate ((ref.map (·.size)).foldl (· + ·) 0) GAP, middleOut := [] }

/-- `seq_out[start+off .. end+off].copy_from_slice(&ref[chrom][start..end])` -/
def copyRef (out : Array UInt8) (contig : Array UInt8) (off start stop : Nat) : Array UInt8 :=
  (List.range (stop - start)).foldl (fun o t => o.setIfInBounds (off + start + t) (contig.getD (start + t) 0)) out

def fillFwdBases (ref : List (Array UInt8)) (h : Nat) (w : AlnWriter) (maximum : Nat) : AlnWriter :=
  if w.lastWritten > 0 then
    let overhang := (w.lastMapped + h) - w.lastWritten
    let start := w.lastWritten + 1
    let stop := min (start + overhang) maximum
    if stop > start then
      { w with seqOut := copyRef w.seqOut (ref.getD w.currChrom #[]) w.chromOffset start stop, lastWritten := stop }
    else w
  else w

def fillContig (ref : List (Array UInt8)) (h : Nat) (w : AlnWriter) : AlnWriter :=
  let len := (ref.getD w.currChrom #[]).size
  let w := fillFwdBases ref h w len
  { w with chromOffset := w.chromOffset + len, currChrom := w.currChrom + 1, nextPos := h }

/-- `while mapped_chrom > self.curr_chrom { fill_contig() }` -/
def fillTo (ref : List (Array UInt8)) (h : Nat) : Nat → AlnWriter → Nat → AlnWriter
  | 0, w, _ => w
  | fuel + 1, w, chrom => if chrom > w.currChrom then fillTo ref h fuel (fillContig ref h w) chrom else w

def writeSplitKmer (ref : List (Array UInt8)) (h : Nat) (maskAmbig : Bool) (w : AlnWriter)
    (pos chrom : Nat) (base : UInt8) : AlnWriter :=
  let w := fillTo ref h (chrom + 1) w chrom
  let w := { w with middleOut := w.middleOut ++
    [(if isAmbiguous base && maskAmbig then 78 else base, pos + w.chromOffset)] }
  if pos < w.nextPos then { w with lastMapped := pos }
  else
    let w := if pos > w.nextPos then fillFwdBases ref h w (pos - h) else w
    { w with seqOut := copyRef w.seqOut (ref.getD w.currChrom #[]) w.chromOffset (pos - h) pos
             nextPos := pos + h + 1, lastMapped := pos, lastWritten := pos }

def finalise (ref : List (Array UInt8)) (h : Nat) (repeats : List Nat) (w : AlnWriter) : Array UInt8 :=
  let w := fillTo ref h (ref.length + 1) w ref.length
  let out := w.middleOut.foldl (fun o bp => o.setIfInBounds bp.2 bp.1) w.seqOut
  repeats.foldl (fun o r => if o.getD r GAP != GAP then o.setIfInBounds r 78 else o) out

end AlnWriter

namespace RefSka

/-- `pseudoalignment`: one finalised sequence per sample -/
def pseudoalignment (r : RefSka) (nSamples : Nat) (mapped : List ((Nat × Nat) × List UInt8)) : List (Array UInt8) :=
  let h := halfK r.k
  (List.range nSamples).map (fun idx =>
    let w := mapped.foldl (fun w m =>
      let base := m.2.getD idx GAP
      if base != GAP then AlnWriter.writeSplitKmer r.seq h r.ambigMask w m.1.2 m.1.1 base else w)
      (AlnWriter.new r.seq r.k)
    AlnWriter.finalise r.seq h r.repeatCoors w)

/-- `IdxCheck`: the (chromosome, position) of every absolute index, as the iterator yields them -/
def idxCheck (seq : List (Array UInt8)) : List (Nat × Nat) :=
  let ends := (seq.foldl (fun (acc : Nat × List Nat) c => (acc.1 + c.size, acc.2 ++ [acc.1 + c.size])) (0, [])).2
  let total := ends.getLastD 0
  -- iterator state (current_chr, idx); emits while current_chr < len
  ((List.range (total + ends.length + 1)).foldl (fun (st : Nat × Nat × List (Nat × Nat) × Bool) _ =>
    let (chr, idx, out, done) := st
    if done then st else
    let chr := if idx ≥ ends.getD chr 0 then chr + 1 else chr
    if chr < ends.length then
      let pos := if chr > 0 then idx - ends.getD (chr - 1) 0 else idx
      (chr, idx + 1, out ++ [(chr, pos)], false)
    else (chr, idx, out, true)) (0, 0, [], false)).2.2.1

structure VcfRecord where
  chrom : String
  pos : Nat
  ref : UInt8
  alts : List UInt8
  gts : List String
  deriving Repr, BEq, DecidableEq

/-- `write_vcf`: one record per alignment column in which some sample differs from the reference byte -/
def vcfRecords (r : RefSka) (aln : List (Array UInt8)) : List VcfRecord :=
  let total := (aln.headD #[]).size
  ((List.range total).zip (idxCheck r.seq)).filterMap (fun ic =>
    let (i, (chrom, pos)) := ic
    let refBase := (r.seq.getD chrom #[]).getD pos 0
    let col := aln.map (fun s => s.getD i GAP)
    let (alts, gts, variant) := col.foldl (fun (acc : List UInt8 × List String × Bool) b =>
      let (alts, gts, v) := acc
      if b == refBase then (alts, gts ++ ["0"], v)
      else if b == GAP then (alts, gts ++ ["."], true)
      else
        let a := u8ToBase b
        let alts := if alts.contains a then alts else alts ++ [a]
        (alts, gts ++ [toString ((alts.idxOf a) + 1)], true)) ([], [], false)
    if variant then some { chrom := r.chromNames.getD chrom "", pos := pos + 1, ref := u8ToBase refBase, alts := alts, gts := gts }
    else none)

end RefSka
end SkaModel
