/-
Model of `ska_dict.rs` for FASTA input: `add_to_dict`, `add_palindrome_to_dict`
and the record loop of `add_file_kmers`.
-/
import SkaModel.Impl.SplitKmer
import SkaModel.Impl.Assoc

namespace SkaModel

/-- `add_to_dict`: `entry(kmer).and_modify(|b| IUPAC[base*256+b]).or_insert(decode_base(base))` -/
def addToDict (d : Assoc Nat UInt8) (kmer base : Nat) : Assoc Nat UInt8 :=
  d.upsert kmer (decodeBase base) (fun b => iupacAdd base b)

/-- the `match` on the stored letter in `add_palindrome_to_dict`; `none` is its `panic!` -/
def palindromeUpdate (base : Nat) (b : UInt8) : Option UInt8 :=
  if b == 87 then some (if base == 0 || base == 2 then 87 else 78)        -- W
  else if b == 83 then some (if base == 0 || base == 2 then 78 else 83)   -- S
  else if b == 78 then some 78                                            -- N
  else none

/-- `add_palindrome_to_dict`; the `or_insert` arm panics for `base > 3`, which
`encode_base` cannot produce -/
def addPalindromeToDict (d : Assoc Nat UInt8) (kmer base : Nat) : Option (Assoc Nat UInt8) :=
  d.upsertM kmer (if base == 0 || base == 2 then 87 else 83) (palindromeUpdate base)

/-- one iterator state added to the dictionary (FASTA: no read filter) -/
def addState (c : SKConf) (d : Assoc Nat UInt8) (s : SKState) : Option (Assoc Nat UInt8) :=
  let (kmer, base, _) := c.currKmer s
  if c.selfPalindrome s then addPalindromeToDict d kmer base
  else some (addToDict d kmer base)

def addStates (c : SKConf) : Assoc Nat UInt8 → List SKState → Option (Assoc Nat UInt8)
  | d, [] => some d
  | d, s :: ss => match addState c d s with
    | none => none
    | some d' => addStates c d' ss

/-- all records of a FASTA file into the dictionary; `none` = a `panic!` was reached -/
def addRecords (W k : Nat) (rc : Bool) :
    Assoc Nat UInt8 → List (Array UInt8) → Option (Assoc Nat UInt8)
  | d, [] => some d
  | d, r :: rs =>
    let c : SKConf := { W := W, k := k, rc := rc, seq := r }
    match addStates c d c.states with
    | none => none
    | some d' => addRecords W k rc d' rs

inductive BuildResult where
  | dict (d : List (Nat × UInt8))
  | noValid        -- "has no valid sequence"
  | panicked       -- an internal `panic!`
  deriving Repr, BEq, DecidableEq

/-- `SkaDict::new` on one FASTA file, as a key-sorted list -/
def buildDict (W k : Nat) (rc : Bool) (recs : List (Array UInt8)) : BuildResult :=
  match addRecords W k rc [] recs with
  | none => .panicked
  | some [] => .noValid
  | some d => .dict (sortByKey (·.1) d)

end SkaModel
