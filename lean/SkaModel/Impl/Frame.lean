/-
Snappy frame format decoding as `snap::read::FrameDecoder` performs it,
reading the whole stream. The block decompressor is a parameter so that the
truncation theorem holds for every decompressor.
-/
import SkaModel.Impl.Crc32c
import SkaModel.Impl.Snappy

namespace SkaModel

inductive FrameErr where
  | streamHeader | chunkLength | chunkType | headerMismatch | checksum | eof | decompress
  deriving Repr, BEq, DecidableEq

def STREAM_BODY : List UInt8 := [0x73, 0x4e, 0x61, 0x50, 0x70, 0x59]  -- "sNaPpY"

def MAX_COMPRESS_BLOCK : Nat := 76490
def MAX_BLOCK : Nat := 65536

/-- chunks until the end of input; `seenIdent` = the stream identifier has been read.
Clean EOF is only possible at a chunk boundary (`read_exact_eof`). -/
def unframeFrom (decomp : List UInt8 → Option (List UInt8)) :
    Nat → Bool → List UInt8 → List UInt8 → Except FrameErr (List UInt8)
  | 0, _, _, acc => .ok acc
  | fuel + 1, seenIdent, input, acc =>
    if input.isEmpty then .ok acc
    else if input.length < 4 then .error .eof
    else
      let ty := (input.getD 0 0).toNat
      if !seenIdent && ty != 0xFF then .error .streamHeader
      else
        let len := leNat ((input.drop 1).take 3)
        if len > MAX_COMPRESS_BLOCK then .error .chunkLength
        else
          let body := input.drop 4
          if 0x02 ≤ ty && ty ≤ 0x7F then .error .chunkType
          else if (0x80 ≤ ty && ty ≤ 0xFD) || ty == 0xFE then
            -- skippable / padding
            if body.length < len then .error .eof
            else unframeFrom decomp fuel true (body.drop len) acc
          else if ty == 0xFF then
            if len != 6 then .error .chunkLength
            else if body.length < len then .error .eof
            else if body.take 6 != STREAM_BODY then .error .headerMismatch
            else unframeFrom decomp fuel true (body.drop 6) acc
          else
            -- 0x00 compressed, 0x01 uncompressed
            if len < 4 then .error .chunkLength
            else if body.length < 4 then .error .eof
            else
              let expected := leNat (body.take 4)
              let n := len - 4
              let data := (body.drop 4).take n
              if ty == 0x01 then
                if n > MAX_BLOCK then .error .chunkLength
                else if (body.drop 4).length < n then .error .eof
                else if crc32cMasked data != expected then .error .checksum
                else unframeFrom decomp fuel true ((body.drop 4).drop n) (acc ++ data)
              else
                if (body.drop 4).length < n then .error .eof
                else match decomp data with
                  | none => .error .decompress
                  | some out =>
                    if crc32cMasked out != expected then .error .checksum
                    else unframeFrom decomp fuel true ((body.drop 4).drop n) (acc ++ out)

/-- the decompressed byte stream of a whole file -/
def unframe (decomp : List UInt8 → Option (List UInt8)) (file : List UInt8) : Except FrameErr (List UInt8) :=
  unframeFrom decomp (file.length + 1) false file []

end SkaModel
