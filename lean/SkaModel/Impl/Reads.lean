/-
Model of building from paired FASTQ files: `KmerFilter` (blocked Bloom filter +
count table, `bloom_filter.rs`) and the read branch of `add_file_kmers`.
-/
import SkaModel.Impl.SkaDict
import Std.Data.HashMap

namespace SkaModel

/-- `BLOOM_WIDTH * (BITS_PER_ENTRY / 8) / 64`, rounded: 2^27 * 1.5 / 64 -/
def BLOOM_WORDS : Nat := 3145728

structure KmerFilter where
  minCount : Nat
  buffer : Std.HashMap Nat Nat := {}      -- word index ↦ 64-bit word (absent = 0)
  counts : Std.HashMap Nat Nat := {}      -- hash ↦ u16 count

namespace KmerFilter

/-- `cheap_mix`: `(key ^ (key >> 31)).wrapping_mul(0x85D059AA333121CF)` -/
def cheapMix (key : Nat) : Nat := ((key ^^^ (key >>> 31)) * 0x85D059AA333121CF) % 2 ^ 64

/-- `reduce`: `((key as u128) * (range as u128)) >> 64` -/
def reduce (key range : Nat) : Nat := (key * range) >>> 64

def location (key : Nat) : Nat := reduce (cheapMix key) BLOOM_WORDS

/-- `fingerprint`: five bits chosen by 6-bit groups of the key -/
def fingerprint (key : Nat) : Nat :=
  (1 <<< (key &&& 63)) ||| (1 <<< ((key >>> 6) &&& 63)) ||| (1 <<< ((key >>> 12) &&& 63))
    ||| (1 <<< ((key >>> 18) &&& 63)) ||| (1 <<< ((key >>> 24) &&& 63))

/-- `bloom_add_and_check` -/
def bloomAddAndCheck (f : KmerFilter) (key : Nat) : KmerFilter × Bool :=
  let fp := fingerprint key
  let loc := location key
  let w := f.buffer.getD loc 0
  if w &&& fp == fp then (f, true)
  else ({ f with buffer := f.buffer.insert loc (w ||| fp) }, false)

/-- `filter(kmer)`: does the observation pass (`Ordering::Equal`)? -/
def filter (f : KmerFilter) (hash : Nat) : KmerFilter × Bool :=
  if f.minCount ≤ 1 then (f, true)
  else if f.minCount == 2 then f.bloomAddAndCheck hash
  else
    let (f, seen) := f.bloomAddAndCheck hash
    if seen then
      let count := match f.counts.get? hash with
        | some c => min (c + 1) 65535      -- saturating_add on u16
        | none => 2
      ({ f with counts := f.counts.insert hash count }, f.minCount == count)
    else (f, false)

end KmerFilter

/-- a FASTQ record: sequence and quality string (ASCII, phred+33) -/
structure Read where
  seq : Array UInt8
  qual : Array UInt8

/-- one iterator state of a read: middle-base quality, then the count filter
(short-circuit: the filter only counts observations whose middle base passes) -/
def addReadState (c : SKConf) (st : Assoc Nat UInt8 × KmerFilter) (s : SKState) :
    Option (Assoc Nat UInt8 × KmerFilter) :=
  let (d, f) := st
  if c.middleBaseQual s then
    let (f, pass) := f.filter (c.getHash s)
    if pass then
      let (kmer, base, _) := c.currKmer s
      if c.selfPalindrome s then (addPalindromeToDict d kmer base).map (fun d' => (d', f))
      else some (addToDict d kmer base, f)
    else some (d, f)
  else some (d, f)

def addRead (W k : Nat) (rc : Bool) (minQual : Nat) (qf : QualFilter)
    (st : Assoc Nat UInt8 × KmerFilter) (r : Read) : Option (Assoc Nat UInt8 × KmerFilter) :=
  let c : SKConf := { W := W, k := k, rc := rc, seq := r.seq, qual := some r.qual, minQual := minQual, qf := qf, isReads := true }
  c.states.foldlM (addReadState c) st

/-- `SkaDict::new` on a FASTQ pair: both files through the same filter -/
def buildReads (W k : Nat) (rc : Bool) (minCount minQual : Nat) (qf : QualFilter)
    (file1 file2 : List Read) : BuildResult :=
  match (file1 ++ file2).foldlM (addRead W k rc minQual qf) ([], { minCount := minCount }) with
  | none => .panicked
  | some ([], _) => .noValid
  | some (d, _) => .dict (sortByKey (·.1) d)

end SkaModel
