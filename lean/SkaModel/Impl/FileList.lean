/-
The `-f` file list of `ska build` / `ska cov` / `ska align` … (`io_utils::get_input_list`)
and the names file of `ska delete -f` (`io_utils::read_name_list`):
`BufRead::lines`, `str::split_whitespace`, two or three fields per line, anything
else panics.  Strings are `List Char`.  No Mathlib import: the driver links this file.
-/
namespace SkaModel.FileList

/-- Unicode `White_Space` (what `char::is_whitespace` tests) -/
def isWs (c : Char) : Bool :=
  let n := c.toNat
  (9 ≤ n && n ≤ 13) || n == 32 || n == 0x85 || n == 0xA0 || n == 0x1680 ||
  (0x2000 ≤ n && n ≤ 0x200A) || n == 0x2028 || n == 0x2029 || n == 0x202F || n == 0x205F || n == 0x3000

/-- `str::split_whitespace`: maximal runs of non-whitespace characters -/
def splitWsGo : List Char → List Char → List (List Char)
  | [], cur => if cur.isEmpty then [] else [cur.reverse]
  | c :: cs, cur =>
    if isWs c then (if cur.isEmpty then splitWsGo cs [] else cur.reverse :: splitWsGo cs [])
    else splitWsGo cs (c :: cur)

def splitWs (s : List Char) : List (List Char) := splitWsGo s []

/-- strip one trailing '\r' (only applied to lines that were terminated by '\n') -/
def stripCr (l : List Char) : List Char :=
  match l.reverse with
  | '\r' :: r => r.reverse
  | _ => l

/-- `BufRead::lines`: pieces between '\n'; a terminated line loses one trailing '\r';
no empty piece after a final '\n' -/
def linesGo : List Char → List Char → List (List Char)
  | [], cur => if cur.isEmpty then [] else [cur.reverse]
  | c :: cs, cur =>
    if c = '\n' then stripCr cur.reverse :: linesGo cs [] else linesGo cs (c :: cur)

def lines (s : List Char) : List (List Char) := linesGo s []

/-- one input: sample name, first file, optional second file -/
abbrev Entry := List Char × List Char × Option (List Char)

/-- a line of the file list; `none` = the `panic!` -/
def parseLine (l : List Char) : Option Entry :=
  match splitWs l with
  | [a, b] => some (a, b, none)
  | [a, b, c] => some (a, b, some c)
  | _ => none

/-- `get_input_list` with a file list: all lines, or `none` when any line panics -/
def parseLines : List (List Char) → Option (List Entry)
  | [] => some []
  | l :: ls =>
    match parseLine l, parseLines ls with
    | some e, some es => some (e :: es)
    | _, _ => none

def parseList (s : List Char) : Option (List Entry) := parseLines (lines s)

/-- `read_name_list`: first field of every non-blank line -/
def nameList (s : List Char) : List (List Char) := (lines s).filterMap (fun l => (splitWs l).head?)

end SkaModel.FileList
