/-
Snappy raw block decompression as `snap::raw::Decoder::decompress` performs it
(format semantics; the unrolled fast paths of the crate are byte-for-byte
equivalent to these element semantics).
-/
namespace SkaModel

/-- `read_varu64`: (value, bytes used); (0, 0) when no terminating byte or on shift overflow -/
def readVarint (bs : List UInt8) : Nat × Nat :=
  let rec go (bs : List UInt8) (n shift i : Nat) : Nat × Nat :=
    match bs with
    | [] => (0, 0)
    | b :: rest =>
      if shift ≥ 64 then (0, 0)
      else if b.toNat < 128 then ((n ||| ((b.toNat <<< shift) % 2 ^ 64)), i + 1)
      else go rest (n ||| (((b.toNat &&& 127) <<< shift) % 2 ^ 64)) (shift + 7) (i + 1)
  go bs 0 0 0

def leNat (bs : List UInt8) : Nat := bs.foldr (fun b acc => b.toNat + 256 * acc) 0

/-- header: (decompressed length, header length); none = `Error::Header` / `TooBig` -/
def snappyHeader (input : List UInt8) : Option (Nat × Nat) :=
  let (n, used) := readVarint input
  if used == 0 || used > 5 then none
  else if n > 0xFFFFFFFF then none
  else some (n, used)

/-- copy `len` bytes from `offset` back, byte by byte (overlap allowed) -/
def copyBack (out : Array UInt8) (offset : Nat) : Nat → Array UInt8
  | 0 => out
  | len + 1 => copyBack (out.push (out.getD (out.size - offset) 0)) offset len

/-- the element loop; `fuel` bounds the number of elements by the input length -/
def snappyElems (dlen : Nat) : Nat → List UInt8 → Array UInt8 → Option (Array UInt8)
  | 0, src, out => if src.isEmpty then some out else none
  | fuel + 1, src, out =>
    match src with
    | [] => some out
    | tag :: rest =>
      let t := tag.toNat
      if t % 4 == 0 then
        -- literal
        let l0 := t / 4 + 1
        if l0 ≥ 61 then
          let nb := l0 - 60
          if rest.length < nb then none
          else
            let len := leNat (rest.take nb) + 1
            let rest := rest.drop nb
            if rest.length < len || dlen - out.size < len then none
            else snappyElems dlen fuel (rest.drop len) (out ++ (rest.take len).toArray)
        else
          if rest.length < l0 || dlen - out.size < l0 then none
          else snappyElems dlen fuel (rest.drop l0) (out ++ (rest.take l0).toArray)
      else
        -- copy
        let (len, nb, offHi) :=
          if t % 4 == 1 then (4 + (t / 4) % 8, 1, (t / 32) * 256)
          else if t % 4 == 2 then (1 + t / 4, 2, 0)
          else (1 + t / 4, 4, 0)
        if rest.length < nb then none
        else
          let offset := offHi + leNat (rest.take nb)
          if offset == 0 || out.size < offset then none
          else if out.size + len > dlen then none
          else snappyElems dlen fuel (rest.drop nb) (copyBack out offset len)

/-- `Decoder::decompress(input, output)` with `output.len() = 65536`; none = any error -/
def snappyDecompress (input : List UInt8) : Option (List UInt8) :=
  if input.isEmpty then none
  else match snappyHeader input with
    | none => none
    | some (dlen, hlen) =>
      if dlen > 65536 then none
      else match snappyElems dlen (input.length + 1) (input.drop hlen) #[] with
        | none => none
        | some out => if out.size == dlen then some out.toList else none

end SkaModel
