/-
Model of the reference-free `ska lo` pipeline (`src/skalo`):
`build_graph` (input.rs), `identify_good_kmers` (extremities.rs), `compact_graph`
(compaction.rs), `build_variant_groups` (read_graph.rs: bounded path enumeration, grouping,
sequence and SNP-position construction, indel classification), `process_indels`
(process_indels.rs) and the reference-free part of `analyse_variant_groups`
(process_variants.rs).

Hash maps are association lists.  Every place where the Rust iterates a hash map either
does not influence the result or sorts first (indel groups by length and key, variant
groups by ratio and key, indel records by key, equally frequent indel alleles by insert,
`most_abundant_length` takes the shortest of the most frequent lengths), so the model is
a function of the table; the remaining freedom is the order of the columns of one group
in the SNP alignment and the order of paths inside a group, which the comparison ignores.
`none` stands for a Rust panic (`unwrap` on a missing k-mer, slice out of range).
-/
import SkaModel.Impl.Skalo
import SkaModel.Impl.SkaloDerep
import SkaModel.Impl.MergeArray

namespace SkaModel
namespace Skalo

abbrev Graph := List (Nat × List Nat)      -- all_kmers: (k-1)-mer -> successors
abbrev Colours := List (Nat × List Nat)    -- kmer_2_samples: k-mer -> ascending sample indices

/-- `entry(a).or_default().push(b)` (the shortcut edges of `compact_graph`) -/
def addEdge (g : Graph) (a b : Nat) : Graph := Assoc.upsert g a [b] (fun l => l ++ [b])

/-- `build_graph`: `entry(a).or_default()`, then `push(b)` unless `b` is already a successor (an edge
is stored once: a split k-mer with self-complementary arms yields the same edges from both strands) -/
def addEdgeOnce (g : Graph) (a b : Nat) : Graph :=
  Assoc.upsert g a [b] (fun l => if l.contains b then l else l ++ [b])

/-- `entry(k).or_insert_with(|| s)` -/
def addColour (c : Colours) (k : Nat) (s : List Nat) : Colours := Assoc.upsert c k s id

/-- `build_graph`: all rows of the table -/
def buildGraph (W : Nat) (a : Arr) : Graph × Colours :=
  (a.kmers.zip a.variants).foldl (fun (acc : Graph × Colours) kv =>
    let (es, cs) := rowGraph W a.k kv.1 kv.2
    (es.foldl (fun g e => addEdgeOnce g e.1 e.2) acc.1, cs.foldl (fun c e => addColour c e.1 e.2) acc.2))
    ([], [])

def succs (g : Graph) (x : Nat) : List Nat := (Assoc.lookup g x).getD []

/-- `combine_kmers` -/
def combineKmers (W a b : Nat) : Nat := shl W a 2 ||| (b &&& 3)

/-- all pairs (i < j) of a list -/
def pairsOf {α : Type} : List α → List (α × α)
  | [] => []
  | x :: xs => xs.map (fun y => (x, y)) ++ pairsOf xs

/-- `identify_good_kmers`: entry nodes (two successors whose k-mers have different sample sets);
`none` when a colour is missing; exit nodes are their reverse complements -/
def identifyGoodKmers (W kGraph : Nat) (g : Graph) (col : Colours) : Option (List Nat × List Nat) := do
  let flags ← g.mapM (fun (kn : Nat × List Nat) =>
    if kn.2.length > 1 then do
      -- the Rust stops at the first differing pair; every pair before it must be present
      let rec go (ps : List (Nat × Nat)) : Option Bool :=
        match ps with
        | [] => some false
        | p :: rest =>
          match Assoc.lookup col (combineKmers W kn.1 p.1), Assoc.lookup col (combineKmers W kn.1 p.2) with
          | some s1, some s2 => if s1 != s2 then some true else go rest
          | _, _ => none
      go (pairsOf kn.2)
    else some false)
  let starts := ((g.zip flags).filter (·.2)).map (·.1.1)
  some (starts, starts.map (fun x => revComp W x kGraph))

/-- the walk of `compact_graph` from `cur`: `acc` is `vec_visited` (also the visited set) -/
def compactWalk (g : Graph) (starts ends : List Nat) : Nat → Nat → List Nat → List Nat
  | 0, _, acc => acc
  | fuel + 1, cur, acc =>
    match Assoc.lookup g cur with
    | some [n] =>
      if acc.contains n then acc
      else if ends.contains n || starts.contains n then acc ++ [n]
      else compactWalk g starts ends fuel n (acc ++ [n])
    | _ => acc

def edgeCount (g : Graph) : Nat := (g.map (·.2.length)).sum

/-- the compacted segments: successor of an extremity node -> nodes walked (at least two) -/
def compactSegments (g : Graph) (starts ends : List Nat) : List (Nat × List Nat) :=
  let fuel := edgeCount g + 1
  (starts ++ ends).foldl (fun (acc : List (Nat × List Nat)) kmer =>
    (succs g kmer).foldl (fun acc s =>
      let v := compactWalk g starts ends fuel s []
      if v.length > 1 then Assoc.upsert acc s v (fun _ => v) else acc) acc) []

/-- `retain(|&n| n != b)` on the successors of `a` -/
def removeEdge (g : Graph) (a b : Nat) : Graph :=
  g.map (fun kn => if kn.1 == a then (kn.1, kn.2.filter (· != b)) else kn)

/-- consecutive pairs -/
def windows2 {α : Type} : List α → List (α × α)
  | x :: y :: rest => (x, y) :: windows2 (y :: rest)
  | _ => []

/-- the graph edit of one compacted segment -/
def applySegment (g : Graph) (sv : Nat × List Nat) : Graph :=
  let g := removeEdge g sv.1 (sv.2.headD 0)
  let g := (windows2 sv.2.dropLast).foldl (fun g w => removeEdge g w.1 w.2) g
  addEdge g sv.1 (sv.2.getLastD 0)

/-- `compact_graph`: (edited graph, starting k-mer -> interior nodes) -/
def compactGraph (g : Graph) (starts ends : List Nat) : Graph × List (Nat × List Nat) :=
  let segs := compactSegments g starts ends
  (segs.foldl applySegment g, segs.map (fun sv => (sv.1, sv.2.dropLast)))

/-- the bounded path enumeration from one node: all (exit k-mer, path) pairs saved -/
def explore (g : Graph) (comp : List (Nat × List Nat)) (ends : List Nat) (maxDepth : Nat) :
    Nat → Nat → List Nat → List Nat → Nat → List (Nat × List Nat)
  | 0, _, _, _, _ => []
  | fuel + 1, cur, visited, vec, depth =>
    if depth > maxDepth then []
    else
      let good := (succs g cur).filter (fun n => !visited.contains n)
      match good with
      | [] => []
      | [next] =>
        let vec' := vec ++ [next] ++ (Assoc.lookup comp next).getD []
        (if ends.contains next then [(next, vec')] else []) ++
          explore g comp ends maxDepth fuel next (visited ++ [next]) vec' depth
      | _ =>
        good.flatMap (fun next =>
          let vec' := vec ++ [next] ++ (Assoc.lookup comp next).getD []
          (if ends.contains next then [(next, vec')] else []) ++
            explore g comp ends maxDepth fuel next (visited ++ [next]) vec' (depth + 1))

/-- all saved paths from an entry node, grouped by exit k-mer (`tmp_container`) -/
def pathsFrom (g : Graph) (comp : List (Nat × List Nat)) (ends : List Nat) (maxDepth : Nat) (kmer : Nat) :
    List (Nat × List (List Nat)) :=
  let fuel := edgeCount g + 2
  let found := (succs g kmer).flatMap (fun s =>
    explore g comp ends maxDepth fuel s [kmer, s] ([kmer, s] ++ (Assoc.lookup comp s).getD []) 0)
  found.foldl (fun (acc : List (Nat × List (List Nat))) ep => Assoc.upsert acc ep.1 [ep.2] (fun l => l ++ [ep.2])) []

/-- `most_abundant_length`: the most frequent path length, the shortest one among equally
frequent lengths (0 for no path, not reached) -/
def mostCommonLength (paths : List (List Nat)) : Nat :=
  let lens := (paths.map List.length).eraseDups
  let cnt := fun (l : Nat) => (paths.filter (fun p => p.length == l)).length
  let best := (lens.map cnt).foldl max 0
  let cands := lens.filter (fun l => cnt l == best)
  cands.foldl min (cands.headD 0)

/-- a variant: sequence and marked positions -/
abbrev Variant := List UInt8 × List Nat

/-- sequence and `vec_snps` of one path -/
def buildVariant (W kGraph : Nat) (starts ends : List Nat) (kmer : Nat) (path : List Nat) : Variant :=
  let seq := skaloDecode W kmer kGraph ++ (path.drop 1).map (fun n => decodeBase (n &&& 3))
  let len := path.length
  let snps := path.zipIdx.foldl (fun (acc : List Nat) ni =>
    -- `i <= vec_visited.len() - k_graph` in wrapping arithmetic
    if starts.contains ni.1 && (len < kGraph || ni.2 ≤ len - kGraph) then acc ++ [ni.2 + kGraph]
    else if ends.contains ni.1 then acc ++ [ni.2 - 1]
    else acc) []
  (seq, snps)

/-- the variant groups of one entry node -/
def groupsFrom (W kGraph : Nat) (g : Graph) (comp : List (Nat × List Nat)) (starts ends : List Nat)
    (maxDepth : Nat) (kmer : Nat) : List ((Nat × Nat) × List Variant) :=
  let cont := pathsFrom g comp ends maxDepth kmer
  if cont.any (fun ep => ep.2.length > 1) then
    cont.foldl (fun (acc : List ((Nat × Nat) × List Variant)) ep =>
      let paths := ep.2
      let second := (paths.map (fun v => v.getD 1 0)).eraseDups
      let secondLast := (paths.map (fun v => v.getD (v.length - 2) 0)).eraseDups
      if second.length > 1 && secondLast.length > 1 then
        let mcl := mostCommonLength paths
        let filtered := if paths.length == 2 then paths else paths.filter (fun v => v.length == mcl)
        acc ++ [((kmer, ep.1), filtered.map (buildVariant W kGraph starts ends kmer))]
      else acc) []
  else []

structure Groups where
  snpGroups : List ((Nat × Nat) × List Variant)
  indelGroups : List ((Nat × Nat) × List Variant)
  deriving Repr

/-- `build_variant_groups` up to the call of `analyse_variant_groups` -/
def buildVariantGroups (W kGraph : Nat) (g0 : Graph) (starts ends : List Nat) (maxDepth : Nat) : Groups :=
  let (g, comp) := compactGraph g0 starts ends
  let built := starts.flatMap (groupsFrom W kGraph g comp starts ends maxDepth)
  let minIndel := 2 * kGraph
  let (sg, ig) := built.foldl (fun (acc : List ((Nat × Nat) × List Variant) × List ((Nat × Nat) × List Variant)) kv =>
    let vs := kv.2
    if vs.length < 2 then acc
    else if vs.length == 2 && (vs.getD 0 ([], [])).1.length != (vs.getD 1 ([], [])).1.length then
      if vs.any (fun v => v.1.length ≤ minIndel) then (acc.1, acc.2 ++ [kv]) else acc
    else (acc.1 ++ [kv], acc.2)) ([], [])
  { snpGroups := sg, indelGroups := ig }

/-- lexicographic order of byte strings (`String::cmp`): `a < b` -/
def bytesLt : List UInt8 → List UInt8 → Bool
  | [], [] => false
  | [], _ :: _ => true
  | _ :: _, [] => false
  | x :: xs, y :: ys => x < y || (x == y && bytesLt xs ys)

/-- order of map keys (pairs of k-mers): `a ≤ b` -/
def keyLe (a b : Nat × Nat) : Bool := a.1 < b.1 || (a.1 == b.1 && a.2 ≤ b.2)

/-- `a/b <= num/den` for the `f32` comparison of a small count ratio with the threshold -/
def ratioLe (a b num den : Nat) : Bool := a * den ≤ num * b

/-- one record of the indel VCF -/
structure IndelRec where
  ref : List UInt8
  alt : List UInt8
  before : List UInt8
  after : List UInt8
  calls : List String
  deriving Repr, BEq, DecidableEq

/-- `process_indels`: records of the kept groups (in key order) and the indel extremities -/
def processIndels (W kGraph nSamples mNum mDen : Nat) (col : Colours)
    (indelGroups : List ((Nat × Nat) × List Variant)) : Option (List IndelRec × List Nat) := do
  let gs := indelGroups.map (fun kv =>
    ({ entry := kv.1.1, exit := kv.1.2, len := (kv.2.map (·.1.length)).sum } : IndelGroup))
  let (kept, ext) := dereplicate W kGraph gs
  let keptSorted := kept.mergeSort (fun a b => keyLe (a.entry, a.exit) (b.entry, b.exit))
  let recs ← keptSorted.mapM (fun (kg : IndelGroup) => do
    let vs := (Assoc.lookup indelGroups (kg.entry, kg.exit)).getD []
    let sets := vs.filterMap (fun v => Assoc.lookup col (encodeKmer W (v.1.take (kGraph + 1))))
    -- `bitset_vec[0]`, `bitset_vec[1]`
    let s0 ← sets[0]?
    let s1 ← sets[1]?
    let (missing, rp, ap) := indelStats nSamples s0 s1
    if ratioLe missing nSamples mNum mDen && rp && ap then
      let seqs := vs.map (·.1)
      let (ins, last) := extractMiddleBases seqs kGraph
      let first := (seqs.headD []).take kGraph
      -- equally frequent alleles are ordered by their inserts: present them in that order
      let (i0, i1) := (ins.getD 0 [], ins.getD 1 [])
      let (r, a, calls) := if bytesLt i1 i0 then indelCalls nSamples i1 i0 s1 s0 else indelCalls nSamples i0 i1 s0 s1
      pure (some ({ ref := r, alt := a, before := first, after := last, calls := calls } : IndelRec))
    else pure none)
  pure (recs.filterMap id, ext)

/-- `find_internal_indels` -/
def internalIndels (W kGraph : Nat) (ext : List Nat) (seq : List UInt8) : Nat :=
  ((List.range (seq.length - kGraph)).filter (fun i =>
    ext.contains (encodeKmer W ((seq.drop i).take kGraph)))).length

/-- `get_range(a, b)` of a sequence: `none` when the Rust slice panics -/
def getRange (seq : List UInt8) (a b : Nat) : Option (List UInt8) :=
  if a ≤ b && b ≤ seq.length then some ((seq.drop a).take (b - a)) else none

/-- the SNP columns one variant group contributes, and the k-mers it blocks -/
def groupSnps (W kGraph nSamples mNum mDen : Nat) (col : Colours) (done : List Nat) (vs : List Variant) :
    Option (List (List UInt8) × List Nat) := do
  let positions := getPotentialSnp vs
  positions.foldlM (fun (acc : List (List UInt8) × List Nat) pos => do
    if pos < kGraph then none     -- `pos - k_graph` wraps and the slice panics
    let st ← vs.foldlM (fun (st : List UInt8 × List Nat × Bool) v => do
      let fbS ← getRange v.1 (pos - kGraph) (pos + 1)
      let faS ← getRange v.1 pos (pos + kGraph + 1)
      let fb := encodeKmer W fbS
      let fa := encodeKmer W faS
      let rca := revComp W fa (kGraph + 1)
      if !done.contains fb && !done.contains rca then
        let nucl := decodeBase (fb &&& 3)
        let samples ← Assoc.lookup col fb
        let column := samples.foldl (fun (c : List UInt8) i =>
          if c.getD i 0 == 45 || c.getD i 0 == nucl then c.set i nucl else c.set i 78) st.1
        pure (column, st.2.1 ++ [fb, revComp W fb (kGraph + 1), fa, rca], st.2.2)
      else pure (st.1, st.2.1, false)) (List.replicate nSamples 45, [], true)
    let (column, tmp, isNew) := st
    if isNew then
      let (ok, missing) := checkMissingData column
      if ok && ratioLe missing nSamples mNum mDen then pure (acc.1 ++ [column], acc.2 ++ tmp) else pure acc
    else pure acc) ([], [])

/-- insertion of a group into the list sorted by decreasing ratio (stable) -/
def insertByRatio (x : (Nat × Nat) × List Variant) :
    List ((Nat × Nat) × List Variant) → List ((Nat × Nat) × List Variant)
  | [] => [x]
  | y :: ys =>
    -- x before y unless y's ratio is at least x's:  x.n / x.len > y.n / y.len
    let xl := (x.2.headD ([], [])).1.length
    let yl := (y.2.headD ([], [])).1.length
    if x.2.length * yl ≥ y.2.length * xl then x :: y :: ys else y :: insertByRatio x ys

/-- the reference-free part of `analyse_variant_groups`: SNP columns in the order found, indel records -/
def analyse (W kGraph nSamples mNum mDen maxIndelKmers : Nat) (col : Colours) (gr : Groups) :
    Option (List (List UInt8) × List IndelRec) := do
  let (recs, ext) ← processIndels W kGraph nSamples mNum mDen col gr.indelGroups
  let filtered := gr.snpGroups.map (fun kv =>
    (kv.1, kv.2.filter (fun v => !(internalIndels W kGraph ext v.1 > maxIndelKmers))))
  -- by decreasing ratio, groups of equal ratio in key order
  let byKey := filtered.mergeSort (fun a b => keyLe a.1 b.1)
  let sorted := (byKey.filter (fun kv => !kv.2.isEmpty)).foldr insertByRatio []
  let res ← sorted.foldlM (fun (acc : List (List UInt8) × List Nat) kv => do
    if !ext.contains kv.1.1 && !ext.contains (revComp W kv.1.2 kGraph) then
      if kv.2.length < 2 then pure acc
      else
        let (cols, save) ← groupSnps W kGraph nSamples mNum mDen col acc.2 kv.2
        pure (acc.1 ++ cols, acc.2 ++ save)
    else pure acc) ([], [])
  pure (res.1, recs)

end Skalo
end SkaModel
