/-
Model of `generic_modes.rs`: the decision logic of `align`, `distance`, `weed`,
`delete`, `merge` on top of the array operations. Float-derived quantities
(`ceil(n*min_freq)`, `floor(n*min_freq)`, `min_freq*n >= 1.0`) are parameters.
-/
import SkaModel.Impl.MergeArray

namespace SkaModel
namespace Modes

/-- `apply_filters` with the threshold `ceil(n * min_freq)` given -/
def applyFilters (a : Arr) (t : Nat) (famb : Bool) (ft : FilterType) (mask gaps : Bool) : Arr × Nat :=
  a.filter t famb ft mask gaps false

/-- `align`: filters, then the FASTA records -/
def align (a : Arr) (t : Nat) (ft : FilterType) (mask gaps famb : Bool) : List (String × List UInt8) :=
  (applyFilters a t famb ft mask gaps).1.writeFasta

/-- `distance`: `t = ceil(n*min_freq)`, `ge1 = (min_freq * n >= 1.0)`, `filtAmbig = !allow_ambiguous` -/
def distance (a : Arr) (t : Nat) (ge1 filtAmbig : Bool) : List String × List (List (Nat × Nat × Nat)) :=
  -- frequency filter first, so that only constant sites are counted below
  let a := (applyFilters a t false .noFilter false false).1
  let (a, constant) := applyFilters a t false .noConst false false
  let a :=
    if filtAmbig || ge1 then
      if filtAmbig then (applyFilters a t true .noAmbigOrConst true false).1
      else (applyFilters a t false .noFilter false false).1
    else a
  (a.names, a.distance constant)

/-- `weed`: `tf = floor(n*min_freq)`; `weedKmers = none` when no weed file was given -/
def weed (a : Arr) (weedKmers : Option (List Nat)) (reverse : Bool) (tf : Nat) (famb : Bool)
    (ft : FilterType) (mask gaps : Bool) : Arr :=
  let a := match weedKmers with
    | some ks => a.weed ks reverse
    | none => a
  if tf > 0 || ft != .noFilter || mask || gaps then (a.filter tf famb ft mask gaps true).1 else a

/-- `merge`: `first.to_dict()`, `extend` with each further file, `MergeSkaArray::new`;
an error means no output file is written -/
def merge (W : Nat) (first : Arr) (rest : List Arr) : Except Refusal Arr := do
  let d ← rest.foldlM (fun d a => d.extend a.toDict) first.toDict
  pure (Arr.ofDict W d)

/-- `delete` -/
def delete (a : Arr) (names : List String) : Option Arr := a.deleteSamples names

/-- split k-mers of a FASTA record set as `RefSka::new(..).kmer_iter()` lists them -/
def refKmers (W k : Nat) (rc : Bool) (recs : List (Array UInt8)) : List Nat :=
  recs.flatMap (fun r =>
    let c : SKConf := { W := W, k := k, rc := rc, seq := r }
    c.states.map (fun s => (c.currKmer s).1))

end Modes
end SkaModel
