/-
Sample names from file arguments: `io_utils::read_input_fastas`.  Two regexes
(`regex` crate, Unicode mode, leftmost-first, greedy):
  re_path  ^.+/(.+)\.(?i:fa|fasta|fastq|fastq\.gz)$
  re_name  ^(.+)\.(?i:fa|fasta|fastq|fastq\.gz)$
`caps = re_path.captures(file).or(re_name.captures(file))`; the name is group 1, or
the whole argument when neither matches.  `.` does not match '\n'; `(?i:…)` uses
Unicode simple case folding, under which 'ſ' (U+017F) is equivalent to 's' and
'K' (U+212A) to 'k' (no 'k' occurs in the extensions).
Strings are `List Char`.  No Mathlib import: the driver links this file.
-/
namespace SkaModel.Names

/-- simple case folding restricted to what can reach the letters of the extensions -/
def fold (c : Char) : Char :=
  if c = 'ſ' then 's'
  else if 'A'.toNat ≤ c.toNat ∧ c.toNat ≤ 'Z'.toNat then Char.ofNat (c.toNat + 32) else c

def exts : List (List Char) :=
  ["fa".toList, "fasta".toList, "fastq".toList, "fastq.gz".toList]

/-- `s` ends in `.` + a case variant of `e`, with at least `need` characters before the dot -/
def endsWithExt (s e : List Char) (need : Nat) : Bool :=
  decide (need + 1 + e.length ≤ s.length) &&
  ((s.drop (s.length - e.length)).map fold == e) &&
  (s.getD (s.length - e.length - 1) 'x' == '.')

/-- the extension of `s` that the alternation matches (at most one can), with a non-empty stem -/
def matchExt (s : List Char) : Option (List Char) := exts.find? (fun e => endsWithExt s e 1)

/-- positions `i` of a '/' usable by `re_path`: `1 ≤ i` (non-empty `.+` before it) and at
least one character between it and the dot of the extension; the greedy `.+` takes the last -/
def lastSlash (s : List Char) (stemEnd : Nat) : Option Nat :=
  ((List.range stemEnd).reverse).find? (fun i => decide (1 ≤ i) && decide (i + 1 < stemEnd) && (s.getD i 'x' == '/'))

/-- group 1 of `re_path.captures(s).or(re_name.captures(s))`, or `s` itself -/
def sampleName (s : List Char) : List Char :=
  if s.contains '\n' then s
  else match matchExt s with
    | none => s
    | some e =>
      let stemEnd := s.length - e.length - 1      -- index of the dot
      match lastSlash s stemEnd with
      | some i => (s.take stemEnd).drop (i + 1)
      | none => s.take stemEnd

end SkaModel.Names
