/-
The serialised form of `MergeSkaArray` (serde derive → ciborium): a CBOR map of
the eight fields in declaration order, definite lengths, shortest-form heads.
`split_kmers` are unsigned integers: a plain major-0 integer below 2^64, a
tag-2 big-endian byte string otherwise (what ciborium emits for `u128`).
-/
import SkaModel.Impl.MergeArray

namespace SkaModel

structure SkfFile where
  arr : Arr
  version : List UInt8        -- `ska_version`, UTF-8 bytes
  deriving Repr, BEq, DecidableEq

namespace Cbor

def beBytes : Nat → Nat → List UInt8
  | 0, _ => []
  | n + 1, x => beBytes n (x / 256) ++ [UInt8.ofNat (x % 256)]

/-- head with major type `m` and argument `n < 2^64`, shortest form -/
def head (m n : Nat) : List UInt8 :=
  if n < 24 then [UInt8.ofNat (m * 32 + n)]
  else if n < 256 then [UInt8.ofNat (m * 32 + 24), UInt8.ofNat n]
  else if n < 65536 then UInt8.ofNat (m * 32 + 25) :: beBytes 2 n
  else if n < 4294967296 then UInt8.ofNat (m * 32 + 26) :: beBytes 4 n
  else UInt8.ofNat (m * 32 + 27) :: beBytes 8 n

def beNat (bs : List UInt8) : Nat := bs.foldl (fun acc b => acc * 256 + b.toNat) 0

/-- parse a head: (major, argument, rest); `none` at end of input or for the
indefinite/reserved additional-information values 28..31 -/
def parseHead (bs : List UInt8) : Option (Nat × Nat × List UInt8) :=
  match bs with
  | [] => none
  | b :: rest =>
    let m := b.toNat / 32
    let ai := b.toNat % 32
    if ai < 24 then some (m, ai, rest)
    else
      let nb := if ai == 24 then 1 else if ai == 25 then 2 else if ai == 26 then 4 else if ai == 27 then 8 else 0
      if nb == 0 then none
      else if rest.length < nb then none
      else some (m, beNat (rest.take nb), rest.drop nb)

def text (s : List UInt8) : List UInt8 := head 3 s.length ++ s
def uint (n : Nat) : List UInt8 := head 0 n
def bool (b : Bool) : List UInt8 := [if b then 0xf5 else 0xf4]

/-- minimal big-endian bytes of a positive number -/
def minBe (x : Nat) : List UInt8 := (beBytes 16 x).dropWhile (· == 0)

/-- a split k-mer: plain integer below 2^64, else tag 2 + byte string -/
def kmer (x : Nat) : List UInt8 :=
  if x < 2 ^ 64 then uint x else [0xc2] ++ head 2 (minBe x).length ++ minBe x

/-- a field name as a CBOR text string (the names are given as explicit UTF-8 bytes so
that everything about the layout reduces in the kernel) -/
def key (s : List UInt8) : List UInt8 := text s

def kK : List UInt8 := [0x6b]                                                     -- "k"
def kRc : List UInt8 := [0x72, 0x63]                                              -- "rc"
def kNames : List UInt8 := [0x6e, 0x61, 0x6d, 0x65, 0x73]                         -- "names"
def kSplitKmers : List UInt8 := [0x73, 0x70, 0x6c, 0x69, 0x74, 0x5f, 0x6b, 0x6d, 0x65, 0x72, 0x73]  -- "split_kmers"
def kVariants : List UInt8 := [0x76, 0x61, 0x72, 0x69, 0x61, 0x6e, 0x74, 0x73]    -- "variants"
def kV : List UInt8 := [0x76]                                                     -- "v"
def kDim : List UInt8 := [0x64, 0x69, 0x6d]                                       -- "dim"
def kData : List UInt8 := [0x64, 0x61, 0x74, 0x61]                                -- "data"
def kVariantCount : List UInt8 := [0x76, 0x61, 0x72, 0x69, 0x61, 0x6e, 0x74, 0x5f, 0x63, 0x6f, 0x75, 0x6e, 0x74]  -- "variant_count"
def kSkaVersion : List UInt8 := [0x73, 0x6b, 0x61, 0x5f, 0x76, 0x65, 0x72, 0x73, 0x69, 0x6f, 0x6e]  -- "ska_version"
def kKBits : List UInt8 := [0x6b, 0x5f, 0x62, 0x69, 0x74, 0x73]                   -- "k_bits"

def parseUint (bs : List UInt8) : Option (Nat × List UInt8) :=
  match parseHead bs with
  | some (0, n, rest) => some (n, rest)
  | _ => none

def parseText (bs : List UInt8) : Option (List UInt8 × List UInt8) :=
  match parseHead bs with
  | some (3, n, rest) => if rest.length < n then none else some (rest.take n, rest.drop n)
  | _ => none

def parseBool (bs : List UInt8) : Option (Bool × List UInt8) :=
  match bs with
  | 0xf4 :: rest => some (false, rest)
  | 0xf5 :: rest => some (true, rest)
  | _ => none

/-- expect exactly this text key -/
def expectKey (s : List UInt8) (bs : List UInt8) : Option (List UInt8) :=
  match parseText bs with
  | some (t, rest) => if t == s then some rest else none
  | none => none

/-- a split k-mer read as a `W`-bit integer: plain integers at both widths; a
tag-2 byte string (at most 16 bytes) only at 128 bits -/
def parseKmer (W : Nat) (bs : List UInt8) : Option (Nat × List UInt8) :=
  match parseHead bs with
  | some (0, n, rest) => some (n, rest)
  | some (6, 2, rest) =>
    if W != 128 then none else
    match parseHead rest with
    | some (2, len, rest') =>
      if len > 16 || rest'.length < len then none
      else some (beNat (rest'.take len), rest'.drop len)
    | _ => none
  | _ => none

/-- `n` items with parser `p` -/
def parseMany {α : Type} (p : List UInt8 → Option (α × List UInt8)) : Nat → List UInt8 → Option (List α × List UInt8)
  | 0, bs => some ([], bs)
  | n + 1, bs =>
    match p bs with
    | none => none
    | some (x, rest) =>
      match parseMany p n rest with
      | none => none
      | some (xs, rest') => some (x :: xs, rest')

def parseArray {α : Type} (p : List UInt8 → Option (α × List UInt8)) (bs : List UInt8) : Option (List α × List UInt8) :=
  match parseHead bs with
  | some (4, n, rest) => parseMany p n rest
  | _ => none

end Cbor

open Cbor

/-- split a flat list into rows of width `c` (`r` rows) -/
def chunkRows : Nat → Nat → List UInt8 → List (List UInt8)
  | 0, _, _ => []
  | r + 1, c, l => l.take c :: chunkRows r c (l.drop c)

namespace SkfFile

def ncols (f : SkfFile) : Nat := f.arr.names.length

/-- `ciborium::ser::into_writer(self, ..)` -/
def encode (f : SkfFile) : List UInt8 :=
  let a := f.arr
  head 5 8
  ++ key kK ++ uint a.k
  ++ key kRc ++ Cbor.bool a.rc
  ++ key kNames ++ head 4 a.names.length ++ (a.names.map (fun n => text n.toUTF8.toList)).flatten
  ++ key kSplitKmers ++ head 4 a.kmers.length ++ (a.kmers.map kmer).flatten
  ++ key kVariants ++ head 5 3
      ++ key kV ++ uint 1
      ++ key kDim ++ head 4 2 ++ uint a.variants.length ++ uint f.ncols
      ++ key kData ++ head 4 (a.variants.flatten.length) ++ (a.variants.flatten.map (fun b => uint b.toNat)).flatten
  ++ key kVariantCount ++ head 4 a.counts.length ++ (a.counts.map uint).flatten
  ++ key kSkaVersion ++ text f.version
  ++ key kKBits ++ uint a.kBits

/-- `ciborium::de::from_reader` at integer width `W`, followed by the `k_bits`
check of `load`; returns the value and the unread rest -/
def decode (W : Nat) (bs : List UInt8) : Option (SkfFile × List UInt8) := do
  let (m, n, bs) ← parseHead bs
  if m != 5 || n != 8 then none
  let bs ← expectKey kK bs
  let (k, bs) ← parseUint bs
  let bs ← expectKey kRc bs
  let (rc, bs) ← parseBool bs
  let bs ← expectKey kNames bs
  let (names, bs) ← parseArray parseText bs
  let bs ← expectKey kSplitKmers bs
  let (kmers, bs) ← parseArray (parseKmer W) bs
  let bs ← expectKey kVariants bs
  let (m, n, bs) ← parseHead bs
  if m != 5 || n != 3 then none
  let bs ← expectKey kV bs
  let (v, bs) ← parseUint bs
  if v != 1 then none
  let bs ← expectKey kDim bs
  let (dim, bs) ← parseArray parseUint bs
  let bs ← expectKey kData bs
  let (data, bs) ← parseArray parseUint bs
  let bs ← expectKey kVariantCount bs
  let (counts, bs) ← parseArray parseUint bs
  let bs ← expectKey kSkaVersion bs
  let (version, bs) ← parseText bs
  let bs ← expectKey kKBits bs
  let (kBits, bs) ← parseUint bs
  match dim with
  | [r, c] =>
    if data.length != r * c then none
    else if data.any (· ≥ 256) then none
    else if kBits != W then none     -- `load`: written with another width
    else
      match names.mapM (fun t => String.fromUTF8? (ByteArray.mk t.toArray)) with
      | none => none
      | some ns =>
        some ({ arr := { k := k, rc := rc, names := ns, kmers := kmers
                         variants := chunkRows r c (data.map UInt8.ofNat), counts := counts, kBits := kBits }
                version := version }, bs)
  | _ => none

/-- the dispatch of `lib.rs`: try 64 bits, then 128 bits -/
def loadAny (bs : List UInt8) : Option SkfFile :=
  match decode 64 bs with
  | some (f, _) => some f
  | none => (decode 128 bs).map (·.1)

end SkfFile
end SkaModel
