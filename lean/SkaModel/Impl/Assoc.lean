/-
Association lists standing in for the hash maps of the Rust code. Iteration
order of a hash map is arbitrary; results that inherit it are compared after
sorting by key.
-/
namespace SkaModel

abbrev Assoc (κ ν : Type) := List (κ × ν)

namespace Assoc
variable {κ ν : Type} [BEq κ]

def lookup (d : Assoc κ ν) (key : κ) : Option ν :=
  match d with
  | [] => none
  | (k, v) :: rest => if k == key then some v else lookup rest key

def contains (d : Assoc κ ν) (key : κ) : Bool := (lookup d key).isSome

/-- `entry(key).and_modify(f).or_insert(ins)` -/
def upsert (d : Assoc κ ν) (key : κ) (ins : ν) (f : ν → ν) : Assoc κ ν :=
  match d with
  | [] => [(key, ins)]
  | (k, v) :: rest => if k == key then (k, f v) :: rest else (k, v) :: upsert rest key ins f

/-- as `upsert`, with a modification that can panic (`none`) -/
def upsertM (d : Assoc κ ν) (key : κ) (ins : ν) (f : ν → Option ν) : Option (Assoc κ ν) :=
  match d with
  | [] => some [(key, ins)]
  | (k, v) :: rest =>
    if k == key then (f v).map (fun v' => (k, v') :: rest)
    else (upsertM rest key ins f).map (fun r => (k, v) :: r)

def keys (d : Assoc κ ν) : List κ := d.map (·.1)

end Assoc

/-- insertion sort by a key function into natural numbers (canonical output order) -/
def insertByKey {α : Type} (f : α → Nat) (x : α) : List α → List α
  | [] => [x]
  | y :: ys => if f x ≤ f y then x :: y :: ys else y :: insertByKey f x ys

def sortByKey {α : Type} (f : α → Nat) (l : List α) : List α :=
  l.foldr (insertByKey f) []

end SkaModel
