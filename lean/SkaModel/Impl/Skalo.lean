/-
Model of the deterministic helpers of `ska lo` (`src/skalo`): the graph
construction of `build_graph`, `check_missing_data`, `complement_snp`,
`get_potential_snp`, the output writer `create_fasta_and_vcf`, the indel
genotyping and insert extraction of `process_indels.rs`.
The graph traversal (compaction, bounded DFS, greedy de-duplication) is not modelled.
-/
import SkaModel.Impl.Bits
import SkaModel.Impl.Assoc

namespace SkaModel
namespace Skalo

def isACGT (b : UInt8) : Bool := b == 65 || b == 67 || b == 71 || b == 84

/-- `check_missing_data`: (at least two of A/C/G/T present, number of entries that are none of them) -/
def checkMissingData (col : List UInt8) : Bool × Nat :=
  let present := [65, 84, 71, 67].filter (fun n => col.contains n)
  (decide (present.length ≥ 2), (col.filter (fun b => !isACGT b)).length)

/-- `complement_snp`: A<->T, C<->G, '-' and N fixed; `none` = its `panic!` -/
def complementSnp (col : List UInt8) : Option (List UInt8) :=
  col.mapM (fun b =>
    if b == 65 then some 84 else if b == 84 then some 65 else if b == 67 then some 71
    else if b == 71 then some 67 else if b == 45 then some 45 else if b == 78 then some 78 else none)

/-- `get_potential_snp`: marked positions at which the variants show at least two of A/C/G/T
(positions beyond a sequence's end are ignored for that sequence); sorted, duplicate free -/
def getPotentialSnp (variants : List (List UInt8 × List Nat)) : List Nat :=
  let marked := (variants.flatMap (·.2)).eraseDups
  let real := marked.filter (fun pos =>
    let seen := variants.filterMap (fun v => if pos < v.1.length then some (v.1.getD pos 0) else none)
    decide (([65, 67, 71, 84].filter (fun n => seen.contains n)).length > 1))
  sortByKey id real

/-- length of the longest common suffix of all sequences (0 for an empty list is not reached) -/
def commonSuffixLen (seqs : List (List UInt8)) : Nat :=
  let minLen := (seqs.map List.length).foldl min ((seqs.headD []).length)
  let first := (seqs.headD []).reverse
  let rec go (n : Nat) (fuel : Nat) : Nat :=
    match fuel with
    | 0 => n
    | fuel + 1 =>
      if n < minLen && seqs.all (fun s => s.reverse.getD n 0 == first.getD n 0) then go (n + 1) fuel else n
  go 0 minLen

/-- `extract_middle_bases`: (insert of each variant, '-' when empty; the shared last k-mer) -/
def extractMiddleBases (seqs : List (List UInt8)) (kGraph : Nat) : List (List UInt8) × List UInt8 :=
  let reduced := seqs.map (fun s => s.drop kGraph)
  let n := commonSuffixLen reduced
  let r0 := reduced.headD []
  let lastKmer := (r0.drop (r0.length - n)).take kGraph
  (reduced.map (fun s => let m := s.take (s.length - n); if m.isEmpty then [45] else m), lastKmer)

/-- indel genotyping: from the two sample sets (as membership lists over `n` samples):
(missing count incl. heterozygous, ref present, alt present) with set 0 / set 1 as given -/
def indelStats (n : Nat) (set0 set1 : List Nat) : Nat × Bool × Bool :=
  (List.range n).foldl (fun (acc : Nat × Bool × Bool) i =>
    let (m, rp, ap) := acc
    let a := set0.contains i
    let b := set1.contains i
    if !a && !b then (m + 1, rp, ap) else if a && b then (m + 1, rp, ap)
    else if a then (m, true, ap) else (m, rp, true)) (0, false, false)

/-- REF is the more frequent variant (stable: ties keep the given order); genotype strings -/
def indelCalls (n : Nat) (ins0 ins1 : List UInt8) (set0 set1 : List Nat) :
    List UInt8 × List UInt8 × List String :=
  let swap := set1.eraseDups.length > set0.eraseDups.length
  let (refA, altA, refS, altS) := if swap then (ins1, ins0, set1, set0) else (ins0, ins1, set0, set1)
  (refA, altA, (List.range n).map (fun i =>
    match refS.contains i, altS.contains i with
    | true, true => "0/1"
    | true, false => "0"
    | false, true => "1"
    | false, false => "."))

structure SnpOut where
  snpSeqs : List (List UInt8)                 -- one per sample: the SNP alignment
  pseudo : Option (List (List UInt8))         -- pseudo-genomes when a reference is given
  vcf : List (Nat × UInt8 × List UInt8)       -- (0-based position, reference base, column)
  deriving Repr, BEq, DecidableEq

/-- `create_fasta_and_vcf` up to text rendering: `variants` = (position, column) pairs -/
def createFastaAndVcf (genome : List UInt8) (nSamples : Nat) (variants : List (Nat × List UInt8)) : SnpOut :=
  let genome := genome.map (fun b => if isACGT b || b == 78 then b else 78)
  let sorted := sortByKey (·.1) variants
  let len := if !genome.isEmpty then genome.length else (match sorted.getLast? with | some v => v.1 + 1 | none => 0)
  -- walk positions with an index into the sorted variant list
  let (seqs, pseudo, vcf, _) := (List.range len).foldl
    (fun (st : List (List UInt8) × List (List UInt8) × List (Nat × UInt8 × List UInt8) × Nat) pos =>
      let (seqs, pseudo, vcf, idx) := st
      match sorted[idx]? with
      | some (p, col) =>
        if p == pos then
          let seqs := seqs.zipIdx.map (fun si => si.1 ++ [col.getD si.2 45])
          if !genome.isEmpty then
            (seqs, pseudo.zipIdx.map (fun si => si.1 ++ [col.getD si.2 45]), vcf ++ [(p, genome.getD p 0, col)], idx + 1)
          else (seqs, pseudo, vcf, idx + 1)
        else if !genome.isEmpty then (seqs, pseudo.map (fun s => s ++ [genome.getD pos 0]), vcf, idx)
        else (seqs, pseudo, vcf, idx)
      | none =>
        if !genome.isEmpty then (seqs, pseudo.map (fun s => s ++ [genome.getD pos 0]), vcf, idx)
        else (seqs, pseudo, vcf, idx))
    (List.replicate nSamples [], List.replicate nSamples [], [], 0)
  { snpSeqs := seqs, pseudo := if genome.isEmpty then none else some pseudo, vcf := vcf }

/-- decoded genotype character of a sample in an SNP VCF record: '.' for '-'/N, else the base -/
def vcfGenotypeChar (b : UInt8) : UInt8 := if b == 45 || b == 78 then 46 else b

/-- bases an IUPAC letter stands for, in the order of `build_graph`'s table -/
def degenerate (b : UInt8) : List UInt8 :=
  if b == 65 then [65] else if b == 84 then [84] else if b == 71 then [71] else if b == 67 then [67]
  else if b == 77 then [65, 67] else if b == 83 then [67, 71] else if b == 87 then [65, 84]
  else if b == 82 then [65, 71] else if b == 89 then [67, 84] else if b == 75 then [71, 84]
  else if b == 66 then [67, 71, 84] else if b == 68 then [65, 71, 84] else if b == 72 then [65, 67, 84]
  else if b == 86 then [65, 67, 71] else if b == 78 then [65, 67, 71, 84] else []

/-- the (k-1)-mer edges and the coloured k-mers one table row contributes:
for every base `n` some sample shows: edge `full[..k-1] → full[1..]`, its reverse-complement
edge, and the sample set of `full` and of its reverse complement -/
def rowGraph (W k : Nat) (key : Nat) (cells : List UInt8) :
    List (Nat × Nat) × List (Nat × List Nat) :=
  let (left, right) := decodeKmer W k key
  let bases := ([65, 67, 71, 84] : List UInt8).filter (fun n => cells.any (fun c => c != 45 && (degenerate c).contains n))
  bases.foldl (fun (acc : List (Nat × Nat) × List (Nat × List Nat)) n =>
    let full := left ++ [n] ++ right
    let samples := (cells.zipIdx.filter (fun ci => ci.1 != 45 && (degenerate ci.1).contains n)).map (·.2)
    let k1 := encodeKmer W (full.take (k - 1))
    let k2 := encodeKmer W (full.drop 1)
    let f := encodeKmer W full
    (acc.1 ++ [(k1, k2), (revComp W k2 (k - 1), revComp W k1 (k - 1))],
     acc.2 ++ [(f, samples), (revComp W f k, samples)])) ([], [])

end Skalo
end SkaModel
