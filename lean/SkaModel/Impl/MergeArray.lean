/-
Model of `merge_ska_array.rs`: the eight serialised fields and
`new`, `to_dict`, `update_counts`, `delete_samples`, `filter`, `weed`,
`distance`, `write_fasta`, `n_sample_kmers`.
The three row-aligned containers (`split_kmers`, `variants`, `variant_count`)
are separate lists, zipped exactly where the Rust zips them.
-/
import SkaModel.Impl.MergeDict

namespace SkaModel

inductive FilterType where
  | noFilter | noConst | noAmbig | noAmbigOrConst
  deriving Repr, BEq, DecidableEq

structure Arr where
  k : Nat
  rc : Bool
  names : List String
  kmers : List Nat
  variants : List (List UInt8)
  counts : List Nat
  kBits : Nat
  deriving Repr, BEq, DecidableEq

def GAP : UInt8 := 45

namespace Arr

def nsamples (a : Arr) : Nat := a.names.length

/-- `MergeSkaArray::new(dynamic)` -/
def ofDict (W : Nat) (d : MDict) : Arr :=
  { k := d.k, rc := d.rc, names := d.names
    kmers := d.kmers.map (·.1)
    counts := d.kmers.map (fun kv => (kv.2.filter (fun b => b != 0 && b != GAP)).length)
    variants := d.kmers.map (fun kv => kv.2.map (fun b => max b GAP))
    kBits := W }

/-- `to_dict` -/
def toDict (a : Arr) : MDict :=
  { k := a.k, rc := a.rc, nSamples := a.names.length, names := a.names
    kmers := (a.variants.zip a.kmers).foldl (fun acc rk =>
      -- `HashMap::insert` overwrites
      acc.upsert rk.2 rk.1 (fun _ => rk.1)) [] }

def cellCount (famb : Bool) (row : List UInt8) : Nat :=
  (row.filter (fun b => b != GAP && (!famb || !isAmbiguous b))).length

/-- `update_counts(filter_ambig_as_missing)` -/
def updateCounts (a : Arr) (famb : Bool) : Arr :=
  let kept := (a.variants.zip a.kmers).filter (fun rk => cellCount famb rk.1 > 0)
  { a with kmers := kept.map (·.2), variants := kept.map (·.1)
           counts := kept.map (fun rk => cellCount famb rk.1) }

/-- `delete_samples`; `none` = one of its panics (refusal). Refused: no names, or as many DISTINCT
names as the file has samples (repetitions in the list do not count), or a name that is not a sample -/
def deleteSamples (a : Arr) (del : List String) : Option Arr :=
  if del.isEmpty || del.eraseDups.length == a.names.length then none
  else
    let delSet := del.eraseDups
    -- every (distinct) requested name must be found
    if delSet.any (fun n => !a.names.contains n) then none
    else
      -- the first occurrence of each requested name is removed (the Rust removes the
      -- name from its set once matched)
      let (keepIdx, _) := (a.names.zipIdx).foldl (fun (acc : List Nat × List String) ni =>
        if acc.2.contains ni.1 then (acc.1, acc.2.erase ni.1) else (acc.1 ++ [ni.2], acc.2)) ([], delSet)
      let pick (row : List UInt8) : List UInt8 := keepIdx.map (fun i => row.getD i GAP)
      let a' := { a with names := keepIdx.map (fun i => a.names.getD i ""), variants := a.variants.map pick }
      some (a'.updateCounts false)

/-- distinct elements in first-seen order -/
def distinct (row : List UInt8) : List UInt8 := row.eraseDups

/-- the per-row site test of `filter` -/
def keepRow (ft : FilterType) (gaps : Bool) (row : List UInt8) : Bool :=
  match ft with
  | .noFilter => true
  | .noConst => (distinct (row.filter (fun v => !gaps || v != GAP))).length > 1
  | .noAmbig => row.all (fun v => !isAmbiguous v)
  | .noAmbigOrConst =>
    let score (b : UInt8) : Nat :=
      let l := b ||| 0x20
      if l == 97 || l == 99 || l == 103 || l == 116 || l == 117 then 1
      else if l == 45 then (if gaps then 0 else 1)
      else 0
    ((distinct row).map score).sum > 1

/-- `filter(min_count, filter_ambig_as_missing, filter, mask_ambig, ignore_const_gaps, update_kmers)`;
returns the new array and the number of removed rows -/
def filter (a : Arr) (minCount : Nat) (famb : Bool) (ft : FilterType) (mask gaps upd : Bool) : Arr × Nat :=
  -- stored counts may come from a file filtered with other settings: always recount
  let a := a.updateCounts famb
  let zipped := (a.counts.zip a.variants).zip a.kmers
  let kept := zipped.filter (fun crk => crk.1.1 ≥ minCount && keepRow ft gaps crk.1.2)
  let removed := zipped.length - kept.length
  let variants := kept.map (·.1.2)
  let variants := if mask then variants.map (fun row => row.map (fun v => if isAmbiguous v then 78 else v)) else variants
  ({ a with variants := variants, counts := kept.map (·.1.1)
            kmers := if upd then kept.map (·.2) else a.kmers }, removed)

/-- `weed(weed_ref, reverse)` with the weed k-mers as a list -/
def weed (a : Arr) (weedKmers : List Nat) (reverse : Bool) : Arr :=
  let zipped := (a.kmers.zip a.variants).zip a.counts
  let kept := zipped.filter (fun krc =>
    let found := weedKmers.contains krc.1.1
    (!reverse && !found) || (reverse && found))
  { a with kmers := kept.map (·.1.1), variants := kept.map (·.1.2), counts := kept.map (·.2) }

def column (a : Arr) (i : Nat) : List UInt8 := a.variants.map (fun row => row.getD i GAP)

/-- `write_fasta`: (name, sequence) per sample -/
def writeFasta (a : Arr) : List (String × List UInt8) :=
  a.names.zipIdx.map (fun ni => (ni.1, a.column ni.2))

/-- `n_sample_kmers` -/
def nSampleKmers (a : Arr) : List Nat :=
  (List.range a.names.length).map (fun i => ((a.column i).filter (· != GAP)).length)

/-- `variant_dist` in exact arithmetic: (36 * distance, mismatches, matches) where the
reported proportion is `mismatches / (matches + mismatches)` (0 when the denominator is 0)
and `matches` starts at `constant` -/
def variantDist (c1 c2 : List UInt8) (constant : Nat) : Nat × Nat × Nat :=
  (c1.zip c2).foldl (fun (acc : Nat × Nat × Nat) vv =>
    let (d, mm, m) := acc
    if vv.1 == GAP || vv.2 == GAP then
      if !(vv.1 == GAP && vv.2 == GAP) then (d, mm + 1, m) else (d, mm, m)
    else
      let overlap36 := ((List.range 4).map (fun j => prob6 vv.1 j * prob6 vv.2 j)).sum
      (d + (36 - overlap36), mm, m + 1)) (0, 0, constant)

/-- `distance(constant)`: upper triangle, row `i` lists `j = i+1 ..` -/
def distance (a : Arr) (constant : Nat) : List (List (Nat × Nat × Nat)) :=
  let n := a.names.length
  (List.range n).map (fun i =>
    ((List.range n).filter (· > i)).map (fun j => variantDist (a.column i) (a.column j) constant))

end Arr
end SkaModel
