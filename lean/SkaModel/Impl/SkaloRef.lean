/-
Model of `ska lo -r`: `extract_genomic_kmers`, `scan_variants`, `most_frequent_position`
(positioning.rs) and the positioning branch of `analyse_variant_groups` (process_variants.rs).
Positions are `u32` in the Rust (`position - pos as u32` wraps in release builds); the model
computes modulo 2^32.
-/
import SkaModel.Impl.SkaloPipe
import SkaModel.Impl.RefSka

namespace SkaModel
namespace Skalo

def U32 : Nat := 4294967296

/-- the reference as the Rust keeps it: whitespace removed, upper case -/
def genomeBytes (g : List UInt8) : List UInt8 :=
  (g.filter (fun b => !(b == 32 || (9 ≤ b && b ≤ 13)))).map toUpper

/-- `extract_genomic_kmers`: k-mer -> up to three end positions (`n + k`), in genome order -/
def genomicKmers (W k : Nat) (genome : List UInt8) : List (Nat × List Nat) :=
  if genome.length < k then []
  else
    (List.range (genome.length - k + 1)).foldl (fun (acc : List (Nat × List Nat)) n =>
      let kmer := (genome.drop n).take k
      if kmer.all (fun b => (b &&& 15) != 14) then
        Assoc.upsert acc (encodeKmer W kmer) [n + k] (fun l => if l.length < 3 then l ++ [n + k] else l)
      else acc) []

/-- `most_frequent_position`: `(0, 0)` for a tie of the most frequent values or fewer than 10 votes -/
def mostFrequentPosition (xs : List Nat) : Nat × Nat :=
  let vals := xs.eraseDups
  let cnt := fun (v : Nat) => (xs.filter (· == v)).length
  let best := (vals.map cnt).foldl max 0
  let top := vals.filter (fun v => cnt v == best)
  match top with
  | [p] => if best < 10 then (0, 0) else (p, best)
  | _ => (0, 0)

/-- `rev_compl` of an A/C/G/T string (`none`: its panic on any other letter) -/
def revComplStr (s : List UInt8) : Option (List UInt8) :=
  s.reverse.mapM (fun b =>
    if b == 65 then some 84 else if b == 67 then some 71 else if b == 84 then some 65
    else if b == 71 then some 67 else none)

/-- votes of one strand: for every k-mer of `seq` found in the map, `position - offset` (u32) -/
def strandVotes (W k : Nat) (kmap : List (Nat × List Nat)) (seq : List UInt8) : List Nat :=
  if seq.length < k then []    -- `0..=len - k` underflows: not reached, paths are longer than k
  else
    (List.range (seq.length - k + 1)).flatMap (fun pos =>
      match Assoc.lookup kmap (encodeKmer W ((seq.drop pos).take k)) with
      | some ps => ps.map (fun p => (p + U32 - pos % U32) % U32)
      | none => [])

/-- `scan_variants`: (position found, position, forward orientation) -/
def scanVariants (W k : Nat) (kmap : List (Nat × List Nat)) (vs : List Variant) : Option (Bool × Nat × Bool) := do
  let rcs ← vs.mapM (fun v => revComplStr v.1)
  let fwd := vs.flatMap (fun v => strandVotes W k kmap v.1)
  let rev := rcs.flatMap (fun s => strandVotes W k kmap s)
  let f := mostFrequentPosition fwd
  let r := mostFrequentPosition rev
  let fo := if fwd.isEmpty || f.2 == 0 then none else some f
  let ro := if rev.isEmpty || r.2 == 0 then none else some r
  pure (match fo, ro with
    | some (pf, cf), some (pr, cr) =>
      if cf == cr then (false, 0, true) else if cf > cr then (true, pf, true) else (true, pr, false)
    | some (pf, _), none => (true, pf, true)
    | none, some (pr, _) => (true, pr, false)
    | none, none => (false, 0, true))

/-- as `groupSnps`, keeping the position of each column inside the group -/
def groupSnpsPos (W kGraph nSamples mNum mDen : Nat) (col : Colours) (done : List Nat) (vs : List Variant) :
    Option (List (Nat × List UInt8) × List Nat) := do
  let positions := getPotentialSnp vs
  positions.foldlM (fun (acc : List (Nat × List UInt8) × List Nat) pos => do
    if pos < kGraph then none
    let st ← vs.foldlM (fun (st : List UInt8 × List Nat × Bool) v => do
      let fbS ← getRange v.1 (pos - kGraph) (pos + 1)
      let faS ← getRange v.1 pos (pos + kGraph + 1)
      let fb := encodeKmer W fbS
      let fa := encodeKmer W faS
      let rca := revComp W fa (kGraph + 1)
      if !done.contains fb && !done.contains rca then
        let nucl := decodeBase (fb &&& 3)
        let samples ← Assoc.lookup col fb
        let column := samples.foldl (fun (c : List UInt8) i =>
          if c.getD i 0 == 45 || c.getD i 0 == nucl then c.set i nucl else c.set i 78) st.1
        pure (column, st.2.1 ++ [fb, revComp W fb (kGraph + 1), fa, rca], st.2.2)
      else pure (st.1, st.2.1, false)) (List.replicate nSamples 45, [], true)
    let (column, tmp, isNew) := st
    if isNew then
      let (ok, missing) := checkMissingData column
      if ok && ratioLe missing nSamples mNum mDen then pure (acc.1 ++ [(pos, column)], acc.2 ++ tmp) else pure acc
    else pure acc) ([], [])

/-- `analyse_variant_groups` with a reference genome: (position -> column) map in insertion order
(first claim of a position wins), indel records -/
def analyseRef (W kGraph nSamples mNum mDen maxIndelKmers : Nat) (col : Colours) (gr : Groups)
    (genome : List UInt8) : Option (List (Nat × List UInt8) × List IndelRec) := do
  let kmap := genomicKmers 128 kGraph genome
  let (recs, ext) ← processIndels W kGraph nSamples mNum mDen col gr.indelGroups
  let filtered := gr.snpGroups.map (fun kv =>
    (kv.1, kv.2.filter (fun v => !(internalIndels W kGraph ext v.1 > maxIndelKmers))))
  let byKey := filtered.mergeSort (fun a b => keyLe a.1 b.1)
  let sorted := (byKey.filter (fun kv => !kv.2.isEmpty)).foldr insertByRatio []
  let res ← sorted.foldlM (fun (acc : List (Nat × List UInt8) × List Nat) kv => do
    if !ext.contains kv.1.1 && !ext.contains (revComp W kv.1.2 kGraph) then
      if kv.2.length < 2 then pure acc
      else
        let (found, save) ← groupSnpsPos W kGraph nSamples mNum mDen col acc.2 kv.2
        if found.isEmpty then pure (acc.1, acc.2 ++ save)
        else
          let (ok, position, fwdO) ← scanVariants 128 kGraph kmap kv.2
          if !ok then pure (acc.1, acc.2 ++ save)
          else
            let seqLen := (kv.2.headD ([], [])).1.length
            let placed ← found.foldlM (fun (m : List (Nat × List UInt8)) pc => do
              let finalPos := if fwdO then (position + (pc.1 - kGraph)) % U32
                              else (position + (seqLen - pc.1 - kGraph - 1)) % U32
              let column ← if fwdO then some pc.2 else complementSnp pc.2
              if m.any (·.1 == finalPos) then pure m else pure (m ++ [(finalPos, column)])) acc.1
            pure (placed, acc.2 ++ save)
    else pure acc) ([], [])
  pure (res.1, recs)

end Skalo
end SkaModel
