/-
Byte-level functions of `src/ska_dict/bit_encoding.rs`, written the way the code
computes them. `SkaModel/Props/C15.lean` proves each of them equal to the table
regenerated from the running code (`Generated/Tables.lean`) on every run.
-/
import SkaModel.Generated.Tables

namespace SkaModel

open Tables

/-- `encode_base`: `(base >> 1) & 0x3` -/
def encodeBase (b : UInt8) : UInt8 := (b >>> 1) &&& 3

/-- 2-bit code of an ASCII base as a natural number -/
def code (b : UInt8) : Nat := (encodeBase b).toNat

/-- `decode_base`: `LETTER_CODE[bitbase]` = A, C, T, G. The Rust indexes a
4-element array; every call site masks the argument to two bits first, so the
model is only ever applied to `c < 4` (the tie theorem is stated for `c < 4`). -/
def decodeBase (c : Nat) : UInt8 :=
  if c = 0 then 65 else if c = 1 then 67 else if c = 2 then 84 else 71

/-- `rc_base`: `base ^ 2` -/
def rcBase (c : Nat) : Nat := c ^^^ 2

/-- `valid_base`: `base & 0xF != 14` -/
def validBase (b : UInt8) : Bool := (b &&& 0xF) != 14

/-- `is_ambiguous`: lower-case, then not one of a c g t u - -/
def isAmbiguous (b : UInt8) : Bool :=
  let l := b ||| 0x20
  !(l == 97 || l == 99 || l == 103 || l == 116 || l == 117 || l == 45)

/-- `IUPAC[base * 256 + old]` — the regenerated table itself -/
def iupacAdd (base : Nat) (old : UInt8) : UInt8 :=
  UInt8.ofNat (at8 iupac (base * 256 + old.toNat))

/-- `RC_IUPAC[x]` — the regenerated table itself -/
def rcIupacAt (x : UInt8) : UInt8 := UInt8.ofNat (at8 rcIupac x.toNat)

/-- `base_to_prob(x)[j] * 6` from the regenerated table (255 = not 0, 1, 1/2, 1/3) -/
def prob6 (x : UInt8) (j : Nat) : Nat := at8 baseToProb6 (4 * x.toNat + j)

/-- `u8_to_base` as a character: A C G T stay, everything else is N -/
def u8ToBase (b : UInt8) : UInt8 :=
  if b == 65 || b == 67 || b == 71 || b == 84 then b else 78

end SkaModel
