/-
`build_graph` after fix 82b13c8: the sample set of a k-mer is the union of the sets of all rows that
yield it (`entry(k).and_modify(|s| s.union_with(&new)).or_insert_with(|| new)`). In a file built
with `--single-strand` the two strands of a k-mer are separate rows; in a file built with both
strands every k-mer comes from one row and `buildGraphU` coincides with `buildGraph` (first
insertion wins), which stays the object of the theorems proved before the fix
(`Props/C17Union.lean` states when the two coincide).
-/
import SkaModel.Impl.SkaloPipe

namespace SkaModel
namespace Skalo

/-- `BitSet::union_with` on ascending lists of sample indices -/
def unionSorted : List Nat → List Nat → List Nat
  | [], ys => ys
  | x :: xs, [] => x :: xs
  | x :: xs, y :: ys =>
    if x < y then x :: unionSorted xs (y :: ys)
    else if y < x then y :: unionSorted (x :: xs) ys
    else x :: unionSorted xs ys
termination_by xs ys => xs.length + ys.length

/-- `entry(k).and_modify(|s| s.union_with(&new)).or_insert_with(|| new)` -/
def addColourU (c : Colours) (k : Nat) (s : List Nat) : Colours :=
  Assoc.upsert c k s (fun old => unionSorted old s)

/-- `build_graph`: all rows of the table, sample sets merged -/
def buildGraphU (W : Nat) (a : Arr) : Graph × Colours :=
  (a.kmers.zip a.variants).foldl (fun (acc : Graph × Colours) kv =>
    let (es, cs) := rowGraph W a.k kv.1 kv.2
    (es.foldl (fun g e => addEdgeOnce g e.1 e.2) acc.1, cs.foldl (fun c e => addColourU c e.1 e.2) acc.2))
    ([], [])

end Skalo
end SkaModel
