/-
Model of `coverage.rs`: k-mer multiplicities, the count histogram and its
truncation, the integer root finder `find_cutoff`, the row labels of
`plot_hist`; and the mixture likelihood / gradient formulas, written once over
an abstract field with `exp`/`log` so that they can be executed on `Float` and
reasoned about over the reals.
-/
import SkaModel.Impl.SplitKmer
import Std.Data.HashMap

namespace SkaModel
namespace Coverage

def MAX_COUNT : Nat := 1000
def MIN_FREQ : Nat := 50

/-- every split k-mer key (arms only) of a read, as `CoverageHistogram::new` counts them
(quality ignored, no hash) -/
def readKeys (W k : Nat) (rc : Bool) (seq : Array UInt8) : List Nat :=
  let c : SKConf := { W := W, k := k, rc := rc, seq := seq }
  c.states.map (fun s => (c.currKmer s).1)

/-- `kmer_dict`: multiplicity of each key over all reads of both files -/
def kmerDict (W k : Nat) (rc : Bool) (reads : List (Array UInt8)) : Std.HashMap Nat Nat :=
  reads.foldl (fun d r => (readKeys W k rc r).foldl (fun d key => d.insert key (d.getD key 0 + 1)) d) {}

/-- `counts[c-1]` = number of keys with multiplicity `c`, for `c ≤ MAX_COUNT` -/
def histogram (mults : List Nat) : List Nat :=
  (List.range MAX_COUNT).map (fun i => (mults.filter (· == i + 1)).length)

/-- drop the trailing entries below `MIN_FREQ` (`rev().skip_while(< 50)`, reversed back) -/
def truncate (counts : List Nat) : List Nat :=
  (counts.reverse.dropWhile (· < MIN_FREQ)).reverse

/-- `find_cutoff`: the least `c ≥ 1` below `maxCutoff` at which the root is negative, else `maxCutoff`
(and 1 when `maxCutoff ≤ 1`); `neg c` = `a(c) - b(c) < 0` -/
def findCutoffFrom (neg : Nat → Bool) (maxCutoff : Nat) : Nat → Nat → Nat
  | 0, cutoff => cutoff
  | fuel + 1, cutoff =>
    if cutoff < maxCutoff then
      if neg cutoff then cutoff else findCutoffFrom neg maxCutoff fuel (cutoff + 1)
    else cutoff

def findCutoff (neg : Nat → Bool) (maxCutoff : Nat) : Nat := findCutoffFrom neg maxCutoff maxCutoff 1

/-- label of table row `c` (1-based) -/
def isError (cutoff c : Nat) : Bool := c < cutoff

end Coverage

/-- the operations the likelihood needs -/
class ExpLog (α : Type) where
  add : α → α → α
  sub : α → α → α
  mul : α → α → α
  div : α → α → α
  exp : α → α
  log : α → α
  ofNat : Nat → α
  max : α → α → α

namespace Coverage
open ExpLog

variable {α : Type} [ExpLog α]

local infixl:65 " +ᵉ " => ExpLog.add
local infixl:65 " -ᵉ " => ExpLog.sub
local infixl:70 " *ᵉ " => ExpLog.mul
local infixl:70 " /ᵉ " => ExpLog.div

/-- `ln_dpois(x, lambda) = x ln(lambda) - lgamma(x+1) - lambda`; `lg i` stands for `lgamma(i+1)` -/
def lnDpois (lg : Nat → α) (i : Nat) (lam : α) : α :=
  (ofNat i *ᵉ log lam) -ᵉ lg i -ᵉ lam

/-- error component: `ln(w0) + ln_dpois(i, 1)` -/
def aTerm (lg : Nat → α) (w0 : α) (i : Nat) : α := log w0 +ᵉ lnDpois lg i (ofNat 1)

/-- coverage component: `ln(1 - w0) + ln_dpois(i, c)` -/
def bTerm (lg : Nat → α) (w0 c : α) (i : Nat) : α := log (ofNat 1 -ᵉ w0) +ᵉ lnDpois lg i c

/-- log-sum-exp of two terms -/
def lse (a b : α) : α :=
  let x := ExpLog.max a b
  x +ᵉ log (exp (a -ᵉ x) +ᵉ exp (b -ᵉ x))

/-- `log_likelihood` inside its soft bounds: Σ_i counts[i] * lse(a(i+1), b(i+1)) -/
def logLik (lg : Nat → α) (w0 c : α) (counts : List α) : α :=
  (counts.zipIdx.foldl (fun ll ci =>
    ll +ᵉ (ci.1 *ᵉ lse (aTerm lg w0 (ci.2 + 1)) (bTerm lg w0 c (ci.2 + 1)))) (ofNat 0))

/-- `grad_ll`: (∂/∂w0, ∂/∂c) -/
def gradLL (lg : Nat → α) (w0 c : α) (counts : List α) : α × α :=
  counts.zipIdx.foldl (fun (g : α × α) ci =>
    let i := ci.2 + 1
    let av := aTerm lg w0 i
    let bv := bTerm lg w0 c i
    let dlda := ofNat 1 /ᵉ (ofNat 1 +ᵉ exp (bv -ᵉ av))
    let dldb := ofNat 1 /ᵉ (ofNat 1 +ᵉ exp (av -ᵉ bv))
    (g.1 +ᵉ (ci.1 *ᵉ ((dlda /ᵉ w0) -ᵉ (dldb /ᵉ (ofNat 1 -ᵉ w0)))),
     g.2 +ᵉ (ci.1 *ᵉ (dldb *ᵉ ((ofNat i /ᵉ c) -ᵉ ofNat 1))))) (ofNat 0, ofNat 0)

/-- the quantity whose sign `find_cutoff` tests -/
def root (lg : Nat → α) (w0 c : α) (i : Nat) : α := aTerm lg w0 i -ᵉ bTerm lg w0 c i

end Coverage

instance : ExpLog Float where
  add := (· + ·)
  sub := (· - ·)
  mul := (· * ·)
  div := (· / ·)
  exp := Float.exp
  log := Float.log
  ofNat := Nat.toFloat
  max := fun a b => if a ≥ b then a else b

namespace Coverage

/-- `lgamma(i+1) = ln(i!)` as a running sum of logarithms -/
def lgFloat (i : Nat) : Float := (List.range i).foldl (fun s j => s + Float.log (Nat.toFloat (j + 1))) 0.0

end Coverage
end SkaModel
