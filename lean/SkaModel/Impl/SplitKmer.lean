/-
Model of `split_kmer.rs`: the rolling split k-mer state machine.
`&mut self` methods return the new state; the `while` loop of `build` is a
well-founded recursion on (remaining input, remaining bases of the window).
-/
import SkaModel.Impl.Bits
import SkaModel.Impl.NtHash

namespace SkaModel

inductive QualFilter where
  | noFilter | middle | strict
  deriving Repr, BEq, DecidableEq

/-- the immutable part of a `SplitKmer` -/
structure SKConf where
  W : Nat
  k : Nat
  rc : Bool
  seq : Array UInt8
  qual : Option (Array UInt8) := none
  minQual : Nat := 0
  qf : QualFilter := .noFilter
  isReads : Bool := false

/-- the mutable part of a `SplitKmer` -/
structure SKState where
  index : Nat
  upper : Nat
  lower : Nat
  mid : Nat
  rcUpper : Nat := 0
  rcLower : Nat := 0
  rcMid : Nat := 0
  hash : Option NtHash := none
  deriving Repr, BEq, DecidableEq

namespace SKConf

def seqLen (c : SKConf) : Nat := c.seq.size

/-- `valid_qual(idx, qual, min_qual)`: `(qual[idx] - 33) >= min_qual`, true without qualities -/
def validQual (c : SKConf) (idx : Nat) : Bool :=
  match c.qual with
  | some q => decide ((q.getD idx 33).toNat - 33 ≥ c.minQual)
  | none => true

/-- the test both `build` and `roll_fwd` apply to a position -/
def okAt (c : SKConf) (p : Nat) : Bool :=
  validBase (c.seq.getD p 0) && (c.qf != .strict || c.validQual p)

/-- index of the middle base inside a window: `k.div_ceil(2) - 1` -/
def midIdx (c : SKConf) : Nat := (c.k + 1) / 2 - 1

/-- The `while i < k` loop of `build`, entered after the first end-of-record
test. Returns `(idx, upper, lower, middle)` with `idx` the start of the window
that was completed, or `none` at the end of the record. -/
def buildLoop (c : SKConf) (idx i upper lower mid : Nat) : Option (Nat × Nat × Nat × Nat) :=
  if i < c.k then
    if c.okAt (idx + i) then
      let nb := code (c.seq.getD (idx + i) 0)
      if i > c.midIdx then
        buildLoop c idx (i + 1) upper (shl c.W lower 2 ||| nb) mid
      else if i < c.midIdx then
        buildLoop c idx (i + 1) (shl c.W upper 2 ||| shl c.W nb (c.midIdx * 2)) lower mid
      else
        buildLoop c idx (i + 1) upper lower nb
    else
      -- start again, skipping over the invalid base
      if idx + i + 1 + c.k > c.seqLen then none
      else buildLoop c (idx + i + 1) 0 0 0 0
  else
    some (idx, upper, lower, mid)
termination_by (c.seqLen - idx, c.k - i)
decreasing_by
  all_goals simp_wf
  · exact Prod.Lex.right _ (by omega)
  · exact Prod.Lex.right _ (by omega)
  · exact Prod.Lex.right _ (by omega)
  · exact Prod.Lex.left _ _ (by omega)

/-- window bases handed to `NtHashIterator::new` -/
def windowAt (c : SKConf) (start : Nat) : List UInt8 :=
  (List.range c.k).map (fun t => c.seq.getD (start + t) 0)

/-- `build(seq, seq_len, qual, k, &mut idx, ..)`: the new `idx` (position of the
last base of the window), the three fields and the fresh hash generator -/
def build (c : SKConf) (idx : Nat) (isReads : Bool) :
    Option (Nat × Nat × Nat × Nat × Option NtHash) :=
  if idx + c.k > c.seqLen then none
  else
    match c.buildLoop idx 0 0 0 0 with
    | none => none
    | some (start, upper, lower, mid) =>
      let hg := if isReads then some (NtHash.new (c.windowAt start) c.k c.rc) else none
      some (start + c.k - 1, upper, lower, mid, hg)

/-- `update_rc` -/
def updateRc (c : SKConf) (s : SKState) : SKState :=
  { s with
    rcUpper := revComp c.W s.lower (c.k - 1) &&& upperMask c.W c.k
    rcMid := rcBase s.mid
    rcLower := revComp c.W s.upper (c.k - 1) &&& lowerMask c.W c.k }

/-- `SplitKmer::new` -/
def new (c : SKConf) : Option SKState :=
  match c.build 0 c.isReads with
  | none => none
  | some (index, upper, lower, mid, hg) =>
    let s : SKState := { index := index, upper := upper, lower := lower, mid := mid, hash := hg }
    some (if c.rc then c.updateRc s else s)

/-- `roll_fwd`: `none` stands for `false` (the state is not used again) -/
def rollFwd (c : SKConf) (s : SKState) : Option SKState :=
  let index := s.index + 1
  if index ≥ c.seqLen then none
  else if !c.okAt index then
    match c.build index s.hash.isSome with
    | none => none
    | some (index', upper, lower, mid, hg) =>
      let s' : SKState := { s with index := index', upper := upper, lower := lower, mid := mid, hash := hg }
      some (if c.rc then c.updateRc s' else s')
  else
    let h := halfK c.k
    let nb := code (c.seq.getD index 0)
    let hash' := s.hash.map (fun hg =>
      hg.roll ((s.upper >>> ((c.k - 2) * 2)) % 256) nb)
    let upper' := (shl c.W s.upper 2 ||| shl c.W s.mid (h * 2)) &&& upperMask c.W c.k
    let mid' := (s.lower >>> (2 * (h - 1))) % 256
    let lower' := (shl c.W s.lower 2 ||| nb) &&& lowerMask c.W c.k
    if c.rc then
      some { index := index, upper := upper', lower := lower', mid := mid', hash := hash'
             rcLower := ((s.rcLower >>> 2) ||| shl c.W s.rcMid (2 * (h - 1))) &&& lowerMask c.W c.k
             rcMid := rcBase mid'
             rcUpper := ((s.rcUpper >>> 2) ||| shl c.W (rcBase nb) (2 * (h * 2 - 1))) &&& upperMask c.W c.k }
    else
      some { s with index := index, upper := upper', lower := lower', mid := mid', hash := hash' }

/-- `get_curr_kmer`: (split k-mer, middle base, reverse-complement flag) -/
def currKmer (c : SKConf) (s : SKState) : Nat × Nat × Bool :=
  let sk := s.upper ||| s.lower
  if c.rc then
    let rsk := s.rcUpper ||| s.rcLower
    if sk > rsk then (rsk, s.rcMid, true) else (sk, s.mid, false)
  else (sk, s.mid, false)

/-- `self_palindrome` -/
def selfPalindrome (c : SKConf) (s : SKState) : Bool :=
  c.rc && s.upper == s.rcUpper && s.lower == s.rcLower

/-- `get_middle_pos` -/
def middlePos (c : SKConf) (s : SKState) : Nat := s.index - c.midIdx

/-- `middle_base_qual` -/
def middleBaseQual (c : SKConf) (s : SKState) : Bool :=
  match c.qual with
  | some _ =>
    match c.qf with
    | .middle | .strict => c.validQual (c.middlePos s)
    | .noFilter => true
  | none => true

/-- `get_hash` (only meaningful with `is_reads`) -/
def getHash (_c : SKConf) (s : SKState) : Nat :=
  match s.hash with
  | some hg => hg.curr
  | none => 0

/-- every state the public iterator goes through: `new`, then `get_next_kmer`
until it returns `None`. The fuel is the record length: each step advances `index`. -/
def statesFrom (c : SKConf) : Nat → SKState → List SKState
  | 0, s => [s]
  | fuel + 1, s =>
    match c.rollFwd s with
    | none => [s]
    | some s' => s :: statesFrom c fuel s'

def states (c : SKConf) : List SKState :=
  match c.new with
  | none => []
  | some s => statesFrom c c.seqLen s

end SKConf
end SkaModel
