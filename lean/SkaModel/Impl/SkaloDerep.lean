/-
Model of `dereplicate_indels` (`src/skalo/process_indels.rs`): the indel groups
(keyed by entry and exit k-mer) are sorted by total path length, ties broken by
the entry k-mer, and kept greedily: a group is kept unless its entry k-mer was
already recorded as an extremity (entry, exit or their reverse complements) of a
kept group.  The Rust iterates a hash map before the stable sort, so the order of
two groups with equal (length, entry) is not defined; the model takes the list
order there and the correspondence check only feeds tie-free inputs.
-/
import SkaModel.Impl.Bits

namespace SkaModel
namespace Skalo

structure IndelGroup where
  entry : Nat
  exit : Nat
  len : Nat
  deriving Repr, DecidableEq

/-- `a.1.cmp(&b.1).then_with(|| a.0.0.cmp(&b.0.0))` as "not greater" -/
def derepLe (a b : IndelGroup) : Bool :=
  a.len < b.len || (a.len == b.len && a.entry ≤ b.entry)

/-- the four k-mers recorded for a kept group -/
def extremities (W k : Nat) (g : IndelGroup) : List Nat :=
  [g.entry, revComp W g.entry k, g.exit, revComp W g.exit k]

def derepStep (W k : Nat) (st : List IndelGroup × List Nat) (g : IndelGroup) :
    List IndelGroup × List Nat :=
  if st.2.contains g.entry then st else (st.1 ++ [g], st.2 ++ extremities W k g)

def dereplicate (W k : Nat) (gs : List IndelGroup) : List IndelGroup × List Nat :=
  (gs.mergeSort derepLe).foldl (derepStep W k) ([], [])

end Skalo
end SkaModel
