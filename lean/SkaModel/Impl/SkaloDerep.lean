/-
Model of `dereplicate_indels` (`src/skalo/process_indels.rs`): the indel groups
(keyed by entry and exit k-mer) are sorted by total path length, ties broken by
the entry and then the exit k-mer, and kept greedily: a group is kept unless its
entry k-mer was already recorded as an extremity (entry, exit or their reverse
complements) of a kept group.  The sort key is total on the keys of a map, so the
hash-map order in which the groups arrive does not matter (`T18_derep_order`).
-/
import SkaModel.Impl.Bits

namespace SkaModel
namespace Skalo

structure IndelGroup where
  entry : Nat
  exit : Nat
  len : Nat
  deriving Repr, DecidableEq

/-- `a.1.cmp(&b.1).then_with(|| a.0.0.cmp(&b.0.0)).then_with(|| a.0.1.cmp(&b.0.1))` as "not greater" -/
def derepLe (a b : IndelGroup) : Bool :=
  a.len < b.len || (a.len == b.len && (a.entry < b.entry || (a.entry == b.entry && a.exit ≤ b.exit)))

/-- the four k-mers recorded for a kept group -/
def extremities (W k : Nat) (g : IndelGroup) : List Nat :=
  [g.entry, revComp W g.entry k, g.exit, revComp W g.exit k]

def derepStep (W k : Nat) (st : List IndelGroup × List Nat) (g : IndelGroup) :
    List IndelGroup × List Nat :=
  if st.2.contains g.entry then st else (st.1 ++ [g], st.2 ++ extremities W k g)

def dereplicate (W k : Nat) (gs : List IndelGroup) : List IndelGroup × List Nat :=
  (gs.mergeSort derepLe).foldl (derepStep W k) ([], [])

end Skalo
end SkaModel
