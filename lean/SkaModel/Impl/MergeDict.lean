/-
Model of `merge_ska_dict.rs`: `MergeSkaDict::{new, append, merge, extend}`,
`multi_append`, `parallel_append`, `build_and_merge`.
Hash maps are association lists; iteration order is whatever order the list has.
-/
import SkaModel.Impl.SkaDict

namespace SkaModel

/-- a built single-sample dictionary (`SkaDict`) -/
structure SampleDict where
  k : Nat
  rc : Bool
  idx : Nat
  name : String
  kmers : Assoc Nat UInt8
  deriving Repr

structure MDict where
  k : Nat
  rc : Bool
  nSamples : Nat
  names : List String
  kmers : Assoc Nat (List UInt8)
  deriving Repr

inductive Refusal where
  | kmerLen | strand
  deriving Repr, BEq, DecidableEq

namespace MDict

/-- `MergeSkaDict::new(k, n_samples, rc)` -/
def new (k n : Nat) (rc : Bool) : MDict :=
  { k := k, rc := rc, nSamples := n, names := List.replicate n "", kmers := [] }

def ksize (d : MDict) : Nat := d.kmers.length

/-- `append`: `names[idx] = name`; every k-mer sets column `idx` of its row,
creating an all-zero row first when the k-mer is new -/
def append (d : MDict) (o : SampleDict) : Except Refusal MDict :=
  if o.k != d.k then .error .kmerLen
  else if o.rc != d.rc then .error .strand
  else
    let names := d.names.set o.idx o.name
    let kmers := o.kmers.foldl (fun acc kb =>
      acc.upsert kb.1 ((List.replicate d.nSamples (0 : UInt8)).set o.idx kb.2)
        (fun row => row.set o.idx kb.2)) d.kmers
    .ok { d with names := names, kmers := kmers }

/-- `merge`: combine with a dictionary over the same sample slots (`|=` per cell) -/
def merge (d o : MDict) : Except Refusal MDict :=
  if o.k != d.k then .error .kmerLen
  else if o.rc != d.rc then .error .strand
  else if o.ksize > 0 then
    if d.ksize == 0 then
      .ok { d with names := o.names, kmers := o.kmers }
    else
      let names := (d.names.zip o.names).map (fun so => if so.1.isEmpty then so.2 else so.1)
      -- `zip` stops at the shorter list; the remaining names of `self` are untouched
      let names := names ++ d.names.drop names.length
      let kmers := o.kmers.foldl (fun acc kv =>
        acc.upsert kv.1 kv.2 (fun row =>
          let z := (row.zip kv.2).map (fun ab => ab.1 ||| ab.2)
          z ++ row.drop z.length)) d.kmers
      .ok { d with names := names, kmers := kmers }
  else .ok d

/-- `extend`: add the samples of `o` as new columns -/
def extend (d o : MDict) : Except Refusal MDict :=
  if o.k != d.k then .error .kmerLen
  else if o.rc != d.rc then .error .strand
  else
    let total := d.nSamples + o.nSamples
    let kmers := o.kmers.foldl (fun acc kv =>
      acc.upsert kv.1 (List.replicate d.nSamples (0 : UInt8) ++ kv.2) (fun row => row ++ kv.2)) d.kmers
    let kmers := kmers.map (fun kv =>
      if kv.2.length != total then (kv.1, kv.2 ++ List.replicate o.nSamples (0 : UInt8)) else kv)
    .ok { d with names := d.names ++ o.names, nSamples := total, kmers := kmers }

end MDict

/-- `multi_append`: serial append of already built samples `offset, offset+1, …` -/
def multiAppend (k : Nat) (rc : Bool) (total : Nat) (samples : List SampleDict) : Except Refusal MDict :=
  samples.foldlM (fun d s => d.append s) (MDict.new k total rc)

/-- `parallel_append`: `rayon::join` returns both halves; then `bottom.merge(top)` -/
def parallelAppend (k : Nat) (rc : Bool) (total : Nat) : Nat → List SampleDict → Except Refusal MDict
  | 0, samples => multiAppend k rc total samples     -- not reached by the Rust (depth ≥ 1)
  | depth + 1, samples =>
    let split := samples.length / 2
    let bottom := samples.take split
    let top := samples.drop split
    if depth = 0 then do
      let b ← multiAppend k rc total bottom
      let t ← multiAppend k rc total top
      b.merge t
    else do
      let b ← parallelAppend k rc total depth bottom
      let t ← parallelAppend k rc total depth top
      b.merge t

/-- `floor(log2(n))` for `n ≥ 1` -/
def log2Floor (n : Nat) : Nat := Nat.log2 n

/-- `build_and_merge` given the per-sample dictionaries (sample `i` has `idx = i`) -/
def buildAndMerge (k : Nat) (rc : Bool) (threads : Nat) (samples : List SampleDict) : Except Refusal MDict :=
  let total := samples.length
  let maxThreads := max 1 (min threads (1 + total / 10))
  let depth := log2Floor maxThreads
  if depth > 0 then parallelAppend k rc total depth samples
  else multiAppend k rc total samples

end SkaModel
