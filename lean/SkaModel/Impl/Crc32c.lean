/-
CRC-32C (Castagnoli, reflected polynomial 0x82F63B78) and the Snappy frame
format's masking, as `snap::crc32` computes them.
-/
namespace SkaModel

/-- one reflected LFSR step on a 32-bit state -/
def crcBit (c : Nat) : Nat := if c % 2 = 1 then (c / 2) ^^^ 0x82F63B78 else c / 2

def crcByte (c : Nat) (b : UInt8) : Nat :=
  let c := c ^^^ b.toNat
  crcBit (crcBit (crcBit (crcBit (crcBit (crcBit (crcBit (crcBit c)))))))

/-- CRC-32C of a byte string -/
def crc32c (bs : List UInt8) : Nat := (bs.foldl crcByte 0xFFFFFFFF) ^^^ 0xFFFFFFFF

/-- `crc32c_masked`: rotate right by 15, add 0xA282EAD8 (mod 2^32) -/
def crc32cMasked (bs : List UInt8) : Nat :=
  let s := crc32c bs
  (((s >>> 15) ||| ((s <<< 17) % 2 ^ 32)) + 0xA282EAD8) % 2 ^ 32

end SkaModel
