/-
`build_and_merge` with the index bookkeeping of the Rust code: the sample index
handed to `SkaDict::new` is `idx + offset`, with the offsets computed by
`parallel_append` (`offset` for the bottom half, `offset + split_point` for the
top half). `Impl/MergeDict.lean` has the same tree over samples that already
carry their index; `Props/C11Offsets.lean` proves the two equal.
-/
import SkaModel.Impl.MergeDict

namespace SkaModel

/-- what `SkaDict::new` produces for one input, before it is given a slot -/
structure RawSample where
  name : String
  kmers : Assoc Nat UInt8
  deriving Repr

def RawSample.at (k : Nat) (rc : Bool) (idx : Nat) (r : RawSample) : SampleDict :=
  { k := k, rc := rc, idx := idx, name := r.name, kmers := r.kmers }

/-- `multi_append(input_files, offset, total_size, ..)` -/
def multiAppendOff (k : Nat) (rc : Bool) (total offset : Nat) (files : List RawSample) : Except Refusal MDict :=
  multiAppend k rc total (files.zipIdx.map (fun ri => ri.1.at k rc (ri.2 + offset)))

/-- `parallel_append(depth, offset, file_list, total_size, ..)` -/
def parallelAppendOff (k : Nat) (rc : Bool) (total : Nat) : Nat → Nat → List RawSample → Except Refusal MDict
  | 0, offset, files => multiAppendOff k rc total offset files     -- not reached by the Rust (depth ≥ 1)
  | depth + 1, offset, files =>
    let split := files.length / 2
    let bottom := files.take split
    let top := files.drop split
    if depth = 0 then do
      let b ← multiAppendOff k rc total offset bottom
      let t ← multiAppendOff k rc total (offset + split) top
      b.merge t
    else do
      let b ← parallelAppendOff k rc total depth offset bottom
      let t ← parallelAppendOff k rc total depth (offset + split) top
      b.merge t

/-- `build_and_merge(input_files, k, rc, qual, threads, ..)` -/
def buildAndMergeOff (k : Nat) (rc : Bool) (threads : Nat) (files : List RawSample) : Except Refusal MDict :=
  let total := files.length
  let maxThreads := max 1 (min threads (1 + total / 10))
  let depth := log2Floor maxThreads
  if depth > 0 then parallelAppendOff k rc total depth 0 files
  else multiAppendOff k rc total 0 files

end SkaModel
