/-
Specification of read filtering (C12): a split k-mer / middle-base combination
is included exactly when its full k-mer, counted together with its reverse
complement over both files, occurs at least `minCount` times among the windows
that pass the quality rule.
-/
import SkaModel.Spec.Windows
import SkaModel.Spec.Dict

namespace SkaModel.Spec

open SkaModel

inductive QualRule where
  | none | middle | strict
  deriving Repr, BEq, DecidableEq

/-- phred quality at position `p` -/
def qualAt (qual : Array UInt8) (p : Nat) : Nat := (qual.getD p 33).toNat - 33

/-- windows of a read that pass the quality rule -/
def passWindows (k : Nat) (rule : QualRule) (minQual : Nat) (seq qual : Array UInt8) : List Nat :=
  let okPos := fun p => validBase (seq.getD p 0) && (rule != .strict || decide (qualAt qual p ≥ minQual))
  (windowsBy k seq.size okPos).filter (fun j =>
    rule == .none || decide (qualAt qual (j + (k - 1) / 2) ≥ minQual))

/-- identity of a full k-mer up to strand: (canonical key, strand-corrected middle base),
with the two middle bases of a self-reverse-complement arm pair identified -/
def kmerClass (k : Nat) (rc : Bool) (seq : Array UInt8) (j : Nat) : Nat × Nat :=
  let o := obs k rc seq j
  if isPalin k rc seq j then (o.1, min o.2.1 (o.2.1 ^^^ 2)) else (o.1, o.2.1)

/-- all passing observations of both files: (class, key, mask of middle bases contributed) -/
def readObservations (k : Nat) (rc : Bool) (rule : QualRule) (minQual : Nat)
    (reads : List (Array UInt8 × Array UInt8)) : List ((Nat × Nat) × Nat × Nat) :=
  reads.flatMap (fun r =>
    (passWindows k rule minQual r.1 r.2).map (fun j => (kmerClass k rc r.1 j, (obs k rc r.1 j).1, obsMask k rc r.1 j)))

/-- the dictionary: classes seen at least `minCount` times contribute their bases -/
def specReadsDict (k : Nat) (rc : Bool) (rule : QualRule) (minQual minCount : Nat)
    (reads : List (Array UInt8 × Array UInt8)) : List (Nat × UInt8) :=
  let o := readObservations k rc rule minQual reads
  let kept := o.filter (fun x => decide ((o.filter (fun y => y.1 == x.1)).length ≥ max 1 minCount))
  let km := kept.map (fun x => x.2)
  sortByKey (·.1) ((distinctKeys km).map (fun key => (key, letterOfMask (maskOf km key))))

end SkaModel.Spec
