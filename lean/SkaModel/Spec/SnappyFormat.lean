/-
The Snappy block format as a grammar of elements with a denotation, independent
of the decoder model `Impl/Snappy.lean`.  `Props/C09Snappy.lean` proves that the
decoder model refines this denotation for every well-formed element stream, so
the lossless claim of C09 reaches through the compression layer for *any*
compressor whose output is a well-formed element stream denoting its input (the
check validates that contract on the blocks the real `snap` encoder writes).
No Mathlib import: the driver links this file.
-/
import SkaModel.Impl.Snappy
namespace SkaModel.SnappyFormat
open SkaModel

/-- one element: a literal (`nb = 0`: length in the tag, 1..60 bytes; `nb = 1..4`:
length − 1 in `nb` little-endian bytes after the tag) or a copy with a 1-, 2- or
4-byte offset -/
inductive SElem where
  | lit (nb : Nat) (bs : List UInt8)
  | copy1 (len off : Nat)
  | copy2 (len off : Nat)
  | copy4 (len off : Nat)
  deriving Repr, DecidableEq

/-- `n` little-endian bytes of `v` -/
def leBytes : Nat → Nat → List UInt8
  | 0, _ => []
  | n + 1, v => UInt8.ofNat (v % 256) :: leBytes n (v / 256)

/-- the bytes of one element -/
def SElem.ser : SElem → List UInt8
  | .lit 0 bs => UInt8.ofNat ((bs.length - 1) * 4) :: bs
  | .lit (nb + 1) bs => UInt8.ofNat ((60 + nb) * 4) :: (leBytes (nb + 1) (bs.length - 1) ++ bs)
  | .copy1 len off => [UInt8.ofNat (1 + (len - 4) * 4 + (off / 256) * 32), UInt8.ofNat (off % 256)]
  | .copy2 len off => UInt8.ofNat (2 + (len - 1) * 4) :: leBytes 2 off
  | .copy4 len off => UInt8.ofNat (3 + (len - 1) * 4) :: leBytes 4 off

/-- number of output bytes an element produces -/
def SElem.outLen : SElem → Nat
  | .lit _ bs => bs.length
  | .copy1 len _ => len
  | .copy2 len _ => len
  | .copy4 len _ => len

/-- a copy of `len` bytes from `off` back repeats the last `off` bytes as a pattern -/
def copyPattern (out : List UInt8) (off len : Nat) : List UInt8 :=
  (List.range len).map (fun i => out.getD (out.length - off + i % off) 0)

/-- what an element appends to the output produced so far -/
def SElem.denote (out : List UInt8) : SElem → List UInt8
  | .lit _ bs => out ++ bs
  | .copy1 len off => out ++ copyPattern out off len
  | .copy2 len off => out ++ copyPattern out off len
  | .copy4 len off => out ++ copyPattern out off len

def denote (out : List UInt8) (es : List SElem) : List UInt8 := es.foldl SElem.denote out

/-- well-formedness of one element when `out` bytes exist and `dlen` are announced -/
def SElem.WF (out dlen : Nat) : SElem → Prop
  | .lit nb bs => 1 ≤ bs.length ∧ out + bs.length ≤ dlen ∧
      ((nb = 0 ∧ bs.length ≤ 60) ∨ (1 ≤ nb ∧ nb ≤ 4 ∧ bs.length - 1 < 256 ^ nb))
  | .copy1 len off => 4 ≤ len ∧ len ≤ 11 ∧ 1 ≤ off ∧ off < 2048 ∧ off ≤ out ∧ out + len ≤ dlen
  | .copy2 len off => 1 ≤ len ∧ len ≤ 64 ∧ 1 ≤ off ∧ off < 65536 ∧ off ≤ out ∧ out + len ≤ dlen
  | .copy4 len off => 1 ≤ len ∧ len ≤ 64 ∧ 1 ≤ off ∧ off < 2 ^ 32 ∧ off ≤ out ∧ out + len ≤ dlen

instance (out dlen : Nat) (e : SElem) : Decidable (e.WF out dlen) := by
  cases e <;> unfold SElem.WF <;> infer_instance

/-- well-formedness of a stream: each element against the output length before it -/
def WFs (dlen : Nat) : Nat → List SElem → Prop
  | _, [] => True
  | out, e :: es => e.WF out dlen ∧ WFs dlen (out + e.outLen) es

instance (dlen : Nat) : (out : Nat) → (es : List SElem) → Decidable (WFs dlen out es)
  | _, [] => isTrue trivial
  | out, e :: es =>
    have := instDecidableWFs dlen (out + e.outLen) es
    by unfold WFs; infer_instance

/-- the length preamble (`write_varu64`) -/
def varint (n : Nat) : List UInt8 :=
  if n < 128 then [UInt8.ofNat n] else UInt8.ofNat (n % 128 + 128) :: varint (n / 128)
decreasing_by omega

/-- a whole block: preamble + elements -/
def block (n : Nat) (es : List SElem) : List UInt8 := varint n ++ es.flatMap SElem.ser

/-- parser of the element grammar (fuel = number of bytes): `none` when the bytes
are not an element stream (truncated element) -/
def parseElems : Nat → List UInt8 → Option (List SElem)
  | 0, src => if src.isEmpty then some [] else none
  | fuel + 1, src =>
    match src with
    | [] => some []
    | tag :: rest =>
      let t := tag.toNat
      if t % 4 == 0 then
        let l0 := t / 4 + 1
        if l0 ≥ 61 then
          let nb := l0 - 60
          if rest.length < nb then none
          else
            let len := leNat (rest.take nb) + 1
            let rest := rest.drop nb
            if rest.length < len then none
            else (parseElems fuel (rest.drop len)).map (fun es => SElem.lit nb (rest.take len) :: es)
        else
          if rest.length < l0 then none
          else (parseElems fuel (rest.drop l0)).map (fun es => SElem.lit 0 (rest.take l0) :: es)
      else if t % 4 == 1 then
        if rest.length < 1 then none
        else (parseElems fuel (rest.drop 1)).map
          (fun es => SElem.copy1 (4 + (t / 4) % 8) ((t / 32) * 256 + leNat (rest.take 1)) :: es)
      else if t % 4 == 2 then
        if rest.length < 2 then none
        else (parseElems fuel (rest.drop 2)).map (fun es => SElem.copy2 (1 + t / 4) (leNat (rest.take 2)) :: es)
      else
        if rest.length < 4 then none
        else (parseElems fuel (rest.drop 4)).map (fun es => SElem.copy4 (1 + t / 4) (leNat (rest.take 4)) :: es)

end SkaModel.SnappyFormat
