/-
The plain sample-by-k-mer table that users reason with, and the documented
effect of each operation on it. Rows are unordered (compared up to permutation).
-/
import SkaModel.Impl.Base
import SkaModel.Impl.Assoc

namespace SkaModel.Spec

open SkaModel

def gap : UInt8 := 45

structure Table where
  names : List String
  rows : List (Nat × List UInt8)
  deriving Repr, BEq, DecidableEq

namespace Table

/-- row-permutation equivalence -/
def Equiv (a b : Table) : Prop := a.names = b.names ∧ a.rows.Perm b.rows

def width (t : Table) : Nat := t.names.length

def lookupRow (t : Table) (key : Nat) : Option (List UInt8) := Assoc.lookup t.rows key

def keys (t : Table) : List Nat := t.rows.map (·.1)

/-- a row is present in a sample when its cell is not the gap -/
def present (b : UInt8) : Bool := b != gap

/-- column concatenation: the samples of `a` then those of `b`; absent = gap -/
def concat (a b : Table) : Table :=
  let ks := a.keys ++ (b.keys.filter (fun k => !a.keys.contains k))
  { names := a.names ++ b.names
    rows := ks.map (fun k =>
      (k, (a.lookupRow k).getD (List.replicate a.width gap) ++ (b.lookupRow k).getD (List.replicate b.width gap))) }

/-- keep the columns at the given indices, then drop rows that became all-gap -/
def selectCols (t : Table) (idx : List Nat) : Table :=
  { names := idx.map (fun i => t.names.getD i "")
    rows := (t.rows.map (fun r => (r.1, idx.map (fun i => r.2.getD i gap)))).filter
      (fun r => r.2.any present) }

/-- indices of the samples that remain after deleting `del` (first occurrence of each name) -/
def keepIdx (names del : List String) : List Nat :=
  ((names.zipIdx).foldl (fun (acc : List Nat × List String) ni =>
    if acc.2.contains ni.1 then (acc.1, acc.2.erase ni.1) else (acc.1 ++ [ni.2], acc.2)) ([], del.eraseDups)).1

def deleteSamples (t : Table) (del : List String) : Table := t.selectCols (keepIdx t.names del)

def filterRows (t : Table) (p : Nat × List UInt8 → Bool) : Table := { t with rows := t.rows.filter p }

/-- number of samples in which the k-mer is present (unambiguously, with `famb`) -/
def presentCount (famb : Bool) (row : List UInt8) : Nat :=
  (row.filter (fun b => present b && (!famb || !isAmbiguous b))).length

def distinctSyms (row : List UInt8) : List UInt8 := row.eraseDups

inductive SiteFilter where
  | noFilter | noConst | noAmbig | noAmbigOrConst
  deriving Repr, BEq, DecidableEq

def isACGTU (b : UInt8) : Bool :=
  let l := b ||| 0x20
  l == 97 || l == 99 || l == 103 || l == 116 || l == 117

/-- the site filter of `ska align` as documented -/
def sitePasses (ft : SiteFilter) (noGapOnly : Bool) (row : List UInt8) : Bool :=
  match ft with
  | .noFilter => true
  | .noConst => (distinctSyms (row.filter (fun b => !noGapOnly || present b))).length ≥ 2
  | .noAmbig => row.all (fun b => !isAmbiguous b)
  | .noAmbigOrConst =>
    ((distinctSyms row).filter (fun b => isACGTU b || (b == gap && !noGapOnly))).length ≥ 2

/-- C06: a stored k-mer is emitted when it is present in at least `max 1 t`
samples and passes the site filter -/
def passes (t : Nat) (famb : Bool) (ft : SiteFilter) (noGapOnly : Bool) (row : List UInt8) : Bool :=
  decide (presentCount famb row ≥ max 1 t) && sitePasses ft noGapOnly row

def maskRow (mask : Bool) (row : List UInt8) : List UInt8 :=
  if mask then row.map (fun b => if isAmbiguous b then 78 else b) else row

/-- the emitted columns, in table order -/
def alignColumns (tb : Table) (t : Nat) (famb : Bool) (ft : SiteFilter) (mask noGapOnly : Bool) : List (List UInt8) :=
  ((tb.rows.map (·.2)).filter (passes t famb ft noGapOnly)).map (maskRow mask)

/-- weeding: keep the rows whose key is (not) in the weed set -/
def weed (tb : Table) (weedKeys : List Nat) (reverse : Bool) : Table :=
  tb.filterRows (fun r => weedKeys.contains r.1 == reverse)

/-- C14 on unambiguous tables: (SNP distance, |exactly one|, |at least one|) for samples i, j
over the rows present in at least `t` samples -/
def pairDist (tb : Table) (t i j : Nat) : Nat × Nat × Nat :=
  let rows := (tb.rows.map (·.2)).filter (fun r => presentCount false r ≥ t)
  let cell (r : List UInt8) (x : Nat) := r.getD x gap
  let both := rows.filter (fun r => present (cell r i) && present (cell r j))
  let one := rows.filter (fun r => present (cell r i) != present (cell r j))
  ((both.filter (fun r => cell r i != cell r j)).length, one.length, both.length + one.length)

end Table
end SkaModel.Spec
