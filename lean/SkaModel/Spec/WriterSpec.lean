/-
Position-wise specification of what `AlnWriter` must produce for a list of
matches `(chrom, pos, base)` — the interface between the writer refinement
(`T04_writer`) and the mapping theorem (`T04_map`).
-/
import SkaModel.Impl.Base

namespace SkaModel.Spec

open SkaModel

/-- a match: (contig index, position of the middle base on the contig, the sample's base) -/
abbrev Match := Nat × Nat × UInt8

/-- offset of contig `c` in the concatenated output -/
def contigOffset (ref : List (Array UInt8)) (c : Nat) : Nat :=
  ((ref.take c).map (·.size)).foldl (· + ·) 0

/-- what the writer is handed by `pseudoalignment`: contigs in order, positions strictly
increasing within a contig, every match has its whole window inside its contig -/
def MatchesOK (ref : List (Array UInt8)) (h : Nat) : List Match → Prop
  | [] => True
  | [m] => m.1 < ref.length ∧ h ≤ m.2.1 ∧ m.2.1 + h < (ref.getD m.1 #[]).size
  | m :: m' :: rest =>
    (m.1 < ref.length ∧ h ≤ m.2.1 ∧ m.2.1 + h < (ref.getD m.1 #[]).size) ∧
    (m.1 < m'.1 ∨ (m.1 = m'.1 ∧ m.2.1 < m'.2.1)) ∧ MatchesOK ref h (m' :: rest)

/-- character at position `p` of contig `c` -/
def writerChar (ref : List (Array UInt8)) (h : Nat) (maskAmbig : Bool) (reps : List Nat)
    (ms : List Match) (c p : Nat) : UInt8 :=
  let base :=
    match ms.find? (fun m => m.1 == c && m.2.1 == p) with
    | some m => if isAmbiguous m.2.2 && maskAmbig then 78 else m.2.2
    | none =>
      if ms.any (fun m => m.1 == c && decide (p ≤ m.2.1 + h) && decide (m.2.1 ≤ p + h))
      then (ref.getD c #[]).getD p 0 else 45
  if base != 45 && reps.contains (contigOffset ref c + p) then 78 else base

/-- the whole output: all contigs concatenated -/
def writerSpec (ref : List (Array UInt8)) (h : Nat) (maskAmbig : Bool) (reps : List Nat)
    (ms : List Match) : List UInt8 :=
  ref.zipIdx.flatMap (fun ci => (List.range ci.1.size).map (writerChar ref h maskAmbig reps ms ci.2))

end SkaModel.Spec
