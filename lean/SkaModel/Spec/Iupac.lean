/-
Specification of the IUPAC ambiguity codes as the union algebra over subsets
of {A, C, G, T}. A subset is a 4-bit mask with bit `c` standing for the base
with 2-bit code `c` (A = 0, C = 1, T = 2, G = 3).
-/
namespace SkaModel.Spec

/-- the code letter (upper case) of a non-empty base set; 0 for the empty set -/
def letterOfMask (m : Nat) : UInt8 :=
  match m with
  | 1 => 65   -- A
  | 2 => 67   -- C
  | 4 => 84   -- T
  | 8 => 71   -- G
  | 3 => 77   -- M = A C
  | 5 => 87   -- W = A T
  | 9 => 82   -- R = A G
  | 6 => 89   -- Y = C T
  | 10 => 83  -- S = C G
  | 12 => 75  -- K = T G
  | 7 => 72   -- H = A C T
  | 11 => 86  -- V = A C G
  | 13 => 68  -- D = A T G
  | 14 => 66  -- B = C T G
  | 15 => 78  -- N
  | _ => 0

/-- base set of one of the 15 IUPAC letters, in either case; `none` for every other byte -/
def maskOfLetter (c : UInt8) : Option Nat :=
  let u := if 97 ≤ c && c ≤ 122 then c - 32 else c
  if u == 65 then some 1 else if u == 67 then some 2 else if u == 84 then some 4
  else if u == 71 then some 8 else if u == 77 then some 3 else if u == 87 then some 5
  else if u == 82 then some 9 else if u == 89 then some 6 else if u == 83 then some 10
  else if u == 75 then some 12 else if u == 72 then some 7 else if u == 86 then some 11
  else if u == 68 then some 13 else if u == 66 then some 14 else if u == 78 then some 15
  else none

/-- as `maskOfLetter`, with U/u read as T -/
def maskOfLetterU (c : UInt8) : Option Nat :=
  if c == 85 || c == 117 then some 4 else maskOfLetter c

/-- complement of a base set: swap A<->T (bits 0,2) and C<->G (bits 1,3) -/
def compMask (m : Nat) : Nat := ((m &&& 3) <<< 2) ||| ((m >>> 2) &&& 3)

/-- number of bases in a set -/
def maskCard (m : Nat) : Nat := (m &&& 1) + ((m >>> 1) &&& 1) + ((m >>> 2) &&& 1) + ((m >>> 3) &&& 1)

end SkaModel.Spec
