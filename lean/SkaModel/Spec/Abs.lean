/-
Abstraction from the modelled `MergeSkaArray` state to the plain table, and the
well-formedness predicates the theorems are stated under.
-/
import SkaModel.Impl.Modes
import SkaModel.Spec.Table

namespace SkaModel

open Spec

/-- the logical content of an array: names and (k-mer, cells) rows -/
def Arr.abs (a : Arr) : Table := { names := a.names, rows := a.kmers.zip a.variants }

/-- shape invariant of the serialised fields -/
structure Arr.WF (a : Arr) : Prop where
  lenV : a.variants.length = a.kmers.length
  lenC : a.counts.length = a.kmers.length
  rowLen : ∀ row ∈ a.variants, row.length = a.names.length
  nodup : a.kmers.Nodup

/-- every stored k-mer is present in at least one sample (true of every file
`ska build`/`merge`/`delete`/`weed` writes) -/
def Arr.RowsPresent (a : Arr) : Prop := ∀ row ∈ a.variants, ∃ b ∈ row, b ≠ GAP

/-- stored cells are never the zero byte (`MergeSkaArray::new` turns 0 into `-`) -/
def Arr.NoZero (a : Arr) : Prop := ∀ row ∈ a.variants, ∀ b ∈ row, b ≠ 0

def Table.WF (t : Table) : Prop :=
  (∀ r ∈ t.rows, r.2.length = t.names.length) ∧ (t.rows.map (·.1)).Nodup

def toSite : FilterType → Table.SiteFilter
  | .noFilter => .noFilter
  | .noConst => .noConst
  | .noAmbig => .noAmbig
  | .noAmbigOrConst => .noAmbigOrConst

/-- cells are bases or gap only (C14's "files without ambiguity codes") -/
def Unambiguous (rows : List (List UInt8)) : Prop :=
  ∀ row ∈ rows, ∀ b ∈ row, b = 65 ∨ b = 67 ∨ b = 71 ∨ b = 84 ∨ b = GAP

end SkaModel
