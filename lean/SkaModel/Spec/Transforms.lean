/-
Input transformations of property C02: letter case, reverse complement of a
record (record permutation is `List.Perm`).
-/
import SkaModel.Spec.Windows

namespace SkaModel.Spec

open SkaModel

/-- the input alphabet of the property: A C G T N in either case -/
def isDna (b : UInt8) : Bool :=
  b == 65 || b == 67 || b == 71 || b == 84 || b == 78 ||
  b == 97 || b == 99 || b == 103 || b == 116 || b == 110

/-- complement of a letter, case preserved; other bytes unchanged -/
def compByte (b : UInt8) : UInt8 :=
  if b == 65 then 84 else if b == 84 then 65 else if b == 67 then 71 else if b == 71 then 67
  else if b == 97 then 116 else if b == 116 then 97 else if b == 99 then 103
  else if b == 103 then 99 else b

/-- reverse complement of a record -/
def revCompSeq (r : Array UInt8) : Array UInt8 := (r.toList.reverse.map compByte).toArray

/-- flip the case of a letter -/
def flipCase (b : UInt8) : UInt8 := b ^^^ 0x20

/-- flip the case of the letters selected by a mask (one boolean per position; missing = false) -/
def applyCase (mask : List Bool) (r : Array UInt8) : Array UInt8 :=
  (r.toList.zipIdx.map (fun bi => if mask.getD bi.2 false then flipCase bi.1 else bi.1)).toArray

/-- the two lists have the same length and related entries (core has no `List.Forall₂`) -/
inductive Pointwise {α β : Type} (R : α → β → Prop) : List α → List β → Prop
  | nil : Pointwise R [] []
  | cons {a b l l'} : R a b → Pointwise R l l' → Pointwise R (a :: l) (b :: l')

end SkaModel.Spec
