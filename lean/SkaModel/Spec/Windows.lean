/-
Specification of what `ska build` extracts from one record: the windows of `k`
consecutive acceptable positions, their split k-mer (the two arms, packed base
by base), the canonical orientation, and the set of middle bases.
-/
import SkaModel.Impl.Base

namespace SkaModel.Spec

open SkaModel

/-- a window starts at `j` when it fits in the record and all `k` positions are acceptable -/
def validStart (k len : Nat) (ok : Nat → Bool) (j : Nat) : Bool :=
  decide (j + k ≤ len) && (List.range k).all (fun t => ok (j + t))

/-- all window starts, in order -/
def windowsBy (k len : Nat) (ok : Nat → Bool) : List Nat :=
  (List.range (len + 1 - k)).filter (validStart k len ok)

/-- for FASTA input a position is acceptable when the byte is not N/n -/
def windows (k : Nat) (seq : Array UInt8) : List Nat :=
  windowsBy k seq.size (fun p => validBase (seq.getD p 0))

/-- base-4 value of a list of 2-bit codes, most significant first -/
def packL (cs : List Nat) : Nat := cs.foldl (fun a c => 4 * a + c) 0

def codesAt (seq : Array UInt8) (start n : Nat) : List Nat :=
  (List.range n).map (fun t => code (seq.getD (start + t) 0))

/-- the `k - 1` bases of the two arms of the window starting at `j` -/
def armsAt (k : Nat) (seq : Array UInt8) (j : Nat) : List Nat :=
  let h := (k - 1) / 2
  codesAt seq j h ++ codesAt seq (j + h + 1) h

def midAt (k : Nat) (seq : Array UInt8) (j : Nat) : Nat :=
  code (seq.getD (j + (k - 1) / 2) 0)

/-- reverse complement of a list of 2-bit codes -/
def rcCodes (cs : List Nat) : List Nat := cs.reverse.map (· ^^^ 2)

/-- what the iterator reports for the window at `j`: (key, middle base, strand flag) -/
def obs (k : Nat) (rc : Bool) (seq : Array UInt8) (j : Nat) : Nat × Nat × Bool :=
  let arms := armsAt k seq j
  let f := packL arms
  let r := packL (rcCodes arms)
  if rc && f > r then (r, midAt k seq j ^^^ 2, true) else (f, midAt k seq j, false)

/-- the window is its own reverse complement (both strands in use) -/
def isPalin (k : Nat) (rc : Bool) (seq : Array UInt8) (j : Nat) : Bool :=
  let arms := armsAt k seq j
  rc && packL arms == packL (rcCodes arms)

/-- the set of middle bases (4-bit mask) one window contributes to its key -/
def obsMask (k : Nat) (rc : Bool) (seq : Array UInt8) (j : Nat) : Nat :=
  let b := (obs k rc seq j).2.1
  if isPalin k rc seq j then (1 <<< b) ||| (1 <<< (b ^^^ 2)) else 1 <<< b

/-- all (key, mask) observations of a record set, in input order -/
def observations (k : Nat) (rc : Bool) (recs : List (Array UInt8)) : List (Nat × Nat) :=
  recs.flatMap (fun seq => (windows k seq).map (fun j => ((obs k rc seq j).1, obsMask k rc seq j)))

/-- the set of middle bases seen for `key` (0 = key does not occur) -/
def maskOf (obs : List (Nat × Nat)) (key : Nat) : Nat :=
  (obs.filter (·.1 == key)).foldl (fun m o => m ||| o.2) 0

def maskFor (k : Nat) (rc : Bool) (recs : List (Array UInt8)) (key : Nat) : Nat :=
  maskOf (observations k rc recs) key

end SkaModel.Spec
