/-
Specification of a sample's split k-mer dictionary: one entry per key that
occurs, holding the IUPAC letter of the set of middle bases seen.
-/
import SkaModel.Spec.Windows
import SkaModel.Spec.Iupac
import SkaModel.Impl.Assoc

namespace SkaModel.Spec

open SkaModel

/-- distinct keys in first-seen order -/
def distinctKeys (obs : List (Nat × Nat)) : List Nat :=
  obs.foldl (fun acc o => if acc.contains o.1 then acc else acc ++ [o.1]) []

/-- the dictionary as a list sorted by key -/
def specDict (k : Nat) (rc : Bool) (recs : List (Array UInt8)) : List (Nat × UInt8) :=
  let o := observations k rc recs
  sortByKey (·.1) ((distinctKeys o).map (fun key => (key, letterOfMask (maskOf o key))))

end SkaModel.Spec
