/-
Position-wise specification of `ska map` (C04) and of the VCF it writes (C05).
-/
import SkaModel.Spec.Windows
import SkaModel.Impl.Base

namespace SkaModel.Spec

open SkaModel

def upperByte (b : UInt8) : UInt8 := if 97 ≤ b && b ≤ 122 then b - 32 else b

/-- is `p` the centre of a reference window on this contig -/
def isCentre (k : Nat) (contig : Array UInt8) (p : Nat) : Bool :=
  let h := (k - 1) / 2
  decide (h ≤ p) && validStart k contig.size (fun q => validBase (contig.getD q 0)) (p - h)

/-- the sample's strand-corrected middle base at a reference centre, if the
reference split k-mer centred there is present in the sample -/
def matchedBase (k : Nat) (rc : Bool) (dict : Nat → Option (List UInt8)) (contig : Array UInt8)
    (s p : Nat) : Option UInt8 :=
  if isCentre k contig p then
    let o := obs k rc contig (p - (k - 1) / 2)
    match dict o.1 with
    | some row =>
      let x := row.getD s 45
      if x == 45 then none else some (if o.2.2 then rcIupacAt x else x)
    | none => none
  else none

/-- canonical keys of all reference windows (all contigs) -/
def refKeys (k : Nat) (rc : Bool) (ref : List (Array UInt8)) : List Nat :=
  ref.flatMap (fun c => (windows k c).map (fun j => (obs k rc c j).1))

/-- `p` and `q` are at most `h` apart -/
def within (h p q : Nat) : Bool := decide (p ≤ q + h) && decide (q ≤ p + h)

/-- centres of the reference windows of a contig, in order -/
def centres (k : Nat) (contig : Array UInt8) : List Nat := (windows k contig).map (· + (k - 1) / 2)

/-- the matched centres of sample `s` on a contig with the sample's strand-corrected base there -/
def matchedCentres (k : Nat) (rc : Bool) (dict : Nat → Option (List UInt8)) (contig : Array UInt8) (s : Nat) :
    List (Nat × UInt8) :=
  (centres k contig).filterMap (fun p => (matchedBase k rc dict contig s p).map (fun x => (p, x)))

/-- centres of reference split k-mers that occur more than once in the whole reference -/
def repeatCentres (k : Nat) (rc : Bool) (keys : List Nat) (contig : Array UInt8) : List Nat :=
  (centres k contig).filter (fun p =>
    decide ((keys.filter (· == (obs k rc contig (p - (k - 1) / 2)).1)).length ≥ 2))

/-- character at position `p` given the matched centres and the repeat centres of the contig -/
def mapCharAt (h : Nat) (ambigMask repeatMask : Bool) (contig : Array UInt8)
    (matched : List (Nat × UInt8)) (reps : List Nat) (p : Nat) : UInt8 :=
  let base :=
    match matched.find? (·.1 == p) with
    | some m => if ambigMask && isAmbiguous m.2 then 78 else m.2
    | none => if matched.any (fun m => within h p m.1) then upperByte (contig.getD p 0) else 45
  if repeatMask && base != 45 && reps.any (within h p) then 78 else base

/-- character of sample `s` at position `p` of `contig` -/
def mapChar (k : Nat) (rc : Bool) (dict : Nat → Option (List UInt8)) (ref : List (Array UInt8))
    (ambigMask repeatMask : Bool) (contig : Array UInt8) (s p : Nat) : UInt8 :=
  mapCharAt ((k - 1) / 2) ambigMask repeatMask contig (matchedCentres k rc dict contig s)
    (repeatCentres k rc (refKeys k rc ref) contig) p

/-- the mapped sequence of sample `s`: all contigs concatenated -/
def mapSeq (k : Nat) (rc : Bool) (dict : Nat → Option (List UInt8)) (ref : List (Array UInt8))
    (ambigMask repeatMask : Bool) (s : Nat) : List UInt8 :=
  let keys := refKeys k rc ref
  ref.flatMap (fun contig =>
    let matched := matchedCentres k rc dict contig s
    let reps := if repeatMask then repeatCentres k rc keys contig else []
    (List.range contig.size).map (mapCharAt ((k - 1) / 2) ambigMask repeatMask contig matched reps))

/-- class of an alignment character in a VCF: '.' for gap, the base for A/C/G/T, N otherwise -/
def vcfClass (b : UInt8) : UInt8 :=
  if b == 45 then 46 else if b == 65 || b == 67 || b == 71 || b == 84 then b else 78

/-- C05: (contig index, 1-based position, REF, decoded genotype characters) for every
position where some sample's aligned character differs from the upper-case reference base -/
def vcfSpec (ref : List (Array UInt8)) (aln : List (List UInt8)) : List (Nat × Nat × UInt8 × List UInt8) :=
  let coords := ref.zipIdx.flatMap (fun ci => (List.range ci.1.size).map (fun p => (ci.2, p, upperByte (ci.1.getD p 0))))
  (coords.zipIdx).filterMap (fun ci =>
    let ((c, p, rb), i) := ci
    let col := aln.map (fun s => s.getD i 45)
    if col.any (· != rb) then
      some (c, p + 1, (if rb == 65 || rb == 67 || rb == 71 || rb == 84 then rb else 78), col.map vcfClass)
    else none)

end SkaModel.Spec
