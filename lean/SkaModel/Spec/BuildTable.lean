/-
The table a joint build of several samples denotes: one row per split k-mer
key that occurs in any sample, cell i = the IUPAC letter of the set of middle
bases sample i shows for it, '-' when the sample lacks the k-mer.
-/
import SkaModel.Spec.Dict
import SkaModel.Spec.Table

namespace SkaModel.Spec

open SkaModel

/-- cell of a sample for a key, from the sample's observation list -/
def cellOfObs (o : List (Nat × Nat)) (key : Nat) : UInt8 :=
  let m := maskOf o key
  if m == 0 then gap else letterOfMask m

/-- cell of a sample (a list of records) for a key -/
def cellFor (k : Nat) (rc : Bool) (recs : List (Array UInt8)) (key : Nat) : UInt8 :=
  cellOfObs (observations k rc recs) key

/-- keys of all samples in first-seen order -/
def allKeys (k : Nat) (rc : Bool) (samples : List (List (Array UInt8))) : List Nat :=
  (samples.flatMap (fun recs => (observations k rc recs).map (·.1))).eraseDups

/-- the table of a joint build (the observations of each sample are computed once) -/
def specTable (k : Nat) (rc : Bool) (names : List String) (samples : List (List (Array UInt8))) : Table :=
  let obsPer := samples.map (observations k rc)
  { names := names
    rows := ((obsPer.flatMap (fun o => o.map (·.1))).eraseDups).map (fun key => (key, obsPer.map (fun o => cellOfObs o key))) }

end SkaModel.Spec
