/-
C18 completeness — the record `process_indels` writes for a group of two sequences `E ++ I ++ X` and `E ++ X`
(`E` of `kG` letters, `X` of at most `kG` letters, `I` a non-empty insert over A/C/G/T) whose first k-mers are carried by complementary
non-empty sample sets: flanks `E`, `X`, alleles `I` and `-`, REF the more frequent one (`-` on ties).
-/
import SkaModel.Lemmas.LOPipe
import SkaModel.Lemmas.LOCStr

namespace SkaModel.LOE

open SkaModel SkaModel.Skalo SkaModel.LOC

/-! ### `commonSuffixLen` -/

theorem csl_go (seqs : List (List UInt8)) (minLen : Nat) (first : List UInt8) :
    ∀ (fuel n : Nat), n + fuel ≤ minLen →
      (∀ i, n ≤ i → i < n + fuel → seqs.all (fun s => s.reverse.getD i 0 == first.getD i 0) = true) →
      commonSuffixLen.go seqs minLen first n fuel = n + fuel := by
  intro fuel
  induction fuel with
  | zero => intro n _ _; rfl
  | succ fuel ih =>
    intro n hle hall
    rw [commonSuffixLen.go]
    rw [if_pos (by
      rw [Bool.and_eq_true, decide_eq_true_eq]
      exact ⟨by omega, hall n (Nat.le_refl _) (by omega)⟩)]
    rw [ih (n + 1) (by omega) (fun i h1 h2 => hall i (by omega) (by omega))]
    omega

/-- the common suffix of `Y ++ X` and `X` (in either order) has `|X|` letters -/
theorem csl_two (Y X : List UInt8) :
    commonSuffixLen [Y ++ X, X] = X.length ∧ commonSuffixLen [X, Y ++ X] = X.length := by
  have hget : ∀ i, i < X.length → (Y ++ X).reverse.getD i 0 = X.reverse.getD i 0 := by
    intro i hi
    rw [List.reverse_append, List.getD_eq_getElem?_getD, List.getD_eq_getElem?_getD,
      List.getElem?_append_left (by simpa using hi)]
  constructor
  · unfold commonSuffixLen
    simp only [List.map_cons, List.map_nil, List.foldl_cons, List.foldl_nil, List.headD_cons, List.length_append]
    have hmin : min (min (Y.length + X.length) (Y.length + X.length)) X.length = X.length := by omega
    rw [hmin]
    have := csl_go [Y ++ X, X] X.length (Y ++ X).reverse X.length 0 (by omega) (by
      intro i _ hi
      simp only [List.all_cons, List.all_nil, Bool.and_true, Bool.and_eq_true, beq_iff_eq, beq_self_eq_true,
        true_and]
      exact (hget i (by omega)).symm)
    rw [this]; omega
  · unfold commonSuffixLen
    simp only [List.map_cons, List.map_nil, List.foldl_cons, List.foldl_nil, List.headD_cons, List.length_append]
    have hmin : min (min X.length X.length) (Y.length + X.length) = X.length := by omega
    rw [hmin]
    have := csl_go [X, Y ++ X] X.length X.reverse X.length 0 (by omega) (by
      intro i _ hi
      simp only [List.all_cons, List.all_nil, Bool.and_true, Bool.and_eq_true, beq_iff_eq, beq_self_eq_true,
        true_and]
      exact hget i (by omega))
    rw [this]; omega

/-- `extract_middle_bases` on the two sequences, in both orders -/
theorem emb_two (kG : Nat) (E I X : List UInt8) (hE : E.length = kG) (hX : X.length ≤ kG) (hI : I ≠ []) :
    extractMiddleBases [E ++ I ++ X, E ++ X] kG = ([I, [45]], X) ∧
    extractMiddleBases [E ++ X, E ++ I ++ X] kG = ([[45], I], X) := by
  have hd1 : (E ++ I ++ X).drop kG = I ++ X := by
    rw [List.append_assoc, ← hE, List.drop_left]
  have hd2 : (E ++ X).drop kG = X := by rw [← hE, List.drop_left]
  obtain ⟨c1, c2⟩ := csl_two I X
  constructor
  · unfold extractMiddleBases
    simp only [List.map_cons, List.map_nil, hd1, hd2, c1, List.headD_cons, List.length_append]
    rw [show I.length + X.length - X.length = I.length by omega, List.drop_left, Nat.sub_self]
    simp [hI]
    exact List.take_of_length_le (by omega)
  · unfold extractMiddleBases
    simp only [List.map_cons, List.map_nil, hd1, hd2, c2, List.headD_cons, List.length_append]
    rw [show I.length + X.length - X.length = I.length by omega, Nat.sub_self]
    simp [hI]
    exact List.take_of_length_le (by omega)

/-! ### `indelStats` and `indelCalls` for complementary sets -/

theorem indelStats_fold (s0 s1 : List Nat) :
    ∀ (l : List Nat) (m : Nat) (rp ap : Bool), (∀ i ∈ l, (i ∈ s0 ↔ ¬ i ∈ s1)) →
      l.foldl (fun (acc : Nat × Bool × Bool) i =>
        let (m, rp, ap) := acc
        let a := s0.contains i
        let b := s1.contains i
        if !a && !b then (m + 1, rp, ap) else if a && b then (m + 1, rp, ap)
        else if a then (m, true, ap) else (m, rp, true)) (m, rp, ap) =
      (m, rp || l.any (fun i => s0.contains i), ap || l.any (fun i => s1.contains i)) := by
  intro l
  induction l with
  | nil => intro m rp ap _; simp
  | cons i l ih =>
    intro m rp ap h
    have hi := h i (List.mem_cons_self ..)
    rw [List.foldl_cons]
    by_cases h0 : i ∈ s0
    · have h1 : ¬ i ∈ s1 := hi.mp h0
      have e0 : s0.contains i = true := by simpa using h0
      have e1 : s1.contains i = false := by simpa using h1
      simp only [e0, e1, Bool.not_true, Bool.false_and, Bool.and_false, if_true, Bool.false_eq_true, if_false]
      rw [ih m true ap (fun j hj => h j (List.mem_cons_of_mem _ hj))]
      simp only [List.any_cons, e0, e1, Bool.true_or, Bool.or_true, Bool.false_or]
    · have h1 : i ∈ s1 := by
        apply Classical.byContradiction
        intro hn
        exact h0 (hi.mpr hn)
      have e0 : s0.contains i = false := by simpa using h0
      have e1 : s1.contains i = true := by simpa using h1
      simp only [e0, e1, Bool.not_false, Bool.not_true, Bool.and_false, Bool.false_and,
        Bool.false_eq_true, if_false]
      rw [ih m rp true (fun j hj => h j (List.mem_cons_of_mem _ hj))]
      simp only [List.any_cons, e0, e1, Bool.true_or, Bool.or_true, Bool.false_or]

theorem indelStats_compl (n : Nat) (s0 s1 : List Nat) (hpart : ∀ i, i < n → (i ∈ s0 ↔ ¬ i ∈ s1))
    (h0 : ∃ i, i < n ∧ i ∈ s0) (h1 : ∃ i, i < n ∧ i ∈ s1) : indelStats n s0 s1 = (0, true, true) := by
  unfold indelStats
  rw [indelStats_fold s0 s1 (List.range n) 0 false false (fun i hi => hpart i (List.mem_range.mp hi))]
  obtain ⟨i0, hi0, hm0⟩ := h0
  obtain ⟨i1, hi1, hm1⟩ := h1
  have a0 : (List.range n).any (fun i => s0.contains i) = true :=
    List.any_eq_true.mpr ⟨i0, List.mem_range.mpr hi0, by simpa using hm0⟩
  have a1 : (List.range n).any (fun i => s1.contains i) = true :=
    List.any_eq_true.mpr ⟨i1, List.mem_range.mpr hi1, by simpa using hm1⟩
  rw [a0, a1]
  rfl

/-- the genotype strings for complementary sets: `0` for the samples of the reference set -/
theorem indelCalls_compl (n : Nat) (i0 i1 : List UInt8) (s0 s1 : List Nat) (hn0 : s0.Nodup) (hn1 : s1.Nodup)
    (hpart : ∀ i, i < n → (i ∈ s0 ↔ ¬ i ∈ s1)) :
    indelCalls n i0 i1 s0 s1 =
      (if s1.length > s0.length then i1 else i0, if s1.length > s0.length then i0 else i1,
       (List.range n).map (fun i => if (decide (i ∈ s1)) == decide (s1.length > s0.length) then "0" else "1")) := by
  unfold indelCalls
  rw [LO.eraseDups_of_nodup s0 hn0, LO.eraseDups_of_nodup s1 hn1]
  by_cases hs : s1.length > s0.length
  · simp only [hs, decide_true, if_true]
    congr 2
    apply List.map_congr_left
    intro i hi
    have hp := hpart i (List.mem_range.mp hi)
    by_cases h1 : i ∈ s1
    · have h0 : ¬ i ∈ s0 := fun h => (hp.mp h) h1
      simp [h0, h1]
    · have h0 : i ∈ s0 := hp.mpr h1
      simp [h0, h1]
  · simp only [hs, decide_false, if_false]
    congr 2
    apply List.map_congr_left
    intro i hi
    have hp := hpart i (List.mem_range.mp hi)
    by_cases h1 : i ∈ s1
    · have h0 : ¬ i ∈ s0 := fun h => (hp.mp h) h1
      simp [h0, h1]
    · have h0 : i ∈ s0 := hp.mpr h1
      simp [h0, h1]

/-- the record of an insert `I` carried by the samples `sK`, absent from the samples `sD` -/
def indelRec (n : Nat) (E I X : List UInt8) (sK sD : List Nat) : IndelRec :=
  { ref := if sK.length > sD.length then I else [45]
    alt := if sK.length > sD.length then [45] else I
    before := E
    after := X
    calls := (List.range n).map (fun i => if (decide (i ∈ sK)) == decide (sK.length > sD.length) then "0" else "1") }

/-- **the record of a two-sequence group** -/
theorem recOf_indel (W kG n mNum mDen : Nat) (col : Colours) (E I X : List UInt8) (p0 p1 : List Nat)
    (hE : E.length = kG) (hX : X.length ≤ kG) (hI : ∃ b t, I = b :: t ∧ 45 < b) (sK sD : List Nat)
    (hK : Assoc.lookup col (encodeKmer W ((E ++ I ++ X).take (kG + 1))) = some sK)
    (hD : Assoc.lookup col (encodeKmer W ((E ++ X).take (kG + 1))) = some sD)
    (hnK : sK.Nodup) (hnD : sD.Nodup) (hpart : ∀ i, i < n → (i ∈ sD ↔ ¬ i ∈ sK))
    (h0 : ∃ i, i < n ∧ i ∈ sK) (h1 : ∃ i, i < n ∧ i ∈ sD) :
    LOP.recOf W kG n mNum mDen col [(E ++ I ++ X, p0), (E ++ X, p1)] = some (some (indelRec n E I X sK sD)) ∧
    LOP.recOf W kG n mNum mDen col [(E ++ X, p1), (E ++ I ++ X, p0)] = some (some (indelRec n E I X sK sD)) := by
  obtain ⟨b, t, rfl, hb⟩ := hI
  have hIne : (b :: t) ≠ [] := by simp
  obtain ⟨e1, e2⟩ := emb_two kG E (b :: t) X hE hX hIne
  have hpart' : ∀ i, i < n → (i ∈ sK ↔ ¬ i ∈ sD) := by
    intro i hi
    have := hpart i hi
    constructor
    · intro hk hd; exact (this.mp hd) hk
    · intro hd
      apply Classical.byContradiction
      intro hk
      exact hd (this.mpr hk)
  have hst1 := indelStats_compl n sK sD hpart' h0 h1
  have hst2 := indelStats_compl n sD sK hpart h1 h0
  have hr : ratioLe 0 n mNum mDen = true := by simp [ratioLe]
  have hlt1 : bytesLt [45] (b :: t) = true := by
    simp only [bytesLt, Bool.or_eq_true, decide_eq_true_eq]
    exact Or.inl hb
  have hlt2 : bytesLt (b :: t) [45] = false := by
    have hb1 : ¬ b < 45 := by
      intro h
      exact absurd (UInt8.lt_trans hb h) (by decide)
    have hb2 : (b == 45) = false := by
      rw [beq_eq_false_iff_ne]
      intro e
      rw [e] at hb
      exact absurd hb (by decide)
    simp [bytesLt, hb1, hb2]
  have hcalls := indelCalls_compl n [45] (b :: t) sD sK hnD hnK hpart
  constructor
  · rw [LOP.recOf_eq]
    simp only [List.filterMap_cons, List.filterMap_nil, hK, hD, List.getElem?_cons_zero, List.getElem?_cons_succ,
      Option.bind_some, hst1, hr, Bool.and_self, if_true, List.map_cons, List.map_nil, e1, List.getD_cons_zero,
      List.getD_cons_succ, hlt1, List.headD_cons]
    rw [hcalls]
    unfold indelRec
    simp only [Option.some.injEq]
    congr 1
    · rw [List.append_assoc, ← hE, List.take_left]
  · rw [LOP.recOf_eq]
    simp only [List.filterMap_cons, List.filterMap_nil, hK, hD, List.getElem?_cons_zero, List.getElem?_cons_succ,
      Option.bind_some, hst2, hr, Bool.and_self, if_true, List.map_cons, List.map_nil, e2, List.getD_cons_zero,
      List.getD_cons_succ, hlt2, Bool.false_eq_true, if_false, List.headD_cons]
    rw [hcalls]
    unfold indelRec
    simp only [Option.some.injEq]
    congr 1
    · rw [← hE, List.take_left]

end SkaModel.LOE
