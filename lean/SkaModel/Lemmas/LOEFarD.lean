/-
C18 completeness — behind the exit node of a bubble the graph of a deletion family is a line for more than `k`
nodes: a walk from an exit node that reaches an exit node again has at least `k + 1` nodes (`Far`).
-/
import SkaModel.Lemmas.LOEBubD5

namespace SkaModel.LOE

open SkaModel SkaModel.Spec SkaModel.Props.C16 SkaModel.Skalo SkaModel.Props.C17G SkaModel.LOG SkaModel.LOC

theorem walk_step {g : Graph} {p : List Nat} (hw : Walk g p) {i a b : Nat} (ha : p[i]? = some a)
    (hb : p[i + 1]? = some b) : b ∈ succs g a := by
  rw [walk_eq_chainR] at hw
  exact chainR_getElem? p i a b hw ha hb

namespace Ctx

variable {W k : Nat} {F : List UInt8} {B : List (Nat × Nat)} {C : List (List Bool)} {a : Arr} {names : List String}

theorem succs_of_lookup (_cx : Ctx W k F B C a names) {x : Nat} {l : List Nat}
    (h : Assoc.lookup (buildGraph W a).1 x = some l) : succs (buildGraph W a).1 x = l := by
  unfold succs
  rw [h]
  rfl

/-- the walk behind the exit node of the samples' strand -/
theorem walk_fwd (cx : Ctx W k F B C a names) {t : Nat} (ht : t < B.length) {p : List Nat}
    (hw : Walk (buildGraph W a).1 p) (hh : p.head? = some (nF k F B (.c (bE B t)))) :
    ∀ i, i ≤ k → i < p.length → p[i]? = some (nF k F B (.c (bE B t + i))) := by
  have hb := cx.h.bt ht
  have he := cx.ex_bounds ht
  have hk5 := cx.h.k5
  intro i
  induction i with
  | zero =>
    intro _ hi
    rw [← List.head?_eq_getElem?, hh]
    rfl
  | succ i ih =>
    intro hik hi
    have hprev := ih (by omega) (by omega)
    have hcur : p[i + 1]? = some p[i + 1] := List.getElem?_eq_getElem hi
    have hs := walk_step hw hprev hcur
    rw [cx.succs_of_lookup (cx.lookupF_c (x := bE B t + i) (by omega)
      (fun t' ht' => cx.not_entry ht (by omega) (by omega) ht'))] at hs
    rw [hcur, List.mem_singleton.mp hs]
    rfl

/-- the walk behind the exit node of the other strand -/
theorem walk_rev (cx : Ctx W k F B C a names) {t : Nat} (ht : t < B.length) {p : List Nat}
    (hw : Walk (buildGraph W a).1 p) (hh : p.head? = some (nR k F B (.c (eX k F B t)))) :
    ∀ i, i ≤ k → i < p.length → p[i]? = some (nR k F B (.c (eX k F B t - i))) := by
  have hb := cx.h.bt ht
  have he := cx.ex_bounds ht
  have hk5 := cx.h.k5
  intro i
  induction i with
  | zero =>
    intro _ hi
    rw [← List.head?_eq_getElem?, hh]
    rfl
  | succ i ih =>
    intro hik hi
    have hprev := ih (by omega) (by omega)
    have hcur : p[i + 1]? = some p[i + 1] := List.getElem?_eq_getElem hi
    have hs := walk_step hw hprev hcur
    have hl := cx.lookupR_c (x := eX k F B t - i - 1) (by omega)
      (fun t' ht' => by
        rw [show eX k F B t - i - 1 + 1 = eX k F B t - i by omega]
        exact cx.not_exit ht (by omega) (by omega) ht')
    rw [show eX k F B t - i - 1 + 1 = eX k F B t - i by omega] at hl
    rw [cx.succs_of_lookup hl] at hs
    rw [hcur, List.mem_singleton.mp hs]
    rfl

/-- **behind an exit node the next exit node is more than `k` nodes away** -/
theorem far (cx : Ctx W k F B C a names) : Far (k - 1) (buildGraph W a).1 (allBubs k F B) := by
  have hk5 := cx.h.k5
  constructor
  intro β hβ p hw hh ⟨β', hβ', hmem⟩
  apply Classical.byContradiction
  intro hshort
  have hlen : p.length ≤ k := by omega
  -- the position of the exit node in the tail
  obtain ⟨j, hj, hje⟩ := List.getElem_of_mem hmem
  have hjp : j + 1 < p.length := by
    have : p.tail.length = p.length - 1 := List.length_tail
    omega
  have hpj : p[j + 1]? = some β'.ex := by
    rw [← hje, List.getElem?_eq_getElem hjp]
    congr 1
    simp [List.getElem_tail]
  obtain ⟨t, ht, rfl | rfl⟩ := (mem_allBubs k F B β).mp hβ
  · have hb := cx.h.bt ht
    have he := cx.ex_bounds ht
    have hwk := cx.walk_fwd ht hw hh (j + 1) (by omega) hjp
    rw [hpj] at hwk
    have e := Option.some.inj hwk
    obtain ⟨t', ht', rfl | rfl⟩ := (mem_allBubs k F B β').mp hβ'
    · have hb' := cx.h.bt ht'
      have := Nd.c.inj (cx.nF_inj (cx.vc ht' (by omega)) (cx.vc ht (by omega)) e)
      by_cases htt : t = t'
      · subst htt; omega
      · have := cx.h.sep_ne ht ht' htt
        unfold bS bE at *
        omega
    · have hb' := cx.h.bt ht'
      have he' := cx.ex_bounds ht'
      exact cx.cross (cx.vc ht (by omega)) (cx.vc ht' (by omega)) e.symm
  · have hb := cx.h.bt ht
    have he := cx.ex_bounds ht
    have hwk := cx.walk_rev ht hw hh (j + 1) (by omega) hjp
    rw [hpj] at hwk
    have e := Option.some.inj hwk
    obtain ⟨t', ht', rfl | rfl⟩ := (mem_allBubs k F B β').mp hβ'
    · have hb' := cx.h.bt ht'
      exact cx.cross (cx.vc ht' (by omega)) (cx.vc ht (by omega)) e
    · have hb' := cx.h.bt ht'
      have he' := cx.ex_bounds ht'
      have := Nd.c.inj (cx.nR_inj (cx.vc ht' (by omega)) (cx.vc ht (by omega)) e)
      by_cases htt : t = t'
      · subst htt; omega
      · have := cx.h.sep_ne ht ht' htt
        unfold bS bE at *
        omega

end Ctx

end SkaModel.LOE
