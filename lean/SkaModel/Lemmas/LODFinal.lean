/-
C17 (second sentence) — completeness of `ska lo` with a reference on a planted family: the ancestor as
reference (every site at its coordinate with the true column) and the reverse complement of the ancestor
(mirrored coordinate, complemented column).
-/
import SkaModel.Lemmas.LODCall4

namespace SkaModel.LOD

open SkaModel SkaModel.Spec SkaModel.Props.C16 SkaModel.Skalo SkaModel.Props.C17G SkaModel.LOG SkaModel.LOC

/-- the ancestor and the samples together are a planted family -/
theorem pfamA_of_planted {k L : Nat} {A : List UInt8} {S : List (List UInt8)} {P : List Nat}
    (h : plantedB k L A S P = true) : PFam k L (A :: S) P := by
  have pf := pfam_of_planted h
  unfold plantedB at h
  simp only [Bool.and_eq_true, decide_eq_true_eq, List.all_eq_true, List.mem_range, Bool.or_eq_true,
    List.contains_eq_mem, beq_iff_eq, List.any_eq_true, bne_iff_ne, ne_eq] at h
  obtain ⟨⟨⟨⟨⟨⟨⟨⟨⟨h5, hodd⟩, hlenA⟩, hbaseA⟩, htwo⟩, hS⟩, hpoly⟩, hends⟩, hapart⟩, huniq⟩ := h
  have hlen : ∀ s ∈ A :: S, s.length = L := by
    intro s hs
    rcases List.mem_cons.mp hs with rfl | hs
    · exact hlenA
    · exact pf.len hs
  have hoffA : ∀ s ∈ A :: S, ∀ j, j < L → j ∉ P → s.getD j 0 = A.getD j 0 := by
    intro s hs j hj hjP
    rcases List.mem_cons.mp hs with rfl | hs
    · rfl
    · rcases (hS s hs).2 j hj with h1 | h1
      · exact absurd h1 hjP
      · exact h1
  refine ⟨⟨hlen, ?_⟩, by simp, ?_, ?_, pf.ends, pf.apart, ?_⟩
  · intro s hs
    rcases List.mem_cons.mp hs with rfl | hs
    · exact fun b hb => hbaseA b hb
    · exact pf.base hs
  · intro s hs t ht j hj hjP
    rw [hoffA s hs j hj hjP, hoffA t ht j hj hjP]
  · intro p hp
    obtain ⟨s, hs, t, ht, hne⟩ := pf.poly p hp
    exact ⟨s, List.mem_cons_of_mem _ hs, t, List.mem_cons_of_mem _ ht, hne⟩
  · intro s hs t ht j j' hj hj'
    exact uniqueB_spec huniq s hs t ht j j' (by rw [hlen s hs]; exact hj) (by rw [hlen t ht]; exact hj')

/-! ### complementing a column of bases -/

theorem complementSnp_base {c : List UInt8} (h : ∀ b ∈ c, isBase b = true) :
    complementSnp c = some (complCol c) := by
  unfold complementSnp complCol
  apply mapM_eq_map
  intro b hb
  rcases isBase_cases (h b hb) with rfl | rfl | rfl | rfl <;> decide

theorem complCol_complCol {c : List UInt8} (h : ∀ b ∈ c, isBase b = true) : complCol (complCol c) = c := by
  unfold complCol
  rw [List.map_map]
  conv => rhs; rw [← List.map_id c]
  apply List.map_congr_left
  intro b hb
  exact compl_compl (h b hb)

theorem colT_base {k L : Nat} {T : List (List UInt8)} {PT : List Nat} (pf : PFam k L T PT) {q : Nat} (hq : q < L) :
    ∀ b ∈ colT T q, isBase b = true := by
  intro b hb
  obtain ⟨t, ht, rfl⟩ := List.mem_map.mp hb
  exact pf.base ht _ (getD_mem (by rw [pf.len ht]; exact hq))

section main

variable {k L : Nat} {A : List UInt8} {S : List (List UInt8)} {P : List Nat}

/-- where a site is placed with the ancestor as reference -/
def plcA (S : List (List UInt8)) (q : Nat) : Nat × List UInt8 := (q, colT S q)

/-- where a site is placed with the reverse complement of the ancestor as reference -/
def plcRc (L : Nat) (S : List (List UInt8)) (q : Nat) : Nat × List UInt8 := (L - 1 - q, complCol (colT S q))

theorem rcFam_closed (pf : PFam k L S P) : ∀ t' ∈ rcFam S, AllBase t' ∧ t'.length = L ∧ rcSeq t' ∈ S := by
  intro t' ht'
  obtain ⟨s, hs, rfl⟩ := List.mem_map.mp ht'
  exact ⟨(pf.base hs).rcSeq, by rw [rcSeq_length, pf.len hs], by rw [rcSeq_rcSeq (pf.base hs)]; exact hs⟩

theorem fam_closed (pf : PFam k L S P) : ∀ s ∈ S, AllBase s ∧ s.length = L ∧ rcSeq s ∈ rcFam S :=
  fun s hs => ⟨pf.base hs, pf.len hs, List.mem_map.mpr ⟨s, hs, rfl⟩⟩

theorem mirror_site (pf : PFam k L S P) {q' : Nat} (hq' : q' ∈ mirrorP L P) :
    L - 1 - q' ∈ P ∧ L - 1 - (L - 1 - q') = q' ∧ q' < L := by
  obtain ⟨p, hp, rfl⟩ := (mem_mirrorP L P q').mp hq'
  have := pf.ends p hp
  rw [show L - 1 - (L - 1 - p) = p by omega]
  exact ⟨hp, rfl, by omega⟩

/-- the hypothesis on a site `p`: some sample shows the base of the reference, and the bubble of the site gets ten
votes — `7 ≤ k`, or the samples show two further bases (three alleles with `k = 5`) -/
def SiteOK (k : Nat) (A : List UInt8) (S : List (List UInt8)) (p : Nat) : Prop :=
  (∃ s ∈ S, s.getD p 0 = A.getD p 0) ∧
  (7 ≤ k ∨ ∃ s1 ∈ S, ∃ s2 ∈ S, s1.getD p 0 ≠ s2.getD p 0 ∧ s1.getD p 0 ≠ A.getD p 0 ∧ s2.getD p 0 ≠ A.getD p 0)

/-- its decidable form -/
def siteOKB (k : Nat) (A : List UInt8) (S : List (List UInt8)) (p : Nat) : Bool :=
  S.any (fun s => s.getD p 0 == A.getD p 0) &&
  (decide (7 ≤ k) || S.any (fun s1 => S.any (fun s2 =>
    s1.getD p 0 != s2.getD p 0 && s1.getD p 0 != A.getD p 0 && s2.getD p 0 != A.getD p 0)))

theorem siteOK_of_B {k : Nat} {A : List UInt8} {S : List (List UInt8)} {P : List Nat}
    (h : P.all (siteOKB k A S) = true) : ∀ p ∈ P, SiteOK k A S p := by
  intro p hp
  have := List.all_eq_true.mp h p hp
  unfold siteOKB at this
  simp only [Bool.and_eq_true, List.any_eq_true, beq_iff_eq, Bool.or_eq_true, decide_eq_true_eq, bne_iff_ne, ne_eq] at this
  obtain ⟨⟨s, hs, hsa⟩, h2⟩ := this
  refine ⟨⟨s, hs, hsa⟩, ?_⟩
  rcases h2 with h7 | ⟨s1, hs1, s2, hs2, ⟨h12, h10⟩, h20⟩
  · exact Or.inl h7
  · exact Or.inr ⟨s1, hs1, s2, hs2, h12, h10, h20⟩

theorem siteOK_of_k7 {k : Nat} {A : List UInt8} {S : List (List UInt8)} {P : List Nat} (hk7 : 7 ≤ k)
    (hanc : ∀ p ∈ P, ∃ s ∈ S, s.getD p 0 = A.getD p 0) : ∀ p ∈ P, SiteOK k A S p :=
  fun p hp => ⟨hanc p hp, Or.inl hk7⟩

variable (pfA : PFam k L (A :: S) P) (pf : PFam k L S P) (hk5 : 5 ≤ k) (hk : 2 * (k - 1) ≤ 128) (hLU : L < U32)
  (hsite : ∀ p ∈ P, SiteOK k A S p)

include pfA pf hk5 hk hLU hsite

/-- the ancestor as reference: groups of the samples' strand -/
theorem anchF_A : AnchF k L S P (genomicKmers 128 (k - 1) A) (plcA S) := by
  intro c0 len vs hg h2 ⟨q0, hq0, h1, h2q⟩
  obtain ⟨⟨s, hs, hsa⟩, hten⟩ := hsite q0 hq0
  refine ⟨c0 + (k - 1), true, scan_same pfA hk5 hk hLU hg h2 hq0 h1 h2q hs hsa (by
    rcases hten with h | h
    · exact Or.inl h
    · exact Or.inr (Or.inr (Or.inr h))), ?_⟩
  intro q hq h3 h4
  obtain ⟨hr1, _⟩ := hg.room q hq h3 h4
  have := pf.ends q hq
  refine ⟨?_, rfl⟩
  simp only [if_true, plcA]
  rw [show c0 + (k - 1) + (q - c0 - (k - 1)) = q by omega]
  exact Nat.mod_eq_of_lt (by omega)

/-- the ancestor as reference: groups of the other strand -/
theorem anchR_A : AnchR k L S P (genomicKmers 128 (k - 1) A) (plcA S) := by
  intro c0 len vs hg h2 ⟨q0, hq0, h1, h2q⟩
  obtain ⟨hp0, hpp0, hlt0⟩ := mirror_site pf hq0
  obtain ⟨⟨s, hs, hsa⟩, hten⟩ := hsite _ hp0
  have hrc : ∀ u ∈ S, (rcSeq u).getD q0 0 = compl (u.getD (L - 1 - q0) 0) := by
    intro u hu
    rw [rcSeq_getD (by rw [pf.len hu]; omega), pf.len hu]
  have hbq : ∀ u ∈ S, isBase (u.getD (L - 1 - q0) 0) = true :=
    fun u hu => pf.base hu _ (getD_mem (by rw [pf.len hu]; omega))
  refine ⟨L - c0 - len + (k - 1), false,
    scan_other pfA hk5 hk hLU (rcFam_closed pf) hg h2 hq0 h1 h2q hp0 (t' := rcSeq s) (List.mem_map.mpr ⟨s, hs, rfl⟩)
      (by rw [rcSeq_rcSeq (pf.base hs)]; exact hsa) (by
        rcases hten with h | ⟨s1, hs1, s2, hs2, h12, h10, h20⟩
        · exact Or.inl h
        · refine Or.inr (Or.inr (Or.inr ⟨rcSeq s1, List.mem_map.mpr ⟨s1, hs1, rfl⟩, rcSeq s2,
            List.mem_map.mpr ⟨s2, hs2, rfl⟩, ?_, ?_, ?_⟩))
          · rw [hrc s1 hs1, hrc s2 hs2]
            exact fun e => h12 (compl_inj (hbq s1 hs1) (hbq s2 hs2) e)
          · rw [rcSeq_rcSeq (pf.base hs1)]; exact h10
          · rw [rcSeq_rcSeq (pf.base hs2)]; exact h20), ?_⟩
  intro q' hq' h3 h4
  obtain ⟨hr1, hr2⟩ := hg.room q' hq' h3 h4
  obtain ⟨hp, hpp, hlt⟩ := mirror_site pf hq'
  have hL := hg.hL
  simp only [Bool.false_eq_true, if_false, plcA]
  refine ⟨?_, ?_⟩
  · rw [show L - c0 - len + (k - 1) + (len - (q' - c0) - (k - 1) - 1) = L - 1 - q' by omega]
    exact Nat.mod_eq_of_lt (by omega)
  · have hcm := colT_mirror pf hp
    rw [hpp] at hcm
    rw [hcm, complementSnp_base (by
      intro b hb
      unfold complCol at hb
      obtain ⟨x, hx, rfl⟩ := List.mem_map.mp hb
      exact isBase_compl (colT_base pf (by omega) x hx)), complCol_complCol (colT_base pf (by omega))]

/-- the reverse complement of the ancestor as reference: groups of the samples' strand -/
theorem anchF_Rc : AnchF k L S P (genomicKmers 128 (k - 1) (rcSeq A)) (plcRc L S) := by
  intro c0 len vs hg h2 ⟨q0, hq0, h1, h2q⟩
  obtain ⟨⟨s, hs, hsa⟩, hten⟩ := hsite q0 hq0
  have pfm : PFam k L (rcSeq A :: rcFam S) (mirrorP L P) := pfA.mirror
  have hq0e := pf.ends q0 hq0
  have hAm : A ∈ A :: S := List.mem_cons_self ..
  have hlA := pfA.len hAm
  have hrcA : (rcSeq A).getD (L - 1 - q0) 0 = compl (A.getD q0 0) := by
    rw [rcSeq_getD (by rw [hlA]; omega), hlA, show L - 1 - (L - 1 - q0) = q0 by omega]
  have hrc : ∀ u ∈ S, (rcSeq u).getD (L - 1 - q0) 0 = compl (u.getD q0 0) := by
    intro u hu
    rw [rcSeq_getD (by rw [pf.len hu]; omega), pf.len hu, show L - 1 - (L - 1 - q0) = q0 by omega]
  have hbq : ∀ u ∈ S, isBase (u.getD q0 0) = true :=
    fun u hu => pf.base hu _ (getD_mem (by rw [pf.len hu]; omega))
  have hbA : isBase (A.getD q0 0) = true := pfA.base hAm _ (getD_mem (by rw [hlA]; omega))
  refine ⟨L - c0 - len + (k - 1), false,
    scan_other pfm hk5 hk hLU (fam_closed pf) hg h2 hq0 h1 h2q ((mem_mirrorP L P _).mpr ⟨q0, hq0, rfl⟩) hs
      (by rw [hrc s hs, hrcA, hsa]) (by
        rcases hten with h | ⟨s1, hs1, s2, hs2, h12, h10, h20⟩
        · exact Or.inl h
        · refine Or.inr (Or.inr (Or.inr ⟨s1, hs1, s2, hs2, h12, ?_, ?_⟩))
          · rw [hrc s1 hs1, hrcA]
            exact fun e => h10 (compl_inj (hbq s1 hs1) hbA e)
          · rw [hrc s2 hs2, hrcA]
            exact fun e => h20 (compl_inj (hbq s2 hs2) hbA e)), ?_⟩
  intro q hq h3 h4
  obtain ⟨hr1, hr2⟩ := hg.room q hq h3 h4
  have hqe := pf.ends q hq
  have hL := hg.hL
  simp only [Bool.false_eq_true, if_false, plcRc]
  refine ⟨?_, complementSnp_base (colT_base pf (by omega))⟩
  rw [show L - c0 - len + (k - 1) + (len - (q - c0) - (k - 1) - 1) = L - 1 - q by omega]
  exact Nat.mod_eq_of_lt (by omega)

/-- the reverse complement of the ancestor as reference: groups of the other strand -/
theorem anchR_Rc : AnchR k L S P (genomicKmers 128 (k - 1) (rcSeq A)) (plcRc L S) := by
  intro c0 len vs hg h2 ⟨q0, hq0, h1, h2q⟩
  obtain ⟨hp0, hpp0, hlt0⟩ := mirror_site pf hq0
  obtain ⟨⟨s, hs, hsa⟩, hten⟩ := hsite _ hp0
  have pfm : PFam k L (rcSeq A :: rcFam S) (mirrorP L P) := pfA.mirror
  have hAm : A ∈ A :: S := List.mem_cons_self ..
  have hlA := pfA.len hAm
  have hrcA : (rcSeq A).getD q0 0 = compl (A.getD (L - 1 - q0) 0) := by
    rw [rcSeq_getD (by rw [hlA]; omega), hlA]
  have hrc : ∀ u ∈ S, (rcSeq u).getD q0 0 = compl (u.getD (L - 1 - q0) 0) := by
    intro u hu
    rw [rcSeq_getD (by rw [pf.len hu]; omega), pf.len hu]
  have hbq : ∀ u ∈ S, isBase (u.getD (L - 1 - q0) 0) = true :=
    fun u hu => pf.base hu _ (getD_mem (by rw [pf.len hu]; omega))
  have hbA : isBase (A.getD (L - 1 - q0) 0) = true := pfA.base hAm _ (getD_mem (by rw [hlA]; omega))
  refine ⟨c0 + (k - 1), true,
    scan_same pfm hk5 hk hLU hg h2 hq0 h1 h2q (t := rcSeq s) (List.mem_map.mpr ⟨s, hs, rfl⟩)
      (by rw [hrc s hs, hrcA, hsa]) (by
        rcases hten with h | ⟨s1, hs1, s2, hs2, h12, h10, h20⟩
        · exact Or.inl h
        · refine Or.inr (Or.inr (Or.inr ⟨rcSeq s1, List.mem_map.mpr ⟨s1, hs1, rfl⟩, rcSeq s2,
            List.mem_map.mpr ⟨s2, hs2, rfl⟩, ?_, ?_, ?_⟩))
          · rw [hrc s1 hs1, hrc s2 hs2]
            exact fun e => h12 (compl_inj (hbq s1 hs1) (hbq s2 hs2) e)
          · rw [hrc s1 hs1, hrcA]
            exact fun e => h10 (compl_inj (hbq s1 hs1) hbA e)
          · rw [hrc s2 hs2, hrcA]
            exact fun e => h20 (compl_inj (hbq s2 hs2) hbA e)), ?_⟩
  intro q' hq' h3 h4
  obtain ⟨hr1, _⟩ := hg.room q' hq' h3 h4
  obtain ⟨hp, hpp, hlt⟩ := mirror_site pf hq'
  simp only [if_true, plcRc]
  refine ⟨?_, ?_⟩
  · rw [show c0 + (k - 1) + (q' - c0 - (k - 1)) = q' by omega, hpp]
    exact Nat.mod_eq_of_lt (by omega)
  · have hcm := colT_mirror pf hp
    rw [hpp] at hcm
    rw [hcm]

end main

/-- **completeness with the ancestor as reference** -/
theorem loRef_complete {a : Arr} {k L : Nat} {A : List UInt8} {names : List String} {S : List (List UInt8)}
    {P : List Nat} (ha : IsArrOf a k names S) (hpl : plantedB k L A S P = true) (hk : ValidK k)
    {W : Nat} (hw : WidthOk W k) (hLU : L < U32)
    (hsite : ∀ p ∈ P, SiteOK k A S p) (mNum mDen ik maxDepth : Nat) :
    ∃ placed, loRef W k S.length mNum mDen ik maxDepth a A = some (placed, []) ∧
      placed.Perm (truePlaced S P) := by
  have pf := pfam_of_planted hpl
  have pfA := pfamA_of_planted hpl
  have hk128 : 2 * (k - 1) ≤ 128 := by have := hk.2.1; omega
  exact loRef_of_anch ha pf hk hw mNum mDen ik maxDepth A
    (anchF_A pfA pf hk.1 hk128 hLU hsite) (anchR_A pfA pf hk.1 hk128 hLU hsite) (fun q _ q2 _ e => e)

/-- **completeness with the reverse complement of the ancestor as reference** -/
theorem loRef_complete_rc {a : Arr} {k L : Nat} {A : List UInt8} {names : List String} {S : List (List UInt8)}
    {P : List Nat} (ha : IsArrOf a k names S) (hpl : plantedB k L A S P = true) (hk : ValidK k)
    {W : Nat} (hw : WidthOk W k) (hLU : L < U32)
    (hsite : ∀ p ∈ P, SiteOK k A S p) (mNum mDen ik maxDepth : Nat) :
    ∃ placed, loRef W k S.length mNum mDen ik maxDepth a (rcSeq A) = some (placed, []) ∧
      placed.Perm (truePlacedRc L S P) := by
  have pf := pfam_of_planted hpl
  have pfA := pfamA_of_planted hpl
  have hk128 : 2 * (k - 1) ≤ 128 := by have := hk.2.1; omega
  obtain ⟨placed, h1, h2⟩ := loRef_of_anch ha pf hk hw mNum mDen ik maxDepth (rcSeq A)
    (anchF_Rc pfA pf hk.1 hk128 hLU hsite) (anchR_Rc pfA pf hk.1 hk128 hLU hsite) (by
      intro q hq q2 hq2 e
      have := pf.ends q hq
      have := pf.ends q2 hq2
      simp only [plcRc] at e
      omega)
  refine ⟨placed, h1, ?_⟩
  have : P.map (plcRc L S) = truePlacedRc L S P := by
    unfold truePlacedRc
    apply List.map_congr_left
    intro p _
    simp only [plcRc, colT, complCol, List.map_map]
    rfl
  rw [← this]
  exact h2

end SkaModel.LOD
