/-
The invariant of the incremental alignment writer and its preservation by
`fillContig`, `fillTo` and `writeSplitKmer`.
-/
import SkaModel.Lemmas.AWBasic

namespace SkaModel.AW

open SkaModel SkaModel.Spec

/-! ### Predicates on matches -/

/-- the window of a match lies inside its contig -/
def Bnd (ref : List (Array UInt8)) (h : Nat) (m : Match) : Prop :=
  m.1 < ref.length ∧ h ≤ m.2.1 ∧ m.2.1 + h < csize ref m.1

/-- lexicographic order on (contig, position) -/
def MLt (m m' : Match) : Prop := m.1 < m'.1 ∨ (m.1 = m'.1 ∧ m.2.1 < m'.2.1)

/-- position `p` of contig `c` lies in the window of some match -/
def Cov (h : Nat) (done : List Match) (c p : Nat) : Prop :=
  ∃ m ∈ done, m.1 = c ∧ p ≤ m.2.1 + h ∧ m.2.1 ≤ p + h

/-- position `p` of contig `c` is the middle base of some match -/
def IsMid (done : List Match) (c p : Nat) : Prop := ∃ m ∈ done, m.1 = c ∧ m.2.1 = p

/-- position `p` of contig `c` lies in the part of the output the writer has passed -/
def Wr (cc lW c p : Nat) : Prop := c < cc ∨ (c = cc ∧ p < lW)

def midEntry (ref : List (Array UInt8)) (ma : Bool) (m : Match) : UInt8 × Nat :=
  (if isAmbiguous m.2.2 && ma then 78 else m.2.2, m.2.1 + contigOffset ref m.1)

theorem cov_append (h : Nat) (done : List Match) (m : Match) (c p : Nat) :
    Cov h (done ++ [m]) c p ↔ Cov h done c p ∨ (m.1 = c ∧ p ≤ m.2.1 + h ∧ m.2.1 ≤ p + h) := by
  constructor
  · rintro ⟨x, hx, hx'⟩
    rcases List.mem_append.1 hx with hx | hx
    · exact Or.inl ⟨x, hx, hx'⟩
    · rw [List.mem_singleton] at hx; subst hx; exact Or.inr hx'
  · rintro (⟨x, hx, hx'⟩ | hm)
    · exact ⟨x, List.mem_append_left _ hx, hx'⟩
    · exact ⟨m, List.mem_append_right _ (List.mem_singleton.2 rfl), hm⟩

theorem isMid_append (done : List Match) (m : Match) (c p : Nat) :
    IsMid (done ++ [m]) c p ↔ IsMid done c p ∨ (m.1 = c ∧ m.2.1 = p) := by
  constructor
  · rintro ⟨x, hx, hx'⟩
    rcases List.mem_append.1 hx with hx | hx
    · exact Or.inl ⟨x, hx, hx'⟩
    · rw [List.mem_singleton] at hx; subst hx; exact Or.inr hx'
  · rintro (⟨x, hx, hx'⟩ | hm)
    · exact ⟨x, List.mem_append_left _ hx, hx'⟩
    · exact ⟨m, List.mem_append_right _ (List.mem_singleton.2 rfl), hm⟩

theorem cov_none {h : Nat} {done : List Match} {cc c p : Nat}
    (hlt : ∀ m ∈ done, m.1 < cc) (hc : cc ≤ c) : ¬ Cov h done c p := by
  rintro ⟨m, hm, h1, _⟩
  have := hlt m hm
  omega

/-! ### Arrays holding reference bases on a set of positions and gaps elsewhere -/

def Holds (ref : List (Array UInt8)) (a : Array UInt8) (R : Nat → Nat → Prop) : Prop :=
  ∀ c p, c < ref.length → p < csize ref c →
    (R c p → a.getD (contigOffset ref c + p) GAP = (ref.getD c #[]).getD p 0) ∧
    (¬ R c p → a.getD (contigOffset ref c + p) GAP = GAP)

theorem Holds.copy {ref : List (Array UInt8)} {a : Array UInt8} {R : Nat → Nat → Prop}
    (hH : Holds ref a R) (hsize : a.size = contigOffset ref ref.length) (c start stop : Nat)
    (hstop : stop ≤ csize ref c) :
    Holds ref (AlnWriter.copyRef a (ref.getD c #[]) (contigOffset ref c) start stop)
      (fun c' p => R c' p ∨ (c' = c ∧ start ≤ p ∧ p < stop)) := by
  intro c' p hc' hp
  rw [copyRef_query ref a start stop hsize hc' hp hstop]
  by_cases hr : c' = c ∧ start ≤ p ∧ p < stop
  · rw [if_pos hr]
    exact ⟨fun _ => rfl, fun hn => absurd (Or.inr hr) hn⟩
  · rw [if_neg hr]
    constructor
    · rintro (h1 | h1)
      · exact (hH c' p hc' hp).1 h1
      · exact absurd h1 hr
    · intro hn
      exact (hH c' p hc' hp).2 (fun h1 => hn (Or.inl h1))

theorem copyRef_empty (out contig : Array UInt8) (off start stop : Nat) (hle : stop ≤ start) :
    AlnWriter.copyRef out contig off start stop = out := by
  unfold AlnWriter.copyRef
  have : stop - start = 0 := by omega
  rw [this]; rfl

/-! ### Propositional glue -/

theorem iff_unchanged {R Reg C W C' W' : Prop} (h1 : R ↔ C ∧ W) (h2 : ¬ Reg)
    (h3 : C' ∧ W' ↔ C ∧ W) : (R ∨ Reg) ↔ C' ∧ W' := by
  rw [h3, ← h1]; exact or_iff_left h2

theorem iff_fresh {R Reg C W C' W' : Prop} (h1 : R ↔ C ∧ W) (h2 : ¬ (C ∧ W))
    (h3 : Reg ↔ C' ∧ W') : (R ∨ Reg) ↔ C' ∧ W' := by
  rw [← h3]; exact or_iff_right (fun hr => h2 (h1.1 hr))

/-! ### The invariant -/

/-- mode-independent part -/
structure Base (ref : List (Array UInt8)) (h : Nat) (ma : Bool) (done : List Match)
    (w : AlnWriter) : Prop where
  size : w.seqOut.size = contigOffset ref ref.length
  off : w.chromOffset = contigOffset ref w.currChrom
  mid : w.middleOut = done.map (midEntry ref ma)
  chromLe : w.currChrom ≤ ref.length
  seq : ∃ R : Nat → Nat → Prop, Holds ref w.seqOut R ∧
    ∀ c p, c < ref.length → p < csize ref c → ¬ IsMid done c p →
      (R c p ↔ (Cov h done c p ∧ Wr w.currChrom w.lastWritten c p))

/-- no match processed on the current contig; nothing owed -/
def ModeA (h : Nat) (done : List Match) (w : AlnWriter) : Prop :=
  (w.lastWritten = 0 ∨ w.lastMapped + h ≤ w.lastWritten) ∧ w.nextPos = h ∧
    ∀ m ∈ done, m.1 < w.currChrom

/-- at least one match processed on the current contig -/
structure ModeB (ref : List (Array UInt8)) (h : Nat) (done : List Match) (w : AlnWriter) : Prop where
  chromLt : w.currChrom < ref.length
  lastIn : ∃ mi ∈ done, mi.1 = w.currChrom ∧ mi.2.1 = w.lastMapped
  next : w.nextPos = w.lastWritten + h + 1
  wpos : 0 < w.lastWritten
  le1 : w.lastWritten ≤ w.lastMapped
  le2 : w.lastMapped ≤ w.lastWritten + h
  midW : IsMid done w.currChrom w.lastWritten
  sorted : ∀ m ∈ done, m.1 < w.currChrom ∨ (m.1 = w.currChrom ∧ m.2.1 ≤ w.lastMapped)
  inb : w.lastMapped + h < csize ref w.currChrom

/-- in mode B, above the last written middle base the covered positions are exactly those
up to `lastMapped + h` -/
theorem ModeB.cov_tail {ref : List (Array UInt8)} {h : Nat} {done : List Match} {w : AlnWriter}
    (hB : ModeB ref h done w) {p : Nat} (hp : w.lastWritten < p) :
    Cov h done w.currChrom p ↔ p ≤ w.lastMapped + h := by
  constructor
  · rintro ⟨m, hm, h1, h2, _⟩
    have := hB.sorted m hm
    omega
  · intro hle
    obtain ⟨mi, hmi, h1, h2⟩ := hB.lastIn
    have := hB.le2
    exact ⟨mi, hmi, h1, by omega, by omega⟩

theorem ModeB.cov_gt {ref : List (Array UInt8)} {h : Nat} {done : List Match} {w : AlnWriter}
    (hB : ModeB ref h done w) {c p : Nat} (hc : w.currChrom < c) : ¬ Cov h done c p := by
  rintro ⟨m, hm, h1, _⟩
  have := hB.sorted m hm
  omega

/-! ### `fillFwdBases` -/

theorem fillFwd_idle (ref : List (Array UInt8)) (h : Nat) (w : AlnWriter) (M : Nat)
    (hidle : w.lastWritten = 0 ∨ w.lastMapped + h ≤ w.lastWritten) :
    AlnWriter.fillFwdBases ref h w M = w := by
  unfold AlnWriter.fillFwdBases
  by_cases h0 : w.lastWritten > 0
  · rw [if_pos h0]
    have : ¬ (min (w.lastWritten + 1 + (w.lastMapped + h - w.lastWritten)) M > w.lastWritten + 1) := by
      omega
    simp only []
    rw [if_neg this]
  · rw [if_neg h0]

theorem fillFwd_eta (ref : List (Array UInt8)) (h : Nat) (w : AlnWriter) (M : Nat) :
    AlnWriter.fillFwdBases ref h w M =
      { w with seqOut := (AlnWriter.fillFwdBases ref h w M).seqOut,
               lastWritten := (AlnWriter.fillFwdBases ref h w M).lastWritten } := by
  unfold AlnWriter.fillFwdBases
  split
  · simp only []
    split <;> rfl
  · rfl

theorem fillFwd_seq (ref : List (Array UInt8)) (h : Nat) (w : AlnWriter) (M : Nat)
    (h0 : 0 < w.lastWritten) (hle : w.lastWritten ≤ w.lastMapped + h) :
    (AlnWriter.fillFwdBases ref h w M).seqOut =
      AlnWriter.copyRef w.seqOut (ref.getD w.currChrom #[]) w.chromOffset (w.lastWritten + 1)
        (min (w.lastMapped + h + 1) M) := by
  unfold AlnWriter.fillFwdBases
  rw [if_pos h0]
  simp only []
  have e : w.lastWritten + 1 + (w.lastMapped + h - w.lastWritten) = w.lastMapped + h + 1 := by omega
  rw [e]
  split
  · rfl
  · rw [copyRef_empty]; omega

theorem fillFwd_lastWritten (ref : List (Array UInt8)) (h : Nat) (w : AlnWriter) (M : Nat)
    (h0 : 0 < w.lastWritten) (hle : w.lastWritten ≤ w.lastMapped + h) (hM : w.lastMapped + h < M) :
    w.lastMapped + h ≤ (AlnWriter.fillFwdBases ref h w M).lastWritten := by
  unfold AlnWriter.fillFwdBases
  rw [if_pos h0]
  simp only []
  have e : w.lastWritten + 1 + (w.lastMapped + h - w.lastWritten) = w.lastMapped + h + 1 := by omega
  rw [e]
  split
  · show w.lastMapped + h ≤ min (w.lastMapped + h + 1) M
    omega
  · omega

end SkaModel.AW
