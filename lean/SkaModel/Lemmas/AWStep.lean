/-
Preservation of the writer invariant by `fillContig`, `fillTo` and `writeSplitKmer`.
-/
import SkaModel.Lemmas.AWInv

namespace SkaModel.AW

open SkaModel SkaModel.Spec

variable {ref : List (Array UInt8)} {h : Nat} {ma : Bool} {done : List Match} {w : AlnWriter}

/-! ### `fillContig` -/

theorem fillContig_A (hb : Base ref h ma done w) (hA : ModeA h done w)
    (hlt : w.currChrom < ref.length) :
    Base ref h ma done (AlnWriter.fillContig ref h w) ∧
    ModeA h done (AlnWriter.fillContig ref h w) ∧
    (AlnWriter.fillContig ref h w).currChrom = w.currChrom + 1 := by
  have e : AlnWriter.fillContig ref h w =
      { w with chromOffset := w.chromOffset + csize ref w.currChrom,
               currChrom := w.currChrom + 1, nextPos := h } := by
    unfold AlnWriter.fillContig
    simp only []
    rw [fillFwd_idle _ _ _ _ hA.1]
    rfl
  rw [e]
  refine ⟨⟨hb.size, ?_, hb.mid, hlt, ?_⟩, ⟨hA.1, rfl, ?_⟩, rfl⟩
  · show w.chromOffset + csize ref w.currChrom = contigOffset ref (w.currChrom + 1)
    rw [off_succ, hb.off]
  · obtain ⟨R, hH, hR⟩ := hb.seq
    refine ⟨R, hH, ?_⟩
    intro c p hc hp hnm
    rw [hR c p hc hp hnm]
    show (Cov h done c p ∧ Wr w.currChrom w.lastWritten c p) ↔
      (Cov h done c p ∧ Wr (w.currChrom + 1) w.lastWritten c p)
    by_cases hcov : Cov h done c p
    · have hlt' : c < w.currChrom := by
        apply Classical.byContradiction
        intro hn
        exact cov_none hA.2.2 (by omega) hcov
      exact ⟨fun _ => ⟨hcov, Or.inl (by omega)⟩, fun _ => ⟨hcov, Or.inl hlt'⟩⟩
    · exact ⟨fun h1 => absurd h1.1 hcov, fun h1 => absurd h1.1 hcov⟩
  · intro m hm
    have := hA.2.2 m hm
    show m.1 < w.currChrom + 1
    omega

theorem fillContig_B (hb : Base ref h ma done w) (hB : ModeB ref h done w) :
    Base ref h ma done (AlnWriter.fillContig ref h w) ∧
    ModeA h done (AlnWriter.fillContig ref h w) ∧
    (AlnWriter.fillContig ref h w).currChrom = w.currChrom + 1 := by
  have hlen : (ref.getD w.currChrom #[]).size = csize ref w.currChrom := rfl
  have e : AlnWriter.fillContig ref h w =
      { nextPos := h, currChrom := w.currChrom + 1, lastMapped := w.lastMapped,
        lastWritten := (AlnWriter.fillFwdBases ref h w (csize ref w.currChrom)).lastWritten,
        chromOffset := w.chromOffset + csize ref w.currChrom,
        seqOut := (AlnWriter.fillFwdBases ref h w (csize ref w.currChrom)).seqOut,
        middleOut := w.middleOut } := by
    unfold AlnWriter.fillContig
    simp only [hlen]
    generalize hw1 : AlnWriter.fillFwdBases ref h w (csize ref w.currChrom) = w1
    have := fillFwd_eta ref h w (csize ref w.currChrom)
    rw [hw1] at this
    rw [this]
  have h0 := hB.wpos
  have hle : w.lastWritten ≤ w.lastMapped + h := by have := hB.le1; omega
  have hL := fillFwd_lastWritten ref h w (csize ref w.currChrom) h0 hle hB.inb
  have hS := fillFwd_seq ref h w (csize ref w.currChrom) h0 hle
  have hmin : min (w.lastMapped + h + 1) (csize ref w.currChrom) = w.lastMapped + h + 1 := by
    have := hB.inb; omega
  rw [hmin, hb.off] at hS
  rw [e]
  generalize (AlnWriter.fillFwdBases ref h w (csize ref w.currChrom)).lastWritten = L at hL
  generalize (AlnWriter.fillFwdBases ref h w (csize ref w.currChrom)).seqOut = S at hS
  subst hS
  refine ⟨⟨?_, ?_, hb.mid, hB.chromLt, ?_⟩, ⟨Or.inr hL, rfl, ?_⟩, rfl⟩
  · show (AlnWriter.copyRef _ _ _ _ _).size = _
    rw [copyRef_size, hb.size]
  · show w.chromOffset + csize ref w.currChrom = contigOffset ref (w.currChrom + 1)
    rw [off_succ, hb.off]
  · obtain ⟨R, hH, hR⟩ := hb.seq
    refine ⟨_, hH.copy hb.size w.currChrom (w.lastWritten + 1) (w.lastMapped + h + 1)
      (by have := hB.inb; omega), ?_⟩
    intro c p hc hp hnm
    show (R c p ∨ (c = w.currChrom ∧ w.lastWritten + 1 ≤ p ∧ p < w.lastMapped + h + 1)) ↔
      (Cov h done c p ∧ Wr (w.currChrom + 1) L c p)
    have hR' := hR c p hc hp hnm
    by_cases hc1 : c < w.currChrom
    · refine iff_unchanged hR' (by omega) ?_
      exact ⟨fun h1 => ⟨h1.1, Or.inl hc1⟩, fun h1 => ⟨h1.1, Or.inl (by omega)⟩⟩
    · by_cases hc2 : c = w.currChrom
      · subst hc2
        by_cases hp1 : p < w.lastWritten
        · refine iff_unchanged hR' (by omega) ?_
          exact ⟨fun h1 => ⟨h1.1, Or.inr ⟨rfl, hp1⟩⟩, fun h1 => ⟨h1.1, Or.inl (by omega)⟩⟩
        · by_cases hp2 : p = w.lastWritten
          · subst hp2; exact absurd hB.midW hnm
          · have hp3 : w.lastWritten < p := by omega
            refine iff_fresh hR' ?_ ?_
            · rintro ⟨_, h2⟩
              unfold Wr at h2; omega
            · rw [hB.cov_tail hp3]
              exact ⟨fun h1 => ⟨by omega, Or.inl (by omega)⟩, fun h1 => ⟨rfl, by omega, by omega⟩⟩
      · have hn : ¬ Cov h done c p := hB.cov_gt (by omega)
        refine iff_unchanged hR' (by omega) ?_
        exact ⟨fun h1 => absurd h1.1 hn, fun h1 => absurd h1.1 hn⟩
  · intro m hm
    have := hB.sorted m hm
    show m.1 < w.currChrom + 1
    omega

/-! ### `fillTo` -/

theorem fillTo_spec (chrom : Nat) (hchrom : chrom ≤ ref.length) :
    ∀ (fuel : Nat) (w : AlnWriter), Base ref h ma done w → (ModeA h done w ∨ ModeB ref h done w) →
      w.currChrom ≤ chrom → chrom - w.currChrom < fuel →
      Base ref h ma done (AlnWriter.fillTo ref h fuel w chrom) ∧
      (AlnWriter.fillTo ref h fuel w chrom).currChrom = chrom ∧
      ((w.currChrom < chrom ∧ ModeA h done (AlnWriter.fillTo ref h fuel w chrom)) ∨
        (w.currChrom = chrom ∧ AlnWriter.fillTo ref h fuel w chrom = w)) := by
  intro fuel
  induction fuel with
  | zero => intro w _ _ _ hf; omega
  | succ fuel ih =>
    intro w hb hmode hle hf
    unfold AlnWriter.fillTo
    by_cases hgt : chrom > w.currChrom
    · rw [if_pos hgt]
      have hstep : Base ref h ma done (AlnWriter.fillContig ref h w) ∧
          ModeA h done (AlnWriter.fillContig ref h w) ∧
          (AlnWriter.fillContig ref h w).currChrom = w.currChrom + 1 := by
        rcases hmode with hA | hB
        · exact fillContig_A hb hA (by omega)
        · exact fillContig_B hb hB
      obtain ⟨hb', hA', hcc'⟩ := hstep
      obtain ⟨r1, r2, r3⟩ := ih _ hb' (Or.inl hA') (by omega) (by omega)
      refine ⟨r1, r2, Or.inl ⟨hgt, ?_⟩⟩
      rcases r3 with ⟨_, r3⟩ | ⟨_, r3⟩
      · exact r3
      · rw [r3]; exact hA'
    · rw [if_neg hgt]
      exact ⟨hb, by omega, Or.inr ⟨by omega, rfl⟩⟩

/-! ### `writeSplitKmer` -/

/-- the part of `writeSplitKmer` after `fillTo` -/
def core (ref : List (Array UInt8)) (h : Nat) (ma : Bool) (w : AlnWriter) (pos : Nat)
    (base : UInt8) : AlnWriter :=
  let w := { w with middleOut := w.middleOut ++
    [(if isAmbiguous base && ma then 78 else base, pos + w.chromOffset)] }
  if pos < w.nextPos then { w with lastMapped := pos }
  else
    let w := if pos > w.nextPos then AlnWriter.fillFwdBases ref h w (pos - h) else w
    { w with seqOut := AlnWriter.copyRef w.seqOut (ref.getD w.currChrom #[]) w.chromOffset (pos - h) pos
             nextPos := pos + h + 1, lastMapped := pos, lastWritten := pos }

theorem wsk_eq (ref : List (Array UInt8)) (h : Nat) (ma : Bool) (w : AlnWriter)
    (pos chrom : Nat) (base : UInt8) :
    AlnWriter.writeSplitKmer ref h ma w pos chrom base =
      core ref h ma (AlnWriter.fillTo ref h (chrom + 1) w chrom) pos base := rfl

theorem fillFwd_mid (ref : List (Array UInt8)) (h : Nat) (w : AlnWriter) (M : Nat)
    (x : List (UInt8 × Nat)) :
    AlnWriter.fillFwdBases ref h { w with middleOut := x } M =
      { AlnWriter.fillFwdBases ref h w M with middleOut := x } := by
  unfold AlnWriter.fillFwdBases
  split
  · simp only []
    split <;> rfl
  · rfl

theorem core_skip_eq (ref : List (Array UInt8)) (h : Nat) (ma : Bool) (w : AlnWriter) (pos : Nat)
    (base : UInt8) (hlt : pos < w.nextPos) :
    core ref h ma w pos base =
      { w with lastMapped := pos, middleOut := w.middleOut ++
          [(if isAmbiguous base && ma then 78 else base, pos + w.chromOffset)] } := by
  unfold core
  simp only []
  rw [if_pos hlt]

theorem core_write_eq (ref : List (Array UInt8)) (h : Nat) (ma : Bool) (w : AlnWriter) (pos : Nat)
    (base : UInt8) (hn : ¬ pos < w.nextPos) :
    core ref h ma w pos base =
      { nextPos := pos + h + 1, currChrom := w.currChrom, lastMapped := pos, lastWritten := pos,
        chromOffset := w.chromOffset,
        seqOut := AlnWriter.copyRef
          (if pos > w.nextPos then (AlnWriter.fillFwdBases ref h w (pos - h)).seqOut else w.seqOut)
          (ref.getD w.currChrom #[]) w.chromOffset (pos - h) pos,
        middleOut := w.middleOut ++
          [(if isAmbiguous base && ma then 78 else base, pos + w.chromOffset)] } := by
  unfold core
  simp only []
  rw [if_neg hn]
  by_cases hgt : pos > w.nextPos
  · rw [if_pos hgt, if_pos hgt, fillFwd_mid, fillFwd_eta]
  · rw [if_neg hgt, if_neg hgt]

theorem mid_append (hb : Base ref h ma done w) (m : Match) (hcc : w.currChrom = m.1) :
    w.middleOut ++ [(if isAmbiguous m.2.2 && ma then 78 else m.2.2, m.2.1 + w.chromOffset)] =
      (done ++ [m]).map (midEntry ref ma) := by
  rw [List.map_append, hb.mid, hb.off, hcc]
  rfl

theorem core_A (hb : Base ref h ma done w) (hA : ModeA h done w) (m : Match)
    (hcc : w.currChrom = m.1) (hm : Bnd ref h m) (h1 : 1 ≤ h) :
    Base ref h ma (done ++ [m]) (core ref h ma w m.2.1 m.2.2) ∧
    ModeB ref h (done ++ [m]) (core ref h ma w m.2.1 m.2.2) := by
  obtain ⟨hm1, hm2, hm3⟩ := hm
  rw [← hcc] at hm1 hm3
  have hX : (if m.2.1 > w.nextPos then (AlnWriter.fillFwdBases ref h w (m.2.1 - h)).seqOut
      else w.seqOut) = w.seqOut := by
    split
    · rw [fillFwd_idle _ _ _ _ hA.1]
    · rfl
  rw [core_write_eq _ _ _ _ _ _ (by rw [hA.2.1]; omega), hX, hb.off]
  have hmem : m ∈ done ++ [m] := List.mem_append_right _ (List.mem_singleton.2 rfl)
  constructor
  · refine ⟨?_, rfl, ?_, hb.chromLe, ?_⟩
    · show (AlnWriter.copyRef _ _ _ _ _).size = _
      rw [copyRef_size, hb.size]
    · rw [← hb.off]; exact mid_append hb m hcc
    · obtain ⟨R, hH, hR⟩ := hb.seq
      refine ⟨_, hH.copy hb.size w.currChrom (m.2.1 - h) m.2.1 (by omega), ?_⟩
      intro c p hc hp hnm
      rw [isMid_append] at hnm
      have hR' := hR c p hc hp (fun hx => hnm (Or.inl hx))
      have hne : ¬ (m.1 = c ∧ m.2.1 = p) := fun hx => hnm (Or.inr hx)
      show (R c p ∨ (c = w.currChrom ∧ m.2.1 - h ≤ p ∧ p < m.2.1)) ↔
        (Cov h (done ++ [m]) c p ∧ Wr w.currChrom m.2.1 c p)
      rw [cov_append]
      by_cases hc1 : c < w.currChrom
      · refine iff_unchanged hR' (by omega) ?_
        constructor
        · rintro ⟨hx | hx, _⟩
          · exact ⟨hx, Or.inl hc1⟩
          · omega
        · rintro ⟨hx, _⟩
          exact ⟨Or.inl hx, Or.inl hc1⟩
      · have hn : ¬ Cov h done c p := cov_none hA.2.2 (by omega)
        by_cases hc2 : c = w.currChrom
        · subst hc2
          refine iff_fresh hR' (fun hx => hn hx.1) ?_
          unfold Wr
          constructor
          · rintro ⟨_, h2, h3⟩
            exact ⟨Or.inr ⟨hcc.symm, by omega, by omega⟩, Or.inr ⟨rfl, h3⟩⟩
          · rintro ⟨hx | hx, hy⟩
            · exact absurd hx hn
            · omega
        · refine iff_unchanged hR' (by omega) ?_
          constructor
          · rintro ⟨hx | hx, _⟩
            · exact absurd hx hn
            · omega
          · rintro ⟨hx, _⟩
            exact absurd hx hn
  · refine ⟨hm1, ⟨m, hmem, hcc.symm, rfl⟩, rfl, ?_, Nat.le_refl _, ?_, ?_, ?_, hm3⟩
    · show 0 < m.2.1
      omega
    · show m.2.1 ≤ m.2.1 + h
      omega
    · exact ⟨m, hmem, hcc.symm, rfl⟩
    · intro x hx
      rcases List.mem_append.1 hx with hx | hx
      · exact Or.inl (hA.2.2 x hx)
      · rw [List.mem_singleton] at hx; subst hx
        exact Or.inr ⟨hcc.symm, Nat.le_refl _⟩

theorem core_B (hb : Base ref h ma done w) (hB : ModeB ref h done w) (m : Match)
    (hcc : w.currChrom = m.1) (hm : Bnd ref h m) (hlt : w.lastMapped < m.2.1) :
    Base ref h ma (done ++ [m]) (core ref h ma w m.2.1 m.2.2) ∧
    ModeB ref h (done ++ [m]) (core ref h ma w m.2.1 m.2.2) := by
  obtain ⟨hm1, hm2, hm3⟩ := hm
  rw [← hcc] at hm1 hm3
  have hmem : m ∈ done ++ [m] := List.mem_append_right _ (List.mem_singleton.2 rfl)
  have hmidW : IsMid (done ++ [m]) w.currChrom w.lastWritten := by
    rw [isMid_append]; exact Or.inl hB.midW
  have hle1 := hB.le1
  have hle2 := hB.le2
  have hnext := hB.next
  have hwpos := hB.wpos
  obtain ⟨R, hH, hR⟩ := hb.seq
  by_cases hskip : m.2.1 < w.nextPos
  · -- skip: only `lastMapped` and `middleOut` change
    rw [core_skip_eq _ _ _ _ _ _ hskip]
    constructor
    · refine ⟨hb.size, hb.off, mid_append hb m hcc, hb.chromLe, R, hH, ?_⟩
      intro c p hc hp hnm
      rw [isMid_append] at hnm
      rw [hR c p hc hp (fun hx => hnm (Or.inl hx))]
      show (Cov h done c p ∧ Wr w.currChrom w.lastWritten c p) ↔
        (Cov h (done ++ [m]) c p ∧ Wr w.currChrom w.lastWritten c p)
      rw [cov_append]
      constructor
      · rintro ⟨hx, hy⟩; exact ⟨Or.inl hx, hy⟩
      · rintro ⟨hx | hx, hy⟩
        · exact ⟨hx, hy⟩
        · refine ⟨?_, hy⟩
          obtain ⟨mi, hmi, hmi1, hmi2⟩ := hB.lastIn
          unfold Wr at hy
          exact ⟨mi, hmi, by omega, by omega, by omega⟩
    · refine ⟨hB.chromLt, ⟨m, hmem, hcc.symm, rfl⟩, hB.next, hB.wpos, ?_, ?_, hmidW, ?_, hm3⟩
      · show w.lastWritten ≤ m.2.1
        omega
      · show m.2.1 ≤ w.lastWritten + h
        omega
      · intro x hx
        show x.1 < w.currChrom ∨ (x.1 = w.currChrom ∧ x.2.1 ≤ m.2.1)
        rcases List.mem_append.1 hx with hx | hx
        · have := hB.sorted x hx; omega
        · rw [List.mem_singleton] at hx; subst hx
          exact Or.inr ⟨hcc.symm, Nat.le_refl _⟩
  · -- write
    have hX : (if m.2.1 > w.nextPos then (AlnWriter.fillFwdBases ref h w (m.2.1 - h)).seqOut
        else w.seqOut) =
        AlnWriter.copyRef w.seqOut (ref.getD w.currChrom #[]) w.chromOffset (w.lastWritten + 1)
          (min (w.lastMapped + h + 1) (m.2.1 - h)) := by
      split
      · exact fillFwd_seq ref h w _ hwpos (by omega)
      · rw [copyRef_empty]; omega
    rw [core_write_eq _ _ _ _ _ _ hskip, hX, hb.off]
    constructor
    · refine ⟨?_, rfl, ?_, hb.chromLe, ?_⟩
      · show (AlnWriter.copyRef _ _ _ _ _).size = _
        rw [copyRef_size, copyRef_size, hb.size]
      · rw [← hb.off]; exact mid_append hb m hcc
      · have hH1 := hH.copy hb.size w.currChrom (w.lastWritten + 1)
          (min (w.lastMapped + h + 1) (m.2.1 - h)) (by omega)
        have hH2 := hH1.copy (by rw [copyRef_size, hb.size]) w.currChrom (m.2.1 - h) m.2.1
          (by omega)
        refine ⟨_, hH2, ?_⟩
        intro c p hc hp hnm
        rw [isMid_append] at hnm
        have hR' := hR c p hc hp (fun hx => hnm (Or.inl hx))
        have hne : ¬ (m.1 = c ∧ m.2.1 = p) := fun hx => hnm (Or.inr hx)
        show ((R c p ∨ (c = w.currChrom ∧ w.lastWritten + 1 ≤ p ∧
              p < min (w.lastMapped + h + 1) (m.2.1 - h))) ∨
            (c = w.currChrom ∧ m.2.1 - h ≤ p ∧ p < m.2.1)) ↔
          (Cov h (done ++ [m]) c p ∧ Wr w.currChrom m.2.1 c p)
        rw [cov_append, or_assoc]
        by_cases hc1 : c < w.currChrom
        · refine iff_unchanged hR' (by omega) ?_
          constructor
          · rintro ⟨hx | hx, _⟩
            · exact ⟨hx, Or.inl hc1⟩
            · omega
          · rintro ⟨hx, _⟩
            exact ⟨Or.inl hx, Or.inl hc1⟩
        · by_cases hc2 : c = w.currChrom
          · subst hc2
            by_cases hp1 : p < w.lastWritten
            · refine iff_unchanged hR' (by omega) ?_
              constructor
              · rintro ⟨hx | hx, _⟩
                · exact ⟨hx, Or.inr ⟨rfl, hp1⟩⟩
                · omega
              · rintro ⟨hx, _⟩
                exact ⟨Or.inl hx, Or.inr ⟨rfl, by omega⟩⟩
            · by_cases hp2 : p = w.lastWritten
              · subst hp2; exact absurd hB.midW (fun hx => hnm (Or.inl hx))
              · have hp3 : w.lastWritten < p := by omega
                refine iff_fresh hR' ?_ ?_
                · rintro ⟨_, h2⟩
                  unfold Wr at h2; omega
                · rw [hB.cov_tail hp3]
                  unfold Wr
                  omega
          · have hn : ¬ Cov h done c p := hB.cov_gt (by omega)
            refine iff_unchanged hR' (by omega) ?_
            constructor
            · rintro ⟨hx | hx, _⟩
              · exact absurd hx hn
              · omega
            · rintro ⟨hx, _⟩
              exact absurd hx hn
    · refine ⟨hm1, ⟨m, hmem, hcc.symm, rfl⟩, rfl, ?_, Nat.le_refl _, ?_, ?_, ?_, hm3⟩
      · show 0 < m.2.1
        omega
      · show m.2.1 ≤ m.2.1 + h
        omega
      · exact ⟨m, hmem, hcc.symm, rfl⟩
      · intro x hx
        show x.1 < w.currChrom ∨ (x.1 = w.currChrom ∧ x.2.1 ≤ m.2.1)
        rcases List.mem_append.1 hx with hx | hx
        · have := hB.sorted x hx; omega
        · rw [List.mem_singleton] at hx; subst hx
          exact Or.inr ⟨hcc.symm, Nat.le_refl _⟩

/-- one `writeSplitKmer` step, from a state between two calls -/
theorem step (hb : Base ref h ma done w)
    (hmode : ModeB ref h done w ∨ (ModeA h done w ∧ w.currChrom = 0))
    (m : Match) (hm : Bnd ref h m) (hlt : ∀ m' ∈ done, MLt m' m) (h1 : 1 ≤ h) :
    Base ref h ma (done ++ [m]) (AlnWriter.writeSplitKmer ref h ma w m.2.1 m.1 m.2.2) ∧
    ModeB ref h (done ++ [m]) (AlnWriter.writeSplitKmer ref h ma w m.2.1 m.1 m.2.2) := by
  rw [wsk_eq]
  have hle : w.currChrom ≤ m.1 := by
    rcases hmode with hB | ⟨_, h0⟩
    · obtain ⟨mi, hmi, hmi1, _⟩ := hB.lastIn
      have := hlt mi hmi
      unfold MLt at this; omega
    · omega
  have hmode' : ModeA h done w ∨ ModeB ref h done w := by
    rcases hmode with hB | ⟨hA, _⟩
    · exact Or.inr hB
    · exact Or.inl hA
  obtain ⟨r1, r2, r3⟩ := fillTo_spec (ma := ma) m.1 (Nat.le_of_lt hm.1) (m.1 + 1) w hb hmode' hle
    (by omega)
  rcases r3 with ⟨_, hA⟩ | ⟨heq, hw⟩
  · exact core_A r1 hA m r2 hm h1
  · rw [hw]
    rcases hmode with hB | ⟨hA, _⟩
    · refine core_B hb hB m heq hm ?_
      obtain ⟨mi, hmi, hmi1, hmi2⟩ := hB.lastIn
      have := hlt mi hmi
      unfold MLt at this; omega
    · exact core_A hb hA m heq hm h1

end SkaModel.AW
