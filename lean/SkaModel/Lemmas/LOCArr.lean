/-
C17 completeness — an array holding the rows of the table of a family (in any order): its keys are
distinct, below `4^(k-1)` and canonical; the rows and the sample sets of their bases in terms of the
`k`-mers of the samples.
-/
import SkaModel.Lemmas.LOCTab
import SkaModel.Lemmas.LOCFold

namespace SkaModel.LOC

open SkaModel SkaModel.Spec SkaModel.Props.C16 SkaModel.Skalo SkaModel.SNP SkaModel.LOG

/-- a family of samples of length `L` over A, C, G, T -/
structure SFam (L : Nat) (S : List (List UInt8)) : Prop where
  len : ∀ s ∈ S, s.length = L
  base : ∀ s ∈ S, AllBase s

/-- the array `a` holds the rows of the table of the joint build of `S`, in any order -/
structure IsArrOf (a : Arr) (k : Nat) (names : List String) (S : List (List UInt8)) : Prop where
  hk : a.k = k
  len : a.kmers.length = a.variants.length
  perm : (a.kmers.zip a.variants).Perm (tableOf k names S).rows

/-- the samples as records -/
def Sa (S : List (List UInt8)) : List (Array UInt8) := S.map List.toArray

theorem family_Sa {L : Nat} {S : List (List UInt8)} (h : SFam L S) : Family L (Sa S) := by
  constructor
  · intro s' hs'
    obtain ⟨s, hs, rfl⟩ := List.mem_map.mp hs'
    simpa using h.len s hs
  · intro s' hs' p hp
    obtain ⟨s, hs, rfl⟩ := List.mem_map.mp hs'
    rw [toArray_getD]
    exact h.base s hs _ (getD_mem' (by rw [h.len s hs]; exact hp))

theorem tableOf_rows (k : Nat) (names : List String) (S : List (List UInt8)) :
    (tableOf k names S).rows = (keysOf k true (Sa S)).map (fun key => (key, rowOf k true (Sa S) key)) := by
  unfold tableOf
  rw [← specTable_rows k true names (Sa S)]
  unfold Sa
  rw [List.map_map]
  rfl

theorem zip_fst_snd {α β : Type} (l : List (α × β)) : (l.map (·.1)).zip (l.map (·.2)) = l := by
  induction l with
  | nil => rfl
  | cons x xs ih => simp [ih]

/-- the array with the rows in table order -/
theorem isArrOf_arrOf (W k : Nat) (names : List String) (S : List (List UInt8)) :
    IsArrOf (arrOf W k names S) k names S :=
  ⟨rfl, by simp [arrOf, arrOfRows], by
    have : (arrOf W k names S).kmers.zip (arrOf W k names S).variants = (tableOf k names S).rows := zip_fst_snd _
    rw [this]⟩

section
variable {a : Arr} {k L : Nat} {names : List String} {S : List (List UInt8)}

theorem IsArrOf.mem_rows (ha : IsArrOf a k names S) (kv : Nat × List UInt8) :
    kv ∈ a.kmers.zip a.variants ↔ ∃ key ∈ keysOf k true (Sa S), kv = (key, rowOf k true (Sa S) key) := by
  rw [ha.perm.mem_iff, tableOf_rows, List.mem_map]
  constructor
  · rintro ⟨key, hk, e⟩; exact ⟨key, hk, e.symm⟩
  · rintro ⟨key, hk, e⟩; exact ⟨key, hk, e.symm⟩

theorem IsArrOf.kmers_perm (ha : IsArrOf a k names S) : a.kmers.Perm (keysOf k true (Sa S)) := by
  have h1 : (a.kmers.zip a.variants).map (·.1) = a.kmers := List.map_fst_zip (by rw [ha.len]; exact Nat.le_refl _)
  rw [← h1]
  have := ha.perm.map (·.1)
  rw [tableOf_rows, List.map_map] at this
  have e : (keysOf k true (Sa S)).map ((fun x => x.1) ∘ fun key => (key, rowOf k true (Sa S) key)) =
      keysOf k true (Sa S) := by
    rw [show ((fun (x : Nat × List UInt8) => x.1) ∘ fun key => (key, rowOf k true (Sa S) key)) = id from rfl]
    exact List.map_id _
  rw [e] at this
  exact this

theorem IsArrOf.nodup (ha : IsArrOf a k names S) : a.kmers.Nodup :=
  (ha.kmers_perm.nodup_iff).mpr (keysOf_nodup _ _ _)

theorem IsArrOf.mem_keys (ha : IsArrOf a k names S) (h : SFam L S) (key : Nat) :
    key ∈ a.kmers ↔ ∃ s ∈ S, ∃ j, j + k ≤ L ∧ (obs k true s.toArray j).1 = key := by
  rw [ha.kmers_perm.mem_iff, mem_keysOf (family_Sa h)]
  constructor
  · rintro ⟨s', hs', j, hj, e⟩
    obtain ⟨s, hs, rfl⟩ := List.mem_map.mp hs'
    exact ⟨s, hs, j, hj, e⟩
  · rintro ⟨s, hs, j, hj, e⟩
    exact ⟨s.toArray, List.mem_map.mpr ⟨s, hs, rfl⟩, j, hj, e⟩

theorem IsArrOf.hkeys (ha : IsArrOf a k names S) (h : SFam L S) (hk : k = 2 * halfK k + 1) :
    ∀ key ∈ a.kmers, key < 4 ^ (k - 1) := by
  intro key hkey
  obtain ⟨s, hs, j, hj, rfl⟩ := (ha.mem_keys h key).mp hkey
  obtain ⟨u, c, l, _, hu, hl, hcu, hcl, _, hkey', _⟩ := obs_canon (s := s) (j := j) (by rw [h.len s hs]; exact hj) hk
  rw [hkey']
  have := packL_lt (Codes.append hcu hcl)
  rw [List.length_append, hu, hl] at this
  have e : k - 1 = halfK k + halfK k := by omega
  rw [e]
  exact this

theorem IsArrOf.hcanon (ha : IsArrOf a k names S) (h : SFam L S) (hk : k = 2 * halfK k + 1) :
    ∀ key ∈ a.kmers, key ≤ LORL.rcKey k key := by
  intro key hkey
  obtain ⟨s, hs, j, hj, rfl⟩ := (ha.mem_keys h key).mp hkey
  exact key_le_rcKey hk

/-- the cells of a row -/
theorem IsArrOf.row_cells (ha : IsArrOf a k names S) (kv : Nat × List UInt8) (hkv : kv ∈ a.kmers.zip a.variants) :
    kv.2 = S.map (fun s => cellOfObs (observations k true [s.toArray]) kv.1) := by
  obtain ⟨key, _, rfl⟩ := (ha.mem_rows kv).mp hkv
  unfold rowOf Sa
  rw [List.map_map]
  rfl

theorem IsArrOf.row_getD (ha : IsArrOf a k names S) (kv : Nat × List UInt8) (hkv : kv ∈ a.kmers.zip a.variants)
    (i : Nat) (s : List UInt8) (hs : S[i]? = some s) :
    i < kv.2.length ∧ kv.2.getD i 45 = cellOfObs (observations k true [s.toArray]) kv.1 := by
  rw [ha.row_cells kv hkv]
  have hi : i < S.length := (List.getElem?_eq_some_iff.mp hs).1
  refine ⟨by simpa using hi, ?_⟩
  rw [List.getD_eq_getElem?_getD, List.getElem?_map, hs]
  rfl

/-- the samples showing base `n` in the row with arms `u`, `l` -/
theorem IsArrOf.mem_samplesOf_row (ha : IsArrOf a k names S) (h : SFam L S) (hk : k = 2 * halfK k + 1)
    (kv : Nat × List UInt8) (hkv : kv ∈ a.kmers.zip a.variants)
    (u l : List Nat) (e : kv.1 = packL (u ++ l)) (hu : u.length = halfK k) (hl : l.length = halfK k)
    (hcu : Codes u) (hcl : Codes l) (n : UInt8) (hn4 : n ∈ ([65, 67, 71, 84] : List UInt8)) (i : Nat) :
    i ∈ samplesOf kv.2 n ↔ ∃ s, S[i]? = some s ∧ Shows k s u n l := by
  have hcan : packL (u ++ l) ≤ packL (rcCodes (u ++ l)) := by
    have := ha.hcanon h hk kv.1 (List.of_mem_zip hkv).1
    rw [e, LORL.rcKey_arms k u l hcu hcl (by rw [List.length_append, hu, hl]; omega)] at this
    rw [rcCodes_append]
    exact this
  rw [mem_samplesOf]
  constructor
  · rintro ⟨hi, h1, h2⟩
    have hlen : kv.2.length = S.length := by rw [ha.row_cells kv hkv]; simp
    have hi' : i < S.length := by omega
    have hs : S[i]? = some S[i] := List.getElem?_eq_getElem hi'
    obtain ⟨_, hc⟩ := ha.row_getD kv hkv i _ hs
    rw [hc, e] at h1 h2
    have hmem : S[i] ∈ S := List.getElem_mem hi'
    exact ⟨S[i], hs, (cell_shows (h.base _ hmem) hk u l hu hl hcu hcl hcan n hn4).mp ⟨h1, h2⟩⟩
  · rintro ⟨s, hs, hsh⟩
    obtain ⟨hi, hc⟩ := ha.row_getD kv hkv i s hs
    have hmem : s ∈ S := List.mem_of_getElem? hs
    have := (cell_shows (h.base _ hmem) hk u l hu hl hcu hcl hcan n hn4).mpr hsh
    rw [← e, ← hc] at this
    exact ⟨hi, this⟩

/-- the bases shown in the row with arms `u`, `l` -/
theorem IsArrOf.mem_shown_row (ha : IsArrOf a k names S) (h : SFam L S) (hk : k = 2 * halfK k + 1)
    (kv : Nat × List UInt8) (hkv : kv ∈ a.kmers.zip a.variants)
    (u l : List Nat) (e : kv.1 = packL (u ++ l)) (hu : u.length = halfK k) (hl : l.length = halfK k)
    (hcu : Codes u) (hcl : Codes l) (n : UInt8) :
    n ∈ shownBases kv.2 ↔ n ∈ ([65, 67, 71, 84] : List UInt8) ∧ ∃ s ∈ S, Shows k s u n l := by
  rw [mem_shownBases]
  constructor
  · rintro ⟨hn4, i, hi, h1, h2⟩
    obtain ⟨s, hs, hsh⟩ := (ha.mem_samplesOf_row h hk kv hkv u l e hu hl hcu hcl n hn4 i).mp
      ((mem_samplesOf kv.2 n i).mpr ⟨hi, h1, h2⟩)
    exact ⟨hn4, s, List.mem_of_getElem? hs, hsh⟩
  · rintro ⟨hn4, s, hs, hsh⟩
    obtain ⟨i, hi, rfl⟩ := List.getElem_of_mem hs
    have := (ha.mem_samplesOf_row h hk kv hkv u l e hu hl hcu hcl n hn4 i).mpr
      ⟨S[i], List.getElem?_eq_getElem hi, hsh⟩
    exact ⟨hn4, i, (mem_samplesOf kv.2 n i).mp this⟩

theorem decodeBase_mem4 (c : Nat) : decodeBase c ∈ ([65, 67, 71, 84] : List UInt8) := by
  unfold decodeBase
  split
  · decide
  · split
    · decide
    · split <;> decide

/-- every window of every sample is shown in a row of the table -/
theorem IsArrOf.row_of_window (ha : IsArrOf a k names S) (h : SFam L S) (hk : k = 2 * halfK k + 1)
    (s : List UInt8) (hs : s ∈ S) (j : Nat) (hj : j + k ≤ L) :
    ∃ kv ∈ a.kmers.zip a.variants, ∃ u l n,
      kv.1 = packL (u ++ l) ∧ u.length = halfK k ∧ l.length = halfK k ∧ Codes u ∧ Codes l ∧
      n ∈ shownBases kv.2 ∧ canonC k s j = u ++ [code n] ++ l := by
  have hj' : j + k ≤ s.length := by rw [h.len s hs]; exact hj
  obtain ⟨u, c, l, hc, hu, hl, hcu, hcl, hc4, hkey, _⟩ := obs_canon hj' hk
  have hmem : (obs k true s.toArray j).1 ∈ a.kmers := (ha.mem_keys h _).mpr ⟨s, hs, j, hj, rfl⟩
  rw [ha.kmers_perm.mem_iff] at hmem
  have hrow : ((obs k true s.toArray j).1, rowOf k true (Sa S) (obs k true s.toArray j).1) ∈
      a.kmers.zip a.variants := (ha.mem_rows _).mpr ⟨_, hmem, rfl⟩
  have hcode : code (decodeBase c) = c := code_decodeBase hc4
  refine ⟨_, hrow, u, l, decodeBase c, hkey, hu, hl, hcu, hcl, ?_, by rw [hcode]; exact hc⟩
  rw [ha.mem_shown_row h hk _ hrow u l hkey hu hl hcu hcl]
  refine ⟨decodeBase_mem4 c, s, hs, j, hj', ?_⟩
  rw [hcode, ← hc]
  rcases canonC_cases k s j with h1 | h1
  · exact Or.inl h1.symm
  · right; rw [h1]

end

end SkaModel.LOC
