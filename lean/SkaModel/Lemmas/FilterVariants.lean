/-
Row-level view of `Arr.updateCounts` / `Arr.filter`: what the two operations do
to the `variants` container alone (all that `distance` reads besides `names`).
-/
import SkaModel.Impl.Modes
import SkaModel.Lemmas.ZipFilter

namespace SkaModel.FV

open SkaModel SkaModel.ZipFilter

/-- rows that survive `update_counts` -/
def nonEmpty (famb : Bool) (vs : List (List UInt8)) : List (List UInt8) :=
  vs.filter (fun row => decide (Arr.cellCount famb row > 0))

/-- rows that survive `filter` (before masking) -/
def filtV (t : Nat) (famb : Bool) (ft : FilterType) (gaps : Bool) (vs : List (List UInt8)) :
    List (List UInt8) :=
  (nonEmpty famb vs).filter (fun row => decide (Arr.cellCount famb row ≥ t) && Arr.keepRow ft gaps row)

def maskV (mask : Bool) (vs : List (List UInt8)) : List (List UInt8) :=
  if mask then vs.map (fun row => row.map (fun v => if isAmbiguous v then 78 else v)) else vs

theorem updateCounts_variants (a : Arr) (famb : Bool) (h : a.variants.length ≤ a.kmers.length) :
    (a.updateCounts famb).variants = nonEmpty famb a.variants := by
  simp only [Arr.updateCounts, nonEmpty]
  exact map_fst_filter_zip (fun row => decide (Arr.cellCount famb row > 0)) a.variants a.kmers h

theorem updateCounts_counts (a : Arr) (famb : Bool) (h : a.variants.length ≤ a.kmers.length) :
    (a.updateCounts famb).counts = (nonEmpty famb a.variants).map (Arr.cellCount famb) := by
  rw [← updateCounts_variants a famb h]
  simp [Arr.updateCounts]

theorem updateCounts_kmers_length (a : Arr) (famb : Bool) :
    (a.updateCounts famb).kmers.length = (a.updateCounts famb).variants.length := by
  simp [Arr.updateCounts]

theorem updateCounts_names (a : Arr) (famb : Bool) : (a.updateCounts famb).names = a.names := rfl

theorem filter_names (a : Arr) (t : Nat) (famb : Bool) (ft : FilterType) (mask gaps upd : Bool) :
    (a.filter t famb ft mask gaps upd).1.names = a.names := rfl

/-- the rows `filter` keeps, as triples -/
private theorem kept_variants (f : List UInt8 → Nat) (C : List Nat) (V : List (List UInt8)) (K : List Nat)
    (hC : C = V.map f) (hK : K.length = V.length) (P : Nat → List UInt8 → Bool) :
    ((((C.zip V).zip K).filter (fun crk => P crk.1.1 crk.1.2)).map (·.1.2))
      = V.filter (fun row => P (f row) row) := by
  subst hC
  induction V generalizing K with
  | nil => simp
  | cons v V ih =>
    cases K with
    | nil => simp at hK
    | cons k K =>
      have := ih K (by simpa using hK)
      cases hp : P (f v) v <;> simp [hp, this]

theorem maskV_length (mask : Bool) (vs : List (List UInt8)) : (maskV mask vs).length = vs.length := by
  cases mask <;> simp [maskV]

/-- what `filter … update_kmers=false` does to `variants`, the removed-row count, and the
(weakened) shape invariant that lets the next filter be analysed the same way -/
theorem filter_variants (a : Arr) (t : Nat) (famb : Bool) (ft : FilterType) (mask gaps : Bool)
    (h : a.variants.length ≤ a.kmers.length) :
    (a.filter t famb ft mask gaps false).1.variants = maskV mask (filtV t famb ft gaps a.variants)
    ∧ (a.filter t famb ft mask gaps false).2
        = (nonEmpty famb a.variants).length - (filtV t famb ft gaps a.variants).length
    ∧ (a.filter t famb ft mask gaps false).1.variants.length
        ≤ (a.filter t famb ft mask gaps false).1.kmers.length := by
  have hV := updateCounts_variants a famb h
  have hC := updateCounts_counts a famb h
  have hK := updateCounts_kmers_length a famb
  rw [hV] at hK
  have key := kept_variants (Arr.cellCount famb) (a.updateCounts famb).counts (nonEmpty famb a.variants)
    (a.updateCounts famb).kmers hC hK (fun c row => decide (c ≥ t) && Arr.keepRow ft gaps row)
  have hzl : (((a.updateCounts famb).counts.zip (nonEmpty famb a.variants)).zip
      (a.updateCounts famb).kmers).length = (nonEmpty famb a.variants).length := by
    simp [List.length_zip, hC, hK]
  have hkl := congrArg List.length key
  rw [List.length_map] at hkl
  refine ⟨?_, ?_, ?_⟩
  · simp only [Arr.filter, hV, maskV, filtV]
    rw [key]
  · simp only [Arr.filter, hV, filtV]
    rw [hzl, hkl]
  · simp only [Arr.filter, hV]
    rw [key]
    have := List.length_filter_le (fun row => decide (Arr.cellCount famb row ≥ t) && Arr.keepRow ft gaps row)
      (nonEmpty famb a.variants)
    simp only [Bool.false_eq_true, if_false, hK]
    split
    · simpa using this
    · exact this

end SkaModel.FV
