/-
C18 completeness — definitions: families of samples that differ from a common ancestor by planted
insertions (a deletion carried by some samples is an insertion carried by the others), the expected
indel records, and the executable checkers of the claim (`SkaModel/Props/C18Complete.lean`).
-/
import SkaModel.Lemmas.LOCDefs

namespace SkaModel.LOE

open SkaModel SkaModel.Skalo SkaModel.Spec SkaModel.LOC

/-- the sample with the carrier flags `c`: the ancestor from `off` on, with the insert of every indel
`(p, ins)` of `D` (positions in the ancestor, increasing) put before the ancestor's letter `p` when its
flag is set -/
def build {α : Type} (A : List α) : Nat → List (Nat × List α) → List Bool → List α
  | off, [], _ => A.drop off
  | off, d :: D, c =>
    (A.drop off).take (d.1 - off) ++ (if c.headD false then d.2 else []) ++ build A d.1 D c.tail

/-- the sample with the carrier flags `c` -/
def sampleOf (A : List UInt8) (D : List (Nat × List UInt8)) (c : List Bool) : List UInt8 := build A 0 D c

/-- the samples of a carrier matrix (one row of flags per sample) -/
def samplesOf (A : List UInt8) (D : List (Nat × List UInt8)) (C : List (List Bool)) : List (List UInt8) :=
  C.map (sampleOf A D)

/-- the columns (positions in the sequence with all inserts) of the letters of the sample with flags `c` -/
def colsOf (A : List UInt8) (D : List (Nat × List UInt8)) (c : List Bool) : List Nat :=
  -- column of the ancestor's letter `a`: `a` + the lengths of the inserts at positions `≤ a`
  let colA := fun (a : Nat) => a + ((D.filter (fun d => d.1 ≤ a)).map (·.2.length)).sum
  let colI := fun (d : Nat × List UInt8) => (List.range d.2.length).map (fun i =>
    d.1 + ((D.filter (fun e => e.1 < d.1)).map (·.2.length)).sum + i)
  build ((List.range A.length).map colA) 0 (D.map (fun d => (d.1, colI d))) c

/-- length of the longest common prefix -/
def lcp : List UInt8 → List UInt8 → Nat
  | x :: xs, y :: ys => if x == y then lcp xs ys + 1 else 0
  | _, _ => 0

/-- for one indel `(p, ins)` of the ancestor `A`: the leftmost and the rightmost position at which an insert
of the same length yields the same sequence (`pL ≤ p ≤ pR`; `pR - pL` is the shift ambiguity) -/
def placements (A : List UInt8) (d : Nat × List UInt8) : Nat × Nat :=
  let s1 := A.take d.1 ++ d.2 ++ A.drop d.1
  (A.length - lcp A.reverse s1.reverse, lcp A s1)

/-- the shift ambiguity of an indel -/
def shiftOf (A : List UInt8) (d : Nat × List UInt8) : Nat := (placements A d).2 - (placements A d).1

/-- `(before, insert, after)` of the record of the bubble of the samples' strand: the `(k-1)`-mer that
ends at the rightmost placement, the insert there, the letters from there to the end of the `(k-1)`-mer
that starts at the leftmost placement -/
def expFw (k : Nat) (A : List UInt8) (d : Nat × List UInt8) : List UInt8 × List UInt8 × List UInt8 :=
  let (pL, pR) := placements A d
  let s1 := A.take d.1 ++ d.2 ++ A.drop d.1
  (win A (pR - (k - 1)) (k - 1), win s1 pR d.2.length, win A pR (pL + (k - 1) - pR))

/-- the same for the bubble of the other strand -/
def expRv (k : Nat) (A : List UInt8) (d : Nat × List UInt8) : List UInt8 × List UInt8 × List UInt8 :=
  let (pL, pR) := placements A d
  let s1 := A.take d.1 ++ d.2 ++ A.drop d.1
  (rcSeq (win A pL (k - 1)), rcSeq (win s1 pL d.2.length), rcSeq (win A (pR - (k - 1)) (pL + (k - 1) - pR)))

/-- number of set flags of indel number `t` -/
def carriers (C : List (List Bool)) (t : Nat) : Nat := (C.filter (fun c => c.getD t false)).length

/-- the expected record of indel number `t` given `(before, insert, after)`: REF is `-` unless the carriers
are the majority -/
def expRec (C : List (List Bool)) (t : Nat) (e : List UInt8 × List UInt8 × List UInt8) : IndelRec :=
  let insRef := decide (C.length - carriers C t < carriers C t)
  { ref := if insRef then e.2.1 else [45], alt := if insRef then [45] else e.2.1,
    before := e.1, after := e.2.2,
    calls := C.map (fun c => if c.getD t false == insRef then "0" else "1") }

/-- does `w` occur in `s`? -/
def occursIn (w s : List UInt8) : Bool := (List.range (s.length + 1 - w.length)).any (fun j => win s j w.length == w)

/-- an allele string of a record (`-` is the empty insert) -/
def alleleSeq (r : IndelRec) (x : List UInt8) : List UInt8 := r.before ++ (if x == [45] then [] else x) ++ r.after

/-- a record is sound for the samples `S`: its REF sequence (or the reverse complement) occurs exactly in
the samples genotyped `0`, its ALT sequence exactly in those genotyped `1`, and these are all samples -/
def recSoundB (S : List (List UInt8)) (r : IndelRec) : Bool :=
  let rs := alleleSeq r r.ref
  let as := alleleSeq r r.alt
  decide (r.calls.length = S.length) &&
  (S.zip r.calls).all (fun sc =>
    let hasR := occursIn rs sc.1 || occursIn (rcSeq rs) sc.1
    let hasA := occursIn as sc.1 || occursIn (rcSeq as) sc.1
    (sc.2 == "0" && hasR && !hasA) || (sc.2 == "1" && hasA && !hasR))

/-- a family -/
structure IFam where
  k : Nat
  A : List UInt8
  D : List (Nat × List UInt8)
  C : List (List Bool)
  deriving Repr, Inhabited, BEq

def IFam.S (f : IFam) : List (List UInt8) := samplesOf f.A f.D f.C
def IFam.names (f : IFam) : List String := (List.range f.C.length).map (fun i => s!"s{i}")
def IFam.arr (W : Nat) (f : IFam) : Arr := arrOf W f.k f.names f.S

/-- the `m`-mers of the samples are unique on both strands, occurrence-wise: two equal windows (of the same
or of two samples) consist of the same columns of the alignment, and no window is the reverse complement
of a window -/
def alignedB (m : Nat) (A : List UInt8) (D : List (Nat × List UInt8)) (C : List (List Bool)) : Bool :=
  let ws := C.flatMap (fun c =>
    let s := sampleOf A D c
    let cs := colsOf A D c
    (List.range (s.length + 1 - m)).map (fun j => (win s j m, (cs.drop j).take m)))
  ws.all (fun a => ws.all (fun b => (a.1 != b.1 || a.2 == b.2) && a.1 != rcSeq b.1))

/-- the indels moved to their leftmost (`right = false`) or rightmost placement: the samples are the same -/
def normD (right : Bool) (A : List UInt8) (D : List (Nat × List UInt8)) : List (Nat × List UInt8) :=
  D.map (fun d =>
    let s1 := A.take d.1 ++ d.2 ++ A.drop d.1
    let q := if right then (placements A d).2 else (placements A d).1
    (q, win s1 q d.2.length))

/-- occurrence-wise uniqueness that tolerates shift-ambiguous indels: two equal windows consist of the same
columns in the alignment with all inserts leftmost or in the one with all inserts rightmost -/
def alignedLRB (m : Nat) (A : List UInt8) (D : List (Nat × List UInt8)) (C : List (List Bool)) : Bool :=
  let DL := normD false A D
  let DR := normD true A D
  let ws := C.flatMap (fun c =>
    let s := sampleOf A D c
    let cl := colsOf A DL c
    let cr := colsOf A DR c
    (List.range (s.length + 1 - m)).map (fun j => (win s j m, (cl.drop j).take m, (cr.drop j).take m)))
  ws.all (fun a => ws.all (fun b => (a.1 != b.1 || a.2.1 == b.2.1 || a.2.2 == b.2.2) && a.1 != rcSeq b.1))

/-- the weak form: the `m`-mers of every single sample are unique on both strands, and no window of a
sample is the reverse complement of a window of another -/
def weakUniqueB (m : Nat) (S : List (List UInt8)) : Bool :=
  S.all (fun s => uniqueB m [s]) &&
  (windowsOf m S).all (fun a => (windowsOf m S).all (fun b => a.2 != rcSeq b.2))

/-- the basic hypotheses (everything except uniqueness): `k` odd, `5 ≤ k`; letters A/C/G/T; at least two
samples; one flag per indel and sample; every indel is carried by a sample and not by all; the inserts have
`1 .. k-1` letters; the positions are increasing, `4k` apart and `4k` from both ends -/
def basicB (f : IFam) : Bool :=
  decide (5 ≤ f.k) && decide (f.k % 2 = 1) && f.A.all isBase && decide (2 ≤ f.C.length) &&
  f.C.all (fun c => decide (c.length = f.D.length)) &&
  (List.range f.D.length).all (fun t => decide (0 < carriers f.C t) && decide (carriers f.C t < f.C.length)) &&
  f.D.all (fun d => decide (0 < d.2.length) && decide (d.2.length < f.k) && d.2.all isBase &&
    decide (4 * f.k ≤ d.1) && decide (d.1 + 4 * f.k ≤ f.A.length)) &&
  f.D.Pairwise (fun d e => d.1 + 4 * f.k ≤ e.1)

/-- the records of the pipeline are exactly one per planted indel: that of the samples' strand or that of
the other strand (as lists up to order) -/
def recsMatchB (f : IFam) (recs : List IndelRec) : Bool :=
  decide (recs.length = f.D.length) &&
  (f.D.zipIdx).all (fun dt =>
    (recs.filter (fun r => r == expRec f.C dt.2 (expFw f.k f.A dt.1) || r == expRec f.C dt.2 (expRv f.k f.A dt.1))).length == 1)

/-- the claim on one family and one setting -/
def indelCompleteOn (W : Nat) (f : IFam) (mNum mDen ik maxDepth : Nat) : Bool :=
  match lo W f.k f.C.length mNum mDen ik maxDepth (f.arr W) with
  | some ([], recs) => recsMatchB f recs
  | _ => false

end SkaModel.LOE
