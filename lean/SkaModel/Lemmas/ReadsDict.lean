/-
Helper lemmas for `Props/C12Spec.lean` (namespace `SkaModel.RDS`): `maskOf` depends only on
the set of observations; a dictionary satisfying `DictInv` is, once sorted, the specification's
list; `addObs` is `stepO` of the C01 development.
-/
import SkaModel.Lemmas.DictFold
import SkaModel.Lemmas.KFDict

namespace SkaModel.RDS

open SkaModel SkaModel.Spec SkaModel.KF

/-! ### `maskOf` depends only on the set of observations -/

theorem testBit_maskOf (l : List (Nat × Nat)) (key i : Nat) :
    (maskOf l key).testBit i = l.any (fun x => x.1 == key && x.2.testBit i) := by
  induction l with
  | nil => simp [maskOf_nil]
  | cons x xs ih =>
    rw [maskOf_cons, List.any_cons]
    by_cases h : x.1 = key
    · have hb : (x.1 == key) = true := by simpa using h
      rw [if_pos h, Nat.testBit_or, ih, hb, Bool.true_and]
    · have hb : (x.1 == key) = false := by simpa using h
      rw [if_neg h, ih, hb, Bool.false_and, Bool.false_or]

theorem maskOf_congr_mem {a b : List (Nat × Nat)} (h : ∀ x, x ∈ a ↔ x ∈ b) (key : Nat) :
    maskOf a key = maskOf b key := by
  apply Nat.eq_of_testBit_eq
  intro i
  rw [testBit_maskOf, testBit_maskOf, Bool.eq_iff_iff, List.any_eq_true, List.any_eq_true]
  constructor
  · rintro ⟨x, hx, hp⟩; exact ⟨x, (h x).1 hx, hp⟩
  · rintro ⟨x, hx, hp⟩; exact ⟨x, (h x).2 hx, hp⟩

theorem maskOf_ne_zero_iff {ms : List (Nat × Nat)} (hne : ∀ o ∈ ms, o.2 ≠ 0) (key : Nat) :
    maskOf ms key ≠ 0 ↔ ∃ o ∈ ms, o.1 = key := by
  constructor
  · intro h
    apply Classical.byContradiction
    intro hn
    apply h
    apply maskOf_eq_zero_of_not_mem
    intro o ho he
    exact hn ⟨o, ho, he⟩
  · rintro ⟨o, ho, rfl⟩
    exact maskOf_ne_zero_of_mem ho (hne o ho)

/-- `DictInv` only looks at `maskOf` -/
theorem DictInv.congr {d : Assoc Nat UInt8} {a b : List (Nat × Nat)} (h : DictInv d a)
    (hm : ∀ key, maskOf a key = maskOf b key) : DictInv d b :=
  ⟨h.1, fun key => by rw [← hm key]; exact h.2 key⟩

/-! ### from the invariant to the sorted list of the specification -/

/-- a dictionary with distinct keys holding, for every key, the letter of its (non-empty)
base set is, sorted by key, the specification's list -/
theorem dict_sorted_eq {d : Assoc Nat UInt8} {ms : List (Nat × Nat)} (hinv : DictInv d ms)
    (hne : ∀ o ∈ ms, o.2 ≠ 0) :
    sortByKey (·.1) d =
      sortByKey (·.1) ((distinctKeys ms).map (fun key => (key, letterOfMask (maskOf ms key)))) := by
  obtain ⟨hnd, hl⟩ := hinv
  have hnd' : (d.map (·.1)).Nodup := hnd
  apply sortByKey_perm _ _ hnd'
  have hnd2 : ((distinctKeys ms).map (fun key => (key, letterOfMask (maskOf ms key)))).Nodup := by
    apply nodup_of_map (·.1)
    rw [List.map_map]
    have : ((fun x : Nat × UInt8 => x.1) ∘ fun key => (key, letterOfMask (maskOf ms key))) = id := rfl
    rw [this, List.map_id]
    exact distinctKeys_nodup _
  rw [List.perm_ext_iff_of_nodup (nodup_of_map _ hnd') hnd2]
  rintro ⟨key, letter⟩
  rw [Assoc.mem_iff_lookup _ hnd', hl key, List.mem_map]
  constructor
  · intro h
    by_cases h0 : maskOf ms key = 0
    · rw [if_pos h0] at h; cases h
    · rw [if_neg h0] at h
      have hlet : letterOfMask (maskOf ms key) = letter := by simpa using h
      refine ⟨key, ?_, ?_⟩
      · rw [mem_distinctKeys]; exact (maskOf_ne_zero_iff hne key).1 h0
      · rw [← hlet]
  · rintro ⟨key', hmem, he⟩
    rw [Prod.mk.injEq] at he
    obtain ⟨rfl, hlet⟩ := he
    rw [mem_distinctKeys] at hmem
    have h0 := (maskOf_ne_zero_iff hne key').2 hmem
    rw [if_neg h0, ← hlet]

/-! ### `addObs` is `stepO` -/

/-- (key, middle base, palindrome flag) of an observation -/
def tripO (o : Obs) : Nat × Nat × Bool := (o.kmer, o.base, o.palin)

theorem addObs_eq (d : Assoc Nat UInt8) (o : Obs) : addObs d o = stepO d (tripO o) := rfl

theorem foldlM_addObs (os : List Obs) (d : Assoc Nat UInt8) :
    os.foldlM addObs d = foldO d (os.map tripO) := by
  induction os generalizing d with
  | nil => rfl
  | cons o os ih =>
    simp only [List.foldlM_cons, List.map_cons, foldO, addObs_eq]
    cases stepO d (tripO o) with
    | none => rfl
    | some d' => exact ih d'

/-! ### counting a class among mapped triples -/

/-- the number of triples of class `c`, counted with any lawful `==`, is the `count` (with the `==`
derived from decidable equality) of `c` among the classes -/
theorem filter_class_length {α γ β : Type} [DecidableEq γ] (inst : BEq γ) [@LawfulBEq γ inst]
    (A : List α) (cls : α → γ) (f : α → β) (c : γ) :
    ((A.map (fun o => (cls o, f o))).filter (fun y => @BEq.beq γ inst y.1 c)).length
      = @List.count γ instBEqOfDecidableEq c (A.map cls) := by
  induction A with
  | nil => rfl
  | cons a A ih =>
    simp only [List.map_cons, List.filter_cons, List.count_cons]
    by_cases h : cls a = c
    · have h1 : @BEq.beq γ inst (cls a) c = true := by rw [h]; exact @beq_self_eq_true γ inst _ c
      have h2 : @BEq.beq γ instBEqOfDecidableEq (cls a) c = true := by simp [h]
      rw [h1, h2]
      simp [ih]
    · have h1 : @BEq.beq γ inst (cls a) c = false := by
        cases hb : @BEq.beq γ inst (cls a) c
        · rfl
        · exact absurd (@LawfulBEq.eq_of_beq γ inst _ _ _ hb) h
      have h2 : @BEq.beq γ instBEqOfDecidableEq (cls a) c = false := by simp [h]
      rw [h1, h2]
      simpa using ih

/-- on 2-bit codes, the palindrome class determines the palindrome base set -/
theorem palMask_of_min : ∀ b b' : Fin 4,
    min b.val (b.val ^^^ 2) = min b'.val (b'.val ^^^ 2) → palMask b.val = palMask b'.val := by
  decide

end SkaModel.RDS
