/-
C17 (second sentence) — `scanVariants` on a good group (`GG`) of a planted family with a reference:
a group of the strand of the reference is anchored at the coordinate of its first `(k-1)`-mer's end with
forward orientation, a group of the other strand at the mirrored coordinate with reverse orientation.
-/
import SkaModel.Lemmas.LODRef2

namespace SkaModel.LOD

open SkaModel SkaModel.Spec SkaModel.Props.C16 SkaModel.Skalo SkaModel.LOC

theorem flatMap_map' {α β γ : Type} (f : α → β) (g : β → List γ) (l : List α) :
    (l.map f).flatMap g = l.flatMap (fun x => g (f x)) := by
  induction l with
  | nil => rfl
  | cons a l ih => rw [List.map_cons, List.flatMap_cons, List.flatMap_cons, ih]

variable {k L : Nat} {R : List UInt8} {T : List (List UInt8)} {PT : List Nat}

/-- the variants of a good group lie along the family -/
theorem gg_along (hk5 : 5 ≤ k) {c0 len : Nat} {vs : List Variant} (hg : GG k L T PT c0 len vs) {v : Variant}
    (hv : v ∈ vs) : Along (k - 1) L T c0 len v.1 := by
  obtain ⟨hlen, hbase, hw⟩ := hg.hv v hv
  have hk := hg.hk
  refine ⟨hlen, hbase, hg.hL, by omega, ?_⟩
  intro i hi
  by_cases h : i + k ≤ len
  · obtain ⟨t, ht, hwt⟩ := hw i h
    refine ⟨t, ht, ?_⟩
    rw [← win_take v.1 i k (k - 1) (by omega), hwt, win_take _ _ _ _ (by omega)]
  · obtain ⟨t, ht, hwt⟩ := hw (i - 1) (by omega)
    refine ⟨t, ht, ?_⟩
    have e1 := win_drop v.1 (i - 1) k 1
    have e2 := win_drop t (c0 + (i - 1)) k 1
    rw [show i - 1 + 1 = i by omega] at e1
    rw [show c0 + (i - 1) + 1 = c0 + i by omega] at e2
    rw [← e1, ← e2, hwt]

/-- the reverse complements of the variants of a good group of the other strand lie along the family -/
theorem gg_along_rc (hk5 : 5 ≤ k) {T' : List (List UInt8)} {PT' : List Nat}
    (hT' : ∀ t' ∈ T', AllBase t' ∧ t'.length = L ∧ rcSeq t' ∈ T)
    {c0 len : Nat} {vs : List Variant} (hg : GG k L T' PT' c0 len vs) {v : Variant} (hv : v ∈ vs) :
    Along (k - 1) L T (L - c0 - len) len (rcSeq v.1) := by
  have ha := gg_along hk5 hg hv
  have hL := ha.hL
  have hm := ha.hm
  refine ⟨by rw [rcSeq_length]; exact ha.hlen, ha.hbase.rcSeq, by omega, hm, ?_⟩
  intro i hi
  obtain ⟨t', ht', hwt⟩ := ha.hwin (len - (k - 1) - i) (by omega)
  obtain ⟨hb, hl, hin⟩ := hT' t' ht'
  refine ⟨rcSeq t', hin, ?_⟩
  rw [rcSeq_win' ha.hlen hi, hwt, rcSeq_win' hl (by omega)]
  congr 2
  omega

theorem getD_ne_of {a b : List UInt8} {i : Nat} (h : a.getD i 0 ≠ b.getD i 0) : a ≠ b :=
  fun e => h (e ▸ rfl)

/-- **a group of the strand of the reference** is anchored at `c0 + (k - 1)`, forward.  Enough votes: `7 ≤ k`, or
the group extends `2k` letters beyond the site on one side (a spanning group), or the samples show two further
bases at the site -/
theorem scan_same (pf : PFam k L (R :: T) PT) (hk5 : 5 ≤ k) (hk : 2 * (k - 1) ≤ 128) (hLU : L < U32)
    {c0 len : Nat} {vs : List Variant} (hg : GG k L T PT c0 len vs) (h2 : 2 ≤ vs.length)
    {q : Nat} (hq : q ∈ PT) (h1 : c0 ≤ q) (h2q : q < c0 + len) {t : List UInt8} (ht : t ∈ T)
    (hanc : t.getD q 0 = R.getD q 0)
    (hten : 7 ≤ k ∨ q + 2 * k ≤ c0 + len ∨ c0 + 2 * k - 1 ≤ q ∨
      ∃ t1 ∈ T, ∃ t2 ∈ T, t1.getD q 0 ≠ t2.getD q 0 ∧ t1.getD q 0 ≠ R.getD q 0 ∧ t2.getD q 0 ≠ R.getD q 0) :
    scanVariants 128 (k - 1) (genomicKmers 128 (k - 1) R) vs = some (true, c0 + (k - 1), true) := by
  obtain ⟨hr1, hr2⟩ := hg.room q hq h1 h2q
  obtain ⟨v0, hv0, hv0q⟩ := hg.cov q hq h1 h2q t ht
  obtain ⟨hall, hcount, hrev⟩ := group_votes pf hk5 hk hLU (ws := vs.map (·.1))
    (by
      intro w hw
      obtain ⟨v, hv, rfl⟩ := List.mem_map.mp hw
      exact gg_along hk5 hg hv)
    (by rw [List.length_map]; exact h2) hq hr1 hr2 (List.mem_map.mpr ⟨v0, hv0, rfl⟩) (by rw [hv0q, hanc])
    (by
      rcases hten with h | h | h | ⟨t1, ht1, t2, ht2, h12, h10, h20⟩
      · exact Or.inl h
      · exact Or.inr (Or.inl h)
      · exact Or.inr (Or.inr (Or.inl h))
      · obtain ⟨v1, hv1, hv1q⟩ := hg.cov q hq h1 h2q t1 ht1
        obtain ⟨v2, hv2, hv2q⟩ := hg.cov q hq h1 h2q t2 ht2
        refine Or.inr (Or.inr (Or.inr ⟨v1.1, List.mem_map.mpr ⟨v1, hv1, rfl⟩, v2.1, List.mem_map.mpr ⟨v2, hv2, rfl⟩,
          getD_ne_of (i := q - c0) (by rw [hv1q, hv2q]; exact h12),
          getD_ne_of (i := q - c0) (by rw [hv1q, hv0q, hanc]; exact h10),
          getD_ne_of (i := q - c0) (by rw [hv2q, hv0q, hanc]; exact h20)⟩)))
  rw [flatMap_map'] at hall hcount hrev
  apply scan_forward (k - 1) _ vs (fun v hv => (hg.hv v hv).2.1) _ hall hcount
  rw [flatMap_map']
  exact hrev

/-- **a group of the other strand** is anchored at the mirrored coordinate `L - c0 - len + (k - 1)`, reverse -/
theorem scan_other (pf : PFam k L (R :: T) PT) (hk5 : 5 ≤ k) (hk : 2 * (k - 1) ≤ 128) (hLU : L < U32)
    {T' : List (List UInt8)} {PT' : List Nat} (hT' : ∀ t' ∈ T', AllBase t' ∧ t'.length = L ∧ rcSeq t' ∈ T)
    {c0 len : Nat} {vs : List Variant} (hg : GG k L T' PT' c0 len vs) (h2 : 2 ≤ vs.length)
    {q' : Nat} (hq' : q' ∈ PT') (h1 : c0 ≤ q') (h2q : q' < c0 + len) (hmir : L - 1 - q' ∈ PT)
    {t' : List UInt8} (ht' : t' ∈ T') (hanc : (rcSeq t').getD (L - 1 - q') 0 = R.getD (L - 1 - q') 0)
    (hten : 7 ≤ k ∨ q' + 2 * k ≤ c0 + len ∨ c0 + 2 * k - 1 ≤ q' ∨
      ∃ t1 ∈ T', ∃ t2 ∈ T', t1.getD q' 0 ≠ t2.getD q' 0 ∧
        (rcSeq t1).getD (L - 1 - q') 0 ≠ R.getD (L - 1 - q') 0 ∧
        (rcSeq t2).getD (L - 1 - q') 0 ≠ R.getD (L - 1 - q') 0) :
    scanVariants 128 (k - 1) (genomicKmers 128 (k - 1) R) vs = some (true, L - c0 - len + (k - 1), false) := by
  obtain ⟨hr1, hr2⟩ := hg.room q' hq' h1 h2q
  obtain ⟨v0, hv0, hv0q⟩ := hg.cov q' hq' h1 h2q t' ht'
  obtain ⟨hb', hl', _⟩ := hT' t' ht'
  have hL := hg.hL
  have hlen0 := (hg.hv v0 hv0).1
  -- the base of the reverse complement of a variant at the mirrored site
  have hrcv : ∀ v ∈ vs, ∀ u ∈ T', v.1.getD (q' - c0) 0 = u.getD q' 0 →
      (rcSeq v.1).getD (L - 1 - q' - (L - c0 - len)) 0 = (rcSeq u).getD (L - 1 - q') 0 := by
    intro v hv u hu e
    have hlv := (hg.hv v hv).1
    obtain ⟨_, hlu, _⟩ := hT' u hu
    rw [rcSeq_getD (by rw [hlv]; omega), hlv,
      show len - 1 - (L - 1 - q' - (L - c0 - len)) = q' - c0 by omega, e,
      rcSeq_getD (by rw [hlu]; omega), hlu, show L - 1 - (L - 1 - q') = q' by omega]
  obtain ⟨hall, hcount, hrev⟩ := group_votes pf hk5 hk hLU (ws := vs.map (fun v => rcSeq v.1))
    (c := L - c0 - len) (len := len)
    (by
      intro w hw
      obtain ⟨v, hv, rfl⟩ := List.mem_map.mp hw
      exact gg_along_rc hk5 hT' hg hv)
    (by rw [List.length_map]; exact h2) hmir (by omega) (by omega)
    (List.mem_map.mpr ⟨v0, hv0, rfl⟩) (by rw [hrcv v0 hv0 t' ht' hv0q, hanc])
    (by
      rcases hten with h | h | h | ⟨t1, ht1, t2, ht2, h12, h10, h20⟩
      · exact Or.inl h
      · exact Or.inr (Or.inr (Or.inl (by omega)))
      · exact Or.inr (Or.inl (by omega))
      · obtain ⟨v1, hv1, hv1q⟩ := hg.cov q' hq' h1 h2q t1 ht1
        obtain ⟨v2, hv2, hv2q⟩ := hg.cov q' hq' h1 h2q t2 ht2
        refine Or.inr (Or.inr (Or.inr ⟨rcSeq v1.1, List.mem_map.mpr ⟨v1, hv1, rfl⟩, rcSeq v2.1,
          List.mem_map.mpr ⟨v2, hv2, rfl⟩, ?_,
          getD_ne_of (i := L - 1 - q' - (L - c0 - len))
            (by rw [hrcv v1 hv1 t1 ht1 hv1q, hrcv v0 hv0 t' ht' hv0q, hanc]; exact h10),
          getD_ne_of (i := L - 1 - q' - (L - c0 - len))
            (by rw [hrcv v2 hv2 t2 ht2 hv2q, hrcv v0 hv0 t' ht' hv0q, hanc]; exact h20)⟩))
        intro e
        have := rcSeq_inj (hg.hv v1 hv1).2.1 (hg.hv v2 hv2).2.1 e
        apply h12
        rw [← hv1q, ← hv2q, this])
  apply scan_reverse (k - 1) _ vs (fun v hv => (hg.hv v hv).2.1) _ _ hall hcount
  rw [flatMap_map'] at hrev
  rw [← hrev]
  apply flatMap_congr'
  intro v hv
  rw [rcSeq_rcSeq (hg.hv v hv).2.1]

end SkaModel.LOD
