/-
C18 completeness — the first k-mers of the two sequences of a bubble are carried by the samples that keep the
block and by those that delete it; the record `process_indels` computes for the bubble of a block and for its
twin.
-/
import SkaModel.Lemmas.LOECol
import SkaModel.Lemmas.LOERec

namespace SkaModel.LOE

open SkaModel SkaModel.Spec SkaModel.Props.C16 SkaModel.Skalo SkaModel.Props.C17G SkaModel.LOG SkaModel.LOC

theorem keepIdx_sorted (C : List (List Bool)) (t : Nat) : (keepIdx C t).Pairwise (· < ·) :=
  List.Pairwise.filter _ List.pairwise_lt_range
theorem delIdx_sorted (C : List (List Bool)) (t : Nat) : (delIdx C t).Pairwise (· < ·) :=
  List.Pairwise.filter _ List.pairwise_lt_range

theorem getD_of_getElem? {C : List (List Bool)} {i : Nat} {c : List Bool} (h : C[i]? = some c) : C.getD i [] = c := by
  rw [List.getD_eq_getElem?_getD, h]; rfl

theorem mem_keepIdx (C : List (List Bool)) (t i : Nat) :
    i ∈ keepIdx C t ↔ ∃ c, C[i]? = some c ∧ c.getD t false = true := by
  unfold keepIdx
  rw [List.mem_filter, List.mem_range]
  constructor
  · rintro ⟨hi, h⟩
    exact ⟨C[i], List.getElem?_eq_getElem hi, by rw [← getD_of_getElem? (List.getElem?_eq_getElem hi)]; exact h⟩
  · rintro ⟨c, hc, h⟩
    exact ⟨(List.getElem?_eq_some_iff.mp hc).1, by rw [getD_of_getElem? hc]; exact h⟩

theorem mem_delIdx (C : List (List Bool)) (t i : Nat) :
    i ∈ delIdx C t ↔ ∃ c, C[i]? = some c ∧ c.getD t false = false := by
  unfold delIdx
  rw [List.mem_filter, List.mem_range]
  constructor
  · rintro ⟨hi, h⟩
    refine ⟨C[i], List.getElem?_eq_getElem hi, ?_⟩
    rw [← getD_of_getElem? (List.getElem?_eq_getElem hi)]
    simpa using h
  · rintro ⟨c, hc, h⟩
    refine ⟨(List.getElem?_eq_some_iff.mp hc).1, ?_⟩
    rw [getD_of_getElem? hc, h]; rfl

theorem idx_part (C : List (List Bool)) (t i : Nat) (hi : i < C.length) : i ∈ delIdx C t ↔ ¬ i ∈ keepIdx C t := by
  rw [mem_delIdx, mem_keepIdx]
  have hc : C[i]? = some C[i] := List.getElem?_eq_getElem hi
  constructor
  · rintro ⟨c, h1, h2⟩ ⟨c', h1', h2'⟩
    rw [h1] at h1'
    cases h1'
    rw [h2] at h2'
    exact Bool.false_ne_true h2'
  · intro h
    refine ⟨C[i], hc, ?_⟩
    cases hf : C[i].getD t false with
    | false => rfl
    | true => exact absurd ⟨C[i], hc, hf⟩ h

theorem rcSeq_snoc (w : List UInt8) (x : UInt8) : rcSeq (w ++ [x]) = compl x :: rcSeq w := by
  rw [rcSeq_append]; rfl

theorem rcCodes_take (l : List Nat) (n : Nat) : (rcCodes l).take n = rcCodes (l.drop (l.length - n)) := by
  unfold rcCodes
  rw [← List.map_take, List.take_reverse]

theorem rcCodes_drop (l : List Nat) (n : Nat) : (rcCodes l).drop n = rcCodes (l.take (l.length - n)) := by
  unfold rcCodes
  rw [← List.map_drop, List.drop_reverse]

namespace Ctx

variable {W k : Nat} {F : List UInt8} {B : List (Nat × Nat)} {C : List (List Bool)} {a : Arr} {names : List String}

theorem exists_keeper (cx : Ctx W k F B C a names) {t : Nat} (ht : t < B.length) :
    ∃ c ∈ C, c.getD t false = true ∧ ∃ i, i < C.length ∧ i ∈ keepIdx C t := by
  obtain ⟨c, hc, hf⟩ := cx.h.kept t ht
  obtain ⟨i, hi, e⟩ := List.getElem_of_mem hc
  exact ⟨c, hc, hf, i, hi, (mem_keepIdx C t i).mpr ⟨c, by rw [List.getElem?_eq_getElem hi, e], hf⟩⟩

theorem exists_deleter (cx : Ctx W k F B C a names) {t : Nat} (ht : t < B.length) :
    ∃ c ∈ C, c.getD t false = false ∧ ∃ i, i < C.length ∧ i ∈ delIdx C t := by
  obtain ⟨c, hc, hf⟩ := cx.h.del t ht
  obtain ⟨i, hi, e⟩ := List.getElem_of_mem hc
  exact ⟨c, hc, hf, i, hi, (mem_delIdx C t i).mpr ⟨c, by rw [List.getElem?_eq_getElem hi, e], hf⟩⟩

/-- the colour set of a window through block `t`, on both strands: the samples that keep the block -/
theorem colour_keep (cx : Ctx W k F B C a names) {t : Nat} (ht : t < B.length) {x y : Nat}
    (h1 : bS B t ≤ x + k) (h2 : x ≤ bE B t) (hy1 : x ≤ y) (hy2 : y < x + k) (hyb : inBlk (B.getD t (0, 0)) y)
    (hsh : bS B t + shf k F B t < x + k)
    (Fk : List Nat) (hF : Fk = cds (lets F (List.range' x k)) ∨ Fk = rcCodes (cds (lets F (List.range' x k)))) :
    Assoc.lookup (buildGraph W a).2 (packL Fk) = some (keepIdx C t) := by
  obtain ⟨c0, hc0, hf0, _⟩ := cx.exists_keeper ht
  have hw0 := (cx.isWin_keep ht c0 h1 h2 hy1 hy2 hyb).mpr hf0
  obtain ⟨Cs, hl, hs, hm⟩ := cx.colour_win hc0 hw0 Fk hF
  rw [hl]
  congr 1
  apply eq_of_sorted_mem hs (keepIdx_sorted C t)
  intro i
  rw [hm, mem_keepIdx]
  constructor
  · rintro ⟨c, hc, hw⟩
    exact ⟨c, hc, (cx.spell_keep_iff ht (List.mem_of_getElem? hc) h1 h2 hy1 hy2 hyb hsh).mp hw⟩
  · rintro ⟨c, hc, hf⟩
    exact ⟨c, hc, (cx.spell_keep_iff ht (List.mem_of_getElem? hc) h1 h2 hy1 hy2 hyb hsh).mpr hf⟩

/-- the colour set of a window over block `t`, on both strands: the samples that delete the block -/
theorem colour_del (cx : Ctx W k F B C a names) {t : Nat} (ht : t < B.length) {x : Nat}
    (h1 : x < bS B t) (h2 : bS B t < x + k) (hsh : bS B t + shf k F B t < x + k) (Fk : List Nat)
    (hF : Fk = cds (lets F (List.range' x (bS B t - x) ++ List.range' (bE B t) (k - (bS B t - x)))) ∨
      Fk = rcCodes (cds (lets F (List.range' x (bS B t - x) ++ List.range' (bE B t) (k - (bS B t - x)))))) :
    Assoc.lookup (buildGraph W a).2 (packL Fk) = some (delIdx C t) := by
  obtain ⟨c0, hc0, hf0, _⟩ := cx.exists_deleter ht
  have hw0 := (cx.isWin_del ht c0 h1 h2).mpr hf0
  obtain ⟨Cs, hl, hs, hm⟩ := cx.colour_win hc0 hw0 Fk hF
  rw [hl]
  congr 1
  apply eq_of_sorted_mem hs (delIdx_sorted C t)
  intro i
  rw [hm, mem_delIdx]
  constructor
  · rintro ⟨c, hc, hw⟩
    exact ⟨c, hc, (cx.spell_del_iff ht (List.mem_of_getElem? hc) h1 h2 hsh).mp hw⟩
  · rintro ⟨c, hc, hf⟩
    exact ⟨c, hc, (cx.spell_del_iff ht (List.mem_of_getElem? hc) h1 h2 hsh).mpr hf⟩

/-! ### the letters around a block -/

theorem lE_len (k : Nat) (F : List UInt8) (B : List (Nat × Nat)) (t : Nat) : (lE k F B t).length = k - 1 := by
  simp [lE, lets]
theorem lX_len (k : Nat) (F : List UInt8) (B : List (Nat × Nat)) (t : Nat) :
    (lX k F B t).length = k - 1 - shf k F B t := by
  simp [lX, lets]
theorem lX2_len (k : Nat) (F : List UInt8) (B : List (Nat × Nat)) (t : Nat) : (lX2 k F B t).length = k - 1 := by
  simp [lX2, lets]
theorem lE2_len (k : Nat) (F : List UInt8) (B : List (Nat × Nat)) (t : Nat) :
    (lE2 k F B t).length = bS B t - eX k F B t := by
  simp [lE2, lets]

/-- the first `k` letters of the two sequences of the bubble of the samples' strand -/
theorem take_fa (cx : Ctx W k F B C a names) {t : Nat} (ht : t < B.length) :
    (lE k F B t ++ lI k F B t ++ lX k F B t).take (k - 1 + 1) = lets F (List.range' (eX k F B t) k) := by
  have hb := cx.h.bt ht
  have he := cx.ex_bounds ht
  have hk5 := cx.h.k5
  have hI : lI k F B t = getF F (bS B t + shf k F B t) ::
      lets F (List.range' (bS B t + shf k F B t + 1) (bE B t - bS B t - 1)) := by
    unfold lI
    rw [show bE B t - bS B t = (bE B t - bS B t - 1) + 1 by omega, List.range'_succ]
    rfl
  rw [List.append_assoc, List.take_append, lE_len, List.take_of_length_le (by rw [lE_len]; omega),
    show k - 1 + 1 - (k - 1) = 1 by omega, hI]
  have hr : List.range' (eX k F B t) k = List.range' (eX k F B t) (k - 1) ++ [bS B t + shf k F B t] := by
    have h := DFam.range'_snoc (eX k F B t) (k - 1)
    rw [show k - 1 + 1 = k by omega] at h
    rw [h]
    congr 2
    omega
  rw [hr, lets_append]
  rfl

theorem take_fb (cx : Ctx W k F B C a names) {t : Nat} (ht : t < B.length) :
    (lE k F B t ++ lX k F B t).take (k - 1 + 1) =
      lets F (List.range' (eX k F B t) (bS B t - eX k F B t) ++
        List.range' (bE B t) (k - (bS B t - eX k F B t))) := by
  have hb := cx.h.bt ht
  have he := cx.ex_bounds ht
  have hk5 := cx.h.k5
  have hX : lX k F B t = getF F (bE B t + shf k F B t) ::
      lets F (List.range' (bE B t + shf k F B t + 1) (k - 1 - shf k F B t - 1)) := by
    unfold lX
    rw [show k - 1 - shf k F B t = (k - 1 - shf k F B t - 1) + 1 by omega, List.range'_succ]
    rfl
  rw [List.take_append, lE_len, List.take_of_length_le (by rw [lE_len]; omega),
    show k - 1 + 1 - (k - 1) = 1 by omega, hX]
  -- the right-hand side: the first `k - 1` columns spell the node before, then one more letter
  have hr : List.range' (bE B t) (k - (bS B t - eX k F B t)) =
      List.range' (bE B t) (shf k F B t) ++ [bE B t + shf k F B t] := by
    rw [show k - (bS B t - eX k F B t) = shf k F B t + 1 by omega, DFam.range'_snoc]
  rw [hr, ← List.append_assoc, lets_append,
    cx.h.lets_gap_cont ht (x := eX k F B t) (a := bS B t - eX k F B t) (r := shf k F B t) (by omega) (Nat.le_refl _)]
  unfold lE
  rw [show bS B t - eX k F B t + shf k F B t = k - 1 by omega]
  rfl

theorem take_ra (cx : Ctx W k F B C a names) {t : Nat} (ht : t < B.length) :
    (rcSeq (lX2 k F B t) ++ rcSeq (lI2 F B t) ++ rcSeq (lE2 k F B t)).take (k - 1 + 1) =
      rcSeq (lets F (List.range' (bE B t - 1) k)) := by
  have hb := cx.h.bt ht
  have hk5 := cx.h.k5
  have hI : lI2 F B t = lets F (List.range' (bS B t) (bE B t - bS B t - 1)) ++ [getF F (bE B t - 1)] := by
    unfold lI2
    rw [show bE B t - bS B t = (bE B t - bS B t - 1) + 1 by omega, DFam.range'_snoc, lets_append]
    congr 1
    unfold lets
    rw [List.map_singleton]
    congr 2
    omega
  rw [List.append_assoc, List.take_append, rcSeq_length, lX2_len,
    List.take_of_length_le (by rw [rcSeq_length, lX2_len]; omega), show k - 1 + 1 - (k - 1) = 1 by omega, hI,
    rcSeq_snoc]
  simp only [List.cons_append, List.take_succ_cons, List.take_zero]
  have hr : List.range' (bE B t - 1) k = (bE B t - 1) :: List.range' (bE B t) (k - 1) := by
    obtain ⟨m, hm⟩ : ∃ m, k = m + 1 := ⟨k - 1, by omega⟩
    rw [hm, List.range'_succ, show bE B t - 1 + 1 = bE B t by omega]
    rfl
  rw [hr]
  show _ = rcSeq ([getF F (bE B t - 1)] ++ lets F (List.range' (bE B t) (k - 1)))
  rw [rcSeq_append]
  rfl

theorem take_rb (cx : Ctx W k F B C a names) {t : Nat} (ht : t < B.length) :
    (rcSeq (lX2 k F B t) ++ rcSeq (lE2 k F B t)).take (k - 1 + 1) =
      rcSeq (lets F (List.range' (bS B t - 1) (bS B t - (bS B t - 1)) ++
        List.range' (bE B t) (k - (bS B t - (bS B t - 1))))) := by
  have hb := cx.h.bt ht
  have he := cx.ex_bounds ht
  have hk5 := cx.h.k5
  have hE : lE2 k F B t = lets F (List.range' (eX k F B t) (bS B t - eX k F B t - 1)) ++ [getF F (bS B t - 1)] := by
    unfold lE2
    rw [show bS B t - eX k F B t = (bS B t - eX k F B t - 1) + 1 by omega, DFam.range'_snoc, lets_append]
    congr 1
    unfold lets
    rw [List.map_singleton]
    congr 2
    omega
  rw [List.take_append, rcSeq_length, lX2_len,
    List.take_of_length_le (by rw [rcSeq_length, lX2_len]; omega), show k - 1 + 1 - (k - 1) = 1 by omega, hE,
    rcSeq_snoc]
  simp only [List.take_succ_cons, List.take_zero]
  rw [show bS B t - (bS B t - 1) = 1 by omega, lets_append, rcSeq_append]
  rfl

end Ctx

end SkaModel.LOE
