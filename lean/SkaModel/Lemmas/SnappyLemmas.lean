import SkaModel.Spec.SnappyFormat
namespace SkaModel.SnappyLemmas
open SkaModel SkaModel.SnappyFormat

theorem copyPattern_succ (out : List UInt8) (off len : Nat) (h1 : 1 ≤ off) (h2 : off ≤ out.length) :
    copyPattern out off (len + 1)
      = out.getD (out.length - off) 0 :: copyPattern (out ++ [out.getD (out.length - off) 0]) off len := by
  unfold copyPattern
  rw [List.range_succ_eq_map]
  simp only [List.map_cons, List.map_map, Nat.zero_mod, Nat.add_zero]
  congr 1
  apply List.map_congr_left
  intro i _
  simp only [Function.comp, List.length_append, List.length_cons, List.length_nil]
  have hlt : i % off < off := Nat.mod_lt _ (by omega)
  by_cases hc : i % off = off - 1
  · have : (i + 1) % off = 0 := by
      rw [Nat.add_mod, hc]
      by_cases h : off = 1
      · subst h; simp
      · rw [Nat.mod_eq_of_lt (by omega : 1 < off)]
        have : off - 1 + 1 = off := by omega
        rw [this, Nat.mod_self]
    rw [this, hc]
    have e : out.length + (0 + 1) - off + (off - 1) = out.length := by omega
    rw [e]
    simp [List.getD_eq_getElem?_getD]
  · have : (i + 1) % off = i % off + 1 := by
      rw [Nat.add_mod]
      by_cases h : off = 1
      · subst h; omega
      · rw [Nat.mod_eq_of_lt (by omega : 1 < off)]
        exact Nat.mod_eq_of_lt (by omega)
    rw [this]
    have e : out.length + (0 + 1) - off + i % off = out.length - off + (i % off + 1) := by omega
    rw [e]
    simp only [List.getD_eq_getElem?_getD]
    rw [List.getElem?_append_left (by omega)]

theorem copyBack_toList (out : Array UInt8) (off len : Nat) (h1 : 1 ≤ off) (h2 : off ≤ out.size) :
    (copyBack out off len).toList = out.toList ++ copyPattern out.toList off len := by
  induction len generalizing out with
  | zero => simp [copyBack, copyPattern]
  | succ len ih =>
    rw [copyBack, ih _ (by simp; omega), copyPattern_succ _ _ _ h1 (by simpa using h2)]
    simp [Array.getD_eq_getD_getElem?, List.getD_eq_getElem?_getD]

theorem toNat_ofNat_lt (k : Nat) (h : k < 256) : (UInt8.ofNat k).toNat = k := by
  rw [UInt8.toNat_ofNat']; omega

theorem leBytes_length (n v : Nat) : (leBytes n v).length = n := by
  induction n generalizing v with
  | zero => rfl
  | succ n ih => simp [leBytes, ih]

theorem leNat_leBytes (n v : Nat) (h : v < 256 ^ n) : leNat (leBytes n v) = v := by
  induction n generalizing v with
  | zero => simp at h; subst h; rfl
  | succ n ih =>
    have : v / 256 < 256 ^ n := by
      rw [Nat.div_lt_iff_lt_mul (by omega)]; rw [Nat.pow_succ] at h; exact h
    have ih' := ih _ this
    unfold leNat at ih' ⊢
    simp only [leBytes, List.foldr_cons, ih']
    rw [toNat_ofNat_lt _ (by omega)]; omega

theorem take_leBytes (n v : Nat) (r : List UInt8) : (leBytes n v ++ r).take n = leBytes n v :=
  List.take_left' (leBytes_length n v)
theorem drop_leBytes (n v : Nat) (r : List UInt8) : (leBytes n v ++ r).drop n = r :=
  List.drop_left' (leBytes_length n v)

theorem step_lit0 (dlen fuel : Nat) (bs rest : List UInt8) (out : Array UInt8)
    (h1 : 1 ≤ bs.length) (h2 : out.size + bs.length ≤ dlen) (h3 : bs.length ≤ 60) :
    snappyElems dlen (fuel + 1) ((SElem.lit 0 bs).ser ++ rest) out
      = snappyElems dlen fuel rest (out ++ bs.toArray) := by
  simp only [SElem.ser, List.cons_append, snappyElems]
  rw [toNat_ofNat_lt _ (by omega)]
  have e1 : (bs.length - 1) * 4 % 4 = 0 := by omega
  have e2 : (bs.length - 1) * 4 / 4 + 1 = bs.length := by omega
  simp only [e1, e2, beq_self_eq_true, ↓reduceIte]
  rw [if_neg (by omega)]
  simp only [List.length_append, List.take_left, List.drop_left]
  rw [if_neg (by simp; omega)]

theorem step_litN (dlen fuel nb : Nat) (bs rest : List UInt8) (out : Array UInt8)
    (h1 : 1 ≤ bs.length) (h2 : out.size + bs.length ≤ dlen) (h3 : nb + 1 ≤ 4)
    (h4 : bs.length - 1 < 256 ^ (nb + 1)) :
    snappyElems dlen (fuel + 1) ((SElem.lit (nb + 1) bs).ser ++ rest) out
      = snappyElems dlen fuel rest (out ++ bs.toArray) := by
  simp only [SElem.ser, List.cons_append, snappyElems]
  rw [toNat_ofNat_lt _ (by omega)]
  have e1 : (60 + nb) * 4 % 4 = 0 := by omega
  have e2 : (60 + nb) * 4 / 4 + 1 = 61 + nb := by omega
  have e3 : 61 + nb - 60 = nb + 1 := by omega
  simp only [e1, e2, e3, beq_self_eq_true, ↓reduceIte]
  rw [if_pos (by omega)]
  rw [List.append_assoc, take_leBytes, drop_leBytes, leNat_leBytes _ _ h4]
  have e4 : bs.length - 1 + 1 = bs.length := by omega
  simp only [e4, List.length_append, leBytes_length, List.take_left, List.drop_left]
  rw [if_neg (by omega), if_neg (by simp; omega)]

theorem step_copy1 (dlen fuel len off : Nat) (rest : List UInt8) (out : Array UInt8)
    (h : (SElem.copy1 len off).WF out.size dlen) :
    snappyElems dlen (fuel + 1) ((SElem.copy1 len off).ser ++ rest) out
      = snappyElems dlen fuel rest (copyBack out off len) := by
  obtain ⟨a1, a2, a3, a4, a5, a6⟩ := h
  simp only [SElem.ser, List.cons_append, List.nil_append, snappyElems]
  rw [toNat_ofNat_lt _ (by omega)]
  have e1 : (1 + (len - 4) * 4 + off / 256 * 32) % 4 = 1 := by omega
  have e2 : (1 + (len - 4) * 4 + off / 256 * 32) / 4 % 8 = len - 4 := by omega
  have e3 : (1 + (len - 4) * 4 + off / 256 * 32) / 32 = off / 256 := by omega
  simp only [e1, e2, e3]
  simp [leNat, toNat_ofNat_lt (off % 256) (by omega)]
  have e4 : off / 256 * 256 + off % 256 = off := by omega
  have e5 : 4 + (len - 4) = len := by omega
  rw [e4, e5, if_neg (by omega), if_neg (by omega)]

theorem step_copy2 (dlen fuel len off : Nat) (rest : List UInt8) (out : Array UInt8)
    (h : (SElem.copy2 len off).WF out.size dlen) :
    snappyElems dlen (fuel + 1) ((SElem.copy2 len off).ser ++ rest) out
      = snappyElems dlen fuel rest (copyBack out off len) := by
  obtain ⟨a1, a2, a3, a4, a5, a6⟩ := h
  simp only [SElem.ser, List.cons_append, snappyElems]
  rw [toNat_ofNat_lt _ (by omega)]
  have e1 : (2 + (len - 1) * 4) % 4 = 2 := by omega
  have e2 : (2 + (len - 1) * 4) / 4 = len - 1 := by omega
  simp only [e1, e2]
  have e5 : 1 + (len - 1) = len := by omega
  simp [e5, leBytes_length]
  rw [leNat_leBytes 2 off (by omega), if_neg (by omega), if_neg (by omega), if_neg (by omega)]

theorem step_copy4 (dlen fuel len off : Nat) (rest : List UInt8) (out : Array UInt8)
    (h : (SElem.copy4 len off).WF out.size dlen) :
    snappyElems dlen (fuel + 1) ((SElem.copy4 len off).ser ++ rest) out
      = snappyElems dlen fuel rest (copyBack out off len) := by
  obtain ⟨a1, a2, a3, a4, a5, a6⟩ := h
  simp only [SElem.ser, List.cons_append, snappyElems]
  rw [toNat_ofNat_lt _ (by omega)]
  have e1 : (3 + (len - 1) * 4) % 4 = 3 := by omega
  have e2 : (3 + (len - 1) * 4) / 4 = len - 1 := by omega
  simp only [e1, e2]
  have e5 : 1 + (len - 1) = len := by omega
  simp [e5, leBytes_length]
  rw [leNat_leBytes 4 off (by omega), if_neg (by omega), if_neg (by omega), if_neg (by omega)]

theorem copyBack_size (out : Array UInt8) (off len : Nat) : (copyBack out off len).size = out.size + len := by
  induction len generalizing out with
  | zero => rfl
  | succ len ih => rw [copyBack, ih]; simp; omega

theorem elems_nil (dlen fuel : Nat) (out : Array UInt8) : snappyElems dlen fuel [] out = some out := by
  cases fuel <;> simp [snappyElems]

theorem elems_refines (dlen : Nat) (es : List SElem) (out : Array UInt8) (fuel : Nat)
    (hwf : WFs dlen out.size es) (hf : es.length ≤ fuel) :
    (snappyElems dlen fuel (es.flatMap SElem.ser) out).map Array.toList
      = some (denote out.toList es) := by
  induction es generalizing out fuel with
  | nil => simp [elems_nil, denote]
  | cons e es ih =>
    obtain ⟨fuel, rfl⟩ : ∃ f, fuel = f + 1 := ⟨fuel - 1, by simp at hf; omega⟩
    obtain ⟨hw, hws⟩ := hwf
    simp only [List.length_cons, Nat.add_le_add_iff_right] at hf
    rw [List.flatMap_cons]
    simp only [denote, List.foldl_cons]
    cases e with
    | lit nb bs =>
      obtain ⟨a1, a2, a3⟩ := hw
      have key : snappyElems dlen (fuel + 1) ((SElem.lit nb bs).ser ++ es.flatMap SElem.ser) out
          = snappyElems dlen fuel (es.flatMap SElem.ser) (out ++ bs.toArray) := by
        cases nb with
        | zero => exact step_lit0 _ _ _ _ _ a1 a2 (by omega)
        | succ nb => exact step_litN _ _ _ _ _ _ a1 a2 (by omega) (by omega)
      rw [key]
      have := ih (out ++ bs.toArray) fuel (by simpa [SElem.outLen] using hws) hf
      simpa [denote, SElem.denote] using this
    | copy1 len off =>
      rw [step_copy1 _ _ _ _ _ _ hw]
      have := ih (copyBack out off len) fuel (by simpa [SElem.outLen, copyBack_size] using hws) hf
      rw [copyBack_toList _ _ _ hw.2.2.1 hw.2.2.2.2.1] at this
      simpa [denote, SElem.denote] using this
    | copy2 len off =>
      rw [step_copy2 _ _ _ _ _ _ hw]
      have := ih (copyBack out off len) fuel (by simpa [SElem.outLen, copyBack_size] using hws) hf
      rw [copyBack_toList _ _ _ hw.2.2.1 hw.2.2.2.2.1] at this
      simpa [denote, SElem.denote] using this
    | copy4 len off =>
      rw [step_copy4 _ _ _ _ _ _ hw]
      have := ih (copyBack out off len) fuel (by simpa [SElem.outLen, copyBack_size] using hws) hf
      rw [copyBack_toList _ _ _ hw.2.2.1 hw.2.2.2.2.1] at this
      simpa [denote, SElem.denote] using this

theorem or_shift (acc b s : Nat) (h : acc < 2 ^ s) : acc ||| (b <<< s) = acc + b * 2 ^ s := by
  rw [Nat.or_comm, ← Nat.shiftLeft_add_eq_or_of_lt h, Nat.shiftLeft_eq, Nat.add_comm]

theorem varint_pos (m : Nat) : 1 ≤ (varint m).length := by
  rw [varint]; split <;> simp

theorem go_varint (m : Nat) : ∀ (k acc shift i : Nat) (rest : List UInt8),
    m < 2 ^ k → k + shift ≤ 64 → shift < 64 → acc < 2 ^ shift →
    readVarint.go (varint m ++ rest) acc shift i = (acc + m * 2 ^ shift, i + (varint m).length) := by
  induction m using Nat.strongRecOn with
  | _ m ih =>
    intro k acc shift i rest hm hk hs hacc
    have hP : 0 < 2 ^ shift := Nat.two_pow_pos _
    rw [varint]
    split
    · rename_i hlt
      simp only [List.cons_append, List.nil_append, readVarint.go]
      rw [if_neg (by omega), toNat_ofNat_lt _ (by omega), if_pos hlt]
      have : m <<< shift < 2 ^ 64 := by
        rw [Nat.shiftLeft_eq]
        calc m * 2 ^ shift < 2 ^ k * 2 ^ shift := Nat.mul_lt_mul_of_pos_right hm hP
          _ = 2 ^ (k + shift) := (Nat.pow_add ..).symm
          _ ≤ 2 ^ 64 := Nat.pow_le_pow_right (by omega) hk
      rw [Nat.mod_eq_of_lt this, or_shift _ _ _ hacc]
      simp
    · rename_i hge
      have hk8 : 8 ≤ k := by
        apply Classical.byContradiction; intro hc
        have : 2 ^ k ≤ 2 ^ 7 := Nat.pow_le_pow_right (by omega) (by omega)
        omega
      simp only [List.cons_append, readVarint.go]
      rw [if_neg (by omega), toNat_ofNat_lt _ (by omega), if_neg (by omega)]
      have hand : (m % 128 + 128) &&& 127 = m % 128 := by
        have := Nat.and_two_pow_sub_one_eq_mod (m % 128 + 128) 7
        simp at this; omega
      rw [hand]
      have hlt : (m % 128) <<< shift < 2 ^ 64 := by
        rw [Nat.shiftLeft_eq]
        calc m % 128 * 2 ^ shift < 2 ^ 7 * 2 ^ shift := Nat.mul_lt_mul_of_pos_right (by omega) hP
          _ = 2 ^ (7 + shift) := (Nat.pow_add ..).symm
          _ ≤ 2 ^ 64 := Nat.pow_le_pow_right (by omega) (by omega)
      rw [Nat.mod_eq_of_lt hlt, or_shift _ _ _ hacc]
      have hq : m / 128 < 2 ^ (k - 7) := by
        rw [Nat.div_lt_iff_lt_mul (by omega)]
        have : 2 ^ (k - 7) * 128 = 2 ^ k := by
          rw [show (128 : Nat) = 2 ^ 7 from rfl, ← Nat.pow_add]; congr 1; omega
        omega
      have hacc' : acc + m % 128 * 2 ^ shift < 2 ^ (shift + 7) := by
        rw [Nat.pow_add]
        have : m % 128 * 2 ^ shift ≤ 127 * 2 ^ shift := Nat.mul_le_mul_right _ (by omega)
        omega
      rw [ih (m / 128) (by omega) (k - 7) _ (shift + 7) (i + 1) rest hq (by omega) (by omega) hacc']
      simp only [List.length_cons, Prod.mk.injEq]
      constructor
      · rw [Nat.pow_add]
        have hm' : m = 128 * (m / 128) + m % 128 := by omega
        generalize m / 128 = q at *
        generalize m % 128 = r at *
        subst hm'
        generalize 2 ^ shift = P
        grind
      · omega

theorem varint_len_le (j : Nat) : ∀ m, m < 2 ^ (7 * (j + 1)) → (varint m).length ≤ j + 1 := by
  induction j with
  | zero => intro m h; rw [varint, if_pos (by simpa using h)]; simp
  | succ j ih =>
    intro m h
    rw [varint]; split
    · simp
    · have : m / 128 < 2 ^ (7 * (j + 1)) := by
        rw [Nat.div_lt_iff_lt_mul (by omega)]
        have : 2 ^ (7 * (j + 1)) * 128 = 2 ^ (7 * (j + 1 + 1)) := by
          rw [show (128 : Nat) = 2 ^ 7 from rfl, ← Nat.pow_add]; congr 1
        omega
      have := ih _ this
      simp; omega

theorem readVarint_varint (n : Nat) (h : n < 2 ^ 32) (rest : List UInt8) :
    readVarint (varint n ++ rest) = (n, (varint n).length) := by
  unfold readVarint
  rw [go_varint n 32 0 0 0 rest h (by omega) (by omega) (by omega)]
  simp

theorem varint_len_le5 (n : Nat) (h : n < 2 ^ 32) : (varint n).length ≤ 5 :=
  varint_len_le 4 n (by have : (2:Nat) ^ 32 ≤ 2 ^ (7 * (4 + 1)) := Nat.pow_le_pow_right (by omega) (by omega)
                        omega)

theorem ser_pos (e : SElem) : 1 ≤ e.ser.length := by
  cases e with
  | lit nb bs => cases nb <;> simp [SElem.ser]
  | _ => simp [SElem.ser]

theorem flatMap_ser_len (es : List SElem) : es.length ≤ (es.flatMap SElem.ser).length := by
  induction es with
  | nil => simp
  | cons e es ih => have := ser_pos e; simp only [List.flatMap_cons, List.length_append, List.length_cons]; omega

theorem block_ok (data : List UInt8) (es : List SElem)
    (hlen : data.length ≤ 65536) (hwf : WFs data.length 0 es) (hd : denote [] es = data) :
    snappyDecompress (block data.length es) = some data := by
  have hn : data.length < 2 ^ 32 := by omega
  have hv := readVarint_varint data.length hn (es.flatMap SElem.ser)
  have hp := varint_pos data.length
  have h5 := varint_len_le5 data.length hn
  have hne : (block data.length es).isEmpty = false := by
    unfold block
    cases hvv : varint data.length with
    | nil => rw [hvv] at hp; simp at hp
    | cons a l => simp
  have hh : snappyHeader (block data.length es) = some (data.length, (varint data.length).length) := by
    unfold snappyHeader block
    rw [hv]
    simp only []
    generalize (varint data.length).length = L at *
    rw [if_neg (by simp; omega), if_neg (by omega)]
  unfold snappyDecompress
  rw [hne, hh]
  simp only [Bool.false_eq_true, ↓reduceIte]
  rw [if_neg (by omega)]
  have hdrop : (block data.length es).drop (varint data.length).length = es.flatMap SElem.ser := by
    unfold block; exact List.drop_left
  rw [hdrop]
  have hfl : es.length ≤ (block data.length es).length + 1 := by
    have := flatMap_ser_len es
    unfold block; simp only [List.length_append]; omega
  have := elems_refines data.length es #[] _ (by simpa using hwf) hfl
  cases hr : snappyElems data.length ((block data.length es).length + 1) (es.flatMap SElem.ser) #[] with
  | none => rw [hr] at this; simp at this
  | some o =>
    rw [hr] at this
    simp at this
    rw [hd] at this
    simp [← this]

theorem pstep_lit0 (fuel : Nat) (bs rest : List UInt8)
    (h1 : 1 ≤ bs.length) (h3 : bs.length ≤ 60) :
    parseElems (fuel + 1) ((SElem.lit 0 bs).ser ++ rest)
      = (parseElems fuel rest).map (fun es => SElem.lit 0 bs :: es) := by
  simp only [SElem.ser, List.cons_append, parseElems]
  rw [toNat_ofNat_lt _ (by omega)]
  have e1 : (bs.length - 1) * 4 % 4 = 0 := by omega
  have e2 : (bs.length - 1) * 4 / 4 + 1 = bs.length := by omega
  simp only [e1, e2, beq_self_eq_true, ↓reduceIte]
  rw [if_neg (by omega)]
  simp only [List.length_append, List.take_left, List.drop_left]
  rw [if_neg (by omega)]

theorem pstep_litN (fuel nb : Nat) (bs rest : List UInt8)
    (h1 : 1 ≤ bs.length) (h3 : nb + 1 ≤ 4)
    (h4 : bs.length - 1 < 256 ^ (nb + 1)) :
    parseElems (fuel + 1) ((SElem.lit (nb + 1) bs).ser ++ rest)
      = (parseElems fuel rest).map (fun es => SElem.lit (nb + 1) bs :: es) := by
  simp only [SElem.ser, List.cons_append, parseElems]
  rw [toNat_ofNat_lt _ (by omega)]
  have e1 : (60 + nb) * 4 % 4 = 0 := by omega
  have e2 : (60 + nb) * 4 / 4 + 1 = 61 + nb := by omega
  have e3 : 61 + nb - 60 = nb + 1 := by omega
  simp only [e1, e2, e3, beq_self_eq_true, ↓reduceIte]
  rw [if_pos (by omega)]
  rw [List.append_assoc, take_leBytes, drop_leBytes, leNat_leBytes _ _ h4]
  have e4 : bs.length - 1 + 1 = bs.length := by omega
  simp only [e4, List.length_append, leBytes_length, List.take_left, List.drop_left]
  rw [if_neg (by omega), if_neg (by omega)]

theorem pstep_copy1 (fuel len off : Nat) (rest : List UInt8)
    (a1 : 4 ≤ len) (a2 : len ≤ 11) (a4 : off < 2048) :
    parseElems (fuel + 1) ((SElem.copy1 len off).ser ++ rest)
      = (parseElems fuel rest).map (fun es => SElem.copy1 len off :: es) := by
  simp only [SElem.ser, List.cons_append, List.nil_append, parseElems]
  rw [toNat_ofNat_lt _ (by omega)]
  have e1 : (1 + (len - 4) * 4 + off / 256 * 32) % 4 = 1 := by omega
  have e2 : (1 + (len - 4) * 4 + off / 256 * 32) / 4 % 8 = len - 4 := by omega
  have e3 : (1 + (len - 4) * 4 + off / 256 * 32) / 32 = off / 256 := by omega
  simp only [e1, e2, e3]
  have e4 : off / 256 * 256 + off % 256 = off := by omega
  have e5 : 4 + (len - 4) = len := by omega
  simp [leNat, toNat_ofNat_lt (off % 256) (by omega), e4, e5]

theorem pstep_copy2 (fuel len off : Nat) (rest : List UInt8)
    (a1 : 1 ≤ len) (a2 : len ≤ 64) (a4 : off < 65536) :
    parseElems (fuel + 1) ((SElem.copy2 len off).ser ++ rest)
      = (parseElems fuel rest).map (fun es => SElem.copy2 len off :: es) := by
  simp only [SElem.ser, List.cons_append, parseElems]
  rw [toNat_ofNat_lt _ (by omega)]
  have e1 : (2 + (len - 1) * 4) % 4 = 2 := by omega
  have e2 : (2 + (len - 1) * 4) / 4 = len - 1 := by omega
  simp only [e1, e2]
  have e5 : 1 + (len - 1) = len := by omega
  simp [e5, leBytes_length, leNat_leBytes 2 off (by omega)]
  intro h; omega

theorem pstep_copy4 (fuel len off : Nat) (rest : List UInt8)
    (a1 : 1 ≤ len) (a2 : len ≤ 64) (a4 : off < 2 ^ 32) :
    parseElems (fuel + 1) ((SElem.copy4 len off).ser ++ rest)
      = (parseElems fuel rest).map (fun es => SElem.copy4 len off :: es) := by
  simp only [SElem.ser, List.cons_append, parseElems]
  rw [toNat_ofNat_lt _ (by omega)]
  have e1 : (3 + (len - 1) * 4) % 4 = 3 := by omega
  have e2 : (3 + (len - 1) * 4) / 4 = len - 1 := by omega
  simp only [e1, e2]
  have e5 : 1 + (len - 1) = len := by omega
  simp [e5, leBytes_length, leNat_leBytes 4 off (by omega)]
  intro h; omega

theorem parse_nil (fuel : Nat) : parseElems fuel [] = some [] := by
  cases fuel <;> simp [parseElems]

theorem parse_ser (dlen out : Nat) (es : List SElem) (hwf : WFs dlen out es) (fuel : Nat)
    (hf : es.length ≤ fuel) : parseElems fuel (es.flatMap SElem.ser) = some es := by
  induction es generalizing out fuel with
  | nil => simp [parse_nil]
  | cons e es ih =>
    obtain ⟨fuel, rfl⟩ : ∃ f, fuel = f + 1 := ⟨fuel - 1, by simp at hf; omega⟩
    obtain ⟨hw, hws⟩ := hwf
    simp only [List.length_cons, Nat.add_le_add_iff_right] at hf
    rw [List.flatMap_cons]
    have := ih _ hws fuel hf
    cases e with
    | lit nb bs =>
      obtain ⟨a1, a2, a3⟩ := hw
      cases nb with
      | zero => rw [pstep_lit0 _ _ _ a1 (by omega), this]; rfl
      | succ nb => rw [pstep_litN _ _ _ _ a1 (by omega) (by omega), this]; rfl
    | copy1 len off =>
      obtain ⟨a1, a2, a3, a4, a5, a6⟩ := hw
      rw [pstep_copy1 _ _ _ _ a1 a2 a4, this]; rfl
    | copy2 len off =>
      obtain ⟨a1, a2, a3, a4, a5, a6⟩ := hw
      rw [pstep_copy2 _ _ _ _ a1 a2 a4, this]; rfl
    | copy4 len off =>
      obtain ⟨a1, a2, a3, a4, a5, a6⟩ := hw
      rw [pstep_copy4 _ _ _ _ a1 a2 a4, this]; rfl

theorem leNat_cons (b : UInt8) (bs : List UInt8) : leNat (b :: bs) = b.toNat + 256 * leNat bs := rfl

theorem leBytes_leNat (bs : List UInt8) : leBytes bs.length (leNat bs) = bs := by
  induction bs with
  | nil => rfl
  | cons b bs ih =>
    have hb : b.toNat < 256 := UInt8.toNat_lt b
    rw [leNat_cons, List.length_cons, leBytes]
    have e1 : (b.toNat + 256 * leNat bs) % 256 = b.toNat := by omega
    have e2 : (b.toNat + 256 * leNat bs) / 256 = leNat bs := by omega
    rw [e1, e2, ih, UInt8.ofNat_toNat]

theorem leNat_lt (bs : List UInt8) : leNat bs < 256 ^ bs.length := by
  induction bs with
  | nil => simp [leNat]
  | cons b bs ih =>
    have hb : b.toNat < 256 := UInt8.toNat_lt b
    rw [leNat_cons, List.length_cons, Nat.pow_succ]
    omega

theorem inv_step (dlen fuel : Nat) (tag : UInt8) (rest : List UInt8) (out res : Array UInt8)
    (h : snappyElems dlen (fuel + 1) (tag :: rest) out = some res) :
    ∃ (e : SElem) (rest' : List UInt8), tag :: rest = e.ser ++ rest' ∧ e.WF out.size dlen := by
  have ht : tag.toNat < 256 := UInt8.toNat_lt tag
  have htag : UInt8.ofNat tag.toNat = tag := UInt8.ofNat_toNat
  simp only [snappyElems] at h
  generalize tag.toNat = t at *
  subst htag
  by_cases h0 : t % 4 = 0
  · simp only [h0, beq_self_eq_true, if_true] at h
    by_cases h61 : t / 4 + 1 ≥ 61
    · rw [if_pos h61] at h
      obtain ⟨k, hk⟩ : ∃ k, t / 4 + 1 - 60 = k + 1 := ⟨t / 4 - 60, by omega⟩
      rw [hk] at h
      by_cases g1 : rest.length < k + 1
      · rw [if_pos g1] at h; cases h
      rw [if_neg g1] at h
      generalize hv : leNat (List.take (k + 1) rest) = v at h
      by_cases g2 : (decide ((List.drop (k + 1) rest).length < v + 1) || decide (dlen - out.size < v + 1)) = true
      · rw [if_pos g2] at h; cases h
      simp only [Bool.or_eq_true, decide_eq_true_eq, not_or, Nat.not_lt] at g2
      have hl1 : (List.take (k + 1) rest).length = k + 1 := by simp; omega
      have hl2 : (List.take (v + 1) (List.drop (k + 1) rest)).length = v + 1 := by
        rw [List.length_take]; omega
      refine ⟨.lit (k + 1) (List.take (v + 1) (List.drop (k + 1) rest)),
        List.drop (v + 1) (List.drop (k + 1) rest), ?_, ?_⟩
      · simp only [SElem.ser, hl2, Nat.add_sub_cancel, List.cons_append]
        have e1 : (60 + k) * 4 = t := by omega
        rw [e1]
        congr 1
        have := leBytes_leNat (List.take (k + 1) rest)
        rw [hl1, hv] at this
        rw [this, List.append_assoc, List.take_append_drop, List.take_append_drop]
      · refine ⟨by omega, by omega, Or.inr ⟨by omega, by omega, ?_⟩⟩
        rw [hl2, Nat.add_sub_cancel, ← hv]
        have := leNat_lt (List.take (k + 1) rest)
        rwa [hl1] at this
    · rw [if_neg h61] at h
      by_cases g2 : (decide (rest.length < t / 4 + 1) || decide (dlen - out.size < t / 4 + 1)) = true
      · rw [if_pos g2] at h; cases h
      simp only [Bool.or_eq_true, decide_eq_true_eq, not_or, Nat.not_lt] at g2
      have hl2 : (List.take (t / 4 + 1) rest).length = t / 4 + 1 := by
        rw [List.length_take]; omega
      refine ⟨.lit 0 (List.take (t / 4 + 1) rest), List.drop (t / 4 + 1) rest, ?_, ?_⟩
      · simp only [SElem.ser, hl2, Nat.add_sub_cancel, List.cons_append, List.take_append_drop]
        have e1 : t / 4 * 4 = t := by omega
        rw [e1]
      · refine ⟨by omega, by omega, Or.inl ⟨rfl, by omega⟩⟩
  · have hn0 : (t % 4 == 0) = false := by simpa using h0
    simp only [hn0, Bool.false_eq_true, if_false] at h
    by_cases h1 : t % 4 = 1
    · simp only [h1, beq_self_eq_true, if_true] at h
      cases rest with
      | nil => simp at h
      | cons b r =>
        have hb : b.toNat < 256 := UInt8.toNat_lt b
        simp only [List.length_cons, List.take_succ_cons, List.take_zero, leNat_cons, List.drop_succ_cons, List.drop_zero,
          show leNat [] = 0 from rfl, Nat.mul_zero, Nat.add_zero] at h
        rw [if_neg (by omega)] at h
        generalize hv : t / 32 * 256 + b.toNat = v at h
        by_cases g2 : (v == 0 || decide (out.size < v)) = true
        · rw [if_pos g2] at h; cases h
        rw [if_neg g2] at h
        simp only [Bool.or_eq_true, beq_iff_eq, decide_eq_true_eq, not_or, Nat.not_lt] at g2
        by_cases g3 : out.size + (4 + t / 4 % 8) > dlen
        · rw [if_pos g3] at h; cases h
        refine ⟨.copy1 (4 + t / 4 % 8) v, r, ?_, ?_⟩
        · simp only [SElem.ser, List.cons_append, List.nil_append]
          have e1 : 1 + (4 + t / 4 % 8 - 4) * 4 + v / 256 * 32 = t := by omega
          have e2 : v % 256 = b.toNat := by omega
          rw [e1, e2, UInt8.ofNat_toNat]
        · exact ⟨by omega, by omega, by omega, by omega, by omega, by omega⟩
    · have hn1 : (t % 4 == 1) = false := by simpa using h1
      simp only [hn1, Bool.false_eq_true, if_false] at h
      by_cases h2 : t % 4 = 2
      · simp only [h2, beq_self_eq_true, if_true] at h
        by_cases g1 : rest.length < 2
        · rw [if_pos g1] at h; cases h
        rw [if_neg g1] at h
        simp only [Nat.zero_add] at h
        generalize hv : leNat (List.take 2 rest) = v at h
        by_cases g2 : (v == 0 || decide (out.size < v)) = true
        · rw [if_pos g2] at h; cases h
        rw [if_neg g2] at h
        simp only [Bool.or_eq_true, beq_iff_eq, decide_eq_true_eq, not_or, Nat.not_lt] at g2
        by_cases g3 : out.size + (1 + t / 4) > dlen
        · rw [if_pos g3] at h; cases h
        have hl1 : (List.take 2 rest).length = 2 := by simp; omega
        have hlt := leNat_lt (List.take 2 rest)
        rw [hl1, hv] at hlt
        refine ⟨.copy2 (1 + t / 4) v, List.drop 2 rest, ?_, ?_⟩
        · simp only [SElem.ser, List.cons_append]
          have e1 : 2 + (1 + t / 4 - 1) * 4 = t := by omega
          rw [e1]
          congr 1
          have := leBytes_leNat (List.take 2 rest)
          rw [hl1, hv] at this
          rw [this, List.take_append_drop]
        · exact ⟨by omega, by omega, by omega, by simpa using hlt, by omega, by omega⟩
      · have hn2 : (t % 4 == 2) = false := by simpa using h2
        simp only [hn2, Bool.false_eq_true, if_false] at h
        by_cases g1 : rest.length < 4
        · rw [if_pos g1] at h; cases h
        rw [if_neg g1] at h
        simp only [Nat.zero_add] at h
        generalize hv : leNat (List.take 4 rest) = v at h
        by_cases g2 : (v == 0 || decide (out.size < v)) = true
        · rw [if_pos g2] at h; cases h
        rw [if_neg g2] at h
        simp only [Bool.or_eq_true, beq_iff_eq, decide_eq_true_eq, not_or, Nat.not_lt] at g2
        by_cases g3 : out.size + (1 + t / 4) > dlen
        · rw [if_pos g3] at h; cases h
        have hl1 : (List.take 4 rest).length = 4 := by simp; omega
        have hlt := leNat_lt (List.take 4 rest)
        rw [hl1, hv] at hlt
        refine ⟨.copy4 (1 + t / 4) v, List.drop 4 rest, ?_, ?_⟩
        · simp only [SElem.ser, List.cons_append]
          have e1 : 3 + (1 + t / 4 - 1) * 4 = t := by omega
          rw [e1]
          congr 1
          have := leBytes_leNat (List.take 4 rest)
          rw [hl1, hv] at this
          rw [this, List.take_append_drop]
        · exact ⟨by omega, by omega, by omega, by simpa using hlt, by omega, by omega⟩

theorem pstep_wf (o dlen fuel : Nat) (e : SElem) (rest : List UInt8) (hw : e.WF o dlen) :
    parseElems (fuel + 1) (e.ser ++ rest) = (parseElems fuel rest).map (fun es => e :: es) := by
  cases e with
  | lit nb bs =>
    obtain ⟨a1, a2, a3⟩ := hw
    cases nb with
    | zero => exact pstep_lit0 _ _ _ a1 (by omega)
    | succ nb => exact pstep_litN _ _ _ _ a1 (by omega) (by omega)
  | copy1 len off =>
    obtain ⟨a1, a2, a3, a4, a5, a6⟩ := hw
    exact pstep_copy1 _ _ _ _ a1 a2 a4
  | copy2 len off =>
    obtain ⟨a1, a2, a3, a4, a5, a6⟩ := hw
    exact pstep_copy2 _ _ _ _ a1 a2 a4
  | copy4 len off =>
    obtain ⟨a1, a2, a3, a4, a5, a6⟩ := hw
    exact pstep_copy4 _ _ _ _ a1 a2 a4

theorem step_wf (dlen fuel : Nat) (e : SElem) (rest : List UInt8) (out : Array UInt8)
    (hw : e.WF out.size dlen) :
    ∃ out' : Array UInt8, snappyElems dlen (fuel + 1) (e.ser ++ rest) out = snappyElems dlen fuel rest out' ∧
      out'.size = out.size + e.outLen ∧ out'.toList = e.denote out.toList := by
  cases e with
  | lit nb bs =>
    obtain ⟨a1, a2, a3⟩ := hw
    refine ⟨out ++ bs.toArray, ?_, by simp [SElem.outLen], by simp [SElem.denote]⟩
    cases nb with
    | zero => exact step_lit0 _ _ _ _ _ a1 a2 (by omega)
    | succ nb => exact step_litN _ _ _ _ _ _ a1 a2 (by omega) (by omega)
  | copy1 len off =>
    exact ⟨copyBack out off len, step_copy1 _ _ _ _ _ _ hw, copyBack_size _ _ _,
      copyBack_toList _ _ _ hw.2.2.1 hw.2.2.2.2.1⟩
  | copy2 len off =>
    exact ⟨copyBack out off len, step_copy2 _ _ _ _ _ _ hw, copyBack_size _ _ _,
      copyBack_toList _ _ _ hw.2.2.1 hw.2.2.2.2.1⟩
  | copy4 len off =>
    exact ⟨copyBack out off len, step_copy4 _ _ _ _ _ _ hw, copyBack_size _ _ _,
      copyBack_toList _ _ _ hw.2.2.1 hw.2.2.2.2.1⟩

theorem elems_sound (dlen fuel : Nat) (src : List UInt8) (out res : Array UInt8)
    (h : snappyElems dlen fuel src out = some res) :
    ∃ es, parseElems fuel src = some es ∧ es.flatMap SElem.ser = src ∧ WFs dlen out.size es ∧
      res.toList = denote out.toList es := by
  induction fuel generalizing src out with
  | zero =>
    cases src with
    | nil =>
      simp [snappyElems] at h; subst h
      exact ⟨[], by simp [parseElems], rfl, trivial, rfl⟩
    | cons a l => simp [snappyElems] at h
  | succ fuel ih =>
    cases src with
    | nil =>
      simp [snappyElems] at h; subst h
      exact ⟨[], by simp [parseElems], rfl, trivial, rfl⟩
    | cons tag rest =>
      obtain ⟨e, rest', heq, hw⟩ := inv_step _ _ _ _ _ _ h
      rw [heq] at h ⊢
      obtain ⟨out', hs, hsz, hl⟩ := step_wf dlen fuel e rest' out hw
      rw [hs] at h
      obtain ⟨es, hp, hser, hwfs, hden⟩ := ih rest' out' h
      refine ⟨e :: es, ?_, ?_, ⟨hw, ?_⟩, ?_⟩
      · rw [pstep_wf _ _ _ _ _ hw, hp]; rfl
      · rw [List.flatMap_cons, hser]
      · rw [← hsz]; exact hwfs
      · rw [hden, hl]; rfl

theorem block_sound (blk data : List UInt8) (h : snappyDecompress blk = some data) :
    ∃ es, es.flatMap SElem.ser = blk.drop (readVarint blk).2 ∧ WFs data.length 0 es ∧
      denote [] es = data ∧ data.length ≤ 65536 ∧ (readVarint blk).1 = data.length := by
  unfold snappyDecompress at h
  split at h
  · cases h
  split at h
  · cases h
  rename_i dlen hlen hh
  split at h
  · cases h
  rename_i hle
  split at h
  · cases h
  rename_i o ho
  split at h
  · rename_i hsz
    simp only [beq_iff_eq] at hsz
    simp only [Option.some.injEq] at h
    have hrv : readVarint blk = (dlen, hlen) := by
      unfold snappyHeader at hh
      generalize readVarint blk = p at hh ⊢
      obtain ⟨a, b⟩ := p
      simp only at hh
      split at hh
      · cases hh
      split at hh
      · cases hh
      simp only [Option.some.injEq, Prod.mk.injEq] at hh
      rw [hh.1, hh.2]
    obtain ⟨es, _, hser, hwfs, hden⟩ := elems_sound _ _ _ _ _ ho
    have hdl : data.length = dlen := by rw [← h]; simpa using hsz
    refine ⟨es, ?_, ?_, ?_, ?_, ?_⟩
    · rw [hser, hrv]
    · rw [hdl]; simpa using hwfs
    · rw [← h, hden]
    · omega
    · rw [hrv, hdl]
  · cases h

end SkaModel.SnappyLemmas
