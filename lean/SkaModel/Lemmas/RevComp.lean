/-
The base-reversal network `reverseGroups` and `revComp`, bit by bit.
Kernel-only: the per-stage masks and the composed index permutation are
checked with `decide` over the `W` bit positions.
-/
import SkaModel.Lemmas.Pack

namespace SkaModel

open SkaModel.Spec

/-- the source position of bit `i` after one swap stage with distance `s` -/
def flipIdx (s i : Nat) : Nat := if (i / s) % 2 = 0 then i + s else i - s

theorem div_sub_self {i s : Nat} (hs : 0 < s) (hge : s ≤ i) : i / s = (i - s) / s + 1 := by
  have := Nat.add_div_right (i - s) hs
  rwa [Nat.sub_add_cancel hge] at this

theorem swapStage_testBit (W x s m i : Nat) (hs : 0 < s) (hi : i < W)
    (hm : ∀ j, j < W → m.testBit j = decide ((j / s) % 2 = 0)) :
    (swapStage W x s m).testBit i = x.testBit (flipIdx s i) := by
  unfold swapStage shl flipIdx
  simp only [Nat.testBit_or, Nat.testBit_and, Nat.testBit_shiftRight, Nat.testBit_mod_two_pow,
    Nat.testBit_shiftLeft]
  rw [hm i hi]
  by_cases h0 : (i / s) % 2 = 0
  · have h2 : (decide (i ≥ s) && (x.testBit (i - s) && m.testBit (i - s))) = false := by
      by_cases hge : i ≥ s
      · have := div_sub_self hs hge
        have h1 : ¬ ((i - s) / s) % 2 = 0 := by omega
        rw [hm (i - s) (by omega)]; simp [h1]
      · simp [hge]
    rw [h2]
    simp [h0, Nat.add_comm]
  · have hge : i ≥ s := by
      apply Classical.byContradiction
      intro hlt
      have : i / s = 0 := Nat.div_eq_of_lt (by omega)
      omega
    have := div_sub_self hs hge
    have h1 : ((i - s) / s) % 2 = 0 := by omega
    rw [hm (i - s) (by omega)]
    simp [h0, h1, hge, hi]

theorem swapStage_lt (W x s m : Nat) (hm : m < 2 ^ W) : swapStage W x s m < 2 ^ W := by
  unfold swapStage shl
  apply Nat.or_lt_two_pow
  · exact Nat.lt_of_le_of_lt Nat.and_le_right hm
  · exact Nat.mod_lt _ (Nat.pow_pos (by omega))

/-- a stage is well formed for width `W` -/
def StageOk (W : Nat) (sm : Nat × Nat) : Prop :=
  0 < sm.1 ∧ sm.2 < 2 ^ W ∧
  (∀ j, j < W → sm.2.testBit j = decide ((j / sm.1) % 2 = 0)) ∧
  (∀ j, j < W → flipIdx sm.1 j < W)

instance (W : Nat) (sm : Nat × Nat) : Decidable (StageOk W sm) := by
  unfold StageOk; infer_instance

/-- the composed source position -/
def permIdx (l : List (Nat × Nat)) (i : Nat) : Nat := l.foldr (fun sm j => flipIdx sm.1 j) i

theorem foldl_stages (W : Nat) (l : List (Nat × Nat)) (hl : ∀ sm ∈ l, StageOk W sm)
    (x i : Nat) (hi : i < W) :
    permIdx l i < W ∧
    (l.foldl (fun acc sm => swapStage W acc sm.1 sm.2) x).testBit i = x.testBit (permIdx l i) := by
  induction l generalizing x with
  | nil => exact ⟨hi, rfl⟩
  | cons sm l ih =>
    have hsm := hl sm List.mem_cons_self
    have hl' : ∀ sm ∈ l, StageOk W sm := fun a ha => hl a (List.mem_cons_of_mem _ ha)
    obtain ⟨hb, _⟩ := ih hl' x
    refine ⟨hsm.2.2.2 _ hb, ?_⟩
    rw [List.foldl_cons, (ih hl' _).2, swapStage_testBit W x sm.1 sm.2 _ hsm.1 hb hsm.2.2.1]
    rfl

theorem foldl_stages_lt (W : Nat) (l : List (Nat × Nat)) (hl : ∀ sm ∈ l, StageOk W sm)
    (x : Nat) (hx : x < 2 ^ W) :
    l.foldl (fun acc sm => swapStage W acc sm.1 sm.2) x < 2 ^ W := by
  induction l generalizing x with
  | nil => exact hx
  | cons sm l ih =>
    rw [List.foldl_cons]
    exact ih (fun a ha => hl a (List.mem_cons_of_mem _ ha)) _
      (swapStage_lt W x sm.1 sm.2 (hl sm List.mem_cons_self).2.1)

/-- position of bit `i` in the word with its `W/2` two-bit groups reversed -/
def revIdx (W i : Nat) : Nat := W - 2 - 2 * (i / 2) + i % 2

theorem stages_ok_64 : ∀ sm ∈ rcStages 64, StageOk 64 sm := by decide +kernel
theorem stages_ok_128 : ∀ sm ∈ rcStages 128, StageOk 128 sm := by decide +kernel

theorem perm_64 : ∀ i, i < 64 → permIdx (rcStages 64) i = revIdx 64 i := by decide +kernel
theorem perm_128 : ∀ i, i < 128 → permIdx (rcStages 128) i = revIdx 128 i := by decide +kernel

theorem rcXor_bits_64 : ∀ i, i < 64 → (rcXor 64).testBit i = decide (i % 2 = 1) := by
  decide +kernel
theorem rcXor_bits_128 : ∀ i, i < 128 → (rcXor 128).testBit i = decide (i % 2 = 1) := by
  decide +kernel

theorem rcXor_lt_64 : rcXor 64 < 2 ^ 64 := by decide +kernel
theorem rcXor_lt_128 : rcXor 128 < 2 ^ 128 := by decide +kernel

theorem reverseGroups_spec (W : Nat) (hW : W = 64 ∨ W = 128) (x : Nat) (hx : x < 2 ^ W) :
    reverseGroups W x < 2 ^ W ∧
    ∀ i, i < W → (reverseGroups W x).testBit i = x.testBit (revIdx W i) := by
  unfold reverseGroups
  rcases hW with rfl | rfl
  · refine ⟨foldl_stages_lt 64 _ stages_ok_64 x hx, fun i hi => ?_⟩
    rw [(foldl_stages 64 _ stages_ok_64 x i hi).2, perm_64 i hi]
  · refine ⟨foldl_stages_lt 128 _ stages_ok_128 x hx, fun i hi => ?_⟩
    rw [(foldl_stages 128 _ stages_ok_128 x i hi).2, perm_128 i hi]

theorem rcXor_spec (W : Nat) (hW : W = 64 ∨ W = 128) :
    rcXor W < 2 ^ W ∧ ∀ i, i < W → (rcXor W).testBit i = decide (i % 2 = 1) := by
  rcases hW with rfl | rfl
  · exact ⟨rcXor_lt_64, rcXor_bits_64⟩
  · exact ⟨rcXor_lt_128, rcXor_bits_128⟩

/-- bit `i` of `rev_comp(x, n)`: the complemented bit of the mirrored group -/
theorem revComp_testBit (W : Nat) (hW : W = 64 ∨ W = 128) (x n : Nat) (hx : x < 2 ^ W)
    (hn : n ≤ W / 2) (i : Nat) :
    (revComp W x n).testBit i =
      (decide (i < 2 * n) && (x.testBit (2 * (n - 1 - i / 2) + i % 2) ^^ decide (i % 2 = 1))) := by
  obtain ⟨hrlt, hr⟩ := reverseGroups_spec W hW x hx
  obtain ⟨hxlt, hxb⟩ := rcXor_spec W hW
  unfold revComp
  rw [Nat.testBit_shiftRight, Nat.testBit_xor]
  by_cases hi : i < 2 * n
  · have hlt : 2 * (W / 2 - n) + i < W := by rcases hW with rfl | rfl <;> omega
    rw [hr _ hlt, hxb _ hlt]
    have e1 : revIdx W (2 * (W / 2 - n) + i) = 2 * (n - 1 - i / 2) + i % 2 := by
      unfold revIdx; rcases hW with rfl | rfl <;> omega
    have e2 : (2 * (W / 2 - n) + i) % 2 = i % 2 := by omega
    rw [e1, e2]
    simp [hi]
  · have hge : W ≤ 2 * (W / 2 - n) + i := by rcases hW with rfl | rfl <;> omega
    have hp : 2 ^ W ≤ 2 ^ (2 * (W / 2 - n) + i) := Nat.pow_le_pow_right (by omega) hge
    rw [Nat.testBit_lt_two_pow (Nat.lt_of_lt_of_le hrlt hp),
      Nat.testBit_lt_two_pow (Nat.lt_of_lt_of_le hxlt hp)]
    simp [hi]

theorem two_testBit (b : Nat) (hb : b < 2) : (2 : Nat).testBit b = decide (b = 1) := by
  have : b = 0 ∨ b = 1 := by omega
  rcases this with rfl | rfl <;> decide

/-- `rev_comp` of a packed word is the packed reverse complement -/
theorem revComp_packL (W : Nat) (hW : W = 64 ∨ W = 128) (cs : List Nat) (hc : Codes cs)
    (n : Nat) (hlen : cs.length = n) (hn : n ≤ W / 2) :
    revComp W (packL cs) n = packL (rcCodes cs) := by
  have hx : packL cs < 2 ^ W := packL_lt_two_pow hc (by omega)
  apply Nat.eq_of_testBit_eq
  intro i
  rw [revComp_testBit W hW _ n hx hn i, packL_testBit _ hc, packL_testBit _ (rcCodes_codes hc)]
  have e1 : (2 * (n - 1 - i / 2) + i % 2) / 2 = n - 1 - i / 2 := by omega
  have e2 : (2 * (n - 1 - i / 2) + i % 2) % 2 = i % 2 := by omega
  have e3 : (rcCodes cs).reverse = cs.map (· ^^^ 2) := by
    unfold rcCodes; rw [← List.map_reverse, List.reverse_reverse]
  rw [e1, e2, e3, List.getD_eq_getElem?_getD, List.getD_eq_getElem?_getD, List.getElem?_map]
  by_cases hi : i < 2 * n
  · have hi2 : i / 2 < cs.length := by omega
    rw [List.getElem?_reverse (by omega)]
    have e4 : cs.length - 1 - (n - 1 - i / 2) = i / 2 := by omega
    rw [e4, List.getElem?_eq_getElem hi2]
    simp only [Option.map_some, Option.getD_some, Nat.testBit_xor]
    rw [two_testBit _ (Nat.mod_lt _ (by omega))]
    simp [hi]
  · have hi2 : cs.length ≤ i / 2 := by omega
    rw [List.getElem?_eq_none hi2]
    simp [hi]

theorem revComp_invol (W : Nat) (hW : W = 64 ∨ W = 128) (cs : List Nat) (hc : Codes cs)
    (n : Nat) (hlen : cs.length = n) (hn : n ≤ W / 2) :
    revComp W (revComp W (packL cs) n) n = packL cs := by
  rw [revComp_packL W hW cs hc n hlen hn,
    revComp_packL W hW _ (rcCodes_codes hc) n (by rw [rcCodes_length, hlen]) hn, rcCodes_rcCodes]

end SkaModel
