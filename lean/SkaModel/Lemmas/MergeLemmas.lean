/-
`MergeSkaDict::extend` against `Table.concat`: dictionary-level well-formedness and
abstraction, `to_dict`/`new` round trip, and the refinement step used by C07.
-/
import SkaModel.Spec.Abs
import SkaModel.Lemmas.TableLemmas

namespace SkaModel

open Spec

/-! ### the `0 ↦ '-'` map of `MergeSkaArray::new` -/

/-- `u8::max(b, b'-')` -/
def fixCell (b : UInt8) : UInt8 := max b GAP

theorem fixCell_eq (b : UInt8) : fixCell b = if b ≤ GAP then GAP else b := rfl

theorem fixCell_of_ge {b : UInt8} (h : GAP ≤ b) : fixCell b = b := by
  rw [fixCell_eq]
  split
  · rename_i h'; exact UInt8.le_antisymm h h'
  · rfl

theorem gap_le_fixCell (b : UInt8) : GAP ≤ fixCell b := by
  rw [fixCell_eq]
  split
  · exact UInt8.le_refl _
  · rename_i h'; exact UInt8.le_of_lt (UInt8.not_le.mp h')

theorem fixCell_ne_zero (b : UInt8) : fixCell b ≠ 0 := by
  intro h
  have := gap_le_fixCell b
  rw [h] at this
  exact absurd this (by decide)

theorem fixCell_zero : fixCell 0 = GAP := by decide

theorem map_fixCell_of_ge {row : List UInt8} (h : ∀ b ∈ row, GAP ≤ b) : row.map fixCell = row := by
  rw [List.map_congr_left (g := id)]
  · simp
  · intro b hb; exact fixCell_of_ge (h b hb)

/-! ### predicates -/

/-- every stored cell is a real symbol: `'-'` (45) or a letter (all letters are ≥ 65) -/
def Arr.CellsGE (a : Arr) : Prop := ∀ row ∈ a.variants, ∀ b ∈ row, GAP ≤ b

theorem Arr.CellsGE.noZero {a : Arr} (h : a.CellsGE) : a.NoZero := by
  intro row hr b hb e
  have := h row hr b hb
  rw [e] at this
  exact absurd this (by decide)

/-- shape invariant of a `MergeSkaDict` -/
structure MDict.WF (d : MDict) : Prop where
  nS : d.nSamples = d.names.length
  rowLen : ∀ kv ∈ d.kmers, kv.2.length = d.nSamples
  nodup : (Assoc.keys d.kmers).Nodup

/-- cells of a dictionary built from files: 0 (absent) or a real symbol -/
def MDict.Cells (d : MDict) : Prop := ∀ kv ∈ d.kmers, ∀ b ∈ kv.2, b = 0 ∨ GAP ≤ b

/-- the table a dictionary stands for (what `MergeSkaArray::new` will write) -/
def MDict.abs (d : MDict) : Table :=
  { names := d.names, rows := d.kmers.map (fun kv => (kv.1, kv.2.map fixCell)) }

/-! ### `MergeSkaArray::new` -/

theorem ofDict_abs (W : Nat) (d : MDict) : (Arr.ofDict W d).abs = d.abs := by
  simp only [Arr.abs, Arr.ofDict, MDict.abs, List.zip_map']
  rfl

theorem ofDict_k (W : Nat) (d : MDict) : (Arr.ofDict W d).k = d.k := rfl
theorem ofDict_rc (W : Nat) (d : MDict) : (Arr.ofDict W d).rc = d.rc := rfl
theorem ofDict_names (W : Nat) (d : MDict) : (Arr.ofDict W d).names = d.names := rfl

theorem ofDict_cellsGE (W : Nat) (d : MDict) : (Arr.ofDict W d).CellsGE := by
  intro row hr b hb
  simp only [Arr.ofDict, List.mem_map] at hr
  obtain ⟨kv, _, rfl⟩ := hr
  simp only [List.mem_map] at hb
  obtain ⟨c, _, rfl⟩ := hb
  exact gap_le_fixCell c

theorem ofDict_wf_J (W : Nat) (d : MDict) (hd : d.WF) : (Arr.ofDict W d).WF where
  lenV := by simp [Arr.ofDict]
  lenC := by simp [Arr.ofDict]
  rowLen := by
    intro row hr
    simp only [Arr.ofDict, List.mem_map] at hr
    obtain ⟨kv, hkv, rfl⟩ := hr
    simp only [Arr.ofDict, List.length_map]
    rw [hd.rowLen kv hkv, hd.nS]
  nodup := hd.nodup

/-- the counts `new` computes are the non-gap cell counts of the rows it writes -/
theorem ofDict_counts (W : Nat) (d : MDict) (hc : d.Cells) :
    (Arr.ofDict W d).counts = (Arr.ofDict W d).variants.map (Arr.cellCount false) := by
  simp only [Arr.ofDict, List.map_map]
  apply List.map_congr_left
  intro kv hkv
  simp only [Function.comp_def, Arr.cellCount, Bool.not_false, Bool.true_or, Bool.and_true,
    List.filter_map, List.length_map]
  congr 1
  apply List.filter_congr
  intro b hb
  rcases hc kv hkv b hb with h | h
  · subst h; decide
  · have h0 : b ≠ 0 := by
      intro e; rw [e] at h; exact absurd h (by decide)
    have : max b GAP = b := fixCell_of_ge h
    rw [this]
    simp [h0]

/-! ### `to_dict` -/

theorem toDict_fold (L : List (List UInt8 × Nat)) (acc : Assoc Nat (List UInt8))
    (hn : (L.map (·.2)).Nodup) (hd : ∀ rk ∈ L, rk.2 ∉ Assoc.keys acc) :
    L.foldl (fun acc rk => acc.upsert rk.2 rk.1 (fun _ => rk.1)) acc = acc ++ L.map (fun rk => (rk.2, rk.1)) := by
  induction L generalizing acc with
  | nil => simp
  | cons rk L ih =>
    simp only [List.map_cons, List.nodup_cons] at hn
    simp only [List.foldl_cons]
    rw [Assoc.upsert_of_not_mem _ _ (hd rk (List.mem_cons_self ..))]
    rw [ih _ hn.2]
    · simp
    · intro rk' hrk'
      simp only [Assoc.keys_append, Assoc.keys_cons, Assoc.keys_nil, List.mem_append,
        List.mem_singleton, not_or]
      refine ⟨hd rk' (List.mem_cons_of_mem _ hrk'), ?_⟩
      intro e
      exact hn.1 (e ▸ List.mem_map_of_mem (f := (·.2)) hrk')

theorem toDict_kmers (a : Arr) (ha : a.WF) : a.toDict.kmers = a.kmers.zip a.variants := by
  simp only [Arr.toDict]
  rw [toDict_fold]
  · simp only [List.nil_append]
    exact map_swap_zip _ _
  · rw [List.map_snd_zip (by rw [ha.lenV]; exact Nat.le_refl _)]
    exact ha.nodup
  · intro _ _; simp

theorem toDict_keys (a : Arr) (ha : a.WF) : Assoc.keys a.toDict.kmers = a.kmers := by
  rw [toDict_kmers a ha, Assoc.keys]
  exact List.map_fst_zip (by rw [ha.lenV]; exact Nat.le_refl _)

theorem toDict_wf (a : Arr) (ha : a.WF) : a.toDict.WF where
  nS := rfl
  rowLen := by
    intro kv hkv
    rw [toDict_kmers a ha] at hkv
    exact ha.rowLen _ (List.of_mem_zip hkv).2
  nodup := by rw [toDict_keys a ha]; exact ha.nodup

theorem toDict_cells (a : Arr) (ha : a.WF) (hc : a.CellsGE) : a.toDict.Cells := by
  intro kv hkv b hb
  rw [toDict_kmers a ha] at hkv
  exact Or.inr (hc _ (List.of_mem_zip hkv).2 b hb)

theorem toDict_abs (a : Arr) (ha : a.WF) (hc : a.CellsGE) : a.toDict.abs = a.abs := by
  simp only [MDict.abs, Arr.abs]
  rw [toDict_kmers a ha]
  congr 1
  rw [List.map_congr_left (g := id)]
  · simp
  · intro kv hkv
    have := map_fixCell_of_ge (hc _ (List.of_mem_zip hkv).2)
    simp only [this]; rfl

end SkaModel
