/-
Byte facts (complete enumeration) and array facts for the input transformations
of C02: `applyCase`, `revCompSeq`.
-/
import SkaModel.Spec.Transforms
import SkaModel.Lemmas.Bytes
import SkaModel.Lemmas.Pack
import SkaModel.Lemmas.MaskOf

namespace SkaModel

open SkaModel.Spec

/-! ### bytes, by enumeration of all 256 values -/

theorem code_flipCase : ∀ b : UInt8, code (flipCase b) = code b :=
  forall_uint8 (by decide +kernel)

theorem validBase_flipCase : ∀ b : UInt8, validBase (flipCase b) = validBase b :=
  forall_uint8 (by decide +kernel)

theorem isDna_flipCase : ∀ b : UInt8, isDna b = true → isDna (flipCase b) = true :=
  forall_uint8 (by decide +kernel)

theorem validBase_compByte : ∀ b : UInt8, validBase (compByte b) = validBase b :=
  forall_uint8 (by decide +kernel)

theorem isDna_compByte : ∀ b : UInt8, isDna (compByte b) = isDna b :=
  forall_uint8 (by decide +kernel)

theorem compByte_compByte : ∀ b : UInt8, compByte (compByte b) = b :=
  forall_uint8 (by decide +kernel)

/-- on A C G T a c g t the complement flips bit 1 of the 2-bit code -/
theorem code_compByte : ∀ b : UInt8, isDna b = true → validBase b = true →
    code (compByte b) = code b ^^^ 2 :=
  forall_uint8 (by decide +kernel)

/-! ### records that agree on `validBase` and `code` -/

/-- same length, and position by position the same acceptability and the same 2-bit code -/
def SameCodes (a b : Array UInt8) : Prop :=
  b.size = a.size ∧ ∀ p, validBase (b.getD p 0) = validBase (a.getD p 0) ∧
    code (b.getD p 0) = code (a.getD p 0)

theorem SameCodes.windows {a b : Array UInt8} (h : SameCodes a b) (k : Nat) :
    windows k b = windows k a := by
  unfold Spec.windows
  have : (fun p => validBase (b.getD p 0)) = (fun p => validBase (a.getD p 0)) :=
    funext fun p => (h.2 p).1
  rw [h.1, this]

theorem SameCodes.codesAt {a b : Array UInt8} (h : SameCodes a b) (s n : Nat) :
    codesAt b s n = codesAt a s n := by
  unfold Spec.codesAt
  have : (fun t => code (b.getD (s + t) 0)) = (fun t => code (a.getD (s + t) 0)) :=
    funext fun t => (h.2 (s + t)).2
  rw [this]

theorem SameCodes.armsAt {a b : Array UInt8} (h : SameCodes a b) (k j : Nat) :
    armsAt k b j = armsAt k a j := by
  unfold Spec.armsAt
  simp only [h.codesAt]

theorem SameCodes.midAt {a b : Array UInt8} (h : SameCodes a b) (k j : Nat) :
    midAt k b j = midAt k a j := by
  unfold Spec.midAt
  exact (h.2 _).2

theorem SameCodes.obs {a b : Array UInt8} (h : SameCodes a b) (k : Nat) (rc : Bool) (j : Nat) :
    obs k rc b j = obs k rc a j := by
  unfold Spec.obs
  simp only [h.armsAt, h.midAt]

theorem SameCodes.obsMask {a b : Array UInt8} (h : SameCodes a b) (k : Nat) (rc : Bool)
    (j : Nat) : obsMask k rc b j = obsMask k rc a j := by
  unfold Spec.obsMask Spec.isPalin
  simp only [h.armsAt, h.obs]

theorem SameCodes.observations {a b : Array UInt8} (h : SameCodes a b) (k : Nat) (rc : Bool) :
    observations k rc [b] = observations k rc [a] := by
  rw [observations_single, observations_single, h.windows]
  simp only [h.obs, h.obsMask]

/-! ### `applyCase` -/

theorem applyCase_size (m : List Bool) (r : Array UInt8) : (applyCase m r).size = r.size := by
  simp [applyCase]

theorem applyCase_getD (m : List Bool) (r : Array UInt8) (p : Nat) :
    (applyCase m r).getD p 0
      = if p < r.size then
          (if m.getD p false then flipCase (r.getD p 0) else r.getD p 0)
        else 0 := by
  unfold applyCase
  rw [Array.getD_eq_getD_getElem?, List.getElem?_toArray, List.getElem?_map,
    List.getElem?_zipIdx, Array.getD_eq_getD_getElem?]
  by_cases hp : p < r.size
  · simp [hp]
  · simp [hp]

theorem applyCase_sameCodes (m : List Bool) (r : Array UInt8) : SameCodes r (applyCase m r) := by
  refine ⟨applyCase_size m r, fun p => ?_⟩
  rw [applyCase_getD]
  by_cases hp : p < r.size
  · rw [if_pos hp]
    by_cases hm : m.getD p false = true
    · rw [if_pos hm]; exact ⟨validBase_flipCase _, code_flipCase _⟩
    · rw [if_neg hm]; exact ⟨rfl, rfl⟩
  · rw [if_neg hp]
    have : r.getD p 0 = 0 := by
      rw [Array.getD_eq_getD_getElem?]; simp [hp]
    rw [this]; exact ⟨rfl, rfl⟩

/-! ### `revCompSeq` -/

theorem revCompSeq_size (r : Array UInt8) : (revCompSeq r).size = r.size := by
  simp [revCompSeq]

theorem revCompSeq_getD (r : Array UInt8) (p : Nat) (hp : p < r.size) :
    (revCompSeq r).getD p 0 = compByte (r.getD (r.size - 1 - p) 0) := by
  unfold revCompSeq
  rw [Array.getD_eq_getD_getElem?, List.getElem?_toArray, List.getElem?_map,
    List.getElem?_reverse (by simpa using hp), Array.getD_eq_getD_getElem?]
  have h2 : r.size - 1 - p < r.size := by omega
  simp [h2]

theorem revCompSeq_revCompSeq (r : Array UInt8) : revCompSeq (revCompSeq r) = r := by
  unfold revCompSeq
  simp only [List.map_reverse, List.reverse_reverse, List.map_map]
  have : compByte ∘ compByte = id := funext compByte_compByte
  rw [this, List.map_id]

/-- every byte of the record is one of A C G T N a c g t n -/
def AllDna (r : Array UInt8) : Prop := ∀ p, p < r.size → isDna (r.getD p 0) = true

theorem AllDna.revCompSeq {r : Array UInt8} (h : AllDna r) : AllDna (revCompSeq r) := by
  intro p hp
  rw [revCompSeq_size] at hp
  rw [revCompSeq_getD r p hp, isDna_compByte]
  exact h _ (by omega)

end SkaModel
