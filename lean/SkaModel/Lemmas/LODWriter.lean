/-
C17 (second sentence) — through the writer `create_fasta_and_vcf`: for the placed columns of a planted family
(exactly the sites with their true columns, in any order) and the ancestor as reference, the SNP alignment has
one column per site in coordinate order, the VCF records are (site, reference base, true column) in
coordinate order, and every pseudo-genome IS the sample.
-/
import SkaModel.Lemmas.LODFinal
import SkaModel.Lemmas.LOWriter

namespace SkaModel.LOD

open SkaModel SkaModel.Spec SkaModel.Props.C16 SkaModel.Skalo SkaModel.LOC

theorem san_base {b : UInt8} (h : isBase b = true) : LOW.san b = b := by
  rcases isBase_cases h with rfl | rfl | rfl | rfl <;> decide

variable {k L : Nat} {A : List UInt8} {S : List (List UInt8)} {P : List Nat}

theorem truePlaced_sorted (pf : PFam k L S P) (hk : 1 ≤ k) :
    (truePlaced S P).Pairwise (fun a b => a.1 < b.1) := by
  unfold truePlaced
  rw [List.pairwise_map]
  exact pf.sorted hk

theorem truePlaced_fst (S : List (List UInt8)) (P : List Nat) : (truePlaced S P).map (·.1) = P := by
  unfold truePlaced
  rw [List.map_map]
  exact List.map_id _

/-- the writer sorts the placed columns back into coordinate order -/
theorem sorted_placed (pf : PFam k L S P) (hk : 1 ≤ k) {placed : List (Nat × List UInt8)}
    (hp : placed.Perm (truePlaced S P)) : sortByKey (·.1) placed = truePlaced S P := by
  have hnd : (placed.map (·.1)).Nodup := by
    have := (hp.map (·.1)).nodup_iff.mpr (by
      rw [truePlaced_fst]
      exact (pf.sorted hk).imp (fun h => Nat.ne_of_lt h))
    exact this
  have h1 := LOW.sortByKey_perm' (fun (v : Nat × List UInt8) => v.1) placed
  have h2 := LOW.sortByKey_strictSorted (fun (v : Nat × List UInt8) => v.1) placed hnd
  exact (h1.trans hp).eq_of_pairwise (fun a b _ _ hab hba => by omega) h2 (truePlaced_sorted pf hk)

/-- **through the writer** -/
theorem writer_planted (pfA : PFam k L (A :: S) P) (pf : PFam k L S P) (hk : 1 ≤ k) (hL : 0 < L)
    {placed : List (Nat × List UInt8)} (hp : placed.Perm (truePlaced S P)) :
    createFastaAndVcf A S.length placed =
      { snpSeqs := S.map (fun s => P.map (fun p => s.getD p 0)),
        pseudo := some S,
        vcf := P.map (fun p => (p, A.getD p 0, S.map (fun s => s.getD p 0))) } := by
  have hAm : A ∈ A :: S := List.mem_cons_self ..
  have hlA := pfA.len hAm
  have hAne : A ≠ [] := by intro e; rw [e] at hlA; simp at hlA; omega
  have hmemP : ∀ v ∈ placed, v.1 ∈ P ∧ v.2 = S.map (fun s => s.getD v.1 0) := by
    intro v hv
    have := hp.mem_iff.mp hv
    unfold truePlaced at this
    obtain ⟨p, hp', rfl⟩ := List.mem_map.mp this
    exact ⟨hp', rfl⟩
  have hnd : (placed.map (·.1)).Nodup :=
    (hp.map (·.1)).nodup_iff.mpr (by
      rw [truePlaced_fst]
      exact (pf.sorted hk).imp (fun h => Nat.ne_of_lt h))
  obtain ⟨⟨ha1, ha2⟩, hb, _⟩ := LOW.writer_spec A S.length placed hnd
    (fun v hv => by rw [(hmemP v hv).2, List.length_map])
    (fun _ v hv => by
      have := pf.ends v.1 (hmemP v hv).1
      rw [hlA]; omega)
  obtain ⟨⟨ps, hps, hpsl, hpsi⟩, hvcf⟩ := hb hAne
  rw [sorted_placed pf hk hp] at ha2 hvcf
  -- the three components
  have e1 : (createFastaAndVcf A S.length placed).snpSeqs = S.map (fun s => P.map (fun p => s.getD p 0)) := by
    apply List.ext_getElem?
    intro i
    by_cases hi : i < S.length
    · rw [ha2 i hi, List.getElem?_map, List.getElem?_eq_getElem hi]
      simp only [Option.map_some, Option.some.injEq]
      unfold truePlaced
      rw [List.map_map]
      apply List.map_congr_left
      intro p _
      simp [List.getD_eq_getElem?_getD, List.getElem?_map, List.getElem?_eq_getElem hi]
    · rw [List.getElem?_eq_none (by rw [ha1]; omega), List.getElem?_eq_none (by rw [List.length_map]; omega)]
  have e2 : (createFastaAndVcf A S.length placed).pseudo = some S := by
    rw [hps]
    congr 1
    apply List.ext_getElem?
    intro i
    by_cases hi : i < S.length
    · obtain ⟨s, hs1, hs2, hs3⟩ := hpsi i hi
      have hSi : S[i] ∈ S := List.getElem_mem hi
      rw [hs1, List.getElem?_eq_getElem hi]
      congr 1
      apply List.ext_getElem?
      intro q
      by_cases hq : q < L
      · have hSq : S[i][q]? = some (S[i].getD q 0) := by
          rw [List.getD_eq_getElem?_getD, List.getElem?_eq_getElem (by rw [pf.len hSi]; exact hq)]
          rfl
        by_cases hqP : q ∈ P
        · have hv : (q, S.map (fun s => s.getD q 0)) ∈ placed :=
            hp.mem_iff.mpr (List.mem_map.mpr ⟨q, hqP, rfl⟩)
          rw [(hs3 q (by rw [hlA]; exact hq)).1 _ hv rfl, hSq]
          simp [List.getD_eq_getElem?_getD, List.getElem?_map, List.getElem?_eq_getElem hi]
        · rw [(hs3 q (by rw [hlA]; exact hq)).2 (fun v hv e => hqP (e ▸ (hmemP v hv).1)), hSq,
            san_base (pfA.base hAm _ (getD_mem (by rw [hlA]; exact hq))),
            pfA.off S[i] (List.mem_cons_of_mem _ hSi) A hAm q hq hqP]
      · rw [List.getElem?_eq_none (by rw [hs2, hlA]; omega), List.getElem?_eq_none (by rw [pf.len hSi]; omega)]
    · rw [List.getElem?_eq_none (by omega), List.getElem?_eq_none (by omega)]
  have e3 : (createFastaAndVcf A S.length placed).vcf =
      P.map (fun p => (p, A.getD p 0, S.map (fun s => s.getD p 0))) := by
    rw [hvcf]
    unfold truePlaced
    rw [List.map_map]
    apply List.map_congr_left
    intro p hp'
    have := pf.ends p hp'
    simp only [Function.comp]
    rw [san_base (pfA.base hAm _ (getD_mem (by rw [hlA]; omega)))]
  cases hc : createFastaAndVcf A S.length placed with
  | mk a b c =>
    rw [hc] at e1 e2 e3
    simp only at e1 e2 e3
    rw [e1, e2, e3]


/-- the true pairs on the other strand are those of the mirrored family, in reverse order -/
theorem truePlaced_mirror (pf : PFam k L S P) :
    truePlaced (rcFam S) (mirrorP L P) = (truePlacedRc L S P).reverse := by
  unfold truePlaced truePlacedRc mirrorP rcFam
  rw [List.map_reverse, List.map_map]
  congr 1
  apply List.map_congr_left
  intro p hp
  have hpe := pf.ends p hp
  simp only [Function.comp, List.map_map, Prod.mk.injEq, true_and]
  apply List.map_congr_left
  intro s hs
  simp only [Function.comp]
  rw [rcSeq_getD (by rw [pf.len hs]; omega), pf.len hs, show L - 1 - (L - 1 - p) = p by omega]

/-- **through the writer, the reverse complement of the ancestor as reference**: the pseudo-genomes are the reverse
complements of the samples -/
theorem writer_planted_rc (pfA : PFam k L (A :: S) P) (pf : PFam k L S P) (hk : 1 ≤ k) (hL : 0 < L)
    {placed : List (Nat × List UInt8)} (hp : placed.Perm (truePlacedRc L S P)) :
    createFastaAndVcf (rcSeq A) S.length placed =
      { snpSeqs := (rcFam S).map (fun s => (mirrorP L P).map (fun p => s.getD p 0)),
        pseudo := some (rcFam S),
        vcf := (mirrorP L P).map (fun p => (p, (rcSeq A).getD p 0, (rcFam S).map (fun s => s.getD p 0))) } := by
  have hlen : (rcFam S).length = S.length := by simp [rcFam]
  have := writer_planted (A := rcSeq A) (S := rcFam S) (P := mirrorP L P) pfA.mirror pf.mirror hk hL
    (placed := placed) (by
      rw [truePlaced_mirror pf]
      exact hp.trans (List.reverse_perm _).symm)
  rw [hlen] at this
  exact this

end SkaModel.LOD
