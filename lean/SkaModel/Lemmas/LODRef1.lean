/-
C17 (second sentence) — the k-mer map of a reference whose `(k-1)`-mers are unique, and the votes
(`strandVotes`) of a sequence that lies along a planted family containing the reference.
-/
import SkaModel.Lemmas.LORef
import SkaModel.Lemmas.LOCProps
import SkaModel.Lemmas.LODDefs

namespace SkaModel.LOD

open SkaModel SkaModel.Spec SkaModel.Props.C16 SkaModel.Skalo SkaModel.LOC

theorem noN_base {w : List UInt8} (hw : AllBase w) : LOR.noN w = true := by
  unfold LOR.noN
  rw [List.all_eq_true]
  intro b hb
  rcases isBase_cases (hw b hb) with rfl | rfl | rfl | rfl <;> decide

theorem eq_singleton_of_sorted {ps : List Nat} {a : Nat} (hne : ps ≠ []) (hall : ∀ p ∈ ps, p = a)
    (hs : ps.Pairwise (· < ·)) : ps = [a] := by
  match ps, hne with
  | [p], _ => rw [hall p (by simp)]
  | p :: q :: rest, _ =>
    exfalso
    have h1 := hall p (by simp)
    have h2 := hall q (by simp)
    rw [List.pairwise_cons] at hs
    have := hs.1 q (by simp)
    omega

section kmap

variable {m L : Nat} {R : List UInt8}

/-- the entry of an `m`-mer of the reference: its single end position -/
theorem lookup_kmap_some (hR : AllBase R) (hL : R.length = L) (hm : 2 * m ≤ 128)
    (huniq : ∀ j j', j + m ≤ L → j' + m ≤ L → win R j m = win R j' m → j = j')
    {j : Nat} (hj : j + m ≤ L) :
    Assoc.lookup (genomicKmers 128 m R) (encodeKmer 128 (win R j m)) = some [j + m] := by
  have hmL : m ≤ R.length := by omega
  have hwl : ∀ j', j' + m ≤ L → (win R j' m).length = m := fun j' hj' => win_length (by omega)
  cases hlk : Assoc.lookup (genomicKmers 128 m R) (encodeKmer 128 (win R j m)) with
  | none =>
    exfalso
    have := (LOR.genomicKmers_none 128 m R hmL _).mp hlk (j + m) (by omega) (by omega)
      (by rw [Nat.add_sub_cancel]; rfl)
    rw [Nat.add_sub_cancel] at this
    have h2 := noN_base (hR.win j m)
    unfold win at h2
    rw [h2] at this
    exact absurd this (by simp)
  | some ps =>
    obtain ⟨_, hne, _, hall, hs, _⟩ := LOR.genomicKmers_spec 128 m R hmL _ ps hlk
    congr 1
    apply eq_singleton_of_sorted hne _ hs
    intro p hp
    obtain ⟨h1, h2, h3, _⟩ := hall p hp
    have hw : win R (p - m) m = win R j m :=
      enc_inj 128 (hR.win _ _) (hR.win _ _) (by rw [hwl _ (by omega), hwl _ hj])
        (by rw [hwl _ (by omega)]; exact hm) h3
    have := huniq (p - m) j (by omega) hj hw
    omega

/-- an `m`-mer that does not occur in the reference has no entry -/
theorem lookup_kmap_none (hR : AllBase R) (hL : R.length = L) (hm : 2 * m ≤ 128) (hmL : m ≤ L)
    {w : List UInt8} (hw : AllBase w) (hwl : w.length = m)
    (hno : ∀ j, j + m ≤ L → win R j m ≠ w) :
    Assoc.lookup (genomicKmers 128 m R) (encodeKmer 128 w) = none := by
  rw [LOR.genomicKmers_none 128 m R (by omega)]
  intro q h1 h2 h3
  exfalso
  have hl : (win R (q - m) m).length = m := win_length (by omega)
  have := enc_inj 128 (hR.win (q - m) m) hw (by rw [hl, hwl]) (by rw [hl]; exact hm) h3
  exact hno (q - m) (by omega) this

end kmap

/-- `strandVotes` of a sequence of at least `m` letters -/
theorem strandVotes_eq (m : Nat) (kmap : List (Nat × List Nat)) (w : List UInt8) (h : m ≤ w.length) :
    strandVotes 128 m kmap w =
      (List.range (w.length - m + 1)).flatMap (fun pos =>
        match Assoc.lookup kmap (encodeKmer 128 (win w pos m)) with
        | some ps => ps.map (fun p => (p + U32 - pos % U32) % U32)
        | none => []) := by
  unfold strandVotes
  rw [if_neg (by omega)]
  rfl

theorem flatMap_congr' {α β : Type} (l : List α) (f g : α → List β) (h : ∀ x ∈ l, f x = g x) :
    l.flatMap f = l.flatMap g := by
  induction l with
  | nil => rfl
  | cons a l ih =>
    rw [List.flatMap_cons, List.flatMap_cons, h a (List.mem_cons_self ..),
      ih (fun x hx => h x (List.mem_cons_of_mem _ hx))]

/-- a sequence of `len` letters lying along the family `T` from coordinate `c`: every window of `m`
letters is the window of a member of `T` at the corresponding coordinate -/
structure Along (m L : Nat) (T : List (List UInt8)) (c len : Nat) (w : List UInt8) : Prop where
  hlen : w.length = len
  hbase : AllBase w
  hL : c + len ≤ L
  hm : m ≤ len
  hwin : ∀ i, i + m ≤ len → ∃ t ∈ T, win w i m = win t (c + i) m

section votes

variable {k L : Nat} {R : List UInt8} {T : List (List UInt8)} {PT : List Nat}

/-- **the votes of a sequence along the family**: one vote, for the coordinate of the `(k-1)`-mer ending
the first window, from every window that equals the reference window at the same coordinate -/
theorem votes_along (pf : PFam k L (R :: T) PT) (hk : 2 * (k - 1) ≤ 128) (hLU : L < U32)
    {c len : Nat} {w : List UInt8} (ha : Along (k - 1) L T c len w) :
    strandVotes 128 (k - 1) (genomicKmers 128 (k - 1) R) w =
      (List.range (len - (k - 1) + 1)).flatMap (fun i =>
        if win w i (k - 1) = win R (c + i) (k - 1) then [c + (k - 1)] else []) := by
  have hR : R ∈ R :: T := List.mem_cons_self ..
  have hbR := pf.base hR
  have hlR := pf.len hR
  have huR : ∀ j j', j + (k - 1) ≤ L → j' + (k - 1) ≤ L → win R j (k - 1) = win R j' (k - 1) → j = j' :=
    fun j j' hj hj' => (pf.uniq R hR R hR j j' hj hj').1
  rw [strandVotes_eq _ _ _ (by rw [ha.hlen]; exact ha.hm), ha.hlen]
  apply flatMap_congr'
  intro i hi
  rw [List.mem_range] at hi
  have hlen := ha.hlen
  have hLc := ha.hL
  have hmm := ha.hm
  obtain ⟨t, ht, hwt⟩ := ha.hwin i (by omega)
  by_cases e : win w i (k - 1) = win R (c + i) (k - 1)
  · rw [if_pos e, e, lookup_kmap_some hbR hlR hk huR (by omega)]
    simp only [List.map_cons, List.map_nil, List.cons.injEq, and_true]
    have hi32 : i % U32 = i := Nat.mod_eq_of_lt (by omega)
    rw [hi32, show c + i + (k - 1) + U32 - i = c + (k - 1) + U32 by omega, Nat.add_mod_right,
      Nat.mod_eq_of_lt (by omega)]
  · rw [if_neg e, lookup_kmap_none hbR hlR hk (by omega) (ha.hbase.win _ _)
      (win_length (by rw [hlen]; omega))]
    intro j hj ej
    apply e
    rw [hwt] at ej ⊢
    have := (pf.uniq R hR t (List.mem_cons_of_mem _ ht) j (c + i) hj (by omega)).1 ej
    subst this
    exact ej.symm

/-- a sequence whose windows are reverse complements of windows of the family gets no vote -/
theorem votes_against (pf : PFam k L (R :: T) PT) (hk : 2 * (k - 1) ≤ 128) (hkL : k - 1 ≤ L)
    {w : List UInt8} (hb : AllBase w)
    (hw : ∀ i, i + (k - 1) ≤ w.length → ∃ t ∈ T, ∃ j, j + (k - 1) ≤ L ∧ win w i (k - 1) = rcSeq (win t j (k - 1))) :
    strandVotes 128 (k - 1) (genomicKmers 128 (k - 1) R) w = [] := by
  have hR : R ∈ R :: T := List.mem_cons_self ..
  by_cases hlen : k - 1 ≤ w.length
  · rw [strandVotes_eq _ _ _ hlen, List.flatMap_eq_nil_iff]
    intro i hi
    rw [List.mem_range] at hi
    obtain ⟨t, ht, j, hj, hwt⟩ := hw i (by omega)
    rw [lookup_kmap_none (pf.base hR) (pf.len hR) hk hkL (hb.win _ _) (win_length (by omega))]
    intro j' hj' e
    rw [hwt] at e
    exact (pf.uniq R hR t (List.mem_cons_of_mem _ ht) j' j hj' hj).2 e
  · unfold strandVotes
    rw [if_pos (by omega)]

/-- the reverse complement of a sequence along the family is against it -/
theorem along_rc_against {m : Nat} {c len : Nat} {w : List UInt8} (ha : Along m L T c len w) :
    ∀ i, i + m ≤ (rcSeq w).length → ∃ t ∈ T, ∃ j, j + m ≤ L ∧ win (rcSeq w) i m = rcSeq (win t j m) := by
  intro i hi
  rw [rcSeq_length, ha.hlen] at hi
  have hLc := ha.hL
  obtain ⟨t, ht, hwt⟩ := ha.hwin (len - m - i) (by omega)
  refine ⟨t, ht, c + (len - m - i), by omega, ?_⟩
  rw [rcSeq_win' ha.hlen hi, hwt]

end votes

end SkaModel.LOD
