/-
`ColourCons` for the tables the theorems about `buildGraph` are about:
* `colourCons_of_canon`: distinct canonical keys (`key ≤ rcKey key`, a table built with both strands) whose
  palindromic rows (`key = rcKey key`: arms reverse complements of each other) have symmetric cells
  (`PalinSym`: a base and its complement are shown by the same samples);
* `colourCons_of_strict`: distinct strictly canonical keys (the hypotheses of `LORL.colour_exact`);
* `colourCons_var`, `colourCons_fam`: the table of the joint build (both strands) of a family of samples of
  A/C/G/T, rows in any order (`IsArrOf`; the hypotheses of `LOC.colour_fam`, `T17_complete`, and of the
  variable-length analogues of `LOEVar.lean`).
-/
import SkaModel.Lemmas.LOUCons
import SkaModel.Lemmas.LOReal5
import SkaModel.Lemmas.LOEVar

namespace SkaModel.LOU

open SkaModel SkaModel.Skalo SkaModel.Spec SkaModel.Props.C16 SkaModel.Props.C17G SkaModel.LOG
open SkaModel.LORL SkaModel.LOC SkaModel.LOE

/-- two (arms, base) pairs that produce the same k-mer (directly or as reverse complement): the full
k-mers are equal or reverse complements of each other -/
theorem full_cases (k : Nat) (u l u' l' : List Nat) (c c' : Nat)
    (hu : u.length = halfK k) (hl : l.length = halfK k) (hu' : u'.length = halfK k) (hl' : l'.length = halfK k)
    (hcu : Codes u) (hcl : Codes l) (hcu' : Codes u') (hcl' : Codes l') (hc : c < 4) (hc' : c' < 4)
    (f : Nat)
    (hf : f = packL (u ++ [c] ++ l) ∨ f = packL (rcCodes (u ++ [c] ++ l)))
    (hf' : f = packL (u' ++ [c'] ++ l') ∨ f = packL (rcCodes (u' ++ [c'] ++ l'))) :
    u ++ [c] ++ l = u' ++ [c'] ++ l' ∨ u ++ [c] ++ l = rcCodes (u' ++ [c'] ++ l') := by
  have hF : Codes (u ++ [c] ++ l) := Codes.append (Codes.append hcu (Codes.cons hc Codes.nil)) hcl
  have hF' : Codes (u' ++ [c'] ++ l') := Codes.append (Codes.append hcu' (Codes.cons hc' Codes.nil)) hcl'
  have hlen : (u ++ [c] ++ l).length = (u' ++ [c'] ++ l').length := by simp [hu, hl, hu', hl']
  rcases hf with hf | hf <;> rcases hf' with hf' | hf'
  · exact Or.inl (packL_inj hF hF' hlen (hf.symm.trans hf'))
  · exact Or.inr (packL_inj hF (rcCodes_codes hF') (by rw [rcCodes_length]; exact hlen)
      (hf.symm.trans hf'))
  · have := packL_inj (rcCodes_codes hF) hF' (by rw [rcCodes_length]; exact hlen) (hf.symm.trans hf')
    right
    rw [← this, rcCodes_rcCodes]
  · have := packL_inj (rcCodes_codes hF) (rcCodes_codes hF')
      (by rw [rcCodes_length, rcCodes_length]; exact hlen) (hf.symm.trans hf')
    left
    rw [← rcCodes_rcCodes (u ++ [c] ++ l), this, rcCodes_rcCodes]

/-- **a sufficient condition for `ColourCons`**: the sample set of a row and a shown base depends only on
the strand pair of the full k-mer `u n l` -/
theorem colourCons_of_strand_sets (W : Nat) (a : Arr) (hk : ValidK a.k) (hw : WidthOk W a.k)
    (hkeys : ∀ key ∈ a.kmers, key < 4 ^ (a.k - 1))
    (P : List Nat → Nat → Prop) (hP : ∀ F i, P (rcCodes F) i ↔ P F i)
    (hrow : ∀ kv ∈ a.kmers.zip a.variants, ∀ u l, kv.1 = packL (u ++ l) → u.length = halfK a.k →
      l.length = halfK a.k → Codes u → Codes l → ∀ n ∈ shownBases kv.2, ∀ i,
        i ∈ samplesOf kv.2 n ↔ P (u ++ [code n] ++ l) i) :
    ColourCons W a := by
  intro e1 h1 e2 h2 he
  obtain ⟨kv, hkv, u, l, e, hu, hl, hcu, hcl, n, hn, hf, hS⟩ :=
    (mem_colourEntries W a hk hw hkeys e1.1 e1.2).mp h1
  obtain ⟨kv', hkv', u', l', e', hu', hl', hcu', hcl', n', hn', hf', hS'⟩ :=
    (mem_colourEntries W a hk hw hkeys e2.1 e2.2).mp h2
  rw [← he] at hf'
  rw [hS, hS']
  apply sinc_ext _ _ (samplesOf_pairwise _ _) (samplesOf_pairwise _ _)
  intro i
  rw [hrow kv hkv u l e hu hl hcu hcl n hn i, hrow kv' hkv' u' l' e' hu' hl' hcu' hcl' n' hn' i]
  rcases full_cases a.k u l u' l' (code n) (code n') hu hl hu' hl' hcu hcl hcu' hcl'
    (code_lt n) (code_lt n') e1.1 hf hf' with h | h
  · rw [h]
  · rw [h, hP]

/-- the cells of every palindromic row (key = its own reverse complement) are symmetric: a base and its
complement are shown by the same samples (in a table built with both strands a sample that contains
`u n l` with `l = rc u` contains `u n' l`, `n'` the complement of `n`, on the other strand) -/
def PalinSym (a : Arr) : Prop :=
  ∀ kv ∈ a.kmers.zip a.variants, kv.1 = rcKey a.k kv.1 →
    ∀ n ∈ shownBases kv.2, ∀ n' ∈ shownBases kv.2, code n = code n' ^^^ 2 →
      samplesOf kv.2 n = samplesOf kv.2 n'

instance (a : Arr) : Decidable (PalinSym a) := by
  unfold PalinSym; infer_instance

/-- **`ColourCons` for distinct canonical keys with symmetric palindromic rows** -/
theorem colourCons_of_canon (W : Nat) (a : Arr) (hk : ValidK a.k) (hw : WidthOk W a.k)
    (hkeys : ∀ key ∈ a.kmers, key < 4 ^ (a.k - 1))
    (hnd : a.kmers.Nodup) (hcanon : ∀ key ∈ a.kmers, key ≤ rcKey a.k key) (hpal : PalinSym a) :
    ColourCons W a := by
  obtain ⟨_, hkh, _⟩ := validK_bounds hk hw
  intro e1 h1 e2 h2 he
  obtain ⟨kv, hkv, u, l, e, hu, hl, hcu, hcl, n, hn, hf, hS⟩ :=
    (mem_colourEntries W a hk hw hkeys e1.1 e1.2).mp h1
  obtain ⟨kv', hkv', u', l', e', hu', hl', hcu', hcl', n', hn', hf', hS'⟩ :=
    (mem_colourEntries W a hk hw hkeys e2.1 e2.2).mp h2
  rw [← he] at hf'
  have hrow : kv = kv' :=
    colour_row_unique W a hk hw hnd hcanon kv kv' hkv hkv' u l u' l' e e' hu hl hu' hl'
      hcu hcl hcu' hcl' n n' e1.1 hf hf'
  subst hrow
  rw [hS, hS']
  have hul : u ++ l = u' ++ l' :=
    packL_inj (Codes.append hcu hcl) (Codes.append hcu' hcl') (by simp [hu, hl, hu', hl'])
      (e.symm.trans e')
  obtain ⟨hu2, hl2⟩ := List.append_inj hul (by rw [hu, hu'])
  subst hu2 hl2
  rcases full_cases a.k u l u l (code n) (code n') hu hl hu hl hcu hcl hcu hcl
    (code_lt n) (code_lt n') e1.1 hf hf' with h | h
  · obtain ⟨_, hc, _⟩ := split_full rfl h
    rw [code_inj_shown kv.2 kv.2 n n' hn hn' hc]
  · rw [rcCodes_full] at h
    obtain ⟨h1', hc, h3⟩ := split_full (by rw [hu, rcCodes_length, hl]) h
    apply hpal kv hkv _ n hn n' hn' hc
    rw [e, rcKey_arms a.k u l hcu hcl (by rw [List.length_append, hu, hl]; omega), ← h1', ← h3]

/-- **`ColourCons` for distinct strictly canonical keys** (the hypotheses of `LORL.colour_exact`) -/
theorem colourCons_of_strict (W : Nat) (a : Arr) (hk : ValidK a.k) (hw : WidthOk W a.k)
    (hkeys : ∀ key ∈ a.kmers, key < 4 ^ (a.k - 1))
    (hnd : a.kmers.Nodup) (hcanon : ∀ key ∈ a.kmers, key < rcKey a.k key) : ColourCons W a := by
  apply colourCons_of_canon W a hk hw hkeys hnd (fun key h => Nat.le_of_lt (hcanon key h))
  intro kv hkv hp
  have := hcanon kv.1 (List.of_mem_zip hkv).1
  omega

/-- sample `i` of `S` contains the k-mer `F` on one of the two strands -/
def ShowsF (k : Nat) (S : List (List UInt8)) (F : List Nat) (i : Nat) : Prop :=
  ∃ s, S[i]? = some s ∧ ∃ j, j + k ≤ s.length ∧ (cds (win s j k) = F ∨ rcCodes (cds (win s j k)) = F)

theorem showsF_rc (k : Nat) (S : List (List UInt8)) (F : List Nat) (i : Nat) :
    ShowsF k S (rcCodes F) i ↔ ShowsF k S F i := by
  unfold ShowsF
  constructor
  · rintro ⟨s, hs, j, hj, h⟩
    refine ⟨s, hs, j, hj, ?_⟩
    rcases h with h | h
    · right; rw [h, rcCodes_rcCodes]
    · left; rw [← rcCodes_rcCodes (cds (win s j k)), h, rcCodes_rcCodes]
  · rintro ⟨s, hs, j, hj, h⟩
    refine ⟨s, hs, j, hj, ?_⟩
    rcases h with h | h
    · right; rw [h]
    · left; rw [← h, rcCodes_rcCodes]

/-- **`ColourCons` for the table of a family of samples** (of any lengths; joint build with both strands,
rows in any order, palindromic split k-mers allowed) -/
theorem colourCons_var {a : Arr} {k : Nat} {names : List String} {S : List (List UInt8)}
    (ha : IsArrOf a k names S) (h : VFam S) (hk : ValidK k) {W : Nat} (hw : WidthOk W k) :
    ColourCons W a := by
  obtain ⟨_, hkh, _⟩ := validK_bounds hk hw
  have hka := ha.hk
  have hk' : ValidK a.k := by rw [hka]; exact hk
  have hw' : WidthOk W a.k := by rw [hka]; exact hw
  have hkeys : ∀ key ∈ a.kmers, key < 4 ^ (a.k - 1) := by rw [hka]; exact hkeys_var ha h hkh
  apply colourCons_of_strand_sets W a hk' hw' hkeys (ShowsF k S) (showsF_rc k S)
  intro kv hkv u l e hu hl hcu hcl n hn i
  rw [hka] at hu hl
  have hn4 : n ∈ ([65, 67, 71, 84] : List UInt8) := ((mem_shownBases kv.2 n).mp hn).1
  rw [mem_samplesOf_row_var ha h hkh kv hkv u l e hu hl hcu hcl n hn4 i]
  rfl

/-- the same for samples of one length (the setting of `LOC.colour_fam` and `T17_complete`) -/
theorem colourCons_fam {a : Arr} {k L : Nat} {names : List String} {S : List (List UInt8)}
    (ha : IsArrOf a k names S) (h : SFam L S) (hk : ValidK k) {W : Nat} (hw : WidthOk W k) :
    ColourCons W a :=
  colourCons_var ha h.base hk hw

end SkaModel.LOU
