/-
C03: the rows of the joint-build table of a repeat-free family of single-contig
samples, and which of them `align --min-freq 1` (site filter no-const) emits.
-/
import SkaModel.Lemmas.SNP

namespace SkaModel.SNP

open SkaModel SkaModel.Spec

/-! ### `eraseDups` -/

theorem nodup_eraseDups_aux {α : Type _} [BEq α] [LawfulBEq α] :
    ∀ (n : Nat) (l : List α), l.length ≤ n → l.eraseDups.Nodup
  | _, [], _ => by simp
  | 0, _ :: _, h => by simp at h
  | n + 1, a :: as, h => by
    rw [List.eraseDups_cons, List.nodup_cons]
    refine ⟨?_, nodup_eraseDups_aux n _ ?_⟩
    · intro hm
      rw [List.mem_eraseDups, List.mem_filter] at hm
      simp at hm
    · have := List.length_filter_le (fun b => !b == a) as
      simp only [List.length_cons] at h
      omega

theorem nodup_eraseDups {α : Type _} [BEq α] [LawfulBEq α] (l : List α) : l.eraseDups.Nodup :=
  nodup_eraseDups_aux l.length l (Nat.le_refl _)

theorem two_le_length_of_mem_ne {α : Type _} {l : List α} {a b : α} (ha : a ∈ l) (hb : b ∈ l)
    (hne : a ≠ b) : 2 ≤ l.length := by
  match l, ha, hb with
  | [x], ha, hb =>
    simp only [List.mem_singleton] at ha hb
    exact absurd (ha.trans hb.symm) hne
  | _ :: _ :: _, _, _ => simp

/-- a list has at least two distinct symbols iff two of its entries differ -/
theorem two_le_eraseDups_iff {α : Type _} [BEq α] [LawfulBEq α] (l : List α) :
    2 ≤ l.eraseDups.length ↔ ∃ a ∈ l, ∃ b ∈ l, a ≠ b := by
  constructor
  · intro h
    have hn := nodup_eraseDups l
    match hl : l.eraseDups, h, hn with
    | x :: y :: t, _, hn =>
      have hx : x ∈ l := List.mem_eraseDups.mp (by rw [hl]; simp)
      have hy : y ∈ l := List.mem_eraseDups.mp (by rw [hl]; simp)
      refine ⟨x, hx, y, hy, ?_⟩
      rw [List.nodup_cons] at hn
      intro e
      apply hn.1
      rw [e]
      simp
  · rintro ⟨a, ha, b, hb, hne⟩
    exact two_le_length_of_mem_ne (List.mem_eraseDups.mpr ha) (List.mem_eraseDups.mpr hb) hne

/-! ### the filter of `align --min-freq 1 --filter no-const` on a full-width row -/

theorem filter_const_true {α : Type _} (l : List α) : l.filter (fun _ => true) = l :=
  List.filter_eq_self.mpr (fun _ _ => rfl)

theorem passes_iff (row : List UInt8) :
    Table.passes row.length false .noConst false row = true ↔
      1 ≤ row.length ∧ (∀ b ∈ row, b ≠ gap) ∧ ∃ a ∈ row, ∃ b ∈ row, a ≠ b := by
  unfold Table.passes Table.presentCount Table.sitePasses Table.distinctSyms Table.present
  simp only [Bool.not_false, Bool.true_or, Bool.and_true, filter_const_true, Bool.and_eq_true,
    decide_eq_true_eq, ge_iff_le]
  rw [two_le_eraseDups_iff]
  have hle := List.length_filter_le (fun b => b != gap) row
  constructor
  · rintro ⟨h1, h2⟩
    refine ⟨by omega, ?_, h2⟩
    have he : (row.filter (fun b => b != gap)).length = row.length := by omega
    rw [List.length_filter_eq_length_iff] at he
    intro b hb
    simpa using he b hb
  · rintro ⟨h1, h2, h3⟩
    refine ⟨?_, h3⟩
    have he : (row.filter (fun b => b != gap)).length = row.length := by
      rw [List.length_filter_eq_length_iff]
      intro b hb
      simpa using h2 b hb
    omega

/-! ### the table of single-contig samples -/

/-- row of the joint-build table for `key` -/
def rowOf (k : Nat) (rc : Bool) (S : List (Array UInt8)) (key : Nat) : List UInt8 :=
  S.map fun s => cellOfObs (observations k rc [s]) key

/-- keys of the joint-build table, in first-seen order -/
def keysOf (k : Nat) (rc : Bool) (S : List (Array UInt8)) : List Nat :=
  ((S.map fun s => observations k rc [s]).flatMap fun o => o.map (·.1)).eraseDups

theorem specTable_rows (k : Nat) (rc : Bool) (names : List String) (S : List (Array UInt8)) :
    (specTable k rc names (S.map fun s => [s])).rows
      = (keysOf k rc S).map fun key => (key, rowOf k rc S key) := by
  unfold specTable keysOf rowOf
  simp only [List.map_map, Function.comp_def]

theorem keysOf_nodup (k : Nat) (rc : Bool) (S : List (Array UInt8)) : (keysOf k rc S).Nodup :=
  nodup_eraseDups _

theorem mem_keysOf {L : Nat} {S : List (Array UInt8)} (hF : Family L S) (k : Nat) (rc : Bool)
    (key : Nat) :
    key ∈ keysOf k rc S ↔ ∃ s ∈ S, ∃ j, j + k ≤ L ∧ (obs k rc s j).1 = key := by
  unfold keysOf
  rw [List.mem_eraseDups]
  simp only [List.mem_flatMap, List.mem_map]
  constructor
  · rintro ⟨o, ⟨s, hs, rfl⟩, ⟨x, hx, rfl⟩⟩
    rw [mem_observations_single] at hx
    obtain ⟨j, hj, rfl⟩ := hx
    exact ⟨s, hs, j, (mem_windows_family hF hs j).mp hj, rfl⟩
  · rintro ⟨s, hs, j, hj, rfl⟩
    refine ⟨_, ⟨s, hs, rfl⟩, ((obs k rc s j).1, obsMask k rc s j), ?_, rfl⟩
    rw [mem_observations_single]
    exact ⟨j, (mem_windows_family hF hs j).mpr hj, rfl⟩

theorem rowOf_length (k : Nat) (rc : Bool) (S : List (Array UInt8)) (key : Nat) :
    (rowOf k rc S key).length = S.length := by
  simp [rowOf]

/-- the emitted columns are the rows of the keys that pass -/
theorem alignColumns_eq (k : Nat) (rc : Bool) (names : List String) (S : List (Array UInt8)) :
    (specTable k rc names (S.map fun s => [s])).alignColumns S.length false .noConst false false
      = ((keysOf k rc S).filter fun key =>
          Table.passes S.length false .noConst false (rowOf k rc S key)).map (rowOf k rc S) := by
  unfold Table.alignColumns
  rw [specTable_rows]
  simp only [List.map_map, Function.comp_def, List.filter_map, Table.maskRow]
  simp

/-! ### windows of a family -/

/-- the key of window `j` of the first sample -/
def keyAt (k : Nat) (rc : Bool) (S : List (Array UInt8)) (j : Nat) : Nat :=
  (obs k rc (S.headD #[]) j).1

theorem headD_mem {S : List (Array UInt8)} {s : Array UInt8} (hs : s ∈ S) : S.headD #[] ∈ S := by
  cases S with
  | nil => cases hs
  | cons a as => simp

/-- around an isolated variable site all samples have the same arms -/
theorem arms_agree {k L : Nat} {S : List (Array UInt8)}
    (hI : Isolated k L S) {p : Nat} (hp : p ∈ varSites L S) {s s' : Array UInt8}
    (hs : s ∈ S) (hs' : s' ∈ S) :
    armsAt k s (p - (k - 1) / 2) = armsAt k s' (p - (k - 1) / 2) := by
  obtain ⟨h1, h2, h3⟩ := hI p hp
  apply armsAt_congr
  · intro t ht
    apply varSite_false _ hs hs'
    cases hv : varSite S (p - (k - 1) / 2 + t) with
    | false => rfl
    | true =>
      exfalso
      have hq : (p - (k - 1) / 2 + t) ∈ varSites L S := mem_varSites.mpr ⟨by omega, hv⟩
      rcases h3 _ hq (by omega) with h | h <;> omega
  · intro t ht
    apply varSite_false _ hs hs'
    cases hv : varSite S (p - (k - 1) / 2 + (k - 1) / 2 + 1 + t) with
    | false => rfl
    | true =>
      exfalso
      have hq : (p - (k - 1) / 2 + (k - 1) / 2 + 1 + t) ∈ varSites L S :=
        mem_varSites.mpr ⟨by omega, hv⟩
      rcases h3 _ hq (by omega) with h | h <;> omega

theorem window_of_site {k L : Nat} {S : List (Array UInt8)} (hk : k % 2 = 1)
    (hI : Isolated k L S) {p : Nat} (hp : p ∈ varSites L S) :
    p - (k - 1) / 2 + k ≤ L ∧ p - (k - 1) / 2 + (k - 1) / 2 = p := by
  obtain ⟨h1, h2, _⟩ := hI p hp
  omega

/-- two samples whose bytes differ at the middle of a window on which their arms agree
report different bases -/
theorem obs_ne_of_mid_ne {L : Nat} {S : List (Array UInt8)} (hF : Family L S) {k : Nat}
    {rc : Bool} {s s' : Array UInt8} (hs : s ∈ S) (hs' : s' ∈ S) {j : Nat}
    (hj : j + (k - 1) / 2 < L) (ha : armsAt k s j = armsAt k s' j) :
    (obs k rc s j).2.1 = (obs k rc s' j).2.1 ↔
      s.getD (j + (k - 1) / 2) 0 = s'.getD (j + (k - 1) / 2) 0 := by
  rw [(obs_of_arms_eq (rc := rc) ha).2.2]
  unfold midAt
  constructor
  · exact code_inj (hF.acgt s hs _ hj) (hF.acgt s' hs' _ hj)
  · intro e; rw [e]

/-- **(⇐)** the window centred on an isolated variable site: every sample has the same
key there, the row holds each sample's reported base, and the row passes -/
theorem row_at_site {L : Nat} {S : List (Array UInt8)} (hF : Family L S) {k : Nat} {rc : Bool}
    (hk : k % 2 = 1) (hR : RepeatFreeWeak k rc L S) (hI : Isolated k L S)
    {p : Nat} (hp : p ∈ varSites L S) :
    keyAt k rc S (p - (k - 1) / 2) ∈ keysOf k rc S ∧
    rowOf k rc S (keyAt k rc S (p - (k - 1) / 2))
      = S.map (fun s => decodeBase (obs k rc s (p - (k - 1) / 2)).2.1) ∧
    Table.passes S.length false .noConst false
      (rowOf k rc S (keyAt k rc S (p - (k - 1) / 2))) = true := by
  obtain ⟨hw, hmid⟩ := window_of_site hk hI hp
  obtain ⟨s, hs, s', hs', hne⟩ := varSite_true.mp (mem_varSites.mp hp).2
  have hh := headD_mem hs
  have hrow : rowOf k rc S (keyAt k rc S (p - (k - 1) / 2))
      = S.map (fun s => decodeBase (obs k rc s (p - (k - 1) / 2)).2.1) := by
    unfold rowOf
    apply List.map_congr_left
    intro x hx
    have e : keyAt k rc S (p - (k - 1) / 2) = (obs k rc x (p - (k - 1) / 2)).1 :=
      (obs_of_arms_eq (arms_agree hI hp hh hx)).1
    rw [e, cell_at hF hR hx hw]
  refine ⟨(mem_keysOf hF k rc _).mpr ⟨_, hh, _, hw, rfl⟩, hrow, ?_⟩
  have hlen := rowOf_length k rc S (keyAt k rc S (p - (k - 1) / 2))
  rw [← hlen, passes_iff, hlen, hrow]
  refine ⟨List.length_pos_of_mem hs, ?_, ?_⟩
  · intro b hb
    obtain ⟨x, _, rfl⟩ := List.mem_map.mp hb
    exact decodeBase_ne_gap _
  · refine ⟨_, List.mem_map.mpr ⟨s, hs, rfl⟩, _, List.mem_map.mpr ⟨s', hs', rfl⟩, ?_⟩
    intro e
    have e' := decodeBase_inj (obs_mid_lt k rc s _) (obs_mid_lt k rc s' _) e
    rw [obs_ne_of_mid_ne hF hs hs' (by omega) (arms_agree hI hp hs hs'), hmid] at e'
    exact hne e'

/-- **(⇒)** a key whose row passes is the key of the window centred on a variable site
(this direction does not use isolation) -/
theorem site_of_passing_row {L : Nat} {S : List (Array UInt8)} (hF : Family L S) {k : Nat}
    {rc : Bool} (hk : k % 2 = 1) (hR : RepeatFree k rc L S) {key : Nat}
    (hpass : Table.passes S.length false .noConst false (rowOf k rc S key) = true) :
    ∃ p ∈ varSites L S, (k - 1) / 2 ≤ p ∧ keyAt k rc S (p - (k - 1) / 2) = key := by
  have hW := hR.weak
  have hlen := rowOf_length k rc S key
  rw [← hlen, passes_iff] at hpass
  obtain ⟨_, hpres, a, ha, b, hb, hne⟩ := hpass
  obtain ⟨s, hs, rfl⟩ := List.mem_map.mp ha
  obtain ⟨s', hs', rfl⟩ := List.mem_map.mp hb
  have hh := headD_mem hs
  have cellOf : ∀ x ∈ S, ∃ j, j + k ≤ L ∧ (obs k rc x j).1 = key := by
    intro x hx
    exact cell_present hF hx (hpres _ (List.mem_map.mpr ⟨x, hx, rfl⟩))
  obtain ⟨j, hj, ej⟩ := cellOf s hs
  obtain ⟨j', hj', ej'⟩ := cellOf s' hs'
  obtain ⟨j0, hj0, ej0⟩ := cellOf _ hh
  obtain ⟨e1, harms⟩ := hR.1 s hs s' hs' j j' hj hj' (ej.trans ej'.symm)
  subst e1
  obtain ⟨e0, _⟩ := hR.1 _ hh s hs j0 j hj0 hj (ej0.trans ej.symm)
  subst e0
  refine ⟨j0 + (k - 1) / 2, mem_varSites.mpr ⟨by omega, ?_⟩, by omega, ?_⟩
  · rw [varSite_true]
    refine ⟨s, hs, s', hs', ?_⟩
    intro e
    apply hne
    rw [← (obs_ne_of_mid_ne (rc := rc) hF hs hs' (by omega) harms)] at e
    have c1 := cell_at hF hW hs hj
    have c2 := cell_at hF hW hs' hj'
    rw [ej] at c1
    rw [ej'] at c2
    rw [c1, c2, e]
  · have : j0 + (k - 1) / 2 - (k - 1) / 2 = j0 := by omega
    rw [this]
    exact ej0

/-- distinct variable sites have distinct centred keys -/
theorem keyAt_inj {L : Nat} {S : List (Array UInt8)} {k : Nat} {rc : Bool}
    (hk : k % 2 = 1) (hR : RepeatFreeWeak k rc L S) (hI : Isolated k L S)
    {p q : Nat} (hp : p ∈ varSites L S) (hq : q ∈ varSites L S)
    (e : keyAt k rc S (p - (k - 1) / 2) = keyAt k rc S (q - (k - 1) / 2)) : p = q := by
  obtain ⟨s, hs, _⟩ := varSite_true.mp (mem_varSites.mp hp).2
  have hh := headD_mem hs
  have h1 := window_of_site hk hI hp
  have h2 := window_of_site hk hI hq
  have := hR.1 _ hh _ hh _ _ h1.1 h2.1 e
  omega

/-- the passing keys are, up to order, the centred keys of the variable sites -/
theorem passing_keys_perm {L : Nat} {S : List (Array UInt8)} (hF : Family L S) {k : Nat}
    {rc : Bool} (hk : k % 2 = 1) (hR : RepeatFree k rc L S) (hI : Isolated k L S) :
    ((keysOf k rc S).filter fun key =>
        Table.passes S.length false .noConst false (rowOf k rc S key)).Perm
      ((varSites L S).map fun p => keyAt k rc S (p - (k - 1) / 2)) := by
  have hW := hR.weak
  rw [List.perm_ext_iff_of_nodup ((keysOf_nodup k rc S).filter _)]
  · intro key
    rw [List.mem_filter, List.mem_map]
    constructor
    · rintro ⟨_, hpass⟩
      obtain ⟨p, hp, _, e⟩ := site_of_passing_row hF hk hR hpass
      exact ⟨p, hp, e⟩
    · rintro ⟨p, hp, rfl⟩
      obtain ⟨h1, _, h3⟩ := row_at_site hF hk hW hI hp
      exact ⟨h1, h3⟩
  · unfold List.Nodup
    rw [List.pairwise_map]
    apply List.Pairwise.imp_of_mem _ (varSites_nodup L S)
    intro p q hp hq hne e
    exact hne (keyAt_inj hk hW hI hp hq e)

end SkaModel.SNP
