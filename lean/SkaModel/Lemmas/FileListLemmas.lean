import SkaModel.Impl.FileList
/-
Helper lemmas for `Props/C03FileList.lean`: accumulator-generalised facts about
`splitWsGo` and `linesGo`, `stripCr`, `parseLines`.
-/
namespace SkaModel.FileListLemmas
open SkaModel.FileList

/-! ### `splitWsGo` -/

theorem splitWsGo_nonws (xs rest cur : List Char) (h : ∀ c ∈ xs, isWs c = false) :
    splitWsGo (xs ++ rest) cur = splitWsGo rest (xs.reverse ++ cur) := by
  induction xs generalizing cur with
  | nil => simp
  | cons x xs ih =>
    have hx : isWs x = false := h x (by simp)
    have hxs : ∀ c ∈ xs, isWs c = false := fun c hc => h c (by simp [hc])
    simp only [List.cons_append, splitWsGo, hx, Bool.false_eq_true, if_false]
    rw [ih _ hxs]
    simp

theorem splitWsGo_ws_nil (xs rest : List Char) (h : ∀ c ∈ xs, isWs c = true) :
    splitWsGo (xs ++ rest) [] = splitWsGo rest [] := by
  induction xs with
  | nil => simp
  | cons x xs ih =>
    have hx : isWs x = true := h x (by simp)
    have hxs : ∀ c ∈ xs, isWs c = true := fun c hc => h c (by simp [hc])
    simp only [List.cons_append, splitWsGo, hx, if_true, List.isEmpty_nil]
    exact ih hxs

theorem splitWsGo_ws_cons (x : Char) (xs rest cur : List Char)
    (h : ∀ c ∈ x :: xs, isWs c = true) (hc : cur ≠ []) :
    splitWsGo (x :: xs ++ rest) cur = cur.reverse :: splitWsGo rest [] := by
  have hx : isWs x = true := h x (by simp)
  have hxs : ∀ c ∈ xs, isWs c = true := fun c hc => h c (by simp [hc])
  have he : cur.isEmpty = false := by
    cases cur with
    | nil => exact absurd rfl hc
    | cons _ _ => rfl
  simp only [List.cons_append, splitWsGo, hx, if_true, he, Bool.false_eq_true, if_false]
  rw [splitWsGo_ws_nil xs rest hxs]

/-- trailing white space does not change the pieces -/
theorem splitWsGo_ws_end (q cur : List Char) (h : ∀ c ∈ q, isWs c = true) :
    splitWsGo q cur = splitWsGo [] cur := by
  cases q with
  | nil => rfl
  | cons x xs =>
    cases cur with
    | nil =>
      have := splitWsGo_ws_nil (x :: xs) [] h
      simpa using this
    | cons y ys =>
      have := splitWsGo_ws_cons x xs [] (y :: ys) h (by simp)
      simpa [splitWsGo] using this

theorem splitWsGo_append_ws (xs q cur : List Char) (h : ∀ c ∈ q, isWs c = true) :
    splitWsGo (xs ++ q) cur = splitWsGo xs cur := by
  induction xs generalizing cur with
  | nil => simpa using splitWsGo_ws_end q cur h
  | cons x xs ih =>
    simp only [List.cons_append, splitWsGo, ih]

theorem splitWs_append_ws (xs q : List Char) (h : ∀ c ∈ q, isWs c = true) :
    splitWs (xs ++ q) = splitWs xs := splitWsGo_append_ws xs q [] h

theorem splitWs_allws (q : List Char) (h : ∀ c ∈ q, isWs c = true) : splitWs q = [] := by
  have := splitWsGo_ws_end q [] h
  simpa [splitWs, splitWsGo] using this

theorem splitWs_field (f s rest : List Char) (hf0 : f ≠ []) (hf : ∀ c ∈ f, isWs c = false)
    (hs0 : s ≠ []) (hs : ∀ c ∈ s, isWs c = true) :
    splitWs (f ++ s ++ rest) = f :: splitWs rest := by
  unfold splitWs
  rw [List.append_assoc, splitWsGo_nonws f _ [] hf]
  cases s with
  | nil => exact absurd rfl hs0
  | cons x xs =>
    rw [splitWsGo_ws_cons x xs rest _ hs (by simpa using hf0)]
    simp

theorem splitWs_last (f q : List Char) (hf0 : f ≠ []) (hf : ∀ c ∈ f, isWs c = false)
    (hq : ∀ c ∈ q, isWs c = true) :
    splitWs (f ++ q) = [f] := by
  rw [splitWs_append_ws f q hq]
  unfold splitWs
  have := splitWsGo_nonws f [] [] hf
  simp only [List.append_nil] at this
  rw [this]
  have he : f.reverse.isEmpty = false := by
    cases f with
    | nil => exact absurd rfl hf0
    | cons a l => simp
  simp [splitWsGo, he]

/-! ### `stripCr` -/

theorem isWs_nl : isWs '\n' = true := by decide
theorem isWs_tab : isWs '\t' = true := by decide
theorem isWs_cr : isWs '\r' = true := by decide

theorem stripCr_append_cr (l : List Char) : stripCr (l ++ ['\r']) = l := by
  simp [stripCr]

/-- `stripCr l` is `l`, or `l` is `stripCr l` followed by '\r' -/
theorem stripCr_cases (l : List Char) : stripCr l = l ∨ l = stripCr l ++ ['\r'] := by
  unfold stripCr
  split
  · next r hr =>
    right
    have : l = (l.reverse).reverse := by simp
    rw [this, hr]; simp
  · left; rfl

theorem splitWs_stripCr (l : List Char) : splitWs (stripCr l) = splitWs l := by
  rcases stripCr_cases l with h | h
  · rw [h]
  · conv => rhs; rw [h]
    rw [splitWs_append_ws]
    intro c hc
    simp at hc
    subst hc; exact isWs_cr

theorem parseLine_stripCr (l : List Char) : parseLine (stripCr l) = parseLine l := by
  unfold parseLine; rw [splitWs_stripCr]

/-! ### `linesGo` -/

theorem linesGo_nonl (xs rest cur : List Char) (h : '\n' ∉ xs) :
    linesGo (xs ++ rest) cur = linesGo rest (xs.reverse ++ cur) := by
  induction xs generalizing cur with
  | nil => simp
  | cons x xs ih =>
    have hx : x ≠ '\n' := by
      intro e; apply h; simp [e]
    have hxs : '\n' ∉ xs := by
      intro e; apply h; simp [e]
    simp only [List.cons_append, linesGo, hx, if_false]
    rw [ih _ hxs]
    simp

theorem lines_line (l rest : List Char) (h : '\n' ∉ l) :
    lines (l ++ '\n' :: rest) = stripCr l :: lines rest := by
  unfold lines
  rw [linesGo_nonl l _ [] h]
  simp [linesGo]

theorem lines_nil : lines [] = [] := by simp [lines, linesGo]

theorem lines_last (l : List Char) (h0 : l ≠ []) (h : '\n' ∉ l) : lines l = [l] := by
  unfold lines
  have := linesGo_nonl l [] [] h
  simp only [List.append_nil] at this
  rw [this]
  have he : l.reverse.isEmpty = false := by
    cases l with
    | nil => exact absurd rfl h0
    | cons a l => simp
  simp [linesGo, he]

theorem linesGo_append (a rest cur : List Char) (h : a.getLast? = some '\n') :
    linesGo (a ++ rest) cur = linesGo a cur ++ linesGo rest [] := by
  induction a generalizing cur with
  | nil => simp at h
  | cons x xs ih =>
    cases xs with
    | nil =>
      simp at h
      subst h
      simp [linesGo]
    | cons y ys =>
      have h' : (y :: ys).getLast? = some '\n' := by
        simpa [List.getLast?_cons_cons] using h
      by_cases hx : x = '\n'
      · subst hx
        simp only [List.cons_append, linesGo, if_true] at *
        rw [ih _ h']
      · simp only [List.cons_append, linesGo, hx, if_false] at *
        rw [ih _ h']

theorem lines_append (a rest : List Char) (h : a = [] ∨ a.getLast? = some '\n') :
    lines (a ++ rest) = lines a ++ lines rest := by
  rcases h with h | h
  · subst h; simp [lines_nil]
  · exact linesGo_append a rest [] h

/-! ### `parseLines` -/

theorem parseLines_cons_some (l : List Char) (ls : List (List Char)) (e : Entry) (es : List Entry)
    (h1 : parseLine l = some e) (h2 : parseLines ls = some es) :
    parseLines (l :: ls) = some (e :: es) := by
  simp [parseLines, h1, h2]

theorem parseLines_none (ls : List (List Char)) (l : List Char) (hl : l ∈ ls)
    (h : parseLine l = none) : parseLines ls = none := by
  induction ls with
  | nil => simp at hl
  | cons x xs ih =>
    simp only [List.mem_cons] at hl
    rcases hl with hl | hl
    · subst hl
      simp [parseLines, h]
    · have := ih hl
      simp only [parseLines, this]
      split <;> simp_all

/-! ### whole-list steps -/

theorem parseList_line (l rest : List Char) (e : Entry) (es : List Entry) (hnl : '\n' ∉ l)
    (h1 : parseLine l = some e) (h2 : parseList rest = some es) :
    parseList (l ++ '\n' :: rest) = some (e :: es) := by
  unfold parseList at *
  rw [lines_line l rest hnl]
  exact parseLines_cons_some _ _ e es (by rw [parseLine_stripCr]; exact h1) h2

theorem parseList_last (l : List Char) (e : Entry) (h0 : l ≠ []) (hnl : '\n' ∉ l)
    (h1 : parseLine l = some e) : parseList l = some [e] := by
  unfold parseList
  rw [lines_last l h0 hnl]
  exact parseLines_cons_some _ _ e [] h1 rfl

theorem parseList_blank (a b pad : List Char) (hp : ∀ c ∈ pad, isWs c = true) (hnl : '\n' ∉ pad)
    (ha : a = [] ∨ a.getLast? = some '\n') :
    parseList (a ++ pad ++ '\n' :: b) = none := by
  unfold parseList
  rw [List.append_assoc, lines_append a _ ha, lines_line pad b hnl]
  apply parseLines_none _ (stripCr pad) (by simp)
  rw [parseLine_stripCr]
  unfold parseLine
  rw [splitWs_allws pad hp]

theorem nameList_line (l rest n : List Char) (hnl : '\n' ∉ l) (h : (splitWs l).head? = some n) :
    nameList (l ++ '\n' :: rest) = n :: nameList rest := by
  unfold nameList
  rw [lines_line l rest hnl, List.filterMap_cons, splitWs_stripCr, h]

/-! ### one rendered entry -/

/-- tab-separated fields of one entry (`renderEntry` of `Props/C03FileList.lean`) -/
def entryLine (a b : List Char) (c : Option (List Char)) : List Char :=
  a ++ '\t' :: b ++ (match c with | none => [] | some c => '\t' :: c)

/-- non-empty, no white space -/
def FieldP (f : List Char) : Prop := f ≠ [] ∧ ∀ c ∈ f, isWs c = false

theorem FieldP.nonl {f : List Char} (h : FieldP f) : '\n' ∉ f := by
  intro hm
  have := h.2 _ hm
  rw [isWs_nl] at this
  exact absurd this (by decide)

theorem splitWs_entryLine (a b : List Char) (c : Option (List Char)) (q : List Char)
    (ha : FieldP a) (hb : FieldP b) (hc : ∀ x, c = some x → FieldP x) (hq : ∀ x ∈ q, isWs x = true) :
    splitWs (entryLine a b c ++ q) = a :: b :: (match c with | none => [] | some x => [x]) := by
  have htab : ['\t'] ≠ [] ∧ ∀ x ∈ ['\t'], isWs x = true := by
    refine ⟨by simp, ?_⟩
    intro x hx
    simp at hx
    subst hx; exact isWs_tab
  cases c with
  | none =>
    have e : entryLine a b none ++ q = a ++ ['\t'] ++ (b ++ q) := by simp [entryLine]
    rw [e, splitWs_field a _ _ ha.1 ha.2 htab.1 htab.2, splitWs_last b q hb.1 hb.2 hq]
  | some x =>
    have hx := hc x rfl
    have e : entryLine a b (some x) ++ q = a ++ ['\t'] ++ (b ++ ['\t'] ++ (x ++ q)) := by
      simp [entryLine]
    rw [e, splitWs_field a _ _ ha.1 ha.2 htab.1 htab.2, splitWs_field b _ _ hb.1 hb.2 htab.1 htab.2,
      splitWs_last x q hx.1 hx.2 hq]

theorem parseLine_entryLine (a b : List Char) (c : Option (List Char)) (q : List Char)
    (ha : FieldP a) (hb : FieldP b) (hc : ∀ x, c = some x → FieldP x) (hq : ∀ x ∈ q, isWs x = true) :
    parseLine (entryLine a b c ++ q) = some (a, b, c) := by
  unfold parseLine
  rw [splitWs_entryLine a b c q ha hb hc hq]
  cases c <;> rfl

theorem head_entryLine (a b : List Char) (c : Option (List Char))
    (ha : FieldP a) (hb : FieldP b) (hc : ∀ x, c = some x → FieldP x) :
    (splitWs (entryLine a b c)).head? = some a := by
  have := splitWs_entryLine a b c [] ha hb hc (by simp)
  rw [List.append_nil] at this
  rw [this]; rfl

theorem entryLine_nonl (a b : List Char) (c : Option (List Char))
    (ha : FieldP a) (hb : FieldP b) (hc : ∀ x, c = some x → FieldP x) :
    '\n' ∉ entryLine a b c := by
  have h1 := ha.nonl
  have h2 := hb.nonl
  have ht : '\n' ≠ '\t' := by decide
  cases c with
  | none => simp [entryLine, h1, h2, ht]
  | some x =>
    have h3 := (hc x rfl).nonl
    simp [entryLine, h1, h2, h3, ht]

theorem entryLine_ne_nil (a b : List Char) (c : Option (List Char)) : entryLine a b c ≠ [] := by
  simp [entryLine]

end SkaModel.FileListLemmas
