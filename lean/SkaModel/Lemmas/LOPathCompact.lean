/-
`ska lo` graph stage: soundness of the compacted graph (item 3 of `SkaModel/Props/C17Paths.lean`).
-/
import SkaModel.Lemmas.LOPathWalk

namespace SkaModel.LOG

open SkaModel SkaModel.Skalo SkaModel.Props.C17G

/-! ### edges after `removeEdge`, `addEdge` -/

theorem lookup_removeEdge (g : Graph) (a b x : Nat) :
    Assoc.lookup (removeEdge g a b) x =
      (Assoc.lookup g x).map (fun l => if x = a then l.filter (· != b) else l) := by
  induction g with
  | nil => rfl
  | cons kn rest ih =>
    obtain ⟨k, l⟩ := kn
    unfold removeEdge at ih ⊢
    rw [List.map_cons]
    by_cases hka : (k == a) = true
    · have e : k = a := eq_of_beq hka
      simp only [hka, if_true]
      rw [Assoc.lookup_cons_L, Assoc.lookup_cons_L, ih]
      by_cases hkx : (k == x) = true
      · have e2 : k = x := eq_of_beq hkx
        simp [← e2, e]
      · simp [hkx]
    · have hka' : (k == a) = false := by simpa using hka
      simp only [hka', Bool.false_eq_true, if_false]
      rw [Assoc.lookup_cons_L, Assoc.lookup_cons_L, ih]
      by_cases hkx : (k == x) = true
      · have e2 : k = x := eq_of_beq hkx
        have : ¬ x = a := by
          intro h; rw [← e2] at h; rw [h] at hka'; simp at hka'
        simp [hkx, this]
      · simp [hkx]

theorem edge_removeEdge {g : Graph} {a b x y : Nat} (h : Edge (removeEdge g a b) x y) :
    Edge g x y ∧ ¬ (x = a ∧ y = b) := by
  unfold Edge succs at h ⊢
  rw [lookup_removeEdge] at h
  cases hl : Assoc.lookup g x with
  | none => rw [hl] at h; simp at h
  | some l =>
    rw [hl] at h
    simp only [Option.map_some, Option.getD_some] at h ⊢
    by_cases hxa : x = a
    · rw [if_pos hxa] at h
      rw [List.mem_filter] at h
      refine ⟨h.1, ?_⟩
      rintro ⟨_, hyb⟩
      have := h.2
      simp [hyb] at this
    · rw [if_neg hxa] at h
      exact ⟨h, fun hh => hxa hh.1⟩

theorem edge_addEdge {g : Graph} {a b x y : Nat} (h : Edge (addEdge g a b) x y) :
    Edge g x y ∨ (x = a ∧ y = b) := by
  unfold Edge succs addEdge at *
  rw [Assoc.lookup_upsert] at h
  by_cases hax : (a == x) = true
  · have e : a = x := eq_of_beq hax
    rw [if_pos hax] at h
    cases hl : Assoc.lookup g a with
    | none =>
      rw [hl] at h
      simp at h
      right; exact ⟨e.symm, h⟩
    | some l =>
      rw [hl] at h
      simp only [Option.getD_some, List.mem_append, List.mem_singleton] at h
      rcases h with h | h
      · left; rw [← e, hl]; exact h
      · right; exact ⟨e.symm, h⟩
  · rw [if_neg hax] at h
    left; exact h

theorem edge_addEdgeOnce {g : Graph} {a b x y : Nat} (h : Edge (addEdgeOnce g a b) x y) :
    Edge g x y ∨ (x = a ∧ y = b) := by
  unfold Edge succs addEdgeOnce at *
  rw [Assoc.lookup_upsert] at h
  by_cases hax : (a == x) = true
  · have e : a = x := eq_of_beq hax
    rw [if_pos hax] at h
    cases hl : Assoc.lookup g a with
    | none =>
      rw [hl] at h
      simp at h
      right; exact ⟨e.symm, h⟩
    | some l =>
      rw [hl] at h
      simp only [Option.getD_some] at h
      by_cases hc : l.contains b = true
      · rw [if_pos hc] at h
        left; rw [← e, hl]; exact h
      · rw [if_neg hc] at h
        rcases List.mem_append.mp h with h | h
        · left; rw [← e, hl]; exact h
        · right; exact ⟨e.symm, List.mem_singleton.mp h⟩
  · rw [if_neg hax] at h
    left; exact h

theorem edge_foldRemove {x y : Nat} (ws : List (Nat × Nat)) :
    ∀ (g : Graph), Edge (ws.foldl (fun g w => removeEdge g w.1 w.2) g) x y → Edge g x y := by
  induction ws with
  | nil => intro g h; exact h
  | cons w t ih =>
    intro g h
    rw [List.foldl_cons] at h
    exact (edge_removeEdge (ih _ h)).1

theorem edge_applySegment {g : Graph} {sv : Nat × List Nat} {x y : Nat}
    (h : Edge (applySegment g sv) x y) :
    (Edge g x y ∧ ¬ (x = sv.1 ∧ y = sv.2.headD 0)) ∨ (x = sv.1 ∧ y = sv.2.getLastD 0) := by
  unfold applySegment at h
  rcases edge_addEdge h with h | h
  · left
    exact edge_removeEdge (edge_foldRemove _ _ h)
  · right; exact h

theorem edge_foldSegments {x y : Nat} (segs : List (Nat × List Nat)) :
    ∀ (g : Graph), Edge (segs.foldl applySegment g) x y →
      (Edge g x y ∧ ∀ sv ∈ segs, ¬ (x = sv.1 ∧ y = sv.2.headD 0)) ∨
        ∃ sv ∈ segs, x = sv.1 ∧ y = sv.2.getLastD 0 := by
  induction segs with
  | nil => intro g h; left; exact ⟨h, by simp⟩
  | cons sv t ih =>
    intro g h
    rw [List.foldl_cons] at h
    rcases ih _ h with ⟨h1, h2⟩ | ⟨sv', hsv', h'⟩
    · rcases edge_applySegment h1 with ⟨h3, h4⟩ | h3
      · left
        refine ⟨h3, ?_⟩
        intro sv' hsv'
        rcases List.mem_cons.1 hsv' with e | e
        · rw [e]; exact h4
        · exact h2 sv' e
      · right; exact ⟨sv, List.mem_cons_self .., h3⟩
    · right; exact ⟨sv', List.mem_cons_of_mem _ hsv', h'⟩

/-! ### segments -/

theorem dropLast_append_getLastD (d : Nat) : ∀ (v : List Nat), v ≠ [] → v.dropLast ++ [v.getLastD d] = v
  | [], h => absurd rfl h
  | [a], _ => rfl
  | a :: b :: t, _ => by
    have := dropLast_append_getLastD a (b :: t) (by simp)
    rw [List.dropLast_cons_cons, List.cons_append]
    show a :: ((b :: t).dropLast ++ [(b :: t).getLastD a]) = a :: b :: t
    rw [this]

/-- a segment is a chain of single-successor nodes of the original graph -/
theorem seg_chain {g : Graph} {starts ends : List Nat} {sv : Nat × List Nat}
    (h : SegOk g starts ends sv) :
    Chain1 g (sv.1 :: sv.2) ∧ sv.2.Nodup ∧ (∀ x ∈ sv.2.dropLast, x ∉ starts ∧ x ∉ ends) ∧
      sv.2.dropLast ≠ [] ∧ sv.2.dropLast ++ [sv.2.getLastD 0] = sv.2 ∧
      Assoc.lookup g sv.1 = some [sv.2.headD 0] := by
  obtain ⟨hv, hl, _⟩ := h
  obtain ⟨ext, h1, h2, h3, h4, _⟩ := compactWalk_inv g starts ends (edgeCount g + 1) sv.1 []
  rw [← hv] at h1
  simp only [List.nil_append] at h1 h3
  rw [← h1] at h2 h3 h4
  have hne : sv.2 ≠ [] := by intro e; rw [e] at hl; simp at hl
  refine ⟨h2, h3 (by simp), h4, ?_, dropLast_append_getLastD 0 _ hne, ?_⟩
  · intro e
    have := congrArg List.length e
    simp at this
    omega
  · cases hsv : sv.2 with
    | nil => exact absurd hsv hne
    | cons a t => rw [hsv] at h2; exact h2.1

theorem lookup_comp {segs : List (Nat × List Nat)} {a : Nat} {I : List Nat}
    (h : Assoc.lookup (segs.map (fun sv => (sv.1, sv.2.dropLast))) a = some I) :
    ∃ sv ∈ segs, sv.1 = a ∧ I = sv.2.dropLast := by
  have := Assoc.mem_of_lookup h
  rw [List.mem_map] at this
  obtain ⟨sv, hsv, e⟩ := this
  simp only [Prod.mk.injEq] at e
  exact ⟨sv, hsv, e.1, e.2.symm⟩

theorem lookup_comp_of_mem {segs : List (Nat × List Nat)} (hn : (Assoc.keys segs).Nodup)
    {sv : Nat × List Nat} (h : sv ∈ segs) :
    Assoc.lookup (segs.map (fun sv => (sv.1, sv.2.dropLast))) sv.1 = some sv.2.dropLast := by
  apply Assoc.lookup_of_mem_nodup
  · have : Assoc.keys (segs.map (fun sv => (sv.1, sv.2.dropLast))) = Assoc.keys segs := by
      unfold Assoc.keys
      rw [List.map_map]
      rfl
    rw [this]; exact hn
  · rw [List.mem_map]
    exact ⟨sv, h, rfl⟩

/-! ### item 3 -/

/-- every edge of the compacted graph is an edge of the original graph out of a node that starts
no segment, or the shortcut of the segment starting at `a`: the interior recorded for `a` and
then `b` form a chain of single-successor nodes of the original graph -/
theorem compactGraph_edge (g : Graph) (starts ends : List Nat) (a b : Nat)
    (h : Edge (compactGraph g starts ends).1 a b) :
    (Edge g a b ∧ Assoc.lookup (compactGraph g starts ends).2 a = none) ∨
      ∃ I, Assoc.lookup (compactGraph g starts ends).2 a = some I ∧ I ≠ [] ∧
        Chain1 g (a :: I ++ [b]) := by
  obtain ⟨hok, hnd⟩ := compactSegments_inv g starts ends
  unfold compactGraph at h ⊢
  simp only at h ⊢
  rcases edge_foldSegments _ _ h with ⟨h1, h2⟩ | ⟨sv, hsv, hx, hy⟩
  · left
    refine ⟨h1, ?_⟩
    cases hl : Assoc.lookup ((compactSegments g starts ends).map (fun sv => (sv.1, sv.2.dropLast))) a with
    | none => rfl
    | some I =>
      exfalso
      obtain ⟨sv, hsv, e1, _⟩ := lookup_comp hl
      obtain ⟨_, _, _, _, _, hlk⟩ := seg_chain (hok sv hsv)
      apply h2 sv hsv
      refine ⟨e1.symm, ?_⟩
      unfold Edge succs at h1
      rw [← e1, hlk] at h1
      simpa using h1
  · right
    obtain ⟨hc, _, _, hne, happ, _⟩ := seg_chain (hok sv hsv)
    refine ⟨sv.2.dropLast, ?_, hne, ?_⟩
    · rw [hx]; exact lookup_comp_of_mem hnd hsv
    · rw [hx, hy, List.cons_append, happ]; exact hc

/-- the interior recorded for a node is a chain of single-successor nodes of the original graph -/
theorem compactGraph_interior (g : Graph) (starts ends : List Nat) (a : Nat) (I : List Nat)
    (h : Assoc.lookup (compactGraph g starts ends).2 a = some I) :
    I ≠ [] ∧ Chain1 g (a :: I) ∧ I.Nodup ∧ (∀ x ∈ I, x ∉ starts ∧ x ∉ ends) ∧
      ∃ k ∈ starts ++ ends, Edge g k a := by
  obtain ⟨hok, hnd⟩ := compactSegments_inv g starts ends
  unfold compactGraph at h
  simp only at h
  obtain ⟨sv, hsv, e1, e2⟩ := lookup_comp h
  obtain ⟨hc, hnd', hint, hne, happ, _⟩ := seg_chain (hok sv hsv)
  subst e2
  refine ⟨hne, ?_, ?_, hint, ?_⟩
  · rw [← e1]
    rw [← happ] at hc
    exact chain1_append_left (sv.1 :: sv.2.dropLast) [sv.2.getLastD 0] hc
  · rw [← happ] at hnd'
    exact (List.nodup_append.1 hnd').1
  · rw [← e1]; exact (hok sv hsv).2.2

end SkaModel.LOG
