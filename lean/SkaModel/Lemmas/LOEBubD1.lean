/-
C18 completeness — the bubbles of the graph of a deletion family: for every block the bubble of the samples'
strand (from the node before the block to the node after it; one arm through the block, one arm of jumping
windows) and its twin on the other strand; their arms are chains of single-successor nodes.
-/
import SkaModel.Lemmas.LOESuccD
import SkaModel.Lemmas.LOEBubC

namespace SkaModel.LOE

open SkaModel SkaModel.Spec SkaModel.Props.C16 SkaModel.Skalo SkaModel.Props.C17G SkaModel.LOG SkaModel.LOC

/-! ### lists `f s, f (s+1), …` -/

theorem headD_map_range' (f : Nat → Nat) (s n d : Nat) (hn : 0 < n) : ((List.range' s n).map f).headD d = f s := by
  obtain ⟨n', rfl⟩ : ∃ n', n = n' + 1 := ⟨n - 1, by omega⟩
  rfl

theorem getLastD_map_range' (f : Nat → Nat) (s n d : Nat) (hn : 0 < n) :
    ((List.range' s n).map f).getLastD d = f (s + n - 1) := by
  obtain ⟨n', rfl⟩ : ∃ n', n = n' + 1 := ⟨n - 1, by omega⟩
  rw [DFam.range'_snoc, List.map_append, List.map_singleton, getLastD_append_singleton]
  congr 1

theorem headD_map_range'_rev (f : Nat → Nat) (s n d : Nat) (hn : 0 < n) :
    ((List.range' s n).reverse.map f).headD d = f (s + n - 1) := by
  obtain ⟨n', rfl⟩ : ∃ n', n = n' + 1 := ⟨n - 1, by omega⟩
  rw [DFam.range'_snoc, List.reverse_append]
  simp

theorem getLastD_map_range'_rev (f : Nat → Nat) (s n d : Nat) (hn : 0 < n) :
    ((List.range' s n).reverse.map f).getLastD d = f s := by
  obtain ⟨n', rfl⟩ : ∃ n', n = n' + 1 := ⟨n - 1, by omega⟩
  rw [List.range'_succ, List.reverse_cons, List.map_append, List.map_singleton, getLastD_append_singleton]

theorem chain1_range (g : Graph) (f : Nat → Nat) (z : Nat) :
    ∀ (n s : Nat), (∀ i, i + 1 < n → Assoc.lookup g (f (s + i)) = some [f (s + i + 1)]) →
      (0 < n → Assoc.lookup g (f (s + n - 1)) = some [z]) →
      Chain1 g ((List.range' s n).map f ++ [z]) := by
  intro n
  induction n with
  | zero => intro s _ _; trivial
  | succ n ih =>
    intro s hstep hlast
    rw [List.range'_succ, List.map_cons, List.cons_append]
    have hrest := ih (s + 1) (fun i hi => by
        have := hstep (i + 1) (by omega)
        rw [show s + (i + 1) = s + 1 + i by omega] at this
        exact this)
      (fun hn => by
        have := hlast (by omega)
        rw [show s + (n + 1) - 1 = s + 1 + n - 1 by omega] at this
        exact this)
    cases n with
    | zero =>
      simp only [List.range'_zero, List.map_nil, List.nil_append]
      exact ⟨by simpa using hlast (by omega), trivial⟩
    | succ n' =>
      rw [List.range'_succ, List.map_cons, List.cons_append] at hrest ⊢
      exact ⟨by simpa using hstep 0 (by omega), hrest⟩

theorem chain1_range_rev (g : Graph) (f : Nat → Nat) (z : Nat) (s : Nat) :
    ∀ (n : Nat), (∀ i, i + 1 < n → Assoc.lookup g (f (s + i + 1)) = some [f (s + i)]) →
      (0 < n → Assoc.lookup g (f s) = some [z]) →
      Chain1 g ((List.range' s n).reverse.map f ++ [z]) := by
  intro n
  induction n with
  | zero => intro _ _; trivial
  | succ n ih =>
    intro hstep hlast
    rw [DFam.range'_snoc, List.reverse_append, List.reverse_singleton, List.singleton_append, List.map_cons,
      List.cons_append]
    have hrest := ih (fun i hi => hstep i (by omega)) (fun _ => hlast (by omega))
    cases n with
    | zero =>
      simp only [List.range'_zero, List.reverse_nil, List.map_nil, List.nil_append]
      exact ⟨by simpa using hlast (by omega), trivial⟩
    | succ n' =>
      rw [DFam.range'_snoc, List.reverse_append, List.reverse_singleton, List.singleton_append, List.map_cons,
        List.cons_append] at hrest ⊢
      refine ⟨?_, hrest⟩
      have := hstep n' (by omega)
      rw [show s + n' + 1 = s + (n' + 1) by omega] at this
      exact this

/-! ### the bubbles -/

/-- the first column of the entry node of block `t`: the `(k-1)`-mer that ends at the rightmost placement -/
def eX (k : Nat) (F : List UInt8) (B : List (Nat × Nat)) (t : Nat) : Nat := bS B t + shf k F B t - (k - 1)

/-- the bubble of block `t` on the samples' strand -/
def fwdBub (k : Nat) (F : List UInt8) (B : List (Nat × Nat)) (t : Nat) : Bub :=
  { en := nF k F B (.c (eX k F B t))
    ex := nF k F B (.c (bE B t))
    a := (List.range' (eX k F B t + 1) (bE B t - eX k F B t - 1)).map (fun x => nF k F B (.c x))
    b := (List.range' (eX k F B t + 1) (bS B t - eX k F B t - 1)).map (fun x => nF k F B (.g t x)) }

/-- its twin on the other strand -/
def revBub (k : Nat) (F : List UInt8) (B : List (Nat × Nat)) (t : Nat) : Bub :=
  { en := nR k F B (.c (bE B t))
    ex := nR k F B (.c (eX k F B t))
    a := (List.range' (eX k F B t + 1) (bE B t - eX k F B t - 1)).reverse.map (fun x => nR k F B (.c x))
    b := (List.range' (eX k F B t + 1) (bS B t - eX k F B t - 1)).reverse.map (fun x => nR k F B (.g t x)) }

/-- all bubbles -/
def allBubs (k : Nat) (F : List UInt8) (B : List (Nat × Nat)) : List Bub :=
  (List.range B.length).map (fwdBub k F B) ++ (List.range B.length).map (revBub k F B)

theorem mem_allBubs (k : Nat) (F : List UInt8) (B : List (Nat × Nat)) (β : Bub) :
    β ∈ allBubs k F B ↔ ∃ t, t < B.length ∧ (β = fwdBub k F B t ∨ β = revBub k F B t) := by
  unfold allBubs
  simp only [List.mem_append, List.mem_map, List.mem_range]
  constructor
  · rintro (⟨t, ht, rfl⟩ | ⟨t, ht, rfl⟩)
    · exact ⟨t, ht, Or.inl rfl⟩
    · exact ⟨t, ht, Or.inr rfl⟩
  · rintro ⟨t, ht, rfl | rfl⟩
    · exact Or.inl ⟨t, ht, rfl⟩
    · exact Or.inr ⟨t, ht, rfl⟩

namespace Ctx

variable {W k : Nat} {F : List UInt8} {B : List (Nat × Nat)} {C : List (List Bool)} {a : Arr} {names : List String}

/-- the position of the entry node -/
theorem ex_bounds (cx : Ctx W k F B C a names) {t : Nat} (ht : t < B.length) :
    eX k F B t + (k - 1) = bS B t + shf k F B t ∧ eX k F B t + 2 ≤ bS B t ∧ bS B t ≤ eX k F B t + (k - 1) := by
  have hb := cx.h.bt ht
  have hk5 := cx.h.k5
  unfold eX
  omega

/-- a contiguous node behind the entry node of block `t` and not far behind the block is no entry node -/
theorem not_entry (cx : Ctx W k F B C a names) {t : Nat} (ht : t < B.length) {x : Nat}
    (h1 : eX k F B t < x) (h2 : x ≤ bE B t + 3 * k) {t' : Nat} (ht' : t' < B.length) :
    x ≠ eX k F B t' := by
  have hb := cx.h.bt ht
  have hb' := cx.h.bt ht'
  have he := cx.ex_bounds ht
  have he' := cx.ex_bounds ht'
  have hk5 := cx.h.k5
  intro e
  by_cases htt : t = t'
  · subst htt; omega
  · have := cx.h.sep_ne ht ht' htt
    unfold bS bE at *
    omega

/-- a contiguous node not far before block `t` and before its end is not the node after a block -/
theorem not_exit (cx : Ctx W k F B C a names) {t : Nat} (ht : t < B.length) {x : Nat}
    (h1 : bS B t ≤ x + 3 * k) (h2 : x < bE B t) {t' : Nat} (ht' : t' < B.length) :
    x ≠ bE B t' := by
  have hb := cx.h.bt ht
  have hb' := cx.h.bt ht'
  have hk5 := cx.h.k5
  intro e
  by_cases htt : t = t'
  · subst htt; omega
  · have := cx.h.sep_ne ht ht' htt
    unfold bS bE at *
    omega

/-- the unique successor of a contiguous node that is no entry node -/
theorem lookupF_c (cx : Ctx W k F B C a names) {x : Nat} (hx : x + k ≤ F.length)
    (hne : ∀ t', t' < B.length → x ≠ eX k F B t') :
    Assoc.lookup (buildGraph W a).1 (nF k F B (.c x)) = some [nF k F B (.c (x + 1))] := by
  apply cx.lookupF (RE.cc x hx)
  intro n'' hr
  rcases re_succ_c hr with ⟨rfl, _⟩ | ⟨t', ht', e, _⟩
  · rfl
  · exact absurd e (hne t' ht')

/-- the unique successor, on the other strand, of a contiguous node that is not the node after a block -/
theorem lookupR_c (cx : Ctx W k F B C a names) {x : Nat} (hx : x + k ≤ F.length)
    (hne : ∀ t', t' < B.length → x + 1 ≠ bE B t') :
    Assoc.lookup (buildGraph W a).1 (nR k F B (.c (x + 1))) = some [nR k F B (.c x)] := by
  apply cx.lookupR (RE.cc x hx)
  intro n'' hr
  rcases re_pred_c hr with ⟨x', rfl, e, _⟩ | ⟨t', ht', _, e⟩
  · rw [show x' = x by omega]
  · exact absurd e (hne t' ht')

theorem chA_fwd (cx : Ctx W k F B C a names) {t : Nat} (ht : t < B.length) :
    Chain1 (buildGraph W a).1 ((fwdBub k F B t).a ++ [(fwdBub k F B t).ex]) := by
  have hb := cx.h.bt ht
  have he := cx.ex_bounds ht
  have hk5 := cx.h.k5
  unfold fwdBub
  simp only
  apply chain1_range
  · intro i hi
    apply cx.lookupF_c (by omega)
    intro t' ht'
    exact cx.not_entry ht (by omega) (by omega) ht'
  · intro _
    have := cx.lookupF_c (x := bE B t - 1) (by omega)
      (fun t' ht' => cx.not_entry ht (by omega) (by omega) ht')
    rw [show bE B t - 1 + 1 = bE B t by omega] at this
    rw [show eX k F B t + 1 + (bE B t - eX k F B t - 1) - 1 = bE B t - 1 by omega]
    exact this

theorem chB_fwd (cx : Ctx W k F B C a names) {t : Nat} (ht : t < B.length) :
    Chain1 (buildGraph W a).1 ((fwdBub k F B t).b ++ [(fwdBub k F B t).ex]) := by
  have hb := cx.h.bt ht
  have he := cx.ex_bounds ht
  have hk5 := cx.h.k5
  unfold fwdBub
  simp only
  apply chain1_range
  · intro i hi
    apply cx.lookupF (RE.gg t _ ht (by omega) (by omega))
    intro n'' hr
    rcases re_succ_g hr with ⟨rfl, _, _⟩ | ⟨e, _⟩
    · rfl
    · omega
  · intro _
    rw [show eX k F B t + 1 + (bS B t - eX k F B t - 1) - 1 = bS B t - 1 by omega]
    apply cx.lookupF (RE.gc t ht)
    intro n'' hr
    rcases re_succ_g hr with ⟨_, _, e⟩ | ⟨_, rfl⟩
    · omega
    · rfl

theorem chA_rev (cx : Ctx W k F B C a names) {t : Nat} (ht : t < B.length) :
    Chain1 (buildGraph W a).1 ((revBub k F B t).a ++ [(revBub k F B t).ex]) := by
  have hb := cx.h.bt ht
  have he := cx.ex_bounds ht
  have hk5 := cx.h.k5
  unfold revBub
  simp only
  apply chain1_range_rev
  · intro i hi
    apply cx.lookupR_c (by omega)
    intro t' ht'
    exact cx.not_exit ht (by omega) (by omega) ht'
  · intro _
    exact cx.lookupR_c (x := eX k F B t) (by omega)
      (fun t' ht' => cx.not_exit ht (by omega) (by omega) ht')

theorem chB_rev (cx : Ctx W k F B C a names) {t : Nat} (ht : t < B.length) :
    Chain1 (buildGraph W a).1 ((revBub k F B t).b ++ [(revBub k F B t).ex]) := by
  have hb := cx.h.bt ht
  have he := cx.ex_bounds ht
  have hk5 := cx.h.k5
  unfold revBub
  simp only
  apply chain1_range_rev
  · intro i hi
    apply cx.lookupR (RE.gg t _ ht (by omega) (by omega))
    intro n'' hr
    obtain ⟨_, hc⟩ := re_pred_g hr
    rcases hc with ⟨_, e⟩ | ⟨x', rfl, e, _, _⟩
    · unfold eX at *; omega
    · rw [show x' = eX k F B t + 1 + i by omega]
  · intro _
    have hcg := RE.cg (k := k) (N := F.length) (B := B) (m := shf k F B) t ht
    apply cx.lookupR hcg
    intro n'' hr
    obtain ⟨_, hc⟩ := re_pred_g hr
    rcases hc with ⟨rfl, _⟩ | ⟨x', _, e, h3, _⟩
    · rfl
    · unfold eX at *; omega

end Ctx

end SkaModel.LOE
