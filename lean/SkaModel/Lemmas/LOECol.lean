/-
C18 completeness — colours of the k-mers of a deletion family: the colour set of a window of `k` columns of a
sample (on either strand) is the list of the samples that have the same window; a window through a block is a
window of exactly the samples that keep the block, a window over it of exactly those that delete it.
-/
import SkaModel.Lemmas.LOESeq2

namespace SkaModel.LOE

open SkaModel SkaModel.Spec SkaModel.Props.C16 SkaModel.Skalo SkaModel.Props.C17G SkaModel.LOG SkaModel.LOC

/-- `u` is a window of `k` columns of the sample with flags `c` -/
def IsWin (k N : Nat) (B : List (Nat × Nat)) (c : List Bool) (u : List Nat) : Prop :=
  ∃ j, j + k ≤ (keepCols N B c).length ∧ cwin (keepCols N B c) j k = u

/-- the samples that keep / delete block `t` -/
def keepIdx (C : List (List Bool)) (t : Nat) : List Nat :=
  (List.range C.length).filter (fun i => (C.getD i []).getD t false)
def delIdx (C : List (List Bool)) (t : Nat) : List Nat :=
  (List.range C.length).filter (fun i => !(C.getD i []).getD t false)

theorem eq_of_take_drop {α : Type} {u v : List α} {m : Nat} (hm : 1 ≤ m) (hu : u.length = m + 1) (hv : v.length = m + 1)
    (h1 : u.take m = v.take m) (h2 : u.drop 1 = v.drop 1) : u = v := by
  rw [← List.take_append_drop m u, ← List.take_append_drop m v, h1]
  congr 1
  have e1 : u.drop m = (u.drop 1).drop (m - 1) := by rw [List.drop_drop]; congr 1; omega
  have e2 : v.drop m = (v.drop 1).drop (m - 1) := by rw [List.drop_drop]; congr 1; omega
  rw [e1, e2, h2]

theorem rcSeq_take (w : List UInt8) (n : Nat) : (rcSeq w).take n = rcSeq (w.drop (w.length - n)) := by
  unfold rcSeq
  rw [← List.map_take, List.take_reverse]

namespace Ctx

variable {W k : Nat} {F : List UInt8} {B : List (Nat × Nat)} {C : List (List Bool)} {a : Arr} {names : List String}

theorem isWin_lt (_cx : Ctx W k F B C a names) {c : List Bool} {u : List Nat} (hu : IsWin k F.length B c u) :
    ∀ x ∈ u, x < F.length := by
  obtain ⟨j, _, rfl⟩ := hu
  intro x hx
  exact keepCols_lt (cwin_subset hx)

theorem isWin_parts (cx : Ctx W k F B C a names) {c : List Bool} (hc : c ∈ C) {u : List Nat}
    (hu : IsWin k F.length B c u) :
    u.length = k ∧ u.take (k - 1) ∈ colWindows (k - 1) F.length B C ∧ u.drop 1 ∈ colWindows (k - 1) F.length B C := by
  have hk5 := cx.h.k5
  obtain ⟨j, hj, rfl⟩ := hu
  refine ⟨cwin_length hj, ?_, ?_⟩
  · rw [cwin_take _ _ _ _ (by omega)]
    exact (mem_colWindows _ _ _ _ _).mpr ⟨c, hc, j, by omega, rfl⟩
  · rw [cwin_drop]
    exact (mem_colWindows _ _ _ _ _).mpr ⟨c, hc, j + 1, by omega, rfl⟩

theorem canon_head (F : List UInt8) (w : List Nat) (hw : w ≠ []) : (canonW F w).headD 0 = w.headD 0 := by
  unfold canonW
  simp only
  split
  · obtain ⟨m, hm⟩ : ∃ m, w.length = m + 1 := ⟨w.length - 1, by have := List.length_pos_iff.mpr hw; omega⟩
    rw [hm, List.range'_succ]
    rfl
  · rfl

theorem cwin_head {K : List Nat} {j m x : Nat} (hm : 1 ≤ m) (hx : K[j]? = some x) : (cwin K j m).headD 0 = x := by
  have h0 := cwin_getElem? K j m 0 (by omega)
  rw [Nat.add_zero, hx] at h0
  rw [List.headD_eq_head?_getD, List.head?_eq_getElem?, h0]
  rfl

/-- a window of `k - 1` columns of a sample that spells a valid node starts at the first column of the node -/
theorem win_head (cx : Ctx W k F B C a names) {c : List Bool} (hc : c ∈ C) {j : Nat}
    (hj : j + (k - 1) ≤ (keepCols F.length B c).length) {n : Nd} (hv : n.valid k F.length B (shf k F B))
    (e : lets F (cwin (keepCols F.length B c) j (k - 1)) = lets F (n.cols k B)) :
    (keepCols F.length B c)[j]? = some ((n.cols k B).headD 0) := by
  have hk5 := cx.h.k5
  have hmem : cwin (keepCols F.length B c) j (k - 1) ∈ colWindows (k - 1) F.length B C :=
    (mem_colWindows _ _ _ _ _).mpr ⟨c, hc, j, hj, rfl⟩
  have hcan := (cx.h.uniq _ hmem _ (cx.h.cols_mem hv)).1 e
  rw [cx.h.canon_valid hv] at hcan
  have hlt : j < (keepCols F.length B c).length := by omega
  have hx : (keepCols F.length B c)[j]? = some (keepCols F.length B c)[j] := List.getElem?_eq_getElem hlt
  have hne : cwin (keepCols F.length B c) j (k - 1) ≠ [] := by
    intro e0
    have := cwin_length (K := keepCols F.length B c) (j := j) (m := k - 1) hj
    rw [e0] at this
    simp at this
    omega
  have h1 := canon_head F _ hne
  rw [hcan, cwin_head (by omega) hx] at h1
  rw [hx, h1]

/-- no window of `k` columns spells the reverse complement of a window of `k` columns -/
theorem kwin_norc (cx : Ctx W k F B C a names) {c c' : List Bool} (hc : c ∈ C) (hc' : c' ∈ C) {u u' : List Nat}
    (hu : IsWin k F.length B c u) (hu' : IsWin k F.length B c' u') :
    cds (lets F u') ≠ rcCodes (cds (lets F u)) := by
  have hk5 := cx.h.k5
  obtain ⟨hl, ht, hd⟩ := cx.isWin_parts hc hu
  obtain ⟨hl', ht', hd'⟩ := cx.isWin_parts hc' hu'
  have hb : AllBase (lets F u) := map_getF_base cx.h.base (cx.isWin_lt hu)
  have hb' : AllBase (lets F u') := map_getF_base cx.h.base (cx.isWin_lt hu')
  intro e
  rw [← cds_rcSeq hb] at e
  have e' : lets F u' = rcSeq (lets F u) := cds_inj hb' hb.rcSeq e
  apply (cx.h.uniq _ ht' _ hd).2
  have := congrArg (List.take (k - 1)) e'
  rw [rcSeq_take] at this
  unfold lets at this
  rw [← List.map_take, List.length_map, hl, ← List.map_drop, show k - (k - 1) = 1 by omega] at this
  exact this

/-- **the colour sets of a window of `k` columns**, on both strands: the samples with a window that spells the
same -/
theorem colour_win (cx : Ctx W k F B C a names) {c0 : List Bool} (hc0 : c0 ∈ C) {u : List Nat}
    (hu : IsWin k F.length B c0 u) (Fk : List Nat) (hF : Fk = cds (lets F u) ∨ Fk = rcCodes (cds (lets F u))) :
    ∃ Cs, Assoc.lookup (buildGraph W a).2 (packL Fk) = some Cs ∧ Cs.Pairwise (· < ·) ∧
      ∀ i, i ∈ Cs ↔ ∃ c, C[i]? = some c ∧ ∃ u', IsWin k F.length B c u' ∧ lets F u' = lets F u := by
  obtain ⟨j, hj, hju⟩ := hu
  have hs : dsample F B c0 ∈ dsamples F B C := List.mem_map.mpr ⟨c0, hc0, rfl⟩
  have hwin : ∀ (c : List Bool) (j' : Nat), win (dsample F B c) j' k = lets F (cwin (keepCols F.length B c) j' k) := by
    intro c j'
    unfold dsample lets
    rw [win_map]
  obtain ⟨Cs, h1, h2, h3⟩ := colour_var cx.ha cx.h.vfam cx.hk cx.hw (dsample F B c0) hs j
    (by rw [dsample_length]; exact hj) Fk (by rw [hwin, hju]; exact hF)
  refine ⟨Cs, h1, h2, ?_⟩
  intro i
  rw [h3]
  constructor
  · rintro ⟨t', ht', j', hj', hcase⟩
    unfold dsamples at ht'
    rw [List.getElem?_map] at ht'
    cases hci : C[i]? with
    | none => rw [hci] at ht'; simp at ht'
    | some c =>
      rw [hci] at ht'
      simp only [Option.map_some, Option.some.injEq] at ht'
      subst ht'
      rw [dsample_length] at hj'
      have hcm : c ∈ C := List.mem_of_getElem? hci
      have hu' : IsWin k F.length B c (cwin (keepCols F.length B c) j' k) := ⟨j', hj', rfl⟩
      have hu0 : IsWin k F.length B c0 u := ⟨j, hj, hju⟩
      rw [hwin, hwin, hju] at hcase
      rcases hcase with e | e
      · refine ⟨c, rfl, _, hu', ?_⟩
        exact cds_inj (map_getF_base cx.h.base (cx.isWin_lt hu')) (map_getF_base cx.h.base (cx.isWin_lt hu0)) e
      · exact absurd e (cx.kwin_norc hc0 hcm hu0 hu')
  · rintro ⟨c, hci, u', ⟨j', hj', rfl⟩, e⟩
    refine ⟨dsample F B c, ?_, j', by rw [dsample_length]; exact hj', Or.inl ?_⟩
    · unfold dsamples
      rw [List.getElem?_map, hci]
      rfl
    · rw [hwin, hwin, e, hju]

/-- a contiguous window through block `t` is a window of exactly the samples that keep the block -/
theorem isWin_keep (cx : Ctx W k F B C a names) {t : Nat} (ht : t < B.length) (c : List Bool) {x y : Nat}
    (h1 : bS B t ≤ x + k) (h2 : x ≤ bE B t) (hy1 : x ≤ y) (hy2 : y < x + k) (hyb : inBlk (B.getD t (0, 0)) y) :
    IsWin k F.length B c (List.range' x k) ↔ c.getD t false = true := by
  have hb := cx.h.bt ht
  have hk5 := cx.h.k5
  constructor
  · rintro ⟨j, hj, e⟩
    have hym : y ∈ keepCols F.length B c := by
      apply cwin_subset (j := j) (m := k)
      rw [e, List.mem_range'_1]
      exact ⟨hy1, hy2⟩
    have := ((mem_keepCols _ _ _ _).mp hym).2
    rwa [cx.h.keep_in c ht hyb] at this
  · intro hc
    apply win_cont F.length B c (by unfold bS bE at *; omega)
    intro z hz1 hz2
    by_cases hin : inBlk (B.getD t (0, 0)) z
    · rw [cx.h.keep_in c ht hin, hc]
    · exact cx.h.keep_near c ht (by unfold bS bE at *; omega) (by unfold bS bE at *; omega) hin

/-- a window that jumps over block `t` is a window of exactly the samples that delete the block -/
theorem isWin_del (cx : Ctx W k F B C a names) {t : Nat} (ht : t < B.length) (c : List Bool) {x : Nat}
    (h1 : x < bS B t) (h2 : bS B t < x + k) :
    IsWin k F.length B c (List.range' x (bS B t - x) ++ List.range' (bE B t) (k - (bS B t - x))) ↔
      c.getD t false = false := by
  have hb := cx.h.bt ht
  have hk5 := cx.h.k5
  constructor
  · rintro ⟨j, hj, e⟩
    have e1 := cwin_getElem? (keepCols F.length B c) j k (bS B t - x - 1) (by omega)
    have e2 := cwin_getElem? (keepCols F.length B c) j k (bS B t - x) (by omega)
    rw [e, List.getElem?_append_left (by simp; omega), List.getElem?_range' (by omega)] at e1
    rw [e, List.getElem?_append_right (by simp), List.length_range', Nat.sub_self,
      List.getElem?_range' (by omega)] at e2
    obtain ⟨_, _, _, _, hbetween⟩ := next_kept e1.symm (by
      rw [show j + (bS B t - x - 1) + 1 = j + (bS B t - x) by omega]; exact e2.symm)
    have hkb := hbetween (bS B t) (by omega) (by omega)
    rwa [cx.h.keep_in c ht (by unfold inBlk; unfold bS bE at *; omega)] at hkb
  · intro hc
    exact cx.h.win_gap c ht hc h1 h2 (by omega)

/-- the window of `k` columns of a sample that starts at column `x` near block `t`: contiguous, or over block `t`
when the sample deletes it -/
theorem win_at (cx : Ctx W k F B C a names) {t : Nat} (ht : t < B.length) {c : List Bool} {j x : Nat}
    (hj : j + k ≤ (keepCols F.length B c).length) (hx : (keepCols F.length B c)[j]? = some x)
    (h1 : bS B t ≤ x + k) (h2 : x ≤ bE B t) :
    cwin (keepCols F.length B c) j k = List.range' x k ∨
    (c.getD t false = false ∧ x < bS B t ∧ bS B t < x + k ∧
      cwin (keepCols F.length B c) j k =
        List.range' x (bS B t - x) ++ List.range' (bE B t) (k - (bS B t - x))) := by
  have hb := cx.h.bt ht
  have hk5 := cx.h.k5
  obtain ⟨x', hx', hsh⟩ := cx.h.win_class c (by omega) (Nat.le_refl k) hj
  rw [hx] at hx'
  have := Option.some.inj hx'
  subst this
  rcases hsh with e | ⟨t', ht', hct, hxb, hbx, e⟩
  · exact Or.inl e
  · right
    have htt : t' = t := by
      apply Classical.byContradiction
      intro hne
      have hb' := cx.h.bt ht'
      have := cx.h.sep_ne ht' ht hne
      unfold bS bE at *
      omega
    subst htt
    exact ⟨hct, hxb, hbx, e⟩

/-- **the samples with a window that spells a contiguous window through block `t`** (with more than the shift
behind the start of the block): those that keep the block -/
theorem spell_keep_iff (cx : Ctx W k F B C a names) {t : Nat} (ht : t < B.length) {c : List Bool} (hc : c ∈ C)
    {x y : Nat} (h1 : bS B t ≤ x + k) (h2 : x ≤ bE B t) (hy1 : x ≤ y) (hy2 : y < x + k)
    (hyb : inBlk (B.getD t (0, 0)) y) (hsh : bS B t + shf k F B t < x + k) :
    (∃ u', IsWin k F.length B c u' ∧ lets F u' = lets F (List.range' x k)) ↔ c.getD t false = true := by
  have hb := cx.h.bt ht
  have hk5 := cx.h.k5
  constructor
  · rintro ⟨u', ⟨j, hj, rfl⟩, e⟩
    -- the window starts at `x`
    have hv : (Nd.c x).valid k F.length B (shf k F B) := by
      show x + (k - 1) ≤ F.length
      unfold bS bE at *; omega
    have e1 : lets F (cwin (keepCols F.length B c) j (k - 1)) = lets F (Nd.cols k B (.c x)) := by
      have := congrArg (List.take (k - 1)) e
      unfold lets at this ⊢
      rw [← List.map_take, ← List.map_take, cwin_take _ _ _ _ (by omega),
        List.take_range'_of_length_ge (by omega)] at this
      exact this
    have hx := cx.win_head hc (by omega) hv e1
    rw [c_head k B x (by omega)] at hx
    cases hf : c.getD t false with
    | true => rfl
    | false =>
      exfalso
      rcases cx.win_at ht hj hx h1 h2 with e2 | ⟨_, hxb, hbx, e2⟩
      · -- contiguous: the block column is kept
        have hym : y ∈ keepCols F.length B c := by
          apply cwin_subset (j := j) (m := k)
          rw [e2, List.mem_range'_1]
          exact ⟨hy1, hy2⟩
        have := ((mem_keepCols _ _ _ _).mp hym).2
        rw [cx.h.keep_in c ht hyb, hf] at this
        exact Bool.false_ne_true this
      · -- over the block: the letter `shf` columns behind the block differs
        rw [e2] at e
        have e3 := congrArg (fun l => l[bS B t - x + shf k F B t]?) e
        unfold lets at e3
        simp only [List.getElem?_map] at e3
        rw [List.getElem?_append_right (by simp), List.length_range', Nat.add_sub_cancel_left,
          List.getElem?_range' (by omega), List.getElem?_range' (by omega)] at e3
        simp only [Nat.one_mul, Option.map_some, Option.some.injEq] at e3
        apply cx.h.sh_ne ht
        rw [show x + (bS B t - x + shf k F B t) = (B.getD t (0, 0)).1 + shf k F B t by unfold bS at *; omega] at e3
        exact e3.symm
  · intro hf
    exact ⟨_, (cx.isWin_keep ht c h1 h2 hy1 hy2 hyb).mpr hf, rfl⟩

/-- **the samples with a window that spells a window over block `t`** (with more than the shift behind the
block): those that delete the block -/
theorem spell_del_iff (cx : Ctx W k F B C a names) {t : Nat} (ht : t < B.length) {c : List Bool} (hc : c ∈ C)
    {x : Nat} (h1 : x < bS B t) (h2 : bS B t < x + k) (hsh : bS B t + shf k F B t < x + k) :
    (∃ u', IsWin k F.length B c u' ∧
      lets F u' = lets F (List.range' x (bS B t - x) ++ List.range' (bE B t) (k - (bS B t - x)))) ↔
      c.getD t false = false := by
  have hb := cx.h.bt ht
  have hk5 := cx.h.k5
  constructor
  · rintro ⟨u', ⟨j, hj, rfl⟩, e⟩
    -- the window starts at `x`: its first `k - 1` columns spell a valid node that starts at `x`
    have htake : lets F (cwin (keepCols F.length B c) j (k - 1)) =
        lets F (List.range' x (bS B t - x) ++ List.range' (bE B t) (k - 1 - (bS B t - x))) := by
      have := congrArg (List.take (k - 1)) e
      unfold lets at this ⊢
      rw [← List.map_take, ← List.map_take, cwin_take _ _ _ _ (by omega), gap_take h1 h2] at this
      exact this
    have hx : (keepCols F.length B c)[j]? = some x := by
      by_cases hr : bS B t + 1 + shf k F B t < x + k
      · have hv : (Nd.g t x).valid k F.length B (shf k F B) := ⟨ht, hr, h1⟩
        have := cx.win_head hc (by omega) hv htake
        rwa [g_head k B t x h1] at this
      · have hv : (Nd.c x).valid k F.length B (shf k F B) := by
          show x + (k - 1) ≤ F.length
          unfold bS bE at *; omega
        have e1 : lets F (cwin (keepCols F.length B c) j (k - 1)) = lets F (Nd.cols k B (.c x)) := by
          rw [htake, cx.h.lets_gap_cont ht (by omega) (by omega)]
          simp only [Nd.cols]
          congr 2
          omega
        have := cx.win_head hc (by omega) hv e1
        rwa [c_head k B x (by omega)] at this
    cases hf : c.getD t false with
    | false => rfl
    | true =>
      exfalso
      rcases cx.win_at ht hj hx (by omega) (by omega) with e2 | ⟨hf', _, _, _⟩
      · -- contiguous: the letter `shf` columns behind the start of the block differs
        rw [e2] at e
        have e3 := congrArg (fun l => l[bS B t - x + shf k F B t]?) e
        unfold lets at e3
        simp only [List.getElem?_map] at e3
        rw [List.getElem?_append_right (by simp), List.length_range', Nat.add_sub_cancel_left,
          List.getElem?_range' (by omega), List.getElem?_range' (by omega)] at e3
        simp only [Nat.one_mul, Option.map_some, Option.some.injEq] at e3
        apply cx.h.sh_ne ht
        rw [show x + (bS B t - x + shf k F B t) = (B.getD t (0, 0)).1 + shf k F B t by unfold bS at *; omega] at e3
        exact e3
      · rw [hf] at hf'
        exact Bool.noConfusion hf'
  · intro hf
    exact ⟨_, (cx.isWin_del ht c h1 h2).mpr hf, rfl⟩

end Ctx

end SkaModel.LOE
