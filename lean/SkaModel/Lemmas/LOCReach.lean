/-
C17 completeness — the walks explored from the arm of a site in the compacted graph of a strand: to the
exit node of the site, or on through the entry node of the next site into one of its arms.
-/
import SkaModel.Lemmas.LOCNext

namespace SkaModel.LOC

open SkaModel SkaModel.Spec SkaModel.Props.C16 SkaModel.Skalo SkaModel.Props.C17G SkaModel.LOG

/-! ### one step of `Reach` -/

theorem reach_single {g : Graph} {ends : List Nat} {maxDepth : Nat} {cur x : Nat} (hs : succs g cur = [x])
    (n : Nat) (w' V : List Nat) (d : Nat) :
    Reach g ends maxDepth (n :: w') cur V d ↔
      d ≤ maxDepth ∧ n = x ∧ x ∉ V ∧
        ((w' = [] ∧ x ∈ ends) ∨ (w' ≠ [] ∧ Reach g ends maxDepth w' x (V ++ [x]) d)) := by
  rw [reach_cons, hs]
  have hlen : ¬ 2 ≤ (([x] : List Nat).filter (fun y => !V.contains y)).length := by
    have := List.length_filter_le (fun y => !V.contains y) [x]
    simp only [List.length_singleton] at this
    omega
  rw [if_neg hlen]
  constructor
  · rintro ⟨h1, h2, h3, h4⟩
    have : n = x := List.mem_singleton.mp h2
    subst this
    exact ⟨h1, rfl, h3, h4⟩
  · rintro ⟨h1, rfl, h3, h4⟩
    exact ⟨h1, List.mem_singleton.mpr rfl, h3, h4⟩

theorem reach_branch {g : Graph} {ends : List Nat} {maxDepth : Nat} {cur : Nat} {V : List Nat}
    (h2 : 2 ≤ (succs g cur).length) (hfresh : ∀ y ∈ succs g cur, y ∉ V) (n : Nat) (w' : List Nat) (d : Nat) :
    Reach g ends maxDepth (n :: w') cur V d ↔
      d ≤ maxDepth ∧ n ∈ succs g cur ∧
        ((w' = [] ∧ n ∈ ends) ∨ (w' ≠ [] ∧ Reach g ends maxDepth w' n (V ++ [n]) (d + 1))) := by
  rw [reach_cons]
  have hf : (succs g cur).filter (fun y => !V.contains y) = succs g cur := by
    rw [List.filter_eq_self]
    intro y hy
    simpa using hfresh y hy
  rw [hf, if_pos h2]
  constructor
  · rintro ⟨h1, h3, _, h5⟩; exact ⟨h1, h3, h5⟩
  · rintro ⟨h1, h3, h5⟩; exact ⟨h1, h3, hfresh n h3, h5⟩

theorem reach_nil_succs {g : Graph} {ends : List Nat} {maxDepth : Nat} {cur : Nat} (hs : succs g cur = [])
    (w V : List Nat) (d : Nat) : ¬ Reach g ends maxDepth w cur V d := by
  cases w with
  | nil => exact fun h => h
  | cons n w' =>
    rw [reach_cons, hs]
    rintro ⟨_, h, _⟩
    simp at h

namespace Strand

variable {k L : Nat} {g : Graph} {T T' : List (List UInt8)} {PT PT' : List Nat}

/-- no node of the strand `T` at a coordinate above `p` has been visited -/
def Fresh (k L : Nat) (T : List (List UInt8)) (V : List Nat) (p : Nat) : Prop :=
  ∀ t' ∈ T, ∀ j, p + 1 ≤ j → j + (k - 1) ≤ L → fN k t' j ∉ V

theorem not_end_of (st : Strand k L g T PT T' PT') {starts ends : List Nat}
    (ex : Ext k starts ends T PT T' PT') {t : List UInt8} (ht : t ∈ T) {j : Nat} (hj : j + (k - 1) ≤ L)
    (h : ∀ r ∈ PT, j ≠ r + 1) : fN k t j ∉ ends := by
  intro he
  obtain ⟨r, hr, e⟩ := (st.mem_ends_iff ex ht hj).mp he
  exact h r hr e

/-- a node of the strand at a coordinate that differs from those of the nodes of a list is not in it -/
theorem not_mem_levels (st : Strand k L g T PT T' PT') {t : List UInt8} (ht : t ∈ T) {j : Nat}
    (hj : j + (k - 1) ≤ L) (l : List Nat)
    (hl : ∀ x ∈ l, ∃ t' ∈ T, ∃ j', j' + (k - 1) ≤ L ∧ j' ≠ j ∧ x = fN k t' j') : fN k t j ∉ l := by
  intro hm
  obtain ⟨t', ht', j', hj', hne, e⟩ := hl _ hm
  exact hne (st.node_level ht ht' hj hj' e).1.symm

/-- **one round of the exploration** from the arm of site `p` -/
theorem reach_unfold (st : Strand k L g T PT T' PT') {starts ends : List Nat}
    (ex : Ext k starts ends T PT T' PT') (maxDepth : Nat) {t : List UInt8} (ht : t ∈ T) {p : Nat}
    (hp : p ∈ PT) {V : List Nat} (hV : Fresh k L T V p) (w : List Nat) (d : Nat) :
    Reach (compactGraph g starts ends).1 ends maxDepth w (fN k t (p - k + 2)) V d ↔
      d ≤ maxDepth ∧ (w = [fN k t (p + 1)] ∨
        ∃ q tq w', IsNext PT p q ∧ tq ∈ T ∧ w' ≠ [] ∧
          w = fN k t (p + 1) :: fN k t (p + 2) :: fN k t (q - k + 1) :: fN k tq (q - k + 2) :: w' ∧
          Reach (compactGraph g starts ends).1 ends maxDepth w' (fN k tq (q - k + 2))
            (V ++ [fN k t (p + 1), fN k t (p + 2), fN k t (q - k + 1), fN k tq (q - k + 2)]) (d + 1)) := by
  have hk5 := st.k5
  have hpe := st.pf.ends p hp
  have hsepne : ∀ r ∈ PT, r ≠ p → p + 2 * k ≤ r ∨ r + 2 * k ≤ p := fun r hr hne => st.pf.sep hp hr (fun e => hne e.symm)
  -- membership facts
  have hx1V : fN k t (p + 1) ∉ V := hV t ht (p + 1) (by omega) (by omega)
  have hx1end : fN k t (p + 1) ∈ ends := (st.mem_ends_iff ex ht (by omega)).mpr ⟨p, hp, rfl⟩
  have hx2V : fN k t (p + 2) ∉ V ++ [fN k t (p + 1)] := by
    rw [List.mem_append, List.mem_singleton]
    rintro (h | h)
    · exact hV t ht (p + 2) (by omega) (by omega) h
    · have := (st.node_level ht ht (by omega) (by omega) h).1; omega
  have hx2end : fN k t (p + 2) ∉ ends := st.not_end_of ex ht (by omega) (by
    intro r hr e
    rcases Nat.lt_trichotomy p r with h | h | h
    · rcases hsepne r hr (by omega) with h3 | h3 <;> omega
    · omega
    · omega)
  constructor
  · intro h
    cases w with
    | nil => exact absurd h (by simp [Reach])
    | cons n1 w1 =>
      rw [reach_single (st.cg_arm ex ht hp)] at h
      obtain ⟨hd, rfl, _, hc1⟩ := h
      refine ⟨hd, ?_⟩
      rcases hc1 with ⟨rfl, _⟩ | ⟨hne1, h1⟩
      · exact Or.inl rfl
      · right
        cases w1 with
        | nil => exact absurd rfl hne1
        | cons n2 w2 =>
          rw [reach_single (st.cg_exit ex ht hp)] at h1
          obtain ⟨_, rfl, _, hc2⟩ := h1
          rcases hc2 with ⟨_, he⟩ | ⟨hne2, h2⟩
          · exact absurd he hx2end
          · cases w2 with
            | nil => exact absurd rfl hne2
            | cons n3 w3 =>
              rcases next_or_last (st.pf.sorted (by omega)) hp with hl | ⟨q, hn⟩
              · -- last site: the walk runs into the end of the strand
                exfalso
                rw [reach_single (st.cg_after_last ex ht hp hl)] at h2
                obtain ⟨_, _, _, hc3⟩ := h2
                rcases hc3 with ⟨_, he⟩ | ⟨_, h3⟩
                · exact st.not_end_of ex ht (j := L - k + 1) (by omega) (by
                    intro r hr e
                    have := st.pf.ends r hr
                    omega) he
                · exact reach_nil_succs (st.compact_last starts ends ht (j := L - k + 1) (by omega) (by omega))
                    _ _ _ h3
              · obtain ⟨hq, hpq, hbetween⟩ := hn
                have hqe := st.pf.ends q hq
                have hsep : p + 2 * k ≤ q := by
                  rcases hsepne q hq (by omega) with h3 | h3 <;> omega
                rw [reach_single (st.cg_after_next ex ht hp ⟨hq, hpq, hbetween⟩)] at h2
                obtain ⟨_, rfl, _, hc3⟩ := h2
                rcases hc3 with ⟨_, he⟩ | ⟨hne3, h3⟩
                · exfalso
                  exact st.not_end_of ex ht (j := q - k + 1) (by omega) (by
                    intro r hr e
                    rcases Nat.lt_trichotomy q r with h | h | h
                    · omega
                    · omega
                    · rcases st.pf.sep hq hr (by omega) with h4 | h4 <;> omega) he
                · cases w3 with
                  | nil => exact absurd rfl hne3
                  | cons n4 w4 =>
                    have hsuccs : succs (compactGraph g starts ends).1 (fN k t (q - k + 1)) =
                        succs g (fN k t (q - k + 1)) := st.compact_entry starts ends ht hq
                    have hfresh : ∀ y ∈ succs (compactGraph g starts ends).1 (fN k t (q - k + 1)),
                        y ∉ (V ++ [fN k t (p + 1)] ++ [fN k t (p + 2)]) ++ [fN k t (q - k + 1)] := by
                      intro y hy
                      rw [hsuccs] at hy
                      obtain ⟨ty, hty, rfl⟩ := (st.mem_succs_site ht hq y).mp hy
                      simp only [List.mem_append, List.mem_singleton]
                      rintro (((h | h) | h) | h)
                      · exact hV ty hty (q - k + 2) (by omega) (by omega) h
                      · have := (st.node_level hty ht (by omega) (by omega) h).1; omega
                      · have := (st.node_level hty ht (by omega) (by omega) h).1; omega
                      · have := (st.node_level hty ht (by omega) (by omega) h).1; omega
                    rw [reach_branch (by rw [hsuccs]; exact st.succs_site_two ht hq) hfresh] at h3
                    obtain ⟨_, hn4, hc4⟩ := h3
                    rw [hsuccs] at hn4
                    obtain ⟨tq, htq, rfl⟩ := (st.mem_succs_site ht hq n4).mp hn4
                    rcases hc4 with ⟨_, he⟩ | ⟨hne4, h4⟩
                    · exfalso
                      exact st.not_end_of ex htq (j := q - k + 2) (by omega) (by
                        intro r hr e
                        rcases Nat.lt_trichotomy q r with h | h | h
                        · omega
                        · omega
                        · rcases st.pf.sep hq hr (by omega) with h5 | h5 <;> omega) he
                    · refine ⟨q, tq, w4, ⟨hq, hpq, hbetween⟩, htq, hne4, rfl, ?_⟩
                      simpa [List.append_assoc] using h4
  · rintro ⟨hd, rfl | ⟨q, tq, w', hn, htq, hne, rfl, hr⟩⟩
    · rw [reach_single (st.cg_arm ex ht hp)]
      exact ⟨hd, rfl, hx1V, Or.inl ⟨rfl, hx1end⟩⟩
    · obtain ⟨hq, hpq, hbetween⟩ := hn
      have hqe := st.pf.ends q hq
      have hsep : p + 2 * k ≤ q := by
        rcases hsepne q hq (by omega) with h3 | h3 <;> omega
      have hsuccs : succs (compactGraph g starts ends).1 (fN k t (q - k + 1)) =
          succs g (fN k t (q - k + 1)) := st.compact_entry starts ends ht hq
      have hfresh : ∀ y ∈ succs (compactGraph g starts ends).1 (fN k t (q - k + 1)),
          y ∉ (V ++ [fN k t (p + 1)] ++ [fN k t (p + 2)]) ++ [fN k t (q - k + 1)] := by
        intro y hy
        rw [hsuccs] at hy
        obtain ⟨ty, hty, rfl⟩ := (st.mem_succs_site ht hq y).mp hy
        simp only [List.mem_append, List.mem_singleton]
        rintro (((h | h) | h) | h)
        · exact hV ty hty (q - k + 2) (by omega) (by omega) h
        · have := (st.node_level hty ht (by omega) (by omega) h).1; omega
        · have := (st.node_level hty ht (by omega) (by omega) h).1; omega
        · have := (st.node_level hty ht (by omega) (by omega) h).1; omega
      rw [reach_single (st.cg_arm ex ht hp)]
      refine ⟨hd, rfl, hx1V, Or.inr ⟨by simp, ?_⟩⟩
      rw [reach_single (st.cg_exit ex ht hp)]
      refine ⟨hd, rfl, hx2V, Or.inr ⟨by simp, ?_⟩⟩
      rw [reach_single (st.cg_after_next ex ht hp ⟨hq, hpq, hbetween⟩)]
      refine ⟨hd, rfl, ?_, Or.inr ⟨by simp, ?_⟩⟩
      · simp only [List.mem_append, List.mem_singleton]
        rintro ((h | h) | h)
        · exact hV t ht (q - k + 1) (by omega) (by omega) h
        · have := (st.node_level ht ht (by omega) (by omega) h).1; omega
        · have := (st.node_level ht ht (by omega) (by omega) h).1; omega
      · rw [reach_branch (by rw [hsuccs]; exact st.succs_site_two ht hq) hfresh]
        refine ⟨hd, ?_, Or.inr ⟨hne, ?_⟩⟩
        · rw [hsuccs]
          exact (st.mem_succs_site ht hq _).mpr ⟨tq, htq, rfl⟩
        · simpa [List.append_assoc] using hr

end Strand

end SkaModel.LOC
