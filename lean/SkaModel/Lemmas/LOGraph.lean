/-
Specification of `Skalo.rowGraph` (the (k-1)-mer edges and the coloured k-mers one
table row of `ska lo`'s `build_graph` contributes), in terms of lists of 2-bit codes.
-/
import SkaModel.Impl.Skalo
import SkaModel.Props.C16Bits

namespace SkaModel.LOG

open SkaModel SkaModel.Skalo SkaModel.Spec SkaModel.Props.C16

/-- the bases (in the order A, C, G, T) shown by at least one sample, with IUPAC expansion -/
def shownBases (cells : List UInt8) : List UInt8 :=
  ([65, 67, 71, 84] : List UInt8).filter
    (fun n => decide (∃ c ∈ cells, c ≠ 45 ∧ n ∈ degenerate c))

/-- samples (indices) showing base `n` -/
def samplesOf (cells : List UInt8) (n : UInt8) : List Nat :=
  (List.range cells.length).filter
    (fun i => decide (cells.getD i 45 ≠ 45 ∧ n ∈ degenerate (cells.getD i 45)))

/-- the edges one base contributes, as packed code lists -/
def edgesOf (k : Nat) (u l : List Nat) (n : UInt8) : List (Nat × Nat) :=
  let full := u ++ [code n] ++ l
  [ (packL (full.take (k - 1)), packL (full.drop 1)),
    (packL (rcCodes (full.drop 1)), packL (rcCodes (full.take (k - 1)))) ]

/-- the coloured k-mers one base contributes -/
def colorsOf (cells : List UInt8) (u l : List Nat) (n : UInt8) : List (Nat × List Nat) :=
  let full := u ++ [code n] ++ l
  [ (packL full, samplesOf cells n), (packL (rcCodes full), samplesOf cells n) ]

/-! ### base codes -/

theorem code_decodeBase {c : Nat} (h : c < 4) : code (decodeBase c) = c := by
  have : c = 0 ∨ c = 1 ∨ c = 2 ∨ c = 3 := by omega
  rcases this with rfl | rfl | rfl | rfl <;> decide

theorem map_code_decodeBase (u : List Nat) (hu : ∀ c ∈ u, c < 4) :
    (u.map decodeBase).map code = u := by
  induction u with
  | nil => rfl
  | cons a t ih =>
    rw [List.map_cons, List.map_cons, code_decodeBase (hu a (List.mem_cons_self ..)),
      ih (fun c hc => hu c (List.mem_cons_of_mem _ hc))]

/-- the codes of the k-mer `U n L` -/
theorem map_code_full (u l : List Nat) (hcu : ∀ c ∈ u, c < 4) (hcl : ∀ c ∈ l, c < 4) (n : UInt8) :
    (u.map decodeBase ++ [n] ++ l.map decodeBase).map code = u ++ [code n] ++ l := by
  rw [List.map_append, List.map_append, map_code_decodeBase u hcu, map_code_decodeBase l hcl]
  rfl

/-! ### the fold is a pair of `flatMap`s -/

theorem foldl_pair_flatMap {α β γ : Type} (F : List β × List γ → α → List β × List γ)
    (f : α → List β) (g : α → List γ) (bs : List α)
    (hF : ∀ n ∈ bs, ∀ acc, F acc n = (acc.1 ++ f n, acc.2 ++ g n)) (acc : List β × List γ) :
    bs.foldl F acc = (acc.1 ++ bs.flatMap f, acc.2 ++ bs.flatMap g) := by
  induction bs generalizing acc with
  | nil => simp
  | cons b t ih =>
    rw [List.foldl_cons, hF b (List.mem_cons_self ..),
      ih (fun n hn => hF n (List.mem_cons_of_mem _ hn))]
    simp [List.flatMap_cons, List.append_assoc]

/-! ### the sample list -/

theorem pred_eq (n c : UInt8) :
    (c != 45 && (degenerate c).contains n) = decide (c ≠ 45 ∧ n ∈ degenerate c) := by
  rw [Bool.eq_iff_iff]
  simp

theorem zipIdx_filter_snd (p : UInt8 → Bool) (cells : List UInt8) (s : Nat) :
    ((cells.zipIdx s).filter (fun ci => p ci.1)).map (·.2) =
      (List.range' s cells.length).filter (fun i => p (cells.getD (i - s) 45)) := by
  induction cells generalizing s with
  | nil => rfl
  | cons c t ih =>
    rw [List.zipIdx_cons, List.length_cons, List.range'_succ, List.filter_cons, List.filter_cons]
    have h0 : (c :: t).getD (s - s) 45 = c := by rw [Nat.sub_self]; rfl
    have ht : List.filter (fun i => p ((c :: t).getD (i - s) 45)) (List.range' (s + 1) t.length)
        = List.filter (fun i => p (t.getD (i - (s + 1)) 45)) (List.range' (s + 1) t.length) := by
      apply List.filter_congr
      intro i hi
      rw [List.mem_range'_1] at hi
      have : i - s = (i - (s + 1)) + 1 := by omega
      rw [this, List.getD_cons_succ]
    rw [h0, ht, ← ih (s + 1)]
    cases p c <;> rfl

theorem samples_eq (cells : List UInt8) (n : UInt8) :
    (cells.zipIdx.filter (fun ci => ci.1 != 45 && (degenerate ci.1).contains n)).map (·.2)
      = samplesOf cells n := by
  rw [zipIdx_filter_snd (fun c => c != 45 && (degenerate c).contains n) cells 0]
  unfold samplesOf
  rw [List.range_eq_range']
  apply List.filter_congr
  intro i _
  rw [Nat.sub_zero, pred_eq]

theorem bases_eq (cells : List UInt8) :
    ([65, 67, 71, 84] : List UInt8).filter
        (fun n => cells.any (fun c => c != 45 && (degenerate c).contains n))
      = shownBases cells := by
  unfold shownBases
  apply List.filter_congr
  intro n _
  rw [Bool.eq_iff_iff, List.any_eq_true, decide_eq_true_iff]
  constructor
  · rintro ⟨c, hc, h⟩
    rw [pred_eq, decide_eq_true_iff] at h
    exact ⟨c, hc, h⟩
  · rintro ⟨c, hc, h⟩
    refine ⟨c, hc, ?_⟩
    rw [pred_eq, decide_eq_true_iff]
    exact h

/-! ### one step of the fold -/

theorem step_spec (W k : Nat) (hk : ValidK k) (hw : WidthOk W k) (u l : List Nat)
    (hu : u.length = halfK k) (hl : l.length = halfK k)
    (hcu : ∀ c ∈ u, c < 4) (hcl : ∀ c ∈ l, c < 4) (n : UInt8) :
    let full := u.map decodeBase ++ [n] ++ l.map decodeBase
    let cf := u ++ [code n] ++ l
    encodeKmer W (full.take (k - 1)) = packL (cf.take (k - 1)) ∧
    encodeKmer W (full.drop 1) = packL (cf.drop 1) ∧
    encodeKmer W full = packL cf ∧
    revComp W (packL (cf.drop 1)) (k - 1) = packL (rcCodes (cf.drop 1)) ∧
    revComp W (packL (cf.take (k - 1))) (k - 1) = packL (rcCodes (cf.take (k - 1))) ∧
    revComp W (packL cf) k = packL (rcCodes cf) := by
  intro full cf
  obtain ⟨hh2, hkh, hkW⟩ := validK_bounds hk hw
  have hW : W = 64 ∨ W = 128 := by
    rcases hw with ⟨h, _⟩ | h
    · exact Or.inl h
    · exact Or.inr h
  have hmap : full.map code = cf := map_code_full u l hcu hcl n
  have hflen : full.length = k := by
    simp only [full, List.length_append, List.length_map, List.length_cons, List.length_nil]
    omega
  have hclen : cf.length = k := by rw [← hmap, List.length_map, hflen]
  have hcodes : Codes cf := by
    rw [← hmap]; exact Codes.map_of _ _ code_lt
  have hkW2 : k ≤ W / 2 := by omega
  refine ⟨?_, ?_, ?_, ?_, ?_, ?_⟩
  · rw [T16_encode W _ (by rw [List.length_take]; omega), List.map_take, hmap]
  · rw [T16_encode W _ (by rw [List.length_drop]; omega), List.map_drop, hmap]
  · rw [T16_encode W _ (by omega), hmap]
  · exact T16_rc W hW _ (hcodes.drop 1) (k - 1) (by rw [List.length_drop]; omega) (by omega)
  · exact T16_rc W hW _ (hcodes.take (k - 1)) (k - 1) (by rw [List.length_take]; omega) (by omega)
  · exact T16_rc W hW _ hcodes k hclen hkW2

/-! ### the specification -/

theorem decode_key (W k : Nat) (hk : ValidK k) (hw : WidthOk W k) (u l : List Nat)
    (hu : u.length = halfK k) (hl : l.length = halfK k)
    (hcu : ∀ c ∈ u, c < 4) (hcl : ∀ c ∈ l, c < 4) :
    decodeKmer W k (packL (u ++ l)) = (u.map decodeBase, l.map decodeBase) := by
  rw [T16_decode W k (u ++ l) (Codes.append hcu hcl) (by rw [List.length_append]; omega) hk hw,
    List.take_left' hu, List.drop_left' hu]

/-- `rowGraph` in the factored form: edges and colours per shown base -/
theorem rowGraph_spec' (W k : Nat) (hk : ValidK k) (hw : WidthOk W k) (u l : List Nat)
    (hu : u.length = halfK k) (hl : l.length = halfK k)
    (hcu : ∀ c ∈ u, c < 4) (hcl : ∀ c ∈ l, c < 4) (cells : List UInt8) :
    rowGraph W k (packL (u ++ l)) cells =
      ((shownBases cells).flatMap (edgesOf k u l),
       (shownBases cells).flatMap (colorsOf cells u l)) := by
  unfold rowGraph
  rw [decode_key W k hk hw u l hu hl hcu hcl]
  simp only
  rw [bases_eq cells]
  rw [foldl_pair_flatMap _ (edgesOf k u l) (colorsOf cells u l) (shownBases cells) ?_ ([], [])]
  · simp
  · intro n _ acc
    obtain ⟨h1, h2, h3, h4, h5, h6⟩ := step_spec W k hk hw u l hu hl hcu hcl n
    rw [samples_eq cells n, h1, h2, h3, h4, h5, h6]
    rfl

/-- **Specification of `rowGraph`**: for the key packing the arms `u`, `l` (2-bit codes), the
row contributes, for every base `n` shown by some sample (IUPAC expanded, in the order A C G T),
the edge prefix → suffix of the k-mer `u n l`, the reverse-complement edge, and the sample set
of the k-mer and of its reverse complement. -/
theorem rowGraph_spec (W k : Nat) (hk : ValidK k) (hw : WidthOk W k) (u l : List Nat)
    (hu : u.length = halfK k) (hl : l.length = halfK k)
    (hcu : ∀ c ∈ u, c < 4) (hcl : ∀ c ∈ l, c < 4) (cells : List UInt8) :
    rowGraph W k (packL (u ++ l)) cells =
      ((shownBases cells).flatMap (fun n =>
          let full := u ++ [code n] ++ l
          [ (packL (full.take (k - 1)), packL (full.drop 1)),
            (packL (rcCodes (full.drop 1)), packL (rcCodes (full.take (k - 1)))) ]),
       (shownBases cells).flatMap (fun n =>
          let full := u ++ [code n] ++ l
          [ (packL full, samplesOf cells n), (packL (rcCodes full), samplesOf cells n) ])) :=
  rowGraph_spec' W k hk hw u l hu hl hcu hcl cells

/-! ### membership forms -/

theorem mem_shownBases (cells : List UInt8) (n : UInt8) :
    n ∈ shownBases cells ↔
      n ∈ ([65, 67, 71, 84] : List UInt8) ∧
        ∃ i, i < cells.length ∧ cells.getD i 45 ≠ 45 ∧ n ∈ degenerate (cells.getD i 45) := by
  unfold shownBases
  rw [List.mem_filter, decide_eq_true_iff]
  constructor
  · rintro ⟨hn, c, hc, h⟩
    obtain ⟨i, hi, rfl⟩ := List.getElem_of_mem hc
    refine ⟨hn, i, hi, ?_⟩
    rw [← List.getElem_eq_getD (h := hi) 45]
    exact h
  · rintro ⟨hn, i, hi, h⟩
    rw [← List.getElem_eq_getD (h := hi) 45] at h
    exact ⟨hn, cells[i], List.getElem_mem hi, h⟩

theorem mem_samplesOf (cells : List UInt8) (n : UInt8) (i : Nat) :
    i ∈ samplesOf cells n ↔
      i < cells.length ∧ cells.getD i 45 ≠ 45 ∧ n ∈ degenerate (cells.getD i 45) := by
  unfold samplesOf
  rw [List.mem_filter, List.mem_range, decide_eq_true_iff]

/-- the sample list is strictly increasing (hence duplicate free) -/
theorem samplesOf_pairwise (cells : List UInt8) (n : UInt8) :
    (samplesOf cells n).Pairwise (· < ·) := by
  unfold samplesOf
  exact List.Pairwise.filter _ List.pairwise_lt_range

theorem mem_rowGraph_edges (W k : Nat) (hk : ValidK k) (hw : WidthOk W k) (u l : List Nat)
    (hu : u.length = halfK k) (hl : l.length = halfK k)
    (hcu : ∀ c ∈ u, c < 4) (hcl : ∀ c ∈ l, c < 4) (cells : List UInt8) (e : Nat × Nat) :
    e ∈ (rowGraph W k (packL (u ++ l)) cells).1 ↔
      ∃ n ∈ shownBases cells,
        e = (packL ((u ++ [code n] ++ l).take (k - 1)), packL ((u ++ [code n] ++ l).drop 1)) ∨
        e = (packL (rcCodes ((u ++ [code n] ++ l).drop 1)),
             packL (rcCodes ((u ++ [code n] ++ l).take (k - 1)))) := by
  rw [rowGraph_spec' W k hk hw u l hu hl hcu hcl cells]
  simp only [List.mem_flatMap, edgesOf, List.mem_cons, List.not_mem_nil, or_false]

theorem mem_rowGraph_colors (W k : Nat) (hk : ValidK k) (hw : WidthOk W k) (u l : List Nat)
    (hu : u.length = halfK k) (hl : l.length = halfK k)
    (hcu : ∀ c ∈ u, c < 4) (hcl : ∀ c ∈ l, c < 4) (cells : List UInt8) (e : Nat × List Nat) :
    e ∈ (rowGraph W k (packL (u ++ l)) cells).2 ↔
      ∃ n ∈ shownBases cells,
        e = (packL (u ++ [code n] ++ l), samplesOf cells n) ∨
        e = (packL (rcCodes (u ++ [code n] ++ l)), samplesOf cells n) := by
  rw [rowGraph_spec' W k hk hw u l hu hl hcu hcl cells]
  simp only [List.mem_flatMap, colorsOf, List.mem_cons, List.not_mem_nil, or_false]

/-- the prefix / suffix (k-1)-mers of `u n l` written out: prefix = `u n l[..h-1]`,
suffix = `u[1..] n l` -/
theorem full_take_drop (k : Nat) (u l : List Nat) (c : Nat)
    (hu : u.length = halfK k) (hl : l.length = halfK k) (hkh : k = 2 * halfK k + 1)
    (hh : 1 ≤ halfK k) :
    (u ++ [c] ++ l).take (k - 1) = u ++ [c] ++ l.take (halfK k - 1) ∧
    (u ++ [c] ++ l).drop 1 = u.drop 1 ++ [c] ++ l := by
  constructor
  · rw [List.take_append]
    have h1 : (u ++ [c]).length = halfK k + 1 := by simp [hu]
    rw [h1, List.take_of_length_le (by rw [h1]; omega)]
    congr 2
    omega
  · cases u with
    | nil => simp at hu; omega
    | cons a t => rfl

/-! ### non-vacuity -/

example : ValidK 5 ∧ WidthOk 64 5 := by unfold ValidK WidthOk; omega

example : shownBases [65, 45, 82, 78] = [65, 67, 71, 84] := by decide
example : shownBases [65, 45, 82] = [65, 71] := by decide
example : samplesOf [65, 45, 82, 78] 65 = [0, 2, 3] := by decide
example : samplesOf [65, 45, 82, 78] 71 = [2, 3] := by decide

/-- the implementation on a concrete row (k = 5, arms AC / TG, cells A - R N), 64-bit -/
example : rowGraph 64 5 27 [65, 45, 82, 78] =
    ([(18, 75), (75, 46), (22, 91), (79, 62), (30, 123), (71, 30), (26, 107), (67, 14)],
     [(75, [0, 2, 3]), (302, [0, 2, 3]), (91, [3]), (318, [3]), (123, [2, 3]), (286, [2, 3]),
      (107, [3]), (270, [3])]) := by
  decide +kernel

/-- the same row with the 128-bit width -/
example : rowGraph 128 5 27 [65, 45, 82, 78] = rowGraph 64 5 27 [65, 45, 82, 78] := by
  decide +kernel

/-- the specification's right-hand side on that row is the same value -/
example :
    ((shownBases [65, 45, 82, 78]).flatMap (edgesOf 5 [0, 1] [2, 3]),
     (shownBases [65, 45, 82, 78]).flatMap (colorsOf [65, 45, 82, 78] [0, 1] [2, 3])) =
    ([(18, 75), (75, 46), (22, 91), (79, 62), (30, 123), (71, 30), (26, 107), (67, 14)],
     [(75, [0, 2, 3]), (302, [0, 2, 3]), (91, [3]), (318, [3]), (123, [2, 3]), (286, [2, 3]),
      (107, [3]), (270, [3])]) := by
  decide +kernel

/-- the theorem instantiated with every hypothesis discharged -/
example : rowGraph 64 5 (packL ([0, 1] ++ [2, 3])) [65, 45, 82, 78] =
    ((shownBases [65, 45, 82, 78]).flatMap (edgesOf 5 [0, 1] [2, 3]),
     (shownBases [65, 45, 82, 78]).flatMap (colorsOf [65, 45, 82, 78] [0, 1] [2, 3])) :=
  rowGraph_spec' 64 5 (by unfold ValidK; omega) (by unfold WidthOk; omega) [0, 1] [2, 3]
    (by decide) (by decide) (by decide) (by decide) _

end SkaModel.LOG
