/-
The three filter passes of `Modes.distance` at the level of rows, their simplification on
unambiguous tables whose rows are all present, and the bookkeeping that relates the rows
kept for the distance computation (`V2`) plus the constant-site count (`cstOf`) to the rows
the specification `Table.pairDist` ranges over (`V1`).
-/
import SkaModel.Spec.Abs
import SkaModel.Lemmas.ZipFilter
import SkaModel.Lemmas.VariantDist
import SkaModel.Lemmas.FilterVariants
import SkaModel.Lemmas.DistRows

namespace SkaModel.DM

open SkaModel SkaModel.Spec SkaModel.VD SkaModel.FV SkaModel.ZipFilter SkaModel.DR

/-- rows after the three passes of `Modes.distance` -/
def V1 (t : Nat) (vs : List (List UInt8)) := filtV t false .noFilter false vs
def V2 (t : Nat) (vs : List (List UInt8)) := filtV t false .noConst false (V1 t vs)
def cstOf (t : Nat) (vs : List (List UInt8)) := (nonEmpty false (V1 t vs)).length - (V2 t vs).length
def V3 (t : Nat) (ge1 filt : Bool) (vs : List (List UInt8)) :=
  if filt || ge1 then
    if filt then maskV true (filtV t true .noAmbigOrConst false (V2 t vs))
    else filtV t false .noFilter false (V2 t vs)
  else V2 t vs

theorem modes_distance_struct (a : Arr) (h : a.variants.length ≤ a.kmers.length) (t : Nat) (ge1 filt : Bool) :
    ∃ a3 : Arr, a3.names = a.names ∧ a3.variants = V3 t ge1 filt a.variants ∧
      Modes.distance a t ge1 filt = (a.names, a3.distance (cstOf t a.variants)) := by
  obtain ⟨h1v, _, h1l⟩ := filter_variants a t false .noFilter false false h
  obtain ⟨h2v, h2c, h2l⟩ := filter_variants (a.filter t false .noFilter false false false).1 t false .noConst false false h1l
  have h1v' : (a.filter t false .noFilter false false false).1.variants = V1 t a.variants := h1v
  rw [h1v'] at h2v h2c
  have h2v' : ((a.filter t false .noFilter false false false).1.filter t false .noConst false false false).1.variants
      = V2 t a.variants := h2v
  have hc : ((a.filter t false .noFilter false false false).1.filter t false .noConst false false false).2
      = cstOf t a.variants := h2c
  unfold Modes.distance Modes.applyFilters
  simp only []
  rw [hc]
  cases filt
  · cases ge1
    · simp only [Bool.or_self, Bool.false_eq_true, if_false]
      exact ⟨((a.filter t false .noFilter false false false).1.filter t false .noConst false false false).1,
        by rw [filter_names, filter_names], h2v', by rw [filter_names, filter_names]⟩
    · simp only [Bool.or_true, Bool.false_eq_true, if_false, if_true]
      obtain ⟨h3v, _, _⟩ := filter_variants _ t false .noFilter false false h2l
      refine ⟨(((a.filter t false .noFilter false false false).1.filter t false .noConst false false false).1.filter
        t false .noFilter false false false).1, by rw [filter_names, filter_names, filter_names], ?_,
        by rw [filter_names, filter_names, filter_names]⟩
      rw [h3v, h2v']; rfl
  · simp only [Bool.true_or, if_true]
    obtain ⟨h3v, _, _⟩ := filter_variants _ t true .noAmbigOrConst true false h2l
    refine ⟨(((a.filter t false .noFilter false false false).1.filter t false .noConst false false false).1.filter
        t true .noAmbigOrConst true false false).1, by rw [filter_names, filter_names, filter_names], ?_,
        by rw [filter_names, filter_names, filter_names]⟩
    rw [h3v, h2v']; simp [V3]

theorem V1_eq {vs : List (List UInt8)} (hp : RP vs) (t : Nat) :
    V1 t vs = vs.filter (fun row => decide (Arr.cellCount false row ≥ t)) := by
  simp only [V1, filtV, nonEmpty_of_RP hp, Arr.keepRow, Bool.and_true]

theorem filt_absorb (t : Nat) (famb : Bool) (k : List UInt8 → Bool) (vs : List (List UInt8))
    (h : ∀ row ∈ vs, Arr.cellCount famb row ≥ t) :
    vs.filter (fun row => decide (Arr.cellCount famb row ≥ t) && k row) = vs.filter k := by
  apply List.filter_congr
  intro row hr
  simp [h row hr]

theorem V1_count {vs : List (List UInt8)} (hp : RP vs) (t : Nat) :
    ∀ row ∈ V1 t vs, Arr.cellCount false row ≥ t := by
  intro row hr
  rw [V1_eq hp] at hr
  simpa using (List.mem_filter.mp hr).2

theorem V1_RP {vs : List (List UInt8)} (hp : RP vs) (t : Nat) : RP (V1 t vs) := by
  rw [V1_eq hp]; exact RP_filter hp _

theorem V2_eq {vs : List (List UInt8)} (hp : RP vs) (t : Nat) :
    V2 t vs = (V1 t vs).filter (Arr.keepRow .noConst false) := by
  simp only [V2, filtV, nonEmpty_of_RP (V1_RP hp t)]
  exact filt_absorb t false _ _ (V1_count hp t)

theorem cstOf_eq {vs : List (List UInt8)} (hp : RP vs) (t : Nat) :
    cstOf t vs = ((V1 t vs).filter (fun row => !Arr.keepRow .noConst false row)).length := by
  simp only [cstOf, nonEmpty_of_RP (V1_RP hp t), V2_eq hp]
  exact length_sub_length_filter _ _

theorem V3_eq {vs : List (List UInt8)} (hp : RP vs) (hu : Unambiguous vs) (t : Nat) (ge1 filt : Bool) :
    V3 t ge1 filt vs = V2 t vs := by
  have h1 : V1 t vs = vs.filter _ := V1_eq hp t
  have hp2 : RP (V2 t vs) := by rw [V2_eq hp]; exact RP_filter (V1_RP hp t) _
  have hu2 : Unambiguous (V2 t vs) := by
    rw [V2_eq hp, h1]; exact Unamb_filter (Unamb_filter hu _) _
  have hc2 : ∀ row ∈ V2 t vs, Arr.cellCount false row ≥ t := by
    intro row hr; rw [V2_eq hp] at hr; exact V1_count hp t row (List.mem_filter.mp hr).1
  have hk2 : ∀ row ∈ V2 t vs, Arr.keepRow .noConst false row = true := by
    intro row hr; rw [V2_eq hp] at hr; exact (List.mem_filter.mp hr).2
  cases filt
  · cases ge1
    · rfl
    · simp only [V3, Bool.or_true, Bool.false_eq_true, if_true, if_false, filtV, nonEmpty_of_RP hp2]
      rw [filt_absorb t false _ _ hc2]
      exact List.filter_eq_self.mpr (fun _ _ => rfl)
  · simp only [V3, Bool.true_or, if_true, filtV, nonEmpty_true_of_RP hp2 hu2]
    have hc2' : ∀ row ∈ V2 t vs, Arr.cellCount true row ≥ t := by
      intro row hr; rw [cellCount_unamb (hu2 row hr)]; exact hc2 row hr
    rw [filt_absorb t true _ _ hc2']
    have : (V2 t vs).filter (Arr.keepRow .noAmbigOrConst false) = V2 t vs := by
      apply List.filter_eq_self.mpr
      intro row hr
      rw [keepRow_unamb (hu2 row hr)]; exact hk2 row hr
    rw [this]
    exact maskV_unamb hu2 true

/-- the three per-row tests for the sample pair (i, j) -/
def qd (i j : Nat) (r : List UInt8) : Bool :=
  r.getD i GAP != GAP && r.getD j GAP != GAP && r.getD i GAP != r.getD j GAP
def qo (i j : Nat) (r : List UInt8) : Bool := (r.getD i GAP == GAP) != (r.getD j GAP == GAP)
def qb (i j : Nat) (r : List UInt8) : Bool := r.getD i GAP != GAP && r.getD j GAP != GAP

theorem pairDist_eq (a : Arr) (h : a.variants.length ≤ a.kmers.length) (hp : RP a.variants) (t i j : Nat) :
    a.abs.pairDist t i j
      = (((V1 t a.variants).filter (qd i j)).length, ((V1 t a.variants).filter (qo i j)).length,
         ((V1 t a.variants).filter (qb i j)).length + ((V1 t a.variants).filter (qo i j)).length) := by
  have hrows : a.abs.rows.map (·.2) = a.variants := by
    simp only [Arr.abs]; exact List.map_snd_zip h
  have hV1 : (a.abs.rows.map (·.2)).filter (fun r => decide (Table.presentCount false r ≥ t)) = V1 t a.variants := by
    rw [hrows, V1_eq hp]; rfl
  simp only [Table.pairDist]
  rw [hV1]
  have ho : (V1 t a.variants).filter (fun r => Table.present (r.getD i gap) != Table.present (r.getD j gap))
      = (V1 t a.variants).filter (qo i j) := by
    apply List.filter_congr
    intro r _
    show ((r.getD i GAP != GAP) != (r.getD j GAP != GAP)) = ((r.getD i GAP == GAP) != (r.getD j GAP == GAP))
    have hnn : ∀ x y : Bool, ((!x) != (!y)) = (x != y) := by decide
    exact hnn _ _
  have hb : (V1 t a.variants).filter (fun r => Table.present (r.getD i gap) && Table.present (r.getD j gap))
      = (V1 t a.variants).filter (qb i j) := rfl
  rw [ho, hb, List.filter_filter]
  have hd : (V1 t a.variants).filter (fun r => (r.getD i gap != r.getD j gap) && qb i j r)
      = (V1 t a.variants).filter (qd i j) := by
    apply List.filter_congr
    intro r _
    show ((r.getD i GAP != r.getD j GAP) && qb i j r) = (qb i j r && (r.getD i GAP != r.getD j GAP))
    exact Bool.and_comm _ _
  rw [hd]

/-- on a removed (constant) row the pair (i, j) is a match: both present, equal -/
theorem removed_row {vs : List (List UInt8)} (hp : RP vs) (n : Nat) (hlen : ∀ row ∈ vs, row.length = n)
    (t i j : Nat) (hi : i < n) (hj : j < n) :
    ∀ r ∈ (V1 t vs).filter (fun row => !Arr.keepRow .noConst false row),
      qd i j r = false ∧ qo i j r = false ∧ qb i j r = true := by
  intro r hr
  obtain ⟨hr1, hk⟩ := List.mem_filter.mp hr
  rw [V1_eq hp] at hr1
  have hrv : r ∈ vs := (List.mem_filter.mp hr1).1
  have hk' : Arr.keepRow .noConst false r = false := by simpa using hk
  obtain ⟨b, hb, hall⟩ := const_row hk' (hp r hrv)
  have hl := hlen r hrv
  have ei := hall i (by omega)
  have ej := hall j (by omega)
  have hbne : (b != GAP) = true := by simpa using hb
  simp only [qd, qo, qb, ei, ej, hbne]
  simp

theorem split_counts {vs : List (List UInt8)} (hp : RP vs) (n : Nat) (hlen : ∀ row ∈ vs, row.length = n)
    (t i j : Nat) (hi : i < n) (hj : j < n) :
    ((V1 t vs).filter (qd i j)).length = ((V2 t vs).filter (qd i j)).length
    ∧ ((V1 t vs).filter (qo i j)).length = ((V2 t vs).filter (qo i j)).length
    ∧ ((V1 t vs).filter (qb i j)).length = ((V2 t vs).filter (qb i j)).length + cstOf t vs := by
  have hrem := removed_row hp n hlen t i j hi hj
  rw [V2_eq hp, cstOf_eq hp]
  refine ⟨?_, ?_, ?_⟩
  · rw [length_filter_split (Arr.keepRow .noConst false) (qd i j) (V1 t vs),
      filter_eq_nil_of_all_false _ _ (fun r hr => (hrem r hr).1)]
    simp
  · rw [length_filter_split (Arr.keepRow .noConst false) (qo i j) (V1 t vs),
      filter_eq_nil_of_all_false _ _ (fun r hr => (hrem r hr).2.1)]
    simp
  · rw [length_filter_split (Arr.keepRow .noConst false) (qb i j) (V1 t vs),
      length_filter_eq_of_all_true _ _ (fun r hr => (hrem r hr).2.2)]

end SkaModel.DM
