/-
C18 completeness — assembly: the graph of a deletion family is a graph of bubbles (`BG`), the bubbles come in
twin pairs (`Twins`), and their arms have the lengths the classification needs (`ArmLen`).
-/
import SkaModel.Lemmas.LOEBubD4
import SkaModel.Lemmas.LOEPipe

namespace SkaModel.LOE

open SkaModel SkaModel.Spec SkaModel.Props.C16 SkaModel.Skalo SkaModel.Props.C17G SkaModel.LOG SkaModel.LOC

namespace Ctx

variable {W k : Nat} {F : List UInt8} {B : List (Nat × Nat)} {C : List (List Bool)} {a : Arr} {names : List String}

theorem lens (_cx : Ctx W k F B C a names) {t : Nat} (_ht : t < B.length) :
    (fwdBub k F B t).a.length = bE B t - eX k F B t - 1 ∧ (fwdBub k F B t).b.length = bS B t - eX k F B t - 1 ∧
    (revBub k F B t).a.length = bE B t - eX k F B t - 1 ∧ (revBub k F B t).b.length = bS B t - eX k F B t - 1 := by
  simp [fwdBub, revBub]

theorem eX_inj (cx : Ctx W k F B C a names) {t t' : Nat} (ht : t < B.length) (ht' : t' < B.length)
    (e : eX k F B t = eX k F B t') : t = t' := by
  apply Classical.byContradiction
  intro hne
  have hb := cx.h.bt ht
  have hb' := cx.h.bt ht'
  have he := cx.ex_bounds ht
  have he' := cx.ex_bounds ht'
  have := cx.h.sep_ne ht ht' hne
  unfold bS bE at *
  omega

/-- **the graph of a deletion family is a graph of bubbles** -/
theorem bg (cx : Ctx W k F B C a names) : BG (buildGraph W a).1 (allBubs k F B) := by
  have hk5 := cx.h.k5
  have hall : ∀ (P : Bub → Prop), (∀ t, t < B.length → P (fwdBub k F B t)) → (∀ t, t < B.length → P (revBub k F B t)) →
      ∀ β ∈ allBubs k F B, P β := by
    intro P h1 h2 β hβ
    obtain ⟨t, ht, rfl | rfl⟩ := (mem_allBubs k F B β).mp hβ
    · exact h1 t ht
    · exact h2 t ht
  refine ⟨cx.nd, cx.lk, LOP.buildGraph_keys_nodup W a, ?_, ?_, ?_, ?_, ?_, ?_, ?_, ?_, ?_, ?_, ?_, ?_, ?_, ?_, ?_⟩
  · -- single
    intro X h2
    obtain ⟨t, ht, rfl | rfl⟩ := cx.two_succs h2
    · exact ⟨fwdBub k F B t, (mem_allBubs k F B _).mpr ⟨t, ht, Or.inl rfl⟩, rfl⟩
    · exact ⟨revBub k F B t, (mem_allBubs k F B _).mpr ⟨t, ht, Or.inr rfl⟩, rfl⟩
  · -- lenA
    apply hall
    · intro t ht; have hb := cx.h.bt ht; have he := cx.ex_bounds ht; rw [(cx.lens ht).1]; omega
    · intro t ht; have hb := cx.h.bt ht; have he := cx.ex_bounds ht; rw [(cx.lens ht).2.2.1]; omega
  · -- lenB
    apply hall
    · intro t ht; have he := cx.ex_bounds ht; rw [(cx.lens ht).2.1]; omega
    · intro t ht; have he := cx.ex_bounds ht; rw [(cx.lens ht).2.2.2]; omega
  · -- ensucc
    apply hall
    · intro t ht; exact cx.ensucc_fwd ht
    · intro t ht; exact cx.ensucc_rev ht
  · apply hall
    · intro t ht; exact cx.chA_fwd ht
    · intro t ht; exact cx.chA_rev ht
  · apply hall
    · intro t ht; exact cx.chB_fwd ht
    · intro t ht; exact cx.chB_rev ht
  · apply hall
    · intro t ht; exact cx.ndA_fwd ht
    · intro t ht; exact cx.ndA_rev ht
  · apply hall
    · intro t ht; exact cx.ndB_fwd ht
    · intro t ht; exact cx.ndB_rev ht
  · -- lastne
    apply hall
    · intro t ht
      have hb := cx.h.bt ht
      have he := cx.ex_bounds ht
      obtain ⟨_, _, h3, h4, _⟩ := cx.heads ht
      rw [h3, h4]
      intro e
      exact Nd.noConfusion (cx.nF_inj (cx.vc ht (by omega)) (cx.vg ht (by omega) (by omega)) e)
    · intro t ht
      have hb := cx.h.bt ht
      have he := cx.ex_bounds ht
      obtain ⟨_, _, _, _, _, _, h7, h8⟩ := cx.heads ht
      rw [h7, h8]
      intro e
      exact Nd.noConfusion (cx.nR_inj (cx.vc ht (by omega)) (cx.vg ht (Nat.le_refl _) (by omega)) e)
  · -- armA
    apply hall
    · intro t ht X hX β' hβ'
      have hb := cx.h.bt ht
      have he := cx.ex_bounds ht
      obtain ⟨y, h1, h2, rfl⟩ := (mem_fa t X).mp hX
      exact cx.inner_c_fwd ht (by omega) (by omega) β' hβ'
    · intro t ht X hX β' hβ'
      have hb := cx.h.bt ht
      have he := cx.ex_bounds ht
      obtain ⟨y, h1, h2, rfl⟩ := (mem_ra t X).mp hX
      exact cx.inner_c_rev ht (by omega) (by omega) β' hβ'
  · -- armB
    apply hall
    · intro t ht X hX β' hβ'
      have hb := cx.h.bt ht
      have he := cx.ex_bounds ht
      obtain ⟨y, h1, h2, rfl⟩ := (mem_fb t X).mp hX
      exact (cx.inner_g ht h1 (by omega) β' hβ').1
    · intro t ht X hX β' hβ'
      have hb := cx.h.bt ht
      have he := cx.ex_bounds ht
      obtain ⟨y, h1, h2, rfl⟩ := (mem_rb t X).mp hX
      exact (cx.inner_g ht h1 (by omega) β' hβ').2
  · apply hall
    · intro t ht; exact cx.predA_fwd ht
    · intro t ht; exact cx.predA_rev ht
  · apply hall
    · intro t ht; exact cx.predB_fwd ht
    · intro t ht; exact cx.predB_rev ht
  · apply hall
    · intro t ht; exact cx.predX_fwd ht
    · intro t ht; exact cx.predX_rev ht
  · -- enInj
    intro β hβ β' hβ' e
    obtain ⟨t, ht, rfl | rfl⟩ := (mem_allBubs k F B β).mp hβ <;>
      obtain ⟨t', ht', rfl | rfl⟩ := (mem_allBubs k F B β').mp hβ'
    · have hb := cx.h.bt ht
      have hb' := cx.h.bt ht'
      have he := cx.ex_bounds ht
      have he' := cx.ex_bounds ht'
      have := Nd.c.inj (cx.nF_inj (cx.vc ht (by omega)) (cx.vc ht' (by omega)) e)
      rw [cx.eX_inj ht ht' this]
    · have hb := cx.h.bt ht
      have hb' := cx.h.bt ht'
      have he := cx.ex_bounds ht
      exact absurd e (cx.cross (cx.vc ht (by omega)) (cx.vc ht' (by omega)))
    · have hb := cx.h.bt ht
      have hb' := cx.h.bt ht'
      have he' := cx.ex_bounds ht'
      exact absurd e.symm (cx.cross (cx.vc ht' (by omega)) (cx.vc ht (by omega)))
    · have hb := cx.h.bt ht
      have hb' := cx.h.bt ht'
      have := Nd.c.inj (cx.nR_inj (cx.vc ht (by omega)) (cx.vc ht' (by omega)) e)
      rw [cx.bE_inj ht ht' this]

/-- the lengths of the arms -/
theorem armLen (cx : Ctx W k F B C a names) : ArmLen (k - 1) (allBubs k F B) := by
  have hk5 := cx.h.k5
  refine ⟨?_, ?_⟩
  · intro β hβ
    obtain ⟨t, ht, rfl | rfl⟩ := (mem_allBubs k F B β).mp hβ
    · have hb := cx.h.bt ht
      have he := cx.ex_bounds ht
      obtain ⟨h1, h2, _, _⟩ := cx.lens ht
      rw [h1, h2]; omega
    · have hb := cx.h.bt ht
      have he := cx.ex_bounds ht
      obtain ⟨_, _, h1, h2⟩ := cx.lens ht
      rw [h1, h2]; omega
  · intro β hβ
    obtain ⟨t, ht, rfl | rfl⟩ := (mem_allBubs k F B β).mp hβ
    · right; have he := cx.ex_bounds ht; rw [(cx.lens ht).2.1]; omega
    · right; have he := cx.ex_bounds ht; rw [(cx.lens ht).2.2.2]; omega

/-- the pairs of twins -/
def pairsOf (k : Nat) (F : List UInt8) (B : List (Nat × Nat)) : List (Bub × Bub) :=
  (List.range B.length).map (fun t => (fwdBub k F B t, revBub k F B t))

theorem revComp_nF (cx : Ctx W k F B C a names) {n : Nd} (hv : n.valid k F.length B (shf k F B)) :
    revComp W (nF k F B n) (k - 1) = nR k F B n := by
  obtain ⟨_, _, hkW⟩ := validK_bounds cx.hk cx.hw
  unfold nF nR nuF nuR
  exact revComp_packL W (LOC.widthOk_cases cx.hw) _ (cds_codes _) (k - 1)
    (by rw [cds_length, List.length_map, cx.h.cols_length hv]) (by omega)

theorem revComp_nR (cx : Ctx W k F B C a names) {n : Nd} (hv : n.valid k F.length B (shf k F B)) :
    revComp W (nR k F B n) (k - 1) = nF k F B n := by
  obtain ⟨_, _, hkW⟩ := validK_bounds cx.hk cx.hw
  unfold nF nR nuF nuR
  rw [revComp_packL W (LOC.widthOk_cases cx.hw) _ (rcCodes_codes (cds_codes _)) (k - 1)
    (by rw [rcCodes_length, cds_length, List.length_map, cx.h.cols_length hv]) (by omega), rcCodes_rcCodes]

theorem twins (cx : Ctx W k F B C a names) : Twins W (k - 1) (allBubs k F B) (pairsOf k F B) := by
  have hk5 := cx.h.k5
  have hp : ∀ p, p ∈ pairsOf k F B ↔ ∃ t, t < B.length ∧ p = (fwdBub k F B t, revBub k F B t) := by
    intro p
    unfold pairsOf
    simp only [List.mem_map, List.mem_range]
    constructor
    · rintro ⟨t, ht, rfl⟩; exact ⟨t, ht, rfl⟩
    · rintro ⟨t, ht, rfl⟩; exact ⟨t, ht, rfl⟩
  refine ⟨?_, ?_, ?_, ?_, ?_, ?_, ?_⟩
  · intro β
    rw [mem_allBubs]
    constructor
    · rintro ⟨t, ht, h⟩
      exact ⟨_, (hp _).mpr ⟨t, ht, rfl⟩, h⟩
    · rintro ⟨p, hpm, h⟩
      obtain ⟨t, ht, rfl⟩ := (hp p).mp hpm
      exact ⟨t, ht, h⟩
  · intro p hpm
    obtain ⟨t, ht, rfl⟩ := (hp p).mp hpm
    have hb := cx.h.bt ht
    have he := cx.ex_bounds ht
    exact (cx.revComp_nF (cx.vc ht (by omega))).symm
  · intro p hpm
    obtain ⟨t, ht, rfl⟩ := (hp p).mp hpm
    have hb := cx.h.bt ht
    have he := cx.ex_bounds ht
    exact (cx.revComp_nR (cx.vc ht (by omega))).symm
  · intro p hpm
    obtain ⟨t, ht, rfl⟩ := (hp p).mp hpm
    have hb := cx.h.bt ht
    have he := cx.ex_bounds ht
    exact cx.revComp_nF (cx.vc ht (by omega))
  · intro p hpm
    obtain ⟨t, ht, rfl⟩ := (hp p).mp hpm
    have hb := cx.h.bt ht
    have he := cx.ex_bounds ht
    exact cx.revComp_nR (cx.vc ht (by omega))
  · -- entries are no exits
    intro β hβ γ hγ
    obtain ⟨t, ht, rfl | rfl⟩ := (mem_allBubs k F B β).mp hβ <;>
      obtain ⟨t', ht', rfl | rfl⟩ := (mem_allBubs k F B γ).mp hγ
    · have hb := cx.h.bt ht
      have hb' := cx.h.bt ht'
      have he := cx.ex_bounds ht
      intro e
      have := Nd.c.inj (cx.nF_inj (cx.vc ht (by omega)) (cx.vc ht' (by omega)) e)
      exact cx.not_exit ht (x := eX k F B t) (by omega) (by omega) ht' this
    · have hb := cx.h.bt ht
      have hb' := cx.h.bt ht'
      have he := cx.ex_bounds ht
      have he' := cx.ex_bounds ht'
      exact cx.cross (cx.vc ht (by omega)) (cx.vc ht' (by omega))
    · have hb := cx.h.bt ht
      have hb' := cx.h.bt ht'
      exact fun e => cx.cross (cx.vc ht' (by omega)) (cx.vc ht (by omega)) e.symm
    · have hb := cx.h.bt ht
      have hb' := cx.h.bt ht'
      have he' := cx.ex_bounds ht'
      intro e
      have := Nd.c.inj (cx.nR_inj (cx.vc ht (by omega)) (cx.vc ht' (by omega)) e)
      exact cx.not_exit ht' (x := eX k F B t') (by omega) (by omega) ht this.symm
  · -- distinct entries
    unfold pairsOf
    rw [List.map_map, List.map_map, List.nodup_append]
    refine ⟨?_, ?_, ?_⟩
    · apply nodup_map_on _ _ List.nodup_range
      intro t ht t' ht' e
      rw [List.mem_range] at ht ht'
      have hb := cx.h.bt ht
      have hb' := cx.h.bt ht'
      have he := cx.ex_bounds ht
      have he' := cx.ex_bounds ht'
      have := Nd.c.inj (cx.nF_inj (cx.vc ht (by omega)) (cx.vc ht' (by omega)) e)
      exact cx.eX_inj ht ht' this
    · apply nodup_map_on _ _ List.nodup_range
      intro t ht t' ht' e
      rw [List.mem_range] at ht ht'
      have hb := cx.h.bt ht
      have hb' := cx.h.bt ht'
      have := Nd.c.inj (cx.nR_inj (cx.vc ht (by omega)) (cx.vc ht' (by omega)) e)
      exact cx.bE_inj ht ht' this
    · intro x hx y hy e
      obtain ⟨t, ht, rfl⟩ := List.mem_map.mp hx
      obtain ⟨t', ht', rfl⟩ := List.mem_map.mp hy
      rw [List.mem_range] at ht ht'
      have hb := cx.h.bt ht
      have hb' := cx.h.bt ht'
      have he := cx.ex_bounds ht
      exact cx.cross (cx.vc ht (by omega)) (cx.vc ht' (by omega)) e

end Ctx

end SkaModel.LOE
