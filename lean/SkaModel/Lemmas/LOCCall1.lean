/-
C17 completeness — the inner loop of `groupSnps` at one position of a good group: evaluation of the loop
body, the column of a new site (the bases of all samples), and the blocked case.
-/
import SkaModel.Lemmas.LOCGroupsAll
import SkaModel.Lemmas.LOReal5
import SkaModel.Lemmas.Rows

namespace SkaModel.LOC

open SkaModel SkaModel.Spec SkaModel.Props.C16 SkaModel.Skalo SkaModel.Props.C17G SkaModel.LOG

/-- the packed `k`-mer of a sequence at `i` and its reverse complement -/
def kmerAt (k : Nat) (s : List UInt8) (i : Nat) : Nat := packL (cds (win s i k))
def rcKmerAt (k : Nat) (s : List UInt8) (i : Nat) : Nat := packL (rcCodes (cds (win s i k)))

theorem getRange_win (s : List UInt8) (a m : Nat) (h : a + m ≤ s.length) :
    getRange s a (a + m) = some (win s a m) := by
  rw [LORL.getRange_some s a (a + m) (by omega) h, Nat.add_sub_cancel_left]
  rfl

/-- the loop body of `groupSnps` for a variant with room around `pos` -/
theorem inner_eval {k W : Nat} (hk : 2 ≤ k) (hW : 2 * k ≤ W) (hw : W = 64 ∨ W = 128) (col : Colours)
    (done : List Nat) (pos : Nat) (st : List UInt8 × List Nat × Bool) (v : Variant)
    (hb : AllBase v.1) (hp1 : k - 1 ≤ pos) (hp2 : pos + k ≤ v.1.length) :
    LORL.inner W (k - 1) col done pos st v =
      if kmerAt k v.1 (pos - (k - 1)) ∉ done ∧ rcKmerAt k v.1 pos ∉ done then
        (Assoc.lookup col (kmerAt k v.1 (pos - (k - 1)))).map (fun Cs =>
          (Cs.foldl (LORL.upd (v.1.getD pos 0)) st.1,
           st.2.1 ++ [kmerAt k v.1 (pos - (k - 1)), rcKmerAt k v.1 (pos - (k - 1)), kmerAt k v.1 pos,
             rcKmerAt k v.1 pos], st.2.2))
      else some (st.1, st.2.1, false) := by
  have e1 : pos + 1 = pos - (k - 1) + k := by omega
  have e2 : pos + (k - 1) + 1 = pos + k := by omega
  have hl1 : (win v.1 (pos - (k - 1)) k).length = k := win_length (by omega)
  have hl2 : (win v.1 pos k).length = k := win_length (by omega)
  have hfb : encodeKmer W (win v.1 (pos - (k - 1)) k) = kmerAt k v.1 (pos - (k - 1)) :=
    enc_eq W _ (by rw [hl1]; exact hW)
  have hfa : encodeKmer W (win v.1 pos k) = kmerAt k v.1 pos := enc_eq W _ (by rw [hl2]; exact hW)
  have hrcb : revComp W (kmerAt k v.1 (pos - (k - 1))) (k - 1 + 1) = rcKmerAt k v.1 (pos - (k - 1)) := by
    unfold kmerAt rcKmerAt
    exact revComp_packL W hw _ (cds_codes _) _ (by rw [cds_length, hl1]; omega) (by omega)
  have hrca : revComp W (kmerAt k v.1 pos) (k - 1 + 1) = rcKmerAt k v.1 pos := by
    unfold kmerAt rcKmerAt
    exact revComp_packL W hw _ (cds_codes _) _ (by rw [cds_length, hl2]; omega) (by omega)
  have hnucl : decodeBase (kmerAt k v.1 (pos - (k - 1)) &&& 3) = v.1.getD pos 0 := by
    rw [← hfb]
    have hsplit : win v.1 (pos - (k - 1)) k = win v.1 (pos - (k - 1)) (k - 1) ++ [v.1.getD pos 0] := by
      have := win_succ (s := v.1) (j := pos - (k - 1)) (m := k - 1) (by omega)
      rw [show k - 1 + 1 = k by omega, show pos - (k - 1) + (k - 1) = pos by omega] at this
      exact this
    rw [hsplit, LORL.last_base W (by omega)]
    exact decode_code_base (hb _ (getD_mem (by omega)))
  unfold LORL.inner
  rw [e1, getRange_win v.1 _ k (by omega), e2, getRange_win v.1 pos k hp2]
  simp only [Option.bind_eq_bind, Option.bind_some, hfb, hfa, hrcb, hrca, hnucl]
  by_cases hd : kmerAt k v.1 (pos - (k - 1)) ∉ done ∧ rcKmerAt k v.1 pos ∉ done
  · rw [if_pos hd, if_pos (by simpa using hd)]
    cases Assoc.lookup col (kmerAt k v.1 (pos - (k - 1))) with
    | none => rfl
    | some Cs => rfl
  · rw [if_neg hd, if_neg (by simpa using hd)]
    rfl

/-! ### a site of a good group -/

variable {k L : Nat} {T : List (List UInt8)} {PT : List Nat}

/-- around a site of the group, the windows of a variant are those of the samples showing the variant's
base at the site -/
theorem gg_windows (pf : PFam k L T PT) (hk5 : 5 ≤ k) {c0 len : Nat} {vs : List Variant}
    (hg : GG k L T PT c0 len vs) {q : Nat} (hq : q ∈ PT) (h1 : c0 ≤ q) (h2 : q < c0 + len) {v : Variant}
    (hv : v ∈ vs) :
    ∃ t ∈ T, win v.1 (q - c0 - (k - 1)) k = win t (q - k + 1) k ∧ win v.1 (q - c0) k = win t q k ∧
      v.1.getD (q - c0) 0 = t.getD q 0 := by
  obtain ⟨hr1, hr2⟩ := hg.room q hq h1 h2
  obtain ⟨hlen, _, hw⟩ := hg.hv v hv
  have hqe := pf.ends q hq
  obtain ⟨t, ht, hwt⟩ := hw (q - c0 - (k - 1)) (by omega)
  obtain ⟨t', ht', hwt'⟩ := hw (q - c0) (by omega)
  rw [show c0 + (q - c0 - (k - 1)) = q - k + 1 by omega] at hwt
  rw [show c0 + (q - c0) = q by omega] at hwt'
  have hL := hg.hL
  have e1 : v.1.getD (q - c0) 0 = t.getD q 0 := by
    have := (win_eq_iff (by rw [hlen]; omega) (by rw [pf.len ht]; omega)).mp hwt (k - 1) (by omega)
    rw [show q - c0 - (k - 1) + (k - 1) = q - c0 by omega, show q - k + 1 + (k - 1) = q by omega] at this
    exact this
  have e2 : v.1.getD (q - c0) 0 = t'.getD q 0 := by
    have := (win_eq_iff (by rw [hlen]; omega) (by rw [pf.len ht']; omega)).mp hwt' 0 (by omega)
    simpa using this
  refine ⟨t, ht, hwt, ?_, e1⟩
  rw [hwt']
  exact pf.win_agree_site ht' ht (by omega) (by omega) hq (Nat.le_refl _) (by omega) (by rw [← e2, e1])

/-- the four k-mers recorded for a sample at a site: the k-mer ending at the site, the k-mer starting at
it, and their reverse complements -/
def Blk (k : Nat) (T : List (List UInt8)) (q : Nat) (x : Nat) : Prop :=
  ∃ t ∈ T, x = kmerAt k t (q - k + 1) ∨ x = rcKmerAt k t (q - k + 1) ∨ x = kmerAt k t q ∨ x = rcKmerAt k t q

theorem kmerAt_congr {k : Nat} {s t : List UInt8} {i j : Nat} (h : win s i k = win t j k) :
    kmerAt k s i = kmerAt k t j ∧ rcKmerAt k s i = rcKmerAt k t j := by
  unfold kmerAt rcKmerAt
  rw [h]
  exact ⟨rfl, rfl⟩

/-- the samples with the same `k`-mer ending at a site as `t`: those with the same base at the site -/
theorem same_end_iff (pf : PFam k L T PT) (hk5 : 5 ≤ k) {q : Nat} (hq : q ∈ PT) {t t' : List UInt8}
    (ht : t ∈ T) (ht' : t' ∈ T) :
    win t' (q - k + 1) k = win t (q - k + 1) k ↔ t'.getD q 0 = t.getD q 0 := by
  have hqe := pf.ends q hq
  constructor
  · intro h
    exact PFam.win_getD (by rw [pf.len ht']; omega) (by rw [pf.len ht]; omega) h (by omega) (by omega)
  · intro h
    exact pf.win_agree_site ht' ht (by omega) (by omega) hq (by omega) (by omega) h

/-- **the inner loop at a new site**: the column holds the base of every sample -/
theorem inner_new (pf : PFam k L T PT) (hk5 : 5 ≤ k) {W : Nat} (hW : 2 * k ≤ W) (hw : W = 64 ∨ W = 128)
    {col : Colours} (hc : ColOK k L col T) {done : List Nat} {c0 len : Nat} {vs : List Variant}
    (hg : GG k L T PT c0 len vs) {q : Nat} (hq : q ∈ PT) (h1 : c0 ≤ q) (h2 : q < c0 + len)
    (hnew : ∀ t ∈ T, kmerAt k t (q - k + 1) ∉ done ∧ rcKmerAt k t q ∉ done) :
    ∃ tmp, vs.foldlM (LORL.inner W (k - 1) col done (q - c0)) (List.replicate T.length 45, [], true) =
        some (T.map (fun t => t.getD q 0), tmp, true) ∧
      (∀ x ∈ tmp, Blk k T q x) ∧
      ∀ t ∈ T, kmerAt k t (q - k + 1) ∈ tmp ∧ rcKmerAt k t q ∈ tmp := by
  have hqe := pf.ends q hq
  obtain ⟨hr1, hr2⟩ := hg.room q hq h1 h2
  -- the invariant of the loop over the variants
  let J : List Variant → List UInt8 × List Nat × Bool → Prop := fun pre st =>
    st.2.2 = true ∧ st.1.length = T.length ∧
    (∀ i (hi : i < T.length), st.1.getD i 0 =
      if ∃ v ∈ pre, v.1.getD (q - c0) 0 = (T[i]).getD q 0 then (T[i]).getD q 0 else 45) ∧
    (∀ x ∈ st.2.1, Blk k T q x) ∧
    (∀ v ∈ pre, kmerAt k v.1 (q - c0 - (k - 1)) ∈ st.2.1 ∧ rcKmerAt k v.1 (q - c0) ∈ st.2.1)
  have step : ∀ (rest pre : List Variant) (st : List UInt8 × List Nat × Bool),
      (∀ v ∈ rest, v ∈ vs) → J pre st →
      ∃ st', rest.foldlM (LORL.inner W (k - 1) col done (q - c0)) st = some st' ∧ J (pre ++ rest) st' := by
    intro rest
    induction rest with
    | nil => intro pre st _ hJ; exact ⟨st, rfl, by simpa using hJ⟩
    | cons v rest ih =>
      intro pre st hsub hJ
      have hv : v ∈ vs := hsub v (List.mem_cons_self ..)
      obtain ⟨hlen, hbase, _⟩ := hg.hv v hv
      obtain ⟨t, ht, hwe, hws, hlet⟩ := gg_windows pf hk5 hg hq h1 h2 hv
      obtain ⟨he1, he2⟩ := kmerAt_congr hwe
      obtain ⟨hs1, hs2⟩ := kmerAt_congr hws
      obtain ⟨Cs, hlk, _, hCs⟩ := hc t ht (q - k + 1) (by omega)
      obtain ⟨hJ1, hJ2, hJ3, hJ4, hJ5⟩ := hJ
      have heval := inner_eval (k := k) (by omega) hW hw col done (q - c0) st v hbase (by omega) (by rw [hlen]; omega)
      rw [he1, hs2, if_pos ⟨(hnew t ht).1, (hnew t ht).2⟩] at heval
      have hlk' : Assoc.lookup col (kmerAt k t (q - k + 1)) = some Cs := hlk
      rw [hlk'] at heval
      simp only [Option.map_some] at heval
      rw [List.foldlM_cons, heval]
      simp only [Option.bind_eq_bind, Option.bind_some]
      have hbq : isBase (t.getD q 0) = true := pf.base ht _ (getD_mem (by rw [pf.len ht]; omega))
      have hn78 : t.getD q 0 ≠ 78 := by
        rcases isBase_cases hbq with h | h | h | h <;> rw [h] <;> decide
      have := ih (pre ++ [v]) (List.foldl (LORL.upd (v.1.getD (q - c0) 0)) st.1 Cs,
        st.2.1 ++ [kmerAt k t (q - k + 1), rcKmerAt k v.1 (q - c0 - (k - 1)), kmerAt k v.1 (q - c0), rcKmerAt k t q],
        st.2.2) (fun u hu => hsub u (List.mem_cons_of_mem _ hu)) ?_
      · simpa using this
      · rw [hlet]
        refine ⟨hJ1, by rw [LORL.foldl_upd_length]; exact hJ2, ?_, ?_, ?_⟩
        · intro i hi
          rw [LORL.foldl_upd_getD _ hn78 Cs st.1 i (by rw [hJ2]; exact hi)]
          have hiCs : i ∈ Cs ↔ (T[i]).getD q 0 = t.getD q 0 := by
            rw [hCs]
            constructor
            · rintro ⟨t', ht', hw'⟩
              rw [List.getElem?_eq_getElem hi] at ht'
              have := Option.some.inj ht'
              subst this
              exact (same_end_iff pf hk5 hq ht (List.getElem_mem hi)).mp hw'
            · intro h
              exact ⟨T[i], List.getElem?_eq_getElem hi, (same_end_iff pf hk5 hq ht (List.getElem_mem hi)).mpr h⟩
          by_cases hi2 : (T[i]).getD q 0 = t.getD q 0
          · rw [if_pos (hiCs.mpr hi2), if_pos ⟨v, by simp, by rw [hlet, hi2]⟩]
            have hx : st.1.getD i 0 = (T[i]).getD q 0 ∨ st.1.getD i 0 = 45 := by
              rw [hJ3 i hi]
              split
              · exact Or.inl rfl
              · exact Or.inr rfl
            unfold LORL.updF
            rcases hx with h | h
            · rw [h, hi2]; simp
            · rw [h, hi2]; simp
          · rw [if_neg (fun h => hi2 (hiCs.mp h)), hJ3 i hi]
            have : (∃ v' ∈ pre ++ [v], v'.1.getD (q - c0) 0 = (T[i]).getD q 0) ↔
                (∃ v' ∈ pre, v'.1.getD (q - c0) 0 = (T[i]).getD q 0) := by
              constructor
              · rintro ⟨v', hv', e⟩
                rcases List.mem_append.mp hv' with h | h
                · exact ⟨v', h, e⟩
                · rw [List.mem_singleton] at h
                  rw [h, hlet] at e
                  exact absurd e.symm hi2
              · rintro ⟨v', hv', e⟩
                exact ⟨v', List.mem_append_left _ hv', e⟩
            simp only [this]
        · intro x hx
          rcases List.mem_append.mp hx with h | h
          · exact hJ4 x h
          · simp only [List.mem_cons, List.not_mem_nil, or_false] at h
            refine ⟨t, ht, ?_⟩
            rcases h with h | h | h | h
            · exact Or.inl h
            · exact Or.inr (Or.inl (by rw [h, he2]))
            · exact Or.inr (Or.inr (Or.inl (by rw [h, hs1])))
            · exact Or.inr (Or.inr (Or.inr h))
        · intro u hu
          rcases List.mem_append.mp hu with h | h
          · exact ⟨List.mem_append_left _ (hJ5 u h).1, List.mem_append_left _ (hJ5 u h).2⟩
          · rw [List.mem_singleton] at h
            subst h
            rw [he1, hs2]
            exact ⟨List.mem_append_right _ (by simp), List.mem_append_right _ (by simp)⟩
  obtain ⟨st', hfold, hJ1, hJ2, hJ3, hJ4, hJ5⟩ := step vs [] (List.replicate T.length 45, [], true)
    (fun v hv => hv) ⟨rfl, by simp, by
      intro i hi
      simp [List.getD_eq_getElem?_getD, hi], by simp, by simp⟩
  rw [List.nil_append] at hJ3 hJ5
  have hcol : st'.1 = T.map (fun t => t.getD q 0) := by
    apply Rows.ext_getD 0 _ _ (by rw [hJ2]; simp)
    intro i hi'
    have hi : i < T.length := by rw [← hJ2]; exact hi'
    rw [hJ3 i hi]
    obtain ⟨v, hv, hvl⟩ := hg.cov q hq h1 h2 (T[i]) (List.getElem_mem hi)
    rw [if_pos ⟨v, hv, hvl⟩]
    simp [List.getD_eq_getElem?_getD, List.getElem?_map, List.getElem?_eq_getElem hi]
  refine ⟨st'.2.1, ?_, hJ4, ?_⟩
  · rw [hfold, ← hcol, ← hJ1]
  · intro t ht
    obtain ⟨v, hv, hvl⟩ := hg.cov q hq h1 h2 t ht
    obtain ⟨t', ht', hwe, hws, hlet⟩ := gg_windows pf hk5 hg hq h1 h2 hv
    have heq : t'.getD q 0 = t.getD q 0 := by rw [← hlet, hvl]
    have hw1 : win t' (q - k + 1) k = win t (q - k + 1) k := (same_end_iff pf hk5 hq ht ht').mpr heq
    have hw2 : win t' q k = win t q k :=
      pf.win_agree_site ht' ht (by omega) (by omega) hq (Nat.le_refl _) (by omega) heq
    obtain ⟨m1, m2⟩ := hJ5 v hv
    rw [(kmerAt_congr (hwe.trans hw1)).1] at m1
    rw [(kmerAt_congr (hws.trans hw2)).2] at m2
    exact ⟨m1, m2⟩

/-- **the inner loop at a blocked site**: the flag is cleared -/
theorem inner_old (pf : PFam k L T PT) (hk5 : 5 ≤ k) {W : Nat} (hW : 2 * k ≤ W) (hw : W = 64 ∨ W = 128)
    {col : Colours} {done : List Nat} {c0 len : Nat} {vs : List Variant}
    (hg : GG k L T PT c0 len vs) (hne : vs ≠ []) {q : Nat} (hq : q ∈ PT) (h1 : c0 ≤ q) (h2 : q < c0 + len)
    (hold : ∀ t ∈ T, kmerAt k t (q - k + 1) ∈ done) (st : List UInt8 × List Nat × Bool) :
    vs.foldlM (LORL.inner W (k - 1) col done (q - c0)) st = some (st.1, st.2.1, false) := by
  obtain ⟨hr1, hr2⟩ := hg.room q hq h1 h2
  have step : ∀ (rest : List Variant) (st : List UInt8 × List Nat × Bool), (∀ v ∈ rest, v ∈ vs) → rest ≠ [] →
      rest.foldlM (LORL.inner W (k - 1) col done (q - c0)) st = some (st.1, st.2.1, false) := by
    intro rest
    induction rest with
    | nil => intro st _ h; exact absurd rfl h
    | cons v rest ih =>
      intro st hsub _
      have hv : v ∈ vs := hsub v (List.mem_cons_self ..)
      obtain ⟨hlen, hbase, _⟩ := hg.hv v hv
      obtain ⟨t, ht, hwe, _, _⟩ := gg_windows pf hk5 hg hq h1 h2 hv
      have heval := inner_eval (k := k) (by omega) hW hw col done (q - c0) st v hbase (by omega) (by rw [hlen]; omega)
      rw [(kmerAt_congr hwe).1, if_neg (fun h => h.1 (hold t ht))] at heval
      rw [List.foldlM_cons, heval]
      simp only [Option.bind_eq_bind, Option.bind_some]
      cases rest with
      | nil => rfl
      | cons u rest' =>
        exact ih (st.1, st.2.1, false) (fun u hu => hsub u (List.mem_cons_of_mem _ hu)) (by simp)
  exact step vs st (fun v hv => hv) hne

end SkaModel.LOC
