/-
C17 completeness — the graph of a planted family as two strands: every edge joins consecutive
`(k-1)`-mers of a sample of the family or of the reverse-complemented family; successors and
predecessors of the nodes of one strand.
-/
import SkaModel.Lemmas.LOCMirror
import SkaModel.Lemmas.LOCColour

namespace SkaModel.LOC

open SkaModel SkaModel.Spec SkaModel.Props.C16 SkaModel.Skalo SkaModel.Props.C17G

/-- forward edges of a family -/
def FE (k L : Nat) (T : List (List UInt8)) (x y : Nat) : Prop :=
  ∃ t ∈ T, ∃ j, j + k ≤ L ∧ x = fN k t j ∧ y = fN k t (j + 1)

/-- the graph `g` consists of the forward strands of the planted families `T` and `T'`, which share no
`(k-1)`-mer; successor lists are duplicate free -/
structure Strand (k L : Nat) (g : Graph) (T : List (List UInt8)) (PT : List Nat)
    (T' : List (List UInt8)) (PT' : List Nat) : Prop where
  k5 : 5 ≤ k
  pf : PFam k L T PT
  pf' : PFam k L T' PT'
  cross : ∀ t ∈ T, ∀ t' ∈ T', ∀ j j', j + (k - 1) ≤ L → j' + (k - 1) ≤ L →
    win t j (k - 1) ≠ win t' j' (k - 1)
  edge : ∀ x y, Edge g x y ↔ FE k L T x y ∨ FE k L T' x y
  nd : ∀ x, (succs g x).Nodup
  lk : ∀ x, Assoc.lookup g x = if succs g x = [] then none else some (succs g x)
  knd : (g.map (·.1)).Nodup
  rcT : ∀ t ∈ T, rcSeq t ∈ T'
  rcT' : ∀ t' ∈ T', rcSeq t' ∈ T
  mirP : ∀ p ∈ PT, L - 1 - p ∈ PT'
  mirP' : ∀ p' ∈ PT', L - 1 - p' ∈ PT

theorem Strand.swap {k L : Nat} {g : Graph} {T T' : List (List UInt8)} {PT PT' : List Nat}
    (st : Strand k L g T PT T' PT') : Strand k L g T' PT' T PT :=
  ⟨st.k5, st.pf', st.pf, fun t' ht' t ht j j' hj hj' e => st.cross t ht t' ht' j' j hj' hj e.symm,
    fun x y => (st.edge x y).trans or_comm, st.nd, st.lk, st.knd, st.rcT', st.rcT, st.mirP', st.mirP⟩

theorem fN_inj {k : Nat} {s t : List UInt8} (hs : AllBase s) (ht : AllBase t) {j j' : Nat}
    (hj : j + (k - 1) ≤ s.length) (hj' : j' + (k - 1) ≤ t.length) (e : fN k s j = fN k t j') :
    win s j (k - 1) = win t j' (k - 1) := by
  unfold fN at e
  exact cds_inj (hs.win _ _) (ht.win _ _)
    (packL_inj (cds_codes _) (cds_codes _) (by rw [cds_length, cds_length, win_length hj, win_length hj']) e)

/-- **the graph of a planted family is a pair of strands** -/
theorem strand_of_fam {a : Arr} {k L : Nat} {names : List String} {S : List (List UInt8)} {P : List Nat}
    (ha : IsArrOf a k names S) (h : PFam k L S P) (hk : ValidK k) {W : Nat} (hw : WidthOk W k) :
    Strand k L (buildGraph W a).1 S P (rcFam S) (mirrorP L P) := by
  obtain ⟨hh2, hkh, hkW⟩ := validK_bounds hk hw
  refine ⟨hk.1, h, h.mirror, fun t ht t' ht' j j' hj hj' => h.cross ht ht' hj hj', ?_,
    succs_nodup W _, lookup_buildGraph W _, LOP.buildGraph_keys_nodup W _, ?_, ?_, ?_, ?_⟩
  rotate_left
  · intro t ht
    exact List.mem_map.mpr ⟨t, ht, rfl⟩
  · intro t' ht'
    obtain ⟨t, ht, rfl⟩ := List.mem_map.mp ht'
    rw [rcSeq_rcSeq (h.base ht)]
    exact ht
  · intro p hp
    exact (mem_mirrorP L P _).mpr ⟨p, hp, rfl⟩
  · intro p' hp'
    obtain ⟨p, hp, rfl⟩ := (mem_mirrorP L P p').mp hp'
    have := h.ends p hp
    rw [show L - 1 - (L - 1 - p) = p by omega]
    exact hp
  intro x y
  rw [edge_iff_mem_allEdges, mem_allEdges_fam ha h.sf hk hw]
  constructor
  · rintro ⟨s, hs, j, hj, hx | hx⟩
    · simp only [Prod.mk.injEq] at hx
      exact Or.inl ⟨s, hs, j, hj, hx.1, hx.2⟩
    · simp only [Prod.mk.injEq] at hx
      right
      refine ⟨rcSeq s, List.mem_map.mpr ⟨s, hs, rfl⟩, L - k - j, by omega, ?_, ?_⟩
      · rw [hx.1, rN_eq_fN (h.base hs) (by rw [h.len hs]; omega), h.len hs]
        congr 1
        omega
      · rw [hx.2, rN_eq_fN (h.base hs) (by rw [h.len hs]; omega), h.len hs]
        congr 1
        omega
  · rintro (⟨s, hs, j, hj, hx, hy⟩ | ⟨s', hs', j, hj, hx, hy⟩)
    · exact ⟨s, hs, j, hj, Or.inl (by rw [hx, hy])⟩
    · obtain ⟨s, hs, rfl⟩ := List.mem_map.mp hs'
      refine ⟨s, hs, L - k - j, by omega, Or.inr ?_⟩
      rw [hx, hy, rN_eq_fN (h.base hs) (by rw [h.len hs]; omega),
        rN_eq_fN (h.base hs) (by rw [h.len hs]; omega), h.len hs]
      congr 2 <;> omega

namespace Strand

variable {k L : Nat} {g : Graph} {T T' : List (List UInt8)} {PT PT' : List Nat}

/-- equal nodes of one strand are at the same coordinate and spell the same `(k-1)`-mer -/
theorem node_level (st : Strand k L g T PT T' PT') {t t' : List UInt8} (ht : t ∈ T) (ht' : t' ∈ T)
    {j j' : Nat} (hj : j + (k - 1) ≤ L) (hj' : j' + (k - 1) ≤ L) (e : fN k t j = fN k t' j') :
    j = j' ∧ win t j (k - 1) = win t' j (k - 1) := by
  have hw := fN_inj (st.pf.base ht) (st.pf.base ht') (by rw [st.pf.len ht]; exact hj)
    (by rw [st.pf.len ht']; exact hj') e
  have := (st.pf.uniq t ht t' ht' j j' hj hj').1 hw
  subst this
  exact ⟨rfl, hw⟩

/-- nodes of the two strands differ -/
theorem node_cross (st : Strand k L g T PT T' PT') {t t' : List UInt8} (ht : t ∈ T) (ht' : t' ∈ T')
    {j j' : Nat} (hj : j + (k - 1) ≤ L) (hj' : j' + (k - 1) ≤ L) : fN k t j ≠ fN k t' j' := by
  intro e
  exact st.cross t ht t' ht' j j' hj hj' (fN_inj (st.pf.base ht) (st.pf'.base ht')
    (by rw [st.pf.len ht]; exact hj) (by rw [st.pf'.len ht']; exact hj') e)

theorem fN_congr {t t' : List UInt8} {j : Nat} (e : win t j (k - 1) = win t' j (k - 1)) :
    fN k t j = fN k t' j := by
  unfold fN
  rw [e]

/-- the successors of a node of the strand `T` -/
theorem mem_succs (st : Strand k L g T PT T' PT') {t : List UInt8} (ht : t ∈ T) {j : Nat}
    (hj : j + (k - 1) ≤ L) (y : Nat) :
    y ∈ succs g (fN k t j) ↔
      j + k ≤ L ∧ ∃ t' ∈ T, win t' j (k - 1) = win t j (k - 1) ∧ y = fN k t' (j + 1) := by
  have hk5 := st.k5
  change Edge g (fN k t j) y ↔ _
  rw [st.edge]
  constructor
  · rintro (⟨t', ht', j', hj', hx, hy⟩ | ⟨t', ht', j', hj', hx, _⟩)
    · obtain ⟨e, hw⟩ := st.node_level ht ht' hj (by omega) hx
      subst e
      exact ⟨hj', t', ht', hw.symm, hy⟩
    · exact absurd hx (st.node_cross ht ht' hj (by omega))
  · rintro ⟨hjk, t', ht', hw, rfl⟩
    exact Or.inl ⟨t', ht', j, hjk, (fN_congr hw).symm, rfl⟩

/-- a list without duplicates whose members all equal `c` and which contains `c` -/
theorem eq_singleton {l : List Nat} {c : Nat} (hnd : l.Nodup) (hc : c ∈ l) (hall : ∀ y ∈ l, y = c) : l = [c] := by
  match l, hnd, hc, hall with
  | [x], _, hc, _ => rw [List.mem_singleton.mp hc]
  | x :: y :: rest, hnd, _, hall =>
    exfalso
    rw [List.nodup_cons] at hnd
    apply hnd.1
    rw [hall x (List.mem_cons_self ..), ← hall y (List.mem_cons_of_mem _ (List.mem_cons_self ..))]
    exact List.mem_cons_self ..

/-- the next window is determined by the current one and the next letter -/
theorem win_next {s t : List UInt8} {j m : Nat} (hs : j + m + 1 ≤ s.length) (ht : j + m + 1 ≤ t.length)
    (e : win s j m = win t j m) (hl : s.getD (j + m) 0 = t.getD (j + m) 0) :
    win s (j + 1) m = win t (j + 1) m := by
  rw [win_eq_iff (by omega) (by omega)]
  intro i hi
  by_cases him : i + 1 < m
  · have := (win_eq_iff (by omega) (by omega)).mp e (i + 1) him
    rwa [show j + (i + 1) = j + 1 + i by omega] at this
  · rw [show j + 1 + i = j + m by omega]
    exact hl

/-- the previous window is determined by the current one and the previous letter -/
theorem win_prev {s t : List UInt8} {j m : Nat} (hs : j + m + 1 ≤ s.length) (ht : j + m + 1 ≤ t.length)
    (e : win s (j + 1) m = win t (j + 1) m) (hl : s.getD j 0 = t.getD j 0) :
    win s j m = win t j m := by
  rw [win_eq_iff (by omega) (by omega)]
  intro i hi
  cases i with
  | zero => exact hl
  | succ i =>
    have := (win_eq_iff (by omega) (by omega)).mp e i (by omega)
    rwa [show j + 1 + i = j + (i + 1) by omega] at this

/-- a node whose next letter is not a site has exactly one successor -/
theorem succs_single (st : Strand k L g T PT T' PT') {t : List UInt8} (ht : t ∈ T) {j : Nat}
    (hj : j + k ≤ L) (hno : j + k - 1 ∉ PT) : succs g (fN k t j) = [fN k t (j + 1)] := by
  have hk5 := st.k5
  apply eq_singleton (st.nd _)
  · exact (st.mem_succs ht (by omega) _).mpr ⟨hj, t, ht, rfl, rfl⟩
  · intro y hy
    obtain ⟨_, t', ht', hw, rfl⟩ := (st.mem_succs ht (by omega) y).mp hy
    apply fN_congr
    have e : j + k - 1 = j + (k - 1) := by omega
    exact win_next (by rw [st.pf.len ht']; omega) (by rw [st.pf.len ht]; omega) hw
      (st.pf.off t' ht' t ht _ (by omega) (by rw [← e]; exact hno))

/-- the last node of a strand has no successor -/
theorem succs_last (st : Strand k L g T PT T' PT') {t : List UInt8} (ht : t ∈ T) {j : Nat}
    (hj : j + (k - 1) ≤ L) (hl : L < j + k) : succs g (fN k t j) = [] := by
  apply List.eq_nil_iff_forall_not_mem.mpr
  intro y hy
  have := ((st.mem_succs ht hj y).mp hy).1
  omega

/-- the successors of the node before a site: one per base shown at the site -/
theorem mem_succs_site (st : Strand k L g T PT T' PT') {t : List UInt8} (ht : t ∈ T) {p : Nat}
    (hp : p ∈ PT) (y : Nat) :
    y ∈ succs g (fN k t (p - k + 1)) ↔ ∃ t' ∈ T, y = fN k t' (p - k + 2) := by
  have hk5 := st.k5
  have hpe := st.pf.ends p hp
  rw [st.mem_succs ht (by omega)]
  constructor
  · rintro ⟨_, t', ht', _, rfl⟩
    exact ⟨t', ht', by rw [show p - k + 1 + 1 = p - k + 2 by omega]⟩
  · rintro ⟨t', ht', rfl⟩
    refine ⟨by omega, t', ht', ?_, by rw [show p - k + 1 + 1 = p - k + 2 by omega]⟩
    apply st.pf.win_agree ht' ht (by omega)
    intro q hq hin
    rcases Nat.lt_or_ge q p with h1 | h1
    · rcases st.pf.sep hq hp (by omega) with h2 | h2 <;> omega
    · omega

/-- two samples with different bases at a site give different nodes on the arm -/
theorem arm_ne (st : Strand k L g T PT T' PT') {t t' : List UInt8} (ht : t ∈ T) (ht' : t' ∈ T) {p : Nat}
    (_hp : p ∈ PT) (hne : t.getD p 0 ≠ t'.getD p 0) {j : Nat} (hjp : j ≤ p) (hpj : p < j + (k - 1))
    (hj : j + (k - 1) ≤ L) : fN k t j ≠ fN k t' j := by
  intro e
  have hw := fN_inj (st.pf.base ht) (st.pf.base ht') (by rw [st.pf.len ht]; exact hj)
    (by rw [st.pf.len ht']; exact hj) e
  exact hne (PFam.win_getD (by rw [st.pf.len ht]; exact hj) (by rw [st.pf.len ht']; exact hj) hw hjp hpj)

/-- the node before a site branches -/
theorem succs_site_two (st : Strand k L g T PT T' PT') {t : List UInt8} (ht : t ∈ T) {p : Nat}
    (hp : p ∈ PT) : 2 ≤ (succs g (fN k t (p - k + 1))).length := by
  have hk5 := st.k5
  have hpe := st.pf.ends p hp
  obtain ⟨s, hs, s', hs', hne⟩ := st.pf.poly p hp
  exact SNP.two_le_length_of_mem_ne ((st.mem_succs_site ht hp _).mpr ⟨s, hs, rfl⟩)
    ((st.mem_succs_site ht hp _).mpr ⟨s', hs', rfl⟩)
    (st.arm_ne hs hs' hp hne (by omega) (by omega) (by omega))

/-- a node whose previous letter is not a site has exactly one predecessor -/
theorem pred_unique (st : Strand k L g T PT T' PT') {t : List UInt8} (ht : t ∈ T) {j : Nat}
    (hj : j + k ≤ L) (hno : j ∉ PT) {x : Nat} (hx : Edge g x (fN k t (j + 1))) : x = fN k t j := by
  have hk5 := st.k5
  rw [st.edge] at hx
  rcases hx with ⟨t', ht', j', hj', rfl, hy⟩ | ⟨t', ht', j', hj', _, hy⟩
  · obtain ⟨e, hw⟩ := st.node_level ht ht' (by omega) (by omega) hy
    have e' : j' = j := by omega
    subst e'
    apply fN_congr
    exact win_prev (by rw [st.pf.len ht']; omega) (by rw [st.pf.len ht]; omega) hw.symm
      (st.pf.off t' ht' t ht _ (by omega) hno)
  · exact absurd hy (st.node_cross ht ht' (by omega) (by omega))

/-- the source of an edge into a node of the strand is a node of the strand one coordinate earlier -/
theorem pred_level (st : Strand k L g T PT T' PT') {t : List UInt8} (ht : t ∈ T) {j : Nat}
    (hj : j + (k - 1) ≤ L) {x : Nat} (hx : Edge g x (fN k t j)) :
    ∃ t' ∈ T, 1 ≤ j ∧ x = fN k t' (j - 1) ∧ win t' j (k - 1) = win t j (k - 1) := by
  have hk5 := st.k5
  rw [st.edge] at hx
  rcases hx with ⟨t', ht', j', hj', rfl, hy⟩ | ⟨t', ht', j', hj', _, hy⟩
  · obtain ⟨e, hw⟩ := st.node_level ht ht' hj (by omega) hy
    subst e
    exact ⟨t', ht', by omega, by rw [Nat.add_sub_cancel], hw.symm⟩
  · exact absurd hy (st.node_cross ht ht' hj (by omega))

end Strand

end SkaModel.LOC
