/-
Generic list lemmas used by the C06 refinement proofs (core Lean only).
-/

namespace SkaModel.Lemmas.Filter

/-- a stronger predicate keeps a sublist -/
theorem filter_sublist_of_imp {α : Type _} {p q : α → Bool} (l : List α)
    (h : ∀ x, p x = true → q x = true) : (l.filter p).Sublist (l.filter q) := by
  induction l with
  | nil => simp
  | cons a l ih =>
    by_cases hp : p a = true
    · have hq := h a hp
      simp only [List.filter_cons, hp, hq, if_true]
      exact ih.cons_cons a
    · by_cases hq : q a = true
      · simp only [List.filter_cons, hp, hq, if_true]
        exact ih.cons a
      · simp only [List.filter_cons, hp, hq]
        exact ih

theorem length_filter_le_of_imp {α : Type _} {p q : α → Bool} (l : List α)
    (h : ∀ x, p x = true → q x = true) : (l.filter p).length ≤ (l.filter q).length :=
  (filter_sublist_of_imp l h).length_le

theorem eraseDups_filter_aux {α : Type _} [BEq α] [LawfulBEq α] (p : α → Bool) :
    ∀ (n : Nat) (l : List α), l.length ≤ n → (l.filter p).eraseDups = l.eraseDups.filter p := by
  intro n
  induction n with
  | zero =>
    intro l hl
    have : l = [] := List.length_eq_zero_iff.mp (Nat.le_zero.mp hl)
    subst this; simp
  | succ n ih =>
    intro l hl
    cases l with
    | nil => simp
    | cons a as =>
      have hlen : (as.filter (fun b => !b == a)).length ≤ n := by
        have := List.length_filter_le (fun b => !b == a) as
        simp only [List.length_cons] at hl
        omega
      have ih' := ih _ hlen
      rw [List.eraseDups_cons]
      by_cases hp : p a = true
      · simp only [List.filter_cons, hp, if_true]
        rw [List.eraseDups_cons, ← ih']
        simp only [List.filter_filter]
        congr 2
        apply List.filter_congr
        intro x _
        exact Bool.and_comm _ _
      · simp only [List.filter_cons, hp]
        rw [← ih']
        simp only [List.filter_filter]
        congr 1
        apply List.filter_congr
        intro x _
        by_cases hx : (x == a) = true
        · have : x = a := eq_of_beq hx
          subst this
          simp [hp]
        · simp [hx]

/-- de-duplication commutes with filtering -/
theorem eraseDups_filter {α : Type _} [BEq α] [LawfulBEq α] (p : α → Bool) (l : List α) :
    (l.filter p).eraseDups = l.eraseDups.filter p :=
  eraseDups_filter_aux p l.length l (Nat.le_refl _)

/-- a sum of 0/1 indicator scores is the number of elements scoring 1 -/
theorem sum_map_indicator {α : Type _} (f : α → Nat) (p : α → Bool)
    (h : ∀ x, f x = if p x then 1 else 0) (l : List α) :
    (l.map f).sum = (l.filter p).length := by
  induction l with
  | nil => simp
  | cons a l ih =>
    simp only [List.map_cons, List.sum_cons, List.filter_cons, ih, h a]
    by_cases hp : p a = true
    · simp [hp]; omega
    · simp [hp]

/-- `zip` of the swapped lists -/
theorem zip_swap {α β : Type _} : ∀ (l₁ : List α) (l₂ : List β),
    (l₁.zip l₂).map Prod.swap = l₂.zip l₁
  | [], _ => by simp
  | _ :: _, [] => by simp
  | a :: l₁, b :: l₂ => by simp [zip_swap l₁ l₂]

end SkaModel.Lemmas.Filter
