/-
C18 completeness — the colours of the first k-mers of the sequences of a bubble, the k-mers of the edges out
of its entry node, and the record of `process_indels` for the bubble of a block and for its twin.
-/
import SkaModel.Lemmas.LOEHrec

namespace SkaModel.LOE

open SkaModel SkaModel.Spec SkaModel.Props.C16 SkaModel.Skalo SkaModel.Props.C17G SkaModel.LOG SkaModel.LOC

theorem cds_lets_take (F : List UInt8) (u : List Nat) (n : Nat) : (cds (lets F u)).take n = cds (lets F (u.take n)) := by
  unfold cds lets
  rw [← List.map_take, ← List.map_take]

theorem cds_lets_drop (F : List UInt8) (u : List Nat) (n : Nat) : (cds (lets F u)).drop n = cds (lets F (u.drop n)) := by
  unfold cds lets
  rw [← List.map_drop, ← List.map_drop]

/-- the k-mer of an edge of the samples' strand -/
theorem combine_fwd {W k : Nat} (hk : 2 ≤ k) (hW : 2 * k ≤ W) (F : List UInt8) (u : List Nat) (hu : u.length = k) :
    combineKmers W (nuF F (u.take (k - 1))) (nuF F (u.drop 1)) = packL (cds (lets F u)) := by
  have := LORL.combine_pack W (k - 1) (by omega) (cds (lets F u)) (cds_codes _)
    (by rw [cds_length]; unfold lets; rw [List.length_map, hu]; omega) (by omega)
  rw [cds_lets_take, cds_lets_drop] at this
  exact this

/-- the k-mer of an edge of the other strand -/
theorem combine_rev {W k : Nat} (hk : 2 ≤ k) (hW : 2 * k ≤ W) (F : List UInt8) (u : List Nat) (hu : u.length = k) :
    combineKmers W (nuR F (u.drop 1)) (nuR F (u.take (k - 1))) = packL (rcCodes (cds (lets F u))) := by
  have hl : (cds (lets F u)).length = k := by rw [cds_length]; unfold lets; rw [List.length_map, hu]
  have := LORL.combine_pack W (k - 1) (by omega) (rcCodes (cds (lets F u))) (rcCodes_codes (cds_codes _))
    (by rw [rcCodes_length, hl]; omega) (by omega)
  rw [rcCodes_take, rcCodes_drop, hl, show k - (k - 1) = 1 by omega, show k - 1 = k - 1 from rfl,
    cds_lets_drop, cds_lets_take] at this
  exact this

/-- the record of block `t` read on the samples' strand / on the other strand -/
def recFw (k : Nat) (F : List UInt8) (B : List (Nat × Nat)) (C : List (List Bool)) (t : Nat) : IndelRec :=
  indelRec C.length (lE k F B t) (lI k F B t) (lX k F B t) (keepIdx C t) (delIdx C t)
def recRv (k : Nat) (F : List UInt8) (B : List (Nat × Nat)) (C : List (List Bool)) (t : Nat) : IndelRec :=
  indelRec C.length (rcSeq (lX2 k F B t)) (rcSeq (lI2 F B t)) (rcSeq (lE2 k F B t)) (keepIdx C t) (delIdx C t)

namespace Ctx

variable {W k : Nat} {F : List UInt8} {B : List (Nat × Nat)} {C : List (List Bool)} {a : Arr} {names : List String}

theorem kW (cx : Ctx W k F B C a names) : 2 * k ≤ W := (validK_bounds cx.hk cx.hw).2.2

theorem look_fa (cx : Ctx W k F B C a names) {t : Nat} (ht : t < B.length) :
    Assoc.lookup (buildGraph W a).2 (encodeKmer W ((lE k F B t ++ lI k F B t ++ lX k F B t).take (k - 1 + 1))) =
      some (keepIdx C t) := by
  have hb := cx.h.bt ht
  have he := cx.ex_bounds ht
  have hk5 := cx.h.k5
  rw [cx.take_fa ht, enc_eq W _ (by unfold lets; rw [List.length_map, List.length_range']; exact cx.kW)]
  exact cx.colour_keep ht (x := eX k F B t) (y := bS B t) (by omega) (by omega) (by omega) (by omega)
    (by unfold inBlk; unfold bS bE at *; omega) (by omega) _ (Or.inl rfl)

theorem look_fb (cx : Ctx W k F B C a names) {t : Nat} (ht : t < B.length) :
    Assoc.lookup (buildGraph W a).2 (encodeKmer W ((lE k F B t ++ lX k F B t).take (k - 1 + 1))) =
      some (delIdx C t) := by
  have hb := cx.h.bt ht
  have he := cx.ex_bounds ht
  have hk5 := cx.h.k5
  rw [cx.take_fb ht, enc_eq W _ (by
    unfold lets
    rw [List.length_map, List.length_append, List.length_range', List.length_range']
    have := cx.kW
    omega)]
  exact cx.colour_del ht (x := eX k F B t) (by omega) (by omega) (by omega) _ (Or.inl rfl)

theorem look_ra (cx : Ctx W k F B C a names) {t : Nat} (ht : t < B.length) :
    Assoc.lookup (buildGraph W a).2 (encodeKmer W
      ((rcSeq (lX2 k F B t) ++ rcSeq (lI2 F B t) ++ rcSeq (lE2 k F B t)).take (k - 1 + 1))) = some (keepIdx C t) := by
  have hb := cx.h.bt ht
  have hk5 := cx.h.k5
  have hbase : AllBase (lets F (List.range' (bE B t - 1) k)) := by
    apply map_getF_base cx.h.base
    intro x hx
    rw [List.mem_range'_1] at hx
    omega
  rw [cx.take_ra ht, enc_eq W _ (by
    rw [rcSeq_length]; unfold lets; rw [List.length_map, List.length_range']; exact cx.kW), cds_rcSeq hbase]
  exact cx.colour_keep ht (x := bE B t - 1) (y := bE B t - 1) (by omega) (by omega) (by omega) (by omega)
    (by unfold inBlk; unfold bS bE at *; omega) (by omega) _ (Or.inr rfl)

theorem look_rb (cx : Ctx W k F B C a names) {t : Nat} (ht : t < B.length) :
    Assoc.lookup (buildGraph W a).2 (encodeKmer W
      ((rcSeq (lX2 k F B t) ++ rcSeq (lE2 k F B t)).take (k - 1 + 1))) = some (delIdx C t) := by
  have hb := cx.h.bt ht
  have hk5 := cx.h.k5
  have hbase : AllBase (lets F (List.range' (bS B t - 1) (bS B t - (bS B t - 1)) ++
      List.range' (bE B t) (k - (bS B t - (bS B t - 1))))) := by
    apply map_getF_base cx.h.base
    intro x hx
    rw [List.mem_append, List.mem_range'_1, List.mem_range'_1] at hx
    omega
  rw [cx.take_rb ht, enc_eq W _ (by
    rw [rcSeq_length]
    unfold lets
    rw [List.length_map, List.length_append, List.length_range', List.length_range']
    have := cx.kW
    omega), cds_rcSeq hbase]
  exact cx.colour_del ht (x := bS B t - 1) (by omega) (by omega) (by omega) _ (Or.inr rfl)

theorem getF_gt (cx : Ctx W k F B C a names) {x : Nat} (hx : x < F.length) : 45 < getF F x ∧ 45 < compl (getF F x) := by
  have := getF_base cx.h.base hx
  rcases isBase_cases this with e | e | e | e <;> rw [e] <;> decide

/-- **the record of the bubble of block `t` on the samples' strand**, for both orders of its two variants -/
theorem recOf_fwd (cx : Ctx W k F B C a names) (mNum mDen : Nat) (starts ends : List Nat) {t : Nat}
    (ht : t < B.length) (o : Bool) :
    LOP.recOf W (k - 1) C.length mNum mDen (buildGraph W a).2 (bubVs W (k - 1) starts ends (fwdBub k F B t) o) =
      some (some (recFw k F B C t)) := by
  have hb := cx.h.bt ht
  have hk5 := cx.h.k5
  obtain ⟨_, _, _, i0, hi0, hm0⟩ := cx.exists_keeper ht
  obtain ⟨_, _, _, i1, hi1, hm1⟩ := cx.exists_deleter ht
  have hI : ∃ b t', lI k F B t = b :: t' ∧ 45 < b := by
    refine ⟨getF F (bS B t + shf k F B t),
      lets F (List.range' (bS B t + shf k F B t + 1) (bE B t - bS B t - 1)), ?_, (cx.getF_gt (by omega)).1⟩
    unfold lI
    rw [show bE B t - bS B t = (bE B t - bS B t - 1) + 1 by omega, List.range'_succ]
    rfl
  have hrec := recOf_indel W (k - 1) C.length mNum mDen (buildGraph W a).2 (lE k F B t) (lI k F B t) (lX k F B t)
    (buildVariant W (k - 1) starts ends (fwdBub k F B t).en (fwdBub k F B t).pa).2
    (buildVariant W (k - 1) starts ends (fwdBub k F B t).en (fwdBub k F B t).pb).2
    (lE_len k F B t) (by rw [lX_len]; omega) hI (keepIdx C t) (delIdx C t) (cx.look_fa ht) (cx.look_fb ht)
    ((keepIdx_sorted C t).imp (fun h => Nat.ne_of_lt h)) ((delIdx_sorted C t).imp (fun h => Nat.ne_of_lt h))
    (fun i hi => idx_part C t i hi) ⟨i0, hi0, hm0⟩ ⟨i1, hi1, hm1⟩
  rw [← cx.seq_fa starts ends ht, ← cx.seq_fb starts ends ht] at hrec
  cases o
  · exact hrec.1
  · exact hrec.2

/-- **the record of the twin bubble** -/
theorem recOf_rev (cx : Ctx W k F B C a names) (mNum mDen : Nat) (starts ends : List Nat) {t : Nat}
    (ht : t < B.length) (o : Bool) :
    LOP.recOf W (k - 1) C.length mNum mDen (buildGraph W a).2 (bubVs W (k - 1) starts ends (revBub k F B t) o) =
      some (some (recRv k F B C t)) := by
  have hb := cx.h.bt ht
  have he := cx.ex_bounds ht
  have hk5 := cx.h.k5
  obtain ⟨_, _, _, i0, hi0, hm0⟩ := cx.exists_keeper ht
  obtain ⟨_, _, _, i1, hi1, hm1⟩ := cx.exists_deleter ht
  have hI : ∃ b t', rcSeq (lI2 F B t) = b :: t' ∧ 45 < b := by
    have hIe : lI2 F B t = lets F (List.range' (bS B t) (bE B t - bS B t - 1)) ++ [getF F (bE B t - 1)] := by
      unfold lI2
      rw [show bE B t - bS B t = (bE B t - bS B t - 1) + 1 by omega, DFam.range'_snoc, lets_append]
      congr 1
      unfold lets
      rw [List.map_singleton]
      congr 2
      omega
    rw [hIe, rcSeq_snoc]
    exact ⟨_, _, rfl, (cx.getF_gt (by omega)).2⟩
  have hrec := recOf_indel W (k - 1) C.length mNum mDen (buildGraph W a).2 (rcSeq (lX2 k F B t)) (rcSeq (lI2 F B t))
    (rcSeq (lE2 k F B t))
    (buildVariant W (k - 1) starts ends (revBub k F B t).en (revBub k F B t).pa).2
    (buildVariant W (k - 1) starts ends (revBub k F B t).en (revBub k F B t).pb).2
    (by rw [rcSeq_length, lX2_len]) (by rw [rcSeq_length, lE2_len]; omega) hI (keepIdx C t) (delIdx C t)
    (cx.look_ra ht) (cx.look_rb ht)
    ((keepIdx_sorted C t).imp (fun h => Nat.ne_of_lt h)) ((delIdx_sorted C t).imp (fun h => Nat.ne_of_lt h))
    (fun i hi => idx_part C t i hi) ⟨i0, hi0, hm0⟩ ⟨i1, hi1, hm1⟩
  rw [← cx.seq_ra starts ends ht, ← cx.seq_rb starts ends ht] at hrec
  cases o
  · exact hrec.1
  · exact hrec.2

end Ctx

end SkaModel.LOE
