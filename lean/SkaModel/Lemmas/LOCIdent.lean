/-
C17 completeness — `identify_good_kmers` on the graph of a planted family: the entry nodes are the
`(k-1)`-mers just before the sites of both strands, the exit nodes the `(k-1)`-mers just after them.
-/
import SkaModel.Lemmas.LOCColP
import SkaModel.Lemmas.LOReal5

namespace SkaModel.LOC

open SkaModel SkaModel.Spec SkaModel.Props.C16 SkaModel.Skalo SkaModel.Props.C17G

/-- the `(k-1)`-mer just before a site of `T` -/
def isEntry (k : Nat) (T : List (List UInt8)) (PT : List Nat) (x : Nat) : Prop :=
  ∃ p ∈ PT, ∃ t ∈ T, x = fN k t (p - k + 1)

/-- the `(k-1)`-mer just after a site of `T` -/
def isExit (k : Nat) (T : List (List UInt8)) (PT : List Nat) (x : Nat) : Prop :=
  ∃ p ∈ PT, ∃ t ∈ T, x = fN k t (p + 1)

/-- the entry and exit nodes of the two strands -/
structure Ext (k : Nat) (starts ends : List Nat) (T : List (List UInt8)) (PT : List Nat)
    (T' : List (List UInt8)) (PT' : List Nat) : Prop where
  st : ∀ x, x ∈ starts ↔ isEntry k T PT x ∨ isEntry k T' PT' x
  en : ∀ x, x ∈ ends ↔ isExit k T PT x ∨ isExit k T' PT' x
  snd : starts.Nodup

theorem Ext.swap {k : Nat} {starts ends : List Nat} {T T' : List (List UInt8)} {PT PT' : List Nat}
    (e : Ext k starts ends T PT T' PT') : Ext k starts ends T' PT' T PT :=
  ⟨fun x => (e.st x).trans or_comm, fun x => (e.en x).trans or_comm, e.snd⟩

/-! ### generic form of `identifyGoodKmers` -/

theorem mapM_eq_map {α β : Type} (f : α → Option β) (h : α → β) (l : List α)
    (hf : ∀ x ∈ l, f x = some (h x)) : l.mapM f = some (l.map h) := by
  induction l with
  | nil => rfl
  | cons a l ih =>
    have h1 := hf a (List.mem_cons_self ..)
    have h2 := ih (fun x hx => hf x (List.mem_cons_of_mem _ hx))
    simp [List.mapM_cons, h1, h2]

theorem zip_filter_map {α : Type} (g : List α) (h : α → Bool) :
    ((g.zip (g.map h)).filter (·.2)).map (·.1) = g.filter h := by
  induction g with
  | nil => rfl
  | cons a g ih =>
    simp only [List.map_cons, List.zip_cons_cons, List.filter_cons]
    by_cases ha : h a = true
    · simp [ha, ih]
    · simp [ha, ih]

/-- when the test of every node with several successors succeeds at once, the entry nodes are the
nodes with several successors -/
theorem identify_eq (W kG : Nat) (g : Graph) (col : Colours)
    (hgo : ∀ kn ∈ g, kn.2.length > 1 → identifyGoodKmers.go W col kn (pairsOf kn.2) = some true) :
    identifyGoodKmers W kG g col =
      some ((g.filter (fun kn => decide (kn.2.length > 1))).map (·.1),
        ((g.filter (fun kn => decide (kn.2.length > 1))).map (·.1)).map (fun x => revComp W x kG)) := by
  unfold identifyGoodKmers
  have hm := mapM_eq_map (fun (kn : Nat × List Nat) =>
      if kn.2.length > 1 then identifyGoodKmers.go W col kn (pairsOf kn.2) else some false)
    (fun kn => decide (kn.2.length > 1)) g (by
      intro kn hkn
      by_cases h : kn.2.length > 1
      · rw [if_pos h, hgo kn hkn h]; simp [h]
      · rw [if_neg h]; simp [h])
  simp only [Option.bind_eq_bind, hm, Option.bind_some]
  have := zip_filter_map g (fun kn => decide (kn.2.length > 1))
  have e : ((g.zip (g.map (fun kn => decide (kn.2.length > 1)))).filter (·.2)).map (·.1.1) =
      (g.filter (fun kn => decide (kn.2.length > 1))).map (·.1) := by
    rw [← this, List.map_map]
    rfl
  rw [e]

theorem go_first (W : Nat) (col : Colours) (kn : Nat × List Nat) (a b : Nat) (rest : List Nat)
    (hs : kn.2 = a :: b :: rest) (s1 s2 : List Nat)
    (h1 : Assoc.lookup col (combineKmers W kn.1 a) = some s1)
    (h2 : Assoc.lookup col (combineKmers W kn.1 b) = some s2) (hne : s1 ≠ s2) :
    identifyGoodKmers.go W col kn (pairsOf kn.2) = some true := by
  rw [hs]
  simp only [pairsOf, List.map_cons, List.cons_append]
  rw [identifyGoodKmers.go, h1, h2]
  simp [hne]

/-! ### on a strand -/

/-- the k-mer of the edge between consecutive nodes of a sample -/
theorem combine_fN {k W : Nat} (hk : 2 ≤ k) (hW : 2 * k ≤ W) {t : List UInt8} {j : Nat}
    (hj : j + k ≤ t.length) :
    combineKmers W (fN k t j) (fN k t (j + 1)) = packL (cds (win t j k)) := by
  have := LORL.combine_pack W (k - 1) (by omega) (cds (win t j k)) (cds_codes _)
    (by rw [cds_length, win_length hj]; omega) (by omega)
  have he := e1_window (k := k) (by omega) t j
  unfold e1 at he
  simp only [Prod.mk.injEq] at he
  rw [he.1, he.2] at this
  exact this

namespace Strand

variable {k L : Nat} {g : Graph} {T T' : List (List UInt8)} {PT PT' : List Nat}

/-- a node with an outgoing edge is a node of one of the two strands -/
theorem source_cases (st : Strand k L g T PT T' PT') {x y : Nat} (h : y ∈ succs g x) :
    (∃ t ∈ T, ∃ j, j + k ≤ L ∧ x = fN k t j) ∨ (∃ t ∈ T', ∃ j, j + k ≤ L ∧ x = fN k t j) := by
  have : Edge g x y := h
  rw [st.edge] at this
  rcases this with ⟨t, ht, j, hj, hx, _⟩ | ⟨t, ht, j, hj, hx, _⟩
  · exact Or.inl ⟨t, ht, j, hj, hx⟩
  · exact Or.inr ⟨t, ht, j, hj, hx⟩

/-- on the strand `T`: a node with at least two successors is an entry node, and the colour sets of
its first two successors differ -/
theorem branch_strand (st : Strand k L g T PT T' PT') {col : Colours} (hc : ColOK k L col T) {W : Nat}
    (hW : 2 * k ≤ W) {t : List UInt8} (ht : t ∈ T) {j : Nat} (hj : j + k ≤ L) {a b : Nat} {rest : List Nat}
    (hs : succs g (fN k t j) = a :: b :: rest) :
    isEntry k T PT (fN k t j) ∧ ∃ s1 s2, Assoc.lookup col (combineKmers W (fN k t j) a) = some s1 ∧
      Assoc.lookup col (combineKmers W (fN k t j) b) = some s2 ∧ s1 ≠ s2 := by
  have hk5 := st.k5
  have hp : j + k - 1 ∈ PT := by
    apply Classical.byContradiction
    intro hno
    rw [st.succs_single ht hj hno] at hs
    simp at hs
  have ha : a ∈ succs g (fN k t j) := by rw [hs]; exact List.mem_cons_self ..
  have hb : b ∈ succs g (fN k t j) := by rw [hs]; exact List.mem_cons_of_mem _ (List.mem_cons_self ..)
  have hab : a ≠ b := by
    have := st.nd (fN k t j)
    rw [hs, List.nodup_cons] at this
    exact fun e => this.1 (e ▸ List.mem_cons_self ..)
  obtain ⟨_, ta, hta, hwa, rfl⟩ := (st.mem_succs ht (by omega) a).mp ha
  obtain ⟨_, tb, htb, hwb, rfl⟩ := (st.mem_succs ht (by omega) b).mp hb
  have hpe := st.pf.ends _ hp
  refine ⟨⟨j + k - 1, hp, t, ht, by rw [show j + k - 1 - k + 1 = j by omega]⟩, ?_⟩
  obtain ⟨Ca, hla, _, hma⟩ := hc ta hta j hj
  obtain ⟨Cb, hlb, _, hmb⟩ := hc tb htb j hj
  refine ⟨Ca, Cb, ?_, ?_, ?_⟩
  · rw [← fN_congr hwa, combine_fN (by omega) hW (by rw [st.pf.len hta]; exact hj)]
    exact hla
  · rw [← fN_congr hwb, combine_fN (by omega) hW (by rw [st.pf.len htb]; exact hj)]
    exact hlb
  · intro e
    obtain ⟨ia, hia, rfl⟩ := List.getElem_of_mem hta
    have h1 : ia ∈ Ca := (hma ia).mpr ⟨T[ia], List.getElem?_eq_getElem hia, rfl⟩
    rw [e] at h1
    obtain ⟨t', ht', hw⟩ := (hmb ia).mp h1
    rw [List.getElem?_eq_getElem hia] at ht'
    have ht'' := Option.some.inj ht'
    subst ht''
    apply hab
    apply fN_congr
    have := congrArg (fun w => w.drop 1) hw
    simp only [win_drop] at this
    exact this

/-- nodes with at least two successors = entry nodes -/
theorem two_succs_iff (st : Strand k L g T PT T' PT') (x : Nat) :
    2 ≤ (succs g x).length ↔ isEntry k T PT x ∨ isEntry k T' PT' x := by
  have hk5 := st.k5
  constructor
  · intro h2
    match hs : succs g x, h2 with
    | a :: b :: rest, _ =>
      have ha : a ∈ succs g x := by rw [hs]; exact List.mem_cons_self ..
      rcases st.source_cases ha with ⟨t, ht, j, hj, rfl⟩ | ⟨t, ht, j, hj, rfl⟩
      · left
        apply Classical.byContradiction
        intro hno
        have hp : j + k - 1 ∉ PT := fun hp => hno ⟨j + k - 1, hp, t, ht, by
          have hpe := st.pf.ends _ hp
          rw [show j + k - 1 - k + 1 = j by omega]⟩
        rw [st.succs_single ht hj hp] at hs
        simp at hs
      · right
        apply Classical.byContradiction
        intro hno
        have hp : j + k - 1 ∉ PT' := fun hp => hno ⟨j + k - 1, hp, t, ht, by
          have hpe := st.pf'.ends _ hp
          rw [show j + k - 1 - k + 1 = j by omega]⟩
        rw [st.swap.succs_single ht hj hp] at hs
        simp at hs
  · rintro (⟨p, hp, t, ht, rfl⟩ | ⟨p, hp, t, ht, rfl⟩)
    · exact st.succs_site_two ht hp
    · exact st.swap.succs_site_two ht hp

/-- the reverse complement of a node of `T` is a node of `T'` at the mirrored coordinate -/
theorem revComp_fN (st : Strand k L g T PT T' PT') {W : Nat} (hw : W = 64 ∨ W = 128) (hW : 2 * k ≤ W)
    {t : List UInt8} (ht : t ∈ T) {j : Nat} (hj : j + (k - 1) ≤ L) :
    revComp W (fN k t j) (k - 1) = fN k (rcSeq t) (L - (k - 1) - j) := by
  unfold fN
  rw [revComp_packL W hw _ (cds_codes _) (k - 1) (by rw [cds_length, win_length (by rw [st.pf.len ht]; exact hj)])
    (by omega), ← cds_rcSeq ((st.pf.base ht).win _ _), rcSeq_win (by rw [st.pf.len ht]; exact hj), st.pf.len ht]

/-- **`identify_good_kmers` on a pair of strands** -/
theorem identify (st : Strand k L g T PT T' PT') {col : Colours} (hc : ColOK k L col T)
    (hc' : ColOK k L col T') {W : Nat} (hw : W = 64 ∨ W = 128) (hW : 2 * k ≤ W) :
    ∃ starts ends, identifyGoodKmers W (k - 1) g col = some (starts, ends) ∧ Ext k starts ends T PT T' PT' := by
  have hk5 := st.k5
  have hgo : ∀ kn ∈ g, kn.2.length > 1 → identifyGoodKmers.go W col kn (pairsOf kn.2) = some true := by
    intro kn hkn hl
    obtain ⟨hs, _⟩ := mem_graph_succs st.knd st.lk kn hkn
    match hkn2 : kn.2, hl with
    | a :: b :: rest, _ =>
      have hs' : succs g kn.1 = a :: b :: rest := by rw [← hs, hkn2]
      have ha : a ∈ succs g kn.1 := by rw [hs']; exact List.mem_cons_self ..
      rcases st.source_cases ha with ⟨t, ht, j, hj, hx⟩ | ⟨t, ht, j, hj, hx⟩
      · rw [hx] at hs'
        obtain ⟨_, s1, s2, h1, h2, hne⟩ := st.branch_strand hc hW ht hj hs'
        rw [← hx] at h1 h2
        rw [← hkn2]
        exact go_first W col kn a b rest hkn2 s1 s2 h1 h2 hne
      · rw [hx] at hs'
        obtain ⟨_, s1, s2, h1, h2, hne⟩ := st.swap.branch_strand hc' hW ht hj hs'
        rw [← hx] at h1 h2
        rw [← hkn2]
        exact go_first W col kn a b rest hkn2 s1 s2 h1 h2 hne
  refine ⟨_, _, identify_eq W (k - 1) g col hgo, ?_⟩
  have hst : ∀ x, x ∈ (g.filter (fun kn => decide (kn.2.length > 1))).map (·.1) ↔
      isEntry k T PT x ∨ isEntry k T' PT' x := by
    intro x
    rw [← st.two_succs_iff, List.mem_map]
    constructor
    · rintro ⟨kn, hkn, rfl⟩
      rw [List.mem_filter, decide_eq_true_eq] at hkn
      rw [← (mem_graph_succs st.knd st.lk kn hkn.1).1]
      exact hkn.2
    · intro h2
      have hne : succs g x ≠ [] := by
        intro e; rw [e] at h2; simp at h2
      have hl := st.lk x
      rw [if_neg hne] at hl
      refine ⟨(x, succs g x), ?_, rfl⟩
      rw [List.mem_filter, decide_eq_true_eq]
      exact ⟨Assoc.mem_of_lookup hl, h2⟩
  refine ⟨hst, ?_, ?_⟩
  · intro x
    rw [List.mem_map]
    constructor
    · rintro ⟨e, he, rfl⟩
      rcases (hst e).mp he with ⟨p, hp, t, ht, rfl⟩ | ⟨p, hp, t, ht, rfl⟩
      · right
        have hpe := st.pf.ends p hp
        refine ⟨L - 1 - p, st.mirP p hp, rcSeq t, st.rcT t ht, ?_⟩
        rw [st.revComp_fN hw hW ht (by omega)]
        congr 1
        omega
      · left
        have hpe := st.pf'.ends p hp
        refine ⟨L - 1 - p, st.mirP' p hp, rcSeq t, st.rcT' t ht, ?_⟩
        rw [st.swap.revComp_fN hw hW ht (by omega)]
        congr 1
        omega
    · rintro (⟨p, hp, t, ht, rfl⟩ | ⟨p, hp, t, ht, rfl⟩)
      · have hpe := st.pf.ends p hp
        have hpe' := st.pf'.ends _ (st.mirP p hp)
        refine ⟨fN k (rcSeq t) (L - 1 - p - k + 1),
          (hst _).mpr (Or.inr ⟨L - 1 - p, st.mirP p hp, rcSeq t, st.rcT t ht, rfl⟩), ?_⟩
        rw [st.swap.revComp_fN hw hW (st.rcT t ht) (by omega), rcSeq_rcSeq (st.pf.base ht)]
        congr 1
        omega
      · have hpe := st.pf'.ends p hp
        have hpe' := st.pf.ends _ (st.mirP' p hp)
        refine ⟨fN k (rcSeq t) (L - 1 - p - k + 1),
          (hst _).mpr (Or.inl ⟨L - 1 - p, st.mirP' p hp, rcSeq t, st.rcT' t ht, rfl⟩), ?_⟩
        rw [st.revComp_fN hw hW (st.rcT' t ht) (by omega), rcSeq_rcSeq (st.pf'.base ht)]
        congr 1
        omega
  · have h1 : ((g.filter (fun kn => decide (kn.2.length > 1))).map (·.1)).Sublist (g.map (·.1)) :=
      (List.filter_sublist).map _
    exact h1.nodup st.knd

end Strand

end SkaModel.LOC
