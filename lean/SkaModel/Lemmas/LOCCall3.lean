/-
C17 completeness — the k-mers that block a site: they are different for different sites, and the same
for a site and its mirror image on the other strand.
-/
import SkaModel.Lemmas.LOCCall2

namespace SkaModel.LOC

open SkaModel SkaModel.Spec SkaModel.Props.C16 SkaModel.Skalo SkaModel.Props.C17G SkaModel.LOG

variable {k L : Nat} {S : List (List UInt8)} {P : List Nat}

theorem rcSeq_take_pred' {w : List UInt8} {n : Nat} (hl : w.length = n + 1) :
    (rcSeq w).take n = rcSeq (w.drop 1) := rcSeq_take_pred hl

/-- equal `k`-mers of two samples are at the same coordinate -/
theorem kmer_coord (pf : PFam k L S P) (hk : 2 ≤ k) {s s2 : List UInt8} (hs : s ∈ S) (hs2 : s2 ∈ S) {a b : Nat}
    (ha : a + k ≤ L) (hb : b + k ≤ L) (h : kmerAt k s a = kmerAt k s2 b) : a = b := by
  unfold kmerAt at h
  have hw := cds_inj ((pf.base hs).win _ _) ((pf.base hs2).win _ _)
    (packL_inj (cds_codes _) (cds_codes _) (by
      rw [cds_length, cds_length, win_length (by rw [pf.len hs]; exact ha), win_length (by rw [pf.len hs2]; exact hb)]) h)
  have hw1 : win s a (k - 1) = win s2 b (k - 1) := by
    rw [← win_take s a k (k - 1) (by omega), ← win_take s2 b k (k - 1) (by omega), hw]
  exact (pf.uniq s hs s2 hs2 a b (by omega) (by omega)).1 hw1

theorem rckmer_coord (pf : PFam k L S P) (hk : 2 ≤ k) {s s2 : List UInt8} (hs : s ∈ S) (hs2 : s2 ∈ S) {a b : Nat}
    (ha : a + k ≤ L) (hb : b + k ≤ L) (h : rcKmerAt k s a = rcKmerAt k s2 b) : a = b := by
  apply kmer_coord pf hk hs hs2 ha hb
  unfold rcKmerAt at h
  unfold kmerAt
  have := packL_inj (rcCodes_codes (cds_codes _)) (rcCodes_codes (cds_codes _)) (by
    rw [rcCodes_length, rcCodes_length, cds_length, cds_length, win_length (by rw [pf.len hs]; exact ha),
      win_length (by rw [pf.len hs2]; exact hb)]) h
  rw [← rcCodes_rcCodes (cds (win s a k)), this, rcCodes_rcCodes]

/-- a `k`-mer of a sample is not the reverse complement of a `k`-mer of a sample -/
theorem kmer_ne_rc (pf : PFam k L S P) (hk : 2 ≤ k) {s s2 : List UInt8} (hs : s ∈ S) (hs2 : s2 ∈ S) {a b : Nat}
    (ha : a + k ≤ L) (hb : b + k ≤ L) : kmerAt k s a ≠ rcKmerAt k s2 b := by
  intro h
  unfold kmerAt rcKmerAt at h
  rw [← cds_rcSeq ((pf.base hs2).win _ _)] at h
  have hl1 : (win s a k).length = k := win_length (by rw [pf.len hs]; exact ha)
  have hl2 : (win s2 b k).length = k := win_length (by rw [pf.len hs2]; exact hb)
  have hw := cds_inj ((pf.base hs).win _ _) ((pf.base hs2).win _ _).rcSeq
    (packL_inj (cds_codes _) (cds_codes _) (by rw [cds_length, cds_length, rcSeq_length, hl1, hl2]) h)
  have hw1 : win s a (k - 1) = rcSeq (win s2 (b + 1) (k - 1)) := by
    rw [← win_take s a k (k - 1) (by omega), hw, rcSeq_take_pred (n := k - 1) (by rw [hl2]; omega), win_drop]
  exact (pf.uniq s hs s2 hs2 a (b + 1) (by omega) (by omega)).2 hw1

/-- the blocking k-mers of different sites are different -/
theorem blk_site (pf : PFam k L S P) (hk5 : 5 ≤ k) {q q2 : Nat} (hq : q ∈ P) (hq2 : q2 ∈ P) {x : Nat}
    (h : Blk k S q x) (h2 : Blk k S q2 x) : q = q2 := by
  have hqe := pf.ends q hq
  have hqe2 := pf.ends q2 hq2
  apply Classical.byContradiction
  intro hne
  have hsep := pf.sep hq hq2 hne
  obtain ⟨s, hs, hx⟩ := h
  obtain ⟨s2, hs2, hx2⟩ := h2
  have c1 : ∀ a b, a + k ≤ L → b + k ≤ L → kmerAt k s a = kmerAt k s2 b → a = b :=
    fun a b ha hb => kmer_coord pf (by omega) hs hs2 ha hb
  have c2 : ∀ a b, a + k ≤ L → b + k ≤ L → rcKmerAt k s a = rcKmerAt k s2 b → a = b :=
    fun a b ha hb => rckmer_coord pf (by omega) hs hs2 ha hb
  have c3 : ∀ a b, a + k ≤ L → b + k ≤ L → kmerAt k s a ≠ rcKmerAt k s2 b :=
    fun a b ha hb => kmer_ne_rc pf (by omega) hs hs2 ha hb
  have c4 : ∀ a b, a + k ≤ L → b + k ≤ L → rcKmerAt k s a ≠ kmerAt k s2 b :=
    fun a b ha hb e => kmer_ne_rc pf (by omega) hs2 hs hb ha e.symm
  rcases hx with hx | hx | hx | hx <;> rcases hx2 with hx2 | hx2 | hx2 | hx2 <;> rw [hx] at hx2
  · have := c1 _ _ (by omega) (by omega) hx2; omega
  · exact c3 _ _ (by omega) (by omega) hx2
  · have := c1 _ _ (by omega) (by omega) hx2; omega
  · exact c3 _ _ (by omega) (by omega) hx2
  · exact c4 _ _ (by omega) (by omega) hx2
  · have := c2 _ _ (by omega) (by omega) hx2; omega
  · exact c4 _ _ (by omega) (by omega) hx2
  · have := c2 _ _ (by omega) (by omega) hx2; omega
  · have := c1 _ _ (by omega) (by omega) hx2; omega
  · exact c3 _ _ (by omega) (by omega) hx2
  · have := c1 _ _ (by omega) (by omega) hx2; omega
  · exact c3 _ _ (by omega) (by omega) hx2
  · exact c4 _ _ (by omega) (by omega) hx2
  · have := c2 _ _ (by omega) (by omega) hx2; omega
  · exact c4 _ _ (by omega) (by omega) hx2
  · have := c2 _ _ (by omega) (by omega) hx2; omega

/-! ### the other strand -/

/-- the `k`-mer of the reverse complement at the mirrored coordinate -/
theorem kmerAt_rc {s : List UInt8} (hb : AllBase s) {a : Nat} (ha : a + k ≤ s.length) :
    kmerAt k (rcSeq s) a = rcKmerAt k s (s.length - k - a) ∧
    rcKmerAt k (rcSeq s) a = kmerAt k s (s.length - k - a) := by
  unfold kmerAt rcKmerAt
  have e : win (rcSeq s) a k = rcSeq (win s (s.length - k - a) k) := rcSeq_win' rfl ha
  rw [e, cds_rcSeq (hb.win _ _), rcCodes_rcCodes]
  exact ⟨rfl, rfl⟩

/-- the four blocking k-mers of a sample at a site, seen from the other strand -/
theorem mirror_kmers (pf : PFam k L S P) (hk5 : 5 ≤ k) {q : Nat} (hq : q ∈ P) {s : List UInt8} (hs : s ∈ S) :
    kmerAt k (rcSeq s) (L - 1 - q - k + 1) = rcKmerAt k s q ∧
    rcKmerAt k (rcSeq s) (L - 1 - q - k + 1) = kmerAt k s q ∧
    kmerAt k (rcSeq s) (L - 1 - q) = rcKmerAt k s (q - k + 1) ∧
    rcKmerAt k (rcSeq s) (L - 1 - q) = kmerAt k s (q - k + 1) := by
  have hqe := pf.ends q hq
  have hL := pf.len hs
  obtain ⟨a1, a2⟩ := kmerAt_rc (k := k) (pf.base hs) (a := L - 1 - q - k + 1) (by rw [hL]; omega)
  obtain ⟨b1, b2⟩ := kmerAt_rc (k := k) (pf.base hs) (a := L - 1 - q) (by rw [hL]; omega)
  rw [hL, show L - k - (L - 1 - q - k + 1) = q by omega] at a1 a2
  rw [hL, show L - k - (L - 1 - q) = q - k + 1 by omega] at b1 b2
  exact ⟨a1, a2, b1, b2⟩

/-- the blocking k-mers of a site and of its mirror image coincide -/
theorem blk_mirror (pf : PFam k L S P) (hk5 : 5 ≤ k) {q : Nat} (hq : q ∈ P) (x : Nat) :
    Blk k (rcFam S) (L - 1 - q) x ↔ Blk k S q x := by
  constructor
  · rintro ⟨t', ht', hx⟩
    obtain ⟨s, hs, rfl⟩ := List.mem_map.mp ht'
    obtain ⟨e1, e2, e3, e4⟩ := mirror_kmers pf hk5 hq hs
    rw [e1, e2, e3, e4] at hx
    refine ⟨s, hs, ?_⟩
    rcases hx with h | h | h | h
    · exact Or.inr (Or.inr (Or.inr h))
    · exact Or.inr (Or.inr (Or.inl h))
    · exact Or.inr (Or.inl h)
    · exact Or.inl h
  · rintro ⟨s, hs, hx⟩
    obtain ⟨e1, e2, e3, e4⟩ := mirror_kmers pf hk5 hq hs
    refine ⟨rcSeq s, List.mem_map.mpr ⟨s, hs, rfl⟩, ?_⟩
    rw [e1, e2, e3, e4]
    rcases hx with h | h | h | h
    · exact Or.inr (Or.inr (Or.inr h))
    · exact Or.inr (Or.inr (Or.inl h))
    · exact Or.inr (Or.inl h)
    · exact Or.inl h

/-- the column of the mirrored site on the other strand is the complemented column -/
theorem colT_mirror (pf : PFam k L S P) {q : Nat} (hq : q ∈ P) :
    colT (rcFam S) (L - 1 - q) = complCol (colT S q) := by
  have hqe := pf.ends q hq
  unfold colT complCol rcFam
  rw [List.map_map, List.map_map]
  apply List.map_congr_left
  intro s hs
  simp only [Function.comp]
  rw [rcSeq_getD (by rw [pf.len hs]; omega), pf.len hs, show L - 1 - (L - 1 - q) = q by omega]

end SkaModel.LOC
