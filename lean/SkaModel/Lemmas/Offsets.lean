/-
Helper lemmas for `Props/C11Offsets.lean`: `zipIdx` with an explicit start index,
mapped to `SampleDict`s, commutes with `take`/`drop`/`++`.
-/
import SkaModel.Impl.BuildAndMerge

namespace SkaModel.OFF

open SkaModel

/-- the raw samples `l` placed at slots `n, n+1, …` -/
def idxd (k : Nat) (rc : Bool) (l : List RawSample) (n : Nat) : List SampleDict :=
  (l.zipIdx n).map (fun ri => ri.1.at k rc ri.2)

theorem idxd_nil (k : Nat) (rc : Bool) (n : Nat) : idxd k rc [] n = [] := rfl

theorem idxd_cons (k : Nat) (rc : Bool) (a : RawSample) (l : List RawSample) (n : Nat) :
    idxd k rc (a :: l) n = a.at k rc n :: idxd k rc l (n + 1) := by
  simp [idxd, List.zipIdx_cons]

theorem length_idxd (k : Nat) (rc : Bool) (l : List RawSample) (n : Nat) : (idxd k rc l n).length = l.length := by
  simp [idxd]

theorem idxd_append (k : Nat) (rc : Bool) (a b : List RawSample) (n : Nat) :
    idxd k rc (a ++ b) n = idxd k rc a n ++ idxd k rc b (n + a.length) := by
  simp [idxd, List.zipIdx_append]

theorem idxd_take (k : Nat) (rc : Bool) (l : List RawSample) : ∀ (n m : Nat),
    (idxd k rc l n).take m = idxd k rc (l.take m) n := by
  induction l with
  | nil => intro n m; simp [idxd_nil]
  | cons a l ih =>
    intro n m
    cases m with
    | zero => simp [idxd_nil]
    | succ m => simp only [idxd_cons, List.take_succ_cons, ih]

theorem idxd_drop (k : Nat) (rc : Bool) (l : List RawSample) : ∀ (n m : Nat),
    (idxd k rc l n).drop m = idxd k rc (l.drop m) (n + m) := by
  induction l with
  | nil => intro n m; simp [idxd_nil]
  | cons a l ih =>
    intro n m
    cases m with
    | zero => simp
    | succ m =>
      simp only [idxd_cons, List.drop_succ_cons, ih]
      congr 1
      omega

/-- the form used by `multiAppendOff` (`idx + offset`) -/
theorem map_add_eq_idxd (k : Nat) (rc : Bool) (offset : Nat) (l : List RawSample) : ∀ (n : Nat),
    (l.zipIdx n).map (fun ri => ri.1.at k rc (ri.2 + offset)) = idxd k rc l (n + offset) := by
  induction l with
  | nil => intro n; rfl
  | cons a l ih =>
    intro n
    rw [List.zipIdx_cons, List.map_cons, ih, idxd_cons]
    congr 2
    omega

theorem getElem_idxd (k : Nat) (rc : Bool) (l : List RawSample) : ∀ (n j : Nat) (h : j < (idxd k rc l n).length),
    (idxd k rc l n)[j] = (l[j]'(by rw [length_idxd] at h; exact h)).at k rc (n + j) := by
  induction l with
  | nil => intro n j h; simp [idxd_nil] at h
  | cons a l ih =>
    intro n j h
    cases j with
    | zero => simp [idxd_cons]
    | succ j =>
      simp only [idxd_cons, List.getElem_cons_succ]
      rw [ih]
      congr 1
      omega

theorem mem_idxd {k : Nat} {rc : Bool} {l : List RawSample} {n : Nat} {s : SampleDict} (h : s ∈ idxd k rc l n) :
    ∃ r ∈ l, ∃ i, s = r.at k rc i := by
  simp only [idxd, List.mem_map] at h
  obtain ⟨ri, hri, rfl⟩ := h
  exact ⟨ri.1, (List.mem_zipIdx hri).2.2 ▸ List.getElem_mem _, ri.2, rfl⟩

end SkaModel.OFF
