/-
Bridge between the writer specification (`writerChar`/`writerSpec`, on the match list
and the absolute repeat coordinates) and the mapping specification
(`mapCharAt`/`mapSeq`, on matched centres and repeat centres of a contig).
-/
import SkaModel.Lemmas.RMRepeats

namespace SkaModel.RM

open SkaModel SkaModel.Spec SkaModel.Props.C16 SkaModel.Props.C01

/-! ### repeat coordinates in terms of the specification -/

/-- `q` is an absolute index within `h` of a repeat centre (on the centre's contig) -/
def IsRepAbs (k : Nat) (rc : Bool) (ref : List (Array UInt8)) (q : Nat) : Prop :=
  ∃ c contig, ref[c]? = some contig ∧
    ∃ p ∈ repeatCentres k rc (refKeys k rc ref) contig,
      ∃ pos, within (halfK k) pos p = true ∧ q = contigOffset ref c + pos

theorem mem_repeatCentres (k : Nat) (rc : Bool) (keys : List Nat) (c : Array UInt8) (p : Nat) :
    p ∈ repeatCentres k rc keys c ↔
      (halfK k ≤ p ∧ (p - halfK k) ∈ windows k c) ∧ 2 ≤ keys.count (obs k rc c (p - halfK k)).1 := by
  unfold repeatCentres
  rw [List.mem_filter, mem_centres, isCentre_iff, decide_eq_true_eq, count_eq_filter]
  rfl

theorem within_iff (h p q : Nat) : within h p q = true ↔ p ≤ q + h ∧ q ≤ p + h := by
  unfold within
  rw [Bool.and_eq_true, decide_eq_true_eq, decide_eq_true_eq]

theorem kmersFrom_bounds (k : Nat) (rc : Bool) (hk : ValidK k) (ref : List (Array UInt8)) :
    ∀ rk ∈ kmersFrom k rc 0 ref,
      halfK k ≤ rk.pos ∧ rk.pos < ((upperRef ref).getD rk.chrom #[]).size := by
  intro rk hrk
  rw [mem_kmersFrom] at hrk
  obtain ⟨i, c, j, hi, hj, rfl⟩ := hrk
  have hw := (mem_windows k c j).mp hj
  have hk2 : k = 2 * halfK k + 1 := by unfold ValidK at hk; unfold halfK; omega
  refine ⟨Nat.le_add_left _ _, ?_⟩
  show j + halfK k < ((upperRef ref).getD (0 + i) #[]).size
  rw [upperRef_getD_size, Nat.zero_add, List.getD_eq_getElem?_getD, hi]
  show j + halfK k < c.size
  omega

/-- **repeat coordinates** (`repeat_mask = true`) are exactly the indices within `h` of a repeat centre -/
theorem mem_newReps (k : Nat) (rc : Bool) (hk : ValidK k) (ref : List (Array UInt8)) (q : Nat) :
    q ∈ newReps k rc ref true ↔ IsRepAbs k rc ref q := by
  unfold newReps
  rw [if_pos rfl]
  rw [(repeatCoorsOf_spec (halfK k) (upperRef ref) _ _ (kmersFrom_pairwise k rc 0 ref)
    (kmersFrom_bounds k rc hk ref)).1 q]
  unfold IsRepAbs
  constructor
  · rintro ⟨rk, hrk, hrep, h1, h2⟩
    rw [mem_kmersFrom] at hrk
    obtain ⟨i, c, j, hi, hj, rfl⟩ := hrk
    have hcount : 2 ≤ (refKeys k rc ref).count (obs k rc c j).1 :=
      (mem_repeatsOf _ _).mp (List.contains_iff_mem.mp hrep)
    have h1' : contigOffset ref i + (j + halfK k) ≤ q + halfK k := by
      have := h1; unfold absPos at this
      rw [contigOffset_upperRef] at this
      simpa [mkRK] using this
    have h2' : q ≤ contigOffset ref i + (j + halfK k) + halfK k := by
      have := h2; unfold absPos at this
      rw [contigOffset_upperRef] at this
      simpa [mkRK] using this
    refine ⟨i, c, hi, j + halfK k, ?_, q - contigOffset ref i, ?_, by omega⟩
    · rw [mem_repeatCentres, Nat.add_sub_cancel]
      exact ⟨⟨Nat.le_add_left _ _, hj⟩, hcount⟩
    · rw [within_iff]; omega
  · rintro ⟨i, c, hi, p, hp, pos, hw, rfl⟩
    rw [mem_repeatCentres] at hp
    obtain ⟨⟨hp1, hp2⟩, hp3⟩ := hp
    rw [within_iff] at hw
    refine ⟨mkRK k rc (0 + i) c (p - halfK k), ?_, ?_, ?_, ?_⟩
    · rw [mem_kmersFrom]; exact ⟨i, c, p - halfK k, hi, hp2, rfl⟩
    · exact List.contains_iff_mem.mpr ((mem_repeatsOf _ _).mpr hp3)
    · unfold absPos
      rw [contigOffset_upperRef]
      show contigOffset ref (0 + i) + (p - halfK k + halfK k) ≤ _
      rw [Nat.zero_add]; omega
    · unfold absPos
      rw [contigOffset_upperRef]
      show _ ≤ contigOffset ref (0 + i) + (p - halfK k + halfK k) + halfK k
      rw [Nat.zero_add]; omega

theorem newReps_pairwise (k : Nat) (rc : Bool) (hk : ValidK k) (ref : List (Array UInt8)) (rmask : Bool) :
    (newReps k rc ref rmask).Pairwise (· < ·) := by
  unfold newReps
  cases rmask
  · exact List.Pairwise.nil
  · rw [if_pos rfl]
    exact (repeatCoorsOf_spec (halfK k) (upperRef ref) _ _ (kmersFrom_pairwise k rc 0 ref)
      (kmersFrom_bounds k rc hk ref)).2

theorem newReps_false (k : Nat) (rc : Bool) (ref : List (Array UInt8)) : newReps k rc ref false = [] := rfl

/-- a repeat centre's range stays inside its contig -/
theorem repeatCentre_range (k : Nat) (rc : Bool) (hk : ValidK k) (keys : List Nat) (c : Array UInt8) (p : Nat)
    (hp : p ∈ repeatCentres k rc keys c) : halfK k ≤ p ∧ p + halfK k < c.size := by
  rw [mem_repeatCentres] at hp
  obtain ⟨⟨hp1, hp2⟩, _⟩ := hp
  have hw := (mem_windows k c _).mp hp2
  have hk2 : k = 2 * halfK k + 1 := by unfold ValidK at hk; unfold halfK; omega
  exact ⟨hp1, by omega⟩

/-- the writer's repeat test at position `p` of contig `c` is the specification's -/
theorem reps_bridge (k : Nat) (rc : Bool) (hk : ValidK k) (ref : List (Array UInt8)) (rmask : Bool)
    (c : Nat) (contig : Array UInt8) (hc : ref[c]? = some contig) (p : Nat) (hp : p < contig.size) :
    (newReps k rc ref rmask).contains (contigOffset (upperRef ref) c + p)
      = (rmask && (repeatCentres k rc (refKeys k rc ref) contig).any (within (halfK k) p)) := by
  cases rmask
  · rfl
  · rw [Bool.true_and, Bool.eq_iff_iff, List.contains_iff_mem, mem_newReps k rc hk, List.any_eq_true,
      contigOffset_upperRef]
    constructor
    · rintro ⟨c', contig', hc', p', hp', pos, hw, he⟩
      have hr := repeatCentre_range k rc hk _ _ _ hp'
      have hw' := (within_iff _ _ _).mp hw
      have hsz : pos < (ref.getD c' #[]).size := by
        rw [List.getD_eq_getElem?_getD, hc']; show pos < contig'.size; omega
      have hsz0 : p < (ref.getD c #[]).size := by
        rw [List.getD_eq_getElem?_getD, hc]; exact hp
      obtain ⟨e1, e2⟩ := contigOffset_inj ref hsz0 hsz he
      subst e1 e2
      rw [hc] at hc'
      cases hc'
      exact ⟨p', hp', hw⟩
    · rintro ⟨p', hp', hw⟩
      exact ⟨c, contig, hc, p', hp', p, hw, rfl⟩

/-! ### matched centres -/

section
variable (k : Nat) (rc : Bool) (d : MDict) (hgs : rc = true → GapSafe d) (s : Nat) (ref : List (Array UInt8))

/-- the dictionary as the function the specification takes -/
abbrev dictOf (d : MDict) : Nat → Option (List UInt8) := fun key => Assoc.lookup d.kmers key

/-- the match list of sample `s` -/
abbrev msOf (k : Nat) (rc : Bool) (d : MDict) (s : Nat) (ref : List (Array UInt8)) : List Match :=
  (kmersFrom k rc 0 ref).filterMap (matchOf d s)

include hgs in
theorem find_bridge (c : Nat) (contig : Array UInt8) (hc : ref[c]? = some contig) (p : Nat) :
    ((msOf k rc d s ref).find? (fun m => m.1 == c && m.2.1 == p)).map (·.2.2)
      = ((matchedCentres k rc (dictOf d) contig s).find? (·.1 == p)).map (·.2) := by
  cases hfm : (matchedCentres k rc (dictOf d) contig s).find? (·.1 == p) with
  | none =>
    rw [List.find?_eq_none] at hfm
    have : (msOf k rc d s ref).find? (fun m => m.1 == c && m.2.1 == p) = none := by
      rw [List.find?_eq_none]
      intro m hm hP
      rw [Bool.and_eq_true, beq_iff_eq, beq_iff_eq] at hP
      rw [mem_ms k rc d hgs] at hm
      obtain ⟨c', hc', hmb⟩ := hm
      rw [hP.1, hc] at hc'
      cases hc'
      rw [hP.2] at hmb
      exact hfm (p, m.2.2) ((mem_matchedCentres k rc _ contig s (p, m.2.2)).mpr hmb) (by simp)
    rw [this]; rfl
  | some m' =>
    have hm'mem := List.mem_of_find?_eq_some hfm
    have hm'p : m'.1 = p := by simpa using List.find?_some hfm
    rw [mem_matchedCentres, hm'p] at hm'mem
    have hin : (c, p, m'.2) ∈ msOf k rc d s ref := (mem_ms k rc d hgs s ref _).mpr ⟨contig, hc, hm'mem⟩
    cases hfw : (msOf k rc d s ref).find? (fun m => m.1 == c && m.2.1 == p) with
    | none =>
      rw [List.find?_eq_none] at hfw
      exact absurd (by simp) (hfw _ hin)
    | some m =>
      have hmmem := List.mem_of_find?_eq_some hfw
      have hP := List.find?_some hfw
      rw [Bool.and_eq_true, beq_iff_eq, beq_iff_eq] at hP
      rw [mem_ms k rc d hgs] at hmmem
      obtain ⟨c', hc', hmb⟩ := hmmem
      rw [hP.1, hc] at hc'
      cases hc'
      rw [hP.2, hm'mem] at hmb
      have e : m'.2 = m.2.2 := by injection hmb
      show some m.2.2 = some m'.2
      rw [e]

include hgs in
theorem any_bridge (c : Nat) (contig : Array UInt8) (hc : ref[c]? = some contig) (p : Nat) :
    (msOf k rc d s ref).any (fun m => m.1 == c && decide (p ≤ m.2.1 + halfK k) && decide (m.2.1 ≤ p + halfK k))
      = (matchedCentres k rc (dictOf d) contig s).any (fun m => within (halfK k) p m.1) := by
  rw [Bool.eq_iff_iff, List.any_eq_true, List.any_eq_true]
  constructor
  · rintro ⟨m, hm, hP⟩
    rw [Bool.and_eq_true, Bool.and_eq_true, beq_iff_eq, decide_eq_true_eq, decide_eq_true_eq] at hP
    rw [mem_ms k rc d hgs] at hm
    obtain ⟨c', hc', hmb⟩ := hm
    rw [hP.1.1, hc] at hc'
    cases hc'
    refine ⟨(m.2.1, m.2.2), (mem_matchedCentres k rc _ contig s _).mpr hmb, ?_⟩
    rw [within_iff]; exact ⟨hP.1.2, hP.2⟩
  · rintro ⟨m', hm', hw⟩
    rw [mem_matchedCentres] at hm'
    rw [within_iff] at hw
    refine ⟨(c, m'.1, m'.2), (mem_ms k rc d hgs s ref _).mpr ⟨contig, hc, hm'⟩, ?_⟩
    rw [Bool.and_eq_true, Bool.and_eq_true, beq_iff_eq, decide_eq_true_eq, decide_eq_true_eq]
    exact ⟨⟨rfl, hw.1⟩, hw.2⟩

/-- the base before repeat masking -/
def wBase (ref : List (Array UInt8)) (h : Nat) (maskAmbig : Bool) (ms : List Match) (c p : Nat) : UInt8 :=
  match ms.find? (fun m => m.1 == c && m.2.1 == p) with
  | some m => if isAmbiguous m.2.2 && maskAmbig then 78 else m.2.2
  | none =>
    if ms.any (fun m => m.1 == c && decide (p ≤ m.2.1 + h) && decide (m.2.1 ≤ p + h))
    then (ref.getD c #[]).getD p 0 else 45

def mBase (h : Nat) (ambigMask : Bool) (contig : Array UInt8) (matched : List (Nat × UInt8)) (p : Nat) : UInt8 :=
  match matched.find? (·.1 == p) with
  | some m => if ambigMask && isAmbiguous m.2 then 78 else m.2
  | none => if matched.any (fun m => within h p m.1) then upperByte (contig.getD p 0) else 45

theorem writerChar_eq (ref : List (Array UInt8)) (h : Nat) (maskAmbig : Bool) (reps : List Nat)
    (ms : List Match) (c p : Nat) :
    writerChar ref h maskAmbig reps ms c p =
      if wBase ref h maskAmbig ms c p != 45 && reps.contains (contigOffset ref c + p) then 78
      else wBase ref h maskAmbig ms c p := rfl

theorem mapCharAt_eq (h : Nat) (ambigMask repeatMask : Bool) (contig : Array UInt8)
    (matched : List (Nat × UInt8)) (reps : List Nat) (p : Nat) :
    mapCharAt h ambigMask repeatMask contig matched reps p =
      if repeatMask && mBase h ambigMask contig matched p != 45 && reps.any (within h p) then 78
      else mBase h ambigMask contig matched p := rfl

include hgs in
theorem base_bridge (amask : Bool) (c : Nat) (contig : Array UInt8) (hc : ref[c]? = some contig) (p : Nat) :
    wBase (upperRef ref) (halfK k) amask (msOf k rc d s ref) c p
      = mBase (halfK k) amask contig (matchedCentres k rc (dictOf d) contig s) p := by
  have hf := find_bridge k rc d hgs s ref c contig hc p
  have ha := any_bridge k rc d hgs s ref c contig hc p
  unfold wBase mBase
  rw [ha]
  cases hfw : (msOf k rc d s ref).find? (fun m => m.1 == c && m.2.1 == p) with
  | none =>
    cases hfm : (matchedCentres k rc (dictOf d) contig s).find? (·.1 == p) with
    | none =>
      simp only
      rw [upperRef_getD_getD, List.getD_eq_getElem?_getD, hc]
      rfl
    | some m' => rw [hfw, hfm] at hf; cases hf
  | some m =>
    cases hfm : (matchedCentres k rc (dictOf d) contig s).find? (·.1 == p) with
    | none => rw [hfw, hfm] at hf; cases hf
    | some m' =>
      rw [hfw, hfm] at hf
      simp only [Option.map_some, Option.some.injEq] at hf
      simp only
      rw [hf, Bool.and_comm]

include hgs in
/-- **character bridge** -/
theorem char_bridge (hk : ValidK k) (amask rmask : Bool) (c : Nat) (contig : Array UInt8)
    (hc : ref[c]? = some contig) (p : Nat) (hp : p < contig.size) :
    writerChar (upperRef ref) (halfK k) amask (newReps k rc ref rmask) (msOf k rc d s ref) c p
      = mapCharAt (halfK k) amask rmask contig (matchedCentres k rc (dictOf d) contig s)
          (if rmask then repeatCentres k rc (refKeys k rc ref) contig else []) p := by
  rw [writerChar_eq, mapCharAt_eq, base_bridge k rc d hgs s ref amask c contig hc p,
    reps_bridge k rc hk ref rmask c contig hc p hp]
  cases rmask
  · simp
  · simp only [if_true, Bool.true_and]

end

/-! ### whole sequences -/

theorem flatMap_zipIdx_congr {α β : Type} (F : α → List β) (G : α × Nat → List β) :
    ∀ (l : List α) (n : Nat), (∀ i a, l[i]? = some a → G (a, n + i) = F a) →
      (l.zipIdx n).flatMap G = l.flatMap F := by
  intro l
  induction l with
  | nil => intros; rfl
  | cons a l ih =>
    intro n h
    have h0 := h 0 a rfl
    rw [Nat.add_zero] at h0
    rw [List.zipIdx_cons, List.flatMap_cons, List.flatMap_cons, ih (n + 1), h0]
    intro i b hb
    rw [show n + 1 + i = n + (i + 1) by omega]
    exact h (i + 1) b (by simpa using hb)

/-- **sequence bridge**: the writer specification on the match list of sample `s` and
the repeat coordinates of `RefSka.new` is the mapping specification -/
theorem seq_bridge (k : Nat) (rc : Bool) (hk : ValidK k) (d : MDict) (hgs : rc = true → GapSafe d) (s : Nat)
    (ref : List (Array UInt8)) (amask rmask : Bool) :
    writerSpec (upperRef ref) (halfK k) amask (newReps k rc ref rmask) (msOf k rc d s ref)
      = mapSeq k rc (dictOf d) ref amask rmask s := by
  unfold writerSpec mapSeq
  unfold upperRef
  rw [List.zipIdx_map, List.flatMap_map]
  apply flatMap_zipIdx_congr
  intro i contig hi
  rw [Nat.zero_add]
  show List.map _ (List.range (contig.map toUpper).size) = _
  rw [Array.size_map]
  apply List.map_congr_left
  intro p hp
  rw [List.mem_range] at hp
  exact char_bridge k rc d hgs s ref hk amask rmask i contig hi p hp

end SkaModel.RM
