/-
The two folds of `NtHash.new` as position-indexed xor sums, and the single-step
rolling identity.
-/
import SkaModel.Lemmas.NtHashRot
import SkaModel.Lemmas.Pack

namespace SkaModel.NH

open SkaModel

/-! ### seeds -/

theorem hashSeedAt_lt (c : Nat) : hashSeedAt c < 2 ^ 64 := by
  unfold hashSeedAt
  match c with
  | 0 => decide
  | 1 => decide
  | 2 => decide
  | 3 => decide
  | n + 4 => simp [Tables.hashSeed]

theorem rcHashSeedAt_lt (c : Nat) : rcHashSeedAt c < 2 ^ 64 := hashSeedAt_lt _

theorem rcHashSeedAt_xor2 (c : Nat) : rcHashSeedAt (c ^^^ 2) = hashSeedAt c := by
  unfold rcHashSeedAt; rw [xor2_xor2]

/-! ### position-indexed xor sums -/

/-- `g l[0] s ^^^ g l[1] (s+1) ^^^ …` -/
def xsum {α : Type} (g : α → Nat → Nat) : Nat → List α → Nat
  | _, [] => 0
  | s, x :: l => g x s ^^^ xsum g (s + 1) l

theorem foldl_zip_range' {α : Type} (g : α → Nat → Nat) (l : List α) (s a : Nat) :
    (l.zip (List.range' s l.length)).foldl (fun h vi => h ^^^ g vi.1 vi.2) a
      = a ^^^ xsum g s l := by
  induction l generalizing s a with
  | nil => simp [xsum]
  | cons x l ih =>
    simp only [List.length_cons, List.range'_succ, List.zip_cons_cons, List.foldl_cons, xsum]
    rw [ih, Nat.xor_assoc]

theorem foldl_zip_range {α : Type} (g : α → Nat → Nat) (l : List α) :
    (l.zip (List.range l.length)).foldl (fun h vi => h ^^^ g vi.1 vi.2) 0 = xsum g 0 l := by
  rw [List.range_eq_range', foldl_zip_range', Nat.zero_xor]

theorem xsum_append {α : Type} (g : α → Nat → Nat) (l m : List α) (s : Nat) :
    xsum g s (l ++ m) = xsum g s l ^^^ xsum g (s + l.length) m := by
  induction l generalizing s with
  | nil => simp [xsum]
  | cons x l ih =>
    simp only [List.cons_append, xsum, List.length_cons]
    rw [ih, Nat.xor_assoc, Nat.add_assoc, Nat.add_comm 1]

theorem xsum_singleton {α : Type} (g : α → Nat → Nat) (x : α) (s : Nat) :
    xsum g s [x] = g x s := by
  simp [xsum]

theorem xsum_map {α β : Type} (g : β → Nat → Nat) (f : α → β) (l : List α) (s : Nat) :
    xsum g s (l.map f) = xsum (fun a i => g (f a) i) s l := by
  induction l generalizing s with
  | nil => rfl
  | cons x l ih => simp only [List.map_cons, xsum, ih]

theorem xsum_lt {α : Type} (g : α → Nat → Nat) (hg : ∀ a i, g a i < 2 ^ 64) (l : List α) (s : Nat) :
    xsum g s l < 2 ^ 64 := by
  induction l generalizing s with
  | nil => simp [xsum]
  | cons x l ih => exact xor_lt (hg _ _) (ih _)

/-- pointwise rewriting on the positions the sum actually visits -/
theorem xsum_congr {α : Type} (g g' : α → Nat → Nat) (l : List α) (s : Nat)
    (h : ∀ a i, s ≤ i → i < s + l.length → g a i = g' a i) : xsum g s l = xsum g' s l := by
  induction l generalizing s with
  | nil => rfl
  | cons x l ih =>
    simp only [xsum]
    rw [h x s (Nat.le_refl _) (by simp), ih (s + 1) (fun a i h1 h2 => h a i (by omega)
      (by simp only [List.length_cons]; omega))]

/-- a map that distributes over xor, applied to a sum, with the positions shifted by one -/
theorem xsum_shift {α : Type} (r : Nat → Nat) (g g' : α → Nat → Nat)
    (hr0 : r 0 = 0)
    (hrx : ∀ x y, x < 2 ^ 64 → y < 2 ^ 64 → r (x ^^^ y) = r x ^^^ r y)
    (hg : ∀ a i, g a i < 2 ^ 64)
    (l : List α) (s : Nat)
    (h : ∀ a i, s ≤ i → i < s + l.length → r (g a (i + 1)) = g' a i) :
    r (xsum g (s + 1) l) = xsum g' s l := by
  induction l generalizing s with
  | nil => simpa [xsum] using hr0
  | cons x l ih =>
    simp only [xsum]
    rw [hrx _ _ (hg _ _) (xsum_lt g hg _ _), h x s (Nat.le_refl _) (by simp),
      ih (s + 1) (fun a i h1 h2 => h a i (by omega) (by simp only [List.length_cons]; omega))]

/-! ### the two components of `NtHash.new` -/

/-- term of the forward hash at position `i` of the window -/
def fterm (k : Nat) (b : UInt8) (i : Nat) : Nat := rotl64 (hashSeedAt (code b)) (k - i - 1)
/-- term of the reverse hash at position `i` of the reversed window -/
def rterm (k : Nat) (b : UInt8) (i : Nat) : Nat := rotl64 (rcHashSeedAt (code b)) (k - i - 1)

theorem fterm_lt (k : Nat) (b : UInt8) (i : Nat) : fterm k b i < 2 ^ 64 :=
  rotl64_lt (hashSeedAt_lt _) _
theorem rterm_lt (k : Nat) (b : UInt8) (i : Nat) : rterm k b i < 2 ^ 64 :=
  rotl64_lt (rcHashSeedAt_lt _) _

theorem new_fh (w : List UInt8) (k : Nat) (rc : Bool) :
    (NtHash.new w k rc).fh = xsum (fterm k) 0 w := by
  unfold NtHash.new
  exact foldl_zip_range (fterm k) w

theorem new_rh_true (w : List UInt8) (k : Nat) :
    (NtHash.new w k true).rh = some (xsum (rterm k) 0 w.reverse) := by
  unfold NtHash.new
  simp only [if_true]
  congr 1
  have := foldl_zip_range (rterm k) w.reverse
  rw [List.length_reverse] at this
  exact this

theorem new_rh_false (w : List UInt8) (k : Nat) : (NtHash.new w k false).rh = none := rfl

theorem new_k (w : List UInt8) (k : Nat) (rc : Bool) : (NtHash.new w k rc).k = k := rfl

theorem NtHash.ext' {a b : NtHash} (hk : a.k = b.k) (hf : a.fh = b.fh) (hr : a.rh = b.rh) : a = b := by
  cases a; cases b; simp_all

/-! ### one rolling step -/

theorem xor_cancel_mid (a X c : Nat) : (a ^^^ X) ^^^ a ^^^ c = X ^^^ c := by
  rw [Nat.xor_comm a X, Nat.xor_assoc X a a, Nat.xor_self, Nat.xor_zero]

/-- forward component: `rotl(fh,1) ^ rotl(seed old, k) ^ seed new` -/
theorem roll_fh (b0 : UInt8) (rest : List UInt8) (b : UInt8) (k : Nat)
    (hk : (b0 :: rest).length = k) :
    rotl64 (xsum (fterm k) 0 (b0 :: rest)) 1 ^^^ rotl64 (hashSeedAt (code b0)) k
        ^^^ hashSeedAt (code b)
      = xsum (fterm k) 0 (rest ++ [b]) := by
  simp only [List.length_cons] at hk
  have hshift : rotl64 (xsum (fterm k) (0 + 1) rest) 1 = xsum (fterm k) 0 rest := by
    refine xsum_shift (fun x => rotl64 x 1) (fterm k) (fterm k) (rotl64_zero_left 1)
      (fun x y hx hy => rotl64_xor hx hy 1) (fterm_lt k) rest 0 (fun a i _ hi => ?_)
    show rotl64 (rotl64 _ _) 1 = rotl64 _ _
    rw [rotl64_rotl64 (hashSeedAt_lt _)]
    congr 1; omega
  have hhead : rotl64 (fterm k b0 0) 1 = rotl64 (hashSeedAt (code b0)) k := by
    show rotl64 (rotl64 _ _) 1 = _
    rw [rotl64_rotl64 (hashSeedAt_lt _)]
    congr 1; omega
  have hlast : fterm k b (0 + rest.length) = hashSeedAt (code b) := by
    show rotl64 _ _ = _
    exact rotl64_of_mod_zero (hashSeedAt_lt _) (by
      have : k - (0 + rest.length) - 1 = 0 := by omega
      rw [this])
  rw [xsum_append, xsum_singleton, hlast]
  simp only [xsum]
  rw [rotl64_xor (fterm_lt _ _ _) (xsum_lt _ (fterm_lt k) _ _), hhead, hshift, xor_cancel_mid]

theorem xsum_apply {α : Type} (r : Nat → Nat) (g : α → Nat → Nat)
    (hr0 : r 0 = 0)
    (hrx : ∀ x y, x < 2 ^ 64 → y < 2 ^ 64 → r (x ^^^ y) = r x ^^^ r y)
    (hg : ∀ a i, g a i < 2 ^ 64) (l : List α) (s : Nat) :
    r (xsum g s l) = xsum (fun a i => r (g a i)) s l := by
  induction l generalizing s with
  | nil => simpa [xsum] using hr0
  | cons x l ih =>
    simp only [xsum]
    rw [hrx _ _ (hg _ _) (xsum_lt g hg _ _), ih]

theorem xsum_succ {α : Type} (g : α → Nat → Nat) (l : List α) (s : Nat) :
    xsum g (s + 1) l = xsum (fun a i => g a (i + 1)) s l := by
  induction l generalizing s with
  | nil => rfl
  | cons x l ih => simp only [xsum, ih]

theorem xor_cancel_end (X a c : Nat) : (X ^^^ a) ^^^ a ^^^ c = c ^^^ X := by
  rw [Nat.xor_assoc X a a, Nat.xor_self, Nat.xor_zero, Nat.xor_comm]

/-- reverse component: `rotr(rh,1) ^ rotr(rcseed old,1) ^ rotl(rcseed new,k-1)` -/
theorem roll_rh (b0 : UInt8) (rest : List UInt8) (b : UInt8) (k : Nat)
    (hk : (b0 :: rest).length = k) :
    rotr64 (xsum (rterm k) 0 (b0 :: rest).reverse) 1 ^^^ rotr64 (rcHashSeedAt (code b0)) 1
        ^^^ rotl64 (rcHashSeedAt (code b)) (k - 1)
      = xsum (rterm k) 0 (rest ++ [b]).reverse := by
  simp only [List.length_cons] at hk
  have hshift : rotr64 (xsum (rterm k) 0 rest.reverse) 1 = xsum (rterm k) (0 + 1) rest.reverse := by
    rw [xsum_apply (fun x => rotr64 x 1) (rterm k) (rotr64_zero_left 1)
      (fun x y hx hy => rotr64_xor hx hy 1) (rterm_lt k), xsum_succ]
    refine xsum_congr _ _ _ _ (fun a i _ hi => ?_)
    rw [List.length_reverse] at hi
    show rotr64 (rotl64 _ _) 1 = rotl64 _ _
    have e : k - i - 1 = (k - (i + 1) - 1) + 1 := by omega
    rw [e, rotr64_one_rotl64_succ (rcHashSeedAt_lt _)]
  have hlast : rterm k b0 (0 + rest.reverse.length) = rcHashSeedAt (code b0) := by
    show rotl64 _ _ = _
    exact rotl64_of_mod_zero (rcHashSeedAt_lt _) (by
      have : k - (0 + rest.reverse.length) - 1 = 0 := by rw [List.length_reverse]; omega
      rw [this])
  have hfirst : rterm k b 0 = rotl64 (rcHashSeedAt (code b)) (k - 1) := by
    show rotl64 _ _ = _
    rw [Nat.sub_zero]
  rw [List.reverse_cons, xsum_append, xsum_singleton, hlast,
    rotr64_xor (xsum_lt _ (rterm_lt k) _ _) (rcHashSeedAt_lt _), hshift, xor_cancel_end,
    List.reverse_append, List.reverse_singleton, List.singleton_append]
  simp only [xsum]
  rw [hfirst]

theorem roll_fh_eq (s : NtHash) (o n : Nat) :
    (s.roll o n).fh = rotl64 s.fh 1 ^^^ rotl64 (hashSeedAt o) s.k ^^^ hashSeedAt n := rfl

theorem roll_rh_eq (s : NtHash) (o n : Nat) :
    (s.roll o n).rh = s.rh.map (fun rev =>
      rotr64 rev 1 ^^^ rotr64 (rcHashSeedAt o) 1 ^^^ rotl64 (rcHashSeedAt n) (s.k - 1)) := rfl

/-- `T16_hash_roll` on the model's own structure: rolling the hash of a window by
one base gives the hash of the next window -/
theorem new_roll (b0 : UInt8) (rest : List UInt8) (b : UInt8) (k : Nat) (rc : Bool)
    (hk : (b0 :: rest).length = k) :
    (NtHash.new (b0 :: rest) k rc).roll (code b0) (code b) = NtHash.new (rest ++ [b]) k rc := by
  apply NtHash.ext'
  · rfl
  · rw [roll_fh_eq, new_k, new_fh, new_fh, roll_fh b0 rest b k hk]
  · cases rc with
    | false => rfl
    | true =>
      rw [roll_rh_eq, new_k, new_rh_true, new_rh_true, Option.map_some]
      congr 1
      exact roll_rh b0 rest b k hk

/-! ### strand symmetry -/

theorem new_curr_true (w : List UInt8) (k : Nat) :
    (NtHash.new w k true).curr = min (xsum (fterm k) 0 w) (xsum (rterm k) 0 w.reverse) := by
  unfold NtHash.curr
  rw [new_rh_true, new_fh]

theorem new_curr_false (w : List UInt8) (k : Nat) :
    (NtHash.new w k false).curr = xsum (fterm k) 0 w := by
  unfold NtHash.curr
  rw [new_rh_false, new_fh]

theorem strand (w : List UInt8) (comp : UInt8 → UInt8) (hc : ∀ b, code (comp b) = code b ^^^ 2)
    (k : Nat) :
    xsum (fterm k) 0 (w.reverse.map comp) = xsum (rterm k) 0 w.reverse ∧
    xsum (rterm k) 0 (w.reverse.map comp).reverse = xsum (fterm k) 0 w := by
  constructor
  · rw [xsum_map]
    refine xsum_congr _ _ _ _ (fun a i _ _ => ?_)
    show rotl64 (hashSeedAt (code (comp a))) _ = rotl64 (rcHashSeedAt (code a)) _
    rw [hc]; rfl
  · rw [← List.map_reverse, List.reverse_reverse, xsum_map]
    refine xsum_congr _ _ _ _ (fun a i _ _ => ?_)
    show rotl64 (rcHashSeedAt (code (comp a))) _ = rotl64 (hashSeedAt (code a)) _
    rw [hc, rcHashSeedAt_xor2]

end SkaModel.NH
