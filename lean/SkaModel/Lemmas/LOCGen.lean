/-
C17 completeness — a small deterministic generator of planted families (for `#eval` tests of every
statement before it is proved) and the Stage-0 test of the claim.
-/
import SkaModel.Lemmas.LOCDefs

namespace SkaModel.LOC

open SkaModel SkaModel.Skalo SkaModel.Spec

def lcg (x : Nat) : Nat := (x * 6364136223846793005 + 1442695040888963407) % 2 ^ 64

def baseOf (c : Nat) : UInt8 := if c % 4 = 0 then 65 else if c % 4 = 1 then 67 else if c % 4 = 2 then 71 else 84

/-- greedy ancestor of length `L` whose `m`-mers are unique on both strands; `none` when stuck -/
def genAncestor (m L seed : Nat) : Option (List UInt8) := Id.run do
  let mut s : List UInt8 := []
  let mut seen : List (List UInt8) := []
  let mut x := seed
  for _ in [0:L] do
    x := lcg x
    let r := x / 2 ^ 33
    let mut placed := false
    for t in [0:4] do
      if !placed then
        let b := baseOf (r + t)
        let s' := s ++ [b]
        if s'.length < m then
          s := s'; placed := true
        else
          let w := win s' (s'.length - m) m
          let palin := s'.length ≥ m + 1 &&
            win s' (s'.length - (m + 1)) (m / 2) == rcSeq (win s' (s'.length - m / 2) (m / 2))
          if !seen.contains w && w != rcSeq w && !palin then
            s := s'; seen := w :: rcSeq w :: seen; placed := true
    if !placed then return none
  return some s

structure Fam where
  k : Nat
  L : Nat
  A : List UInt8
  S : List (List UInt8)
  P : List Nat
  deriving Repr, Inhabited

/-- family: `nS` samples, sites `P`, `nA` alleles per site (2 or 3; one of them the ancestor's when `anc`) -/
def genFam (k nS nSites nA gap : Nat) (anc : Bool) (seed0 : Nat) (pal : Bool := false) : Option Fam := Id.run do
  let P := (List.range nSites).map (fun i => 2 * k + i * (2 * k + gap))
  let L := (P.getLastD 0) + 2 * k + 1 + gap
  let mut seed := seed0
  for _ in [0:3000] do
    seed := lcg seed
    match genAncestor (k - 1) L seed with
    | none => pure ()
    | some A =>
      -- alleles of sample `i` at site number `t`
      let mut x := seed
      let mut S : List (List UInt8) := List.replicate nS A
      for t in [0:nSites] do
        x := lcg x
        let p := P.getD t 0
        let a0 := A.getD p 0
        let r := x / 2 ^ 40
        -- the alleles at this site: the first rotation that keeps the family admissible
        let others := ([65, 67, 71, 84] : List UInt8).filter (· != a0)
        let off := (r / 3) % nS
        let mut found := false
        for q in [0:3] do
          if !found then
            let rot := others.rotateLeft ((r + q) % 3)
            let als := if anc then a0 :: rot.take (nA - 1) else rot.take nA
            let S' := S.zipIdx.map (fun si => si.1.set p (als.getD ((si.2 + off) % als.length) a0))
            if uniqueB (k - 1) (A :: S') && (pal || noPalinB k S') then
              S := S'; found := true
      if plantedB k L A S P && (pal || noPalinB k S) then return some { k := k, L := L, A := A, S := S, P := P }
  return none

def famNames (f : Fam) : List String := (List.range f.S.length).map (fun i => s!"s{i}")

def famArr (W : Nat) (f : Fam) : Arr := arrOf W f.k (famNames f) f.S

def strOfBytes (bs : List UInt8) : String := String.ofList (bs.map (fun b => Char.ofNat b.toNat))

/-- the claim on a generated family for one setting -/
def testOne (f : Fam) (mNum mDen ik maxDepth : Nat) : Bool :=
  completeOn 64 f.k f.S.length mNum mDen ik maxDepth (famArr 64 f) f.S f.P

/-- (planted, claim for depths 0, 1, 4 and several m) -/
def testFam (f : Fam) : Bool × Bool × List Bool :=
  (plantedB f.k f.L f.A f.S f.P, noPalinB f.k f.S,
   [testOne f 0 1 2 0, testOne f 1 10 2 0, testOne f 0 1 2 1, testOne f 1 2 0 1, testOne f 0 1 2 4, testOne f 1 1 5 4])

/-- the test families: (k, samples, sites, alleles, gap, ancestor allele kept, seed) -/
def famSpecs : List (Nat × Nat × Nat × Nat × Nat × Bool × Nat) :=
  [ (5, 2, 1, 2, 0, true, 1), (5, 2, 1, 2, 0, false, 2), (5, 3, 1, 3, 0, true, 3), (5, 3, 1, 3, 1, false, 4),
    (5, 4, 1, 2, 2, true, 5), (5, 2, 2, 2, 0, true, 6), (5, 3, 2, 2, 0, false, 7), (5, 3, 2, 3, 0, true, 8),
    (5, 4, 2, 3, 1, false, 9), (5, 4, 2, 2, 3, true, 10), (5, 2, 3, 2, 0, true, 11), (5, 3, 3, 2, 0, true, 12),
    (5, 3, 3, 3, 0, true, 13), (5, 4, 3, 3, 0, false, 14), (5, 4, 3, 2, 1, true, 15),
    (7, 2, 1, 2, 0, true, 16), (7, 2, 1, 2, 5, false, 17), (7, 3, 1, 3, 0, true, 18), (7, 4, 1, 3, 2, false, 19),
    (7, 2, 2, 2, 0, true, 20), (7, 3, 2, 2, 1, false, 21), (7, 3, 2, 3, 0, true, 22), (7, 4, 2, 3, 4, false, 23),
    (7, 4, 2, 2, 0, true, 24), (7, 2, 3, 2, 0, true, 25), (7, 3, 3, 2, 2, false, 26), (7, 3, 3, 3, 0, true, 27),
    (7, 4, 3, 3, 0, false, 28), (7, 4, 3, 2, 7, true, 29), (7, 4, 3, 3, 3, true, 30),
    (9, 3, 2, 3, 0, true, 31), (9, 4, 3, 2, 1, false, 32), (5, 4, 3, 3, 2, true, 33), (5, 2, 3, 2, 4, false, 34) ]

def famOf (sp : Nat × Nat × Nat × Nat × Nat × Bool × Nat) (pal : Bool := false) : Option Fam :=
  genFam sp.1 sp.2.1 sp.2.2.1 sp.2.2.2.1 sp.2.2.2.2.1 sp.2.2.2.2.2.1 sp.2.2.2.2.2.2 pal

end SkaModel.LOC
