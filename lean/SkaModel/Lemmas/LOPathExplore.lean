/-
`ska lo` graph stage: the path enumeration only reports walks of the original graph
(items 4 and 5 of `SkaModel/Props/C17Paths.lean`).
-/
import SkaModel.Lemmas.LOPathCompact

namespace SkaModel.LOG

open SkaModel SkaModel.Skalo SkaModel.Props.C17G

/-! ### `compactGraph` is sound -/

theorem chain1_last_two {g : Graph} (p : List Nat) (x b : Nat) (h : Chain1 g (p ++ [x, b])) :
    Assoc.lookup g x = some [b] := by
  rw [chain1_eq_chainR] at h
  exact (chainR_append_right [x, b] p h).1

theorem compactGraph_sound (g : Graph) (starts ends : List Nat) :
    Sound g (compactGraph g starts ends).1 (compactGraph g starts ends).2 := by
  refine ⟨?_, ?_, ?_, ?_⟩
  · intro a b h
    unfold expand interior
    rcases compactGraph_edge g starts ends a b h with ⟨h1, h2⟩ | ⟨I, h1, _, h3⟩
    · rw [h2]; exact ⟨h1, trivial⟩
    · rw [h1]; exact walk_of_chain1 h3
  · intro a
    unfold interior
    cases hl : Assoc.lookup (compactGraph g starts ends).2 a with
    | none => trivial
    | some I => exact walk_of_chain1 (compactGraph_interior g starts ends a I hl).2.1
  · intro a ha b c hb hc
    rcases compactGraph_edge g starts ends a b hb with ⟨_, h2⟩ | ⟨I, h1, hne, h3⟩
    · exact absurd h2 ha
    · rcases compactGraph_edge g starts ends a c hc with ⟨_, h2⟩ | ⟨I', h1', _, h3'⟩
      · exact absurd h2 ha
      · rw [h1] at h1'
        cases h1'
        have e := dropLast_append_getLastD 0 I hne
        rw [← e] at h3 h3'
        have hb' := chain1_last_two (a :: I.dropLast) (I.getLastD 0) b (by simpa using h3)
        have hc' := chain1_last_two (a :: I.dropLast) (I.getLastD 0) c (by simpa using h3')
        rw [hb'] at hc'
        simpa using hc'
  · intro a I h
    exact (compactGraph_interior g starts ends a I h).1

/-! ### item 4: `explore` -/

/-- one step of `explore` -/
theorem explore_mem {g : Graph} {comp : List (Nat × List Nat)} {ends : List Nat}
    {maxDepth fuel cur : Nat} {visited vec : List Nat} {depth : Nat} {ep : Nat × List Nat}
    (h : ep ∈ explore g comp ends maxDepth (fuel + 1) cur visited vec depth) :
    ∃ next, Edge g cur next ∧ next ∉ visited ∧
      ((ep = (next, vec ++ next :: interior comp next) ∧ next ∈ ends) ∨
        ∃ d, ep ∈ explore g comp ends maxDepth fuel next (visited ++ [next])
          (vec ++ next :: interior comp next) d) := by
  have key : ∀ next d, next ∈ List.filter (fun n => !visited.contains n) (succs g cur) →
      ep ∈ (if ends.contains next = true then [(next, vec ++ [next] ++ (Assoc.lookup comp next).getD [])] else []) ++
          explore g comp ends maxDepth fuel next (visited ++ [next])
            (vec ++ [next] ++ (Assoc.lookup comp next).getD []) d →
      ∃ next, Edge g cur next ∧ next ∉ visited ∧
      ((ep = (next, vec ++ next :: interior comp next) ∧ next ∈ ends) ∨
        ∃ d, ep ∈ explore g comp ends maxDepth fuel next (visited ++ [next])
          (vec ++ next :: interior comp next) d) := by
    intro next d hn hm
    rw [List.mem_filter] at hn
    refine ⟨next, hn.1, by simpa using hn.2, ?_⟩
    have e : vec ++ [next] ++ (Assoc.lookup comp next).getD [] = vec ++ next :: interior comp next := by
      unfold interior; simp
    rw [e] at hm
    rcases List.mem_append.1 hm with hm | hm
    · left
      by_cases he : ends.contains next = true
      · rw [if_pos he] at hm
        exact ⟨by simpa using hm, by simpa using he⟩
      · rw [if_neg he] at hm; simp at hm
    · right; exact ⟨d, hm⟩
  rw [explore] at h
  split at h
  · simp at h
  · simp only at h
    split at h
    · simp at h
    · rename_i next hg
      exact key next depth (by rw [hg]; simp) h
    · rw [List.mem_flatMap] at h
      obtain ⟨next, hn, hm⟩ := h
      exact key next (depth + 1) hn hm

/-- shape of the reported paths: they extend the current vector and end with the exit node
followed by the exit's interior -/
theorem explore_shape (g : Graph) (comp : List (Nat × List Nat)) (ends : List Nat) (maxDepth : Nat) :
    ∀ (fuel cur : Nat) (visited vec : List Nat) (depth : Nat) (ep : Nat × List Nat),
      ep ∈ explore g comp ends maxDepth fuel cur visited vec depth →
      ep.1 ∈ ends ∧ ∃ q, ep.2 = vec ++ q ++ ep.1 :: interior comp ep.1 := by
  intro fuel
  induction fuel with
  | zero => intro cur visited vec depth ep h; simp [explore] at h
  | succ fuel ih =>
    intro cur visited vec depth ep h
    obtain ⟨next, _, _, ⟨e, he⟩ | ⟨d, hd⟩⟩ := explore_mem h
    · rw [e]; exact ⟨he, [], by simp⟩
    · obtain ⟨h1, q, h2⟩ := ih next _ _ d ep hd
      exact ⟨h1, next :: interior comp next ++ q, by rw [h2]; simp⟩

/-- **item 4**: the reported paths are walks of the original graph -/
theorem explore_walk_aux {g g' : Graph} {comp : List (Nat × List Nat)} (hs : Sound g g' comp)
    (ends : List Nat) (maxDepth : Nat) :
    ∀ (fuel cur : Nat) (visited pre : List Nat) (depth : Nat) (ep : Nat × List Nat),
      Walk g (pre ++ [cur]) →
      ep ∈ explore g' comp ends maxDepth fuel cur visited (pre ++ cur :: interior comp cur) depth →
      Walk g ep.2 := by
  intro fuel
  induction fuel with
  | zero => intro cur visited pre depth ep _ h; simp [explore] at h
  | succ fuel ih =>
    intro cur visited pre depth ep hpre h
    obtain ⟨next, hedge, _, hcase⟩ := explore_mem h
    have hW : Walk g ((pre ++ cur :: interior comp cur) ++ [next]) := by
      have := walk_glue cur (interior comp cur ++ [next]) pre hpre (hs.step cur next hedge)
      simpa using this
    rcases hcase with ⟨e, _⟩ | ⟨d, hd⟩
    · rw [e]
      exact walk_glue next (interior comp next) _ hW (hs.inner next)
    · exact ih next _ _ d ep hW hd

end SkaModel.LOG
