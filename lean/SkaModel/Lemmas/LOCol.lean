import SkaModel.Lemmas.LOBasic
namespace SkaModel.LO
open SkaModel SkaModel.Skalo

/-- `complement_snp` on one entry -/
def compBase? (b : UInt8) : Option UInt8 :=
  if b == 65 then some 84 else if b == 84 then some 65 else if b == 67 then some 71
  else if b == 71 then some 67 else if b == 45 then some 45 else if b == 78 then some 78 else none

/-- total complement: A<->T, C<->G, everything else fixed -/
def comp (b : UInt8) : UInt8 :=
  if b == 65 then 84 else if b == 84 then 65 else if b == 67 then 71 else if b == 71 then 67 else b

theorem complementSnp_eq (col : List UInt8) : complementSnp col = col.mapM compBase? := rfl

theorem complementSnp_nil : complementSnp [] = some [] := rfl

theorem complementSnp_cons (b : UInt8) (col : List UInt8) :
    complementSnp (b :: col) = (compBase? b).bind (fun c => (complementSnp col).map (fun cs => c :: cs)) := by
  rw [complementSnp_eq, complementSnp_eq, List.mapM_cons]
  cases compBase? b <;> cases List.mapM compBase? col <;> rfl

def okBase (b : UInt8) : Prop := b = 65 ∨ b = 67 ∨ b = 71 ∨ b = 84 ∨ b = 45 ∨ b = 78

theorem compBase?_eq_some (b c : UInt8) : compBase? b = some c ↔ okBase b ∧ c = comp b := by
  unfold compBase? comp okBase
  by_cases h1 : b = 65 <;> by_cases h2 : b = 84 <;> by_cases h3 : b = 67 <;> by_cases h4 : b = 71 <;>
    by_cases h5 : b = 45 <;> by_cases h6 : b = 78 <;> simp_all <;> exact eq_comm

theorem comp_comp (b : UInt8) : comp (comp b) = b := by
  unfold comp
  by_cases h1 : b = 65 <;> by_cases h2 : b = 84 <;> by_cases h3 : b = 67 <;> by_cases h4 : b = 71 <;>
    simp_all

theorem okBase_comp (b : UInt8) (h : okBase b) : okBase (comp b) := by
  unfold okBase at h
  rcases h with h | h | h | h | h | h <;> subst h <;> unfold okBase <;> decide

theorem isACGT_comp (b : UInt8) : isACGT (comp b) = isACGT b := by
  unfold comp isACGT
  by_cases h1 : b = 65 <;> by_cases h2 : b = 84 <;> by_cases h3 : b = 67 <;> by_cases h4 : b = 71 <;>
    simp_all

/-- where defined, `complement_snp` is the pointwise total complement -/
theorem complementSnp_eq_some (col col' : List UInt8) :
    complementSnp col = some col' ↔ (∀ b ∈ col, okBase b) ∧ col' = col.map comp := by
  induction col generalizing col' with
  | nil =>
    rw [complementSnp_nil]
    simp [eq_comm]
  | cons b bs ih =>
    rw [complementSnp_cons]
    constructor
    · intro h
      cases hb : compBase? b with
      | none => rw [hb] at h; cases h
      | some c =>
        rw [hb] at h
        cases hbs : complementSnp bs with
        | none => rw [hbs] at h; cases h
        | some cs =>
          rw [hbs] at h
          have hc := (compBase?_eq_some b c).1 hb
          have hcs := (ih cs).1 hbs
          have e : c :: cs = col' := by simpa using h
          refine ⟨?_, ?_⟩
          · intro x hx
            rcases List.mem_cons.1 hx with rfl | hx
            · exact hc.1
            · exact hcs.1 x hx
          · rw [← e, hc.2, hcs.2]; rfl
    · rintro ⟨hok, rfl⟩
      have hb : compBase? b = some (comp b) :=
        (compBase?_eq_some b _).2 ⟨hok b List.mem_cons_self, rfl⟩
      have hbs : complementSnp bs = some (bs.map comp) :=
        (ih _).2 ⟨fun x hx => hok x (List.mem_cons_of_mem _ hx), rfl⟩
      rw [hb, hbs]
      rfl

theorem complementSnp_isSome (col : List UInt8) :
    (complementSnp col).isSome = true ↔ ∀ b ∈ col, okBase b := by
  constructor
  · intro h
    cases hc : complementSnp col with
    | none => rw [hc] at h; cases h
    | some col' => exact ((complementSnp_eq_some col col').1 hc).1
  · intro h
    rw [(complementSnp_eq_some col _).2 ⟨h, rfl⟩]
    rfl

theorem map_comp_map_comp (col : List UInt8) : (col.map comp).map comp = col := by
  rw [List.map_map]
  have : comp ∘ comp = id := by funext b; exact comp_comp b
  rw [this, List.map_id]

theorem complementSnp_invol (col col' : List UInt8) (h : complementSnp col = some col') :
    complementSnp col' = some col := by
  obtain ⟨hok, rfl⟩ := (complementSnp_eq_some col col').1 h
  rw [complementSnp_eq_some]
  refine ⟨?_, (map_comp_map_comp col).symm⟩
  intro b hb
  obtain ⟨a, ha, rfl⟩ := List.mem_map.1 hb
  exact okBase_comp a (hok a ha)

theorem filter_isACGT_map_comp (col : List UInt8) :
    (col.map comp).filter isACGT = (col.filter isACGT).map comp := by
  induction col with
  | nil => rfl
  | cons b bs ih =>
    simp only [List.map_cons, List.filter_cons, isACGT_comp]
    by_cases h : isACGT b = true
    · simp [h, ih]
    · simp [h, ih]

theorem contains_map_comp (col : List UInt8) (y : UInt8) :
    (col.map comp).contains y = col.contains (comp y) := by
  rw [Bool.eq_iff_iff, List.contains_iff_mem, List.contains_iff_mem, List.mem_map]
  constructor
  · rintro ⟨x, hx, rfl⟩; rw [comp_comp]; exact hx
  · intro h; exact ⟨comp y, h, comp_comp y⟩

/-- complementing (with the total complement) keeps both results of `check_missing_data` -/
theorem check_map_comp (col : List UInt8) : checkMissingData (col.map comp) = checkMissingData col := by
  apply Prod.ext
  · rw [Bool.eq_iff_iff]
    unfold checkMissingData
    simp only [decide_eq_true_eq, ge_iff_le, List.filter_cons, List.filter_nil, contains_map_comp]
    have e1 : comp 65 = 84 := by decide
    have e2 : comp 84 = 65 := by decide
    have e3 : comp 71 = 67 := by decide
    have e4 : comp 67 = 71 := by decide
    rw [e1, e2, e3, e4]
    cases col.contains 65 <;> cases col.contains 84 <;> cases col.contains 71 <;> cases col.contains 67 <;>
      simp
  · rw [check_snd, check_snd, filter_isACGT_map_comp, List.length_map, List.length_map]

theorem check_complement (col col' : List UInt8) (h : complementSnp col = some col') :
    checkMissingData col' = checkMissingData col := by
  obtain ⟨_, rfl⟩ := (complementSnp_eq_some col col').1 h
  exact check_map_comp col

end SkaModel.LO
