/-
C17 completeness — `build_graph` as one fold of `addEdgeOnce` over the list of all edges of all rows:
the successors of a node are the targets of its edges, every one listed once; a node is a key of the
graph iff it has an outgoing edge.
-/
import SkaModel.Lemmas.AssocFold
import SkaModel.Lemmas.LOPathBuild
import SkaModel.Lemmas.LOPipe

namespace SkaModel.LOC

open SkaModel SkaModel.Skalo SkaModel.Props.C17G

/-- all edges of all rows, in table order -/
def allEdges (W : Nat) (a : Arr) : List (Nat × Nat) :=
  (a.kmers.zip a.variants).flatMap (fun kv => (rowGraph W a.k kv.1 kv.2).1)

theorem foldl_fst_rows (W k : Nat) (rows : List (Nat × List UInt8)) (g : Graph) (c : Colours) :
    (rows.foldl (fun (acc : Graph × Colours) kv =>
      let (es, cs) := rowGraph W k kv.1 kv.2
      (es.foldl (fun g e => addEdgeOnce g e.1 e.2) acc.1, cs.foldl (fun c e => addColour c e.1 e.2) acc.2))
      (g, c)).1 =
    (rows.flatMap (fun kv => (rowGraph W k kv.1 kv.2).1)).foldl (fun g e => addEdgeOnce g e.1 e.2) g := by
  induction rows generalizing g c with
  | nil => rfl
  | cons kv rest ih =>
    rw [List.foldl_cons, List.flatMap_cons, List.foldl_append]
    exact ih _ _

theorem buildGraph_fst (W : Nat) (a : Arr) :
    (buildGraph W a).1 = (allEdges W a).foldl (fun g e => addEdgeOnce g e.1 e.2) [] :=
  foldl_fst_rows W a.k _ [] []

theorem lookup_addEdgeOnce (g : Graph) (a b x : Nat) :
    Assoc.lookup (addEdgeOnce g a b) x =
      if a = x then some (if (succs g a).contains b then succs g a else succs g a ++ [b])
      else Assoc.lookup g x := by
  unfold addEdgeOnce succs
  rw [Assoc.lookup_upsert]
  by_cases h : a = x
  · subst h
    simp only [beq_self_eq_true, if_true]
    cases Assoc.lookup g a <;> simp
  · simp [h]

/-- a graph in which no key has an empty successor list, and no successor is listed twice -/
def GInv (g : Graph) : Prop :=
  ∀ x, (Assoc.lookup g x = if succs g x = [] then none else some (succs g x)) ∧ (succs g x).Nodup

theorem succs_addEdgeOnce (g : Graph) (a b x : Nat) :
    succs (addEdgeOnce g a b) x =
      if a = x then (if (succs g a).contains b then succs g a else succs g a ++ [b]) else succs g x := by
  unfold succs
  rw [lookup_addEdgeOnce]
  by_cases h : a = x
  · rw [if_pos h, if_pos h]; rfl
  · rw [if_neg h, if_neg h]

theorem mem_succs_addEdgeOnce (g : Graph) (a b x y : Nat) :
    y ∈ succs (addEdgeOnce g a b) x ↔ y ∈ succs g x ∨ (a = x ∧ b = y) := by
  rw [succs_addEdgeOnce]
  by_cases h : a = x
  · subst h
    rw [if_pos rfl]
    by_cases hc : (succs g a).contains b
    · rw [if_pos hc]
      have hb : b ∈ succs g a := by simpa using hc
      constructor
      · exact Or.inl
      · rintro (h | ⟨_, rfl⟩)
        · exact h
        · exact hb
    · rw [if_neg hc, List.mem_append, List.mem_singleton]
      constructor
      · rintro (h | rfl)
        · exact Or.inl h
        · exact Or.inr ⟨rfl, rfl⟩
      · rintro (h | ⟨_, rfl⟩)
        · exact Or.inl h
        · exact Or.inr rfl
  · rw [if_neg h]
    constructor
    · exact Or.inl
    · rintro (h' | ⟨h', _⟩)
      · exact h'
      · exact absurd h' h

theorem ginv_addEdgeOnce {g : Graph} (hg : GInv g) (a b : Nat) : GInv (addEdgeOnce g a b) := by
  intro x
  rw [succs_addEdgeOnce, lookup_addEdgeOnce]
  by_cases h : a = x
  · subst h
    rw [if_pos rfl, if_pos rfl]
    by_cases hc : (succs g a).contains b
    · rw [if_pos hc]
      have hb : b ∈ succs g a := by simpa using hc
      have hne : succs g a ≠ [] := List.ne_nil_of_mem hb
      exact ⟨by rw [if_neg hne], (hg a).2⟩
    · rw [if_neg hc]
      have hb : b ∉ succs g a := by simpa using hc
      refine ⟨by rw [if_neg (by simp)], ?_⟩
      rw [List.nodup_append]
      exact ⟨(hg a).2, (by simp : [b].Nodup), fun y hy z hz => by
        rw [List.mem_singleton] at hz; subst hz; exact fun e => hb (e ▸ hy)⟩
  · rw [if_neg h, if_neg h]
    exact hg x

theorem ginv_nil : GInv [] := by
  intro x
  exact ⟨rfl, List.nodup_nil⟩

theorem foldl_addEdgeOnce (es : List (Nat × Nat)) :
    ∀ g : Graph, GInv g →
      GInv (es.foldl (fun g e => addEdgeOnce g e.1 e.2) g) ∧
      ∀ x y, y ∈ succs (es.foldl (fun g e => addEdgeOnce g e.1 e.2) g) x ↔ y ∈ succs g x ∨ (x, y) ∈ es := by
  induction es with
  | nil => intro g hg; exact ⟨hg, fun x y => by simp⟩
  | cons e rest ih =>
    intro g hg
    rw [List.foldl_cons]
    obtain ⟨h1, h2⟩ := ih _ (ginv_addEdgeOnce hg e.1 e.2)
    refine ⟨h1, fun x y => ?_⟩
    rw [h2, mem_succs_addEdgeOnce, List.mem_cons]
    constructor
    · rintro ((h | ⟨ha, hb⟩) | h)
      · exact Or.inl h
      · exact Or.inr (Or.inl (by rw [← ha, ← hb]))
      · exact Or.inr (Or.inr h)
    · rintro (h | h | h)
      · exact Or.inl (Or.inl h)
      · exact Or.inl (Or.inr (by rw [← h]; exact ⟨rfl, rfl⟩))
      · exact Or.inr h

theorem edge_iff_mem_allEdges (W : Nat) (a : Arr) (x y : Nat) :
    Edge (buildGraph W a).1 x y ↔ (x, y) ∈ allEdges W a := by
  unfold Edge
  rw [buildGraph_fst, (foldl_addEdgeOnce _ [] ginv_nil).2]
  simp [succs, Assoc.lookup]

/-- no successor is listed twice -/
theorem succs_nodup (W : Nat) (a : Arr) (x : Nat) : (succs (buildGraph W a).1 x).Nodup := by
  rw [buildGraph_fst]
  exact ((foldl_addEdgeOnce _ [] ginv_nil).1 x).2

/-- a node is a key of the graph iff it has an outgoing edge; the value is then its successor list -/
theorem lookup_buildGraph (W : Nat) (a : Arr) (x : Nat) :
    Assoc.lookup (buildGraph W a).1 x =
      if succs (buildGraph W a).1 x = [] then none else some (succs (buildGraph W a).1 x) := by
  rw [buildGraph_fst]
  exact ((foldl_addEdgeOnce _ [] ginv_nil).1 x).1

/-- an entry of the graph lists the successors of its key -/
theorem mem_graph_succs {g : Graph} (hk : (g.map (·.1)).Nodup)
    (hl : ∀ x, Assoc.lookup g x = if succs g x = [] then none else some (succs g x))
    (kn : Nat × List Nat) (h : kn ∈ g) : kn.2 = succs g kn.1 ∧ kn.2 ≠ [] := by
  have hl' := Assoc.lookup_of_mem_nodup (d := g) (key := kn.1) (v := kn.2) hk h
  rw [hl] at hl'
  by_cases he : succs g kn.1 = []
  · rw [if_pos he] at hl'
    exact absurd hl' (by simp)
  · rw [if_neg he] at hl'
    have := Option.some.inj hl'
    exact ⟨this.symm, by rw [← this]; exact he⟩

end SkaModel.LOC
