/-
`RefSka.idxCheck` (model of the Rust iterator `IdxCheck`) yields exactly the
(contig, position) pairs in coordinate order when every contig is non-empty.
-/
import SkaModel.Impl.RefSka

namespace SkaModel.VCF

open SkaModel

/-- iterate a function -/
def iter {α : Type} (f : α → α) : Nat → α → α
  | 0, x => x
  | n + 1, x => iter f n (f x)

theorem iter_add {α : Type} (f : α → α) (m n : Nat) (x : α) :
    iter f (m + n) x = iter f n (iter f m x) := by
  induction m generalizing x with
  | zero => simp [iter]
  | succ m ih => rw [Nat.add_right_comm]; exact ih (f x)

theorem foldl_const_eq_iter {α β : Type} (f : α → α) (l : List β) (x : α) :
    l.foldl (fun st _ => f st) x = iter f l.length x := by
  induction l generalizing x with
  | nil => rfl
  | cons b l ih => exact ih (f x)

/-- iterator state of `IdxCheckIter`: (current_chr, idx, output so far, finished) -/
abbrev St := Nat × Nat × List (Nat × Nat) × Bool

/-- one call of `IdxCheckIter::next` -/
def step (ends : List Nat) (st : St) : St :=
  let (chr, idx, out, done) := st
  if done then st else
  let chr := if idx ≥ ends.getD chr 0 then chr + 1 else chr
  if chr < ends.length then
    let pos := if chr > 0 then idx - ends.getD (chr - 1) 0 else idx
    (chr, idx + 1, out ++ [(chr, pos)], false)
  else (chr, idx, out, true)

/-- `IdxCheck::new`: cumulative end coordinates -/
def endsOf (seq : List (Array UInt8)) : List Nat :=
  (seq.foldl (fun (acc : Nat × List Nat) c => (acc.1 + c.size, acc.2 ++ [acc.1 + c.size])) (0, [])).2

theorem idxCheck_eq_iter (seq : List (Array UInt8)) :
    RefSka.idxCheck seq =
      (iter (step (endsOf seq)) ((endsOf seq).getLastD 0 + (endsOf seq).length + 1) (0, 0, [], false)).2.2.1 := by
  have : RefSka.idxCheck seq =
      ((List.range ((endsOf seq).getLastD 0 + (endsOf seq).length + 1)).foldl
        (fun st _ => step (endsOf seq) st) (0, 0, [], false)).2.2.1 := rfl
  rw [this, foldl_const_eq_iter, List.length_range]

/-- prefix sums -/
def psums (a : Nat) : List Nat → List Nat
  | [] => []
  | s :: ss => (a + s) :: psums (a + s) ss

theorem foldl_ends (seq : List (Array UInt8)) (a : Nat) (l : List Nat) :
    seq.foldl (fun (acc : Nat × List Nat) c => (acc.1 + c.size, acc.2 ++ [acc.1 + c.size])) (a, l)
      = (a + (seq.map (·.size)).sum, l ++ psums a (seq.map (·.size))) := by
  induction seq generalizing a l with
  | nil => simp [psums]
  | cons c cs ih => simp [List.foldl_cons, ih, psums, Nat.add_assoc]

theorem endsOf_eq (seq : List (Array UInt8)) : endsOf seq = psums 0 (seq.map (·.size)) := by
  simp [endsOf, foldl_ends]

theorem psums_length (a : Nat) (l : List Nat) : (psums a l).length = l.length := by
  induction l generalizing a with
  | nil => rfl
  | cons s ss ih => simp [psums, ih]

theorem psums_getD (a : Nat) (l : List Nat) (k : Nat) (h : k < l.length) :
    (psums a l).getD k 0 = a + (l.take (k + 1)).sum := by
  induction l generalizing a k with
  | nil => simp at h
  | cons s ss ih =>
    cases k with
    | zero => simp [psums]
    | succ k =>
      have h' : k < ss.length := by simpa using h
      simp only [psums, List.getD_cons_succ, List.take_succ_cons, List.sum_cons]
      rw [ih _ _ h']; omega

theorem psums_getLastD (a d : Nat) (l : List Nat) :
    (psums a l).getLastD d = if l = [] then d else a + l.sum := by
  induction l generalizing a d with
  | nil => rfl
  | cons s ss ih =>
    simp only [psums, List.getLastD_cons, ih]
    split <;> simp_all [Nat.add_assoc]


/-! ### running the iterator -/

theorem iter_done (ends : List Nat) (n c idx : Nat) (out : List (Nat × Nat)) :
    iter (step ends) n (c, idx, out, true) = (c, idx, out, true) := by
  induction n with
  | zero => rfl
  | succ n ih => simp only [iter]; exact ih

theorem range_succ_map {β : Type} (f : Nat → β) (m : Nat) :
    (List.range (m + 1)).map f = f 0 :: (List.range m).map (fun j => f (j + 1)) := by
  rw [List.range_succ_eq_map]; simp [Function.comp_def]

/-- `m` calls inside contig `c` -/
theorem iter_within (ends : List Nat) (c lo : Nat) (hc : c < ends.length)
    (hlo : lo = if c > 0 then ends.getD (c - 1) 0 else 0) :
    ∀ (m idx : Nat) (out : List (Nat × Nat)), lo ≤ idx → idx + m ≤ ends.getD c 0 →
      iter (step ends) m (c, idx, out, false)
        = (c, idx + m, out ++ (List.range m).map (fun j => (c, idx - lo + j)), false) := by
  intro m
  induction m with
  | zero => intro idx out _ _; simp [iter]
  | succ m ih =>
    intro idx out h1 h2
    have hlt : ¬ idx ≥ ends.getD c 0 := by omega
    have hstep : step ends (c, idx, out, false) = (c, idx + 1, out ++ [(c, idx - lo)], false) := by
      simp only [step, hlt, if_false, hc, if_true, Bool.false_eq_true]
      by_cases h0 : c > 0
      · simp [h0, hlo]
      · simp only [h0, if_false] at hlo ⊢; subst hlo; simp
    simp only [iter, hstep]
    rw [ih (idx + 1) _ (by omega) (by omega), range_succ_map]
    have e1 : idx + 1 + m = idx + (m + 1) := by omega
    have e2 : (fun j => (c, idx + 1 - lo + j)) = (fun j => (c, idx - lo + (j + 1))) := by
      funext j
      have : idx + 1 - lo + j = idx - lo + (j + 1) := by omega
      rw [this]
    rw [e1, e2]
    simp

/-- the call crossing from contig `c` into contig `c + 1` -/
theorem step_cross (ends : List Nat) (c : Nat) (hc : c + 1 < ends.length) (out : List (Nat × Nat)) :
    step ends (c, ends.getD c 0, out, false) = (c + 1, ends.getD c 0 + 1, out ++ [(c + 1, 0)], false) := by
  simp [step, hc]

/-- the call after the last item -/
theorem step_end (ends : List Nat) (c : Nat) (hc : c + 1 = ends.length) (out : List (Nat × Nat)) :
    step ends (c, ends.getD c 0, out, false) = (c + 1, ends.getD c 0, out, true) := by
  simp [step, hc]

/-- offset of contig `k` in the concatenated coordinate system -/
def offset (seq : List (Array UInt8)) (k : Nat) : Nat := ((seq.take k).map (·.size)).sum

/-- the (contig, position) pairs of the first `k` contigs -/
def coordsTo (seq : List (Array UInt8)) (k : Nat) : List (Nat × Nat) :=
  (seq.take k).zipIdx.flatMap (fun ci => (List.range ci.1.size).map (fun p => (ci.2, p)))

theorem endsOf_length (seq : List (Array UInt8)) : (endsOf seq).length = seq.length := by
  simp [endsOf_eq, psums_length]

theorem endsOf_getD (seq : List (Array UInt8)) (k : Nat) (h : k < seq.length) :
    (endsOf seq).getD k 0 = offset seq (k + 1) := by
  rw [endsOf_eq, psums_getD _ _ _ (by simpa using h)]
  simp [offset, List.map_take]

theorem endsOf_getLastD (seq : List (Array UInt8)) :
    (endsOf seq).getLastD 0 = offset seq seq.length := by
  rw [endsOf_eq, psums_getLastD]
  cases seq with
  | nil => simp [offset]
  | cons c cs => simp [offset]

theorem offset_succ (seq : List (Array UInt8)) (k : Nat) (h : k < seq.length) :
    offset seq (k + 1) = offset seq k + seq[k].size := by
  unfold offset
  rw [List.take_succ_eq_append_getElem h]
  simp only [List.map_append, List.sum_append, List.map_cons, List.map_nil, List.sum_cons,
    List.sum_nil, Nat.add_zero]

theorem coordsTo_succ (seq : List (Array UInt8)) (k : Nat) (h : k < seq.length) :
    coordsTo seq (k + 1) = coordsTo seq k ++ (List.range seq[k].size).map (fun p => (k, p)) := by
  have hk : (List.take k seq).length = k := by rw [List.length_take]; omega
  unfold coordsTo
  rw [List.take_succ_eq_append_getElem h, List.zipIdx_append, List.flatMap_append, hk]
  simp

theorem offset_zero (seq : List (Array UInt8)) : offset seq 0 = 0 := by simp [offset]

theorem coordsTo_zero (seq : List (Array UInt8)) : coordsTo seq 0 = [] := by simp [coordsTo]

/-- after `offset (k+1)` calls the iterator has produced the coordinates of contigs `0..k` -/
theorem iter_contigs (seq : List (Array UInt8)) (hsz : ∀ c ∈ seq, 1 ≤ c.size) :
    ∀ k, k < seq.length →
      iter (step (endsOf seq)) (offset seq (k + 1)) (0, 0, [], false)
        = (k, offset seq (k + 1), coordsTo seq (k + 1), false) := by
  intro k
  induction k with
  | zero =>
    intro h
    have := iter_within (endsOf seq) 0 0 (by rw [endsOf_length]; exact h) (by simp)
      (offset seq (0 + 1)) 0 [] (Nat.le_refl _) (by rw [endsOf_getD seq 0 h]; omega)
    rw [this, coordsTo_succ seq 0 h, offset_succ seq 0 h, offset_zero, coordsTo_zero]
    simp
  | succ k ih =>
    intro h
    have hk : k < seq.length := by omega
    have hpos : 1 ≤ seq[k + 1].size := hsz _ (List.getElem_mem h)
    obtain ⟨n, hn⟩ := Nat.exists_eq_add_of_le hpos
    have hsplit : offset seq (k + 1 + 1) = offset seq (k + 1) + (1 + n) := by
      rw [offset_succ seq (k + 1) h, hn]
    rw [hsplit, iter_add, ih hk, iter_add]
    have hcross := step_cross (endsOf seq) k (by rw [endsOf_length]; exact h) (coordsTo seq (k + 1))
    rw [endsOf_getD seq k hk] at hcross
    have h1 : iter (step (endsOf seq)) 1 (k, offset seq (k + 1), coordsTo seq (k + 1), false)
        = (k + 1, offset seq (k + 1) + 1, coordsTo seq (k + 1) ++ [(k + 1, 0)], false) := by
      simp only [iter]; exact hcross
    rw [h1]
    have := iter_within (endsOf seq) (k + 1) (offset seq (k + 1)) (by rw [endsOf_length]; exact h)
      (by rw [if_pos (Nat.succ_pos k), Nat.add_sub_cancel, endsOf_getD seq k hk]) n (offset seq (k + 1) + 1)
      (coordsTo seq (k + 1) ++ [(k + 1, 0)]) (by omega)
      (by rw [endsOf_getD seq (k + 1) h, hsplit]; omega)
    rw [this, coordsTo_succ seq (k + 1) h, hn, Nat.add_comm 1 n, range_succ_map]
    have e2 : (fun j => (k + 1, offset seq (k + 1) + 1 - offset seq (k + 1) + j))
        = (fun j => (k + 1, j + 1)) := by
      funext j
      have : offset seq (k + 1) + 1 - offset seq (k + 1) + j = j + 1 := by omega
      rw [this]
    rw [e2]
    simp [Nat.add_assoc, Nat.add_comm 1 n]

theorem coordsTo_length (seq : List (Array UInt8)) :
    coordsTo seq seq.length = seq.zipIdx.flatMap (fun ci => (List.range ci.1.size).map (fun p => (ci.2, p))) := by
  simp [coordsTo]

/-- `IdxCheck` yields the coordinates in order when every contig is non-empty -/
theorem idxCheck_eq_coords (seq : List (Array UInt8)) (hsz : ∀ c ∈ seq, 1 ≤ c.size) :
    RefSka.idxCheck seq
      = seq.zipIdx.flatMap (fun ci => (List.range ci.1.size).map (fun p => (ci.2, p))) := by
  rw [idxCheck_eq_iter, endsOf_getLastD, endsOf_length]
  cases hlen : seq.length with
  | zero =>
    have : seq = [] := List.eq_nil_of_length_eq_zero hlen
    subst this
    simp [offset, iter, step, endsOf]
  | succ n =>
    have hn : n < seq.length := by omega
    rw [show offset seq (n + 1) + (n + 1) + 1 = offset seq (n + 1) + (1 + (n + 1)) by omega,
      iter_add, iter_contigs seq hsz n hn, iter_add]
    have hend := step_end (endsOf seq) n (by rw [endsOf_length]; exact hlen.symm) (coordsTo seq (n + 1))
    rw [endsOf_getD seq n hn] at hend
    have h1 : iter (step (endsOf seq)) 1 (n, offset seq (n + 1), coordsTo seq (n + 1), false)
        = (n + 1, offset seq (n + 1), coordsTo seq (n + 1), true) := by
      simp only [iter]; exact hend
    rw [h1, iter_done, ← hlen, coordsTo_length]

end SkaModel.VCF
