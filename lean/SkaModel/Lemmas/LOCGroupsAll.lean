/-
C17 completeness — all variant groups of a pair of strands: no indel group, every SNP group is a good
group (`GG`) of one of the two strands, and the bubble of every site is reported.
-/
import SkaModel.Lemmas.LOCGroups

namespace SkaModel.LOC

open SkaModel SkaModel.Spec SkaModel.Props.C16 SkaModel.Skalo SkaModel.Props.C17G SkaModel.LOG

namespace Strand

variable {k L : Nat} {g : Graph} {T T' : List (List UInt8)} {PT PT' : List Nat}

/-- the bubble of a site: a group from its entry node to its exit node, with at least two variants -/
theorem bubble (st : Strand k L g T PT T' PT') {starts ends : List Nat}
    (ex : Ext k starts ends T PT T' PT') {W : Nat} (hW : 2 * k ≤ W) (maxDepth : Nat)
    {t : List UInt8} (ht : t ∈ T) {p : Nat} (hp : p ∈ PT) :
    ∃ grp ∈ groupsFrom W (k - 1) (compactGraph g starts ends).1 (compactGraph g starts ends).2
      starts ends maxDepth (fN k t (p - k + 1)),
      grp.1 = (fN k t (p - k + 1), fN k t (p + 1)) ∧ 2 ≤ grp.2.length := by
  have hk5 := st.k5
  have hpe := st.pf.ends p hp
  have hc0 : p - k + 1 + (k - 1) ≤ L := by omega
  obtain ⟨s, hs, s', hs', hne⟩ := st.pf.poly p hp
  -- the path through the arm of a sample
  have hfound : ∀ t2 ∈ T, (fN k t (p + 1), pathOf (compactGraph g starts ends).2
      ([fN k t (p - k + 1), fN k t2 (p - k + 2)] ++ interior (compactGraph g starts ends).2 (fN k t2 (p - k + 2)))
      (walkOf k t2 p [])) ∈ _ := fun t2 ht2 =>
    (st.found_strand ex maxDepth (compactGraph g starts ends).2 ht hp _).mpr
      ⟨t2, ht2, [], trivial, by simp, by simp, by simp [walkOf]; exact st.exit_congr ht ht2 hp⟩
  obtain ⟨ps, hps, hsin⟩ := pathsFrom_of_found (hfound s hs)
  have hs'in := (mem_pathsFrom_paths hps _).mpr (hfound s' hs')
  have hck : Assoc.lookup (compactGraph g starts ends).2 (fN k t (p - k + 1)) = none :=
    comp_none g starts ends _ (st.entry_not_src starts ends ht hp)
  have hce : Assoc.lookup (compactGraph g starts ends).2 (fN k t (p + 1)) = none :=
    comp_none g starts ends _ (st.exit_not_src ex ht hp)
  have hwalk := pathsFrom_walk (compactGraph_sound g starts ends) hck hps
  -- shape of the paths
  have hshape : ∀ t2 ∈ T, pathOf (compactGraph g starts ends).2
      ([fN k t (p - k + 1), fN k t2 (p - k + 2)] ++ interior (compactGraph g starts ends).2 (fN k t2 (p - k + 2)))
      (walkOf k t2 p []) = fN k t (p - k + 1) :: fN k t2 (p - k + 2) ::
        (interior (compactGraph g starts ends).2 (fN k t2 (p - k + 2)) ++ [fN k t (p + 1)]) := by
    intro t2 ht2
    unfold pathOf walkOf
    simp only [List.flatMap_cons, List.flatMap_nil, List.append_nil]
    have hi : interior (compactGraph g starts ends).2 (fN k t2 (p + 1)) = [] := by
      unfold interior
      rw [← st.exit_congr ht ht2 hp, hce]; rfl
    rw [hi, ← st.exit_congr ht ht2 hp]
    simp
  -- facts about the path of a sample: length, second node, second-last node
  have hfacts : ∀ t2 ∈ T, ∀ pth, pth = pathOf (compactGraph g starts ends).2
      ([fN k t (p - k + 1), fN k t2 (p - k + 2)] ++ interior (compactGraph g starts ends).2 (fN k t2 (p - k + 2)))
      (walkOf k t2 p []) → pth ∈ ps →
      pth.getD 1 0 = fN k t2 (p - k + 2) ∧
      ∃ a ∈ T, pth.getD (pth.length - 2) 0 = fN k a p ∧ a.getD p 0 = t2.getD p 0 := by
    intro t2 ht2 pth hpth hin
    have hsh := hshape t2 ht2
    rw [← hpth] at hsh
    have hw := hwalk pth hin
    have hh : pth.head? = some (fN k t (p - k + 1)) := by rw [hsh]; rfl
    have hlen2 : 3 ≤ pth.length := by rw [hsh]; simp
    have hlastq : pth[pth.length - 1]? = some (fN k t (p + 1)) := by
      have e2 : pth = (fN k t (p - k + 1) :: fN k t2 (p - k + 2) ::
          interior (compactGraph g starts ends).2 (fN k t2 (p - k + 2))) ++ [fN k t (p + 1)] := by
        rw [hsh]; simp
      rw [e2, List.length_append, List.length_singleton, Nat.add_sub_cancel,
        List.getElem?_append_right (Nat.le_refl _), Nat.sub_self]
      rfl
    obtain ⟨tl, htl, hel, hlvl⟩ := st.walk_levels pth t (p - k + 1) ht hc0 hw hh _ _ hlastq
    have hn : pth.length = k + 1 := by
      have := (st.node_level ht htl (by omega) hlvl hel).1
      omega
    refine ⟨by rw [hsh]; rfl, ?_⟩
    obtain ⟨h1, h2, h3, _⟩ := st.variant_spec hW starts ends ht hc0 hw hh
    have hx1 : pth[1]? = some (fN k t2 (p - k + 2)) := by rw [hsh]; rfl
    obtain ⟨t1, ht1, hx1e, _, hw1⟩ := h3 1 _ hx1
    have hidx : pth[k - 1]? = some pth[k - 1] := List.getElem?_eq_getElem (by omega)
    obtain ⟨a, ha, hae, _, hwa⟩ := h3 (k - 1) _ hidx
    refine ⟨a, ha, ?_, ?_⟩
    · rw [hn, show k + 1 - 2 = k - 1 by omega, List.getD_eq_getElem?_getD, hidx, hae]
      simp only [Option.getD_some]
      congr 1
      omega
    · rw [show p - k + 1 + 1 = p - k + 2 by omega] at hx1e
      have hw12 := (st.node_level (j := p - k + 2) (j' := p - k + 2) ht2 ht1 (by omega) (by omega) hx1e).2
      have e1 := (win_eq_iff (by rw [h1, hn]; omega) (by rw [st.pf.len ht1]; omega)).mp hw1 (k - 2) (by omega)
      have e2 := (win_eq_iff (by rw [st.pf.len ht2]; omega) (by rw [st.pf.len ht1]; omega)).mp hw12 (k - 2) (by omega)
      have e3 := (win_eq_iff (by rw [h1, hn]; omega) (by rw [st.pf.len ha]; omega)).mp hwa 0 (by omega)
      rw [show p - k + 1 + 1 + (k - 2) = p by omega] at e1
      rw [show p - k + 2 + (k - 2) = p by omega] at e2
      rw [show p - k + 1 + (k - 1) + 0 = p by omega, show k - 1 + 0 = 1 + (k - 2) by omega] at e3
      rw [← e3, e1, ← e2]
  obtain ⟨hs1, a, ha, hsa, hap⟩ := hfacts s hs _ rfl hsin
  obtain ⟨hs1', a', ha', hsa', hap'⟩ := hfacts s' hs' _ rfl hs'in
  have harm : fN k s (p - k + 2) ≠ fN k s' (p - k + 2) :=
    st.arm_ne hs hs' hp hne (by omega) (by omega) (by omega)
  have hlastne : fN k a p ≠ fN k a' p :=
    st.arm_ne ha ha' hp (by rw [hap, hap']; exact hne) (Nat.le_refl _) (by omega) (by omega)
  -- the group
  have hsec : (ps.map (fun v => v.getD 1 0)).eraseDups.length > 1 := by
    apply (SNP.two_le_eraseDups_iff _).mpr
    exact ⟨_, List.mem_map.mpr ⟨_, hsin, rfl⟩, _, List.mem_map.mpr ⟨_, hs'in, rfl⟩, by
      rw [hs1, hs1']; exact harm⟩
  have hsl : (ps.map (fun v => v.getD (v.length - 2) 0)).eraseDups.length > 1 := by
    apply (SNP.two_le_eraseDups_iff _).mpr
    exact ⟨_, List.mem_map.mpr ⟨_, hsin, rfl⟩, _, List.mem_map.mpr ⟨_, hs'in, rfl⟩, by
      rw [hsa, hsa']; exact hlastne⟩
  have hps2 : 2 ≤ ps.length := by
    apply SNP.two_le_length_of_mem_ne hsin hs'in
    intro e
    apply harm
    rw [← hs1, ← hs1', e]
  have hgrp := (mem_groupsFrom W (k - 1) (compactGraph g starts ends).1 (compactGraph g starts ends).2 starts ends
    maxDepth (fN k t (p - k + 1)) _).mpr ⟨by
      rw [List.any_eq_true]
      exact ⟨_, hps, by simp only [gt_iff_lt, decide_eq_true_eq]; omega⟩, fN k t (p + 1), ps, hps, hsec, hsl, rfl⟩
  refine ⟨_, hgrp, rfl, ?_⟩
  obtain ⟨p', hp', _, hkey, ⟨paths, hpaths, hv⟩, _⟩ := st.group_good ex hW maxDepth ht hp hgrp
  simp only [Prod.mk.injEq, true_and] at hkey
  rw [← hkey] at hpaths
  have e1 := ((mem_pathsFrom _ _ _ _ _ _ _).mp hpaths).2
  have e2 := ((mem_pathsFrom _ _ _ _ _ _ _).mp hps).2
  rw [hv, List.length_map, e1, ← e2]
  exact hps2

/-- the span of a group: from the entry node of `p` to the exit node of a site reached by at most
`maxDepth` steps to the next site -/
theorem group_span (st : Strand k L g T PT T' PT') {starts ends : List Nat}
    (ex : Ext k starts ends T PT T' PT') {W : Nat} (hW : 2 * k ≤ W) (maxDepth : Nat)
    {t : List UInt8} (ht : t ∈ T) {p : Nat} (hp : p ∈ PT) {grp : (Nat × Nat) × List Variant}
    (hgrp : grp ∈ groupsFrom W (k - 1) (compactGraph g starts ends).1 (compactGraph g starts ends).2
      starts ends maxDepth (fN k t (p - k + 1))) :
    ∃ qs : List Nat, SitesOK PT p qs ∧ qs.length ≤ maxDepth ∧
      grp.1 = (fN k t (p - k + 1), fN k t ((p :: qs).getLast (by simp) + 1)) := by
  have hk5 := st.k5
  obtain ⟨p', hp', _, hkey, ⟨paths, hpaths, hv⟩, hgg⟩ := st.group_good ex hW maxDepth ht hp hgrp
  have hne : paths ≠ [] := ((mem_pathsFrom _ _ _ _ _ _ _).mp hpaths).1
  obtain ⟨p0, hp0⟩ := List.exists_mem_of_ne_nil _ hne
  have hfound0 := (mem_pathsFrom_paths hpaths p0).mp hp0
  obtain ⟨t2, ht2, ch, hsites, hsamp, hchlen, heq⟩ :=
    (st.found_strand ex maxDepth (compactGraph g starts ends).2 ht hp (_, p0)).mp hfound0
  simp only [Prod.mk.injEq] at heq
  obtain ⟨hlsm, _⟩ := lastSite_mem ch p hp hsites
  have hlse := st.pf.ends _ hlsm
  have hp'e := st.pf.ends p' hp'
  have hls : lastSite p ch = p' := by
    have e1 : fN k t (p' + 1) = fN k (lastSample t2 ch) (lastSite p ch + 1) := by rw [heq.1, walkOf_last]
    have := (st.node_level ht (lastSample_mem ch t2 ht2 hsamp) (by omega) (by omega) e1).1
    omega
  have hlast : ∀ (ch : List (Nat × List UInt8)) (p : Nat),
      (p :: ch.map (·.1)).getLast (by simp) = lastSite p ch := by
    intro ch
    induction ch with
    | nil => intro p; rfl
    | cons x rest ih =>
      intro p
      obtain ⟨q, tq⟩ := x
      simp only [List.map_cons, lastSite]
      rw [List.getLast_cons (by simp)]
      exact ih q
  refine ⟨ch.map (·.1), hsites, by simpa using hchlen, ?_⟩
  rw [hkey, hlast, hls]

/-- every group built from an entry node is a good group of one of the two strands -/
theorem built_good (st : Strand k L g T PT T' PT') {starts ends : List Nat}
    (ex : Ext k starts ends T PT T' PT') {W : Nat} (hW : 2 * k ≤ W) (maxDepth : Nat)
    {grp : (Nat × Nat) × List Variant} (h : grp ∈ LOP.builtGroups W (k - 1) g starts ends maxDepth) :
    (∃ c0 len, GG k L T PT c0 len grp.2) ∨ (∃ c0 len, GG k L T' PT' c0 len grp.2) := by
  unfold LOP.builtGroups at h
  obtain ⟨kmer, hk, hg⟩ := List.mem_flatMap.mp h
  rcases (ex.st kmer).mp hk with ⟨p, hp, t, ht, rfl⟩ | ⟨p, hp, t, ht, rfl⟩
  · obtain ⟨p', _, _, _, _, hgg⟩ := st.group_good ex hW maxDepth ht hp hg
    exact Or.inl ⟨_, _, hgg⟩
  · obtain ⟨p', _, _, _, _, hgg⟩ := st.swap.group_good ex.swap hW maxDepth ht hp hg
    exact Or.inr ⟨_, _, hgg⟩

theorem gg_equal_length {c0 len : Nat} {vs : List Variant} (h : GG k L T PT c0 len vs) :
    ∀ v ∈ vs, ∀ v' ∈ vs, v.1.length = v'.1.length := by
  intro v hv v' hv'
  rw [(h.hv v hv).1, (h.hv v' hv').1]

/-- **the variant groups of a pair of strands** -/
theorem groups_spec (st : Strand k L g T PT T' PT') {starts ends : List Nat}
    (ex : Ext k starts ends T PT T' PT') {W : Nat} (hW : 2 * k ≤ W) (maxDepth : Nat) :
    (buildVariantGroups W (k - 1) g starts ends maxDepth).indelGroups = [] ∧
    (∀ grp ∈ (buildVariantGroups W (k - 1) g starts ends maxDepth).snpGroups, 2 ≤ grp.2.length ∧
      ((∃ c0 len, GG k L T PT c0 len grp.2) ∨ (∃ c0 len, GG k L T' PT' c0 len grp.2))) ∧
    (∀ p ∈ PT, ∃ grp ∈ (buildVariantGroups W (k - 1) g starts ends maxDepth).snpGroups,
      (∃ t ∈ T, grp.1 = (fN k t (p - k + 1), fN k t (p + 1))) ∧
      ∃ c0 len, GG k L T PT c0 len grp.2 ∧ c0 ≤ p ∧ p < c0 + len) := by
  have hk5 := st.k5
  rw [LOP.buildVariantGroups_eq]
  simp only
  have heq : ∀ grp ∈ LOP.builtGroups W (k - 1) g starts ends maxDepth,
      ∀ v ∈ grp.2, ∀ v' ∈ grp.2, v.1.length = v'.1.length := by
    intro grp hg
    rcases st.built_good ex hW maxDepth hg with ⟨c0, len, h⟩ | ⟨c0, len, h⟩
    · exact gg_equal_length h
    · exact gg_equal_length h
  refine ⟨?_, ?_, ?_⟩
  · rw [List.filter_eq_nil_iff]
    intro kv hkv hc
    obtain ⟨v0, v1, hvs, hne, _⟩ := LOP.clsIndel_spec (k - 1) kv.2 hc
    exact hne (heq kv hkv v0 (by rw [hvs]; simp) v1 (by rw [hvs]; simp))
  · intro grp hgrp
    rw [List.mem_filter] at hgrp
    exact ⟨LOP.clsSnp_spec grp.2 hgrp.2, st.built_good ex hW maxDepth hgrp.1⟩
  · intro p hp
    obtain ⟨t, ht⟩ := List.exists_mem_of_ne_nil T st.pf.ne
    have hkm : fN k t (p - k + 1) ∈ starts := (ex.st _).mpr (Or.inl ⟨p, hp, t, ht, rfl⟩)
    obtain ⟨grp, hgrp, hkeyb, h2⟩ := st.bubble ex hW maxDepth ht hp
    have hb : grp ∈ LOP.builtGroups W (k - 1) g starts ends maxDepth := by
      unfold LOP.builtGroups
      exact List.mem_flatMap.mpr ⟨_, hkm, hgrp⟩
    obtain ⟨p', _, hpp', _, _, hgg⟩ := st.group_good ex hW maxDepth ht hp hgrp
    have hpe := st.pf.ends p hp
    refine ⟨grp, List.mem_filter.mpr ⟨hb, ?_⟩, ⟨t, ht, hkeyb⟩, _, _, hgg, by omega, by omega⟩
    unfold LOP.clsSnp
    simp only [Bool.and_eq_true, Bool.not_eq_true', decide_eq_false_iff_not, Nat.not_lt, Bool.and_eq_false_iff,
      beq_eq_false_iff_ne, bne_eq_false_iff_eq]
    refine ⟨h2, ?_⟩
    by_cases h22 : grp.2.length = 2
    · right
      match hvs : grp.2, h22 with
      | [v0, v1], _ =>
        simp only [List.getD_cons_zero, List.getD_cons_succ]
        exact heq grp hb v0 (by rw [hvs]; simp) v1 (by rw [hvs]; simp)
    · exact Or.inl h22


end Strand

end SkaModel.LOC
