/-
C18 completeness — the windows that occur: every contiguous run of columns a sample keeps, and every run that
jumps over a block the sample deletes, is a window of the sample; every valid node and every pair of nodes
related by `RE` is realised by a sample.
-/
import SkaModel.Lemmas.LOENodes

namespace SkaModel.LOE

open SkaModel SkaModel.Skalo SkaModel.Spec SkaModel.LOC

theorem infix_filter {α : Type} (p : α → Bool) {M L : List α} (h : M <:+: L) : M.filter p <:+: L.filter p := by
  obtain ⟨s, t, e⟩ := h
  exact ⟨s.filter p, t.filter p, by rw [← e, List.filter_append, List.filter_append]⟩

theorem range'_infix_range {x m N : Nat} (h : x + m ≤ N) : List.range' x m <:+: List.range N := by
  refine ⟨List.range' 0 x, List.range' (x + m) (N - (x + m)), ?_⟩
  have e1 : List.range' 0 x ++ List.range' x m = List.range' 0 (x + m) := by
    have := @List.range'_append_1 0 x m
    rwa [Nat.zero_add] at this
  have e2 : List.range' 0 (x + m) ++ List.range' (x + m) (N - (x + m)) = List.range' 0 (x + m + (N - (x + m))) := by
    have := @List.range'_append_1 0 (x + m) (N - (x + m))
    rwa [Nat.zero_add] at this
  rw [List.range_eq_range', e1, e2]
  congr 1
  omega

/-- a contiguous run of kept columns is a window of the sample -/
theorem win_cont (N : Nat) (B : List (Nat × Nat)) (c : List Bool) {x n : Nat} (hx : x + n ≤ N)
    (hk : ∀ y, x ≤ y → y < x + n → keepB B c y = true) :
    ∃ j, j + n ≤ (keepCols N B c).length ∧ cwin (keepCols N B c) j n = List.range' x n := by
  have hinf : List.range' x n <:+: keepCols N B c := by
    have := infix_filter (keepB B c) (range'_infix_range hx)
    rwa [List.filter_eq_self.mpr (by
      intro y hy
      rw [List.mem_range'_1] at hy
      exact hk y hy.1 hy.2)] at this
  obtain ⟨j, h1, h2⟩ := cwin_of_infix hinf
  rw [List.length_range'] at h1 h2
  exact ⟨j, h1, h2⟩

theorem gap_take {x b e k : Nat} (h1 : x < b) (h2 : b < x + k) :
    (List.range' x (b - x) ++ List.range' e (k - (b - x))).take (k - 1) =
      List.range' x (b - x) ++ List.range' e (k - 1 - (b - x)) := by
  rw [List.take_append, List.length_range', List.take_of_length_le (by simp; omega),
    List.take_range'_of_length_ge (by omega)]

theorem gap_drop {x b e k : Nat} (h1 : x < b) (h2 : b < x + k) :
    (List.range' x (b - x) ++ List.range' e (k - (b - x))).drop 1 =
      List.range' (x + 1) (b - (x + 1)) ++ List.range' e (k - 1 - (b - (x + 1))) := by
  rw [List.drop_append_of_le_length (by simp; omega), List.drop_range']
  congr 2 <;> omega

namespace DFam

variable {k : Nat} {F : List UInt8} {B : List (Nat × Nat)} {C : List (List Bool)}

/-- a run of `n ≤ 3k` columns that jumps over a block the sample deletes is a window of the sample -/
theorem win_gap (h : DFam k F B C) (c : List Bool) {t : Nat} (ht : t < B.length) (hc : c.getD t false = false)
    {x n : Nat} (hxb : x < bS B t) (hbx : bS B t < x + n) (hn : n ≤ 3 * k) :
    ∃ j, j + n ≤ (keepCols F.length B c).length ∧
      cwin (keepCols F.length B c) j n =
        List.range' x (bS B t - x) ++ List.range' (bE B t) (n - (bS B t - x)) := by
  have hb := h.bt ht
  have hk5 := h.k5
  have hM : List.range' x (bS B t - x) ++ (List.range' (bS B t) (bE B t - bS B t) ++
      List.range' (bE B t) (n - (bS B t - x))) =
      List.range' x ((bS B t - x) + ((bE B t - bS B t) + (n - (bS B t - x)))) := by
    have e1 : List.range' (bS B t) (bE B t - bS B t) ++ List.range' (bE B t) (n - (bS B t - x)) =
        List.range' (bS B t) ((bE B t - bS B t) + (n - (bS B t - x))) := by
      have := @List.range'_append_1 (bS B t) (bE B t - bS B t) (n - (bS B t - x))
      rwa [show bS B t + (bE B t - bS B t) = bE B t by omega] at this
    have e2 := @List.range'_append_1 x (bS B t - x) ((bE B t - bS B t) + (n - (bS B t - x)))
    rw [show x + (bS B t - x) = bS B t by omega] at e2
    rw [e1, e2]
  have hinf0 := infix_filter (keepB B c)
    (range'_infix_range (x := x) (m := (bS B t - x) + ((bE B t - bS B t) + (n - (bS B t - x))))
      (N := F.length) (by omega))
  rw [← hM, List.filter_append, List.filter_append] at hinf0
  have h1 : (List.range' x (bS B t - x)).filter (keepB B c) = List.range' x (bS B t - x) := by
    apply List.filter_eq_self.mpr
    intro y hy
    rw [List.mem_range'_1] at hy
    exact h.keep_near c ht (by unfold bS at *; omega) (by unfold bS at *; omega)
      (by unfold inBlk; unfold bS at *; omega)
  have h2 : (List.range' (bS B t) (bE B t - bS B t)).filter (keepB B c) = [] := by
    rw [List.filter_eq_nil_iff]
    intro y hy
    rw [List.mem_range'_1] at hy
    rw [h.keep_in c ht (by unfold inBlk; unfold bS bE at *; omega), hc]
    simp
  have h3 : (List.range' (bE B t) (n - (bS B t - x))).filter (keepB B c) =
      List.range' (bE B t) (n - (bS B t - x)) := by
    apply List.filter_eq_self.mpr
    intro y hy
    rw [List.mem_range'_1] at hy
    exact h.keep_near c ht (by unfold bS bE at *; omega) (by unfold bS bE at *; omega)
      (by unfold inBlk; unfold bS bE at *; omega)
  rw [h1, h2, h3, List.nil_append] at hinf0
  obtain ⟨j, hj1, hj2⟩ := cwin_of_infix hinf0
  have hlen : (List.range' x (bS B t - x) ++ List.range' (bE B t) (n - (bS B t - x))).length = n := by
    simp only [List.length_append, List.length_range']
    omega
  rw [hlen] at hj1 hj2
  exact ⟨j, hj1, hj2⟩

/-- some sample keeps a given run of at most `k` columns -/
theorem exists_keep (h : DFam k F B C) {x n : Nat} (hn : n ≤ k) :
    ∃ c ∈ C, ∀ y, x ≤ y → y < x + n → keepB B c y = true := by
  have hk5 := h.k5
  by_cases hex : ∃ t, t < B.length ∧ ∃ y, x ≤ y ∧ y < x + n ∧ inBlk (B.getD t (0, 0)) y
  · obtain ⟨t, ht, y0, hy1, hy2, hin0⟩ := hex
    obtain ⟨c, hc, hct⟩ := h.kept t ht
    refine ⟨c, hc, ?_⟩
    intro y h1 h2
    by_cases hin : inBlk (B.getD t (0, 0)) y
    · rw [h.keep_in c ht hin, hct]
    · have hb := h.blk_t ht
      unfold inBlk at hin0
      exact h.keep_near c ht (by omega) (by omega) hin
  · obtain ⟨c, hc⟩ : ∃ c, c ∈ C := by
      have := h.nS
      cases hC : C with
      | nil => rw [hC] at this; simp at this
      | cons c _ => exact ⟨c, List.mem_cons_self ..⟩
    refine ⟨c, hc, ?_⟩
    intro y h1 h2
    rw [keepB_iff]
    intro t ht _ hin
    exact hex ⟨t, ht, y, h1, h2, hin⟩

/-- every valid node is a window of `k - 1` columns of a sample -/
theorem valid_window (h : DFam k F B C) {n : Nd} (hv : n.valid k F.length B (shf k F B)) :
    ∃ c ∈ C, ∃ j, j + (k - 1) ≤ (keepCols F.length B c).length ∧
      cwin (keepCols F.length B c) j (k - 1) = n.cols k B := by
  have hk5 := h.k5
  cases n with
  | c x =>
    obtain ⟨c, hc, hkeep⟩ := h.exists_keep (x := x) (n := k - 1) (by omega)
    obtain ⟨j, h1, h2⟩ := win_cont F.length B c hv hkeep
    exact ⟨c, hc, j, h1, h2⟩
  | g t x =>
    obtain ⟨ht, h1, h2⟩ := hv
    obtain ⟨c, hc, hct⟩ := h.del t ht
    obtain ⟨j, hj1, hj2⟩ := h.win_gap c ht hct (x := x) (n := k - 1) h2 (by omega) (by omega)
    exact ⟨c, hc, j, hj1, hj2⟩

/-- every pair of nodes related by `RE` is spelled by a window of `k` columns of a sample -/
theorem re_window (h : DFam k F B C) {n n' : Nd} (hr : RE k F.length B (shf k F B) n n') :
    ∃ c ∈ C, ∃ j, j + k ≤ (keepCols F.length B c).length ∧
      lets F ((cwin (keepCols F.length B c) j k).take (k - 1)) = lets F (n.cols k B) ∧
      lets F ((cwin (keepCols F.length B c) j k).drop 1) = lets F (n'.cols k B) := by
  have hk5 := h.k5
  cases hr with
  | cc x hx =>
    obtain ⟨c, hc, hkeep⟩ := h.exists_keep (x := x) (n := k) (Nat.le_refl _)
    obtain ⟨j, h1, h2⟩ := win_cont F.length B c hx hkeep
    refine ⟨c, hc, j, h1, ?_, ?_⟩
    · rw [h2]
      simp only [Nd.cols]
      rw [List.take_range'_of_length_ge (by omega)]
    · rw [h2]
      simp only [Nd.cols]
      rw [List.drop_range']
  | cg t ht =>
    have hb := h.bt ht
    obtain ⟨c, hc, hct⟩ := h.del t ht
    obtain ⟨j, hj1, hj2⟩ := h.win_gap c ht hct (x := bS B t + shf k F B t - (k - 1)) (n := k) (by omega) (by omega)
      (by omega)
    refine ⟨c, hc, j, hj1, ?_, ?_⟩
    · rw [hj2, gap_take (by omega) (by omega)]
      simp only [Nd.cols]
      rw [h.lets_gap_cont ht (by omega) (by omega)]
      congr 2
      omega
    · rw [hj2, gap_drop (by omega) (by omega)]
      rfl
  | gg t x ht h1 h2 =>
    obtain ⟨c, hc, hct⟩ := h.del t ht
    obtain ⟨j, hj1, hj2⟩ := h.win_gap c ht hct (x := x) (n := k) (by omega) (by omega) (by omega)
    refine ⟨c, hc, j, hj1, ?_, ?_⟩
    · rw [hj2, gap_take (by omega) (by omega)]
      rfl
    · rw [hj2, gap_drop (by omega) (by omega)]
      rfl
  | gc t ht =>
    have hb := h.bt ht
    obtain ⟨c, hc, hct⟩ := h.del t ht
    obtain ⟨j, hj1, hj2⟩ := h.win_gap c ht hct (x := bS B t - 1) (n := k) (by omega) (by omega) (by omega)
    refine ⟨c, hc, j, hj1, ?_, ?_⟩
    · rw [hj2, gap_take (by omega) (by omega)]
      rfl
    · rw [hj2, gap_drop (by omega) (by omega)]
      simp only [Nd.cols]
      rw [show bS B t - 1 + 1 = bS B t by omega, Nat.sub_self]
      simp

end DFam

end SkaModel.LOE
