/-
`ska lo`: `processIndels` and `analyse` do not panic on the groups of a table's graph
(item 4 of `SkaModel/Props/C17Real.lean`).
-/
import SkaModel.Lemmas.LOReal3

namespace SkaModel.LORL

open SkaModel SkaModel.Skalo SkaModel.Spec SkaModel.Props.C16 SkaModel.Props.C17G SkaModel.LOG

/-! ### `processIndels` -/

theorem recOf_some (W kGraph n mNum mDen : Nat) (col : Colours) (v0 v1 : Variant)
    (h0 : ∃ S, Assoc.lookup col (encodeKmer W (v0.1.take (kGraph + 1))) = some S)
    (h1 : ∃ S, Assoc.lookup col (encodeKmer W (v1.1.take (kGraph + 1))) = some S) :
    ∃ o, LOP.recOf W kGraph n mNum mDen col [v0, v1] = some o := by
  obtain ⟨S0, h0⟩ := h0
  obtain ⟨S1, h1⟩ := h1
  rw [LOP.recOf_eq]
  simp only [List.filterMap_cons, h0, h1, List.filterMap_nil, List.getElem?_cons_zero,
    List.getElem?_cons_succ, Option.bind_some]
  split <;> exact ⟨_, rfl⟩

/-- `processIndels` succeeds when every indel group has two variants whose first k-mers are coloured -/
theorem processIndels_some (W kGraph n mNum mDen : Nat) (col : Colours)
    (ig : List ((Nat × Nat) × List Variant))
    (h : ∀ kv ∈ ig, ∃ v0 v1, kv.2 = [v0, v1] ∧
      (∃ S, Assoc.lookup col (encodeKmer W (v0.1.take (kGraph + 1))) = some S) ∧
      (∃ S, Assoc.lookup col (encodeKmer W (v1.1.take (kGraph + 1))) = some S)) :
    ∃ r, processIndels W kGraph n mNum mDen col ig = some r := by
  rw [LOP.processIndels_eq]
  have hm := mapM_some
    (fun (kg : IndelGroup) => LOP.recOf W kGraph n mNum mDen col ((Assoc.lookup ig (kg.entry, kg.exit)).getD []))
    ((dereplicate W kGraph (ig.map LOP.toGroup)).1.mergeSort
      (fun a b => keyLe (a.entry, a.exit) (b.entry, b.exit))) ?_
  · obtain ⟨recs, hrecs⟩ := hm
    rw [hrecs]
    exact ⟨_, rfl⟩
  · intro kg hkg
    have hkg' := (List.mergeSort_perm _ _).mem_iff.mp hkg
    obtain ⟨vs, hvs, hmem⟩ := LOP.kept_lookup W kGraph ig kg hkg'
    obtain ⟨v0, v1, e, h0, h1⟩ := h _ hmem
    simp only at e
    rw [hvs, Option.getD_some, e]
    exact recOf_some W kGraph n mNum mDen col v0 v1 h0 h1

/-! ### `analyse` -/

/-- `analyse` succeeds when `processIndels` does and every sub-list of the variants of every SNP group
leaves room (`Roomy`) -/
theorem analyse_some (W kGraph n mNum mDen ik : Nat) (col : Colours) (gr : Groups)
    (hi : ∃ r, processIndels W kGraph n mNum mDen col gr.indelGroups = some r)
    (hs : ∀ kv ∈ gr.snpGroups, ∀ p : Variant → Bool, Roomy W kGraph col (kv.2.filter p)) :
    ∃ r, analyse W kGraph n mNum mDen ik col gr = some r := by
  obtain ⟨⟨recs, ext⟩, hpi⟩ := hi
  unfold analyse
  rw [hpi]
  simp only [Option.bind_eq_bind, Option.bind_some]
  refine bind_some _ _ ?_ (fun s => ⟨_, rfl⟩)
  apply foldlM_some
  intro kv hkv acc
  rw [mem_foldr_insertByRatio, List.mem_filter, List.mem_mergeSort, List.mem_map] at hkv
  obtain ⟨⟨kv0, hkv0, he⟩, _⟩ := hkv
  subst he
  split
  · split
    · exact ⟨_, rfl⟩
    · simp only []
      refine bind_some _ _ (groupSnps_some W kGraph n mNum mDen col _ _ (hs kv0 hkv0 _)) ?_
      rintro ⟨c, s⟩
      exact ⟨_, rfl⟩
  · exact ⟨_, rfl⟩

/-! ### the table pipeline -/

theorem table_indels_ok (W : Nat) (a : Arr) (hk : ValidK a.k) (hw : WidthOk W a.k)
    (hkeys : ∀ key ∈ a.kmers, key < 4 ^ (a.k - 1)) (starts ends : List Nat) (maxDepth : Nat) :
    ∀ kv ∈ (buildVariantGroups W (a.k - 1) (buildGraph W a).1 starts ends maxDepth).indelGroups,
      ∃ v0 v1, kv.2 = [v0, v1] ∧
      (∃ S, Assoc.lookup (buildGraph W a).2 (encodeKmer W (v0.1.take (a.k - 1 + 1))) = some S) ∧
      (∃ S, Assoc.lookup (buildGraph W a).2 (encodeKmer W (v1.1.take (a.k - 1 + 1))) = some S) := by
  intro kv hkv
  obtain ⟨hh2, hkh, hkW⟩ := validK_bounds hk hw
  have hkv' := hkv
  rw [LOP.buildVariantGroups_eq] at hkv'
  obtain ⟨v0, v1, e, _, _⟩ := LOP.clsIndel_spec (a.k - 1) kv.2 (List.mem_filter.mp hkv').2
  refine ⟨v0, v1, e, ?_, ?_⟩
  · have hs := var_spec W a hk hw hkeys starts ends maxDepth kv (List.mem_append_right _ hkv) v0
      (by rw [e]; simp)
    obtain ⟨path, _, _, _, _, _, _, h3, hlen, _, _⟩ := hs.ex
    obtain ⟨S, hS, _⟩ := var_windows_coloured W a hk hw hkeys kv.1 v0 hs 0 (by omega)
    rw [List.drop_zero] at hS
    exact ⟨S, hS⟩
  · have hs := var_spec W a hk hw hkeys starts ends maxDepth kv (List.mem_append_right _ hkv) v1
      (by rw [e]; simp)
    obtain ⟨path, _, _, _, _, _, _, h3, hlen, _, _⟩ := hs.ex
    obtain ⟨S, hS, _⟩ := var_windows_coloured W a hk hw hkeys kv.1 v1 hs 0 (by omega)
    rw [List.drop_zero] at hS
    exact ⟨S, hS⟩

theorem table_snps_roomy (W : Nat) (a : Arr) (hk : ValidK a.k) (hw : WidthOk W a.k)
    (hkeys : ∀ key ∈ a.kmers, key < 4 ^ (a.k - 1)) (starts ends : List Nat) (maxDepth : Nat) :
    ∀ kv ∈ (buildVariantGroups W (a.k - 1) (buildGraph W a).1 starts ends maxDepth).snpGroups,
      ∀ p : Variant → Bool, Roomy W (a.k - 1) (buildGraph W a).2 (kv.2.filter p) := by
  intro kv hkv p
  obtain ⟨hh2, hkh, hkW⟩ := validK_bounds hk hw
  have hspec : ∀ v ∈ kv.2.filter p, VarSpec W (a.k - 1) (buildGraph W a).1 kv.1 v := fun v hv =>
    var_spec W a hk hw hkeys starts ends maxDepth kv (List.mem_append_left _ hkv) v (List.mem_filter.mp hv).1
  have hlen : ∀ v ∈ kv.2.filter p, ∀ v' ∈ kv.2.filter p, v.1.length = v'.1.length := fun v hv v' hv' =>
    snp_equal_length W (a.k - 1) _ starts ends maxDepth kv hkv v (List.mem_filter.mp hv).1 v'
      (List.mem_filter.mp hv').1
  refine roomy_of_shared W (a.k - 1) _ _ hlen ?_ ?_
  · intro v hv v' hv'
    exact var_shared W (a.k - 1) (by omega) _ kv.1 v v' (hspec v hv) (hspec v' hv') (hlen v hv v' hv')
  · intro v hv i hi
    obtain ⟨S, hS, _⟩ := var_windows_coloured W a hk hw hkeys kv.1 v (hspec v hv) i (by omega)
    exact ⟨S, hS⟩

/-- **the caller does not panic on the groups of a table's graph** -/
theorem analyse_table_some (W : Nat) (a : Arr) (hk : ValidK a.k) (hw : WidthOk W a.k)
    (hkeys : ∀ key ∈ a.kmers, key < 4 ^ (a.k - 1)) (starts ends : List Nat)
    (maxDepth n mNum mDen ik : Nat) :
    ∃ r, analyse W (a.k - 1) n mNum mDen ik (buildGraph W a).2
      (buildVariantGroups W (a.k - 1) (buildGraph W a).1 starts ends maxDepth) = some r :=
  analyse_some W (a.k - 1) n mNum mDen ik _ _
    (processIndels_some W (a.k - 1) n mNum mDen _ _
      (table_indels_ok W a hk hw hkeys starts ends maxDepth))
    (table_snps_roomy W a hk hw hkeys starts ends maxDepth)

end SkaModel.LORL
