/-
`ska lo`: the sequence of a reported variant spells the nodes of its path
(item 6 of `SkaModel/Props/C17Paths.lean`).
-/
import SkaModel.Lemmas.LOPathWalk
import SkaModel.Lemmas.LOGraph

namespace SkaModel.LOG

open SkaModel SkaModel.Skalo SkaModel.Spec SkaModel.Props.C16 SkaModel.Props.C17G

/-- the `k` lowest base-4 digits of `x`, most significant first -/
def digs : Nat → Nat → List Nat
  | 0, _ => []
  | k + 1, x => digs k (x / 4) ++ [x % 4]

theorem digs_length : ∀ (k x : Nat), (digs k x).length = k
  | 0, _ => rfl
  | k + 1, x => by simp [digs, digs_length k]

theorem digs_codes : ∀ (k x : Nat), Codes (digs k x)
  | 0, _ => Codes.nil
  | k + 1, x => by
    unfold digs
    exact Codes.append (digs_codes k _) (Codes.cons (Nat.mod_lt _ (by omega)) Codes.nil)

theorem packL_digs : ∀ (k x : Nat), packL (digs k x) = x % 4 ^ k
  | 0, x => by simp [digs, packL_nil, Nat.mod_one]
  | k + 1, x => by
    unfold digs
    rw [packL_snoc, packL_digs k, Nat.pow_succ, Nat.mul_comm (4 ^ k) 4, Nat.mod_mul]
    omega

theorem digs_head : ∀ (m a : Nat), digs (m + 1) a = (a / 4 ^ m % 4) :: digs m a
  | 0, a => by simp [digs]
  | m + 1, a => by
    rw [digs, digs_head m (a / 4), Nat.div_div_eq_div_mul, List.cons_append]
    congr 2
    · rw [Nat.pow_succ, Nat.mul_comm]

theorem digs_mod : ∀ (m a : Nat), digs m (a % 4 ^ m) = digs m a
  | 0, _ => rfl
  | m + 1, a => by
    unfold digs
    have h1 : a % 4 ^ (m + 1) % 4 = a % 4 :=
      Nat.mod_mod_of_dvd a ⟨4 ^ m, by rw [Nat.pow_succ, Nat.mul_comm]⟩
    have h2 : a % 4 ^ (m + 1) / 4 = a / 4 % 4 ^ m := by
      rw [Nat.pow_succ, Nat.mul_comm (4 ^ m) 4, Nat.mod_mul_right_div_self]
    rw [h1, h2, digs_mod m]

/-- overlapping nodes: the digits of `b` are the digits of `a` shifted by one -/
theorem digs_overlap (m a b : Nat) (h : Overlap (m + 1) a b) :
    digs (m + 1) b = digs m a ++ [b % 4] := by
  unfold Overlap at h
  rw [Nat.add_sub_cancel] at h
  rw [digs, h, digs_mod]

theorem skaloDecode_digs (W k x : Nat) (hx : x < 4 ^ k) (hW : 2 * k < W) :
    skaloDecode W x k = (digs k x).map decodeBase := by
  have := T16_skalo_decode W k (digs k x) (digs_codes k x) (digs_length k x) hW
  rwa [packL_digs, Nat.mod_eq_of_lt hx] at this

/-- the 2-bit codes of the sequence of a path `a :: rest` -/
def cseq (k a : Nat) (rest : List Nat) : List Nat := digs k a ++ rest.map (· % 4)

theorem cseq_codes (k a : Nat) (rest : List Nat) : Codes (cseq k a rest) :=
  Codes.append (digs_codes k a) (Codes.map_of _ _ (fun _ => Nat.mod_lt _ (by omega)))

theorem cseq_step (m a b : Nat) (rest : List Nat) (h : Overlap (m + 1) a b) :
    cseq (m + 1) a (b :: rest) = (a / 4 ^ m % 4) :: cseq (m + 1) b rest := by
  unfold cseq
  rw [digs_overlap m a b h, digs_head]
  simp

/-- every window of the code sequence packs to the corresponding node -/
theorem cseq_windows (m : Nat) : ∀ (rest : List Nat) (a : Nat),
    ChainR (Overlap (m + 1)) (a :: rest) → (∀ n ∈ a :: rest, n < 4 ^ (m + 1)) →
    ∀ i x, (a :: rest)[i]? = some x →
      packL (((cseq (m + 1) a rest).drop i).take (m + 1)) = x := by
  intro rest
  induction rest with
  | nil =>
    intro a _ hlt i x hi
    cases i with
    | zero =>
      simp at hi
      subst hi
      unfold cseq
      rw [List.drop_zero, List.map_nil, List.append_nil, List.take_of_length_le (by rw [digs_length]; omega),
        packL_digs, Nat.mod_eq_of_lt (hlt a (List.mem_cons_self ..))]
    | succ i => simp at hi
  | cons b rest ih =>
    intro a hch hlt i x hi
    cases i with
    | zero =>
      simp at hi
      subst hi
      unfold cseq
      rw [List.drop_zero, List.take_left' (digs_length _ _), packL_digs,
        Nat.mod_eq_of_lt (hlt a (List.mem_cons_self ..))]
    | succ i =>
      rw [List.getElem?_cons_succ] at hi
      rw [cseq_step m a b rest hch.1, List.drop_succ_cons]
      exact ih b hch.2 (fun n hn => hlt n (List.mem_cons_of_mem _ hn)) i x hi

theorem chainR_of_getElem? {R : Nat → Nat → Prop} :
    ∀ (l : List Nat), (∀ i a b, l[i]? = some a → l[i + 1]? = some b → R a b) → ChainR R l
  | [], _ => trivial
  | [_], _ => trivial
  | a :: b :: rest, h =>
    ⟨h 0 a b rfl rfl, chainR_of_getElem? (b :: rest) (fun i x y hx hy => h (i + 1) x y hx hy)⟩

/-- the sequence of `buildVariant` in terms of codes -/
theorem buildVariant_seq (W kGraph : Nat) (starts ends : List Nat) (a : Nat) (rest : List Nat)
    (ha : a < 4 ^ kGraph) (hW : 2 * kGraph < W) :
    (buildVariant W kGraph starts ends a (a :: rest)).1 = (cseq kGraph a rest).map decodeBase := by
  unfold buildVariant cseq
  simp only [List.drop_succ_cons, List.drop_zero]
  rw [skaloDecode_digs W kGraph a ha hW, List.map_append, List.map_map]
  congr 1
  apply List.map_congr_left
  intro n _
  show decodeBase (n &&& 3) = decodeBase (n % 4)
  rw [and_three]

theorem encode_window (W k : Nat) (cs : List Nat) (hc : Codes cs) (i : Nat) (hW : 2 * k ≤ W) :
    encodeKmer W (((cs.map decodeBase).drop i).take k) = packL ((cs.drop i).take k) := by
  rw [← List.map_drop, ← List.map_take, T16_encode W _ (by rw [List.length_map, List.length_take]; omega),
    map_code_decodeBase _ ((hc.drop i).take k)]

end SkaModel.LOG
