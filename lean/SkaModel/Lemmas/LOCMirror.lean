/-
C17 completeness — the reverse-complemented family is a planted family again (sites mirrored), and the
reverse nodes of a family are the forward nodes of the reverse-complemented family.
-/
import SkaModel.Lemmas.LOCPlant
import SkaModel.Lemmas.LOCGraph

namespace SkaModel.LOC

open SkaModel SkaModel.Spec SkaModel.Props.C16 SkaModel.Skalo

/-- the samples on the other strand -/
def rcFam (S : List (List UInt8)) : List (List UInt8) := S.map rcSeq

/-- the sites on the other strand, increasing -/
def mirrorP (L : Nat) (P : List Nat) : List Nat := (P.map (fun p => L - 1 - p)).reverse

theorem mem_mirrorP (L : Nat) (P : List Nat) (q : Nat) : q ∈ mirrorP L P ↔ ∃ p ∈ P, q = L - 1 - p := by
  unfold mirrorP
  rw [List.mem_reverse, List.mem_map]
  constructor
  · rintro ⟨p, hp, rfl⟩; exact ⟨p, hp, rfl⟩
  · rintro ⟨p, hp, rfl⟩; exact ⟨p, hp, rfl⟩

theorem rcSeq_win {s : List UInt8} {j m : Nat} (h : j + m ≤ s.length) :
    rcSeq (win s j m) = win (rcSeq s) (s.length - m - j) m := by
  unfold rcSeq win
  rw [← List.map_drop, ← List.map_take]
  congr 1
  rw [List.reverse_take, List.reverse_drop, List.length_drop, List.drop_take]
  have e1 : s.length - j - (s.length - j - m) = m := by omega
  have e2 : s.length - j - m = s.length - m - j := by omega
  rw [e1, e2]

theorem rcSeq_getD {s : List UInt8} {j : Nat} (h : j < s.length) :
    (rcSeq s).getD j 0 = compl (s.getD (s.length - 1 - j) 0) := by
  unfold rcSeq
  rw [List.getD_eq_getElem?_getD, List.getElem?_map, List.getElem?_reverse h,
    List.getD_eq_getElem?_getD, List.getElem?_eq_getElem (by omega)]
  rfl

theorem compl_inj {a b : UInt8} (ha : isBase a = true) (hb : isBase b = true) (e : compl a = compl b) : a = b := by
  rw [← compl_compl ha, e, compl_compl hb]

theorem getD_mem {s : List UInt8} {j : Nat} (h : j < s.length) : s.getD j 0 ∈ s := by
  rw [List.getD_eq_getElem?_getD, List.getElem?_eq_getElem h]
  exact List.getElem_mem _

/-- the reverse node of `s` at `j` is the forward node of the reverse complement at the mirrored coordinate -/
theorem rN_eq_fN {k : Nat} {s : List UInt8} (hb : AllBase s) {j : Nat} (hj : j + (k - 1) ≤ s.length) :
    rN k s j = fN k (rcSeq s) (s.length - (k - 1) - j) := by
  unfold rN fN
  rw [← cds_rcSeq (hb.win _ _), rcSeq_win hj]

/-- **the mirrored family is planted** -/
theorem PFam.mirror {k L : Nat} {S : List (List UInt8)} {P : List Nat} (h : PFam k L S P) :
    PFam k L (rcFam S) (mirrorP L P) := by
  have hmem : ∀ s', s' ∈ rcFam S → ∃ s ∈ S, s' = rcSeq s := by
    intro s' hs'
    obtain ⟨s, hs, rfl⟩ := List.mem_map.mp hs'
    exact ⟨s, hs, rfl⟩
  refine ⟨⟨?_, ?_⟩, ?_, ?_, ?_, ?_, ?_, ?_⟩
  · intro s' hs'
    obtain ⟨s, hs, rfl⟩ := hmem s' hs'
    rw [rcSeq_length, h.len hs]
  · intro s' hs'
    obtain ⟨s, hs, rfl⟩ := hmem s' hs'
    exact (h.base hs).rcSeq
  · intro e
    exact h.ne (List.map_eq_nil_iff.mp e)
  · intro s' hs' t' ht' j hj hjP
    obtain ⟨s, hs, rfl⟩ := hmem s' hs'
    obtain ⟨t, ht, rfl⟩ := hmem t' ht'
    rw [rcSeq_getD (by rw [h.len hs]; exact hj), rcSeq_getD (by rw [h.len ht]; exact hj), h.len hs, h.len ht]
    congr 1
    apply h.off s hs t ht _ (by omega)
    intro hp
    apply hjP
    rw [mem_mirrorP]
    exact ⟨_, hp, by omega⟩
  · intro q hq
    obtain ⟨p, hp, rfl⟩ := (mem_mirrorP L P q).mp hq
    obtain ⟨s, hs, t, ht, hne⟩ := h.poly p hp
    have hpe := h.ends p hp
    refine ⟨rcSeq s, List.mem_map.mpr ⟨s, hs, rfl⟩, rcSeq t, List.mem_map.mpr ⟨t, ht, rfl⟩, ?_⟩
    rw [rcSeq_getD (by rw [h.len hs]; omega), rcSeq_getD (by rw [h.len ht]; omega), h.len hs, h.len ht]
    have e : L - 1 - (L - 1 - p) = p := by omega
    rw [e]
    intro ec
    exact hne (compl_inj (h.base hs _ (getD_mem (by rw [h.len hs]; omega)))
      (h.base ht _ (getD_mem (by rw [h.len ht]; omega))) ec)
  · intro q hq
    obtain ⟨p, hp, rfl⟩ := (mem_mirrorP L P q).mp hq
    have := h.ends p hp
    omega
  · unfold mirrorP
    rw [List.pairwise_reverse, List.pairwise_map]
    refine h.apart.imp_of_mem ?_
    intro a b ha hb hab
    have := h.ends b hb
    omega
  · intro s' hs' t' ht' j j' hj hj'
    obtain ⟨s, hs, rfl⟩ := hmem s' hs'
    obtain ⟨t, ht, rfl⟩ := hmem t' ht'
    have e1 : win (rcSeq s) j (k - 1) = rcSeq (win s (L - (k - 1) - j) (k - 1)) := by
      rw [rcSeq_win (by rw [h.len hs]; omega), h.len hs]
      congr 1
      omega
    have e2 : win (rcSeq t) j' (k - 1) = rcSeq (win t (L - (k - 1) - j') (k - 1)) := by
      rw [rcSeq_win (by rw [h.len ht]; omega), h.len ht]
      congr 1
      omega
    rw [e1, e2]
    constructor
    · intro e
      have := (h.uniq s hs t ht (L - (k - 1) - j) (L - (k - 1) - j') (by omega) (by omega)).1
        (rcSeq_inj ((h.base hs).win _ _) ((h.base ht).win _ _) e)
      omega
    · rw [rcSeq_rcSeq ((h.base ht).win _ _)]
      intro e
      exact (h.uniq t ht s hs (L - (k - 1) - j') (L - (k - 1) - j) (by omega) (by omega)).2 e.symm

/-- the two strands have no `(k-1)`-mer in common -/
theorem PFam.cross {k L : Nat} {S : List (List UInt8)} {P : List Nat} (h : PFam k L S P)
    {s t' : List UInt8} (hs : s ∈ S) (ht' : t' ∈ rcFam S) {j j' : Nat} (hj : j + (k - 1) ≤ L)
    (hj' : j' + (k - 1) ≤ L) : win s j (k - 1) ≠ win t' j' (k - 1) := by
  obtain ⟨t, ht, rfl⟩ := List.mem_map.mp ht'
  have e2 : win (rcSeq t) j' (k - 1) = rcSeq (win t (L - (k - 1) - j') (k - 1)) := by
    rw [rcSeq_win (by rw [h.len ht]; omega), h.len ht]
    congr 1
    omega
  rw [e2]
  exact (h.uniq s hs t ht j (L - (k - 1) - j') hj (by omega)).2

end SkaModel.LOC
