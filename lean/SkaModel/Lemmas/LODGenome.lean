/-
C17 (second sentence) — the reference as the program keeps it (`genomeBytes`: whitespace removed, upper case):
an A/C/G/T sequence is kept, its lower-case copy gives the same bytes; the checker of Stage 0.
-/
import SkaModel.Lemmas.LODWriter

namespace SkaModel.LOD

open SkaModel SkaModel.Spec SkaModel.Props.C16 SkaModel.Skalo SkaModel.LOC

theorem genomeBytes_base {A : List UInt8} (h : AllBase A) : genomeBytes A = A := by
  unfold genomeBytes
  induction A with
  | nil => rfl
  | cons b rest ih =>
    have hb := h b (List.mem_cons_self ..)
    have ih' := ih (fun x hx => h x (List.mem_cons_of_mem _ hx))
    rcases isBase_cases hb with rfl | rfl | rfl | rfl <;>
      (rw [List.filter_cons_of_pos (by decide), List.map_cons, ih']; rfl)

theorem genomeBytes_lower {A : List UInt8} (h : AllBase A) : genomeBytes (lowerSeq A) = A := by
  unfold genomeBytes lowerSeq
  induction A with
  | nil => rfl
  | cons b rest ih =>
    have hb := h b (List.mem_cons_self ..)
    have ih' := ih (fun x hx => h x (List.mem_cons_of_mem _ hx))
    rcases isBase_cases hb with rfl | rfl | rfl | rfl <;>
      (rw [List.map_cons, List.filter_cons_of_pos (by decide), List.map_cons, ih']; rfl)

/-- the hypothesis "every site shows the base of the reference in some sample", from its decidable form -/
theorem ancShown_of_B {A : List UInt8} {S : List (List UInt8)} {P : List Nat} (h : ancShownB A S P = true) :
    ∀ p ∈ P, ∃ s ∈ S, s.getD p 0 = A.getD p 0 := by
  unfold ancShownB at h
  simp only [List.all_eq_true, List.any_eq_true, beq_iff_eq] at h
  exact h

/-- the checker accepts when the pipeline returns a permutation of the expected pairs -/
theorem refCompleteOn_of (W k n mNum mDen ik maxDepth : Nat) (a : Arr) (genome : List UInt8)
    (truth : List (Nat × List UInt8))
    (h : ∃ placed, loRef W k n mNum mDen ik maxDepth a genome = some (placed, []) ∧ placed.Perm truth) :
    refCompleteOn W k n mNum mDen ik maxDepth a genome truth = true := by
  obtain ⟨placed, h1, h2⟩ := h
  unfold refCompleteOn
  rw [h1]
  exact List.isPerm_iff.mpr h2

end SkaModel.LOD
