/-
C18 completeness — the variant groups on a graph of bubbles: from the entry node of a bubble exactly one
group ends at its exit node, with the two paths of the bubble; all other groups consist of longer paths.
Classification: the indel groups are exactly the bubbles, every SNP group starts at an entry node.
-/
import SkaModel.Lemmas.LOEBubX

namespace SkaModel.LOE

open SkaModel SkaModel.Skalo SkaModel.Props.C17G SkaModel.LOG SkaModel.LOC

/-- the two variants of a bubble, in one of the two orders -/
def bubVs (W kG : Nat) (starts ends : List Nat) (β : Bub) (o : Bool) : List Variant :=
  if o then [buildVariant W kG starts ends β.en β.pb, buildVariant W kG starts ends β.en β.pa]
  else [buildVariant W kG starts ends β.en β.pa, buildVariant W kG starts ends β.en β.pb]

/-- the group of a bubble -/
def bubGroup (W kG : Nat) (starts ends : List Nat) (β : Bub) (o : Bool) : (Nat × Nat) × List Variant :=
  ((β.en, β.ex), bubVs W kG starts ends β o)

namespace BG

variable {g : Graph} {bs : List Bub}

theorem two_paths_ok (bg : BG g bs) {β : Bub} (hβ : β ∈ bs) (paths : List (List Nat))
    (hp : paths = [β.pa, β.pb] ∨ paths = [β.pb, β.pa]) :
    (paths.map (fun v => v.getD 1 0)).eraseDups.length > 1 ∧
    (paths.map (fun v => v.getD (v.length - 2) 0)).eraseDups.length > 1 ∧ (paths.length == 2) = true := by
  have h1 := bg.pa_getD1 hβ
  have h2 := bg.pb_getD1 hβ
  have h3 : β.pa.getD (β.pa.length - 2) 0 = β.la := path_secondLast _ _ _ (bg.a_ne hβ)
  have h4 : β.pb.getD (β.pb.length - 2) 0 = β.lb := path_secondLast _ _ _ (bg.b_ne hβ)
  have hne := bg.ha_ne_hb hβ
  have hne2 := bg.lastne β hβ
  simp only [List.getD_eq_getElem?_getD] at h1 h2 h3 h4
  refine ⟨?_, ?_, ?_⟩
  · apply (SNP.two_le_eraseDups_iff _).mpr
    refine ⟨β.ha, ?_, β.hb, ?_, hne⟩ <;> rcases hp with rfl | rfl <;> simp [h1, h2]
  · apply (SNP.two_le_eraseDups_iff _).mpr
    refine ⟨β.la, ?_, β.lb, ?_, hne2⟩ <;> rcases hp with rfl | rfl <;> simp [h3, h4]
  · rcases hp with rfl | rfl <;> rfl

/-- the bubble is reported from its entry node -/
theorem group_bubble (bg : BG g bs) {kG : Nat} (fr : Far kG g bs) {starts ends : List Nat} (ex : Ext bs starts ends)
    {β : Bub} (hβ : β ∈ bs) (W maxDepth : Nat) :
    ∃ o, bubGroup W kG starts ends β o ∈ groupsFrom W kG (compactGraph g starts ends).1
      (compactGraph g starts ends).2 starts ends maxDepth β.en := by
  have key : ∀ paths, (paths = [β.pa, β.pb] ∨ paths = [β.pb, β.pa]) →
      (β.ex, paths) ∈ pathsFrom (compactGraph g starts ends).1 (compactGraph g starts ends).2 ends maxDepth β.en →
      ((β.en, β.ex), paths.map (buildVariant W kG starts ends β.en)) ∈ groupsFrom W kG (compactGraph g starts ends).1
        (compactGraph g starts ends).2 starts ends maxDepth β.en := by
    intro paths hp hm
    obtain ⟨h1, h2, h3⟩ := bg.two_paths_ok hβ paths hp
    rw [mem_groupsFrom]
    refine ⟨?_, β.ex, paths, hm, h1, h2, ?_⟩
    · rw [List.any_eq_true]
      refine ⟨_, hm, ?_⟩
      rcases hp with rfl | rfl <;> simp
    · rw [if_pos h3]
  rcases bg.paths_ex fr ex hβ maxDepth with h | h
  · exact ⟨false, key _ (Or.inl rfl) h⟩
  · exact ⟨true, key _ (Or.inr rfl) h⟩

/-- a group from the entry node of a bubble that ends at its exit node is the bubble -/
theorem group_at_ex (bg : BG g bs) {kG : Nat} (fr : Far kG g bs) {starts ends : List Nat} (ex : Ext bs starts ends)
    {β : Bub} (hβ : β ∈ bs) (W maxDepth : Nat) (grp : (Nat × Nat) × List Variant)
    (hg : grp ∈ groupsFrom W kG (compactGraph g starts ends).1 (compactGraph g starts ends).2 starts ends
      maxDepth β.en) (he : grp.1.2 = β.ex) : ∃ o, grp = bubGroup W kG starts ends β o := by
  rw [mem_groupsFrom] at hg
  obtain ⟨_, e, paths, hm, _, _, rfl⟩ := hg
  simp only at he
  subst he
  have huniq : ∀ paths', (β.ex, paths') ∈ pathsFrom (compactGraph g starts ends).1 (compactGraph g starts ends).2
      ends maxDepth β.en → paths = paths' := by
    intro paths' hm'
    rw [((mem_pathsFrom _ _ _ _ _ _ _).mp hm).2, ((mem_pathsFrom _ _ _ _ _ _ _).mp hm').2]
  rcases bg.paths_ex fr ex hβ maxDepth with h | h
  · refine ⟨false, ?_⟩
    rw [huniq _ h]
    rfl
  · refine ⟨true, ?_⟩
    rw [huniq _ h]
    rfl

/-- every other group from the entry node of a bubble consists of sequences of more than `2 kG` letters -/
theorem group_other (bg : BG g bs) {kG : Nat} (fr : Far kG g bs) {starts ends : List Nat} (ex : Ext bs starts ends)
    {β : Bub} (hβ : β ∈ bs) (W maxDepth : Nat) (grp : (Nat × Nat) × List Variant)
    (hg : grp ∈ groupsFrom W kG (compactGraph g starts ends).1 (compactGraph g starts ends).2 starts ends
      maxDepth β.en) (he : grp.1.2 ≠ β.ex) :
    ∀ v ∈ grp.2, 2 * kG < v.1.length := by
  rw [mem_groupsFrom] at hg
  obtain ⟨_, e, paths, hm, _, _, rfl⟩ := hg
  simp only at he
  intro v hv
  simp only at hv
  obtain ⟨p, hp, rfl⟩ := List.mem_map.mp hv
  have hp' : p ∈ paths := by
    split at hp
    · exact hp
    · exact (List.mem_filter.mp hp).1
  rw [LORL.buildVariant_length]
  have := bg.paths_other fr ex hβ maxDepth hm he p hp'
  omega

end BG

/-- what the classification needs of the lengths of the arms: the two arms differ in length and the sequence
of the shorter arm has at most `2 kG` letters -/
structure ArmLen (kG : Nat) (bs : List Bub) : Prop where
  ne : ∀ β ∈ bs, β.a.length ≠ β.b.length
  le : ∀ β ∈ bs, β.a.length + 1 ≤ kG ∨ β.b.length + 1 ≤ kG

theorem bubVs_lengths (W kG : Nat) (starts ends : List Nat) (β : Bub) (o : Bool) :
    ∃ v0 v1, bubVs W kG starts ends β o = [v0, v1] ∧
      ((v0.1.length = kG + β.a.length + 1 ∧ v1.1.length = kG + β.b.length + 1) ∨
       (v0.1.length = kG + β.b.length + 1 ∧ v1.1.length = kG + β.a.length + 1)) := by
  have hpa : β.pa.length = β.a.length + 2 := by simp [Bub.pa]
  have hpb : β.pb.length = β.b.length + 2 := by simp [Bub.pb]
  cases o
  · refine ⟨_, _, rfl, Or.inl ⟨?_, ?_⟩⟩ <;> rw [LORL.buildVariant_length] <;> omega
  · refine ⟨_, _, rfl, Or.inr ⟨?_, ?_⟩⟩ <;> rw [LORL.buildVariant_length] <;> omega

theorem clsIndel_bub {kG : Nat} {bs : List Bub} (al : ArmLen kG bs) (W : Nat) (starts ends : List Nat)
    {β : Bub} (hβ : β ∈ bs) (o : Bool) : LOP.clsIndel kG (bubVs W kG starts ends β o) = true := by
  obtain ⟨v0, v1, e, hl⟩ := bubVs_lengths W kG starts ends β o
  rw [e]
  have h1 := al.ne β hβ
  have h2 := al.le β hβ
  unfold LOP.clsIndel
  simp only [List.length_cons, List.length_nil, List.getD_cons_zero, List.getD_cons_succ, List.any_cons,
    List.any_nil, Bool.or_false]
  rcases hl with ⟨e0, e1⟩ | ⟨e0, e1⟩ <;> rw [e0, e1] <;> simp <;> omega

namespace BG

variable {g : Graph} {bs : List Bub}

/-- **classification of the groups of a graph of bubbles** -/
theorem groups (bg : BG g bs) {starts ends : List Nat} (ex : Ext bs starts ends) {kG : Nat} (al : ArmLen kG bs)
    (fr : Far kG g bs) (W maxDepth : Nat) :
    (∀ kv ∈ (buildVariantGroups W kG g starts ends maxDepth).indelGroups,
      ∃ β ∈ bs, ∃ o, kv = bubGroup W kG starts ends β o) ∧
    (∀ β ∈ bs, ∃ o, bubGroup W kG starts ends β o ∈ (buildVariantGroups W kG g starts ends maxDepth).indelGroups) ∧
    (∀ kv ∈ (buildVariantGroups W kG g starts ends maxDepth).snpGroups, kv.1.1 ∈ starts) := by
  rw [LOP.buildVariantGroups_eq]
  simp only
  refine ⟨?_, ?_, ?_⟩
  · intro kv hkv
    obtain ⟨hm, hc⟩ := List.mem_filter.mp hkv
    unfold LOP.builtGroups at hm
    obtain ⟨kmer, hk, hg⟩ := List.mem_flatMap.mp hm
    obtain ⟨β, hβ, rfl⟩ := (ex.st kmer).mp hk
    by_cases he : kv.1.2 = β.ex
    · obtain ⟨o, e⟩ := bg.group_at_ex fr ex hβ W maxDepth kv hg he
      exact ⟨β, hβ, o, e⟩
    · exfalso
      have hlong := bg.group_other fr ex hβ W maxDepth kv hg he
      obtain ⟨v0, v1, e, _, hle⟩ := LOP.clsIndel_spec kG kv.2 hc
      rcases hle with h | h
      · have := hlong v0 (by rw [e]; simp); omega
      · have := hlong v1 (by rw [e]; simp); omega
  · intro β hβ
    obtain ⟨o, ho⟩ := bg.group_bubble fr ex hβ W maxDepth
    refine ⟨o, List.mem_filter.mpr ⟨?_, clsIndel_bub al W starts ends hβ o⟩⟩
    unfold LOP.builtGroups
    exact List.mem_flatMap.mpr ⟨β.en, (ex.st _).mpr ⟨β, hβ, rfl⟩, ho⟩
  · intro kv hkv
    obtain ⟨hm, _⟩ := List.mem_filter.mp hkv
    unfold LOP.builtGroups at hm
    obtain ⟨kmer, hk, hg⟩ := List.mem_flatMap.mp hm
    rw [mem_groupsFrom] at hg
    obtain ⟨_, e, paths, _, _, _, rfl⟩ := hg
    exact hk

end BG

end SkaModel.LOE
